(* C18: creation fees are charged exactly and burned; accepted fee parameters are usable. *)
From stdpp Require Import gmap.
From RecordUpdate Require Import RecordSet.
From Coq Require Import ZArith NArith List Bool Lia Strings.Byte.
Require Import Regen.Base.Bytes Regen.Base.Calendar Regen.Dec.Dec.
Require Import Regen.Ledger.Types Regen.Ledger.Msgs Regen.Ledger.Orm Regen.Ledger.BaseMsgs
               Regen.Ledger.BasketMsgs Regen.Ledger.MarketMsgs Regen.Ledger.Step
               Regen.Ledger.InvTactics Regen.Ledger.InvFrame.
Import RecordSetNotations ListNotations.
Local Open Scope Z_scope.

(* ---------- bank look-ups after single writes ---------- *)

Lemma bank_bal_set a d z s a' d' :
  bank_bal (set_bank_bal a d z s) a' d' = if decide ((a, d) = (a', d')) then z else bank_bal s a' d'.
Proof.
  unfold bank_bal, set_bank_bal. cbn. destruct (decide ((a, d) = (a', d'))) as [E|E].
  - inversion E; subst. rewrite lookup_insert. reflexivity.
  - rewrite lookup_insert_ne by exact E. reflexivity.
Qed.

Lemma bank_sup_set_bal a d z s d' : bank_sup (set_bank_bal a d z s) d' = bank_sup s d'.
Proof. reflexivity. Qed.

Lemma bank_sup_set d z s d' : bank_sup (set_bank_sup d z s) d' = if decide (d = d') then z else bank_sup s d'.
Proof.
  unfold bank_sup, set_bank_sup. cbn. destruct (decide (d = d')) as [E|E].
  - subst. rewrite lookup_insert. reflexivity.
  - rewrite lookup_insert_ne by exact E. reflexivity.
Qed.

Lemma bank_bal_set_sup d z s a' d' : bank_bal (set_bank_sup d z s) a' d' = bank_bal s a' d'.
Proof. reflexivity. Qed.

(* moving one coin and burning it: the payer loses it, the supply loses it, the module is back where it was *)
Definition fee_effect (payer module : addr) (c : coin) (s s' : state) : Prop :=
  (forall a d, bank_bal s' a d =
     if decide ((a, d) = (payer, c_denom c)) then bank_bal s payer (c_denom c) - c_amount c else bank_bal s a d) /\
  (forall d, bank_sup s' d = if decide (d = c_denom c) then bank_sup s d - c_amount c else bank_sup s d) /\
  nonbank_eq s s'.

Lemma send_burn_one payer module c s s1 s2 :
  payer <> module ->
  send_coins payer module [c] s = LOk s1 -> burn_coins module [c] s1 = LOk s2 ->
  fee_effect payer module c s s2 /\ c_amount c <= bank_bal s payer (c_denom c).
Proof.
  intros Hne Hs Hb.
  assert (Hnb : nonbank_eq s s2).
  { eapply nonbank_eq_trans; [eapply send_coins_nonbank; exact Hs | eapply burn_coins_nonbank; exact Hb]. }
  unfold send_coins in Hs. destruct (negb (coins_valid [c])); [discriminate|].
  cbn [bank_sub_all bank_add_all fold_left] in Hs. lstep Hs as sa Hsa. lstep Hsa as sb Hsb.
  inversion Hsa; subst sa; clear Hsa. inversion Hs; subst s1; clear Hs.
  unfold bank_sub in Hsb. destruct (bank_bal s payer (c_denom c) <? c_amount c) eqn:Elt; [discriminate|].
  inversion Hsb; subst sb; clear Hsb. apply Z.ltb_ge in Elt.
  unfold burn_coins in Hb. destruct (negb (coins_valid [c])); [discriminate|].
  cbn [bank_sub_all fold_left] in Hb. lstep Hb as sc Hsc. lstep Hsc as sd Hsd.
  inversion Hsc; subst sc; clear Hsc. inversion Hb; subst s2; clear Hb.
  unfold bank_sub in Hsd. destruct (_ <? _); [discriminate|]. inversion Hsd; subst sd; clear Hsd.
  split; [|exact Elt]. split; [|split; [|exact Hnb]].
  - intros a d. unfold bank_add, set_bank_sup, set_bank_bal, bank_bal, bank_sup. cbn.
    destruct (decide ((a, d) = (payer, c_denom c))) as [E1|E1].
    + inversion E1; subst a d.
      rewrite lookup_insert_ne by (intros E; inversion E; congruence).
      rewrite lookup_insert_ne by (intros E; inversion E; congruence).
      rewrite lookup_insert. reflexivity.
    + destruct (decide ((a, d) = (module, c_denom c))) as [E2|E2].
      * inversion E2; subst a d. rewrite !lookup_insert. cbn.
        rewrite lookup_insert_ne by (intros E; inversion E; congruence). lia.
      * rewrite !lookup_insert_ne by congruence. reflexivity.
  - intros d. unfold bank_add, set_bank_sup, set_bank_bal, bank_bal, bank_sup. cbn.
    destruct (decide (d = c_denom c)) as [->|E].
    + rewrite lookup_insert. reflexivity.
    + rewrite lookup_insert_ne by congruence. reflexivity.
Qed.

(* ---------- the fee block ---------- *)

(* fee set and positive: a successful charge debits exactly the fee from the payer and burns it *)
Theorem charge_fee_exact req off payer module s s' :
  payer <> module -> 0 < c_amount req ->
  charge_fee (Some req) off payer module s = LOk s' ->
  fee_effect payer module req s s' /\
  (exists o, off = Some o /\ c_denom o = c_denom req /\ c_amount req <= c_amount o) /\
  c_amount req <= bank_bal s payer (c_denom req).
Proof.
  intros Hne Hpos H. unfold charge_fee in H.
  destruct (0 <? c_amount req) eqn:Ep; [|apply Z.ltb_ge in Ep; lia]. cbn [negb] in H.
  destruct off as [o|]; [|discriminate].
  destruct (bytes_eqb (c_denom o) (c_denom req)) eqn:Ed; [|discriminate]. cbn [negb] in H.
  destruct (coin_gte o req) eqn:Eg; [|discriminate]. cbn [negb] in H.
  destruct (bank_bal s payer (c_denom req) <? c_amount req) eqn:El; [discriminate|].
  lstep H as s1 Hs1.
  destruct (send_burn_one _ _ _ _ _ _ Hne Hs1 H) as [He Hb].
  split; [exact He|]. split; [|exact Hb].
  exists o. split; [reflexivity|]. split; [apply bytes_eqb_eq; exact Ed|].
  unfold coin_gte in Eg. apply Z.leb_le in Eg. exact Eg.
Qed.

(* no fee set (or a stored zero fee): nothing is charged, whatever is offered *)
Theorem charge_fee_unset off payer module s : charge_fee None off payer module s = LOk s.
Proof. reflexivity. Qed.

Theorem charge_fee_zero req off payer module s : c_amount req <= 0 -> charge_fee (Some req) off payer module s = LOk s.
Proof. intros H. unfold charge_fee. destruct (0 <? c_amount req) eqn:E; [apply Z.ltb_lt in E; lia | reflexivity]. Qed.

(* an offer below the fee, in another denom, missing, or without funds is rejected *)
Theorem charge_fee_rejects req off payer module s :
  0 < c_amount req ->
  (off = None \/
   (exists o, off = Some o /\ (c_denom o <> c_denom req \/ c_amount o < c_amount req)) \/
   bank_bal s payer (c_denom req) < c_amount req) ->
  exists err, charge_fee (Some req) off payer module s = LErr err.
Proof.
  intros Hpos Hc. unfold charge_fee.
  destruct (0 <? c_amount req) eqn:Ep; [|apply Z.ltb_ge in Ep; lia]. cbn [negb].
  destruct off as [o|]; [|eauto].
  destruct (bytes_eqb (c_denom o) (c_denom req)) eqn:Ed; cbn [negb]; [|eauto].
  apply bytes_eqb_eq in Ed.
  destruct (coin_gte o req) eqn:Eg; cbn [negb]; [|eauto].
  unfold coin_gte in Eg. apply Z.leb_le in Eg.
  destruct (bank_bal s payer (c_denom req) <? c_amount req) eqn:El; [eauto|]. apply Z.ltb_ge in El.
  exfalso. destruct Hc as [Hc|[(o' & Ho & Hc')|Hc]].
  - discriminate Hc.
  - inversion Ho; subst o'. destruct Hc' as [Hc'|Hc']; [congruence | lia].
  - lia.
Qed.

(* and a sufficient offer by a funded payer is accepted: no accepted fee value blocks creation *)
Theorem charge_fee_enabled req o payer module s :
  0 < c_amount req -> valid_denom (c_denom req) = true ->
  c_denom o = c_denom req -> c_amount req <= c_amount o -> c_amount req <= bank_bal s payer (c_denom req) ->
  payer <> module -> 0 <= bank_bal s module (c_denom req) ->
  exists s', charge_fee (Some req) (Some o) payer module s = LOk s'.
Proof.
  intros Hpos Hvd Hd Ha Hb Hne Hmod. unfold charge_fee.
  destruct (0 <? c_amount req) eqn:Ep; [|apply Z.ltb_ge in Ep; lia]. cbn [negb].
  rewrite Hd, bytes_eqb_refl. cbn [negb].
  unfold coin_gte. destruct (c_amount req <=? c_amount o) eqn:Eg; [|apply Z.leb_gt in Eg; lia]. cbn [negb].
  destruct (bank_bal s payer (c_denom req) <? c_amount req) eqn:El; [apply Z.ltb_lt in El; lia|].
  assert (Hcv : coins_valid [req] = true).
  { unfold coins_valid. cbn. rewrite Hvd. destruct (0 <? c_amount req); [reflexivity | discriminate]. }
  unfold send_coins. rewrite Hcv. cbn [negb bank_sub_all bank_add_all fold_left lbind].
  unfold bank_sub at 1. rewrite El. cbn [lbind].
  unfold burn_coins. rewrite Hcv. cbn [negb bank_sub_all lbind fold_left].
  unfold bank_sub. unfold bank_add. rewrite bank_bal_set.
  destruct (decide ((module, c_denom req) = (module, c_denom req))) as [_|N]; [|congruence].
  rewrite bank_bal_set.
  destruct (decide ((payer, c_denom req) = (module, c_denom req))) as [E|_]; [inversion E; congruence|].
  destruct (bank_bal s module (c_denom req) + c_amount req <? c_amount req) eqn:E2.
  - apply Z.ltb_lt in E2. lia.
  - eexists. reflexivity.
Qed.

(* ---------- marketplace fee rates ---------- *)

(* every rate pair the governance message validator (and the state validator) accepts can be used
   by BuyDirect: parsing the stored strings at the point of use succeeds *)
Theorem accepted_fee_params_usable a fp s :
  validate_basic (MGovSetFeeParams a (Some fp)) = true ->
  exists b sl, buyer_rate (s <| fee_params_ := Some fp |>) = LOk b /\ seller_rate (s <| fee_params_ := Some fp |>) = LOk sl.
Proof.
  cbn [validate_basic]. intros H. apply andb_true_iff in H. destruct H as [Hb Hs].
  unfold buyer_rate, seller_rate, fee_rate. cbn.
  unfold is_ok in Hb.
  destruct (fp_buyer fp) as [|c0 r0] eqn:Eb.
  - destruct (fp_seller fp) as [|c1 r1] eqn:Es; [eauto|].
    destruct (non_negative_dec_from_string (c1 :: r1)) as [d|]; [eauto | discriminate].
  - destruct (non_negative_dec_from_string (c0 :: r0)) as [d|]; [|discriminate].
    destruct (fp_seller fp) as [|c1 r1] eqn:Es; [eauto|].
    destruct (non_negative_dec_from_string (c1 :: r1)) as [d'|]; [eauto | discriminate].
Qed.

(* with no fee parameters stored both rates are zero *)
Theorem unset_fee_params_usable s : fee_params_ s = None -> buyer_rate s = LOk dzero /\ seller_rate s = LOk dzero.
Proof. intros H. unfold buyer_rate, seller_rate. rewrite H. auto. Qed.
