(* Proofs about the protobuf wire model: varint round trip, a generic length-delimited round trip,
   and [decode_cosmos_tx (encode_cosmos_tx l) = Some l] for every list of Anys with arbitrary
   byte-string contents (encoded element sizes below 2^63, the bound of Go's [int]). *)
From Coq Require Import List ZArith NArith Bool Strings.Byte Lia.
Require Import Regen.Base.Bytes Regen.Generated.IntertxConsts Regen.Intertx.ProtoWire.
Import ListNotations.
Local Open Scope N_scope.

(* ---------- bytes ---------- *)

Lemma byte_N_of_trunc (n : N) : byte_N (byte_of_N_trunc n) = n mod 256.
Proof.
  unfold byte_N, byte_of_N_trunc.
  destruct (Byte.of_N (n mod 256)) as [x|] eqn:E.
  - apply Byte.to_of_N in E. exact E.
  - apply Byte.of_N_None_iff in E.
    assert (H : n mod 256 < 256) by (apply N.mod_lt; discriminate). lia.
Qed.

Lemma byte_N_of_trunc_small (n : N) : n < 256 -> byte_N (byte_of_N_trunc n) = n.
Proof. intro H. rewrite byte_N_of_trunc. apply N.mod_small. exact H. Qed.

(* ---------- bit arithmetic ---------- *)

Lemma land_low_shiftl (a x s : N) : a < 2 ^ s -> N.land a (N.shiftl x s) = 0.
Proof.
  intro Ha. apply N.bits_inj. intro i. rewrite N.land_spec, N.bits_0.
  destruct (N.lt_ge_cases i s) as [Hi|Hi].
  - rewrite (N.shiftl_spec_low x s i Hi). apply andb_false_r.
  - rewrite <- (N.mod_small a (2 ^ s) Ha). rewrite (N.mod_pow2_bits_high a s i Hi). reflexivity.
Qed.

Lemma lor_low_shiftl (a x s : N) : a < 2 ^ s -> N.lor a (N.shiftl x s) = a + x * 2 ^ s.
Proof.
  intro Ha. pose proof (land_low_shiftl a x s Ha) as Hl.
  rewrite <- (N.lxor_lor _ _ Hl), <- (N.add_nocarry_lxor _ _ Hl), N.shiftl_mul_pow2. reflexivity.
Qed.

(* ---------- varint round trip ---------- *)

Lemma pow2_succ_nat (f : nat) : 2 ^ N.of_nat (S f) = 2 * 2 ^ N.of_nat f.
Proof. rewrite Nat2N.inj_succ, N.pow_succ_r'. reflexivity. Qed.

(* One decoding step on a continuation byte and on a final byte. *)
Lemma decode_step_more (fd : nat) (shift acc g : N) (rest : bytes) :
  g < 128 -> acc < 2 ^ shift -> acc + g * 2 ^ shift < two64 ->
  decode_uvarint_fuel (S fd) shift acc (byte_of_N_trunc (g + 128) :: rest) =
  decode_uvarint_fuel fd (shift + 7) (acc + g * 2 ^ shift) rest.
Proof.
  intros Hg Hacc Hlt. cbn [decode_uvarint_fuel].
  rewrite (byte_N_of_trunc_small (g + 128)) by lia.
  replace ((g + 128) mod 128) with g.
  2:{ replace (g + 128) with (g + 1 * 128) by lia. rewrite N.mod_add by discriminate.
      symmetry. apply N.mod_small. exact Hg. }
  destruct (g + 128 <? 128) eqn:E. { apply N.ltb_lt in E. lia. }
  assert (Hs : N.shiftl g shift mod two64 = N.shiftl g shift).
  { apply N.mod_small. rewrite N.shiftl_mul_pow2. lia. }
  rewrite Hs, (lor_low_shiftl acc g shift Hacc). reflexivity.
Qed.

Lemma decode_step_last (fd : nat) (shift acc g : N) (rest : bytes) :
  g < 128 -> acc < 2 ^ shift -> acc + g * 2 ^ shift < two64 ->
  decode_uvarint_fuel (S fd) shift acc (byte_of_N_trunc g :: rest) = Some (acc + g * 2 ^ shift, rest).
Proof.
  intros Hg Hacc Hlt. cbn [decode_uvarint_fuel].
  rewrite (byte_N_of_trunc_small g) by lia.
  rewrite (N.mod_small g 128 Hg).
  destruct (g <? 128) eqn:E. 2:{ apply N.ltb_ge in E. lia. }
  assert (Hs : N.shiftl g shift mod two64 = N.shiftl g shift).
  { apply N.mod_small. rewrite N.shiftl_mul_pow2. lia. }
  rewrite Hs, (lor_low_shiftl acc g shift Hacc). reflexivity.
Qed.

Lemma uvarint_roundtrip_gen :
  forall (fe : nat) (n : N) (fd : nat) (shift acc : N) (rest : bytes),
    n < 2 ^ N.of_nat fe ->
    7 * N.of_nat fd + shift = 70 ->
    acc < 2 ^ shift ->
    acc + n * 2 ^ shift < two64 ->
    (n = 0 -> shift < 64) ->
    decode_uvarint_fuel fd shift acc (encode_uvarint_fuel fe n ++ rest) = Some (acc + n * 2 ^ shift, rest).
Proof.
  induction fe as [|fe IH]; intros n fd shift acc rest Hfe Hfd Hacc Hlt Hz.
  - (* fe = 0: n < 1 *)
    change (2 ^ N.of_nat 0) with 1 in Hfe. assert (n = 0) by lia. subst n.
    specialize (Hz eq_refl).
    destruct fd as [|fd]. { cbn in Hfd. lia. }
    cbn [encode_uvarint_fuel]. change (0 <? 128) with true. cbn iota. cbn [app].
    apply decode_step_last; [lia | exact Hacc | exact Hlt].
  - cbn [encode_uvarint_fuel].
    assert (Hshift : shift < 64).
    { destruct (N.eq_dec n 0) as [E|E]; [exact (Hz E)|].
      assert (H1 : 1 * 2 ^ shift <= n * 2 ^ shift) by (apply N.mul_le_mono_r; lia).
      assert (H2 : 2 ^ shift < 2 ^ 64) by (unfold two64 in Hlt; lia).
      apply N.pow_lt_mono_r_iff in H2; [exact H2 | lia]. }
    destruct fd as [|fd]. { cbn in Hfd. lia. }
    destruct (n <? 128) eqn:En.
    + apply N.ltb_lt in En. cbn [app].
      apply decode_step_last; [exact En | exact Hacc | exact Hlt].
    + apply N.ltb_ge in En. cbn [app].
      pose proof (N.div_mod n 128 ltac:(discriminate)) as Hdm.
      pose proof (N.mod_lt n 128 ltac:(discriminate)) as Hm.
      assert (Hq : 1 <= n / 128).
      { apply N.div_le_lower_bound; [discriminate | lia]. }
      assert (Hpow : 2 ^ (shift + 7) = 128 * 2 ^ shift).
      { rewrite N.pow_add_r. change (2 ^ 7) with 128. lia. }
      rewrite decode_step_more.
      * rewrite IH.
        -- f_equal. f_equal. rewrite Hpow. nia.
        -- rewrite pow2_succ_nat in Hfe.
           apply N.div_lt_upper_bound; [discriminate|].
           assert (0 < 2 ^ N.of_nat fe) by (apply N.neq_0_lt_0, N.pow_nonzero; discriminate). lia.
        -- rewrite Nat2N.inj_succ in Hfd. lia.
        -- rewrite Hpow. nia.
        -- rewrite Hpow. nia.
        -- intro E. lia.
      * exact Hm.
      * exact Hacc.
      * nia.
Qed.

Theorem uvarint_roundtrip (n : N) (rest : bytes) :
  n < two64 -> decode_uvarint (encode_uvarint n ++ rest) = Some (n, rest).
Proof.
  intro Hn. unfold decode_uvarint, encode_uvarint.
  rewrite (uvarint_roundtrip_gen (N.to_nat (N.size n)) n 10 0 0 rest).
  - f_equal. f_equal. change (2 ^ 0) with 1. lia.
  - rewrite N2Nat.id. apply N.size_gt.
  - reflexivity.
  - reflexivity.
  - change (2 ^ 0) with 1. lia.
  - intros _. reflexivity.
Qed.

(* The encoder never runs out of fuel: with the fuel [encode_uvarint] supplies (or any larger one)
   the result does not depend on the fuel. *)
Lemma encode_uvarint_fuel_enough :
  forall (f1 f2 : nat) (n : N), n < 2 ^ N.of_nat f1 -> n < 2 ^ N.of_nat f2 ->
    encode_uvarint_fuel f1 n = encode_uvarint_fuel f2 n.
Proof.
  induction f1 as [|f1 IH]; intros f2 n H1 H2.
  - change (2 ^ N.of_nat 0) with 1 in H1. assert (n = 0) by lia. subst n.
    destruct f2; reflexivity.
  - destruct f2 as [|f2].
    + change (2 ^ N.of_nat 0) with 1 in H2. assert (n = 0) by lia. subst n. reflexivity.
    + cbn [encode_uvarint_fuel]. destruct (n <? 128) eqn:En; [reflexivity|].
      f_equal. apply IH.
      * rewrite pow2_succ_nat in H1. apply N.div_lt_upper_bound; [discriminate|].
        assert (0 < 2 ^ N.of_nat f1) by (apply N.neq_0_lt_0, N.pow_nonzero; discriminate). lia.
      * rewrite pow2_succ_nat in H2. apply N.div_lt_upper_bound; [discriminate|].
        assert (0 < 2 ^ N.of_nat f2) by (apply N.neq_0_lt_0, N.pow_nonzero; discriminate). lia.
Qed.

Lemma encode_uvarint_nonempty (n : N) : encode_uvarint n <> [].
Proof.
  unfold encode_uvarint.
  destruct (N.to_nat (N.size n)) as [|f] eqn:E.
  - assert (Hs : N.size n = 0) by lia.
    pose proof (N.size_gt n) as Hg. rewrite Hs in Hg. change (2 ^ 0) with 1 in Hg.
    assert (n = 0) by lia. subst n. discriminate.
  - cbn [encode_uvarint_fuel]. destruct (n <? 128); discriminate.
Qed.

(* ---------- generic length-delimited round trip ---------- *)

Lemma blen_app (x y : bytes) : blen (x ++ y) = blen x + blen y.
Proof. unfold blen. rewrite app_length. lia. Qed.

Theorem read_ld_roundtrip (p rest : bytes) :
  blen p < two63 ->
  read_ld (encode_uvarint (blen p) ++ p ++ rest) = Some (p, rest).
Proof.
  intro Hp. unfold read_ld.
  rewrite uvarint_roundtrip by (unfold two63, two64 in *; lia).
  destruct (two63 <=? blen p) eqn:E1. { apply N.leb_le in E1. lia. }
  destruct (blen (p ++ rest) <? blen p) eqn:E2. { apply N.ltb_lt in E2. rewrite blen_app in E2. lia. }
  unfold blen. rewrite Nat2N.id.
  rewrite firstn_app, firstn_all, Nat.sub_diag. cbn [firstn]. rewrite app_nil_r.
  rewrite skipn_app, skipn_all, Nat.sub_diag. cbn [skipn app]. reflexivity.
Qed.

(* a whole field: tag, length, payload *)
Lemma tag_any_type_url : encode_uvarint (tag_ld any_field_type_url) = [x0a].
Proof. reflexivity. Qed.
Lemma tag_any_value : encode_uvarint (tag_ld any_field_value) = [x12].
Proof. reflexivity. Qed.
Lemma tag_cosmos_tx_messages : encode_uvarint (tag_ld cosmos_tx_field_messages) = [x0a].
Proof. reflexivity. Qed.

Lemma decode_tag_0a (rest : bytes) : decode_uvarint (x0a :: rest) = Some (10, rest).
Proof. reflexivity. Qed.
Lemma decode_tag_12 (rest : bytes) : decode_uvarint (x12 :: rest) = Some (18, rest).
Proof. reflexivity. Qed.
Lemma split_tag_10 : split_tag 10 = Some (1, 2).
Proof. reflexivity. Qed.
Lemma split_tag_18 : split_tag 18 = Some (2, 2).
Proof. reflexivity. Qed.

(* ---------- Any ---------- *)

Lemma decode_any_fuel_nil (f : nat) (acc : any) : decode_any_fuel f [] acc = DOk acc.
Proof. destruct f; reflexivity. Qed.

Lemma decode_any_step_type_url (f : nat) (p rest : bytes) (acc : any) :
  blen p < two63 ->
  decode_any_fuel (S f) (encode_ld any_field_type_url p ++ rest) acc =
  decode_any_fuel f rest (MkAny p (any_value acc)).
Proof.
  intro Hp. unfold encode_ld. rewrite tag_any_type_url.
  cbn [app]. cbn [decode_any_fuel].
  rewrite decode_tag_0a, split_tag_10.
  change (1 =? any_field_type_url) with true. change (2 =? wire_type_len) with true. cbn iota.
  rewrite <- app_assoc, read_ld_roundtrip by exact Hp. reflexivity.
Qed.

Lemma decode_any_step_value (f : nat) (p rest : bytes) (acc : any) :
  blen p < two63 ->
  decode_any_fuel (S f) (encode_ld any_field_value p ++ rest) acc =
  decode_any_fuel f rest (MkAny (type_url acc) p).
Proof.
  intro Hp. unfold encode_ld. rewrite tag_any_value.
  cbn [app]. cbn [decode_any_fuel].
  rewrite decode_tag_12, split_tag_18.
  change (2 =? any_field_type_url) with false. change (2 =? any_field_value) with true.
  change (2 =? wire_type_len) with true. cbn iota.
  rewrite <- app_assoc, read_ld_roundtrip by exact Hp. reflexivity.
Qed.

Lemma encode_ld_length (field : N) (p : bytes) :
  (length p + 2 <= length (encode_ld field p))%nat.
Proof.
  unfold encode_ld. rewrite !app_length.
  pose proof (encode_uvarint_nonempty (tag_ld field)) as H1.
  pose proof (encode_uvarint_nonempty (blen p)) as H2.
  destruct (encode_uvarint (tag_ld field)); [congruence|].
  destruct (encode_uvarint (blen p)); [congruence|]. cbn [length]. lia.
Qed.

Lemma encode_ld_opt_length (field : N) (p : bytes) :
  (length p <= length (encode_ld_opt field p))%nat.
Proof.
  destruct p as [|x p]; [cbn; lia|]. unfold encode_ld_opt.
  pose proof (encode_ld_length field (x :: p)). lia.
Qed.

Lemma any_fields_small (a : any) :
  blen (encode_any a) < two63 -> blen (type_url a) < two63 /\ blen (any_value a) < two63.
Proof.
  unfold encode_any. rewrite blen_app. unfold blen.
  pose proof (encode_ld_opt_length any_field_type_url (type_url a)).
  pose proof (encode_ld_opt_length any_field_value (any_value a)). lia.
Qed.

(* fuel: any amount that is at least 2 works on an encoded Any *)
Lemma decode_any_fuel_encode (a : any) (fuel : nat) :
  blen (type_url a) < two63 -> blen (any_value a) < two63 ->
  (2 <= fuel)%nat ->
  decode_any_fuel fuel (encode_any a) (MkAny [] []) = DOk a.
Proof.
  intros Ht Hv Hf. destruct a as [t v]. cbn [type_url any_value] in *. unfold encode_any.
  cbn [type_url any_value].
  destruct fuel as [|[|f]]; [lia | lia |].
  destruct t as [|t0 t]; destruct v as [|v0 v]; unfold encode_ld_opt.
  - reflexivity.
  - cbn [app]. rewrite <- (app_nil_r (encode_ld any_field_value (v0 :: v))).
    rewrite decode_any_step_value by exact Hv. rewrite decode_any_fuel_nil. reflexivity.
  - rewrite decode_any_step_type_url by exact Ht. rewrite decode_any_fuel_nil. reflexivity.
  - rewrite decode_any_step_type_url by exact Ht.
    rewrite <- (app_nil_r (encode_ld any_field_value (v0 :: v))).
    rewrite decode_any_step_value by exact Hv. rewrite decode_any_fuel_nil. reflexivity.
Qed.

Theorem decode_any_roundtrip_d (a : any) :
  blen (encode_any a) < two63 -> decode_any_d (encode_any a) = DOk a.
Proof.
  intro H. destruct (any_fields_small a H) as [Ht Hv].
  unfold decode_any_d.
  destruct (le_lt_dec 2 (length (encode_any a))) as [L|L].
  - apply decode_any_fuel_encode; assumption.
  - (* fewer than 2 bytes: both fields are empty *)
    destruct a as [t v]. unfold encode_any in *. cbn [type_url any_value] in *.
    destruct t as [|t0 t].
    + destruct v as [|v0 v]; [reflexivity|].
      unfold encode_ld_opt in L. cbn [app] in L.
      pose proof (encode_ld_length any_field_value (v0 :: v)). lia.
    + unfold encode_ld_opt at 1 in L. rewrite app_length in L.
      pose proof (encode_ld_length any_field_type_url (t0 :: t)). lia.
Qed.

Theorem decode_any_roundtrip (a : any) :
  blen (encode_any a) < two63 -> decode_any (encode_any a) = Some a.
Proof. intro H. unfold decode_any. rewrite decode_any_roundtrip_d by exact H. reflexivity. Qed.

(* ---------- CosmosTx ---------- *)

Definition any_small (a : any) : Prop := blen (encode_any a) < two63.

Lemma decode_cosmos_tx_fuel_encode :
  forall (l : list any) (acc : list any) (fuel : nat),
    Forall any_small l -> (length l <= fuel)%nat ->
    decode_cosmos_tx_fuel fuel (encode_cosmos_tx l) acc = DOk (rev acc ++ l).
Proof.
  induction l as [|a l IH]; intros acc fuel Hall Hf.
  - cbn. destruct fuel; rewrite app_nil_r; reflexivity.
  - inversion Hall as [|? ? Ha Hl]; subst.
    destruct fuel as [|f]; [cbn in Hf; lia|].
    cbn [encode_cosmos_tx flat_map]. fold (encode_cosmos_tx l).
    unfold encode_ld. rewrite tag_cosmos_tx_messages. cbn [app]. cbn [decode_cosmos_tx_fuel].
    rewrite decode_tag_0a, split_tag_10.
    change (1 =? cosmos_tx_field_messages) with true. change (2 =? wire_type_len) with true. cbn iota.
    rewrite <- app_assoc, read_ld_roundtrip by exact Ha.
    rewrite decode_any_roundtrip_d by exact Ha.
    rewrite IH; [|exact Hl | cbn in Hf; lia].
    cbn [rev]. rewrite <- app_assoc. reflexivity.
Qed.

Lemma encode_cosmos_tx_length (l : list any) : (length l <= length (encode_cosmos_tx l))%nat.
Proof.
  induction l as [|a l IH]; [cbn; lia|].
  cbn [encode_cosmos_tx flat_map]. fold (encode_cosmos_tx l). rewrite app_length.
  pose proof (encode_ld_length cosmos_tx_field_messages (encode_any a)). cbn [length]. lia.
Qed.

Theorem decode_cosmos_tx_roundtrip_d (l : list any) :
  Forall any_small l -> decode_cosmos_tx_d (encode_cosmos_tx l) = DOk l.
Proof.
  intro H. unfold decode_cosmos_tx_d.
  rewrite (decode_cosmos_tx_fuel_encode l [] _ H (encode_cosmos_tx_length l)). reflexivity.
Qed.

(* Main round trip: every list of Anys with arbitrary contents is recovered exactly
   (in particular the out-of-fuel outcome does not occur). *)
Theorem decode_cosmos_tx_roundtrip (l : list any) :
  Forall any_small l -> decode_cosmos_tx (encode_cosmos_tx l) = Some l.
Proof. intro H. unfold decode_cosmos_tx. rewrite decode_cosmos_tx_roundtrip_d by exact H. reflexivity. Qed.

(* The encoding is injective on that domain: two different message lists never share a packet. *)
Corollary encode_cosmos_tx_injective (l1 l2 : list any) :
  Forall any_small l1 -> Forall any_small l2 ->
  encode_cosmos_tx l1 = encode_cosmos_tx l2 -> l1 = l2.
Proof.
  intros H1 H2 E. apply decode_cosmos_tx_roundtrip in H1. apply decode_cosmos_tx_roundtrip in H2.
  rewrite E in H1. congruence.
Qed.

(* ---------- a size condition in terms of the contents ---------- *)

Lemma encode_uvarint_fuel_length :
  forall (k fe : nat) (n : N), n < 2 ^ (7 * N.of_nat (S k)) ->
    (length (encode_uvarint_fuel fe n) <= S k)%nat.
Proof.
  induction k as [|k IH]; intros fe n Hn.
  - change (2 ^ (7 * N.of_nat 1)) with 128 in Hn.
    destruct fe; cbn [encode_uvarint_fuel];
      (destruct (n <? 128) eqn:E; [cbn; lia | apply N.ltb_ge in E; lia]).
  - destruct fe as [|fe]; cbn [encode_uvarint_fuel]; (destruct (n <? 128) eqn:E; [cbn; lia|]).
    + cbn; lia.
    + cbn [length]. apply le_n_S. apply IH.
      apply N.div_lt_upper_bound; [discriminate|].
      replace (7 * N.of_nat (S (S k))) with (7 + 7 * N.of_nat (S k)) in Hn by lia.
      rewrite N.pow_add_r in Hn. change (2 ^ 7) with 128 in Hn. exact Hn.
Qed.

Lemma encode_uvarint_length (n : N) : n < two64 -> (length (encode_uvarint n) <= 10)%nat.
Proof.
  intro H. unfold encode_uvarint. apply (encode_uvarint_fuel_length 9).
  change (2 ^ (7 * N.of_nat 10)) with (2 ^ 70). unfold two64 in H.
  assert (2 ^ 64 < 2 ^ 70) by (apply N.pow_lt_mono_r; lia). lia.
Qed.

Lemma encode_ld_opt_length_upper (field : N) (p : bytes) :
  field = any_field_type_url \/ field = any_field_value ->
  blen p < two64 ->
  (length (encode_ld_opt field p) <= length p + 11)%nat.
Proof.
  intros Hf Hp. destruct p as [|x p]; [cbn; lia|]. unfold encode_ld_opt, encode_ld.
  rewrite !app_length. pose proof (encode_uvarint_length (blen (x :: p)) Hp).
  destruct Hf as [-> | ->].
  - rewrite tag_any_type_url. cbn [length] in *. lia.
  - rewrite tag_any_value. cbn [length] in *. lia.
Qed.

(* 22 = two tags (1 byte each) + two varint lengths (at most 10 bytes each) *)
Theorem any_small_of_contents (a : any) :
  blen (type_url a) + blen (any_value a) + 22 < two63 -> any_small a.
Proof.
  intro H. unfold any_small, encode_any. rewrite blen_app. unfold blen in *.
  assert (H63 : two63 < two64) by (unfold two63, two64; apply N.pow_lt_mono_r; lia).
  pose proof (encode_ld_opt_length_upper any_field_type_url (type_url a) (or_introl eq_refl)) as H1.
  pose proof (encode_ld_opt_length_upper any_field_value (any_value a) (or_intror eq_refl)) as H2.
  unfold blen in H1, H2.
  specialize (H1 ltac:(lia)). specialize (H2 ltac:(lia)). lia.
Qed.

(* ---------- the decoders never run out of fuel ---------- *)

Lemma decode_uvarint_fuel_shrinks :
  forall (fd : nat) (shift acc : N) (bs : bytes) (n : N) (rest : bytes),
    decode_uvarint_fuel fd shift acc bs = Some (n, rest) -> (length rest < length bs)%nat.
Proof.
  induction fd as [|fd IH]; intros shift acc bs n rest H; [discriminate|].
  cbn [decode_uvarint_fuel] in H. destruct bs as [|x bs]; [discriminate|].
  destruct (byte_N x <? 128).
  - inversion H; subst. cbn. lia.
  - apply IH in H. cbn. lia.
Qed.

Lemma read_ld_shrinks (bs p rest : bytes) :
  read_ld bs = Some (p, rest) -> (length rest < length bs)%nat.
Proof.
  unfold read_ld. destruct (decode_uvarint bs) as [[n r]|] eqn:E; [|discriminate].
  apply decode_uvarint_fuel_shrinks in E.
  destruct (two63 <=? n); [discriminate|]. destruct (blen r <? n); [discriminate|].
  intro H. inversion H; subst. rewrite skipn_length. lia.
Qed.

Lemma decode_any_fuel_no_DFuel :
  forall (fuel : nat) (bs : bytes) (acc : any),
    (length bs <= fuel)%nat -> decode_any_fuel fuel bs acc <> DFuel.
Proof.
  induction fuel as [|fuel IH]; intros bs acc Hl.
  - destruct bs; [discriminate | cbn in Hl; lia].
  - destruct bs as [|x bs]; [discriminate|]. cbn [decode_any_fuel].
    destruct (decode_uvarint (x :: bs)) as [[wire rest]|] eqn:E; [|discriminate].
    apply decode_uvarint_fuel_shrinks in E.
    destruct (split_tag wire) as [[fnum wt]|]; [|discriminate].
    destruct (fnum =? any_field_type_url).
    + destruct (wt =? wire_type_len); [|discriminate].
      destruct (read_ld rest) as [[p rest']|] eqn:R; [|discriminate].
      apply read_ld_shrinks in R. apply IH. cbn [length] in *. lia.
    + destruct (fnum =? any_field_value); [|discriminate].
      destruct (wt =? wire_type_len); [|discriminate].
      destruct (read_ld rest) as [[p rest']|] eqn:R; [|discriminate].
      apply read_ld_shrinks in R. apply IH. cbn [length] in *. lia.
Qed.

Theorem decode_any_d_no_DFuel (bs : bytes) : decode_any_d bs <> DFuel.
Proof. apply decode_any_fuel_no_DFuel. lia. Qed.

Lemma decode_cosmos_tx_fuel_no_DFuel :
  forall (fuel : nat) (bs : bytes) (acc : list any),
    (length bs <= fuel)%nat -> decode_cosmos_tx_fuel fuel bs acc <> DFuel.
Proof.
  induction fuel as [|fuel IH]; intros bs acc Hl.
  - destruct bs; [discriminate | cbn in Hl; lia].
  - destruct bs as [|x bs]; [discriminate|]. cbn [decode_cosmos_tx_fuel].
    destruct (decode_uvarint (x :: bs)) as [[wire rest]|] eqn:E; [|discriminate].
    apply decode_uvarint_fuel_shrinks in E.
    destruct (split_tag wire) as [[fnum wt]|]; [|discriminate].
    destruct (fnum =? cosmos_tx_field_messages); [|discriminate].
    destruct (wt =? wire_type_len); [|discriminate].
    destruct (read_ld rest) as [[p rest']|] eqn:R; [|discriminate].
    apply read_ld_shrinks in R.
    pose proof (decode_any_d_no_DFuel p) as Hp.
    destruct (decode_any_d p); [|discriminate|congruence].
    apply IH. cbn [length] in *. lia.
Qed.

(* [None] from the public decoders therefore always means "malformed", never "out of fuel". *)
Theorem decode_cosmos_tx_d_no_DFuel (bs : bytes) : decode_cosmos_tx_d bs <> DFuel.
Proof. apply decode_cosmos_tx_fuel_no_DFuel. lia. Qed.
