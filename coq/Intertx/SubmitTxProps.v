(* Property C20 on the SubmitTx model: intertx forwards exactly the owner's message over the owner's
   own ICA port.  All statements quantify over every environment (every behaviour of the ICA
   controller keeper, the capability keeper and bech32 decoding, every block time) and every message. *)
From Coq Require Import List ZArith NArith Bool Strings.Byte Lia.
Require Import Regen.Base.Bytes Regen.Generated.IntertxConsts.
Require Import Regen.Intertx.ProtoWire Regen.Intertx.ProtoWireProps Regen.Intertx.SubmitTx.
Import ListNotations.

(* What a result sends: an error carries no SendTx call at all. *)
Definition sent {cap} (r : res (list (send_call cap))) : list (send_call cap) :=
  match r with Ok l => l | Err _ => [] end.

Section Props.
  Variable cap : Type.
  Implicit Types (e : env cap) (m : submit_msg) (c : send_call cap).

  (* ---------- inversion of the success path ---------- *)

  Lemma submit_ok_inv e m l :
    submit e m = Ok l ->
    exists chan k a,
      all_space (owner m) = false /\
      active_channel e (connection_id m) (controller_port_prefix ++ owner m) = Some chan /\
      capability e (channel_capability_path (controller_port_prefix ++ owner m) chan) = Some k /\
      inner m = Some a /\
      inner_is_sdk_msg m = true /\
      l = [ {| sc_cap := k;
               sc_conn := connection_id m;
               sc_port := controller_port_prefix ++ owner m;
               sc_type := packet_type_execute_tx;
               sc_data := encode_cosmos_tx [a];
               sc_memo := [];
               sc_timeout := timeout_timestamp (block_time_ns e) |} ].
  Proof.
    unfold submit, controller_port_id.
    destruct (all_space (owner m)) eqn:Hs; [discriminate|].
    destruct (active_channel e (connection_id m) (controller_port_prefix ++ owner m)) as [chan|] eqn:Hc; [|discriminate].
    destruct (capability e (channel_capability_path (controller_port_prefix ++ owner m) chan)) as [k|] eqn:Hk; [|discriminate].
    destruct (inner m) as [a|] eqn:Hi; [|discriminate].
    destruct (inner_is_sdk_msg m) eqn:Hm; cbn [negb]; [|discriminate].
    intro H. inversion H. exists chan, k, a. repeat split; auto.
  Qed.

  (* ---------- port ---------- *)

  Theorem C20_port e m c :
    submit e m = Ok [c] -> sc_port c = controller_port_prefix ++ owner m.
  Proof.
    intro H. destruct (submit_ok_inv e m _ H) as (chan & k & a & _ & _ & _ & _ & _ & E).
    injection E as Ec. subst c. reflexivity.
  Qed.

  Theorem C20_port_injective (o1 o2 : bytes) :
    controller_port_prefix ++ o1 = controller_port_prefix ++ o2 -> o1 = o2.
  Proof. apply app_inv_head. Qed.

  Theorem C20_port_id_injective (o1 o2 p : bytes) :
    controller_port_id o1 = Ok p -> controller_port_id o2 = Ok p -> o1 = o2.
  Proof.
    unfold controller_port_id. destruct (all_space o1); [discriminate|]. destruct (all_space o2); [discriminate|].
    intros H1 H2. inversion H1 as [E1]. inversion H2 as [E2]. apply C20_port_injective. congruence.
  Qed.

  (* a blank owner (empty or Unicode white space only) has no port: nothing is sent *)
  Theorem C20_blank_owner e m : all_space (owner m) = true -> submit e m = Err EInvalidAccountAddress.
  Proof. intro H. unfold submit, controller_port_id. rewrite H. reflexivity. Qed.

  (* ---------- exactly one send on success, none on error ---------- *)

  Theorem C20_single_send e m l : submit e m = Ok l -> exists c, l = [c].
  Proof.
    intro H. destruct (submit_ok_inv e m _ H) as (chan & k & a & _ & _ & _ & _ & _ & E).
    eexists. exact E.
  Qed.

  Theorem C20_error_sends_nothing e m x : submit e m = Err x -> sent (submit e m) = [].
  Proof. intro H. rewrite H. reflexivity. Qed.

  Theorem C20_one_or_none e m :
    (exists c, submit e m = Ok [c] /\ sent (submit e m) = [c]) \/
    (exists x, submit e m = Err x /\ sent (submit e m) = []).
  Proof.
    destruct (submit e m) as [l|x] eqn:H.
    - left. destruct (C20_single_send e m l H) as [c ->]. exists c. split; reflexivity.
    - right. exists x. split; reflexivity.
  Qed.

  (* the response of the message server is a success only if that one call was accepted *)
  Theorem C20_response_ok e m :
    submit_tx e m = Ok tt -> exists c, submit e m = Ok [c] /\ sendtx_accepts e c = true.
  Proof.
    unfold submit_tx. destruct (submit e m) as [l|x] eqn:H; [|discriminate].
    destruct (C20_single_send e m l H) as [c ->]. cbn [forallb].
    destruct (sendtx_accepts e c) eqn:A; [|discriminate]. intros _. exists c. split; [reflexivity | exact A].
  Qed.

  (* ---------- nothing without an active channel / a channel capability ---------- *)

  Theorem C20_nothing_without_channel e m :
    active_channel e (connection_id m) (controller_port_prefix ++ owner m) = None ->
    sent (submit e m) = [] /\
    (submit e m = Err EActiveChannelNotFound \/ submit e m = Err EInvalidAccountAddress).
  Proof.
    intro H. unfold submit, controller_port_id.
    destruct (all_space (owner m)); [split; [reflexivity | right; reflexivity]|].
    rewrite H. split; [reflexivity | left; reflexivity].
  Qed.

  Theorem C20_nothing_without_capability e m :
    (forall chan, active_channel e (connection_id m) (controller_port_prefix ++ owner m) = Some chan ->
                  capability e (channel_capability_path (controller_port_prefix ++ owner m) chan) = None) ->
    sent (submit e m) = [] /\
    (submit e m = Err EChannelCapabilityNotFound \/ submit e m = Err EActiveChannelNotFound \/
     submit e m = Err EInvalidAccountAddress).
  Proof.
    intro H. unfold submit, controller_port_id.
    destruct (all_space (owner m)); [split; [reflexivity | right; right; reflexivity]|].
    destruct (active_channel e (connection_id m) (controller_port_prefix ++ owner m)) as [chan|] eqn:Hc.
    - rewrite (H chan eq_refl). split; [reflexivity | left; reflexivity].
    - split; [reflexivity | right; left; reflexivity].
  Qed.

  (* ---------- the packet ---------- *)

  Theorem C20_packet e m c :
    submit e m = Ok [c] ->
    exists a chan,
      inner m = Some a /\ inner_is_sdk_msg m = true /\
      sc_data c = encode_cosmos_tx [a] /\
      (any_small a -> decode_cosmos_tx (sc_data c) = Some [a]) /\
      sc_type c = packet_type_execute_tx /\
      sc_memo c = [] /\
      sc_conn c = connection_id m /\
      active_channel e (connection_id m) (sc_port c) = Some chan /\
      capability e (channel_capability_path (sc_port c) chan) = Some (sc_cap c).
  Proof.
    intro H. destruct (submit_ok_inv e m _ H) as (chan & k & a & _ & Hc & Hk & Hi & Hm & E).
    injection E as Ec. subst c. cbn [sc_cap sc_conn sc_port sc_type sc_data sc_memo sc_timeout].
    exists a, chan. repeat split; auto.
    intro Ha. apply (decode_cosmos_tx_roundtrip [a]). constructor; [exact Ha | constructor].
  Qed.

  (* the packet determines the message: two sends with the same data carried the same message *)
  Theorem C20_packet_injective e1 e2 m1 m2 c1 c2 a1 a2 :
    submit e1 m1 = Ok [c1] -> submit e2 m2 = Ok [c2] ->
    inner m1 = Some a1 -> inner m2 = Some a2 -> any_small a1 -> any_small a2 ->
    sc_data c1 = sc_data c2 -> a1 = a2.
  Proof.
    intros H1 H2 I1 I2 S1 S2 E.
    destruct (C20_packet _ _ _ H1) as (b1 & ? & J1 & _ & D1 & _).
    destruct (C20_packet _ _ _ H2) as (b2 & ? & J2 & _ & D2 & _).
    rewrite I1 in J1. rewrite I2 in J2. inversion J1; inversion J2; subst b1 b2.
    rewrite D1, D2 in E. apply encode_cosmos_tx_injective in E.
    - inversion E. reflexivity.
    - constructor; [exact S1 | constructor].
    - constructor; [exact S2 | constructor].
  Qed.

  (* ---------- timeout ---------- *)

  Lemma timeout_timestamp_mod (z : Z) : timeout_timestamp z = ((z + submit_timeout_ns) mod 2 ^ 64)%Z.
  Proof.
    unfold timeout_timestamp, uint64_of_int64, wrap_int64.
    change (2 ^ 64)%Z with 18446744073709551616%Z. change (2 ^ 63)%Z with 9223372036854775808%Z.
    generalize (z + submit_timeout_ns)%Z. intro y.
    Z.div_mod_to_equations. lia.
  Qed.

  (* in general the timeout is block time + 1 min reduced modulo 2^64 (Go's int64 arithmetic in
     UnixNano followed by the uint64 conversion) ... *)
  Theorem C20_timeout_wrapped e m c :
    submit e m = Ok [c] ->
    sc_timeout c = ((block_time_ns e + submit_timeout_ns) mod 2 ^ 64)%Z.
  Proof.
    intro H. destruct (submit_ok_inv e m _ H) as (chan & k & a & _ & _ & _ & _ & _ & E).
    injection E as Ec. subst c. cbn [sc_timeout]. apply timeout_timestamp_mod.
  Qed.

  (* ... which is exactly one minute after block time whenever that instant is a uint64 number of
     nanoseconds, i.e. for block times from 1969-12-31T23:59:00Z to 2554-07-21T23:33:33.709551615Z *)
  Theorem C20_timeout e m c :
    submit e m = Ok [c] ->
    (0 <= block_time_ns e + submit_timeout_ns < 2 ^ 64)%Z ->
    sc_timeout c = (block_time_ns e + submit_timeout_ns)%Z.
  Proof.
    intros H R. rewrite (C20_timeout_wrapped e m c H). apply Z.mod_small. exact R.
  Qed.

  (* ---------- signer ---------- *)

  Theorem C20_signer e m :
    validate_basic e m = Ok tt ->
    exists a, acc_from_bech32 e (owner m) = Some a /\ signers e m = [a] /\
              owner m <> [] /\ connection_id m <> [] /\ inner m <> None.
  Proof.
    unfold validate_basic, signers.
    destruct (owner m) as [|o0 o] eqn:Ho; [discriminate|].
    destruct (acc_from_bech32 e (o0 :: o)) as [a|] eqn:Ha; [|discriminate].
    destruct (connection_id m) as [|c0 cs]; [discriminate|].
    destruct (inner m); [|discriminate].
    intros _. exists a. repeat split; discriminate.
  Qed.

  Theorem C20_one_signer e m : length (signers e m) = 1%nat.
  Proof. reflexivity. Qed.

  (* ---------- isolation ---------- *)

  (* Messages of two different owners never travel over the same port, whatever the environments. *)
  Theorem C20_isolation e1 e2 m1 m2 c1 c2 :
    owner m1 <> owner m2 ->
    In c1 (sent (submit e1 m1)) -> In c2 (sent (submit e2 m2)) ->
    sc_port c1 <> sc_port c2.
  Proof.
    intros Hne I1 I2 E.
    destruct (submit e1 m1) as [l1|] eqn:H1; [|destruct I1].
    destruct (submit e2 m2) as [l2|] eqn:H2; [|destruct I2].
    destruct (C20_single_send _ _ _ H1) as [d1 ->]. destruct (C20_single_send _ _ _ H2) as [d2 ->].
    cbn [sent In] in I1, I2. destruct I1 as [<-|[]]. destruct I2 as [<-|[]].
    rewrite (C20_port _ _ _ H1), (C20_port _ _ _ H2) in E.
    apply C20_port_injective in E. contradiction.
  Qed.

  (* Conversely a port identifies the required signer: two messages that were sent over the same
     port had the same owner string, hence (same bech32 oracle) the same signing account. *)
  Theorem C20_same_port_same_signer e1 e2 m1 m2 c1 c2 :
    (forall o, acc_from_bech32 e1 o = acc_from_bech32 e2 o) ->
    In c1 (sent (submit e1 m1)) -> In c2 (sent (submit e2 m2)) ->
    sc_port c1 = sc_port c2 ->
    owner m1 = owner m2 /\ signers e1 m1 = signers e2 m2.
  Proof.
    intros Hor I1 I2 E.
    destruct (bytes_eq_dec (owner m1) (owner m2)) as [Ho|Ho].
    - split; [exact Ho|]. unfold signers. rewrite Ho, Hor. reflexivity.
    - exfalso. exact (C20_isolation e1 e2 m1 m2 c1 c2 Ho I1 I2 E).
  Qed.

End Props.
