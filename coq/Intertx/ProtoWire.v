(* Minimal protobuf wire model over byte strings (model file: executable definitions only).

   What is modelled
   ----------------
   * [encode_uvarint] / [decode_uvarint]: base-128 varints.  The decoder transcribes the loop that
     protoc-gen-gogo emits in every generated [Unmarshal] (at most 10 bytes, i.e. [shift >= 64] is
     an error; [wire |= uint64(b&0x7F) << shift] on a uint64, so bits shifted past bit 63 are lost).
   * length-delimited fields ([tag = field<<3 | 2], varint length, payload) and [read_ld], the
     generated "read a length, bound-check it, slice" sequence ([int(len) < 0] and
     [postIndex > l] are errors).
   * [encode_any]: gogoproto [Any.Marshal] (SDK codec/types/any.pb.go MarshalToSizedBuffer):
     field 1 type_url and field 2 value, each omitted when empty (proto3).
   * [encode_cosmos_tx]: ibc-go [CosmosTx.Marshal] (27-interchain-accounts/types/packet.pb.go):
     repeated field 1, every element emitted (also an empty one, as [0A 00]).
   * [decode_any] / [decode_cosmos_tx]: the generated [Unmarshal] loops restricted to the known
     fields: fields may come in any order and repeat (last one wins for the scalar fields of Any,
     repeated field appends), a known field with a wrong wire type is an error.  DIFFERENCE: where the
     Go code skips an unknown field number ([skipAny]/[skipPacket]) the model decoder fails.  It is
     therefore stricter than Go: [decode_cosmos_tx bs = Some l] implies the Go decoder returns the
     same list, not the converse.

   Decoders recurse with explicit fuel ([length] of the input: every field consumes >= 1 byte);
   the internal result type [dres] has a separate [DFuel] outcome, which [ProtoWireProps] shows
   unreachable. *)
From Coq Require Import List ZArith NArith Bool Strings.Byte.
Require Import Regen.Base.Bytes Regen.Generated.IntertxConsts.
Import ListNotations.
Local Open Scope N_scope.

(* ---------- varints ---------- *)

(* 2^64 and 2^63 as N (kept as powers so that proofs can use N.pow lemmas) *)
Definition two64 : N := 2 ^ 64.
Definition two63 : N := 2 ^ 63.

(* encoding/binary.PutUvarint, gogoproto encodeVarint*: low 7 bits first, continuation bit 0x80.
   Fuel: the number of bits of [n] (an upper bound on the number of 7-bit groups); the [O] branch is
   unreachable from [encode_uvarint] (ProtoWireProps.encode_uvarint_fuel_enough). *)
Fixpoint encode_uvarint_fuel (fuel : nat) (n : N) : bytes :=
  if n <? 128 then [byte_of_N_trunc n]
  else match fuel with
       | O => []
       | S f => byte_of_N_trunc (n mod 128 + 128) :: encode_uvarint_fuel f (n / 128)
       end.
Definition encode_uvarint (n : N) : bytes := encode_uvarint_fuel (N.to_nat (N.size n)) n.

(* The generated decoding loop.  [fuel] counts the iterations still allowed: it starts at 10 because
   the 11th iteration would have shift = 70 >= 64 (ErrIntOverflow); this bound is Go's, not a
   modelling device.  [None] = ErrIntOverflow or io.ErrUnexpectedEOF. *)
Fixpoint decode_uvarint_fuel (fuel : nat) (shift acc : N) (bs : bytes) : option (N * bytes) :=
  match fuel with
  | O => None
  | S f =>
      match bs with
      | [] => None
      | x :: rest =>
          let acc' := N.lor acc (N.shiftl (byte_N x mod 128) shift mod two64) in
          if byte_N x <? 128 then Some (acc', rest)
          else decode_uvarint_fuel f (shift + 7) acc' rest
      end
  end.
Definition decode_uvarint (bs : bytes) : option (N * bytes) := decode_uvarint_fuel 10 0 0 bs.

(* ---------- length-delimited fields ---------- *)

Definition blen (s : bytes) : N := N.of_nat (length s).

Definition tag_ld (field : N) : N := N.lor (N.shiftl field 3) wire_type_len.

(* one length-delimited field, always emitted *)
Definition encode_ld (field : N) (payload : bytes) : bytes :=
  encode_uvarint (tag_ld field) ++ encode_uvarint (blen payload) ++ payload.

(* proto3 scalar string/bytes field: omitted when empty *)
Definition encode_ld_opt (field : N) (payload : bytes) : bytes :=
  match payload with [] => [] | _ => encode_ld field payload end.

(* read a varint length and slice the payload: returns (payload, rest) *)
Definition read_ld (bs : bytes) : option (bytes * bytes) :=
  match decode_uvarint bs with
  | None => None
  | Some (n, rest) =>
      if two63 <=? n then None                       (* int(len) < 0: ErrInvalidLength *)
      else if blen rest <? n then None                (* postIndex > l: io.ErrUnexpectedEOF *)
      else Some (firstn (N.to_nat n) rest, skipn (N.to_nat n) rest)
  end.

(* fieldNum := int32(wire >> 3) (truncation to 32 bits; values <= 0 are illegal tags);
   wireType := int(wire & 0x7).  Returns None for an illegal tag. *)
Definition split_tag (wire : N) : option (N * N) :=
  let f := N.shiftr wire 3 mod 2 ^ 32 in
  if (f =? 0) || (2 ^ 31 <=? f) then None else Some (f, N.land wire 7).

(* ---------- Any and CosmosTx ---------- *)

Record any := MkAny { type_url : bytes; any_value : bytes }.

Definition any_eqb (x y : any) : bool :=
  bytes_eqb (type_url x) (type_url y) && bytes_eqb (any_value x) (any_value y).

Definition encode_any (a : any) : bytes :=
  encode_ld_opt any_field_type_url (type_url a) ++ encode_ld_opt any_field_value (any_value a).

Definition encode_cosmos_tx (msgs : list any) : bytes :=
  flat_map (fun a => encode_ld cosmos_tx_field_messages (encode_any a)) msgs.

Inductive dres (A : Type) : Type :=
| DOk (a : A)
| DMalformed          (* the Go decoder returns an error, or meets a field the model does not know *)
| DFuel.              (* the model ran out of fuel (unreachable, see ProtoWireProps) *)
Arguments DOk {A} a.
Arguments DMalformed {A}.
Arguments DFuel {A}.

Fixpoint decode_any_fuel (fuel : nat) (bs : bytes) (acc : any) : dres any :=
  match bs with
  | [] => DOk acc
  | _ :: _ =>
      match fuel with
      | O => DFuel
      | S f =>
          match decode_uvarint bs with
          | None => DMalformed
          | Some (wire, rest) =>
              match split_tag wire with
              | None => DMalformed
              | Some (fnum, wt) =>
                  if fnum =? any_field_type_url then
                    if wt =? wire_type_len then
                      match read_ld rest with
                      | None => DMalformed
                      | Some (p, rest') => decode_any_fuel f rest' (MkAny p (any_value acc))
                      end
                    else DMalformed
                  else if fnum =? any_field_value then
                    if wt =? wire_type_len then
                      match read_ld rest with
                      | None => DMalformed
                      | Some (p, rest') => decode_any_fuel f rest' (MkAny (type_url acc) p)
                      end
                    else DMalformed
                  else DMalformed
              end
          end
      end
  end.

Definition decode_any_d (bs : bytes) : dres any := decode_any_fuel (length bs) bs (MkAny [] []).

(* [acc] holds the messages decoded so far, most recent first *)
Fixpoint decode_cosmos_tx_fuel (fuel : nat) (bs : bytes) (acc : list any) : dres (list any) :=
  match bs with
  | [] => DOk (rev acc)
  | _ :: _ =>
      match fuel with
      | O => DFuel
      | S f =>
          match decode_uvarint bs with
          | None => DMalformed
          | Some (wire, rest) =>
              match split_tag wire with
              | None => DMalformed
              | Some (fnum, wt) =>
                  if fnum =? cosmos_tx_field_messages then
                    if wt =? wire_type_len then
                      match read_ld rest with
                      | None => DMalformed
                      | Some (p, rest') =>
                          match decode_any_d p with
                          | DOk a => decode_cosmos_tx_fuel f rest' (a :: acc)
                          | DMalformed => DMalformed
                          | DFuel => DFuel
                          end
                      end
                    else DMalformed
                  else DMalformed
              end
          end
      end
  end.

Definition decode_cosmos_tx_d (bs : bytes) : dres (list any) :=
  decode_cosmos_tx_fuel (length bs) bs [].

Definition dres_to_option {A} (r : dres A) : option A :=
  match r with DOk a => Some a | _ => None end.

Definition decode_any (bs : bytes) : option any := dres_to_option (decode_any_d bs).
Definition decode_cosmos_tx (bs : bytes) : option (list any) := dres_to_option (decode_cosmos_tx_d bs).
