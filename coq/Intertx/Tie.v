(* Tie between the hand-written SubmitTx model and the source it transcribes (regenerated facts). *)
From Coq Require Import List NArith Strings.String Strings.Byte.
Require Import Regen.Base.Bytes Regen.Generated.IntertxConsts.
Import ListNotations.
Local Open Scope string_scope.

(* Intertx/SubmitTx.v performs the look-ups in this order, packs exactly one message per packet,
   derives the port from the Owner field and names Owner as the only signer. *)
Theorem submit_shape_matches :
  submit_check_order = [b "NewControllerPortID"; b "GetActiveChannelID"; b "GetCapability"; b "GetCachedValue"; b "SerializeCosmosTx"; b "SendTx"] /\
  submit_msgs_per_packet = 1%N /\ port_owner_field = b "Owner" /\ signer_field = b "Owner".
Proof. repeat split; reflexivity. Qed.
