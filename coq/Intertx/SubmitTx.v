(* Model of x/intertx Msg/SubmitTx (property C20).  Model file: executable definitions only.

   Transcribed from
     /repo/x/intertx/keeper/msg_submit_tx.go          Keeper.SubmitTx
     /repo/x/intertx/types/v1/msg_submit_tx.go        MsgSubmitTx.ValidateBasic, GetSigners
     ibc-go v7.4.0 27-interchain-accounts/types/port.go    NewControllerPortID
     ibc-go v7.4.0 27-interchain-accounts/types/codec.go   SerializeCosmosTx
     ibc-go v7.4.0 core/24-host/keys.go                    ChannelCapabilityPath
     Go strings.TrimSpace / unicode.IsSpace / time.Time.UnixNano

   The two collaborators of the keeper (ICA controller keeper, scoped capability keeper), the block
   time and bech32 decoding are an environment of oracles ([env]).  [submit] returns the list of
   SendTx calls the keeper issues to the ICA controller keeper: [Ok [c]] for the one call of the
   success path, [Err e] (which carries no call) for every early return. *)
From Coq Require Import List ZArith NArith Bool Strings.Byte.
Require Import Regen.Base.Bytes Regen.Generated.IntertxConsts Regen.Intertx.ProtoWire.
Import ListNotations.

Inductive err :=
(* Keeper.SubmitTx *)
| EInvalidAccountAddress      (* icatypes.ErrInvalidAccountAddress "owner address cannot be empty" *)
| EActiveChannelNotFound      (* icatypes.ErrActiveChannelNotFound *)
| EChannelCapabilityNotFound  (* channeltypes.ErrChannelCapabilityNotFound *)
| ENilMsgPanic                (* msg.Msg == nil: GetCachedValue on the nil Any pointer dereferences nil (run-time panic) *)
| EInvalidType                (* sdkerrors.ErrInvalidType "%T is not a valid sdk.Msg" *)
| ESendTxFailed               (* the error returned by ICAControllerKeeper.SendTx, passed through *)
(* MsgSubmitTx.ValidateBasic *)
| EVBOwnerEmpty               (* ErrInvalidRequest "owner cannot be empty" *)
| EVBInvalidAddress           (* ErrInvalidAddress "owner: ..." *)
| EVBConnectionEmpty          (* ErrInvalidRequest "connection_id cannot be empty" *)
| EVBMsgEmpty.                (* ErrInvalidRequest "msg cannot be empty" *)

Definition err_eqb (x y : err) : bool :=
  match x, y with
  | EInvalidAccountAddress, EInvalidAccountAddress
  | EActiveChannelNotFound, EActiveChannelNotFound
  | EChannelCapabilityNotFound, EChannelCapabilityNotFound
  | ENilMsgPanic, ENilMsgPanic
  | EInvalidType, EInvalidType
  | ESendTxFailed, ESendTxFailed
  | EVBOwnerEmpty, EVBOwnerEmpty
  | EVBInvalidAddress, EVBInvalidAddress
  | EVBConnectionEmpty, EVBConnectionEmpty
  | EVBMsgEmpty, EVBMsgEmpty => true
  | _, _ => false
  end.

Inductive res (A : Type) : Type :=
| Ok (a : A)
| Err (e : err).
Arguments Ok {A} a.
Arguments Err {A} e.

(* ---------- strings.TrimSpace(owner) == "" ---------- *)

(* asciiSpace of strings.TrimSpace / unicode.IsSpace below U+0080: \t \n \v \f \r and ' ' *)
Definition is_ascii_space (a : N) : bool := ((9 <=? a) && (a <=? 13) || (a =? 32))%N.

(* True iff the string is a concatenation of UTF-8 encodings of runes with unicode.IsSpace:
   U+0009..U+000D, U+0020, U+0085 (C2 85), U+00A0 (C2 A0), U+1680 (E1 9A 80),
   U+2000..U+200A (E2 80 80..8A), U+2028, U+2029 (E2 80 A8/A9), U+202F (E2 80 AF),
   U+205F (E2 81 9F), U+3000 (E3 80 80).  Any other byte (including every ill-formed sequence,
   which Go decodes as the non-space U+FFFD) makes TrimSpace return a non-empty string. *)
Fixpoint all_space (s : bytes) : bool :=
  match s with
  | [] => true
  | x :: r =>
      let a := byte_N x in
      if is_ascii_space a then all_space r
      else if (a =? 194)%N then                                   (* C2 *)
        match r with
        | y :: r' => ((byte_N y =? 133) || (byte_N y =? 160))%N && all_space r'
        | _ => false
        end
      else if (a =? 225)%N then                                   (* E1 *)
        match r with
        | y :: z :: r' => ((byte_N y =? 154) && (byte_N z =? 128))%N && all_space r'
        | _ => false
        end
      else if (a =? 226)%N then                                   (* E2 *)
        match r with
        | y :: z :: r' =>
            let c := byte_N z in
            (((byte_N y =? 128) &&
              (((128 <=? c) && (c <=? 138)) || (c =? 168) || (c =? 169) || (c =? 175)))
             || ((byte_N y =? 129) && (c =? 159)))%N && all_space r'
        | _ => false
        end
      else if (a =? 227)%N then                                   (* E3 *)
        match r with
        | y :: z :: r' => ((byte_N y =? 128) && (byte_N z =? 128))%N && all_space r'
        | _ => false
        end
      else false
  end.

(* ---------- messages and environment ---------- *)

(* MsgSubmitTx as the keeper sees it.
   [inner] = None when msg.Msg == nil.  Otherwise it is an Any (type_url, value): when
   [inner_is_sdk_msg] it is the canonical packing (codectypes.NewAnyWithValue) of the cached value
   msg.Msg.GetCachedValue(), which is what SerializeCosmosTx re-packs; for an Any built by
   NewAnyWithValue this is the Any itself.  [inner_is_sdk_msg] = the cached value implements
   sdk.Msg (false also when there is no cached value). *)
Record submit_msg := MkSubmitMsg {
  owner : bytes;
  connection_id : bytes;
  inner : option any;
  inner_is_sdk_msg : bool
}.

Section WithCap.
  (* the type of channel capabilities is abstract: the model can only pass on what the oracle gave *)
  Variable cap : Type.

  (* one recorded call ICAControllerKeeper.SendTx(ctx, chanCap, connectionID, portID,
     InterchainAccountPacketData{Type, Data, Memo}, timeoutTimestamp) *)
  Record send_call := MkSendCall {
    sc_cap : cap;
    sc_conn : bytes;
    sc_port : bytes;
    sc_type : N;
    sc_data : bytes;
    sc_memo : bytes;
    sc_timeout : Z
  }.

  Record env := MkEnv {
    (* ICAControllerKeeper.GetActiveChannelID(ctx, connectionID, portID) *)
    active_channel : bytes -> bytes -> option bytes;
    (* CapabilityKeeper.GetCapability(ctx, name) *)
    capability : bytes -> option cap;
    (* ctx.BlockTime() as exact Unix nanoseconds (seconds * 10^9 + nanoseconds, unbounded) *)
    block_time_ns : Z;
    (* sdk.AccAddressFromBech32: the account bytes an owner string denotes, None if invalid *)
    acc_from_bech32 : bytes -> option bytes;
    (* whether ICAControllerKeeper.SendTx returns a nil error for this call *)
    sendtx_accepts : send_call -> bool
  }.

  (* icatypes.NewControllerPortID *)
  Definition controller_port_id (o : bytes) : res bytes :=
    if all_space o then Err EInvalidAccountAddress else Ok (controller_port_prefix ++ o).

  (* host.ChannelCapabilityPath = "capabilities/" ++ channelPath = "capabilities/ports/<p>/channels/<c>" *)
  Definition channel_capability_path (port chan : bytes) : bytes :=
    key_channel_capability_prefix ++ path_sep ++
    key_port_prefix ++ path_sep ++ port ++ path_sep ++ key_channel_prefix ++ path_sep ++ chan.

  (* Go integer conversions made explicit.  time.Time.UnixNano computes sec*1e9 + nsec in int64
     arithmetic (wraps modulo 2^64 into [-2^63, 2^63)); uint64(x) of a negative int64 adds 2^64. *)
  Definition wrap_int64 (z : Z) : Z := ((z + 2 ^ 63) mod 2 ^ 64 - 2 ^ 63)%Z.
  Definition uint64_of_int64 (z : Z) : Z := (z mod 2 ^ 64)%Z.

  (* uint64(ctx.BlockTime().Add(time.Minute).UnixNano()) *)
  Definition timeout_timestamp (block_ns : Z) : Z :=
    uint64_of_int64 (wrap_int64 (block_ns + submit_timeout_ns)).

  (* Keeper.SubmitTx, statement by statement; the result is the list of SendTx calls issued. *)
  Definition submit (e : env) (m : submit_msg) : res (list send_call) :=
    match controller_port_id (owner m) with
    | Err x => Err x
    | Ok port =>
        match active_channel e (connection_id m) port with
        | None => Err EActiveChannelNotFound
        | Some chan =>
            match capability e (channel_capability_path port chan) with
            | None => Err EChannelCapabilityNotFound
            | Some c =>
                match inner m with
                | None => Err ENilMsgPanic
                | Some a =>
                    if negb (inner_is_sdk_msg m) then Err EInvalidType
                    else
                      (* SerializeCosmosTx(cdc, []proto.Message{m}): cannot fail for a ProtoCodec
                         and a non-nil generated message, see README *)
                      let data := encode_cosmos_tx [a] in
                      Ok [ {| sc_cap := c;
                              sc_conn := connection_id m;
                              sc_port := port;
                              sc_type := packet_type_execute_tx;
                              sc_data := data;
                              sc_memo := [];
                              sc_timeout := timeout_timestamp (block_time_ns e) |} ]
                end
            end
        end
    end.

  (* The Msg/SubmitTx response: the error of SendTx is passed through. *)
  Definition submit_tx (e : env) (m : submit_msg) : res unit :=
    match submit e m with
    | Err x => Err x
    | Ok calls => if forallb (sendtx_accepts e) calls then Ok tt else Err ESendTxFailed
    end.

  (* MsgSubmitTx.ValidateBasic *)
  Definition validate_basic (e : env) (m : submit_msg) : res unit :=
    match owner m with
    | [] => Err EVBOwnerEmpty
    | _ :: _ =>
        match acc_from_bech32 e (owner m) with
        | None => Err EVBInvalidAddress
        | Some _ =>
            match connection_id m with
            | [] => Err EVBConnectionEmpty
            | _ :: _ =>
                match inner m with
                | None => Err EVBMsgEmpty
                | Some _ => Ok tt
                end
            end
        end
    end.

  (* MsgSubmitTx.GetSigners: addr, _ := AccAddressFromBech32(owner); []AccAddress{addr}
     (the decoding error is dropped: an invalid owner yields the empty address) *)
  Definition signers (e : env) (m : submit_msg) : list bytes :=
    [ match acc_from_bech32 e (owner m) with Some a => a | None => [] end ].

End WithCap.

Arguments MkSendCall {cap}.
Arguments sc_cap {cap}.
Arguments sc_conn {cap}.
Arguments sc_port {cap}.
Arguments sc_type {cap}.
Arguments sc_data {cap}.
Arguments sc_memo {cap}.
Arguments sc_timeout {cap}.
Arguments MkEnv {cap}.
Arguments active_channel {cap}.
Arguments capability {cap}.
Arguments block_time_ns {cap}.
Arguments acc_from_bech32 {cap}.
Arguments sendtx_accepts {cap}.
Arguments submit {cap}.
Arguments submit_tx {cap}.
Arguments validate_basic {cap}.
Arguments signers {cap}.
