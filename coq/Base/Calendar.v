(* Proleptic Gregorian civil calendar (Howard Hinnant's days_from_civil / civil_from_days),
   protobuf timestamps and Go's time layout "20060102".  Model file: definitions only; the
   round-trip proofs are in CalendarProps.v.

   Interface used elsewhere (basket date criteria, batch denoms):
     days_from_civil, civil_from_days, valid_date, ts, ts_valid, ts_date, year_of, ts_compare,
     start_of_year, format_yyyymmdd, zero_pad, N_to_dec_pad. *)
From Coq Require Import ZArith NArith List Bool Strings.Byte.
Require Import Regen.Base.Bytes.
Import ListNotations.
Open Scope Z_scope.

(* ---------- zero padding (fmt's %0wd on unsigned values, time's appendInt) ---------- *)

Definition zero_pad (w : nat) (s : bytes) : bytes := repeat x30 (w - length s) ++ s.

(* fmt.Sprintf("%0wd", n) for an unsigned n: at least [w] digits, more if needed *)
Definition N_to_dec_pad (w : nat) (n : N) : bytes := zero_pad w (N_to_dec n).

(* time.appendInt(b, x, width): sign first, then the magnitude zero-padded to [w] digits *)
Definition Z_to_dec_pad (w : nat) (z : Z) : bytes :=
  if z <? 0 then x2d :: N_to_dec_pad w (Z.to_N (- z)) else N_to_dec_pad w (Z.to_N z).

(* ---------- civil calendar ---------- *)

(* number of days since 1970-01-01 of the civil date y-m-d (m in 1..12, d in 1..31) *)
Definition days_from_civil (y m d : Z) : Z :=
  let y' := if m <=? 2 then y - 1 else y in
  let era := y' / 400 in
  let yoe := y' - era * 400 in
  let mp := if 2 <? m then m - 3 else m + 9 in
  let doy := (153 * mp + 2) / 5 + d - 1 in
  let doe := yoe * 365 + yoe / 4 - yoe / 100 + doy in
  era * 146097 + doe - 719468.

(* civil date (y, m, d) of the day number z (days since 1970-01-01, any sign) *)
Definition civil_from_days (z : Z) : Z * Z * Z :=
  let z' := z + 719468 in
  let era := z' / 146097 in
  let doe := z' - era * 146097 in
  let yoe := (doe - doe / 1460 + doe / 36524 - doe / 146096) / 365 in
  let y := yoe + era * 400 in
  let doy := doe - (365 * yoe + yoe / 4 - yoe / 100) in
  let mp := (5 * doy + 2) / 153 in
  let d := doy - (153 * mp + 2) / 5 + 1 in
  let m := if mp <? 10 then mp + 3 else mp - 9 in
  ((if m <=? 2 then y + 1 else y), m, d).

Definition is_leap (y : Z) : bool :=
  (y mod 4 =? 0) && (negb (y mod 100 =? 0) || (y mod 400 =? 0)).

Definition days_in_month (y m : Z) : Z :=
  if m =? 2 then (if is_leap y then 29 else 28)
  else if (m =? 4) || (m =? 6) || (m =? 9) || (m =? 11) then 30 else 31.

Definition valid_date (y m d : Z) : bool :=
  (1 <=? m) && (m <=? 12) && (1 <=? d) && (d <=? days_in_month y m).

(* ---------- timestamps ---------- *)

(* google.protobuf.Timestamp / Go time.Unix(secs, nanos) *)
Record ts := mk_ts { secs : Z; nanos : Z }.

(* protobuf's documented range: 0001-01-01T00:00:00Z .. 9999-12-31T23:59:59.999999999Z *)
Definition ts_min_secs : Z := -62135596800.
Definition ts_max_secs : Z := 253402300799.
Definition ts_valid (t : ts) : bool :=
  (ts_min_secs <=? secs t) && (secs t <=? ts_max_secs) && (0 <=? nanos t) && (nanos t <? 1000000000).

(* time.Unix normalises nanos outside [0, 1e9) into the seconds (floor) *)
Definition ts_unix_secs (t : ts) : Z := secs t + nanos t / 1000000000.

(* UTC day number (floor division: instants before 1970 belong to the earlier day) *)
Definition ts_days (t : ts) : Z := ts_unix_secs t / 86400.

(* UTC calendar date of a timestamp *)
Definition ts_date (t : ts) : Z * Z * Z := civil_from_days (ts_days t).

Definition year_of (t : ts) : Z := let '(y, _, _) := ts_date t in y.

(* chronological order (time.Time.Compare); on normalised timestamps this is the
   lexicographic order on (secs, nanos) *)
Definition ts_total_nanos (t : ts) : Z := secs t * 1000000000 + nanos t.
Definition ts_compare (a c : ts) : comparison := Z.compare (ts_total_nanos a) (ts_total_nanos c).

(* January 1st 00:00:00 UTC of year y *)
Definition start_of_year (y : Z) : ts := {| secs := 86400 * days_from_civil y 1 1; nanos := 0 |}.

(* ---------- Go time layouts ---------- *)

(* The layouts the model understands; Generated/IdConsts.v names the one found in the source. *)
Inductive date_layout := Layout_20060102.

(* t.UTC().Format("20060102"): year zero-padded to 4 digits (sign first if negative, more
   digits beyond 9999), month and day zero-padded to 2.  On years 0001..9999: 8 digits. *)
Definition format_date (y m d : Z) : bytes :=
  Z_to_dec_pad 4 y ++ Z_to_dec_pad 2 m ++ Z_to_dec_pad 2 d.

Definition format_yyyymmdd (t : ts) : bytes :=
  let '(y, m, d) := ts_date t in format_date y m d.

Definition format_layout (l : date_layout) (t : ts) : bytes :=
  match l with Layout_20060102 => format_yyyymmdd t end.
