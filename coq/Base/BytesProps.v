(* Lemmas about Regen.Base.Bytes: decimal rendering [N_to_dec] (all digits, length >= 1, no
   leading zero unless the number is 0, left inverse [dec_digits_val] hence injective), prefixes. *)
From Coq Require Import List ZArith NArith Bool Lia Strings.Byte.
Require Import Regen.Base.Bytes.
Import ListNotations.

(* ---------- single digits ---------- *)

Definition digit_byte (d : N) : byte := byte_of_N_trunc (48 + d).

Lemma N_lt_10_cases (d : N) : (d < 10)%N ->
  d = 0%N \/ d = 1%N \/ d = 2%N \/ d = 3%N \/ d = 4%N \/ d = 5%N \/ d = 6%N \/ d = 7%N \/ d = 8%N \/ d = 9%N.
Proof. lia. Qed.

Lemma digit_byte_is_digit d : (d < 10)%N -> is_digit (digit_byte d) = true.
Proof.
  intro H. destruct (N_lt_10_cases d H) as [E|[E|[E|[E|[E|[E|[E|[E|[E|E]]]]]]]]]; subst d; reflexivity.
Qed.

Lemma digit_byte_val d : (d < 10)%N -> digit_val (digit_byte d) = Z.of_N d.
Proof.
  intro H. destruct (N_lt_10_cases d H) as [E|[E|[E|[E|[E|[E|[E|[E|[E|E]]]]]]]]]; subst d; reflexivity.
Qed.

Lemma digit_byte_zero d : (d < 10)%N -> digit_byte d = x30 -> d = 0%N.
Proof.
  intros H. destruct (N_lt_10_cases d H) as [E|[E|[E|[E|[E|[E|[E|[E|[E|E]]]]]]]]]; subst d;
    intro E; try reflexivity; discriminate E.
Qed.

Lemma is_digit_range c : is_digit c = true <-> (48 <= byte_N c <= 57)%N.
Proof.
  unfold is_digit. rewrite andb_true_iff, !N.leb_le. tauto.
Qed.

(* ---------- digits_fuel ---------- *)

Lemma digits_fuel_acc : forall fuel n acc, digits_fuel fuel n acc = digits_fuel fuel n [] ++ acc.
Proof.
  induction fuel as [|f IH]; intros n acc; cbn [digits_fuel].
  - reflexivity.
  - destruct (n <? 10)%N.
    + reflexivity.
    + rewrite (IH (n / 10)%N (_ :: acc)), (IH (n / 10)%N [_]), <- app_assoc. reflexivity.
Qed.

Lemma log2_div10_lt n : (10 <= n)%N -> (N.log2 (n / 10) < N.log2 n)%N.
Proof.
  intro H.
  assert (Hq : (0 < n / 10)%N) by (apply N.div_str_pos; lia).
  assert (H2 : (2 * (n / 10) <= n)%N).
  { pose proof (N.mul_div_le n 10 ltac:(lia)) as Hm. lia. }
  pose proof (N.log2_double (n / 10) Hq) as Hd.
  pose proof (N.log2_le_mono _ _ H2) as Hle. lia.
Qed.

Lemma digits_fuel_enough : forall f1 f2 n acc,
  (N.to_nat (N.log2 n) < f1)%nat -> (N.to_nat (N.log2 n) < f2)%nat ->
  digits_fuel f1 n acc = digits_fuel f2 n acc.
Proof.
  induction f1 as [|f1 IH]; intros f2 n acc H1 H2; [lia|].
  destruct f2 as [|f2]; [lia|]. cbn [digits_fuel].
  destruct (n <? 10)%N eqn:E; [reflexivity|].
  apply N.ltb_ge in E. pose proof (log2_div10_lt n E) as Hl.
  apply IH; lia.
Qed.

Lemma N_to_dec_small n : (n < 10)%N -> N_to_dec n = [digit_byte n].
Proof.
  intro H. unfold N_to_dec. cbn [digits_fuel].
  apply N.ltb_lt in H as Hb. rewrite Hb. unfold digit_byte.
  rewrite N.mod_small by (apply N.ltb_lt; exact Hb). reflexivity.
Qed.

Lemma N_to_dec_step n : (10 <= n)%N -> N_to_dec n = N_to_dec (n / 10) ++ [digit_byte (n mod 10)].
Proof.
  intro H. unfold N_to_dec at 1. cbn [digits_fuel].
  apply N.ltb_ge in H as Hb. rewrite Hb.
  rewrite digits_fuel_acc. f_equal.
  apply digits_fuel_enough.
  - pose proof (log2_div10_lt n H). lia.
  - lia.
Qed.

(* induction principle following the rendering *)
Lemma N_dec_ind (P : N -> Prop) :
  (forall n, (n < 10)%N -> P n) ->
  (forall n, (10 <= n)%N -> P (n / 10)%N -> P n) ->
  forall n, P n.
Proof.
  intros Hs Hr n.
  assert (H : forall k n, (N.to_nat n < k)%nat -> P n).
  { induction k as [|k IH]; intros m Hm; [lia|].
    destruct (N.ltb_spec m 10) as [Hlt|Hge]; [apply Hs; exact Hlt|].
    apply Hr; [exact Hge|]. apply IH.
    assert (m / 10 < m)%N by (apply N.div_lt; lia). lia. }
  apply (H (S (N.to_nat n))). lia.
Qed.

(* ---------- properties of N_to_dec ---------- *)

Definition all_digits (s : bytes) : Prop := Forall (fun c => is_digit c = true) s.

Lemma N_to_dec_digits n : all_digits (N_to_dec n).
Proof.
  induction n as [n Hn | n Hn IH] using N_dec_ind.
  - rewrite N_to_dec_small by exact Hn. constructor; [|constructor]. apply digit_byte_is_digit; exact Hn.
  - rewrite N_to_dec_step by exact Hn. apply Forall_app. split; [exact IH|].
    constructor; [|constructor]. apply digit_byte_is_digit. apply N.mod_lt. lia.
Qed.

Lemma N_to_dec_length_pos n : (1 <= length (N_to_dec n))%nat.
Proof.
  destruct (N.ltb_spec n 10) as [H|H].
  - rewrite N_to_dec_small by exact H. cbn. lia.
  - rewrite N_to_dec_step by exact H. rewrite app_length. cbn. lia.
Qed.

Lemma N_to_dec_nonempty n : N_to_dec n <> [].
Proof. pose proof (N_to_dec_length_pos n) as H. destruct (N_to_dec n); [cbn in H; lia|discriminate]. Qed.

Lemma dec_digits_val_app s c : dec_digits_val (s ++ [c]) = (dec_digits_val s * 10 + digit_val c)%Z.
Proof. unfold dec_digits_val. rewrite fold_left_app. reflexivity. Qed.

Lemma dec_digits_val_N_to_dec n : dec_digits_val (N_to_dec n) = Z.of_N n.
Proof.
  induction n as [n Hn | n Hn IH] using N_dec_ind.
  - rewrite N_to_dec_small by exact Hn. unfold dec_digits_val. cbn [fold_left].
    rewrite digit_byte_val by exact Hn. lia.
  - rewrite N_to_dec_step by exact Hn. rewrite dec_digits_val_app, IH.
    rewrite digit_byte_val by (apply N.mod_lt; lia).
    rewrite N2Z.inj_div, N2Z.inj_mod. cbn [Z.of_N].
    pose proof (Z.div_mod (Z.of_N n) 10 ltac:(lia)). lia.
Qed.

Lemma N_to_dec_inj n m : N_to_dec n = N_to_dec m -> n = m.
Proof.
  intro H. apply N2Z.inj. rewrite <- !dec_digits_val_N_to_dec, H. reflexivity.
Qed.

(* no leading zero unless the number is 0 *)
Lemma N_to_dec_no_leading_zero n r : N_to_dec n = x30 :: r -> n = 0%N.
Proof.
  revert r. induction n as [n Hn | n Hn IH] using N_dec_ind; intros r H.
  - rewrite N_to_dec_small in H by exact Hn. injection H as H _. apply digit_byte_zero; assumption.
  - exfalso. rewrite N_to_dec_step in H by exact Hn.
    destruct (N_to_dec (n / 10)) as [|c s] eqn:E.
    + exact (N_to_dec_nonempty _ E).
    + cbn in H. injection H as Hc _. subst c. specialize (IH s eq_refl).
      assert (0 < n / 10)%N by (apply N.div_str_pos; lia). lia.
Qed.

(* leading zeros do not change the value *)
Lemma dec_digits_val_zeros k s : dec_digits_val (repeat x30 k ++ s) = dec_digits_val s.
Proof.
  induction k as [|k IH]; [reflexivity|].
  unfold dec_digits_val in *. cbn [repeat app fold_left]. exact IH.
Qed.

(* ---------- all_digits helpers ---------- *)

Lemma all_digits_app s t : all_digits (s ++ t) <-> all_digits s /\ all_digits t.
Proof. apply Forall_app. Qed.

Lemma all_digits_repeat_zero k : all_digits (repeat x30 k).
Proof. induction k; cbn; constructor; [reflexivity|assumption]. Qed.

(* ---------- has_prefix ---------- *)

Lemma has_prefix_app p s : has_prefix p (p ++ s) = true.
Proof. induction p as [|a p IH]; cbn; [reflexivity|]. rewrite IH, (proj2 (byte_eqb_eq a a) eq_refl). reflexivity. Qed.

Lemma has_prefix_spec p s : has_prefix p s = true <-> exists t, s = p ++ t.
Proof.
  revert s. induction p as [|a p IH]; intro s; cbn.
  - split; [intros _; exists s; reflexivity|reflexivity].
  - destruct s as [|c s].
    + split; [discriminate|intros [t H]; discriminate].
    + rewrite andb_true_iff, byte_eqb_eq, IH. split.
      * intros [-> [t ->]]. exists t. reflexivity.
      * intros [t H]. injection H as -> ->. split; [reflexivity|exists t; reflexivity].
Qed.
