(* Byte strings with Go [len] semantics: a Go string / []byte is a [list byte]. *)
From Coq Require Import List ZArith NArith Bool Strings.Byte Strings.String Strings.Ascii.
Import ListNotations.

Definition bytes := list byte.

(* [b "abc"] : literal byte strings for ASCII text (used by case files and constants). *)
Definition b (s : string) : bytes := list_byte_of_string s.

Definition byte_N (x : byte) : N := Byte.to_N x.
Definition byte_Z (x : byte) : Z := Z.of_N (Byte.to_N x).

(* Go's byte(n) conversion: truncation to the low 8 bits. *)
Definition byte_of_N_trunc (n : N) : byte :=
  match Byte.of_N (n mod 256) with Some x => x | None => x00 end.
Definition byte_of_Z_trunc (z : Z) : byte := byte_of_N_trunc (Z.to_N (z mod 256)).

Fixpoint bytes_eqb (x y : bytes) : bool :=
  match x, y with
  | [], [] => true
  | a :: x', c :: y' => Byte.eqb a c && bytes_eqb x' y'
  | _, _ => false
  end.

Lemma byte_eqb_eq (x y : byte) : Byte.eqb x y = true <-> x = y.
Proof. split; [apply Byte.byte_dec_bl | apply Byte.byte_dec_lb]. Qed.

Lemma bytes_eqb_eq : forall x y, bytes_eqb x y = true <-> x = y.
Proof.
  induction x as [|a x IH]; destruct y as [|c y]; simpl; split; intro H; try congruence; try discriminate.
  - apply andb_true_iff in H. destruct H as [H1 H2]. apply byte_eqb_eq in H1. apply IH in H2. congruence.
  - inversion H; subst. apply andb_true_iff. split. apply byte_eqb_eq; reflexivity. apply IH; reflexivity.
Qed.

Lemma bytes_eqb_refl x : bytes_eqb x x = true.
Proof. apply bytes_eqb_eq; reflexivity. Qed.

Definition bytes_eq_dec (x y : bytes) : {x = y} + {x <> y}.
Proof. destruct (bytes_eqb x y) eqn:E. left; apply bytes_eqb_eq; exact E.
  right; intro H; apply bytes_eqb_eq in H; congruence. Defined.

(* lexicographic comparison (Go's bytes.Compare / string <) *)
Fixpoint bytes_cmp (x y : bytes) : comparison :=
  match x, y with
  | [], [] => Eq
  | [], _ => Lt
  | _, [] => Gt
  | a :: x', c :: y' =>
      match N.compare (byte_N a) (byte_N c) with
      | Eq => bytes_cmp x' y'
      | r => r
      end
  end.

Fixpoint has_prefix (p s : bytes) : bool :=
  match p, s with
  | [], _ => true
  | a :: p', c :: s' => Byte.eqb a c && has_prefix p' s'
  | _ :: _, [] => false
  end.

Definition is_digit (x : byte) : bool := (48 <=? byte_N x)%N && (byte_N x <=? 57)%N.
Definition is_upper (x : byte) : bool := (65 <=? byte_N x)%N && (byte_N x <=? 90)%N.
Definition is_lower (x : byte) : bool := (97 <=? byte_N x)%N && (byte_N x <=? 122)%N.
Definition digit_val (x : byte) : Z := byte_Z x - 48.

(* ASCII lower-casing, as strings.ToLower does on ASCII input *)
Definition to_lower_byte (x : byte) : byte :=
  if is_upper x then byte_of_N_trunc (byte_N x + 32) else x.
Definition to_lower (s : bytes) : bytes := map to_lower_byte s.

(* index of the first occurrence of a byte (strings.IndexByte) *)
Fixpoint index_byte (c : byte) (s : bytes) : option nat :=
  match s with
  | [] => None
  | a :: s' => if Byte.eqb a c then Some O else option_map S (index_byte c s')
  end.

(* decimal rendering of a non-negative integer *)
Fixpoint digits_fuel (fuel : nat) (n : N) (acc : bytes) : bytes :=
  match fuel with
  | O => acc
  | S f => let d := byte_of_N_trunc (48 + n mod 10) in
           if (n <? 10)%N then d :: acc else digits_fuel f (n / 10) (d :: acc)
  end.
Definition N_to_dec (n : N) : bytes := digits_fuel (S (N.to_nat (N.log2 n))) n [].
Definition Z_to_dec (z : Z) : bytes :=
  if (z <? 0)%Z then b "-" ++ N_to_dec (Z.to_N (- z)) else N_to_dec (Z.to_N z).

(* value of a string of decimal digits, most significant first (no validation) *)
Definition dec_digits_val (s : bytes) : Z := fold_left (fun acc c => acc * 10 + digit_val c)%Z s 0%Z.
