(* A small regular-expression AST over bytes, sufficient for every regex literal used by the
   identifier validators of x/ecocredit (base/utils.go, basket/utils.go, types_origin_tx.go,
   types/eth).  Model file: definitions only; proofs are in RegexProps.v.

   Go's regexp matches UTF-8 runes; every class in the modelled regexes is ASCII, so a byte
   >= 0x80 never matches an ASCII class and byte-level matching is exact.  The only rune-level
   construct is `.` (any rune except \n), which the translator expands to [re_dot] below (see
   tools/extract/regexp2coq for the side condition under which that expansion is exact). *)
From Coq Require Import List NArith Bool Strings.Byte.
Require Import Regen.Base.Bytes.
Import ListNotations.

Inductive re :=
| Eps
| Chr (c : byte)
| Class (ranges : list (byte * byte))     (* [lo-hi ...], inclusive; [Class []] is the empty language *)
| Cat (a b : re)
| Alt (a b : re)
| Star (a : re)
| Rep (a : re) (m n : nat)                (* a{m,n} *)
| RepAtLeast (a : re) (m : nat)           (* a{m,} *)
| Opt (a : re).

Fixpoint in_ranges (rs : list (byte * byte)) (c : byte) : bool :=
  match rs with
  | [] => false
  | (lo, hi) :: rs' => ((byte_N lo <=? byte_N c)%N && (byte_N c <=? byte_N hi)%N) || in_ranges rs' c
  end.

(* Denotational semantics: [matches r s] iff the whole of [s] is in the language of [r]. *)
Inductive matches : re -> bytes -> Prop :=
| M_Eps : matches Eps []
| M_Chr c : matches (Chr c) [c]
| M_Class rs c : in_ranges rs c = true -> matches (Class rs) [c]
| M_Cat a b' s t : matches a s -> matches b' t -> matches (Cat a b') (s ++ t)
| M_AltL a b' s : matches a s -> matches (Alt a b') s
| M_AltR a b' s : matches b' s -> matches (Alt a b') s
| M_Star0 a : matches (Star a) []
| M_StarS a s t : matches a s -> matches (Star a) t -> matches (Star a) (s ++ t)
| M_Rep0 a n : matches (Rep a 0 n) []
| M_RepS a m n s t : matches a s -> matches (Rep a (pred m) n) t -> matches (Rep a m (S n)) (s ++ t)
| M_RepAtLeast0 a s : matches (Star a) s -> matches (RepAtLeast a 0) s
| M_RepAtLeastS a m s t : matches a s -> matches (RepAtLeast a m) t -> matches (RepAtLeast a (S m)) (s ++ t)
| M_Opt0 a : matches (Opt a) []
| M_OptS a s : matches a s -> matches (Opt a) s.

(* ---------- executable matcher (Brzozowski derivatives) ---------- *)

Definition fail : re := Class [].

Definition is_fail (r : re) : bool := match r with Class [] => true | _ => false end.
Definition is_eps (r : re) : bool := match r with Eps => true | _ => false end.

(* smart constructors keep derivative terms small *)
Definition mkCat (a b' : re) : re :=
  if is_fail a then fail else if is_fail b' then fail else
  if is_eps a then b' else if is_eps b' then a else Cat a b'.

Definition mkAlt (a b' : re) : re :=
  if is_fail a then b' else if is_fail b' then a else Alt a b'.

Fixpoint nullable (r : re) : bool :=
  match r with
  | Eps => true
  | Chr _ => false
  | Class _ => false
  | Cat a b' => nullable a && nullable b'
  | Alt a b' => nullable a || nullable b'
  | Star _ => true
  | Rep a m n => match m with O => true | S _ => (Nat.leb m n) && nullable a end
  | RepAtLeast a m => match m with O => true | S _ => nullable a end
  | Opt _ => true
  end.

Fixpoint deriv (c : byte) (r : re) : re :=
  match r with
  | Eps => fail
  | Chr c' => if Byte.eqb c c' then Eps else fail
  | Class rs => if in_ranges rs c then Eps else fail
  | Cat a b' =>
      if nullable a then mkAlt (mkCat (deriv c a) b') (deriv c b') else mkCat (deriv c a) b'
  | Alt a b' => mkAlt (deriv c a) (deriv c b')
  | Star a => mkCat (deriv c a) (Star a)
  | Rep a m n =>
      match n with
      | O => fail
      | S n' => mkCat (deriv c a) (Rep a (pred m) n')
      end
  | RepAtLeast a m =>
      match m with
      | O => mkCat (deriv c a) (Star a)
      | S m' => mkCat (deriv c a) (RepAtLeast a m')
      end
  | Opt a => deriv c a
  end.

Fixpoint rmatch_from (r : re) (s : bytes) : bool :=
  match s with
  | [] => nullable r
  | c :: s' => rmatch_from (deriv c r) s'
  end.

(* whole-string match, i.e. Go's ^r$ without the multi-line flag *)
Definition rmatch (r : re) (s : bytes) : bool := rmatch_from r s.

(* ---------- `.` : any UTF-8 rune except '\n', or a single invalid byte ----------
   Byte-level expansion of Go's OpAnyCharNotNL.  A lone byte (any value but 0x0a) or a
   well-formed multi-byte UTF-8 sequence (Unicode table 3-7).  Exact whenever what follows the
   dot can only start with an ASCII byte or the dot is at the end of the pattern, because then
   the lone-byte alternative can only be taken where Go's decoder also yields a 1-byte rune. *)
Definition cont : re := Class [(x80, xbf)].
Definition re_dot : re :=
  Alt (Class [(x00, x09); (x0b, xff)])
  (Alt (Cat (Class [(xc2, xdf)]) cont)
  (Alt (Cat (Chr xe0) (Cat (Class [(xa0, xbf)]) cont))
  (Alt (Cat (Class [(xe1, xec); (xee, xef)]) (Cat cont cont))
  (Alt (Cat (Chr xed) (Cat (Class [(x80, x9f)]) cont))
  (Alt (Cat (Chr xf0) (Cat (Class [(x90, xbf)]) (Cat cont cont)))
  (Alt (Cat (Class [(xf1, xf3)]) (Cat cont (Cat cont cont)))
       (Cat (Chr xf4) (Cat (Class [(x80, x8f)]) (Cat cont cont))))))))).
