(* Correctness of the derivative matcher of Regex.v w.r.t. the denotational semantics
   ([rmatch_correct]) and compositional lemmas about [matches] used by the identifier proofs. *)
From Coq Require Import List NArith Bool Lia Arith Strings.Byte.
Require Import Regen.Base.Bytes Regen.Base.Regex.
Import ListNotations.

(* ---------- inversion principles ---------- *)

Lemma matches_eps s : matches Eps s <-> s = [].
Proof. split; intro H; [inversion H; reflexivity | subst; constructor]. Qed.

Lemma matches_chr c s : matches (Chr c) s <-> s = [c].
Proof. split; intro H; [inversion H; reflexivity | subst; constructor]. Qed.

Lemma matches_class rs s : matches (Class rs) s <-> exists c, s = [c] /\ in_ranges rs c = true.
Proof.
  split; intro H.
  - inversion H; subst. eexists; split; [reflexivity|assumption].
  - destruct H as [c [-> H]]. constructor; assumption.
Qed.

Lemma matches_fail s : ~ matches fail s.
Proof. intro H. apply matches_class in H. destruct H as [c [_ H]]. discriminate H. Qed.

Lemma matches_cat a c s :
  matches (Cat a c) s <-> exists s1 s2, s = s1 ++ s2 /\ matches a s1 /\ matches c s2.
Proof.
  split; intro H.
  - inversion H; subst. eexists; eexists; split; [reflexivity|split; assumption].
  - destruct H as [s1 [s2 [-> [H1 H2]]]]. constructor; assumption.
Qed.

Lemma matches_alt a c s : matches (Alt a c) s <-> matches a s \/ matches c s.
Proof.
  split; intro H.
  - inversion H; subst; [left|right]; assumption.
  - destruct H as [H|H]; [apply M_AltL|apply M_AltR]; assumption.
Qed.

Lemma matches_opt a s : matches (Opt a) s <-> s = [] \/ matches a s.
Proof.
  split; intro H.
  - inversion H; subst; [left; reflexivity|right; assumption].
  - destruct H as [->|H]; [apply M_Opt0|apply M_OptS; assumption].
Qed.

Lemma matches_rep_atleast_0 a s : matches (RepAtLeast a 0) s <-> matches (Star a) s.
Proof. split; intro H; [inversion H; subst; assumption | constructor; assumption]. Qed.

Lemma matches_rep_atleast_S a m s :
  matches (RepAtLeast a (S m)) s <-> exists s1 s2, s = s1 ++ s2 /\ matches a s1 /\ matches (RepAtLeast a m) s2.
Proof.
  split; intro H.
  - inversion H; subst. eexists; eexists; split; [reflexivity|split; assumption].
  - destruct H as [s1 [s2 [-> [H1 H2]]]]. constructor; assumption.
Qed.

Lemma matches_rep_n0 a m s : matches (Rep a m 0) s <-> m = 0 /\ s = [].
Proof.
  split; intro H.
  - inversion H; subst. split; reflexivity.
  - destruct H as [-> ->]. constructor.
Qed.

Lemma matches_rep_S a m n s :
  matches (Rep a m (S n)) s <->
  (m = 0 /\ s = []) \/ exists s1 s2, s = s1 ++ s2 /\ matches a s1 /\ matches (Rep a (pred m) n) s2.
Proof.
  split; intro H.
  - inversion H; subst.
    + left; split; reflexivity.
    + right. eexists; eexists; split; [reflexivity|split; assumption].
  - destruct H as [[-> ->]|[s1 [s2 [-> [H1 H2]]]]]; constructor; assumption.
Qed.

(* ---------- smart constructors ---------- *)

Lemma is_fail_true r : is_fail r = true -> r = fail.
Proof. destruct r as [| |rs| | | | | |]; try discriminate. destruct rs; [reflexivity|discriminate]. Qed.

Lemma is_eps_true r : is_eps r = true -> r = Eps.
Proof. destruct r; try discriminate. reflexivity. Qed.

Lemma matches_mkCat a c s : matches (mkCat a c) s <-> matches (Cat a c) s.
Proof.
  unfold mkCat.
  destruct (is_fail a) eqn:Fa.
  { apply is_fail_true in Fa. subst a. split; intro H; [destruct (matches_fail _ H)|].
    apply matches_cat in H. destruct H as [s1 [s2 [_ [H _]]]]. destruct (matches_fail _ H). }
  destruct (is_fail c) eqn:Fc.
  { apply is_fail_true in Fc. subst c. split; intro H; [destruct (matches_fail _ H)|].
    apply matches_cat in H. destruct H as [s1 [s2 [_ [_ H]]]]. destruct (matches_fail _ H). }
  destruct (is_eps a) eqn:Ea.
  { apply is_eps_true in Ea. subst a. rewrite matches_cat. split.
    - intro H. exists [], s. split; [reflexivity|split; [constructor|exact H]].
    - intros [s1 [s2 [-> [H1 H2]]]]. apply matches_eps in H1. subst s1. exact H2. }
  destruct (is_eps c) eqn:Ec.
  { apply is_eps_true in Ec. subst c. rewrite matches_cat. split.
    - intro H. exists s, []. split; [symmetry; apply app_nil_r|split; [exact H|constructor]].
    - intros [s1 [s2 [-> [H1 H2]]]]. apply matches_eps in H2. subst s2. rewrite app_nil_r. exact H1. }
  reflexivity.
Qed.

Lemma matches_mkAlt a c s : matches (mkAlt a c) s <-> matches (Alt a c) s.
Proof.
  unfold mkAlt. rewrite matches_alt.
  destruct (is_fail a) eqn:Fa.
  { apply is_fail_true in Fa. subst a. split; [intro H; right; exact H|].
    intros [H|H]; [destruct (matches_fail _ H)|exact H]. }
  destruct (is_fail c) eqn:Fc.
  { apply is_fail_true in Fc. subst c. split; [intro H; left; exact H|].
    intros [H|H]; [exact H|destruct (matches_fail _ H)]. }
  apply matches_alt.
Qed.

(* ---------- nullable ---------- *)

Lemma matches_rep_nil a : forall n m,
  matches (Rep a m n) [] <-> (m = 0 \/ (m <= n /\ matches a [])).
Proof.
  induction n as [|n IH]; intro m.
  - rewrite matches_rep_n0. split.
    + intros [-> _]. left; reflexivity.
    + intros [->|[H _]]; [split; reflexivity|]. split; [lia|reflexivity].
  - rewrite matches_rep_S. split.
    + intros [[-> _]|[s1 [s2 [E [H1 H2]]]]]; [left; reflexivity|].
      symmetry in E. apply app_eq_nil in E. destruct E as [-> ->].
      apply IH in H2. destruct m as [|m]; [left; reflexivity|]. right. cbn [pred] in H2.
      split; [|exact H1]. destruct H2 as [->|[H2 _]]; lia.
    + intros [->|[Hle Ha]]; [left; split; reflexivity|].
      destruct m as [|m]; [left; split; reflexivity|].
      right. exists [], []. split; [reflexivity|]. split; [exact Ha|]. cbn [pred].
      apply IH. destruct m as [|m]; [left; reflexivity|]. right. split; [lia|exact Ha].
Qed.

Lemma matches_rep_atleast_nil a : forall m,
  matches (RepAtLeast a m) [] <-> (m = 0 \/ matches a []).
Proof.
  induction m as [|m IH].
  - split; [intros _; left; reflexivity|]. intros _. constructor. constructor.
  - rewrite matches_rep_atleast_S. split.
    + intros [s1 [s2 [E [H1 _]]]]. symmetry in E. apply app_eq_nil in E. destruct E as [-> _].
      right; exact H1.
    + intros [H|H]; [discriminate H|]. exists [], []. split; [reflexivity|]. split; [exact H|].
      apply IH. right; exact H.
Qed.

Lemma nullable_correct r : nullable r = true <-> matches r [].
Proof.
  induction r as [|c|rs|a IHa c IHc|a IHa c IHc|a IHa|a IHa m n|a IHa m|a IHa]; cbn [nullable].
  - split; [intros _; constructor|reflexivity].
  - split; [discriminate|]. intro H. apply matches_chr in H. discriminate H.
  - split; [discriminate|]. intro H. apply matches_class in H. destruct H as [c [H _]]. discriminate H.
  - rewrite andb_true_iff, IHa, IHc, matches_cat. split.
    + intros [H1 H2]. exists [], []. split; [reflexivity|split; assumption].
    + intros [s1 [s2 [E [H1 H2]]]]. symmetry in E. apply app_eq_nil in E. destruct E as [-> ->].
      split; assumption.
  - rewrite orb_true_iff, IHa, IHc, matches_alt. reflexivity.
  - split; [intros _; constructor|reflexivity].
  - rewrite matches_rep_nil. destruct m as [|m].
    + split; [intros _; left; reflexivity|reflexivity].
    + rewrite andb_true_iff, Nat.leb_le, IHa. split.
      * intros [H1 H2]. right. split; assumption.
      * intros [H|[H1 H2]]; [discriminate H|split; assumption].
  - rewrite matches_rep_atleast_nil. destruct m as [|m].
    + split; [intros _; left; reflexivity|reflexivity].
    + rewrite IHa. split; [intro H; right; exact H|]. intros [H|H]; [discriminate H|exact H].
  - split; [intros _; constructor|reflexivity].
Qed.

(* ---------- unfolding a non-empty match of an iteration ---------- *)

Lemma star_unfold_gen r u : matches r u ->
  forall a c s, r = Star a -> u = c :: s ->
  exists s1 s2, s = s1 ++ s2 /\ matches a (c :: s1) /\ matches (Star a) s2.
Proof.
  induction 1 as [|?|?|?|?|?|a0|a0 s0 t0 H1 _ H2 IH2|?|?|?|?|?|?]; intros aa cc ss Er Eu; try discriminate Er.
  - discriminate Eu.
  - injection Er as ->. destruct s0 as [|c0 s0].
    + cbn in Eu. apply (IH2 aa cc ss eq_refl Eu).
    + cbn in Eu. injection Eu as -> <-. exists s0, t0. split; [reflexivity|split; assumption].
Qed.

Lemma star_unfold a c s :
  matches (Star a) (c :: s) ->
  exists s1 s2, s = s1 ++ s2 /\ matches a (c :: s1) /\ matches (Star a) s2.
Proof. intro H. exact (star_unfold_gen _ _ H a c s eq_refl eq_refl). Qed.

Lemma rep_upper_mono_gen r s : matches r s ->
  forall a m n, r = Rep a m n -> matches (Rep a m (S n)) s.
Proof.
  induction 1 as [|?|?|?|?|?|?|?|a0 n0|a0 m0 n0 s0 t0 H1 _ H2 IH2|?|?|?|?]; intros aa mm nn Er; try discriminate Er.
  - injection Er as -> <- _. constructor.
  - injection Er as -> -> <-. apply M_RepS; [exact H1|]. apply IH2. reflexivity.
Qed.

Lemma rep_upper_mono a m n s : matches (Rep a m n) s -> matches (Rep a m (S n)) s.
Proof. intro H. exact (rep_upper_mono_gen _ _ H a m n eq_refl). Qed.

Lemma rep_unfold_gen r u : matches r u ->
  forall a m n c s, r = Rep a m n -> u = c :: s ->
  exists n' s1 s2, n = S n' /\ s = s1 ++ s2 /\ matches a (c :: s1) /\ matches (Rep a (pred m) n') s2.
Proof.
  induction 1 as [|?|?|?|?|?|?|?|a0 n0|a0 m0 n0 s0 t0 H1 _ H2 IH2|?|?|?|?]; intros aa mm nn cc ss Er Eu; try discriminate Er.
  - discriminate Eu.
  - injection Er as -> -> <-. destruct s0 as [|c0 s0].
    + cbn in Eu. destruct (IH2 _ _ _ cc ss eq_refl Eu) as [n' [s1 [s2 [En [Es [Ha Hr]]]]]].
      subst n0. exists (S n'), s1, s2. split; [reflexivity|]. split; [exact Es|]. split; [exact Ha|].
      destruct (pred mm) as [|k] eqn:Ek.
      * cbn [pred] in Hr. apply rep_upper_mono. exact Hr.
      * cbn [pred] in Hr. change s2 with ([] ++ s2). apply M_RepS; [exact H1|]. cbn [pred]. exact Hr.
    + cbn in Eu. injection Eu as -> <-. exists n0, s0, t0.
      split; [reflexivity|]. split; [reflexivity|]. split; assumption.
Qed.

Lemma rep_unfold a c s m n :
  matches (Rep a m n) (c :: s) ->
  exists n' s1 s2, n = S n' /\ s = s1 ++ s2 /\ matches a (c :: s1) /\ matches (Rep a (pred m) n') s2.
Proof. intro H. exact (rep_unfold_gen _ _ H a m n c s eq_refl eq_refl). Qed.

Lemma rep_atleast_unfold_gen r u : matches r u ->
  forall a m c s, r = RepAtLeast a m -> u = c :: s ->
  exists s1 s2, s = s1 ++ s2 /\ matches a (c :: s1) /\ matches (RepAtLeast a (pred m)) s2.
Proof.
  induction 1 as [|?|?|?|?|?|?|?|?|?|a0 s0 H0 _|a0 m0 s0 t0 H1 _ H2 IH2|?|?]; intros aa mm cc ss Er Eu; try discriminate Er.
  - injection Er as -> <-. subst s0. destruct (star_unfold _ _ _ H0) as [s1 [s2 [Es [Ha Hs]]]].
    exists s1, s2. split; [exact Es|]. split; [exact Ha|]. cbn [pred]. constructor. exact Hs.
  - injection Er as -> <-. destruct s0 as [|c0 s0].
    + cbn in Eu. destruct (IH2 _ _ cc ss eq_refl Eu) as [s1 [s2 [Es [Ha Hr]]]].
      exists s1, s2. split; [exact Es|]. split; [exact Ha|]. cbn [pred].
      destruct m0 as [|k].
      * cbn [pred] in Hr. exact Hr.
      * cbn [pred] in Hr. change s2 with ([] ++ s2). apply M_RepAtLeastS; assumption.
    + cbn in Eu. injection Eu as -> <-. exists s0, t0. split; [reflexivity|]. split; assumption.
Qed.

Lemma rep_atleast_unfold a c s m :
  matches (RepAtLeast a m) (c :: s) ->
  exists s1 s2, s = s1 ++ s2 /\ matches a (c :: s1) /\ matches (RepAtLeast a (pred m)) s2.
Proof. intro H. exact (rep_atleast_unfold_gen _ _ H a m c s eq_refl eq_refl). Qed.

(* ---------- derivatives ---------- *)

Lemma matches_cons_cat a c0 x s :
  matches (Cat a c0) (x :: s) <->
  (matches a [] /\ matches c0 (x :: s)) \/
  (exists s1 s2, s = s1 ++ s2 /\ matches a (x :: s1) /\ matches c0 s2).
Proof.
  rewrite matches_cat. split.
  - intros [u [v [E [H1 H2]]]]. destruct u as [|y u].
    + cbn in E. subst v. left. split; assumption.
    + cbn in E. injection E as <- ->. right. exists u, v. split; [reflexivity|split; assumption].
  - intros [[H1 H2]|[s1 [s2 [-> [H1 H2]]]]].
    + exists [], (x :: s). split; [reflexivity|split; assumption].
    + exists (x :: s1), s2. split; [reflexivity|split; assumption].
Qed.

Lemma deriv_correct : forall r c s, matches (deriv c r) s <-> matches r (c :: s).
Proof.
  induction r as [|c'|rs|a IHa c0 IHc|a IHa c0 IHc|a IHa|a IHa m n|a IHa m|a IHa]; intros c s; cbn [deriv].
  - split; intro H; [destruct (matches_fail _ H)|apply matches_eps in H; discriminate H].
  - destruct (Byte.eqb c c') eqn:E.
    + apply byte_eqb_eq in E. subst c'. rewrite matches_eps, matches_chr. split; [intros ->; reflexivity|].
      intro H. injection H as ->. reflexivity.
    + split; intro H; [destruct (matches_fail _ H)|]. apply matches_chr in H. injection H as Hc _. subst c'.
      rewrite (proj2 (byte_eqb_eq c c) eq_refl) in E. discriminate E.
  - destruct (in_ranges rs c) eqn:E.
    + rewrite matches_eps, matches_class. split.
      * intros ->. exists c. split; [reflexivity|exact E].
      * intros [x [H _]]. injection H as _ ->. reflexivity.
    + split; intro H; [destruct (matches_fail _ H)|]. apply matches_class in H.
      destruct H as [x [H Hx]]. injection H as -> _. congruence.
  - rewrite matches_cons_cat.
    assert (Hc : matches (mkCat (deriv c a) c0) s <->
                 exists s1 s2, s = s1 ++ s2 /\ matches a (c :: s1) /\ matches c0 s2).
    { rewrite matches_mkCat, matches_cat. split; intros [s1 [s2 [E [H1 H2]]]]; exists s1, s2;
        (split; [exact E|]); (split; [|exact H2]); apply IHa; exact H1. }
    destruct (nullable a) eqn:Na.
    + rewrite matches_mkAlt, matches_alt, Hc, IHc.
      apply nullable_correct in Na. split.
      * intros [H|H]; [right; exact H|left; split; assumption].
      * intros [[_ H]|H]; [right; exact H|left; exact H].
    + rewrite Hc. split; [intro H; right; exact H|].
      intros [[H _]|H]; [|exact H]. apply nullable_correct in H. congruence.
  - rewrite matches_mkAlt, !matches_alt, IHa, IHc. reflexivity.
  - rewrite matches_mkCat, matches_cat. split.
    + intros [s1 [s2 [-> [H1 H2]]]]. apply IHa in H1. change (c :: s1 ++ s2) with ((c :: s1) ++ s2).
      constructor; assumption.
    + intro H. destruct (star_unfold _ _ _ H) as [s1 [s2 [E [H1 H2]]]]. exists s1, s2.
      split; [exact E|]. split; [apply IHa; exact H1|exact H2].
  - destruct n as [|n].
    + split; intro H; [destruct (matches_fail _ H)|]. apply matches_rep_n0 in H. destruct H as [_ H]. discriminate H.
    + rewrite matches_mkCat, matches_cat. split.
      * intros [s1 [s2 [-> [H1 H2]]]]. apply IHa in H1. change (c :: s1 ++ s2) with ((c :: s1) ++ s2).
        apply M_RepS; assumption.
      * intro H. destruct (rep_unfold _ _ _ _ _ H) as [n' [s1 [s2 [En [E [H1 H2]]]]]].
        injection En as <-. exists s1, s2. split; [exact E|]. split; [apply IHa; exact H1|exact H2].
  - destruct m as [|m].
    + rewrite matches_mkCat, matches_cat, matches_rep_atleast_0. split.
      * intros [s1 [s2 [-> [H1 H2]]]]. apply IHa in H1. change (c :: s1 ++ s2) with ((c :: s1) ++ s2).
        constructor; assumption.
      * intro H. destruct (star_unfold _ _ _ H) as [s1 [s2 [E [H1 H2]]]]. exists s1, s2.
        split; [exact E|]. split; [apply IHa; exact H1|exact H2].
    + rewrite matches_mkCat, matches_cat. split.
      * intros [s1 [s2 [-> [H1 H2]]]]. apply IHa in H1. change (c :: s1 ++ s2) with ((c :: s1) ++ s2).
        constructor; assumption.
      * intro H. destruct (rep_atleast_unfold _ _ _ _ H) as [s1 [s2 [E [H1 H2]]]]. exists s1, s2.
        split; [exact E|]. split; [apply IHa; exact H1|exact H2].
  - rewrite IHa, matches_opt. split; [intro H; right; exact H|]. intros [H|H]; [discriminate H|exact H].
Qed.

Lemma rmatch_from_correct : forall s r, rmatch_from r s = true <-> matches r s.
Proof.
  induction s as [|c s IH]; intro r; cbn [rmatch_from].
  - apply nullable_correct.
  - rewrite IH. apply deriv_correct.
Qed.

Theorem rmatch_correct r s : rmatch r s = true <-> matches r s.
Proof. apply rmatch_from_correct. Qed.

(* ---------- iterations of a character class ---------- *)

Definition all_in (rs : list (byte * byte)) (s : bytes) : Prop := Forall (fun c => in_ranges rs c = true) s.

Lemma matches_star_class rs s : matches (Star (Class rs)) s <-> all_in rs s.
Proof.
  split.
  - revert s. induction s as [|c s IH]; intro H; [constructor|].
    destruct (star_unfold _ _ _ H) as [s1 [s2 [-> [H1 H2]]]].
    apply matches_class in H1. destruct H1 as [x [E Hx]]. injection E as <- E.
    symmetry in E. subst s1. cbn in *. constructor; [exact Hx|]. apply IH. exact H2.
  - induction 1 as [|c s Hc _ IH]; [constructor|].
    change (c :: s) with ([c] ++ s). constructor; [constructor; exact Hc|exact IH].
Qed.

Lemma matches_rep_atleast_class rs : forall m s,
  matches (RepAtLeast (Class rs) m) s <-> (m <= length s /\ all_in rs s).
Proof.
  induction m as [|m IH]; intro s.
  - rewrite matches_rep_atleast_0, matches_star_class. split; [intro H; split; [lia|exact H]|tauto].
  - rewrite matches_rep_atleast_S. split.
    + intros [s1 [s2 [-> [H1 H2]]]]. apply matches_class in H1. destruct H1 as [x [-> Hx]].
      apply IH in H2. destruct H2 as [Hl Ha]. cbn. split; [lia|]. constructor; assumption.
    + intros [Hl Ha]. destruct s as [|c s]; [cbn in Hl; lia|]. inversion Ha as [|? ? Hc Hs]; subst.
      exists [c], s. split; [reflexivity|]. split; [constructor; exact Hc|]. apply IH. cbn in Hl. split; [lia|exact Hs].
Qed.

Lemma matches_rep_class rs : forall n m s,
  matches (Rep (Class rs) m n) s <-> (m <= length s <= n /\ all_in rs s).
Proof.
  induction n as [|n IH]; intros m s.
  - rewrite matches_rep_n0. split.
    + intros [-> ->]. split; [cbn; lia|constructor].
    + intros [[H1 H2] _]. destruct s; [|cbn in H2; lia]. cbn in H1. split; [lia|reflexivity].
  - rewrite matches_rep_S. split.
    + intros [[-> ->]|[s1 [s2 [-> [H1 H2]]]]].
      * split; [cbn; lia|constructor].
      * apply matches_class in H1. destruct H1 as [x [-> Hx]]. apply IH in H2. destruct H2 as [Hl Ha].
        cbn. split; [lia|]. constructor; assumption.
    + intros [[H1 H2] Ha]. destruct s as [|c s].
      * left. cbn in H1. split; [lia|reflexivity].
      * right. inversion Ha as [|? ? Hc Hs]; subst. exists [c], s. split; [reflexivity|].
        split; [constructor; exact Hc|]. apply IH. cbn in H1, H2. split; [lia|exact Hs].
Qed.

(* a literal byte followed by something *)
Lemma matches_cat_chr c r s : matches (Cat (Chr c) r) s <-> exists t, s = c :: t /\ matches r t.
Proof.
  rewrite matches_cat. split.
  - intros [s1 [s2 [-> [H1 H2]]]]. apply matches_chr in H1. subst s1. exists s2. split; [reflexivity|exact H2].
  - intros [t [-> H]]. exists [c], t. split; [reflexivity|]. split; [constructor|exact H].
Qed.
