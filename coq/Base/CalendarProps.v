(* Proofs about Calendar.v: round trips of Hinnant's civil-date algorithms (by reflection over
   one 400-year era + periodicity), range facts for protobuf-valid timestamps, zero padding and
   the "20060102" layout (8 digits, injective on dates). *)
From Coq Require Import ZArith NArith List Bool Lia Strings.Byte.
Require Import Regen.Base.Bytes Regen.Base.BytesProps Regen.Base.Calendar.
Import ListNotations.
Open Scope Z_scope.

(* ---------- bounded universal checks by computation ---------- *)

Fixpoint forall_range (f : Z -> bool) (lo : Z) (n : nat) : bool :=
  match n with
  | O => true
  | S k => f lo && forall_range f (lo + 1) k
  end.

Lemma forall_range_spec f : forall n lo,
  forall_range f lo n = true -> forall z, lo <= z < lo + Z.of_nat n -> f z = true.
Proof.
  induction n as [|n IH]; intros lo H z Hz; [lia|].
  cbn [forall_range] in H. apply andb_true_iff in H. destruct H as [H0 H1].
  destruct (Z.eq_dec z lo) as [->|Hne]; [exact H0|].
  apply (IH (lo + 1) H1). lia.
Qed.

(* two-level range: all z in [lo, lo + n1*n2) *)
Definition forall_range2 (f : Z -> bool) (lo : Z) (n1 n2 : nat) : bool :=
  forall_range (fun q => forall_range (fun r => f (lo + q * Z.of_nat n2 + r)) 0 n2) 0 n1.

Lemma forall_range2_spec f lo n1 n2 :
  forall_range2 f lo n1 n2 = true ->
  forall z, lo <= z < lo + Z.of_nat n1 * Z.of_nat n2 -> f z = true.
Proof.
  intros H z Hz. unfold forall_range2 in H.
  destruct n2 as [|n2']; [lia|]. set (n2 := S n2') in *.
  assert (Hn2 : 0 < Z.of_nat n2) by (unfold n2; lia).
  set (q := (z - lo) / Z.of_nat n2). set (r := (z - lo) mod Z.of_nat n2).
  assert (Hqr : z - lo = Z.of_nat n2 * q + r) by (apply Z.div_mod; lia).
  assert (Hr : 0 <= r < Z.of_nat n2) by (apply Z.mod_pos_bound; lia).
  assert (Hq : 0 <= q < 0 + Z.of_nat n1).
  { split; [apply Z.div_pos; lia|]. cbn. apply Z.div_lt_upper_bound; [lia|]. nia. }
  pose proof (forall_range_spec _ _ _ H q Hq) as Hin. cbv beta in Hin.
  pose proof (forall_range_spec _ _ _ Hin r ltac:(lia)) as Hf. cbv beta in Hf.
  replace (lo + q * Z.of_nat n2 + r) with z in Hf by lia. exact Hf.
Qed.

(* ---------- periodicity (400 years = 146097 days) ---------- *)

Lemma is_leap_period y k : is_leap (y + 400 * k) = is_leap y.
Proof.
  unfold is_leap.
  replace (y + 400 * k) with (y + (100 * k) * 4) at 1 by lia.
  replace (y + 400 * k) with (y + (4 * k) * 100) at 1 by lia.
  replace (y + 400 * k) with (y + k * 400) by lia.
  rewrite !Z_mod_plus_full. reflexivity.
Qed.

Lemma valid_date_period y m d k : valid_date (y + 400 * k) m d = valid_date y m d.
Proof. unfold valid_date, days_in_month. rewrite is_leap_period. reflexivity. Qed.

Lemma days_from_civil_period y m d k :
  days_from_civil (y + 400 * k) m d = days_from_civil y m d + 146097 * k.
Proof.
  unfold days_from_civil.
  set (y0 := if m <=? 2 then y - 1 else y).
  replace (if m <=? 2 then y + 400 * k - 1 else y + 400 * k) with (y0 + k * 400)
    by (unfold y0; destruct (m <=? 2); lia).
  rewrite Z.div_add by lia.
  replace (y0 + k * 400 - (y0 / 400 + k) * 400) with (y0 - y0 / 400 * 400) by lia.
  cbv zeta. lia.
Qed.

Lemma civil_from_days_period z k :
  civil_from_days (z + 146097 * k) =
  let '(y, m, d) := civil_from_days z in (y + 400 * k, m, d).
Proof.
  unfold civil_from_days.
  replace (z + 146097 * k + 719468) with (z + 719468 + k * 146097) by lia.
  rewrite Z.div_add by lia.
  set (z' := z + 719468).
  replace (z' + k * 146097 - (z' / 146097 + k) * 146097) with (z' - z' / 146097 * 146097) by lia.
  cbv zeta.
  set (doe := z' - z' / 146097 * 146097).
  set (yoe := (doe - doe / 1460 + doe / 36524 - doe / 146096) / 365).
  set (doy := doe - (365 * yoe + yoe / 4 - yoe / 100)).
  set (mp := (5 * doy + 2) / 153).
  destruct ((if mp <? 10 then mp + 3 else mp - 9) <=? 2); f_equal; f_equal; lia.
Qed.

(* ---------- one era, by computation ---------- *)

Definition triple_eqb (a c : Z * Z * Z) : bool :=
  let '(a1, a2, a3) := a in let '(c1, c2, c3) := c in (a1 =? c1) && (a2 =? c2) && (a3 =? c3).

Lemma triple_eqb_eq a c : triple_eqb a c = true -> a = c.
Proof.
  destruct a as [[a1 a2] a3], c as [[c1 c2] c3]. cbn.
  rewrite !andb_true_iff, !Z.eqb_eq. intros [[-> ->] ->]. reflexivity.
Qed.

Lemma negb_orb_elim (a c : bool) : negb a || c = true -> a = true -> c = true.
Proof. destruct a; cbn; [auto|discriminate]. Qed.

(* every valid date of years 0..399 survives days_from_civil ; civil_from_days *)
Definition check_date (y m d : Z) : bool :=
  negb (valid_date y m d) || triple_eqb (civil_from_days (days_from_civil y m d)) (y, m, d).

Lemma check_date_elim y m d : check_date y m d = true -> valid_date y m d = true ->
  civil_from_days (days_from_civil y m d) = (y, m, d).
Proof. unfold check_date. intros H Hv. apply triple_eqb_eq. exact (negb_orb_elim _ _ H Hv). Qed.

Lemma check_era_ymd :
  forall_range (fun y => forall_range (fun m => forall_range (fun d => check_date y m d) 1 31) 1 12) 0 400 = true.
Proof. vm_cast_no_check (eq_refl true). Qed.

(* every day of the era starting 0000-03-01 (z' = z + 719468 in [0, 146097)) *)
Definition check_day (z' : Z) : bool :=
  let z := z' - 719468 in
  let '(y, m, d) := civil_from_days z in
  valid_date y m d && (days_from_civil y m d =? z) && (0 <=? y) && (y <=? 400)
  && ((z' <? 306) || (1 <=? y)) && ((146036 <? z') || (y <=? 399))
  && (days_from_civil y 1 1 <=? z) && (z <? days_from_civil (y + 1) 1 1).

Lemma check_era_days : forall_range2 check_day 0 400 366 = true.
Proof. vm_cast_no_check (eq_refl true). Qed.

Lemma era_day_facts z' : 0 <= z' < 146097 ->
  let '(y, m, d) := civil_from_days (z' - 719468) in
  valid_date y m d = true /\ days_from_civil y m d = z' - 719468 /\ 0 <= y <= 400 /\
  (306 <= z' -> 1 <= y) /\ (z' <= 146036 -> y <= 399) /\
  days_from_civil y 1 1 <= z' - 719468 < days_from_civil (y + 1) 1 1.
Proof.
  intro Hz. pose proof (forall_range2_spec _ _ _ _ check_era_days z' ltac:(cbn; lia)) as H.
  unfold check_day in H. cbv zeta in H.
  destruct (civil_from_days (z' - 719468)) as [[y m] d].
  rewrite !andb_true_iff, !orb_true_iff in H.
  destruct H as [[[[[[[H1 H2] H3] H4] H5] H6] H7] H8].
  apply Z.eqb_eq in H2. apply Z.leb_le in H3. apply Z.leb_le in H4. apply Z.leb_le in H7. apply Z.ltb_lt in H8.
  split; [exact H1|]. split; [exact H2|]. split; [lia|]. split; [|split; [|split; assumption]].
  - intro Hlo. destruct H5 as [H5|H5]; [apply Z.ltb_lt in H5; lia|apply Z.leb_le in H5; exact H5].
  - intro Hhi. destruct H6 as [H6|H6]; [apply Z.ltb_lt in H6; lia|apply Z.leb_le in H6; exact H6].
Qed.

(* ---------- round trips ---------- *)

Theorem civil_from_days_from_civil y m d :
  valid_date y m d = true -> civil_from_days (days_from_civil y m d) = (y, m, d).
Proof.
  intro Hv.
  set (k := y / 400). set (y0 := y mod 400).
  assert (Hy : y = y0 + 400 * k) by (unfold y0, k; pose proof (Z.div_mod y 400 ltac:(lia)); lia).
  assert (Hy0 : 0 <= y0 < 400) by (apply Z.mod_pos_bound; lia).
  clearbody k y0. subst y. rewrite valid_date_period in Hv.
  rewrite days_from_civil_period, civil_from_days_period.
  assert (Hm : 1 <= m <= 12 /\ 1 <= d <= 31).
  { unfold valid_date in Hv. rewrite !andb_true_iff, !Z.leb_le in Hv.
    unfold days_in_month in Hv.
    destruct (m =? 2); [destruct (is_leap y0); lia|].
    destruct ((m =? 4) || (m =? 6) || (m =? 9) || (m =? 11)); lia. }
  pose proof (forall_range_spec _ _ _ check_era_ymd y0 ltac:(cbn; lia)) as Hc. cbv beta in Hc.
  pose proof (forall_range_spec _ _ _ Hc m ltac:(cbn; lia)) as Hc2. cbv beta in Hc2.
  pose proof (forall_range_spec _ _ _ Hc2 d ltac:(cbn; lia)) as Hc3. cbv beta in Hc3.
  rewrite (check_date_elim _ _ _ Hc3 Hv). reflexivity.
Qed.

(* decomposition of an arbitrary day number into era and day of era *)
Lemma civil_from_days_facts z :
  let k := (z + 719468) / 146097 in
  let z' := (z + 719468) mod 146097 in
  let '(y, m, d) := civil_from_days z in
  valid_date y m d = true /\ days_from_civil y m d = z /\
  400 * k <= y <= 400 * k + 400 /\ (306 <= z' -> 400 * k + 1 <= y) /\ (z' <= 146036 -> y <= 400 * k + 399) /\
  days_from_civil y 1 1 <= z < days_from_civil (y + 1) 1 1.
Proof.
  intros k z'.
  assert (Hz : z = (z' - 719468) + 146097 * k).
  { unfold z', k. pose proof (Z.div_mod (z + 719468) 146097 ltac:(lia)). lia. }
  assert (Hz' : 0 <= z' < 146097) by (apply Z.mod_pos_bound; lia).
  pose proof (era_day_facts z' Hz') as H.
  clearbody k z'.
  replace (civil_from_days z) with (civil_from_days (z' - 719468 + 146097 * k)) by (rewrite <- Hz; reflexivity).
  rewrite civil_from_days_period.
  destruct (civil_from_days (z' - 719468)) as [[y m] d].
  destruct H as [H1 [H2 [H3 [H4 [H5 H6]]]]].
  rewrite valid_date_period, !days_from_civil_period.
  replace (y + 400 * k + 1) with (y + 1 + 400 * k) by lia. rewrite days_from_civil_period.
  split; [exact H1|]. split; [lia|]. split; [lia|]. split; [|split; [|lia]]; intro;
    [specialize (H4 ltac:(assumption))|specialize (H5 ltac:(assumption))]; lia.
Qed.

Theorem days_from_civil_from_days z :
  let '(y, m, d) := civil_from_days z in days_from_civil y m d = z.
Proof.
  pose proof (civil_from_days_facts z) as H. cbv zeta in H.
  destruct (civil_from_days z) as [[y m] d]. tauto.
Qed.

Theorem civil_from_days_valid z :
  let '(y, m, d) := civil_from_days z in valid_date y m d = true.
Proof.
  pose proof (civil_from_days_facts z) as H. cbv zeta in H.
  destruct (civil_from_days z) as [[y m] d]. tauto.
Qed.

Lemma valid_date_ranges y m d : valid_date y m d = true -> 1 <= m <= 12 /\ 1 <= d <= 31.
Proof.
  unfold valid_date. rewrite !andb_true_iff, !Z.leb_le. unfold days_in_month.
  destruct (m =? 2); [destruct (is_leap y); lia|].
  destruct ((m =? 4) || (m =? 6) || (m =? 9) || (m =? 11)); lia.
Qed.

(* days 0001-01-01 .. 9999-12-31 have years 1..9999 *)
Lemma civil_from_days_year_range z : -719162 <= z <= 2932896 ->
  let '(y, _, _) := civil_from_days z in 1 <= y <= 9999.
Proof.
  intro Hz. pose proof (civil_from_days_facts z) as H. cbv zeta in H.
  destruct (civil_from_days z) as [[y m] d].
  destruct H as [_ [_ [H3 [H4 [H5 _]]]]].
  set (k := (z + 719468) / 146097) in *. set (z' := (z + 719468) mod 146097) in *.
  assert (Hdm : z + 719468 = 146097 * k + z') by (apply Z.div_mod; lia).
  assert (Hz' : 0 <= z' < 146097) by (apply Z.mod_pos_bound; lia).
  assert (Hk : 0 <= k <= 24) by lia.
  destruct (Z.eq_dec k 0) as [K0|K0]; [|destruct (Z.eq_dec k 24) as [K24|K24]].
  - assert (306 <= z') by lia. specialize (H4 ltac:(assumption)). lia.
  - assert (z' <= 146036) by lia. specialize (H5 ltac:(assumption)). lia.
  - lia.
Qed.

(* ---------- order: the year of a day vs. January 1st ---------- *)

Lemma jan1_step_check :
  forall_range (fun y => let w := days_from_civil (y + 1) 1 1 - days_from_civil y 1 1 in (w =? 365) || (w =? 366)) 0 400 = true.
Proof. vm_cast_no_check (eq_refl true). Qed.

Lemma jan1_step y : days_from_civil y 1 1 < days_from_civil (y + 1) 1 1.
Proof.
  set (k := y / 400). set (y0 := y mod 400).
  assert (Hy : y = y0 + 400 * k) by (unfold y0, k; pose proof (Z.div_mod y 400 ltac:(lia)); lia).
  assert (Hy0 : 0 <= y0 < 400) by (apply Z.mod_pos_bound; lia).
  clearbody k y0. subst y.
  replace (y0 + 400 * k + 1) with (y0 + 1 + 400 * k) by lia. rewrite !days_from_civil_period.
  pose proof (forall_range_spec _ _ _ jan1_step_check y0 ltac:(cbn; lia)) as H. cbv beta zeta in H.
  apply orb_true_iff in H. rewrite !Z.eqb_eq in H. lia.
Qed.

Lemma jan1_mono y1 y2 : y1 <= y2 -> days_from_civil y1 1 1 <= days_from_civil y2 1 1.
Proof.
  intro H.
  assert (G : forall n : nat, days_from_civil y1 1 1 <= days_from_civil (y1 + Z.of_nat n) 1 1).
  { induction n as [|n IH]; [rewrite Z.add_0_r; lia|].
    replace (y1 + Z.of_nat (S n)) with (y1 + Z.of_nat n + 1) by lia.
    pose proof (jan1_step (y1 + Z.of_nat n)). lia. }
  specialize (G (Z.to_nat (y2 - y1))). rewrite Z2Nat.id in G by lia.
  replace (y1 + (y2 - y1)) with y2 in G by lia. exact G.
Qed.

(* the day z falls in a year before y iff it precedes January 1st of y *)
Theorem civil_year_lt_iff z y :
  (let '(y', _, _) := civil_from_days z in y' < y) <-> z < days_from_civil y 1 1.
Proof.
  pose proof (civil_from_days_facts z) as H. cbv zeta in H.
  destruct (civil_from_days z) as [[y' m] d]. destruct H as [_ [_ [_ [_ [_ [Hlo Hhi]]]]]].
  split; intro Hlt.
  - pose proof (jan1_mono (y' + 1) y ltac:(lia)). lia.
  - destruct (Z.lt_ge_cases y' y) as [L|G]; [exact L|]. pose proof (jan1_mono y y' G). lia.
Qed.

(* ---------- timestamps ---------- *)

Lemma ts_valid_spec t : ts_valid t = true ->
  ts_min_secs <= secs t <= ts_max_secs /\ 0 <= nanos t < 1000000000.
Proof.
  unfold ts_valid. rewrite !andb_true_iff, !Z.leb_le, Z.ltb_lt. lia.
Qed.

Lemma ts_valid_unix_secs t : ts_valid t = true -> ts_unix_secs t = secs t.
Proof.
  intro H. apply ts_valid_spec in H. destruct H as [_ Hn]. unfold ts_unix_secs.
  rewrite Z.div_small by lia. lia.
Qed.

Lemma ts_valid_days t : ts_valid t = true -> -719162 <= ts_days t <= 2932896.
Proof.
  intro H. unfold ts_days. rewrite ts_valid_unix_secs by exact H.
  apply ts_valid_spec in H. destruct H as [Hs _]. unfold ts_min_secs, ts_max_secs in Hs.
  pose proof (Z.div_mod (secs t) 86400 ltac:(lia)) as Hd.
  pose proof (Z.mod_pos_bound (secs t) 86400 ltac:(lia)) as Hm. lia.
Qed.

Lemma ts_valid_date t : ts_valid t = true ->
  let '(y, m, d) := ts_date t in 1 <= y <= 9999 /\ 1 <= m <= 12 /\ 1 <= d <= 31 /\ valid_date y m d = true.
Proof.
  intro H. unfold ts_date. pose proof (ts_valid_days t H) as Hd.
  pose proof (civil_from_days_year_range _ Hd) as Hy.
  pose proof (civil_from_days_valid (ts_days t)) as Hv.
  destruct (civil_from_days (ts_days t)) as [[y m] d].
  pose proof (valid_date_ranges _ _ _ Hv). tauto.
Qed.

Lemma year_of_valid t : ts_valid t = true -> 1 <= year_of t <= 9999.
Proof.
  intro H. pose proof (ts_valid_date t H) as Hd. unfold year_of.
  destruct (ts_date t) as [[y m] d]. tauto.
Qed.

Lemma ts_date_start_of_year y : ts_date (start_of_year y) = (y, 1, 1).
Proof.
  unfold ts_date, ts_days, ts_unix_secs, start_of_year. cbn [secs nanos].
  replace (86400 * days_from_civil y 1 1 + 0 / 1000000000) with (days_from_civil y 1 1 * 86400)
    by (rewrite Z.div_0_l by lia; lia).
  rewrite Z.div_mul by lia. apply civil_from_days_from_civil. reflexivity.
Qed.

Lemma year_of_start_of_year y : year_of (start_of_year y) = y.
Proof. unfold year_of. rewrite ts_date_start_of_year. reflexivity. Qed.

(* a timestamp lies in a year before y iff it is chronologically before January 1st 00:00:00 UTC
   of y; holds for every timestamp, normalised or not *)
Theorem year_of_lt_iff t y : year_of t < y <-> ts_compare t (start_of_year y) = Lt.
Proof.
  unfold year_of, ts_date. rewrite (civil_year_lt_iff (ts_days t) y).
  unfold ts_compare, ts_total_nanos, start_of_year, ts_days, ts_unix_secs. cbn [secs nanos].
  rewrite Z.compare_lt_iff.
  set (D := days_from_civil y 1 1). set (s := secs t). set (n := nanos t).
  pose proof (Z.div_mod n 1000000000 ltac:(lia)) as Hn.
  pose proof (Z.mod_pos_bound n 1000000000 ltac:(lia)) as Hnb.
  pose proof (Z.div_mod (s + n / 1000000000) 86400 ltac:(lia)) as Hs.
  pose proof (Z.mod_pos_bound (s + n / 1000000000) 86400 ltac:(lia)) as Hsb.
  lia.
Qed.

Corollary year_of_ge_iff t y : y <= year_of t <-> ts_compare t (start_of_year y) <> Lt.
Proof. rewrite <- year_of_lt_iff. lia. Qed.

(* on normalised timestamps ts_compare is the lexicographic order on (secs, nanos) *)
Lemma ts_compare_lex a c :
  0 <= nanos a < 1000000000 -> 0 <= nanos c < 1000000000 ->
  ts_compare a c = match Z.compare (secs a) (secs c) with Eq => Z.compare (nanos a) (nanos c) | r => r end.
Proof.
  intros Ha Hc. unfold ts_compare, ts_total_nanos.
  destruct (Z.compare_spec (secs a) (secs c)) as [E|L|G].
  - rewrite E. destruct (Z.compare_spec (nanos a) (nanos c)); [apply Z.compare_eq_iff|apply Z.compare_lt_iff|apply Z.compare_gt_iff]; lia.
  - apply Z.compare_lt_iff. lia.
  - apply Z.compare_gt_iff. lia.
Qed.

(* ---------- zero padding ---------- *)

Lemma zero_pad_length w s : length (zero_pad w s) = Nat.max w (length s).
Proof. unfold zero_pad. rewrite app_length, repeat_length. lia. Qed.

Lemma zero_pad_digits w s : all_digits s -> all_digits (zero_pad w s).
Proof. intro H. unfold zero_pad. apply all_digits_app. split; [apply all_digits_repeat_zero|exact H]. Qed.

Lemma zero_pad_val w s : dec_digits_val (zero_pad w s) = dec_digits_val s.
Proof. apply dec_digits_val_zeros. Qed.

Lemma N_to_dec_pad_digits w n : all_digits (N_to_dec_pad w n).
Proof. apply zero_pad_digits, N_to_dec_digits. Qed.

Lemma N_to_dec_pad_length_ge w n : (w <= length (N_to_dec_pad w n))%nat.
Proof. unfold N_to_dec_pad. rewrite zero_pad_length. lia. Qed.

Lemma N_to_dec_pad_length_pos w n : (1 <= length (N_to_dec_pad w n))%nat.
Proof. unfold N_to_dec_pad. rewrite zero_pad_length. pose proof (N_to_dec_length_pos n). lia. Qed.

Lemma N_to_dec_pad_val w n : dec_digits_val (N_to_dec_pad w n) = Z.of_N n.
Proof. unfold N_to_dec_pad. rewrite zero_pad_val. apply dec_digits_val_N_to_dec. Qed.

Lemma N_to_dec_pad_inj w n m : N_to_dec_pad w n = N_to_dec_pad w m -> n = m.
Proof. intro H. apply N2Z.inj. rewrite <- (N_to_dec_pad_val w n), <- (N_to_dec_pad_val w m), H. reflexivity. Qed.

Lemma N_to_dec_length_le : forall k n, (n < 10 ^ N.of_nat (S k))%N -> (length (N_to_dec n) <= S k)%nat.
Proof.
  induction k as [|k IH]; intros n Hn.
  - change (10 ^ N.of_nat 1)%N with 10%N in Hn. rewrite N_to_dec_small by exact Hn. cbn. lia.
  - destruct (N.ltb_spec n 10) as [Hs|Hg].
    + rewrite N_to_dec_small by exact Hs. cbn. lia.
    + rewrite N_to_dec_step by exact Hg. rewrite app_length. cbn [length].
      assert (n / 10 < 10 ^ N.of_nat (S k))%N.
      { apply N.div_lt_upper_bound; [lia|].
        replace (N.of_nat (S (S k))) with (N.succ (N.of_nat (S k))) in Hn by lia.
        rewrite N.pow_succ_r' in Hn. exact Hn. }
      specialize (IH _ H). lia.
Qed.

Lemma N_to_dec_pad_length_exact w n : (0 < w)%nat -> (n < 10 ^ N.of_nat w)%N -> length (N_to_dec_pad w n) = w.
Proof.
  intros Hw Hn. destruct w as [|k]; [lia|].
  unfold N_to_dec_pad. rewrite zero_pad_length. pose proof (N_to_dec_length_le k n Hn). lia.
Qed.

(* ---------- the layout "20060102" ---------- *)

Lemma Z_to_dec_pad_nonneg w z : 0 <= z -> Z_to_dec_pad w z = N_to_dec_pad w (Z.to_N z).
Proof. intro H. unfold Z_to_dec_pad. destruct (Z.ltb_spec z 0); [lia|reflexivity]. Qed.

Lemma format_date_shape y m d :
  1 <= y <= 9999 -> 1 <= m <= 12 -> 1 <= d <= 31 ->
  exists sy sm sd, format_date y m d = sy ++ sm ++ sd /\
    length sy = 4%nat /\ length sm = 2%nat /\ length sd = 2%nat /\
    all_digits sy /\ all_digits sm /\ all_digits sd /\
    dec_digits_val sy = y /\ dec_digits_val sm = m /\ dec_digits_val sd = d.
Proof.
  intros Hy Hm Hd. unfold format_date.
  rewrite !Z_to_dec_pad_nonneg by lia.
  exists (N_to_dec_pad 4 (Z.to_N y)), (N_to_dec_pad 2 (Z.to_N m)), (N_to_dec_pad 2 (Z.to_N d)).
  split; [reflexivity|].
  split; [apply N_to_dec_pad_length_exact; [lia|]; change (10 ^ N.of_nat 4)%N with 10000%N; lia|].
  split; [apply N_to_dec_pad_length_exact; [lia|]; change (10 ^ N.of_nat 2)%N with 100%N; lia|].
  split; [apply N_to_dec_pad_length_exact; [lia|]; change (10 ^ N.of_nat 2)%N with 100%N; lia|].
  split; [apply N_to_dec_pad_digits|]. split; [apply N_to_dec_pad_digits|]. split; [apply N_to_dec_pad_digits|].
  rewrite !N_to_dec_pad_val. lia.
Qed.

Lemma app_eq_length_inv {A} (a1 a2 c1 c2 : list A) :
  length a1 = length a2 -> a1 ++ c1 = a2 ++ c2 -> a1 = a2 /\ c1 = c2.
Proof.
  revert a2. induction a1 as [|x a1 IH]; intros [|y a2] Hl H; try discriminate Hl.
  - split; [reflexivity|exact H].
  - cbn in H. injection H as -> H. cbn in Hl. injection Hl as Hl.
    destruct (IH a2 Hl H) as [-> ->]. split; reflexivity.
Qed.

Theorem format_yyyymmdd_valid t : ts_valid t = true ->
  length (format_yyyymmdd t) = 8%nat /\ all_digits (format_yyyymmdd t).
Proof.
  intro H. pose proof (ts_valid_date t H) as Hd. unfold format_yyyymmdd.
  destruct (ts_date t) as [[y m] d]. destruct Hd as [Hy [Hm [Hd _]]].
  destruct (format_date_shape y m d Hy Hm Hd) as [sy [sm [sd [E [L1 [L2 [L3 [D1 [D2 [D3 _]]]]]]]]]].
  rewrite E. rewrite !app_length, L1, L2, L3. split; [reflexivity|].
  apply all_digits_app. split; [exact D1|]. apply all_digits_app. split; assumption.
Qed.

(* equal YYYYMMDD renderings of valid timestamps mean equal UTC dates (not equal instants) *)
Theorem format_yyyymmdd_inj t1 t2 : ts_valid t1 = true -> ts_valid t2 = true ->
  format_yyyymmdd t1 = format_yyyymmdd t2 -> ts_date t1 = ts_date t2.
Proof.
  intros H1 H2. pose proof (ts_valid_date t1 H1) as Hd1. pose proof (ts_valid_date t2 H2) as Hd2.
  unfold format_yyyymmdd.
  destruct (ts_date t1) as [[y1 m1] d1]. destruct (ts_date t2) as [[y2 m2] d2].
  destruct Hd1 as [Hy1 [Hm1 [Hdd1 _]]]. destruct Hd2 as [Hy2 [Hm2 [Hdd2 _]]].
  destruct (format_date_shape y1 m1 d1 Hy1 Hm1 Hdd1) as [sy1 [sm1 [sd1 [E1 [L1 [L2 [L3 [_ [_ [_ [V1 [V2 V3]]]]]]]]]]]].
  destruct (format_date_shape y2 m2 d2 Hy2 Hm2 Hdd2) as [sy2 [sm2 [sd2 [E2 [K1 [K2 [K3 [_ [_ [_ [W1 [W2 W3]]]]]]]]]]]].
  rewrite E1, E2. intro E.
  apply app_eq_length_inv in E; [|congruence]. destruct E as [Ey E].
  apply app_eq_length_inv in E; [|congruence]. destruct E as [Em Ed].
  subst sy2 sm2 sd2. congruence.
Qed.

(* the rendering is the expected one on a valid civil date *)
Lemma format_yyyymmdd_of_date t y m d : ts_date t = (y, m, d) -> format_yyyymmdd t = format_date y m d.
Proof. intro H. unfold format_yyyymmdd. rewrite H. reflexivity. Qed.
