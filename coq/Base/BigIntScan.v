(* math/big (Go 1.23) [Int.SetString(s, 0)], the reader behind cosmossdk.io/math [NewIntFromString]:
   an optional sign, then [nat.scan] with base 0 and fracOk = false, and the whole string must be consumed.

   With base 0 the number prefix selects the base: 0b/0B binary, 0o/0O octal, 0x/0X hexadecimal, a
   leading 0 followed by anything is octal, otherwise decimal; an underscore may separate a prefix
   from a digit and two successive digits.  So "010" is 8, "0x10" is 16, "1_000" is 1000, "08" is
   rejected.  This file transcribes the scanner statement by statement (model only, no proofs). *)
From Coq Require Import List ZArith NArith Bool Strings.Byte.
Require Import Regen.Base.Bytes.
Import ListNotations.
Open Scope Z_scope.

(* the scanner's [prev]: '_' , '0' (a digit) or '.' (anything else) *)
Inductive scan_prev := PrevSep | PrevDigit | PrevOther.

(* digit value of a character for bases <= 36; MaxBase + 1 = 63 for a character that is no digit *)
Definition scan_digit (ch : byte) : Z :=
  if is_digit ch then byte_Z ch - 48
  else if is_lower ch then byte_Z ch - 97 + 10
  else if is_upper ch then byte_Z ch - 65 + 10
  else 63.

Record scan_state := { sc_prev : scan_prev; sc_inval : bool; sc_count : Z; sc_acc : Z }.

(* the conversion loop: returns the state at the point where scanning stops and the unread rest *)
Fixpoint scan_loop (base : Z) (s : bytes) (st : scan_state) : scan_state * bytes :=
  match s with
  | [] => (st, [])
  | ch :: rest =>
      if Byte.eqb ch "_"%byte then
        scan_loop base rest
          {| sc_prev := PrevSep;
             sc_inval := match sc_prev st with PrevDigit => sc_inval st | _ => true end;
             sc_count := sc_count st; sc_acc := sc_acc st |}
      else
        let d1 := scan_digit ch in
        if base <=? d1 then (st, s)          (* ch does not belong to the number any more *)
        else scan_loop base rest
               {| sc_prev := PrevDigit; sc_inval := sc_inval st;
                  sc_count := sc_count st + 1; sc_acc := sc_acc st * base + d1 |}
  end.

Inductive scan_prefix := PfxNone | PfxLetter | PfxZero.

(* nat.scan(r, 0, false): Some (value, rest) when no error is reported *)
Definition nat_scan0 (s : bytes) : option (Z * bytes) :=
  let '(base, prefix, st0, body) :=
    match s with
    | c0 :: rest =>
        if Byte.eqb c0 "0"%byte then
          match rest with
          | [] => (10, PfxNone, {| sc_prev := PrevDigit; sc_inval := false; sc_count := 1; sc_acc := 0 |}, [])
          | ch :: rest' =>
              let st := {| sc_prev := PrevDigit; sc_inval := false; sc_count := 0; sc_acc := 0 |} in
              if Byte.eqb ch "b"%byte || Byte.eqb ch "B"%byte then (2, PfxLetter, st, rest')
              else if Byte.eqb ch "o"%byte || Byte.eqb ch "O"%byte then (8, PfxLetter, st, rest')
              else if Byte.eqb ch "x"%byte || Byte.eqb ch "X"%byte then (16, PfxLetter, st, rest')
              else (8, PfxZero, st, rest)
          end
        else (10, PfxNone, {| sc_prev := PrevOther; sc_inval := false; sc_count := 0; sc_acc := 0 |}, s)
    | [] => (10, PfxNone, {| sc_prev := PrevOther; sc_inval := false; sc_count := 0; sc_acc := 0 |}, [])
    end in
  let '(st, rest) := scan_loop base body st0 in
  let sep_err := sc_inval st || match sc_prev st with PrevSep => true | _ => false end in
  if sc_count st =? 0 then
    match prefix with
    | PfxZero => if sep_err then None else Some (0, rest)   (* only the octal prefix 0: decimal 0 *)
    | _ => None                                             (* errNoDigits *)
    end
  else if sep_err then None else Some (sc_acc st, rest).

(* Int.SetString(s, 0) *)
Definition big_int_set_string0 (s : bytes) : option Z :=
  match s with
  | [] => None
  | c :: r =>
      let '(neg, body) := if Byte.eqb c "-"%byte then (true, r)
                          else if Byte.eqb c "+"%byte then (false, r) else (false, s) in
      match nat_scan0 body with
      | Some (v, []) => Some (if neg then - v else v)
      | _ => None
      end
  end.

(* sdk.NewIntFromString: SetString(s, 0) and at most 256 bits *)
Definition sdk_int_from_string (s : bytes) : option Z :=
  match big_int_set_string0 s with
  | Some v => if Z.log2 (Z.abs v) <? 256 then Some v else None
  | None => None
  end.
