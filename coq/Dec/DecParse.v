(* Properties of the decimal model, part 3: what NewDecFromString reads.
   An independent reading of decimal literals (value_of) and the proof that every string the model
   accepts denotes exactly the parsed value (parse_value), carries a leading '-' whenever the value
   is negative (parse_sign), and that every literal of the grammar within the exponent limits is
   accepted (parse_complete). *)
From Coq Require Import List ZArith NArith Bool Lia QArith Qpower Strings.Byte Strings.String.
Require Import Regen.Base.Bytes Regen.Dec.Dec Regen.Dec.DecLemmas Regen.Dec.DecIface Regen.Dec.DecProps
  Regen.Dec.DecRound.
Import ListNotations.
Local Open Scope Z_scope.
Local Arguments b s%string_scope.

(* ------------------------------------------------------------------ *)
(* Reference reading of a decimal literal                              *)
(*   [+-]? digits* [. digits*] ([eE] [+-]? digits+)?                   *)
(*   with at least one digit in the mantissa; "" reads as 0.           *)
(* ------------------------------------------------------------------ *)

Definition split_sign (s : bytes) : bool * bytes :=
  match s with
  | "-"%byte :: r => (true, r)
  | "+"%byte :: r => (false, r)
  | _ => (false, s)
  end.

(* longest prefix of digits, and the rest *)
Fixpoint span_digits (s : bytes) : bytes * bytes :=
  match s with
  | [] => ([], [])
  | c :: r => if is_digit c then let '(d, t) := span_digits r in (c :: d, t) else ([], s)
  end.

(* the exponent part of a (lower-cased) literal: empty, or e[+-]?digits+ *)
Definition read_exponent (s : bytes) : option Z :=
  match s with
  | [] => Some 0
  | c :: r =>
      if Byte.eqb c "e"%byte then
        let '(neg, r1) := split_sign r in
        let '(ds, rest) := span_digits r1 in
        match ds, rest with
        | _ :: _, [] => Some (if neg then - dec_digits_val ds else dec_digits_val ds)
        | _, _ => None
        end
      else None
  end.

(* the optional fraction: '.' followed by digits *)
Definition split_fraction (s : bytes) : bytes * bytes :=
  match s with
  | "."%byte :: r => span_digits r
  | _ => ([], s)
  end.

(* value of a lower-cased literal *)
Definition read_literal (s : bytes) : option Q :=
  let '(neg, s1) := split_sign s in
  let '(ip, s2) := span_digits s1 in
  let '(fp, s3) := split_fraction s2 in
  match ip ++ fp with
  | [] => None
  | m =>
      match read_exponent s3 with
      | None => None
      | Some e =>
          Some (inject_Z (if neg then - dec_digits_val m else dec_digits_val m)
                * q10 ^ (e - Z.of_nat (List.length fp)))%Q
      end
  end.

(* Letters are case-insensitive (only the exponent marker matters): read the ASCII-lower-cased
   string.  The empty string reads as 0, as NewDecFromString documents. *)
Definition value_of (s : bytes) : option Q :=
  read_literal (to_lower (match s with [] => b "0" | _ => s end)).

Example value_of_ex :
  value_of (b "-12.50E+3") = Some (inject_Z (-1250) * q10 ^ 1)%Q /\
  value_of (b ".5") = Some (inject_Z 5 * q10 ^ (-1))%Q /\
  value_of (b "5.") = Some (inject_Z 5 * q10 ^ 0)%Q /\
  value_of [] = Some (inject_Z 0 * q10 ^ 0)%Q /\
  value_of (b ".") = None /\ value_of (b ".-5") = None /\ value_of (b ".+5") = None /\
  value_of (b "1e") = None /\ value_of (b "1e2e3") = None /\ value_of (b "1_0") = None /\
  value_of (b "--1") = None /\ value_of (b "inf") = None /\ value_of (b " 1") = None.
Proof. repeat split; vm_compute; reflexivity. Qed.

(* ------------------------------------------------------------------ *)
(* String lemmas                                                       *)
(* ------------------------------------------------------------------ *)

Lemma span_digits_app ds rest : forallb is_digit ds = true ->
  match rest with [] => True | c :: _ => is_digit c = false end ->
  span_digits (ds ++ rest) = (ds, rest).
Proof.
  intros Hd Hr. induction ds as [|c r IH]; cbn [app].
  - destruct rest as [|c r]; [reflexivity|]. cbn [span_digits]. rewrite Hr. reflexivity.
  - cbn [forallb] in Hd. apply andb_true_iff in Hd. destruct Hd as [Hc Hd].
    cbn [span_digits]. rewrite Hc, (IH Hd). reflexivity.
Qed.

Lemma index_byte_split c s i : index_byte c s = Some i ->
  s = firstn i s ++ c :: skipn (S i) s /\ index_byte c (firstn i s) = None.
Proof.
  revert i. induction s as [|a r IH]; intros i H; cbn [index_byte] in H; [discriminate|].
  destruct (Byte.eqb a c) eqn:E.
  - injection H as <-. apply byte_eqb_eq in E. subst a. cbn. split; reflexivity.
  - destruct (index_byte c r) as [j|] eqn:Ej; [|discriminate]. cbn [option_map] in H. injection H as <-.
    destruct (IH j eq_refl) as [H1 H2]. cbn [firstn skipn app index_byte]. rewrite E, H2.
    split; [f_equal; exact H1|reflexivity].
Qed.

Lemma has_prefix_single c s : has_prefix [c] s = true -> s = c :: skipn 1 s.
Proof.
  destruct s as [|a r]; cbn [has_prefix]; [discriminate|]. intro H. rewrite andb_true_r in H.
  apply byte_eqb_eq in H. subst a. reflexivity.
Qed.

(* shapes accepted by the integer readers *)
Lemma sign_split_shape (s : bytes) :
  (exists r, s = "+"%byte :: r) \/ (exists r, s = "-"%byte :: r) \/
  (match s with "+"%byte :: _ => False | "-"%byte :: _ => False | _ => True end).
Proof.
  destruct s as [|c r]; [right; right; exact I|].
  destruct (Byte.eqb c "+"%byte) eqn:E1; [apply byte_eqb_eq in E1; subst c; left; eauto|].
  destruct (Byte.eqb c "-"%byte) eqn:E2; [apply byte_eqb_eq in E2; subst c; right; left; eauto|].
  right; right. destruct c; try exact I; discriminate.
Qed.

Lemma bigint_shape t c : bigint_set_string t = Some c ->
  match t with "+"%byte :: _ => False | "-"%byte :: _ => False | _ => True end ->
  t <> [] /\ forallb is_digit t = true /\ c = dec_digits_val t.
Proof.
  intros H Hns. unfold bigint_set_string in H.
  assert (G : forall r : bytes, match r with [] => None
              | _ :: _ => if all_digits r then Some (dec_digits_val r) else None end = Some c ->
              r <> [] /\ forallb is_digit r = true /\ c = dec_digits_val r).
  { intros r Hr. destruct r as [|a r']; [discriminate|]. unfold all_digits in Hr.
    destruct (forallb is_digit (a :: r')) eqn:E; [|discriminate]. injection Hr as <-.
    repeat split; try discriminate; try reflexivity; try exact E. }
  destruct t as [|a r]; [discriminate|].
  destruct a; try (apply G; exact H); contradiction.
Qed.

Lemma parse_int32_shape t e : parse_int32 t = Some e ->
  exists (neg : bool) sgn ds, t = sgn ++ ds /\
    (sgn = [] /\ neg = false \/ sgn = ["+"%byte] /\ neg = false \/ sgn = ["-"%byte] /\ neg = true) /\
    ds <> [] /\ forallb is_digit ds = true /\
    e = (if neg then - dec_digits_val ds else dec_digits_val ds) /\ - 2 ^ 31 <= e < 2 ^ 31.
Proof.
  intro H. unfold parse_int32 in H.
  assert (G : forall (neg : bool) (r : bytes),
     match r with [] => None
     | _ :: _ => if all_digits r then
                   let v := dec_digits_val r in
                   if neg then (if v <=? 2 ^ 31 then Some (- v) else None)
                   else (if v <? 2 ^ 31 then Some v else None)
                 else None end = Some e ->
     r <> [] /\ forallb is_digit r = true /\
     e = (if neg then - dec_digits_val r else dec_digits_val r) /\ - 2 ^ 31 <= e < 2 ^ 31).
  { intros neg r Hr. destruct r as [|a r']; [discriminate|]. unfold all_digits in Hr.
    destruct (forallb is_digit (a :: r')) eqn:E; [|discriminate]. cbv zeta in Hr.
    pose proof (dec_digits_val_nonneg _ E) as Hnn.
    destruct neg.
    - destruct (_ <=? _) eqn:E2; [|discriminate]. injection Hr as <-. apply Z.leb_le in E2.
      repeat split; try discriminate; lia.
    - destruct (_ <? _) eqn:E2; [|discriminate]. injection Hr as <-. apply Z.ltb_lt in E2.
      repeat split; try discriminate; lia. }
  destruct (sign_split_shape t) as [[r ->]|[[r ->]|Hns]].
  - apply (G false) in H. exists false, ["+"%byte], r. intuition.
  - apply (G true) in H. exists true, ["-"%byte], r. intuition.
  - assert (H' : match t with [] => None | _ :: _ => if all_digits t then
                   let v := dec_digits_val t in
                   if false then (if v <=? 2 ^ 31 then Some (- v) else None)
                   else (if v <? 2 ^ 31 then Some v else None) else None end = Some e).
    { destruct t as [|a r]; [exact H|]. destruct a; try exact H; contradiction. }
    apply (G false) in H'. exists false, [], t. intuition.
Qed.

(* ------------------------------------------------------------------ *)
(* parse, unfolded into stages                                         *)
(* ------------------------------------------------------------------ *)

Definition norm_input (s : bytes) : bytes := match s with [] => b "0" | _ => s end.

(* the part of parse after sign stripping and lower-casing *)
Definition parse_tail (neg : bool) (s3 : bytes) : res dec :=
  if has_prefix (b "-") s3 || has_prefix (b "+") s3 then Err EParse
  else if bytes_eqb s3 (b "infinity") || bytes_eqb s3 (b "inf") then Err EInf
  else
    let '(s4, c1) := consume_prefix s3 (b "nan") in
    let '(s5, c2) := consume_prefix s4 (b "snan") in
    if c1 || c2 then
      match s5 with
      | [] => Err ENaN
      | _ => if parse_uint64_ok s5 then Err ENaN else Err EParse
      end
    else parse_finite neg s5.

Lemma parse_unfold s : parse s =
  let s' := norm_input s in
  let t := trim_left_signs s' in
  if has_prefix (b ".+") t || has_prefix (b ".-") t then Err EParse else
  let neg := has_prefix (b "-") s' in
  let s2 := if neg then skipn 1 s' else if has_prefix (b "+") s' then skipn 1 s' else s' in
  parse_tail neg (go_to_lower s2).
Proof.
  unfold parse, consume_prefix, parse_tail, norm_input. cbv zeta.
  destruct (_ || _); [reflexivity|].
  destruct (has_prefix (b "-") _); [reflexivity|]. destruct (has_prefix (b "+") _); reflexivity.
Qed.

Lemma parse_tail_inv neg s3 d : parse_tail neg s3 = Ok d ->
  has_prefix (b "-") s3 || has_prefix (b "+") s3 = false /\ parse_finite neg s3 = Ok d.
Proof.
  unfold parse_tail, consume_prefix. intro H.
  destruct (has_prefix (b "-") s3 || has_prefix (b "+") s3); [discriminate|]. split; [reflexivity|].
  destruct (_ || _); [discriminate|].
  destruct (has_prefix (b "nan") s3).
  - destruct (has_prefix (b "snan") _); cbn [orb] in H; destruct (skipn _ _); try discriminate;
      destruct (parse_uint64_ok _); discriminate.
  - destruct (has_prefix (b "snan") s3).
    + cbn [orb] in H. destruct (skipn _ _); try discriminate. destruct (parse_uint64_ok _); discriminate.
    + exact H.
Qed.

(* the mantissa stage of parse_finite *)
Definition parse_mantissa (neg : bool) (m : bytes) (exps : list Z) : res dec :=
  let '(m', exps') :=
    match index_byte "."%byte m with
    | Some i => (firstn i m ++ skipn (S i) m,
                 exps ++ [- (Z.of_nat (List.length m) - Z.of_nat i - 1)])
    | None => (m, exps)
    end in
  match bigint_set_string m' with
  | None => Err EParse
  | Some c => finish neg c exps'
  end.

Lemma parse_finite_unfold neg s : parse_finite neg s =
  match index_byte "e"%byte s with
  | Some i =>
      match parse_int32 (skipn (S i) s) with
      | Some e => parse_mantissa neg (firstn i s) [e]
      | None => Err EParse
      end
  | None => parse_mantissa neg s []
  end.
Proof.
  unfold parse_finite, parse_mantissa, finish.
  destruct (index_byte "e"%byte s); [destruct (parse_int32 _)|]; reflexivity.
Qed.

Lemma zsum_app xs x : zsum (xs ++ [x]) = zsum xs + x.
Proof. unfold zsum. rewrite fold_left_app. reflexivity. Qed.

Lemma finish_inv neg c xs d : finish neg c xs = Ok d -> 0 <= c /\ d = mkDec neg c (zsum xs).
Proof.
  unfold finish, bind. intro H.
  destruct (set_exponent _ xs) as [d1|] eqn:E1; [|discriminate].
  destruct (round0 d1) as [d2|] eqn:E2; [|discriminate]. apply round0_inv in E2. subst d2.
  destruct (dcoef d1 <? 0) eqn:E3; [discriminate|]. injection H as <-. apply Z.ltb_ge in E3.
  apply set_exponent_inv in E1. destruct E1 as (N & C & X & _). cbn [dneg dcoef] in N, C.
  split; [lia|]. destruct d1; cbn in *; congruence.
Qed.

Lemma index_byte_len c s i : index_byte c s = Some i -> List.length (firstn i s) = i.
Proof.
  revert i. induction s as [|a r IH]; intros i H; cbn [index_byte] in H; [discriminate|].
  destruct (Byte.eqb a c); [injection H as <-; reflexivity|].
  destruct (index_byte c r) as [j|]; [|discriminate]. injection H as <-. cbn [firstn List.length].
  rewrite (IH j eq_refl). reflexivity.
Qed.

Lemma has_prefix_app p m rest : has_prefix p m = true -> has_prefix p (m ++ rest) = true.
Proof.
  revert m. induction p as [|a p IH]; intros m H; [reflexivity|].
  destruct m as [|c m]; cbn [has_prefix app] in *; [discriminate|].
  apply andb_true_iff in H. destruct H as [H1 H2]. rewrite H1, (IH m H2). reflexivity.
Qed.

Definition no_sign (s : bytes) : bool := negb (has_prefix (b "-") s || has_prefix (b "+") s).
Definition no_dotsign (s : bytes) : bool := negb (has_prefix (b ".+") s || has_prefix (b ".-") s).

Lemma no_sign_head s : no_sign s = true ->
  match s with "+"%byte :: _ => False | "-"%byte :: _ => False | _ => True end.
Proof. destruct s as [|c r]; [intros; exact I|]. destruct c; try (intros; exact I); cbn; discriminate. Qed.

Lemma mantissa_shape neg m exps d : parse_mantissa neg m exps = Ok d ->
  no_sign m = true -> no_dotsign m = true ->
  exists ip fp (pt : bool),
    m = ip ++ (if pt then "."%byte :: fp else []) /\ (pt = false -> fp = []) /\
    forallb is_digit ip = true /\ forallb is_digit fp = true /\ ip ++ fp <> [] /\
    d = mkDec neg (dec_digits_val (ip ++ fp)) (zsum exps - Z.of_nat (List.length fp)).
Proof.
  unfold parse_mantissa. intros H Hns Hnd.
  destruct (index_byte "."%byte m) as [j|] eqn:Ej.
  - destruct (index_byte_split _ _ _ Ej) as [Hm _]. pose proof (index_byte_len _ _ _ Ej) as Hl.
    set (ip := firstn j m) in *. set (fp := skipn (S j) m) in *.
    destruct (bigint_set_string (ip ++ fp)) as [c|] eqn:Eb; [|discriminate].
    apply finish_inv in H. destruct H as [Hc ->].
    assert (Hhead : match ip ++ fp with "+"%byte :: _ => False | "-"%byte :: _ => False | _ => True end).
    { destruct ip as [|a ip'].
      - cbn [app]. cbn [app] in Hm. destruct fp as [|f fp']; [exact I|].
        rewrite Hm in Hnd. destruct f; try exact I; cbn in Hnd; discriminate.
      - cbn [app]. apply no_sign_head in Hns. rewrite Hm in Hns. cbn [app] in Hns. exact Hns. }
    destruct (bigint_shape _ _ Eb Hhead) as (Hne & Hall & ->).
    rewrite forallb_app in Hall. apply andb_true_iff in Hall. destruct Hall as [Hi Hf].
    exists ip, fp, true. repeat split; try assumption; [discriminate|].
    f_equal. rewrite zsum_app.
    assert (Z.of_nat (List.length m) = Z.of_nat j + 1 + Z.of_nat (List.length fp)).
    { rewrite Hm at 1. rewrite app_length. cbn [List.length]. rewrite Hl. lia. }
    lia.
  - destruct (bigint_set_string m) as [c|] eqn:Eb; [|discriminate].
    apply finish_inv in H. destruct H as [Hc ->].
    destruct (bigint_shape _ _ Eb (no_sign_head _ Hns)) as (Hne & Hall & ->).
    exists m, [], false. rewrite app_nil_r. cbn [List.length]. repeat split; try assumption; try reflexivity.
    f_equal. lia.
Qed.

(* shape of the exponent part *)
Inductive exp_part : bytes -> Z -> Prop :=
| ExpNone : exp_part [] 0
| ExpSome (neg : bool) sgn ds :
    (sgn = [] /\ neg = false \/ sgn = ["+"%byte] /\ neg = false \/ sgn = ["-"%byte] /\ neg = true) ->
    ds <> [] -> forallb is_digit ds = true ->
    exp_part ("e"%byte :: sgn ++ ds) (if neg then - dec_digits_val ds else dec_digits_val ds).

Lemma no_sign_app m rest : no_sign (m ++ rest) = true -> m <> [] -> no_sign m = true.
Proof.
  unfold no_sign. intros H Hne. destruct m as [|c m']; [congruence|].
  cbn [app has_prefix] in *. exact H.
Qed.

Lemma parse_finite_shape neg s3 d : parse_finite neg s3 = Ok d ->
  no_sign s3 = true -> no_dotsign s3 = true ->
  exists ip fp (pt : bool) ex e,
    s3 = ip ++ (if pt then "."%byte :: fp else []) ++ ex /\ (pt = false -> fp = []) /\
    forallb is_digit ip = true /\ forallb is_digit fp = true /\ ip ++ fp <> [] /\
    exp_part ex e /\
    d = mkDec neg (dec_digits_val (ip ++ fp)) (e - Z.of_nat (List.length fp)).
Proof.
  rewrite parse_finite_unfold. intros H Hns Hnd.
  destruct (index_byte "e"%byte s3) as [i|] eqn:Ei.
  - destruct (parse_int32 (skipn (S i) s3)) as [e|] eqn:Ee; [|discriminate].
    destruct (index_byte_split _ _ _ Ei) as [Hs _].
    set (m := firstn i s3) in *. set (tl := skipn (S i) s3) in *.
    assert (Hm_ns : no_sign m = true).
    { unfold no_sign in *. destruct m as [|c m']; [reflexivity|].
      rewrite Hs in Hns. cbn [app has_prefix] in *. exact Hns. }
    assert (Hm_nd : no_dotsign m = true).
    { unfold no_dotsign in *. rewrite Hs in Hnd.
      destruct (has_prefix (b ".+") m) eqn:E1.
      { rewrite (has_prefix_app _ _ _ E1) in Hnd. discriminate Hnd. }
      destruct (has_prefix (b ".-") m) eqn:E2.
      { rewrite (has_prefix_app _ _ _ E2) in Hnd. rewrite orb_true_r in Hnd. discriminate Hnd. }
      reflexivity. }
    destruct (mantissa_shape _ _ _ _ H Hm_ns Hm_nd) as (ip & fp & pt & Hm & Hpt & Hi & Hf & Hne & Hd).
    apply parse_int32_shape in Ee. destruct Ee as (eneg & sgn & ds & Htl & Hsg & Hdne & Hds & He & _).
    exists ip, fp, pt, ("e"%byte :: sgn ++ ds), e.
    split; [rewrite Hs, Hm, Htl, <- app_assoc; reflexivity|].
    split; [exact Hpt|]. split; [exact Hi|]. split; [exact Hf|]. split; [exact Hne|]. split.
    + rewrite He. apply ExpSome; assumption.
    + rewrite Hd, zsum_single. reflexivity.
  - assert (Hnd' : no_dotsign s3 = true) by exact Hnd.
    destruct (mantissa_shape _ _ _ _ H Hns Hnd') as (ip & fp & pt & Hm & Hpt & Hi & Hf & Hne & Hd).
    exists ip, fp, pt, [], 0. rewrite app_nil_r.
    split; [exact Hm|]. split; [exact Hpt|]. split; [exact Hi|]. split; [exact Hf|]. split; [exact Hne|].
    split; [apply ExpNone|]. rewrite Hd. reflexivity.
Qed.

(* ------------------------------------------------------------------ *)
(* Lower-casing                                                        *)
(* ------------------------------------------------------------------ *)

(* the bytes a successfully parsed (lower-cased) string consists of *)
Definition lit_byte (c : byte) : bool :=
  is_digit c || Byte.eqb c "."%byte || Byte.eqb c "e"%byte || Byte.eqb c "+"%byte || Byte.eqb c "-"%byte.

(* one step of strings.ToLower: either the ASCII mapping of the head byte, or one of the two
   multi-byte runes whose lower case is ASCII ('i', 'k') *)
Lemma go_to_lower_cons c r :
  go_to_lower (c :: r) = to_lower_byte c :: go_to_lower r \/
  (exists tl, go_to_lower (c :: r) = "i"%byte :: tl) \/ (exists tl, go_to_lower (c :: r) = "k"%byte :: tl).
Proof.
  destruct c; try (left; reflexivity).
  - (* xc4 *) destruct r as [|c2 r2]; [left; reflexivity|].
    destruct c2; try (left; reflexivity). right; left; eexists; reflexivity.
  - (* xe2 *) destruct r as [|c2 r2]; [left; reflexivity|].
    destruct c2; try (left; reflexivity).
    destruct r2 as [|c3 r3]; [left; reflexivity|].
    destruct c3; try (left; reflexivity). right; right; eexists; reflexivity.
Qed.

(* when the result of strings.ToLower is a literal, it is the plain ASCII lower-casing *)
Lemma lower_agree s : forallb lit_byte (go_to_lower s) = true -> go_to_lower s = to_lower s.
Proof.
  induction s as [|c r IH]; [reflexivity|]. intro H.
  destruct (go_to_lower_cons c r) as [E|[[tl E]|[tl E]]]; rewrite E in H |- *; cbn [forallb] in H.
  - apply andb_true_iff in H. destruct H as [_ H]. unfold to_lower. cbn [map]. f_equal. apply IH. exact H.
  - discriminate H.
  - discriminate H.
Qed.

Lemma to_lower_byte_punct x c : (x = "." \/ x = "+" \/ x = "-")%byte -> to_lower_byte c = x -> c = x.
Proof.
  intros Hx H. unfold to_lower_byte in H. destruct (is_upper c) eqn:Eu; [|exact H].
  exfalso. destruct Hx as [ -> | [ -> | -> ] ]; destruct c; try discriminate Eu; discriminate H.
Qed.

Lemma lower_head x s : (x = "." \/ x = "+" \/ x = "-")%byte ->
  has_prefix [x] (go_to_lower s) = true -> exists r, s = x :: r /\ go_to_lower s = x :: go_to_lower r.
Proof.
  intros Hx H. destruct s as [|c r]; [discriminate H|].
  destruct (go_to_lower_cons c r) as [E|[[tl E]|[tl E]]]; rewrite E in H |- *; cbn [has_prefix] in H;
    rewrite andb_true_r in H; apply byte_eqb_eq in H.
  - symmetry in H. apply (to_lower_byte_punct x c Hx) in H. subst c.
    exists r. split; [reflexivity|]. f_equal.
    destruct Hx as [ -> | [ -> | -> ] ]; reflexivity.
  - exfalso. destruct Hx as [ -> | [ -> | -> ] ]; discriminate H.
  - exfalso. destruct Hx as [ -> | [ -> | -> ] ]; discriminate H.
Qed.

Lemma lower_nosign_trim s2 : no_sign (go_to_lower s2) = true -> trim_left_signs s2 = s2.
Proof.
  intro H. destruct s2 as [|c r]; [reflexivity|].
  destruct c; try reflexivity; cbn in H; discriminate H.
Qed.

Lemma has_prefix2 (x y : byte) t : has_prefix [x; y] t = true ->
  exists t', t = x :: t' /\ has_prefix [x] t = true /\ has_prefix [y] t' = true.
Proof.
  destruct t as [|a t']; cbn [has_prefix]; [discriminate|]. intro H.
  apply andb_true_iff in H. destruct H as [H1 H2]. pose proof H1 as H1'. apply byte_eqb_eq in H1. subst a.
  exists t'. rewrite H1'. repeat split. exact H2.
Qed.

Lemma lower_nodotsign s2 : no_dotsign s2 = true -> no_dotsign (go_to_lower s2) = true.
Proof.
  unfold no_dotsign. intro H.
  assert (G : forall y, (y = "+" \/ y = "-")%byte ->
              has_prefix ["."%byte; y] (go_to_lower s2) = true -> has_prefix ["."%byte; y] s2 = true).
  { intros y Hy Hp. apply has_prefix2 in Hp. destruct Hp as (t' & Ht & Hp1 & Hp2).
    apply lower_head in Hp1; [|left; reflexivity]. destruct Hp1 as (r & Hs & Hl).
    rewrite Hl in Ht. injection Ht as <-.
    apply lower_head in Hp2; [|right; exact Hy]. destruct Hp2 as (r' & Hr & _).
    subst s2 r. cbn [has_prefix]. rewrite !(proj2 (byte_eqb_eq _ _) eq_refl). reflexivity. }
  destruct (has_prefix (b ".+") (go_to_lower s2)) eqn:E1.
  { apply (G "+"%byte) in E1; [|left; reflexivity]. change (b ".+") with ["."%byte; "+"%byte] in H.
    rewrite E1 in H. discriminate H. }
  destruct (has_prefix (b ".-") (go_to_lower s2)) eqn:E2.
  { apply (G "-"%byte) in E2; [|right; reflexivity]. change (b ".-") with ["."%byte; "-"%byte] in H.
    rewrite E2, orb_true_r in H. discriminate H. }
  reflexivity.
Qed.

Lemma lit_digits s : forallb is_digit s = true -> forallb lit_byte s = true.
Proof.
  induction s as [|c r IH]; [reflexivity|]. cbn [forallb]. intro H.
  apply andb_true_iff in H. destruct H as [Hc Hr]. unfold lit_byte at 1. rewrite Hc, (IH Hr). reflexivity.
Qed.

Lemma exp_part_lit ex e : exp_part ex e -> forallb lit_byte ex = true.
Proof.
  intro H. destruct H as [|neg sgn ds Hs Hne Hd]; [reflexivity|].
  cbn [forallb]. rewrite forallb_app, (lit_digits ds Hd).
  destruct Hs as [[-> _]|[[-> _]|[-> _]]]; reflexivity.
Qed.

(* ------------------------------------------------------------------ *)
(* Reading a literal of the grammar                                    *)
(* ------------------------------------------------------------------ *)

Lemma split_sign_other c r : Byte.eqb c "-"%byte = false -> Byte.eqb c "+"%byte = false ->
  split_sign (c :: r) = (false, c :: r).
Proof.
  intros H1 H2. destruct c; try reflexivity; discriminate.
Qed.

Lemma digit_not_sign c : is_digit c = true -> Byte.eqb c "-"%byte = false /\ Byte.eqb c "+"%byte = false.
Proof.
  intro H. split; (destruct (Byte.eqb c _) eqn:E; [apply byte_eqb_eq in E; subst c; discriminate H|reflexivity]).
Qed.

Lemma read_exponent_shape ex e : exp_part ex e -> read_exponent ex = Some e.
Proof.
  intro H. destruct H as [|neg sgn ds Hs Hne Hd]; [reflexivity|].
  destruct ds as [|d0 ds']; [congruence|].
  pose proof Hd as Hd0. cbn [forallb] in Hd0. apply andb_true_iff in Hd0. destruct Hd0 as [Hd0 _].
  destruct (digit_not_sign d0 Hd0) as [N1 N2].
  assert (Hsp : span_digits (d0 :: ds') = (d0 :: ds', [])).
  { rewrite <- (app_nil_r (d0 :: ds')) at 1. apply span_digits_app; [exact Hd|exact I]. }
  unfold read_exponent. rewrite (proj2 (byte_eqb_eq _ _) eq_refl).
  destruct Hs as [[-> ->]|[[-> ->]|[-> ->]]]; cbn [app].
  - rewrite (split_sign_other d0 ds' N1 N2), Hsp. reflexivity.
  - cbn [split_sign]. rewrite Hsp. reflexivity.
  - cbn [split_sign]. rewrite Hsp. reflexivity.
Qed.

Lemma exp_part_head ex e : exp_part ex e ->
  match ex with [] => True | c :: _ => is_digit c = false /\ Byte.eqb c "."%byte = false end.
Proof. intro H. destruct H; [exact I|split; reflexivity]. Qed.

Lemma read_literal_shape (neg : bool) sign ip fp (pt : bool) ex e :
  (sign = [] /\ neg = false \/ sign = ["+"%byte] /\ neg = false \/ sign = ["-"%byte] /\ neg = true) ->
  (pt = false -> fp = []) ->
  forallb is_digit ip = true -> forallb is_digit fp = true -> ip ++ fp <> [] -> exp_part ex e ->
  read_literal (sign ++ ip ++ (if pt then "."%byte :: fp else []) ++ ex) =
  Some (inject_Z (if neg then - dec_digits_val (ip ++ fp) else dec_digits_val (ip ++ fp))
        * q10 ^ (e - Z.of_nat (List.length fp)))%Q.
Proof.
  intros Hs Hpt Hi Hf Hne Hex.
  set (rest := (if pt then "."%byte :: fp else []) ++ ex).
  pose proof (exp_part_head ex e Hex) as Hexh.
  assert (Hrest_head : match rest with [] => True | c :: _ => is_digit c = false end).
  { subst rest. destruct pt; cbn [app]; [reflexivity|]. destruct ex; [exact I|apply Hexh]. }
  (* sign *)
  assert (Hsplit : split_sign (sign ++ ip ++ rest) = (neg, ip ++ rest)).
  { destruct Hs as [[-> ->]|[[-> ->]|[-> ->]]]; cbn [app split_sign]; try reflexivity.
    destruct ip as [|i0 ip'].
    - cbn [app]. destruct pt.
      + subst rest. cbn [app]. reflexivity.
      + rewrite (Hpt eq_refl) in Hne. cbn in Hne. congruence.
    - cbn [app]. cbn [forallb] in Hi. apply andb_true_iff in Hi. destruct Hi as [Hi0 _].
      destruct (digit_not_sign i0 Hi0) as [N1 N2]. apply split_sign_other; assumption. }
  unfold read_literal. fold rest. rewrite Hsplit. cbv beta iota.
  rewrite (span_digits_app ip rest Hi Hrest_head). cbv beta iota.
  (* fraction *)
  assert (Hfrac : split_fraction rest = (fp, ex)).
  { unfold split_fraction. subst rest. destruct pt; cbn [app].
    - apply span_digits_app; [exact Hf|]. destruct ex; [exact I|apply Hexh].
    - rewrite (Hpt eq_refl). destruct ex as [|c ex']; [reflexivity|].
      destruct Hexh as [_ Hdot]. destruct c; try reflexivity; discriminate Hdot. }
  rewrite Hfrac. cbv beta iota. destruct (ip ++ fp) as [|m0 m'] eqn:Em; [congruence|].
  rewrite (read_exponent_shape ex e Hex). reflexivity.
Qed.

(* ------------------------------------------------------------------ *)
(* parse_value, parse_sign                                             *)
(* ------------------------------------------------------------------ *)

(* everything parse establishes about an accepted string *)
Lemma parse_shape s d : parse s = Ok d ->
  exists (neg : bool) sign ip fp (pt : bool) ex e,
    to_lower (norm_input s) = sign ++ ip ++ (if pt then "."%byte :: fp else []) ++ ex /\
    (sign = [] /\ neg = false \/ sign = ["+"%byte] /\ neg = false \/ sign = ["-"%byte] /\ neg = true) /\
    (neg = true -> has_prefix (b "-") (norm_input s) = true) /\
    (pt = false -> fp = []) /\
    forallb is_digit ip = true /\ forallb is_digit fp = true /\ ip ++ fp <> [] /\ exp_part ex e /\
    d = mkDec neg (dec_digits_val (ip ++ fp)) (e - Z.of_nat (List.length fp)).
Proof.
  rewrite parse_unfold. cbv zeta. set (s' := norm_input s). intro H.
  destruct (has_prefix (b ".+") (trim_left_signs s') || has_prefix (b ".-") (trim_left_signs s')) eqn:Et;
    [discriminate|].
  (* decompose s' = sign ++ s2 *)
  assert (Hdec : exists (neg : bool) sign s2, s' = sign ++ s2 /\
            (sign = [] /\ neg = false \/ sign = ["+"%byte] /\ neg = false \/ sign = ["-"%byte] /\ neg = true) /\
            (neg = true -> has_prefix (b "-") s' = true) /\
            (sign <> [] -> trim_left_signs s' = trim_left_signs s2) /\
            parse_tail neg (go_to_lower s2) = Ok d).
  { destruct (has_prefix (b "-") s') eqn:E1.
    - exists true, ["-"%byte], (skipn 1 s'). pose proof (has_prefix_single _ _ E1) as Hs.
      split; [exact Hs|]. split; [right; right; split; reflexivity|]. split; [reflexivity|].
      split; [|exact H]. intros _. rewrite Hs at 1. reflexivity.
    - destruct (has_prefix (b "+") s') eqn:E2.
      + exists false, ["+"%byte], (skipn 1 s'). pose proof (has_prefix_single _ _ E2) as Hs.
        split; [exact Hs|]. split; [right; left; split; reflexivity|]. split; [discriminate|].
        split; [|exact H]. intros _. rewrite Hs at 1. reflexivity.
      + exists false, [], s'. split; [reflexivity|]. split; [left; split; reflexivity|].
        split; [discriminate|]. split; [congruence|exact H]. }
  destruct Hdec as (neg & sign & s2 & Hs' & Hsign & Hneg & Htrim & Htail).
  apply parse_tail_inv in Htail. destruct Htail as [Hns Hfin].
  assert (Hns' : no_sign (go_to_lower s2) = true) by (unfold no_sign; rewrite Hns; reflexivity).
  pose proof (lower_nosign_trim s2 Hns') as Htr2.
  assert (Hts : trim_left_signs s' = s2).
  { destruct sign as [|x sg]; [cbn [app] in Hs'; rewrite Hs'; exact Htr2|].
    rewrite Htrim by discriminate. exact Htr2. }
  assert (Hnd : no_dotsign s2 = true) by (unfold no_dotsign; rewrite <- Hts, Et; reflexivity).
  pose proof (lower_nodotsign s2 Hnd) as Hnd'.
  destruct (parse_finite_shape _ _ _ Hfin Hns' Hnd') as (ip & fp & pt & ex & e & Hs3 & Hpt & Hi & Hf & Hne & Hex & Hd).
  exists neg, sign, ip, fp, pt, ex, e.
  split; [|repeat split; assumption].
  (* the lower-cased input *)
  assert (Hlit : forallb lit_byte (go_to_lower s2) = true).
  { rewrite Hs3, !forallb_app, (lit_digits ip Hi), (exp_part_lit ex e Hex).
    destruct pt; cbn [forallb]; [rewrite (lit_digits fp Hf)|]; reflexivity. }
  rewrite Hs'. rewrite <- Hs3, (lower_agree s2 Hlit).
  destruct Hsign as [[-> _]|[[-> _]|[-> _]]]; reflexivity.
Qed.

(* NewDecFromString yields exactly the value the string denotes *)
Theorem parse_value s d : parse s = Ok d ->
  exists q, value_of s = Some q /\ (dval d == q)%Q.
Proof.
  intro H. destruct (parse_shape s d H) as (neg & sign & ip & fp & pt & ex & e & Hl & Hs & _ & Hpt & Hi & Hf & Hne & Hex & Hd).
  eexists. split.
  - unfold value_of. fold (norm_input s). rewrite Hl.
    apply (read_literal_shape neg sign ip fp pt ex e); assumption.
  - rewrite Hd. reflexivity.
Qed.

(* a negative value can only come from a string that starts with '-' *)
Theorem parse_sign s d : parse s = Ok d -> (dval d < 0)%Q -> has_prefix (b "-") s = true.
Proof.
  intros H Hlt. destruct (parse_shape s d H) as (neg & sign & ip & fp & pt & ex & e & _ & _ & Hneg & _ & Hi & Hf & _ & _ & Hd).
  assert (Hn : neg = true).
  { destruct neg; [reflexivity|]. exfalso. apply (Qlt_irrefl 0). eapply Qle_lt_trans; [|exact Hlt].
    apply dval_sign. rewrite Hd. unfold dint. cbn [dneg dcoef].
    apply dec_digits_val_nonneg. rewrite forallb_app, Hi, Hf. reflexivity. }
  specialize (Hneg Hn). destruct s as [|c r]; [discriminate Hneg|exact Hneg].
Qed.

Example parse_value_ex :
  parse (b "-12.50E+3") = Ok (mkDec true 1250 1) /\ value_of (b "-12.50E+3") = Some (dval (mkDec true 1250 1)).
Proof. split; vm_compute; reflexivity. Qed.

Example parse_rejects_inner_sign :
  parse (b ".-5") = Err EParse /\ parse (b ".+5") = Err EParse /\ parse (b "-.+5") = Err EParse /\
  parse (b ".-0") = Err EParse /\ parse (b "+.-5") = Err EParse.
Proof. repeat split; vm_compute; reflexivity. Qed.

(* ------------------------------------------------------------------ *)
(* Completeness: every literal of the grammar within the exponent      *)
(* limits is accepted, with the expected representation                *)
(* ------------------------------------------------------------------ *)

(* exponent part as written in the source string: marker e or E *)
Inductive exp_src : bytes -> bytes -> Z -> Prop :=
| ExpSrcNone : exp_src [] [] 0
| ExpSrcSome (mk : byte) (neg : bool) sgn ds :
    mk = "e"%byte \/ mk = "E"%byte ->
    (sgn = [] /\ neg = false \/ sgn = ["+"%byte] /\ neg = false \/ sgn = ["-"%byte] /\ neg = true) ->
    ds <> [] -> forallb is_digit ds = true ->
    exp_src (mk :: sgn ++ ds) ("e"%byte :: sgn ++ ds)
            (if neg then - dec_digits_val ds else dec_digits_val ds).

Lemma go_to_lower_digit c r : is_digit c = true -> go_to_lower (c :: r) = c :: go_to_lower r.
Proof.
  intro H. apply is_digit_cases in H.
  repeat (destruct H as [H|H]; [subst c; reflexivity|]). subst c; reflexivity.
Qed.

Lemma go_to_lower_digits ds r : forallb is_digit ds = true -> go_to_lower (ds ++ r) = ds ++ go_to_lower r.
Proof.
  induction ds as [|c ds IH]; [reflexivity|]. cbn [forallb app]. intro H.
  apply andb_true_iff in H. destruct H as [Hc Hd]. rewrite (go_to_lower_digit c _ Hc), (IH Hd). reflexivity.
Qed.

Lemma go_to_lower_exp exo exl e : exp_src exo exl e -> go_to_lower exo = exl.
Proof.
  intro H. destruct H as [|mk neg sgn ds Hmk Hs Hne Hd]; [reflexivity|].
  assert (Hds : go_to_lower ds = ds).
  { rewrite <- (app_nil_r ds) at 1. rewrite (go_to_lower_digits ds [] Hd). cbn. apply app_nil_r. }
  destruct Hmk as [->| ->]; destruct Hs as [[-> _]|[[-> _]|[-> _]]]; cbn [app go_to_lower];
    rewrite ?Hds; reflexivity.
Qed.

Lemma exp_src_lower exo exl e : exp_src exo exl e -> exp_part exl e.
Proof. intro H. destruct H; [apply ExpNone|apply ExpSome; assumption]. Qed.

Lemma parse_int32_ok (neg : bool) sgn ds :
  (sgn = [] /\ neg = false \/ sgn = ["+"%byte] /\ neg = false \/ sgn = ["-"%byte] /\ neg = true) ->
  ds <> [] -> forallb is_digit ds = true ->
  let e := if neg then - dec_digits_val ds else dec_digits_val ds in
  - 2 ^ 31 <= e < 2 ^ 31 -> parse_int32 (sgn ++ ds) = Some e.
Proof.
  intros Hs Hne Hd e He. subst e. destruct ds as [|d0 ds']; [congruence|].
  pose proof (dec_digits_val_nonneg _ Hd) as Hnn.
  destruct Hs as [[-> ->]|[[-> ->]|[-> ->]]]; cbn [app]; unfold parse_int32, all_digits.
  - pose proof Hd as Hd0. cbn [forallb] in Hd0. apply andb_true_iff in Hd0. destruct Hd0 as [Hd0 _].
    apply is_digit_cases in Hd0.
    assert (Hlt : (dec_digits_val (d0 :: ds') <? 2 ^ 31) = true) by (apply Z.ltb_lt; lia).
    repeat (destruct Hd0 as [Hd0|Hd0]; [subst d0; rewrite Hd; cbv zeta; rewrite Hlt; reflexivity|]).
    subst d0; rewrite Hd; cbv zeta; rewrite Hlt; reflexivity.
  - rewrite Hd. cbv zeta.
    assert (Hlt : (dec_digits_val (d0 :: ds') <? 2 ^ 31) = true) by (apply Z.ltb_lt; lia).
    rewrite Hlt. reflexivity.
  - rewrite Hd. cbv zeta.
    assert (Hle : (dec_digits_val (d0 :: ds') <=? 2 ^ 31) = true) by (apply Z.leb_le; lia).
    rewrite Hle. reflexivity.
Qed.

Lemma index_byte_e_app m tl : forallb plainb m = true ->
  index_byte "e"%byte (m ++ "e"%byte :: tl) = Some (List.length m).
Proof.
  induction m as [|a r IH]; cbn [forallb index_byte app List.length]; intro H; [reflexivity|].
  apply andb_true_iff in H. destruct H as [Ha Hr]. rewrite (IH Hr).
  destruct (Byte.eqb a "e"%byte) eqn:E; [|reflexivity].
  apply byte_eqb_eq in E. subst a. discriminate Ha.
Qed.

(* mantissa stage on a well-formed mantissa *)
Lemma parse_mantissa_ok neg ip fp (pt : bool) exps :
  (pt = false -> fp = []) -> forallb is_digit ip = true -> forallb is_digit fp = true -> ip ++ fp <> [] ->
  parse_mantissa neg (ip ++ (if pt then "."%byte :: fp else [])) exps =
  finish neg (dec_digits_val (ip ++ fp)) (if pt then exps ++ [- Z.of_nat (List.length fp)] else exps).
Proof.
  intros Hpt Hi Hf Hne. unfold parse_mantissa. destruct pt.
  - rewrite (index_byte_app "."%byte ip fp eq_refl Hi). rewrite firstn_len_app, skipn_S_len_app.
    rewrite bigint_digits; [|exact Hne|rewrite forallb_app, Hi, Hf; reflexivity].
    replace (Z.of_nat (List.length (ip ++ "."%byte :: fp)) - Z.of_nat (List.length ip) - 1)
      with (Z.of_nat (List.length fp)) by (rewrite app_length; cbn [List.length]; lia).
    reflexivity.
  - rewrite (Hpt eq_refl) in *. rewrite !app_nil_r in *.
    rewrite (index_byte_none "."%byte ip eq_refl Hi). rewrite (bigint_digits ip Hne Hi). reflexivity.
Qed.

(* parse_tail on a string that starts with a digit or the point *)
Lemma parse_tail_body neg f r : is_digit f = true \/ f = "."%byte ->
  parse_tail neg (f :: r) = parse_finite neg (f :: r).
Proof.
  intros [H| ->]; [|reflexivity]. apply is_digit_cases in H.
  repeat (destruct H as [H|H]; [subst f; reflexivity|]). subst f; reflexivity.
Qed.

Lemma head_facts f r : is_digit f = true \/ f = "."%byte ->
  has_prefix (b "-") (f :: r) = false /\ has_prefix (b "+") (f :: r) = false /\
  trim_left_signs (f :: r) = f :: r.
Proof.
  intros [H| ->]; [|repeat split; reflexivity]. apply is_digit_cases in H.
  repeat (destruct H as [H|H]; [subst f; repeat split; reflexivity|]). subst f; repeat split; reflexivity.
Qed.

Theorem parse_complete (neg : bool) sign ip fp (pt : bool) exo exl e :
  (sign = [] /\ neg = false \/ sign = ["+"%byte] /\ neg = false \/ sign = ["-"%byte] /\ neg = true) ->
  (pt = false -> fp = []) ->
  forallb is_digit ip = true -> forallb is_digit fp = true -> ip ++ fp <> [] ->
  exp_src exo exl e ->
  (* exponent limits of the package: each of e and -|fp|, their sum, and the adjusted exponent *)
  exp_in_limits e = true -> Z.of_nat (List.length fp) <= 100000 ->
  exp_in_limits (e - Z.of_nat (List.length fp)) = true ->
  min_exponent <= e - Z.of_nat (List.length fp) + num_digits (dec_digits_val (ip ++ fp)) - 1 <= max_exponent ->
  parse (sign ++ ip ++ (if pt then "."%byte :: fp else []) ++ exo) =
  Ok (mkDec neg (dec_digits_val (ip ++ fp)) (e - Z.of_nat (List.length fp))).
Proof.
  intros Hs Hpt Hi Hf Hne Hex Hle Hlf Hsum Hadj.
  set (mant := ip ++ (if pt then "."%byte :: fp else [])).
  set (body := ip ++ (if pt then "."%byte :: fp else []) ++ exo).
  (* first byte of the body *)
  assert (Hhead : exists f r, body = f :: r /\ (is_digit f = true \/ f = "."%byte) /\
                   (f = "."%byte -> exists f2 r2, r = f2 :: r2 /\ is_digit f2 = true)).
  { subst body. destruct ip as [|i0 ip'].
    - destruct pt; [|rewrite (Hpt eq_refl) in Hne; cbn in Hne; congruence].
      cbn [app]. destruct fp as [|f0 fp']; [cbn in Hne; congruence|].
      exists "."%byte, ((f0 :: fp') ++ exo). split; [reflexivity|]. split; [right; reflexivity|].
      intros _. exists f0, (fp' ++ exo). split; [reflexivity|].
      cbn [forallb] in Hf. apply andb_true_iff in Hf. tauto.
    - cbn [app]. eexists i0, _. split; [reflexivity|].
      cbn [forallb] in Hi. apply andb_true_iff in Hi. destruct Hi as [Hi0 _]. split; [left; exact Hi0|].
      intros ->. discriminate Hi0. }
  destruct Hhead as (f & r & Hbody & Hf0 & Hdot).
  destruct (head_facts f r Hf0) as (Hm & Hp & Htrim).
  (* lower-casing *)
  assert (Hlow : go_to_lower body = mant ++ exl).
  { subst body mant. rewrite (go_to_lower_digits ip _ Hi). rewrite <- app_assoc. f_equal.
    destruct pt; cbn [app].
    - cbn [go_to_lower]. rewrite (go_to_lower_digits fp _ Hf), (go_to_lower_exp _ _ _ Hex). reflexivity.
    - apply (go_to_lower_exp _ _ _ Hex). }
  assert (Hlhead : exists r', mant ++ exl = f :: r').
  { rewrite <- Hlow, Hbody. destruct Hf0 as [Hd| ->].
    - rewrite (go_to_lower_digit f r Hd). eauto.
    - cbn [go_to_lower]. eauto. }
  destruct Hlhead as (r' & Hlb).
  (* the stages of parse *)
  rewrite parse_unfold. cbv zeta. fold body.
  assert (Hnorm : norm_input (sign ++ body) = sign ++ body).
  { rewrite Hbody. destruct Hs as [[-> _]|[[-> _]|[-> _]]]; reflexivity. }
  rewrite Hnorm.
  assert (Htr : trim_left_signs (sign ++ body) = body).
  { rewrite Hbody. destruct Hs as [[-> _]|[[-> _]|[-> _]]]; cbn [app trim_left_signs]; exact Htrim. }
  rewrite Htr.
  assert (Hds : has_prefix (b ".+") body || has_prefix (b ".-") body = false).
  { rewrite Hbody. destruct Hf0 as [Hd| ->].
    - apply is_digit_cases in Hd.
      repeat (destruct Hd as [Hd|Hd]; [subst f; reflexivity|]). subst f; reflexivity.
    - destruct (Hdot eq_refl) as (f2 & r2 & -> & Hd2). apply is_digit_cases in Hd2.
      repeat (destruct Hd2 as [Hd2|Hd2]; [subst f2; reflexivity|]). subst f2; reflexivity. }
  rewrite Hds. cbv beta iota.
  assert (Hstage : (let neg0 := has_prefix (b "-") (sign ++ body) in
                    parse_tail neg0 (go_to_lower (if neg0 then skipn 1 (sign ++ body)
                       else if has_prefix (b "+") (sign ++ body) then skipn 1 (sign ++ body) else sign ++ body)))
                   = parse_tail neg (go_to_lower body)).
  { destruct Hs as [[-> ->]|[[-> ->]|[-> ->]]]; cbn [app]; cbv zeta.
    - rewrite Hbody, Hm, Hp. reflexivity.
    - reflexivity.
    - reflexivity. }
  cbv zeta in Hstage. transitivity (parse_tail neg (go_to_lower body)); [exact Hstage|]. rewrite Hlow, Hlb.
  rewrite parse_tail_body by exact Hf0. rewrite <- Hlb.
  (* exponent and mantissa *)
  assert (Hplain : forallb plainb mant = true).
  { subst mant. rewrite forallb_app, (digits_plain ip Hi). destruct pt; [|reflexivity].
    cbn [forallb]. rewrite (digits_plain fp Hf). reflexivity. }
  rewrite parse_finite_unfold.
  assert (Hlim_f : exp_in_limits (- Z.of_nat (List.length fp)) = true).
  { unfold exp_in_limits, min_exponent, max_exponent. apply andb_true_iff. split; apply Z.leb_le; lia. }
  destruct Hex as [|mk eneg sgn ds Hmk Hsg Hdne Hdd].
  - (* no exponent *)
    rewrite app_nil_r. rewrite (index_byte_e_plain mant Hplain).
    subst mant. rewrite (parse_mantissa_ok neg ip fp pt [] Hpt Hi Hf Hne).
    destruct pt.
    + cbn [app]. rewrite finish_ok; rewrite ?zsum_single.
      * f_equal.
      * apply dec_digits_val_nonneg. rewrite forallb_app, Hi, Hf. reflexivity.
      * cbn [forallb]. rewrite Hlim_f. reflexivity.
      * exact Hlim_f.
      * replace (- Z.of_nat (List.length fp)) with (0 - Z.of_nat (List.length fp)) by lia. exact Hadj.
    + rewrite (Hpt eq_refl) in *. cbn [List.length] in *. rewrite Z.sub_0_r in *. rewrite finish_ok.
      * reflexivity.
      * apply dec_digits_val_nonneg. rewrite forallb_app, Hi. reflexivity.
      * reflexivity.
      * reflexivity.
      * exact Hadj.
  - (* exponent *)
    set (ev := if eneg then - dec_digits_val ds else dec_digits_val ds) in *.
    rewrite (index_byte_e_app mant (sgn ++ ds) Hplain).
    rewrite firstn_len_app, skipn_S_len_app.
    assert (Hrange : - 2 ^ 31 <= ev < 2 ^ 31).
    { unfold exp_in_limits, min_exponent, max_exponent in Hle. apply andb_true_iff in Hle.
      destruct Hle as [L1 L2]. apply Z.leb_le in L1. apply Z.leb_le in L2. lia. }
    rewrite (parse_int32_ok eneg sgn ds Hsg Hdne Hdd Hrange). fold ev.
    subst mant. rewrite (parse_mantissa_ok neg ip fp pt [ev] Hpt Hi Hf Hne).
    destruct pt.
    + rewrite finish_ok.
      * replace (zsum ([ev] ++ [- Z.of_nat (List.length fp)])) with (ev - Z.of_nat (List.length fp))
          by (unfold zsum; cbn [app fold_left]; lia). reflexivity.
      * apply dec_digits_val_nonneg. rewrite forallb_app, Hi, Hf. reflexivity.
      * cbn [app forallb]. rewrite Hle, Hlim_f. reflexivity.
      * replace (zsum ([ev] ++ [- Z.of_nat (List.length fp)])) with (ev - Z.of_nat (List.length fp))
          by (unfold zsum; cbn [app fold_left]; lia). exact Hsum.
      * replace (zsum ([ev] ++ [- Z.of_nat (List.length fp)])) with (ev - Z.of_nat (List.length fp))
          by (unfold zsum; cbn [app fold_left]; lia). exact Hadj.
    + rewrite (Hpt eq_refl) in *. cbn [List.length] in *. rewrite Z.sub_0_r in *. rewrite finish_ok.
      * rewrite zsum_single. reflexivity.
      * apply dec_digits_val_nonneg. rewrite forallb_app, Hi. reflexivity.
      * cbn [forallb]. rewrite Hle. reflexivity.
      * rewrite zsum_single. exact Hle.
      * rewrite zsum_single. exact Hadj.
Qed.

Example parse_complete_ex :
  parse (b "-12.50E+3") =
  Ok (mkDec true (dec_digits_val (b "12" ++ b "50")) (3 - Z.of_nat (List.length (b "50")))).
Proof.
  apply (parse_complete true (b "-") (b "12") (b "50") true (b "E+3") (b "e+3") 3).
  - right; right; split; reflexivity.
  - discriminate.
  - reflexivity.
  - reflexivity.
  - discriminate.
  - apply (ExpSrcSome "E"%byte false (b "+") (b "3")); [right; reflexivity|right; left; split; reflexivity|discriminate|reflexivity].
  - reflexivity.
  - cbn. lia.
  - reflexivity.
  - vm_compute. split; discriminate.
Qed.
