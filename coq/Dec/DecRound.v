(* Properties of the decimal model, part 2: 34-digit rounding (Mul), division (Quo, QuoExact),
   truncation to an integer (SdkIntTrim), Reduce. *)
From Coq Require Import List ZArith NArith Bool Lia QArith Qpower Qabs Strings.Byte Strings.String.
Require Import Regen.Base.Bytes Regen.Dec.Dec Regen.Dec.DecLemmas Regen.Dec.DecIface Regen.Dec.DecProps.
Import ListNotations.
Local Open Scope Z_scope.
Local Arguments b s%string_scope.

(* ------------------------------------------------------------------ *)
(* Integer facts about rounding                                        *)
(* ------------------------------------------------------------------ *)

Lemma num_digits_34 y : 10 ^ 33 <= y < 10 ^ 34 -> num_digits y = 34.
Proof. intro H. apply num_digits_unique; [lia|lia|exact H]. Qed.

(* roundAddOne on a 34-digit coefficient: still 34 digits, value y+1 at the new scale *)
Lemma round_add_one_spec y diff : 10 ^ 33 <= y < 10 ^ 34 ->
  let '(y', diff') := round_add_one y diff in
  10 ^ 33 <= y' < 10 ^ 34 /\ diff <= diff' <= diff + 1 /\ y' * 10 ^ (diff' - diff) = y + 1.
Proof.
  intro Hy. unfold round_add_one. rewrite (num_digits_34 y Hy).
  destruct (Z_lt_le_dec (y + 1) (10 ^ 34)) as [Hlt|Hge].
  - rewrite (num_digits_34 (y + 1)) by lia. cbn [Z.gtb Z.compare Pos.compare Pos.compare_cont].
    replace (diff - diff) with 0 by lia. rewrite Z.pow_0_r. lia.
  - assert (Heq : y + 1 = 10 ^ 34) by lia.
    assert (Hn : num_digits (y + 1) = 35).
    { rewrite Heq. apply num_digits_unique; [lia|lia|]. split; [reflexivity|]. apply pow10_lt. lia. }
    rewrite Hn. cbn [Z.gtb Z.compare Pos.compare Pos.compare_cont].
    replace (diff + 1 - diff) with 1 by lia. rewrite Heq.
    change (10 ^ 34) with (10 ^ 33 * 10). rewrite Z.div_mul by lia. split; [lia|]. split; [lia|].
    rewrite Z.pow_1_r. reflexivity.
Qed.

Lemma zsum_pair' x y : zsum [x; y] = x + y.
Proof. unfold zsum. cbn [fold_left]. lia. Qed.

(* Rounder.Round (half-up, 34 digits) at the integer level *)
Lemma round34_int d r rounded : 0 <= dcoef d -> round34 d = Ok (r, rounded) ->
  exists k, 0 <= k /\ dexp r = dexp d + k /\ dneg r = dneg d /\ 0 <= dcoef r /\
            num_digits (dcoef r) <= 34 /\
            2 * Z.abs (dcoef r * 10 ^ k - dcoef d) <= 10 ^ k /\
            (rounded = false -> k = 0 /\ dcoef r = dcoef d).
Proof.
  intros HP H. unfold round34 in H.
  destruct (negb (is_zero d) && _); [discriminate|].
  set (P := dcoef d) in *. set (nd := num_digits P) in *. unfold precision128 in H.
  destruct (nd - 34 >? 0) eqn:Ediff.
  - apply Z.gtb_lt in Ediff.
    assert (HPpos : 0 < P).
    { destruct (Z.eq_dec P 0) as [Hz|Hnz]; [|lia]. exfalso.
      assert (Hn1 : nd = 1) by (subst nd; rewrite Hz; reflexivity). lia. }
    set (diff := nd - 34) in *.
    destruct (diff >? max_exponent); [discriminate|].
    pose proof (num_digits_spec P HPpos) as [Hlo Hhi]. fold nd in Hlo, Hhi.
    assert (Pp : 0 < 10 ^ diff) by (apply pow10_gt0; lia).
    set (p := 10 ^ diff) in *.
    assert (Hlo' : 10 ^ 33 * p <= P).
    { subst p. rewrite <- pow10_add by lia. replace (33 + diff) with (nd - 1) by (subst diff; lia). exact Hlo. }
    assert (Hhi' : P < 10 ^ 34 * p).
    { subst p. rewrite <- pow10_add by lia. replace (34 + diff) with nd by (subst diff; lia). exact Hhi. }
    pose proof (Z.div_mod P p ltac:(lia)) as Hdm. pose proof (Z.mod_pos_bound P p Pp) as Hmb.
    set (y := P / p) in *. set (m := P mod p) in *.
    assert (Hy : 10 ^ 33 <= y < 10 ^ 34) by (split; nia).
    assert (Hres : forall y' diff', 10 ^ 33 <= y' < 10 ^ 34 -> 0 <= diff' ->
               2 * Z.abs (y' * 10 ^ diff' - P) <= 10 ^ diff' ->
               bind (set_exponent (mkDec (dneg d) y' (dexp d)) [dexp d; diff']) (fun r0 => Ok (r0, true)) = Ok (r, rounded) ->
               exists k, 0 <= k /\ dexp r = dexp d + k /\ dneg r = dneg d /\ 0 <= dcoef r /\
                 num_digits (dcoef r) <= 34 /\ 2 * Z.abs (dcoef r * 10 ^ k - P) <= 10 ^ k /\
                 (rounded = false -> k = 0 /\ dcoef r = P)).
    { intros y' diff' Hy' Hd' Hb Hs. unfold bind in Hs.
      destruct (set_exponent _ _) as [r0|] eqn:E; [|discriminate]. injection Hs as <- <-.
      apply set_exponent_inv in E. destruct E as (N & C & X & _). cbn [dneg dcoef] in N, C.
      rewrite zsum_pair' in X. exists diff'. rewrite C, N, X.
      repeat split; try lia; try (rewrite (num_digits_34 y' Hy'); lia); try discriminate. }
    destruct (m =? 0) eqn:Em.
    + apply Z.eqb_eq in Em. apply (Hres y diff); [exact Hy|lia| |exact H]. fold p. lia.
    + apply Z.eqb_neq in Em. destruct (2 * m >=? p) eqn:Eh.
      * apply Z.geb_le in Eh. pose proof (round_add_one_spec y diff Hy) as Hr.
        destruct (round_add_one y diff) as [y' diff']. destruct Hr as (Hy' & Hd' & Hv).
        apply (Hres y' diff'); [exact Hy'|lia| |exact H].
        replace diff' with ((diff' - diff) + diff) by lia. rewrite pow10_add by lia. fold p.
        rewrite Z.mul_assoc, Hv.
        assert (1 <= 10 ^ (diff' - diff)) by (apply pow10_ge1; lia). nia.
      * rewrite Z.geb_leb in Eh. apply Z.leb_gt in Eh.
        apply (Hres y diff); [exact Hy|lia| |exact H]. fold p. lia.
  - rewrite Z.gtb_ltb in Ediff. apply Z.ltb_ge in Ediff. unfold bind in H.
    destruct (set_exponent d [dexp d; 0]) as [r0|] eqn:E; [|discriminate]. injection H as <- <-.
    apply set_exponent_inv in E. destruct E as (N & C & X & _). rewrite zsum_pair' in X.
    exists 0. rewrite C, N, X, Z.pow_0_r. fold P. fold nd.
    repeat split; lia.
Qed.

(* ------------------------------------------------------------------ *)
(* Lifting an integer rounding bound to Q                              *)
(* ------------------------------------------------------------------ *)

Definition sg (s : bool) (z : Z) : Z := if s then - z else z.

Lemma sg_abs s z : Z.abs (sg s z) = Z.abs z.
Proof. destruct s; cbn [sg]; lia. Qed.

Lemma sg_sub s a c : sg s a - sg s c = sg s (a - c).
Proof. destruct s; cbn [sg]; lia. Qed.

Lemma Qabs_inject z : (Qabs (inject_Z z) == inject_Z (Z.abs z))%Q.
Proof. unfold Qabs, inject_Z. cbn. reflexivity. Qed.

Lemma half_bound a c : 2 * a <= c -> (inject_Z a <= (1 # 2) * inject_Z c)%Q.
Proof. intro H. unfold Qle, Qmult, inject_Z. cbn [Qnum Qden]. change (Z.pos (2 * 1)) with 2. lia. Qed.

(* |s*A - s*B| * 10^m  <= 1/2 * W * 10^m   from   2|A - B| <= W *)
Lemma q_half_bound s A B W m : 2 * Z.abs (A - B) <= W ->
  (Qabs (inject_Z (sg s A) * q10 ^ m - inject_Z (sg s B) * q10 ^ m) <= (1 # 2) * inject_Z W * q10 ^ m)%Q.
Proof.
  intro H. pose proof (qpow_pos m) as Hp.
  setoid_replace (inject_Z (sg s A) * q10 ^ m - inject_Z (sg s B) * q10 ^ m)%Q
    with (inject_Z (sg s (A - B)) * q10 ^ m)%Q
    by (rewrite <- sg_sub; unfold Zminus; rewrite inject_Z_plus, inject_Z_opp; ring).
  rewrite Qabs_Qmult, Qabs_inject, sg_abs. rewrite (Qabs_pos (q10 ^ m)) by (apply Qlt_le_weak; exact Hp).
  apply Qmult_le_compat_r; [|apply Qlt_le_weak; exact Hp]. apply half_bound. exact H.
Qed.

Lemma dint_sg d : dint d = sg (dneg d) (dcoef d).
Proof. reflexivity. Qed.

(* ------------------------------------------------------------------ *)
(* Mul: correct to 34 significant digits                               *)
(* ------------------------------------------------------------------ *)

Lemma mul_ctx_int a c r rounded : dwf a -> dwf c -> mul_ctx a c = Ok (r, rounded) ->
  exists k, 0 <= k /\ dexp r = dexp a + dexp c + k /\ dneg r = xorb (dneg a) (dneg c) /\
            0 <= dcoef r /\ num_digits (dcoef r) <= 34 /\
            2 * Z.abs (dcoef r * 10 ^ k - dcoef a * dcoef c) <= 10 ^ k /\
            (rounded = false -> k = 0 /\ dcoef r = dcoef a * dcoef c).
Proof.
  unfold dwf, mul_ctx, bind. intros Ha Hc H.
  destruct (set_exponent _ [dexp a; dexp c]) as [d|] eqn:E1; [|discriminate].
  apply set_exponent_inv in E1. destruct E1 as (N1 & C1 & X1 & _). cbn [dneg dcoef] in N1, C1.
  rewrite zsum_pair' in X1.
  assert (HP : 0 <= dcoef d) by (rewrite C1; nia).
  destruct (round34_int d r rounded HP H) as (k & Hk & He & Hn & Hw & Hd & Hb & Hx).
  exists k. rewrite He, Hn, X1, N1. rewrite C1 in Hb, Hx.
  repeat split; first [assumption | lia | (apply Hx; assumption)].
Qed.

Theorem mul_round_bound a c r : dwf a -> dwf c -> mul a c = Ok r ->
  (Qabs (dval r - dval a * dval c) <= (1 # 2) * q10 ^ dexp r)%Q /\
  dwf r /\ num_digits (dcoef r) <= 34.
Proof.
  intros Ha Hc H. unfold mul, bind in H.
  destruct (mul_ctx a c) as [[r0 rounded]|] eqn:E; [|discriminate]. injection H as <-.
  destruct (mul_ctx_int a c r0 rounded Ha Hc E) as (k & Hk & He & Hn & Hw & Hd & Hb & _).
  split; [|split; assumption].
  set (m := dexp a + dexp c).
  (* both numbers at scale m *)
  assert (H1 : (dval r0 == inject_Z (sg (dneg r0) (dcoef r0 * 10 ^ k)) * q10 ^ m)%Q).
  { rewrite dval_eq, dint_sg. symmetry.
    replace (sg (dneg r0) (dcoef r0 * 10 ^ k)) with (sg (dneg r0) (dcoef r0) * 10 ^ (dexp r0 - m))
      by (rewrite He; subst m; replace (dexp a + dexp c + k - (dexp a + dexp c)) with k by lia;
          destruct (dneg r0); cbn [sg]; ring).
    apply scale_int. subst m. lia. }
  assert (H2 : (dval a * dval c == inject_Z (sg (dneg r0) (dcoef a * dcoef c)) * q10 ^ m)%Q).
  { rewrite !dval_eq. subst m. rewrite qpow_add. rewrite Hn. unfold sg. rewrite dint_mul.
    rewrite inject_Z_mult. ring. }
  rewrite H1, H2.
  setoid_replace ((1 # 2) * q10 ^ dexp r0)%Q with ((1 # 2) * inject_Z (10 ^ k) * q10 ^ m)%Q.
  - apply q_half_bound. exact Hb.
  - rewrite He. fold m. rewrite qpow_add, qpow_inject by exact Hk. ring.
Qed.

(* ------------------------------------------------------------------ *)
(* Quo                                                                 *)
(* ------------------------------------------------------------------ *)

Lemma quo_norm_up_spec fuel : forall D V adj D' adj',
  quo_norm_up fuel D V adj = Some (D', adj') ->
  exists k, 0 <= k /\ D' = D * 10 ^ k /\ adj' = adj + k /\ V <= D'.
Proof.
  induction fuel as [|f IH]; intros D V adj D' adj' H; cbn [quo_norm_up] in H;
    destruct (D <? V) eqn:E.
  - discriminate.
  - injection H as <- <-. apply Z.ltb_ge in E. exists 0. rewrite Z.pow_0_r. lia.
  - apply IH in H. destruct H as (k & Hk & HD & Ha & Hle). exists (k + 1).
    rewrite Z.add_comm, pow10_add by lia. rewrite Z.pow_1_r. repeat split; lia.
  - injection H as <- <-. apply Z.ltb_ge in E. exists 0. rewrite Z.pow_0_r. lia.
Qed.

Lemma quo_norm_down_spec fuel : forall D V adj V' adj',
  quo_norm_down fuel D V adj = Some (V', adj') ->
  exists k, 0 <= k /\ V' = V * 10 ^ k /\ adj' = adj - k /\ D < V' * 10 /\ (V <= D -> V' <= D).
Proof.
  induction fuel as [|f IH]; intros D V adj V' adj' H; cbn [quo_norm_down] in H;
    destruct (D <? V * 10) eqn:E.
  - injection H as <- <-. apply Z.ltb_lt in E. exists 0. rewrite Z.pow_0_r. lia.
  - discriminate.
  - injection H as <- <-. apply Z.ltb_lt in E. exists 0. rewrite Z.pow_0_r. lia.
  - apply Z.ltb_ge in E. apply IH in H. destruct H as (k & Hk & HV & Ha & Hlt & Hle). exists (k + 1).
    rewrite Z.add_comm, pow10_add by lia. rewrite Z.pow_1_r. repeat split; lia.
Qed.

Lemma quo_digits_spec fuel : forall D V quo adj q rem adj',
  0 < V -> quo_digits fuel D V quo adj = Some (q, rem, adj') ->
  exists k, 0 <= k /\ adj' = adj + k /\ q * V + rem = (quo * V + D) * 10 ^ k /\ 0 <= rem < V /\
            (rem <> 0 -> num_digits q = 34).
Proof.
  induction fuel as [|f IH]; intros D V quo adj q rem adj' HV H; cbn [quo_digits] in H;
    pose proof (Z.div_mod D V ltac:(lia)) as Hdm; pose proof (Z.mod_pos_bound D V HV) as Hmb;
    destruct (((D mod V =? 0) && (adj >=? 0)) || (num_digits (quo + D / V) =? precision128)) eqn:E.
  - injection H as <- <- <-. exists 0. rewrite Z.pow_0_r. repeat split; try lia.
    intro Hnz. apply orb_true_iff in E. destruct E as [E|E].
    + apply andb_true_iff in E. destruct E as [E _]. apply Z.eqb_eq in E. lia.
    + apply Z.eqb_eq in E. exact E.
  - discriminate.
  - injection H as <- <- <-. exists 0. rewrite Z.pow_0_r. repeat split; try lia.
    intro Hnz. apply orb_true_iff in E. destruct E as [E|E].
    + apply andb_true_iff in E. destruct E as [E _]. apply Z.eqb_eq in E. lia.
    + apply Z.eqb_eq in E. exact E.
  - apply IH in H; [|exact HV]. destruct H as (k & Hk & Ha & Hq & Hr & Hn). exists (k + 1).
    rewrite Z.add_comm, pow10_add by lia. rewrite Z.pow_1_r. repeat split; try lia; try nia; try exact Hn.
Qed.

(* digit count of the quotient: one more digit per pass, never more than 34 *)
Lemma num_digits_shift q t : 0 < q -> 0 <= t <= 9 -> num_digits (q * 10 + t) = num_digits q + 1.
Proof.
  intros Hq Ht. pose proof (num_digits_spec q Hq) as [Hlo Hhi]. pose proof (num_digits_ge1 q) as Hge.
  apply num_digits_unique; [lia|lia|].
  replace (num_digits q + 1 - 1) with ((num_digits q - 1) + 1) by lia.
  rewrite !pow10_succ by lia. lia.
Qed.

Lemma quo_digits_nd fuel : forall D V quo adj q rem adj',
  0 < V -> 0 <= D < 10 * V -> 0 <= quo -> 0 < quo + D / V ->
  num_digits (quo + D / V) = 35 - Z.of_nat fuel -> (1 <= fuel)%nat ->
  quo_digits fuel D V quo adj = Some (q, rem, adj') -> 0 < q /\ num_digits q <= 34.
Proof.
  induction fuel as [|f IH]; intros D V quo adj q rem adj' HV HD Hquo Hpos Hnd Hf H; [lia|].
  cbn [quo_digits] in H.
  pose proof (Z.mod_pos_bound D V HV) as Hmb.
  destruct (((D mod V =? 0) && (adj >=? 0)) || (num_digits (quo + D / V) =? precision128)) eqn:E.
  - injection H as <- <- <-. split; [exact Hpos|lia].
  - apply orb_false_iff in E. destruct E as [_ E]. apply Z.eqb_neq in E. unfold precision128 in E.
    assert (Hf1 : (1 <= f)%nat) by lia.
    assert (Ht : 0 <= D mod V * 10 / V <= 9).
    { split; [apply Z.div_pos; lia|]. assert (D mod V * 10 / V < 10) by (apply Z.div_lt_upper_bound; lia). lia. }
    apply (IH _ _ _ _ _ _ _ HV) in H; try assumption; try lia.
    rewrite num_digits_shift by lia. lia.
Qed.

(* what quo_ctx computes, at the integer level (non-zero dividend) *)
Lemma quo_ctx_int x y c rounded : dwf x -> dwf y -> quo_ctx x y = Ok (c, rounded) ->
  dcoef y <> 0 /\ dneg c = xorb (dneg x) (dneg y) /\ 0 <= dcoef c /\ num_digits (dcoef c) <= 34 /\
  exists s t diff, 0 <= s /\ 0 <= t /\ 0 <= diff /\
    dexp c = dexp x - dexp y - (t - s) + diff /\
    2 * Z.abs (dcoef c * 10 ^ diff * (dcoef y * 10 ^ s) - dcoef x * 10 ^ t) <= dcoef y * 10 ^ s * 10 ^ diff /\
    (rounded = false -> dcoef c * 10 ^ diff * (dcoef y * 10 ^ s) = dcoef x * 10 ^ t).
Proof.
  unfold dwf, quo_ctx. intros Hx Hy H.
  unfold is_zero in H. destruct (dcoef y =? 0) eqn:Ey.
  { destruct (dcoef x =? 0); discriminate. }
  apply Z.eqb_neq in Ey. split; [exact Ey|].
  destruct (dcoef x =? 0) eqn:Ex.
  - (* zero dividend *)
    apply Z.eqb_eq in Ex. unfold bind in H.
    destruct (set_exponent _ _) as [r0|] eqn:E; [|discriminate]. injection H as <- <-.
    apply set_exponent_inv in E. destruct E as (N & C & X & _). cbn [dneg dcoef] in N, C.
    unfold zsum in X. cbn [fold_left] in X.
    rewrite N, C. split; [reflexivity|]. split; [lia|]. split; [rewrite num_digits_0; lia|].
    exists 0, 0, 0. rewrite Ex, !Z.pow_0_r. repeat split; try lia.
  - apply Z.eqb_neq in Ex.
    rewrite (Z.abs_eq (dcoef x)) in H by exact Hx. rewrite (Z.abs_eq (dcoef y)) in H by exact Hy.
    set (X := dcoef x) in *. set (Y := dcoef y) in *.
    destruct (quo_norm_up _ X Y 0) as [[D1 adj1]|] eqn:E1; [|discriminate].
    destruct (quo_norm_down _ D1 Y adj1) as [[V1 adj2]|] eqn:E2; [|discriminate].
    destruct (quo_digits 34 D1 V1 0 adj2) as [[[q rem] adj]|] eqn:E3; [|discriminate].
    apply quo_norm_up_spec in E1. destruct E1 as (a & Ha & HD1 & Hadj1 & HYD).
    apply quo_norm_down_spec in E2. destruct E2 as (bb & Hb & HV1 & Hadj2 & HDV & HVD).
    specialize (HVD HYD).
    assert (Pa : 0 < 10 ^ a) by (apply pow10_gt0; lia).
    assert (Pb : 0 < 10 ^ bb) by (apply pow10_gt0; lia).
    assert (HV1pos : 0 < V1) by (subst V1; nia).
    pose proof E3 as E3'.
    apply quo_digits_spec in E3; [|exact HV1pos].
    destruct E3 as (k & Hk & Hadj & Hq & Hrem & Hn34).
    assert (Hq0 : 0 < D1 / V1) by (apply Z.div_str_pos; lia).
    assert (Hq9 : D1 / V1 < 10) by (apply Z.div_lt_upper_bound; lia).
    apply quo_digits_nd in E3'; try lia.
    2:{ rewrite Z.add_0_l. apply num_digits_unique; [lia|lia|]. cbn. lia. }
    destruct E3' as [Hqpos Hqnd].
    assert (Pk : 0 < 10 ^ k) by (apply pow10_gt0; lia).
    rewrite Z.mul_0_l, Z.add_0_l in Hq.
    (* the rounding step *)
    set (adjv := dexp x + - dexp y - adj + num_digits q - 1) in *.
    assert (Hfin : forall q' diff rd,
      10 ^ 0 <= 1 -> 0 <= diff -> 0 < q' -> num_digits q' <= 34 ->
      2 * Z.abs (q' * 10 ^ diff * V1 - D1 * 10 ^ k) <= V1 * 10 ^ diff ->
      (rd = false -> q' * 10 ^ diff * V1 = D1 * 10 ^ k) ->
      bind (set_exponent (mkDec (xorb (dneg x) (dneg y)) q' 0) [dexp x; - dexp y; - adj; diff])
           (fun r0 => Ok (r0, rd)) = Ok (c, rounded) ->
      dneg c = xorb (dneg x) (dneg y) /\ 0 <= dcoef c /\ num_digits (dcoef c) <= 34 /\
      exists s t diff0, 0 <= s /\ 0 <= t /\ 0 <= diff0 /\
        dexp c = dexp x - dexp y - (t - s) + diff0 /\
        2 * Z.abs (dcoef c * 10 ^ diff0 * (Y * 10 ^ s) - X * 10 ^ t) <= Y * 10 ^ s * 10 ^ diff0 /\
        (rounded = false -> dcoef c * 10 ^ diff0 * (Y * 10 ^ s) = X * 10 ^ t)).
    { intros q' diff rd _ Hdiff Hq' Hnd' Hbnd Hex Hs. unfold bind in Hs.
      destruct (set_exponent _ _) as [r0|] eqn:E; [|discriminate]. injection Hs as <- <-.
      apply set_exponent_inv in E. destruct E as (N & C & Xe & _). cbn [dneg dcoef] in N, C.
      unfold zsum in Xe. cbn [fold_left] in Xe.
      rewrite N, C. split; [reflexivity|]. split; [lia|]. split; [exact Hnd'|].
      exists bb, (a + k), diff. rewrite <- HV1. rewrite (pow10_add a k) by lia.
      rewrite Z.mul_assoc, <- HD1.
      split; [lia|]. split; [lia|]. split; [lia|]. split; [lia|]. split.
      - exact Hbnd.
      - intro Hrd. apply Hex. exact Hrd. }
    destruct (negb (rem =? 0) && (adjv >=? min_exponent)) eqn:Er.
    + apply andb_true_iff in Er. destruct Er as [Er _]. apply negb_true_iff in Er. apply Z.eqb_neq in Er.
      specialize (Hn34 Er).
      assert (Hq34 : 10 ^ 33 <= q < 10 ^ 34).
      { pose proof (num_digits_spec q Hqpos) as Hs. rewrite Hn34 in Hs. exact Hs. }
      destruct (2 * rem >=? V1) eqn:Eh.
      * apply Z.geb_le in Eh. pose proof (round_add_one_spec q 0 Hq34) as Hr.
        destruct (round_add_one q 0) as [q1 d1]. destruct Hr as (Hq1 & Hd1 & Hv).
        rewrite Z.sub_0_r in Hv.
        assert (P1 : 1 <= 10 ^ d1) by (apply pow10_ge1; lia).
        apply (Hfin q1 d1 true); [cbn; lia | lia | lia | rewrite (num_digits_34 q1 Hq1); lia | | discriminate | exact H].
        rewrite Hv. nia.
      * rewrite Z.geb_leb in Eh. apply Z.leb_gt in Eh.
        apply (Hfin q 0 true); [cbn; lia | lia | lia | lia | | discriminate | exact H].
        rewrite Z.pow_0_r. nia.
    + (* not rounded: remainder 0, or the exponent check fails *)
      destruct (Z.eq_dec rem 0) as [Hr0|Hrn].
      * apply (Hfin q 0 false); [cbn; lia | lia | lia | lia | | | exact H].
        -- rewrite Z.pow_0_r. nia.
        -- intros _. rewrite Z.pow_0_r. nia.
      * exfalso. apply andb_false_iff in Er. destruct Er as [Er|Er].
        { apply negb_false_iff in Er. apply Z.eqb_eq in Er. contradiction. }
        rewrite Z.geb_leb in Er. apply Z.leb_gt in Er.
        unfold bind in H. destruct (set_exponent _ _) as [r0|] eqn:E; [|discriminate].
        apply set_exponent_inv in E. destruct E as (_ & _ & _ & _ & Hadjx). cbn [dcoef] in Hadjx.
        unfold zsum in Hadjx. cbn [fold_left] in Hadjx. subst adjv. lia.
Qed.

(* both sides of the division identity at one scale *)
Lemma quo_scale x y c s t diff : 0 <= s -> 0 <= t -> 0 <= diff ->
  dneg c = xorb (dneg x) (dneg y) ->
  dexp c = dexp x - dexp y - (t - s) + diff ->
  let m := dexp x - t in
  (dval c * dval y == inject_Z (sg (dneg x) (dcoef c * 10 ^ diff * (dcoef y * 10 ^ s))) * q10 ^ m)%Q /\
  (dval x == inject_Z (sg (dneg x) (dcoef x * 10 ^ t)) * q10 ^ m)%Q.
Proof.
  intros Hs Ht Hd Hn He m. split.
  - rewrite !dval_eq.
    setoid_replace (inject_Z (dint c) * q10 ^ dexp c * (inject_Z (dint y) * q10 ^ dexp y))%Q
      with (inject_Z (dint c * dint y) * q10 ^ (dexp c + dexp y))%Q
      by (rewrite qpow_add, inject_Z_mult; ring).
    symmetry.
    replace (sg (dneg x) (dcoef c * 10 ^ diff * (dcoef y * 10 ^ s)))
      with (dint c * dint y * 10 ^ (dexp c + dexp y - m)).
    + apply scale_int. subst m. lia.
    + replace (dexp c + dexp y - m) with (diff + s) by (subst m; lia).
      rewrite pow10_add by lia. unfold dint. rewrite Hn.
      destruct (dneg x), (dneg y); cbn [xorb sg]; ring.
  - rewrite dval_eq. symmetry.
    replace (sg (dneg x) (dcoef x * 10 ^ t)) with (dint x * 10 ^ (dexp x - m)).
    + apply scale_int. subst m. lia.
    + replace (dexp x - m) with t by (subst m; lia). unfold dint. destruct (dneg x); cbn [sg]; ring.
Qed.

Theorem quo_exact_value a c r : dwf a -> dwf c -> quo_exact a c = Ok r -> (dval r * dval c == dval a)%Q.
Proof.
  intros Ha Hc H. unfold quo_exact, bind in H.
  destruct (quo_ctx a c) as [[r0 rounded]|] eqn:E; [|discriminate].
  destruct rounded; [discriminate|]. injection H as <-.
  destruct (quo_ctx_int a c r0 false Ha Hc E) as (_ & Hn & _ & _ & s & t & diff & Hs & Ht & Hd & He & _ & Hex).
  destruct (quo_scale a c r0 s t diff Hs Ht Hd Hn He) as [H1 H2].
  rewrite H1, H2, (Hex eq_refl). reflexivity.
Qed.

Lemma Qabs_dval d : dwf d -> (Qabs (dval d) == inject_Z (dcoef d) * q10 ^ dexp d)%Q.
Proof.
  unfold dwf. intro Hw. rewrite dval_eq, Qabs_Qmult, Qabs_inject.
  rewrite (Qabs_pos (q10 ^ dexp d)) by (apply Qlt_le_weak; apply qpow_pos).
  unfold dint. destruct (dneg d); [rewrite Z.abs_opp|]; rewrite Z.abs_eq by exact Hw; reflexivity.
Qed.

(* Quo is within half a unit in the last place of the result (stated without division:
   |r*c - a| <= 1/2 * 10^(dexp r) * |c|) and has at most 34 digits. *)
Theorem quo_round_bound a c r : dwf a -> dwf c -> quo a c = Ok r ->
  (Qabs (dval r * dval c - dval a) <= (1 # 2) * q10 ^ dexp r * Qabs (dval c))%Q /\
  dwf r /\ num_digits (dcoef r) <= 34 /\ ~ (dval c == 0)%Q.
Proof.
  intros Ha Hc H. unfold quo, bind in H.
  destruct (quo_ctx a c) as [[r0 rounded]|] eqn:E; [|discriminate]. injection H as <-.
  destruct (quo_ctx_int a c r0 rounded Ha Hc E) as (Hnz & Hn & Hw & Hnd & s & t & diff & Hs & Ht & Hd & He & Hb & _).
  destruct (quo_scale a c r0 s t diff Hs Ht Hd Hn He) as [H1 H2].
  split; [|split; [exact Hw|split; [exact Hnd|]]].
  - rewrite H1, H2. set (m := dexp a - t).
    setoid_replace ((1 # 2) * q10 ^ dexp r0 * Qabs (dval c))%Q
      with ((1 # 2) * inject_Z (dcoef c * 10 ^ s * 10 ^ diff) * q10 ^ m)%Q.
    + apply q_half_bound. exact Hb.
    + rewrite (Qabs_dval c Hc). rewrite !inject_Z_mult, !qpow_inject by lia.
      rewrite He. replace (dexp a - dexp c - (t - s) + diff) with (m + s + diff - dexp c) by (subst m; lia).
      unfold Zminus. rewrite !qpow_add. rewrite (Qpower_opp q10 (dexp c)).
      field. apply Qpower_not_0. exact q10_nz.
  - rewrite dval_eq. intro Hz. unfold dwf in Hc.
    assert (Hne : ~ (inject_Z (dint c) == 0)%Q).
    { unfold dint. destruct (dneg c); intro Hq; unfold Qeq, inject_Z in Hq; cbn in Hq; lia. }
    apply Qmult_integral in Hz. destruct Hz as [Hz|Hz]; [contradiction|].
    revert Hz. apply Qpower_not_0. exact q10_nz.
Qed.

(* ------------------------------------------------------------------ *)
(* Reduce and SdkIntTrim                                               *)
(* ------------------------------------------------------------------ *)

Lemma strip_zeros_spec fuel : forall c n c' n',
  strip_zeros fuel c n = (c', n') -> n <= n' /\ c' * 10 ^ (n' - n) = c.
Proof.
  induction fuel as [|f IH]; intros c n c' n' H; cbn [strip_zeros] in H.
  - injection H as <- <-. rewrite Z.sub_diag, Z.pow_0_r. lia.
  - destruct (c mod 10 =? 0) eqn:E.
    + apply Z.eqb_eq in E. apply IH in H. destruct H as [Hle Hv]. split; [lia|].
      replace (n' - n) with ((n' - (n + 1)) + 1) by lia. rewrite pow10_succ by lia.
      pose proof (Z.div_mod c 10 ltac:(lia)). lia.
    + injection H as <- <-. rewrite Z.sub_diag, Z.pow_0_r. lia.
Qed.

Lemma reduce_spec x : dwf x ->
  let '(y, n) := reduce x in
  0 <= n /\ dwf y /\ dcoef y * 10 ^ n = dcoef x /\ (dcoef x <> 0 -> dexp y = dexp x + n /\ dneg y = dneg x) /\
  (dcoef x = 0 -> dcoef y = 0).
Proof.
  unfold dwf, reduce, is_zero. intro Hx. destruct (dcoef x =? 0) eqn:E.
  - apply Z.eqb_eq in E. cbn [dcoef dexp dneg]. rewrite E. repeat split; try lia.
  - apply Z.eqb_neq in E. destruct (strip_zeros _ (dcoef x) 0) as [c n] eqn:Es.
    apply strip_zeros_spec in Es. destruct Es as [Hn Hv]. rewrite Z.sub_0_r in Hv.
    cbn [dcoef dexp dneg]. assert (0 < 10 ^ n) by (apply pow10_gt0; lia).
    repeat split; try lia; nia.
Qed.

Theorem reduce_value x : dwf x -> (dval (fst (reduce x)) == dval x)%Q.
Proof.
  intro Hx. pose proof (reduce_spec x Hx) as H. destruct (reduce x) as [y n]. cbn [fst].
  destruct H as (Hn & Hy & Hv & Hnz & Hz).
  destruct (Z.eq_dec (dcoef x) 0) as [E|E].
  - rewrite !dval_eq. unfold dint. rewrite (Hz E), E. destruct (dneg y), (dneg x); cbn; ring.
  - destruct (Hnz E) as [He Hs]. rewrite !dval_eq. symmetry.
    apply (qeq_scaled _ _ _ _ (dexp x)); try lia.
    rewrite Z.sub_diag, Z.pow_0_r, He. replace (dexp x + n - dexp x) with n by lia.
    unfold dint. rewrite Hs, <- Hv. destruct (dneg x); ring.
Qed.

(* SdkIntTrim truncates toward zero: |z| <= |d| < |z| + 1, and z never has the opposite sign *)
Theorem trim_toward_zero d z : dwf d -> sdk_int_trim d = Ok z ->
  (inject_Z (Z.abs z) <= Qabs (dval d))%Q /\ (Qabs (dval d) < inject_Z (Z.abs z) + 1)%Q /\
  (0 <= inject_Z z * dval d)%Q.
Proof.
  intros Hd H. unfold sdk_int_trim in H.
  pose proof (reduce_spec d Hd) as Hr. destruct (reduce d) as [y n]. cbn [fst] in H.
  destruct Hr as (Hn & Hy & Hv & Hnz & Hz). unfold dwf in Hd, Hy.
  set (r := if dexp y =? 0 then dcoef y else if dexp y >? 0 then dcoef y * 10 ^ dexp y
            else dcoef y ÷ 10 ^ (- dexp y)) in *.
  destruct (bit_len _ >? 256); [discriminate|]. injection H as <-.
  (* magnitude of d as coefficient of y at y's exponent *)
  assert (Hmag : (Qabs (dval d) == inject_Z (dcoef y) * q10 ^ dexp y)%Q).
  { rewrite (Qabs_dval d Hd). destruct (Z.eq_dec (dcoef d) 0) as [E|E].
    - rewrite E, (Hz E). ring.
    - destruct (Hnz E) as [He _]. apply (qeq_scaled _ _ _ _ (dexp d)); try lia.
      rewrite Z.sub_diag, Z.pow_0_r, He. replace (dexp d + n - dexp d) with n by lia. lia. }
  assert (Hr0 : 0 <= r /\ (inject_Z r <= Qabs (dval d))%Q /\ (Qabs (dval d) < inject_Z r + 1)%Q).
  { subst r. destruct (dexp y =? 0) eqn:E0; [|destruct (dexp y >? 0) eqn:E1].
    - apply Z.eqb_eq in E0. rewrite Hmag, E0. split; [exact Hy|].
      setoid_replace (inject_Z (dcoef y) * q10 ^ 0)%Q with (inject_Z (dcoef y)) by (cbn; ring).
      split; [apply Qle_refl|]. rewrite <- (Qplus_0_r (inject_Z (dcoef y))) at 1.
      apply Qplus_lt_r. reflexivity.
    - apply Z.gtb_lt in E1. assert (0 < 10 ^ dexp y) by (apply pow10_gt0; lia).
      rewrite Hmag. rewrite inject_Z_mult, qpow_inject by lia. split; [nia|].
      split; [apply Qle_refl|].
      rewrite <- (Qplus_0_r (inject_Z (dcoef y) * q10 ^ dexp y)) at 1. apply Qplus_lt_r. reflexivity.
    - apply Z.eqb_neq in E0. rewrite Z.gtb_ltb in E1. apply Z.ltb_ge in E1.
      set (k := - dexp y). assert (Hk : 0 < k) by (subst k; lia).
      assert (Pk : 0 < 10 ^ k) by (apply pow10_gt0; lia).
      rewrite Z.quot_div_nonneg by lia.
      pose proof (Z.div_mod (dcoef y) (10 ^ k) ltac:(lia)) as Hdm.
      pose proof (Z.mod_pos_bound (dcoef y) (10 ^ k) Pk) as Hmb.
      set (qv := dcoef y / 10 ^ k) in *. set (rm := dcoef y mod 10 ^ k) in *.
      assert (Hq0 : 0 <= qv) by (subst qv; apply Z.div_pos; lia).
      split; [exact Hq0|]. rewrite Hmag.
      (* compare at scale dexp y: qv = qv*10^k * 10^(dexp y) *)
      assert (Hs : forall v, (inject_Z v == inject_Z (v * 10 ^ k) * q10 ^ dexp y)%Q).
      { intro v. replace k with (0 - dexp y) by (subst k; lia).
        rewrite (scale_int v 0 (dexp y)) by lia. cbn. ring. }
      pose proof (qpow_pos (dexp y)) as Hp. split.
      + rewrite (Hs qv). apply Qmult_le_compat_r; [|apply Qlt_le_weak; exact Hp].
        rewrite <- Zle_Qle. lia.
      + setoid_replace (inject_Z qv + 1)%Q with (inject_Z (qv + 1)) by (rewrite inject_Z_plus; reflexivity).
        rewrite (Hs (qv + 1)). apply Qmult_lt_compat_r; [exact Hp|]. rewrite <- Zlt_Qlt. lia. }
  destruct Hr0 as (Hr1 & Hr2 & Hr3).
  assert (Habs : Z.abs (if dneg d then - r else r) = r) by (destruct (dneg d); lia).
  rewrite Habs. split; [exact Hr2|]. split; [exact Hr3|].
  (* sign agreement *)
  rewrite dval_eq. unfold dint. pose proof (qpow_pos (dexp d)) as Hp.
  setoid_replace (inject_Z (if dneg d then - r else r) * (inject_Z (if dneg d then - dcoef d else dcoef d) * q10 ^ dexp d))%Q
    with (inject_Z (r * dcoef d) * q10 ^ dexp d)%Q
    by (destruct (dneg d); rewrite ?inject_Z_opp, inject_Z_mult; ring).
  apply Qmult_le_0_compat; [|apply Qlt_le_weak; exact Hp]. rewrite <- (Zle_Qle 0). nia.
Qed.

(* ------------------------------------------------------------------ *)
(* Examples                                                            *)
(* ------------------------------------------------------------------ *)

Example mul_round_ex :
  mul (dq false 99999999999999999999999999999999995 0) (dq false 1 0) = Ok (dq false 1000000000000000000000000000000000 2) /\
  mul (dq false 19999999999999999999999999999999998 (-6)) (dq false 1000000 0) = Ok (dq false 2000000000000000000000000000000000 1).
Proof. split; vm_compute; reflexivity. Qed.

Example quo_ex :
  quo (dq false 2 0) (dq false 3 0) = Ok (dq false 6666666666666666666666666666666667 (-34)) /\
  quo_exact (dq false 1 0) (dq false 8 0) = Ok (dq false 125 (-3)) /\
  quo_exact (dq false 1 0) (dq false 3 0) = Err ERounded /\
  quo (dq false 1 0) (dq true 0 0) = Err EDivZero /\ quo (dq false 0 0) (dq false 0 3) = Err EDivUndef.
Proof. repeat split; vm_compute; reflexivity. Qed.

Example trim_ex :
  sdk_int_trim (dq true 1299 (-2)) = Ok (-12) /\ sdk_int_trim (dq false 99 (-2)) = Ok 0 /\
  sdk_int_trim (dq false 12 3) = Ok 12000 /\ sdk_int_trim (dq false 2 77) = Err EPanic.
Proof. repeat split; vm_compute; reflexivity. Qed.
