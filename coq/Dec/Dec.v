(* Executable model of regen-ledger's decimal type: /repo/types/math/dec.go and math.go,
   which wrap github.com/cockroachdb/apd/v2 v2.0.2.

   Every definition is a transcription of the Go code it names, restricted to the way regen
   calls apd: three contexts that all use MaxExponent = 100000 / MinExponent = -100000,
     - apd.BaseContext  (Precision 0, DefaultTraps)                 Add, Sub, NewFromString
     - exactContext     (Precision 0, DefaultTraps|Inexact|Rounded) SafeSubBalance, SafeAddBalance
     - dec128Context    (Precision 34, DefaultTraps, Rounding "" = half-up)  Mul, Quo, *Exact
   Only the Finite form is represented: NewDecFromString never lets NaN/Infinite values out and no
   modelled operation produces them without returning an error.

   Model file: definitions only (see DecProps.v etc. for proofs). Stdlib only. *)
From Coq Require Import List ZArith NArith Bool QArith Qpower Strings.Byte Strings.String.
Require Import Regen.Base.Bytes.
Import ListNotations.
Local Open Scope Z_scope.

(* ------------------------------------------------------------------ *)
(* Values and results                                                  *)
(* ------------------------------------------------------------------ *)

(* apd.Decimal{Form: Finite, Negative, Coeff, Exponent} *)
Record dec := mkDec { dneg : bool; dcoef : Z; dexp : Z }.

(* apd: "Coeff must be positive" (i.e. non-negative). *)
Definition dwf (d : dec) : Prop := 0 <= dcoef d.
Definition dwfb (d : dec) : bool := 0 <=? dcoef d.

(* Error classes. EParse/ENaN/ERange-from-parse are all the registered error
   ErrInvalidDecString (refined by cause); EInf is ErrInfiniteString; ERounded is
   ErrUnexpectedRounding; ENonIntegral is ErrNonIntegeral; the others are unregistered errors
   (apd condition errors and fmt.Errorf values); EPanic is the panic of
   sdkmath.NewIntFromBigInt; EFuel is the model's own out-of-fuel marker (never observed). *)
Inductive err :=
| EParse | ENaN | EInf | ERange | ERounded | ENegative | EPrecision | ENonIntegral
| EDivZero | EDivUndef | EPanic | EFuel | EOther.

Inductive res (A : Type) := Ok (a : A) | Err (e : err).
Arguments Ok {A} a.
Arguments Err {A} e.

Definition bind {A B} (r : res A) (f : A -> res B) : res B :=
  match r with Ok a => f a | Err e => Err e end.

Definition err_eqb (x y : err) : bool :=
  match x, y with
  | EParse, EParse | ENaN, ENaN | EInf, EInf | ERange, ERange | ERounded, ERounded
  | ENegative, ENegative | EPrecision, EPrecision | ENonIntegral, ENonIntegral
  | EDivZero, EDivZero | EDivUndef, EDivUndef | EPanic, EPanic | EFuel, EFuel
  | EOther, EOther => true
  | _, _ => false
  end.

(* ------------------------------------------------------------------ *)
(* Rational value                                                      *)
(* ------------------------------------------------------------------ *)

(* signed coefficient *)
Definition dint (d : dec) : Z := if dneg d then - dcoef d else dcoef d.

(* Negative x Coeff x 10**Exponent *)
Definition dval (d : dec) : Q := (inject_Z (dint d) * (inject_Z 10) ^ (dexp d))%Q.

(* Number of 10^-p units in d; meaningful when 0 <= dexp d + p. *)
Definition units (p : Z) (d : dec) : Z := dint d * 10 ^ (dexp d + p).
Definition scale_ok (p : Z) (d : dec) : Prop := 0 <= dexp d + p.

(* ------------------------------------------------------------------ *)
(* apd.NumDigits (table.go): number of decimal digits of |c|, 1 for 0   *)
(* ------------------------------------------------------------------ *)

(* The fuel S (log2 a) exceeds the number of decimal digits of a, so the fuel-exhausted branch is
   unreachable (DecProps.num_digits_spec). *)
Fixpoint nd_fuel (fuel : nat) (c : Z) : Z :=
  match fuel with
  | O => 1
  | S f => if c <? 10 then 1 else 1 + nd_fuel f (c / 10)
  end.

Definition num_digits (c : Z) : Z :=
  let a := Z.abs c in nd_fuel (S (Z.to_nat (Z.log2 a))) a.

(* ------------------------------------------------------------------ *)
(* Limits and setExponent (decimal.go)                                 *)
(* ------------------------------------------------------------------ *)

Definition max_exponent : Z := 100000.
Definition min_exponent : Z := -100000.
Definition precision128 : Z := 34.

Definition exp_in_limits (x : Z) : bool := (min_exponent <=? x) && (x <=? max_exponent).

Definition zsum (xs : list Z) : Z := fold_left Z.add xs 0.

(* d.setExponent(c, res, xs...) for a context whose MinExponent/MaxExponent equal the package
   limits (true for all three contexts regen uses).  Each x, and the adjusted exponent
   sum + NumDigits - 1, must lie within [MinExponent, MaxExponent]; otherwise
   SystemOverflow/SystemUnderflow is returned, which goError always turns into
   "exponent out of range".  The subnormal branch (v < c.MinExponent) and the clamp/overflow branch
   (v > c.MaxExponent) are unreachable after those checks because c.Min/MaxExponent are the same
   limits; so the flags pass through unchanged and d.Exponent := sum. *)
Definition set_exponent (d : dec) (xs : list Z) : res dec :=
  if forallb exp_in_limits xs then
    let sum := zsum xs in
    let adj := sum + num_digits (dcoef d) - 1 in
    if (adj >? max_exponent) || (adj <? min_exponent) then Err ERange
    else Ok (mkDec (dneg d) (dcoef d) sum)
  else Err ERange.

(* c.round(d, d) / c.Round(d, d) when c.Precision == 0:  d.setExponent(c, 0, int64(d.Exponent)). *)
Definition round0 (d : dec) : res dec := set_exponent d [dexp d].

(* ------------------------------------------------------------------ *)
(* String helpers used by setString                                    *)
(* ------------------------------------------------------------------ *)

Local Arguments b s%string_scope.

(* consumePrefix *)
Definition consume_prefix (s p : bytes) : bytes * bool :=
  if has_prefix p s then (skipn (List.length p) s, true) else (s, false).

(* strings.ToLower.  On ASCII it is to_lower_byte.  Exactly two non-ASCII runes have an ASCII
   lower case: U+0130 (C4 B0) -> 'i' and U+212A (E2 84 AA) -> 'k'; they are decoded here.  Every
   other non-ASCII byte is left in place: whatever ToLower turns it into is still non-ASCII and every
   later stage of setString rejects a string containing a non-ASCII byte with the same error class. *)
Fixpoint go_to_lower (s : bytes) : bytes :=
  match s with
  | [] => []
  | xc4 :: xb0 :: r => "i"%byte :: go_to_lower r
  | xe2 :: x84 :: xaa :: r => "k"%byte :: go_to_lower r
  | c :: r => to_lower_byte c :: go_to_lower r
  end.

Definition all_digits (s : bytes) : bool := forallb is_digit s.

(* strconv.ParseUint(s, 10, 64) succeeds: digits only, at least one, value < 2^64. *)
Definition parse_uint64_ok (s : bytes) : bool :=
  match s with
  | [] => false
  | _ => all_digits s && (dec_digits_val s <? 2 ^ 64)
  end.

(* strconv.ParseInt(s, 10, 32): optional sign, then at least one digit, digits only (no
   underscores in base 10), value within int32. *)
Definition parse_int32 (s : bytes) : option Z :=
  let '(neg, r) :=
    match s with
    | "+"%byte :: r => (false, r)
    | "-"%byte :: r => (true, r)
    | _ => (false, s)
    end in
  match r with
  | [] => None
  | _ =>
    if all_digits r then
      let v := dec_digits_val r in
      if neg then (if v <=? 2 ^ 31 then Some (- v) else None)
      else (if v <? 2 ^ 31 then Some v else None)
    else None
  end.

(* big.Int SetString(s, 10): optional sign, then at least one digit, digits only. *)
Definition bigint_set_string (s : bytes) : option Z :=
  let '(neg, r) :=
    match s with
    | "+"%byte :: r => (false, r)
    | "-"%byte :: r => (true, r)
    | _ => (false, s)
    end in
  match r with
  | [] => None
  | _ => if all_digits r then Some (if neg then - dec_digits_val r else dec_digits_val r) else None
  end.

(* ------------------------------------------------------------------ *)
(* NewDecFromString (dec.go) = apd.BaseContext.SetString + form checks  *)
(* ------------------------------------------------------------------ *)

(* The finite tail of setString: s is lower-cased, sign stripped, not a special value. *)
Definition parse_finite (neg : bool) (s : bytes) : res dec :=
  (* if i := strings.IndexByte(s, 'e'); i >= 0 { exp, err := strconv.ParseInt(s[i+1:], 10, 32) ... } *)
  let r1 : res (bytes * list Z) :=
    match index_byte "e"%byte s with
    | Some i =>
        match parse_int32 (skipn (S i) s) with
        | Some e => Ok (firstn i s, [e])
        | None => Err EParse
        end
    | None => Ok (s, [])
    end in
  bind r1 (fun '(m, exps) =>
  (* if i := strings.IndexByte(s, '.'); i >= 0 { exps = append(exps, -(len(s)-i-1)); s = s[:i] + s[i+1:] } *)
  let '(m', exps') :=
    match index_byte "."%byte m with
    | Some i => (firstn i m ++ skipn (S i) m,
                 exps ++ [- (Z.of_nat (List.length m) - Z.of_nat i - 1)])
    | None => (m, exps)
    end in
  match bigint_set_string m' with
  | None => Err EParse
  | Some c =>
      (* c.goError(d.setExponent(c, 0, exps...)) ; then SetString: res |= c.round(d, d) *)
      bind (set_exponent (mkDec neg c 0) exps') (fun d =>
      bind (round0 d) (fun d' =>
      (* dec.go: if d.Coeff.Sign() < 0 { return ErrInvalidDecString } *)
      if dcoef d' <? 0 then Err EParse else Ok d'))
  end).

(* strings.TrimLeft(s, "+-") *)
Fixpoint trim_left_signs (s : bytes) : bytes :=
  match s with
  | "+"%byte :: r => trim_left_signs r
  | "-"%byte :: r => trim_left_signs r
  | _ => s
  end.

Definition parse (s0 : bytes) : res dec :=
  (* if s == "" { s = "0" } *)
  let s := match s0 with [] => b "0" | _ => s0 end in
  (* dec.go: if t := strings.TrimLeft(s, "+-"); HasPrefix(t, ".+") || HasPrefix(t, ".-") { reject }
     (apd would strip the point and let big.Int.SetString read the sign: ".+5" = 0.05) *)
  let t := trim_left_signs s in
  if has_prefix (b ".+") t || has_prefix (b ".-") t then Err EParse else
  (* s, d.Negative = consumePrefix(s, "-"); if !d.Negative { s, _ = consumePrefix(s, "+") } *)
  let '(s1, neg) := consume_prefix s (b "-") in
  let s2 := if neg then s1 else fst (consume_prefix s1 (b "+")) in
  let s3 := go_to_lower s2 in
  if has_prefix (b "-") s3 || has_prefix (b "+") s3 then Err EParse
  else if bytes_eqb s3 (b "infinity") || bytes_eqb s3 (b "inf") then Err EInf
  else
    let '(s4, c1) := consume_prefix s3 (b "nan") in
    let '(s5, c2) := consume_prefix s4 (b "snan") in
    if c1 || c2 then
      match s5 with
      | [] => Err ENaN
      | _ => if parse_uint64_ok s5 then Err ENaN else Err EParse
      end
    else parse_finite neg s5.

(* ------------------------------------------------------------------ *)
(* Predicates (dec.go)                                                 *)
(* ------------------------------------------------------------------ *)

Definition is_zero (d : dec) : bool := dcoef d =? 0.                 (* Sign() == 0 *)
Definition is_negative (d : dec) : bool := dneg d && negb (is_zero d).
Definition is_positive (d : dec) : bool := negb (dneg d) && negb (is_zero d).

(* apd Decimal.Sign for the Finite form *)
Definition dsign (d : dec) : Z := if is_zero d then 0 else if dneg d then -1 else 1.

Definition num_decimal_places (d : dec) : Z := if dexp d >=? 0 then 0 else - dexp d.

(* ------------------------------------------------------------------ *)
(* Add / Sub (context.go add, upscale) with a Precision-0 context       *)
(* ------------------------------------------------------------------ *)

Definition add_gen (subtract : bool) (x y : dec) : res dec :=
  let xn := dneg x in
  let yn := xorb (dneg y) subtract in              (* y.Negative != subtract *)
  (* upscale: error when the exponents differ by more than MaxExponent *)
  if Z.abs (dexp x - dexp y) >? max_exponent then Err ERange else
  let e := Z.min (dexp x) (dexp y) in
  let a := dcoef x * 10 ^ (dexp x - e) in
  let c := dcoef y * 10 ^ (dexp y - e) in
  let '(neg, coef) :=
    if Bool.eqb xn yn then (xn, a + c)
    else
      let df := a - c in
      if df <? 0 then (negb xn, - df)              (* case -1 *)
      else if df =? 0 then (false, 0)              (* case 0: Negative = (Rounding == RoundFloor) *)
      else (xn, df) in
  round0 (mkDec neg coef e).

Definition add (x y : dec) : res dec := add_gen false x y.
Definition sub (x y : dec) : res dec := add_gen true x y.

(* math.go *)
Definition sub_non_negative (x y : dec) : res dec :=
  bind (sub x y) (fun z => if is_negative z then Err ENegative else Ok z).

(* exactContext differs from BaseContext only in trapping Inexact|Rounded, which a Precision-0
   round never raises; so the arithmetic is add_gen again. *)
Definition safe_sub_balance (x y : dec) : res dec :=
  bind (add_gen true x y) (fun z => if is_negative z then Err ENegative else Ok z).

Definition safe_add_balance (x y : dec) : res dec :=
  if is_negative x || is_negative y then Err ENegative else add_gen false x y.

(* ------------------------------------------------------------------ *)
(* Rounding to 34 digits (round.go, Rounder.Round with roundHalfUp)     *)
(* ------------------------------------------------------------------ *)

(* roundAddOne(b, &diff) *)
Definition round_add_one (y diff : Z) : Z * Z :=
  let nd := num_digits y in
  let y1 := y + 1 in
  if num_digits y1 >? nd then (y1 / 10, diff + 1) else (y1, diff).

(* returns the rounded decimal and whether the Rounded condition was raised *)
Definition round34 (d : dec) : res (dec * bool) :=
  let nd := num_digits (dcoef d) in
  if negb (is_zero d) && (dexp d + nd - 1 <? min_exponent) then Err ERange   (* Subnormal trap *)
  else
    let diff := nd - precision128 in
    if diff >? 0 then
      if diff >? max_exponent then Err ERange else
      let p := 10 ^ diff in
      let y := dcoef d / p in
      let m := dcoef d mod p in
      let '(y', diff') :=
        if m =? 0 then (y, diff)
        else if 2 * m >=? p                              (* discard.Cmp(decimalHalf) >= 0 *)
             then round_add_one y diff else (y, diff) in
      bind (set_exponent (mkDec (dneg d) y' (dexp d)) [dexp d; diff']) (fun r => Ok (r, true))
    else
      bind (set_exponent d [dexp d; 0]) (fun r => Ok (r, false)).

(* dec128Context.Mul *)
Definition mul_ctx (x y : dec) : res (dec * bool) :=
  let neg := xorb (dneg x) (dneg y) in
  bind (set_exponent (mkDec neg (dcoef x * dcoef y) 0) [dexp x; dexp y]) round34.

Definition mul (x y : dec) : res dec := bind (mul_ctx x y) (fun '(d, _) => Ok d).
Definition mul_exact (x y : dec) : res dec :=
  bind (mul_ctx x y) (fun '(d, rounded) => if rounded then Err ERounded else Ok d).

(* ------------------------------------------------------------------ *)
(* dec128Context.Quo (context.go)                                      *)
(* ------------------------------------------------------------------ *)

(* for dividend.Cmp(divisor) < 0 { dividend *= 10; adjust++ } *)
Fixpoint quo_norm_up (fuel : nat) (dividend divisor adjust : Z) : option (Z * Z) :=
  if dividend <? divisor then
    match fuel with
    | O => None
    | S f => quo_norm_up f (dividend * 10) divisor (adjust + 1)
    end
  else Some (dividend, adjust).

(* for { tmp = divisor*10; if dividend < tmp { break }; divisor = tmp; adjust-- } *)
Fixpoint quo_norm_down (fuel : nat) (dividend divisor adjust : Z) : option (Z * Z) :=
  if dividend <? divisor * 10 then Some (divisor, adjust)
  else
    match fuel with
    | O => None
    | S f => quo_norm_down f dividend (divisor * 10) (adjust - 1)
    end.

(* The digit loop.  The inner "while divisor <= dividend: subtract, quo++" is a division with
   remainder.  The loop stops when the remainder is 0 and adjust >= 0 or when quo has Precision
   digits; every pass adds one digit, so 34 units of fuel always suffice. *)
Fixpoint quo_digits (fuel : nat) (dividend divisor quo adjust : Z) : option (Z * Z * Z) :=
  let quo' := quo + dividend / divisor in
  let rem := dividend mod divisor in
  if ((rem =? 0) && (adjust >=? 0)) || (num_digits quo' =? precision128)
  then Some (quo', rem, adjust)
  else
    match fuel with
    | O => None
    | S f => quo_digits f (rem * 10) divisor (quo' * 10) (adjust + 1)
    end.

Definition quo_ctx (x y : dec) : res (dec * bool) :=
  (* quoSpecials *)
  if is_zero y then (if is_zero x then Err EDivUndef else Err EDivZero) else
  let neg := xorb (dneg x) (dneg y) in
  if is_zero x then
    bind (set_exponent (mkDec neg 0 0) [dexp x; - dexp y; 0; 0]) (fun r => Ok (r, false))
  else
    let dividend0 := Z.abs (dcoef x) in
    let divisor0 := Z.abs (dcoef y) in
    match quo_norm_up (S (Z.to_nat (Z.log2 divisor0))) dividend0 divisor0 0 with
    | None => Err EFuel
    | Some (dividend1, adjust1) =>
      match quo_norm_down (S (Z.to_nat (Z.log2 dividend1))) dividend1 divisor0 adjust1 with
      | None => Err EFuel
      | Some (divisor1, adjust2) =>
        match quo_digits 34 dividend1 divisor1 0 adjust2 with
        | None => Err EFuel
        | Some (q, rem, adjust) =>
          let adj := dexp x + - dexp y - adjust + num_digits q - 1 in
          let '(q', diff, rounded) :=
            if negb (rem =? 0) && (adj >=? min_exponent) then
              (* half := (2*rem).Cmp(divisor); roundHalfUp: half >= 0 *)
              if 2 * rem >=? divisor1 then
                let '(q1, d1) := round_add_one q 0 in (q1, d1, true)
              else (q, 0, true)
            else (q, 0, false) in
          bind (set_exponent (mkDec neg q' 0) [dexp x; - dexp y; - adjust; diff])
               (fun r => Ok (r, rounded))
        end
      end
    end.

Definition quo (x y : dec) : res dec := bind (quo_ctx x y) (fun '(d, _) => Ok d).
Definition quo_exact (x y : dec) : res dec :=
  bind (quo_ctx x y) (fun '(d, rounded) => if rounded then Err ERounded else Ok d).

(* ------------------------------------------------------------------ *)
(* Cmp (decimal.go), Finite form                                       *)
(* ------------------------------------------------------------------ *)

Definition cmp_flip (neg : bool) (c : comparison) : comparison := if neg then CompOpp c else c.

Definition cmp (d x : dec) : comparison :=
  let ds := dsign d in
  let xs := dsign x in
  if ds <? xs then Lt
  else if ds >? xs then Gt
  else if (ds =? 0) && (xs =? 0) then Eq
  else
    let neg := ds =? -1 in
    if dexp d =? dexp x then cmp_flip neg (dcoef d ?= dcoef x)
    else
      let dn := num_digits (dcoef d) + dexp d in
      let xn := num_digits (dcoef x) + dexp x in
      if dn <? xn then cmp_flip neg Lt
      else if dn >? xn then cmp_flip neg Gt
      else if dexp d <? dexp x
           then cmp_flip neg (dcoef d ?= dcoef x * 10 ^ (dexp x - dexp d))
           else cmp_flip neg (dcoef d * 10 ^ (dexp d - dexp x) ?= dcoef x).

Definition equal (x y : dec) : bool := match cmp x y with Eq => true | _ => false end.

(* ------------------------------------------------------------------ *)
(* Reduce (decimal.go)                                                 *)
(* ------------------------------------------------------------------ *)

(* strip trailing zeros; fuel = number of digits bounds the number of strippable zeros *)
Fixpoint strip_zeros (fuel : nat) (c : Z) (n : Z) : Z * Z :=
  match fuel with
  | O => (c, n)
  | S f => if c mod 10 =? 0 then strip_zeros f (c / 10) (n + 1) else (c, n)
  end.

(* returns the reduced decimal and the number of zeros removed *)
Definition reduce (x : dec) : dec * Z :=
  if is_zero x then (mkDec false 0 0, 0)       (* d.SetInt64(0); nd - 1 with nd = NumDigits(0) = 1 *)
  else
    let '(c, n) := strip_zeros (Z.to_nat (num_digits (dcoef x))) (dcoef x) 0 in
    (mkDec (dneg x) c (dexp x + n), n).

(* ------------------------------------------------------------------ *)
(* String() = apd Text('f') (format.go fmtF)                           *)
(* ------------------------------------------------------------------ *)

Definition zeros (n : Z) : bytes := repeat "0"%byte (Z.to_nat n).

Definition to_string (d : dec) : bytes :=
  let sign := if dneg d then b "-" else [] in
  let digits := Z_to_dec (dcoef d) in                        (* d.Coeff.String() *)
  let len := Z.of_nat (List.length digits) in
  sign ++
  (if dexp d <? 0 then
     let left := - dexp d - len in
     if left >=? 0 then b "0." ++ zeros left ++ digits
     else
       let offset := Z.to_nat (- left) in
       firstn offset digits ++ b "." ++ skipn offset digits
   else digits ++ zeros (dexp d)).

(* ------------------------------------------------------------------ *)
(* BigInt, SdkIntTrim (dec.go)                                         *)
(* ------------------------------------------------------------------ *)

(* y, _ := x.Reduce(); z.SetString(y.String(), 10) *)
Definition big_int (x : dec) : res Z :=
  match bigint_set_string (to_string (fst (reduce x))) with
  | Some z => Ok z
  | None => Err ENonIntegral
  end.

(* big.Int.BitLen of |z| *)
Definition bit_len (z : Z) : Z := if z =? 0 then 0 else Z.log2 (Z.abs z) + 1.

Definition sdk_int_trim (x : dec) : res Z :=
  let y := fst (reduce x) in
  let r :=
    if dexp y =? 0 then dcoef y
    else if dexp y >? 0 then dcoef y * 10 ^ (dexp y)
    else Z.quot (dcoef y) (10 ^ (- dexp y)) in               (* big.Int.Quo truncates *)
  let r' := if dneg x then - r else r in
  if bit_len r' >? 256 then Err EPanic else Ok r'.           (* sdkmath.NewIntFromBigInt *)

(* ------------------------------------------------------------------ *)
(* Constructors (dec.go)                                               *)
(* ------------------------------------------------------------------ *)

(* ErrInvalidDecString.Wrap(err.Error()): the result is an ErrInvalidDecString whatever the inner
   error was (so ErrInfiniteString loses its identity); the cause text is kept, hence the
   refinements ENaN / ERange survive. *)
Definition wrap_invalid (e : err) : err := match e with EInf => EParse | _ => e end.

Definition non_negative_dec_from_string (s : bytes) : res dec :=
  match parse s with
  | Err e => Err (wrap_invalid e)
  | Ok d => if is_negative d then Err EParse else Ok d
  end.

Definition non_negative_fixed_dec_from_string (s : bytes) (max_num : Z) : res dec :=
  bind (non_negative_dec_from_string s) (fun d =>
    if num_decimal_places d >? max_num then Err EPrecision else Ok d).

Definition positive_dec_from_string (s : bytes) : res dec :=
  match parse s with
  | Err e => Err (wrap_invalid e)
  | Ok d => if negb (is_positive d) then Err EParse else Ok d      (* IsFinite always holds *)
  end.

Definition positive_fixed_dec_from_string (s : bytes) (max_num : Z) : res dec :=
  bind (positive_dec_from_string s) (fun d =>
    if num_decimal_places d >? max_num then Err EPrecision else Ok d).
