(* Properties of the decimal model, part 1: value semantics, exact addition/subtraction,
   balance helpers, gated constructors, rendering, exact multiplication.
   (Part 2: DecRound.v - division, 34-digit rounding bounds, truncation.
    Part 3: DecParse.v - reference reading of decimal strings.) *)
From Coq Require Import List ZArith NArith Bool Lia QArith Qpower Qabs Strings.Byte Strings.String.
Require Import Regen.Base.Bytes Regen.Dec.Dec Regen.Dec.DecLemmas Regen.Dec.DecIface.
Import ListNotations.
Local Open Scope Z_scope.
Local Arguments b s%string_scope.

(* ------------------------------------------------------------------ *)
(* Q powers of ten                                                     *)
(* ------------------------------------------------------------------ *)

Definition q10 : Q := inject_Z 10.

Lemma q10_nz : ~ (q10 == 0)%Q.
Proof. unfold q10. intro H. discriminate H. Qed.

Lemma qpow_add a c : (q10 ^ (a + c) == q10 ^ a * q10 ^ c)%Q.
Proof. apply Qpower_plus. exact q10_nz. Qed.

Lemma qpow_pos e : (0 < q10 ^ e)%Q.
Proof. apply Qpower_0_lt. reflexivity. Qed.

Lemma qpow_inject n : 0 <= n -> (inject_Z (10 ^ n) == q10 ^ n)%Q.
Proof. intro Hn. apply Zpower_Qpower. exact Hn. Qed.

Lemma dval_eq d : dval d = (inject_Z (dint d) * q10 ^ dexp d)%Q.
Proof. reflexivity. Qed.

(* x * 10^(e-m) at scale m is x at scale e *)
Lemma scale_int x e m : m <= e -> (inject_Z (x * 10 ^ (e - m)) * q10 ^ m == inject_Z x * q10 ^ e)%Q.
Proof.
  intro H. rewrite inject_Z_mult, qpow_inject by lia.
  rewrite <- Qmult_assoc, <- qpow_add. replace (e - m + m) with e by lia. reflexivity.
Qed.

(* two scaled integers are equal as rationals when they agree at a common finer scale *)
Lemma qeq_scaled X Y e1 e2 m : m <= e1 -> m <= e2 -> X * 10 ^ (e1 - m) = Y * 10 ^ (e2 - m) ->
  (inject_Z X * q10 ^ e1 == inject_Z Y * q10 ^ e2)%Q.
Proof.
  intros H1 H2 H. rewrite <- (scale_int X e1 m H1), <- (scale_int Y e2 m H2), H. reflexivity.
Qed.

Lemma dval_sign d : (0 <= dval d)%Q <-> 0 <= dint d.
Proof.
  rewrite dval_eq. pose proof (qpow_pos (dexp d)) as Hp. split; intro H.
  - destruct (Z_lt_le_dec (dint d) 0) as [Hlt|Hge]; [|exact Hge]. exfalso.
    assert (Hn : (inject_Z (dint d) < 0)%Q) by (rewrite Zlt_Qlt in Hlt; exact Hlt).
    assert (Hm : (inject_Z (dint d) * q10 ^ dexp d < 0)%Q).
    { setoid_replace 0%Q with (0 * q10 ^ dexp d)%Q by ring. apply Qmult_lt_compat_r; assumption. }
    apply (Qlt_irrefl 0). eapply Qle_lt_trans; eassumption.
  - apply Qmult_le_0_compat; [|apply Qlt_le_weak; exact Hp].
    rewrite Zle_Qle in H. exact H.
Qed.

Lemma dval_pos d : (0 < dval d)%Q <-> 0 < dint d.
Proof.
  rewrite dval_eq. pose proof (qpow_pos (dexp d)) as Hp. split; intro H.
  - destruct (Z_lt_le_dec 0 (dint d)) as [Hlt|Hge]; [exact Hlt|]. exfalso.
    assert (Hn : (inject_Z (dint d) <= 0)%Q) by (rewrite Zle_Qle in Hge; exact Hge).
    assert (Hm : (inject_Z (dint d) * q10 ^ dexp d <= 0)%Q).
    { setoid_replace 0%Q with (0 * q10 ^ dexp d)%Q by ring. apply Qmult_le_compat_r; [exact Hn|apply Qlt_le_weak; exact Hp]. }
    apply (Qlt_irrefl 0). eapply Qlt_le_trans; eassumption.
  - apply Qmult_lt_0_compat; [|exact Hp]. rewrite Zlt_Qlt in H. exact H.
Qed.

(* ------------------------------------------------------------------ *)
(* Add / Sub are exact                                                 *)
(* ------------------------------------------------------------------ *)

Lemma round0_inv d r : round0 d = Ok r -> r = d.
Proof.
  unfold round0. intro H. apply set_exponent_inv in H. destruct H as (H1 & H2 & H3 & _).
  rewrite zsum_single in H3. destruct r, d; cbn in *; congruence.
Qed.

(* the integer content of add_gen: result at the common scale *)
Lemma add_gen_int subtract x y c : dwf x -> dwf y -> add_gen subtract x y = Ok c ->
  let e := Z.min (dexp x) (dexp y) in
  dexp c = e /\ 0 <= dcoef c /\
  dint c = dint x * 10 ^ (dexp x - e) + (if subtract then - dint y else dint y) * 10 ^ (dexp y - e).
Proof.
  unfold dwf, add_gen. intros Hx Hy H.
  destruct (Z.abs (dexp x - dexp y) >? max_exponent); [discriminate|].
  set (e := Z.min (dexp x) (dexp y)) in *.
  assert (Pa : 0 < 10 ^ (dexp x - e)) by (apply pow10_gt0; lia).
  assert (Pc : 0 < 10 ^ (dexp y - e)) by (apply pow10_gt0; lia).
  set (a := dcoef x * 10 ^ (dexp x - e)) in *. set (cc := dcoef y * 10 ^ (dexp y - e)) in *.
  assert (Ha : 0 <= a) by (subst a; nia). assert (Hc : 0 <= cc) by (subst cc; nia).
  cbv zeta.
  destruct (Bool.eqb (dneg x) (xorb (dneg y) subtract)) eqn:Es.
  - apply round0_inv in H. subst c. cbn [dexp dcoef dneg]. unfold dint. cbn [dneg dcoef].
    apply eqb_prop in Es. fold a cc.
    repeat split; [lia|].
    destruct (dneg x), (dneg y), subtract; cbn in Es; try discriminate Es; subst a cc; lia.
  - apply eqb_false_iff in Es.
    destruct (a - cc <? 0) eqn:E1; [|destruct (a - cc =? 0) eqn:E2];
      apply round0_inv in H; subst c; cbn [dexp dcoef dneg]; unfold dint; cbn [dneg dcoef];
      [apply Z.ltb_lt in E1 | apply Z.eqb_eq in E2 | apply Z.ltb_ge in E1; apply Z.eqb_neq in E2];
      (repeat split; [lia|]);
      destruct (dneg x), (dneg y), subtract; cbn in Es; try congruence; cbn [negb]; subst a cc; lia.
Qed.

Lemma add_gen_value subtract x y c : dwf x -> dwf y -> add_gen subtract x y = Ok c ->
  (dval c == dval x + (if subtract then - dval y else dval y))%Q.
Proof.
  intros Hx Hy H. destruct (add_gen_int subtract x y c Hx Hy H) as (He & _ & Hi).
  rewrite !dval_eq. rewrite He, Hi. set (e := Z.min (dexp x) (dexp y)).
  rewrite inject_Z_plus, Qmult_plus_distr_l.
  rewrite (scale_int (dint x) (dexp x) e) by (subst e; lia).
  rewrite (scale_int _ (dexp y) e) by (subst e; lia).
  destruct subtract; [rewrite inject_Z_opp; ring | reflexivity].
Qed.

Theorem add_exact a c r : dwf a -> dwf c -> add a c = Ok r -> (dval r == dval a + dval c)%Q.
Proof. intros Ha Hc H. exact (add_gen_value false a c r Ha Hc H). Qed.

Theorem sub_exact a c r : dwf a -> dwf c -> sub a c = Ok r -> (dval r == dval a - dval c)%Q.
Proof. intros Ha Hc H. exact (add_gen_value true a c r Ha Hc H). Qed.

Theorem add_wf a c r : dwf a -> dwf c -> add a c = Ok r -> dwf r.
Proof. intros Ha Hc H. destruct (add_gen_int false a c r Ha Hc H) as (_ & Hw & _). exact Hw. Qed.

Theorem sub_wf a c r : dwf a -> dwf c -> sub a c = Ok r -> dwf r.
Proof. intros Ha Hc H. destruct (add_gen_int true a c r Ha Hc H) as (_ & Hw & _). exact Hw. Qed.

(* Totality on moderate operands: with exponents within [-E, E] and coefficients of at most N
   digits, E <= 50000 and E + N <= 100000, addition and subtraction never fail. *)
Theorem add_gen_total E N subtract x y : dwf x -> dwf y ->
  0 <= E <= 50000 -> 1 <= N -> E + N <= 100000 ->
  - E <= dexp x <= E -> - E <= dexp y <= E ->
  num_digits (dcoef x) <= N -> num_digits (dcoef y) <= N ->
  exists r, add_gen subtract x y = Ok r.
Proof.
  unfold dwf. intros Hx Hy HE HN HEN Hex Hey Hnx Hny. unfold add_gen.
  destruct (Z.abs (dexp x - dexp y) >? max_exponent) eqn:E0.
  { apply Z.gtb_lt in E0. unfold max_exponent in E0. lia. }
  set (e := Z.min (dexp x) (dexp y)). set (M := Z.max (dexp x) (dexp y)).
  assert (Pa : 0 < 10 ^ (dexp x - e)) by (apply pow10_gt0; lia).
  assert (Pc : 0 < 10 ^ (dexp y - e)) by (apply pow10_gt0; lia).
  set (a := dcoef x * 10 ^ (dexp x - e)). set (cc := dcoef y * 10 ^ (dexp y - e)).
  set (W := N + M - e).
  assert (HW : 1 <= W) by (subst W M e; lia).
  assert (PW : 0 < 10 ^ W) by (apply pow10_gt0; lia).
  assert (Hbound : forall c k, 0 <= c -> num_digits c <= N -> 0 <= k <= M - e -> 0 <= c * 10 ^ k < 10 ^ W).
  { intros c0 k H0 Hn Hk. assert (Pk : 0 < 10 ^ k) by (apply pow10_gt0; lia).
    destruct (Z.eq_dec c0 0) as [->|Hnz].
    - rewrite Z.mul_0_l. lia.
    - assert (Hc0 : 0 < c0) by lia. pose proof (num_digits_spec c0 Hc0) as [_ Hs].
      pose proof (num_digits_ge1 c0) as Hge.
      assert (c0 * 10 ^ k < 10 ^ (num_digits c0 + k)) by (rewrite pow10_add by lia; nia).
      assert (10 ^ (num_digits c0 + k) <= 10 ^ W) by (apply pow10_le; subst W; lia).
      split; [nia|lia]. }
  assert (Ha : 0 <= a < 10 ^ W) by (apply Hbound; [exact Hx|exact Hnx|subst e M; lia]).
  assert (Hc : 0 <= cc < 10 ^ W) by (apply Hbound; [exact Hy|exact Hny|subst e M; lia]).
  assert (H2 : 2 * 10 ^ W <= 10 ^ (W + 1)) by (rewrite pow10_succ by lia; lia).
  assert (Hfin : forall neg coef, 0 <= coef < 10 ^ (W + 1) -> exists r, round0 (mkDec neg coef e) = Ok r).
  { intros neg coef Hco. eexists. unfold round0. cbn [dexp]. apply set_exponent_ok.
    - cbn [forallb]. unfold exp_in_limits, min_exponent, max_exponent.
      assert (- E <= e <= E) by (subst e; lia).
      apply andb_true_iff. split; [apply andb_true_iff; split; apply Z.leb_le; lia|reflexivity].
    - rewrite zsum_single. cbn [dcoef].
      assert (Hn : num_digits coef <= W + 1) by (apply num_digits_le; [exact Hco|lia]).
      pose proof (num_digits_ge1 coef).
      assert (- E <= e <= E) by (subst e; lia). assert (M <= E) by (subst M; lia).
      unfold min_exponent, max_exponent. subst W. lia. }
  cbv zeta. fold e. fold a. fold cc.
  destruct (Bool.eqb (dneg x) (xorb (dneg y) subtract)).
  - apply Hfin. lia.
  - destruct (a - cc <? 0) eqn:E1; [|destruct (a - cc =? 0) eqn:E2].
    + apply Z.ltb_lt in E1. apply Hfin. lia.
    + apply Hfin. assert (0 < 10 ^ (W + 1)) by (apply pow10_gt0; lia). lia.
    + apply Z.ltb_ge in E1. apply Hfin. lia.
Qed.

(* ------------------------------------------------------------------ *)
(* Balance helpers                                                     *)
(* ------------------------------------------------------------------ *)

Lemma not_negative_nonneg d : dwf d -> is_negative d = false -> 0 <= dint d.
Proof.
  unfold dwf, is_negative, is_zero, dint. intros Hw Hn. destruct (dneg d); [|exact Hw].
  cbn in Hn. apply negb_false_iff in Hn. apply Z.eqb_eq in Hn. lia.
Qed.

Theorem safe_sub_nonneg a c r : dwf a -> dwf c -> safe_sub_balance a c = Ok r ->
  (0 <= dval r)%Q /\ (dval r == dval a - dval c)%Q.
Proof.
  unfold safe_sub_balance, bind. intros Ha Hc H.
  destruct (add_gen true a c) as [z|] eqn:E; [|discriminate]. cbv beta iota in H.
  destruct (is_negative z) eqn:En; [discriminate|]. injection H as <-.
  destruct (add_gen_int true a c z Ha Hc E) as (_ & Hw & _).
  split; [apply dval_sign; apply not_negative_nonneg; assumption|].
  exact (add_gen_value true a c z Ha Hc E).
Qed.

Theorem sub_non_negative_nonneg a c r : dwf a -> dwf c -> sub_non_negative a c = Ok r ->
  (0 <= dval r)%Q /\ (dval r == dval a - dval c)%Q.
Proof. exact (safe_sub_nonneg a c r). Qed.

Theorem safe_add_value a c r : dwf a -> dwf c -> safe_add_balance a c = Ok r ->
  (0 <= dval a)%Q /\ (0 <= dval c)%Q /\ (0 <= dval r)%Q /\ (dval r == dval a + dval c)%Q.
Proof.
  unfold safe_add_balance. intros Ha Hc H.
  destruct (is_negative a || is_negative c) eqn:En; [discriminate|].
  apply orb_false_iff in En. destruct En as [En1 En2].
  pose proof (add_gen_value false a c r Ha Hc H) as Hv.
  assert (H1 : (0 <= dval a)%Q) by (apply dval_sign; apply not_negative_nonneg; assumption).
  assert (H2 : (0 <= dval c)%Q) by (apply dval_sign; apply not_negative_nonneg; assumption).
  repeat split; try assumption. rewrite Hv.
  setoid_replace 0%Q with (0 + 0)%Q by ring. apply Qplus_le_compat; assumption.
Qed.

(* a failed balance subtraction with ENegative really was an overdraft *)
Theorem safe_sub_negative_error a c : dwf a -> dwf c -> safe_sub_balance a c = Err ENegative ->
  (dval a < dval c)%Q.
Proof.
  unfold safe_sub_balance, bind. intros Ha Hc H.
  destruct (add_gen true a c) as [z|e] eqn:E; cbv beta iota in H.
  - destruct (is_negative z) eqn:En; [|discriminate].
    pose proof (add_gen_value true a c z Ha Hc E) as Hv.
    destruct (add_gen_int true a c z Ha Hc E) as (_ & Hw & _).
    assert (Hlt : (dval z < 0)%Q).
    { apply Qnot_le_lt. intro Hge. apply dval_sign in Hge.
      unfold is_negative, is_zero in En. apply andb_true_iff in En. destruct En as [N1 N2].
      apply negb_true_iff in N2. apply Z.eqb_neq in N2. unfold dint in Hge. rewrite N1 in Hge.
      unfold dwf in Hw. lia. }
    rewrite Hv in Hlt. apply (Qplus_lt_l _ _ (- dval c)).
    setoid_replace (dval c + - dval c)%Q with 0%Q by ring. exact Hlt.
  - injection H as ->. unfold add_gen in E. destruct (_ >? _); [discriminate|]. cbv zeta in E.
    destruct (Bool.eqb _ _); [|destruct (_ <? _); [|destruct (_ =? _)]];
      unfold round0, set_exponent in E; destruct (forallb _ _); try (destruct (_ || _)); congruence.
Qed.

(* ------------------------------------------------------------------ *)
(* Gated constructors                                                  *)
(* ------------------------------------------------------------------ *)

Theorem nonneg_gate s d : non_negative_dec_from_string s = Ok d -> (0 <= dval d)%Q.
Proof.
  intro H. apply non_negative_inv in H. destruct H as [Hp Hn].
  apply dval_sign. apply not_negative_nonneg; [eapply parse_wf; exact Hp|exact Hn].
Qed.

Theorem positive_gate s d : positive_dec_from_string s = Ok d -> (0 < dval d)%Q.
Proof.
  intro H. apply positive_inv in H. destruct H as [Hp Hn]. pose proof (parse_wf _ _ Hp) as Hw.
  apply dval_pos. unfold is_positive, is_zero in Hn. apply andb_true_iff in Hn. destruct Hn as [N1 N2].
  apply negb_true_iff in N1. apply negb_true_iff in N2. apply Z.eqb_neq in N2.
  unfold dint. rewrite N1. lia.
Qed.

Theorem fixed_gate s p d : non_negative_fixed_dec_from_string s p = Ok d ->
  (0 <= dval d)%Q /\ - dexp d <= p.
Proof.
  intro H. pose proof (nnfixed_ok s p d H) as (_ & _ & Hp). split; [|lia].
  unfold non_negative_fixed_dec_from_string, bind in H.
  destruct (non_negative_dec_from_string s) as [d0|] eqn:E; [|discriminate].
  destruct (num_decimal_places d0 >? p); [discriminate|]. injection H as <-.
  eapply nonneg_gate; exact E.
Qed.

Theorem positive_fixed_gate s p d : positive_fixed_dec_from_string s p = Ok d ->
  (0 < dval d)%Q /\ - dexp d <= p.
Proof.
  intro H. pose proof (posfixed_ok s p d H) as (_ & _ & Hp). split; [|lia].
  unfold positive_fixed_dec_from_string, bind in H.
  destruct (positive_dec_from_string s) as [d0|] eqn:E; [|discriminate].
  destruct (num_decimal_places d0 >? p); [discriminate|]. injection H as <-.
  eapply positive_gate; exact E.
Qed.

(* a value admitted with precision p is a whole number of 10^-p units *)
Theorem fixed_gate_units s p d : non_negative_fixed_dec_from_string s p = Ok d ->
  (dval d == inject_Z (units p d) * q10 ^ (- p))%Q /\ 0 <= units p d.
Proof.
  intro H. pose proof (nnfixed_ok s p d H) as (Hw & Hz & Hp). split.
  - unfold units. rewrite dval_eq. symmetry. apply (qeq_scaled _ _ _ _ (- p)); try lia.
    replace (- p - - p) with 0 by lia. replace (dexp d - - p) with (dexp d + p) by lia.
    rewrite Z.pow_0_r. ring.
  - unfold units, dint. assert (0 < 10 ^ (dexp d + p)) by (apply pow10_gt0; lia).
    destruct (dneg d); [rewrite (Hz eq_refl); lia | nia].
Qed.

(* ------------------------------------------------------------------ *)
(* Rendering                                                           *)
(* ------------------------------------------------------------------ *)

Lemma reparsed_value d : (dval (reparsed d) == dval d)%Q.
Proof.
  unfold reparsed. destruct (dexp d <=? 0) eqn:E; [reflexivity|]. apply Z.leb_gt in E.
  rewrite !dval_eq. cbn [dexp]. unfold dint. cbn [dneg dcoef].
  apply (qeq_scaled _ _ _ _ 0); try lia.
  rewrite !Z.sub_0_r, Z.pow_0_r. destruct (dneg d); ring.
Qed.

(* rendering then re-parsing gives the same number *)
Theorem print_parse d : dwf d -> reparse_ok d ->
  exists d', parse (to_string d) = Ok d' /\ (dval d' == dval d)%Q.
Proof.
  intros Hw Hok. exists (reparsed d). split; [apply parse_to_string_gen; assumption|apply reparsed_value].
Qed.

(* reparse_ok holds for every value whose exponent and size are moderate *)
Lemma reparse_ok_moderate d : dwf d -> -100000 <= dexp d <= 50000 -> dcoef d < 10 ^ 50000 -> reparse_ok d.
Proof.
  unfold dwf, reparse_ok. intros Hw He Hc.
  assert (Hn : num_digits (dcoef d) <= 50000) by (apply num_digits_le; [split; assumption|clear; lia]).
  clear Hc. pose proof (num_digits_ge1 (dcoef d)) as Hge.
  destruct (dexp d <=? 0) eqn:E; unfold min_exponent, max_exponent.
  - apply Z.leb_le in E. lia.
  - apply Z.leb_gt in E. destruct (Z.eq_dec (dcoef d) 0) as [Hz|Hnz].
    + rewrite Hz, Z.mul_0_l, num_digits_0. lia.
    + rewrite num_digits_mul_pow10 by lia. lia.
Qed.

Definition plain_byte (c : byte) : bool := is_digit c || Byte.eqb c "."%byte || Byte.eqb c "-"%byte.

Lemma plain_digits s : forallb is_digit s = true -> forallb plain_byte s = true.
Proof.
  induction s as [|c r IH]; [reflexivity|]. cbn [forallb]. intro H.
  apply andb_true_iff in H. destruct H as [Hc Hr]. unfold plain_byte at 1. rewrite Hc, (IH Hr). reflexivity.
Qed.

Lemma to_string_bytes d : dwf d -> forallb plain_byte (to_string d) = true.
Proof.
  intro Hw. destruct (Z_to_dec_spec (dcoef d) Hw) as (_ & Hall & _).
  unfold to_string. rewrite forallb_app. apply andb_true_iff. split.
  - destruct (dneg d); reflexivity.
  - destruct (dexp d <? 0).
    + destruct (_ >=? 0).
      * rewrite !forallb_app. rewrite (plain_digits _ (zeros_all_digits _)), (plain_digits _ Hall). reflexivity.
      * rewrite !forallb_app. rewrite (plain_digits _ (forallb_firstn _ _ _ Hall)).
        rewrite (plain_digits _ (forallb_skipn _ _ _ Hall)). reflexivity.
    + rewrite forallb_app. rewrite (plain_digits _ Hall), (plain_digits _ (zeros_all_digits _)). reflexivity.
Qed.

(* String() is plain notation: only '-', digits and '.'; in particular no exponent marker *)
Theorem to_string_plain d : dwf d ->
  ~ In "e"%byte (to_string d) /\ ~ In "E"%byte (to_string d) /\ ~ In "+"%byte (to_string d).
Proof.
  intro Hw. pose proof (to_string_bytes d Hw) as H. rewrite forallb_forall in H.
  repeat split; intro Hin; apply H in Hin; discriminate Hin.
Qed.

(* ------------------------------------------------------------------ *)
(* Exact multiplication                                                *)
(* ------------------------------------------------------------------ *)

Lemma zsum_pair x y : zsum [x; y] = x + y.
Proof. unfold zsum. cbn [fold_left]. lia. Qed.

Lemma dint_mul x y : (if xorb (dneg x) (dneg y) then - (dcoef x * dcoef y) else dcoef x * dcoef y) = dint x * dint y.
Proof. unfold dint. destruct (dneg x), (dneg y); cbn [xorb]; ring. Qed.

Theorem mul_exact_value a c r : mul_exact a c = Ok r -> (dval r == dval a * dval c)%Q.
Proof.
  unfold mul_exact, mul_ctx, bind. intro H.
  destruct (set_exponent _ [dexp a; dexp c]) as [d|] eqn:E1; [|discriminate].
  apply set_exponent_inv in E1. destruct E1 as (N1 & C1 & X1 & _). cbn [dneg dcoef] in N1, C1.
  rewrite zsum_pair in X1.
  unfold round34 in H.
  destruct (negb (is_zero d) && _); [discriminate|].
  destruct (num_digits (dcoef d) - precision128 >? 0).
  - destruct (_ >? max_exponent); [discriminate|].
    destruct (if dcoef d mod _ =? 0 then _ else _) as [y' diff'].
    unfold bind in H. destruct (set_exponent _ _); discriminate.
  - unfold bind in H. destruct (set_exponent d [dexp d; 0]) as [r0|] eqn:E2; [|discriminate].
    injection H as <-. apply set_exponent_inv in E2. destruct E2 as (N2 & C2 & X2 & _).
    rewrite zsum_pair in X2.
    rewrite !dval_eq. rewrite X2, X1, Z.add_0_r. rewrite qpow_add.
    assert (Hi : dint r0 = dint a * dint c).
    { unfold dint at 1. rewrite N2, C2, N1, C1. apply dint_mul. }
    rewrite Hi, inject_Z_mult. ring.
Qed.

(* ------------------------------------------------------------------ *)
(* Examples                                                            *)
(* ------------------------------------------------------------------ *)

Definition dq (neg : bool) (c e : Z) : dec := mkDec neg c e.

Example add_exact_ex :
  add (dq false 105 (-1)) (dq true 25 (-2)) = Ok (dq false 1025 (-2)) /\
  (dval (dq false 1025 (-2)) == dval (dq false 105 (-1)) + dval (dq true 25 (-2)))%Q.
Proof. split; [vm_compute; reflexivity|]. apply add_exact; [cbv; discriminate|cbv; discriminate|vm_compute; reflexivity]. Qed.

Example sub_exact_ex : sub (dq false 1 0) (dq false 1 (-6)) = Ok (dq false 999999 (-6)).
Proof. vm_compute. reflexivity. Qed.

Example safe_sub_ex :
  safe_sub_balance (dq false 1005 (-2)) (dq false 5 (-2)) = Ok (dq false 1000 (-2)) /\
  safe_sub_balance (dq false 5 (-2)) (dq false 1005 (-2)) = Err ENegative.
Proof. split; vm_compute; reflexivity. Qed.

Example safe_add_ex : safe_add_balance (dq false 15 (-1)) (dq false 25 (-3)) = Ok (dq false 1525 (-3)).
Proof. vm_compute. reflexivity. Qed.

Example gates_ex :
  non_negative_dec_from_string (b "1.50") = Ok (dq false 150 (-2)) /\
  non_negative_dec_from_string (b "-1.50") = Err EParse /\
  positive_dec_from_string (b "0.000") = Err EParse /\
  non_negative_fixed_dec_from_string (b "1.1234567") 6 = Err EPrecision /\
  non_negative_fixed_dec_from_string (b "1.123456") 6 = Ok (dq false 1123456 (-6)) /\
  positive_fixed_dec_from_string (b ".-5") 6 = Err EParse.
Proof. repeat split; vm_compute; reflexivity. Qed.

Example print_parse_ex :
  to_string (dq true 0 0) = b "-0" /\ to_string (dq false 5 3) = b "5000" /\
  to_string (dq false 5 (-3)) = b "0.005" /\ to_string (dq true 12345 (-2)) = b "-123.45" /\
  parse (b "-123.45") = Ok (dq true 12345 (-2)).
Proof. repeat split; vm_compute; reflexivity. Qed.

Example mul_exact_ex :
  mul_exact (dq false 125 (-2)) (dq true 4 (-1)) = Ok (dq true 500 (-3)) /\
  mul_exact (dq false 99999999999999999 0) (dq false 999999999999999999 0) = Err ERounded.
Proof. split; vm_compute; reflexivity. Qed.
