(* Interface lemmas consumed by the ledger proofs (Ledger/Amount.v):
     parse_wf, nnfixed_ok, posfixed_ok, cmp_units, parse_to_string.
   Imports only the model Dec.v and DecLemmas.v (num_digits_spec, digit strings). *)
From Coq Require Import List ZArith NArith Bool Lia Strings.Byte.
Require Import Regen.Base.Bytes Regen.Dec.Dec Regen.Dec.DecLemmas.
Import ListNotations.
Local Open Scope Z_scope.

(* ------------------------------------------------------------------ *)
(* Inversion of parse                                                  *)
(* ------------------------------------------------------------------ *)

Ltac case_matches H :=
  repeat match type of H with
         | context [match ?x with _ => _ end] => destruct x eqn:?; try discriminate H
         | context [if ?x then _ else _] => destruct x eqn:?; try discriminate H
         end.

Lemma parse_inv s d : parse s = Ok d -> exists neg s', parse_finite neg s' = Ok d.
Proof.
  unfold parse. intro H.
  destruct (consume_prefix match s with [] => b "0" | _ :: _ => s end (b "-")) as [s1 neg].
  destruct (has_prefix (b "-") _ || has_prefix (b "+") _); [discriminate|].
  destruct (bytes_eqb _ (b "infinity") || bytes_eqb _ (b "inf")); [discriminate|].
  destruct (consume_prefix _ (b "nan")) as [s4 c1].
  destruct (consume_prefix s4 (b "snan")) as [s5 c2].
  destruct (c1 || c2).
  - destruct s5; [discriminate|]. destruct (parse_uint64_ok _); discriminate.
  - eauto.
Qed.

Lemma set_exponent_inv d xs r : set_exponent d xs = Ok r ->
  dneg r = dneg d /\ dcoef r = dcoef d /\ dexp r = zsum xs /\ forallb exp_in_limits xs = true /\
  min_exponent <= zsum xs + num_digits (dcoef d) - 1 <= max_exponent.
Proof.
  unfold set_exponent. intro H.
  destruct (forallb exp_in_limits xs); [|discriminate].
  destruct ((_ >? _) || (_ <? _)) eqn:E; [discriminate|].
  injection H as <-. cbn [dneg dcoef dexp]. apply orb_false_iff in E. destruct E as [E1 E2].
  repeat split; lia.
Qed.

Lemma parse_finite_inv neg s d : parse_finite neg s = Ok d -> dneg d = neg /\ 0 <= dcoef d.
Proof.
  unfold parse_finite, bind. intro H.
  destruct (match index_byte "e" s with Some _ => _ | None => _ end) as [[m exps]|]; [|discriminate].
  destruct (match index_byte "." m with Some _ => _ | None => _ end) as [m' exps'].
  destruct (bigint_set_string m') as [c|]; [|discriminate].
  destruct (set_exponent _ exps') as [d1|] eqn:E1; [|discriminate].
  unfold round0 in H. destruct (set_exponent d1 _) as [d2|] eqn:E2; [|discriminate].
  destruct (dcoef d2 <? 0) eqn:E3; [discriminate|]. injection H as <-.
  apply set_exponent_inv in E1. apply set_exponent_inv in E2. cbn [dneg dcoef] in *.
  apply Z.ltb_ge in E3. intuition congruence.
Qed.

(* NewDecFromString only returns well-formed values. *)
Theorem parse_wf s d : parse s = Ok d -> 0 <= dcoef d.
Proof. intro H. apply parse_inv in H. destruct H as (neg & s' & H). apply parse_finite_inv in H. tauto. Qed.

(* ------------------------------------------------------------------ *)
(* Gated constructors                                                  *)
(* ------------------------------------------------------------------ *)

Lemma non_negative_inv s d : non_negative_dec_from_string s = Ok d ->
  parse s = Ok d /\ is_negative d = false.
Proof.
  unfold non_negative_dec_from_string. destruct (parse s) as [d0|e]; [|discriminate].
  destruct (is_negative d0) eqn:E; [discriminate|]. intro H. injection H as <-. tauto.
Qed.

Lemma positive_inv s d : positive_dec_from_string s = Ok d ->
  parse s = Ok d /\ is_positive d = true.
Proof.
  unfold positive_dec_from_string. destruct (parse s) as [d0|e]; [|discriminate].
  destruct (is_positive d0) eqn:E; [|discriminate]. intro H. injection H as <-. tauto.
Qed.

Lemma num_decimal_places_le d p : (num_decimal_places d >? p) = false -> - p <= dexp d.
Proof.
  unfold num_decimal_places. destruct (dexp d >=? 0) eqn:E; intro H.
  - apply Z.geb_le in E. lia.
  - lia.
Qed.

Theorem nnfixed_ok s p d : non_negative_fixed_dec_from_string s p = Ok d ->
  0 <= dcoef d /\ (dneg d = true -> dcoef d = 0) /\ - p <= dexp d.
Proof.
  unfold non_negative_fixed_dec_from_string, bind.
  destruct (non_negative_dec_from_string s) as [d0|e] eqn:E; [|discriminate].
  destruct (num_decimal_places d0 >? p) eqn:E2; [discriminate|]. intro H. injection H as <-.
  apply non_negative_inv in E. destruct E as [Hp Hn]. split; [eapply parse_wf; exact Hp|]. split.
  - intro Hneg. unfold is_negative, is_zero in Hn. rewrite Hneg in Hn. cbn in Hn.
    apply negb_false_iff in Hn. apply Z.eqb_eq in Hn. exact Hn.
  - apply num_decimal_places_le. exact E2.
Qed.

Theorem posfixed_ok s p d : positive_fixed_dec_from_string s p = Ok d ->
  0 < dcoef d /\ dneg d = false /\ - p <= dexp d.
Proof.
  unfold positive_fixed_dec_from_string, bind.
  destruct (positive_dec_from_string s) as [d0|e] eqn:E; [|discriminate].
  destruct (num_decimal_places d0 >? p) eqn:E2; [discriminate|]. intro H. injection H as <-.
  apply positive_inv in E. destruct E as [Hp Hn]. pose proof (parse_wf _ _ Hp) as Hwf.
  unfold is_positive, is_zero in Hn. apply andb_true_iff in Hn. destruct Hn as [Hn1 Hn2].
  apply negb_true_iff in Hn1. apply negb_true_iff in Hn2. apply Z.eqb_neq in Hn2.
  repeat split; [lia | exact Hn1 | apply num_decimal_places_le; exact E2].
Qed.

(* ------------------------------------------------------------------ *)
(* Cmp agrees with the comparison of unit counts                       *)
(* ------------------------------------------------------------------ *)

(* comparison of two positive magnitudes, as Cmp does it after the sign tests *)
Definition cmp_mag (A ea C ec : Z) : comparison :=
  if ea =? ec then A ?= C
  else
    let dn := num_digits A + ea in
    let xn := num_digits C + ec in
    if dn <? xn then Lt
    else if dn >? xn then Gt
    else if ea <? ec then A ?= C * 10 ^ (ec - ea) else A * 10 ^ (ea - ec) ?= C.

Lemma digits_lt A C x y : 0 < A -> 0 < C -> 0 <= x -> 0 <= y ->
  num_digits A + x < num_digits C + y -> A * 10 ^ x < C * 10 ^ y.
Proof.
  intros HA HC Hx Hy Hlt.
  pose proof (num_digits_spec A HA) as [_ HA2]. pose proof (num_digits_spec C HC) as [HC1 _].
  pose proof (num_digits_ge1 A). pose proof (num_digits_ge1 C).
  pose proof (pow10_gt0 x Hx). pose proof (pow10_gt0 y Hy).
  assert (H1 : A * 10 ^ x < 10 ^ (num_digits A + x)) by (rewrite pow10_add by lia; nia).
  assert (H2 : 10 ^ (num_digits A + x) <= 10 ^ (num_digits C - 1 + y)) by (apply pow10_le; lia).
  assert (H3 : 10 ^ (num_digits C - 1 + y) <= C * 10 ^ y) by (rewrite pow10_add by lia; nia).
  lia.
Qed.

Lemma cmp_mag_spec A ea C ec p : 0 < A -> 0 < C -> 0 <= ea + p -> 0 <= ec + p ->
  cmp_mag A ea C ec = (A * 10 ^ (ea + p) ?= C * 10 ^ (ec + p)).
Proof.
  intros HA HC Hea Hec. unfold cmp_mag.
  pose proof (pow10_gt0 _ Hea) as Pa. pose proof (pow10_gt0 _ Hec) as Pc.
  destruct (ea =? ec) eqn:E.
  - apply Z.eqb_eq in E. subst ec. symmetry. apply Z.mul_compare_mono_r. exact Pa.
  - apply Z.eqb_neq in E. cbv zeta.
    destruct (num_digits A + ea <? num_digits C + ec) eqn:E1.
    { apply Z.ltb_lt in E1. symmetry. apply Z.compare_lt_iff. apply digits_lt; try assumption. lia. }
    destruct (num_digits A + ea >? num_digits C + ec) eqn:E2.
    { apply Z.gtb_lt in E2. symmetry. apply Z.compare_gt_iff. apply digits_lt; try assumption. lia. }
    destruct (ea <? ec) eqn:E3.
    + apply Z.ltb_lt in E3.
      replace (ec + p) with ((ec - ea) + (ea + p)) by lia. rewrite pow10_add by lia.
      rewrite Z.mul_assoc. symmetry. apply Z.mul_compare_mono_r. exact Pa.
    + apply Z.ltb_ge in E3.
      replace (ea + p) with ((ea - ec) + (ec + p)) by lia. rewrite pow10_add by lia.
      rewrite Z.mul_assoc. symmetry. apply Z.mul_compare_mono_r. exact Pc.
Qed.

Lemma cmp_same_sign neg A ea C ec :
  (if ea =? ec then cmp_flip neg (A ?= C)
   else
     if num_digits A + ea <? num_digits C + ec then cmp_flip neg Lt
     else if num_digits A + ea >? num_digits C + ec then cmp_flip neg Gt
     else if ea <? ec then cmp_flip neg (A ?= C * 10 ^ (ec - ea))
          else cmp_flip neg (A * 10 ^ (ea - ec) ?= C))
  = cmp_flip neg (cmp_mag A ea C ec).
Proof.
  unfold cmp_mag. destruct (ea =? ec); [reflexivity|]. cbv zeta.
  destruct (_ <? _); [reflexivity|]. destruct (_ >? _); [reflexivity|].
  destruct (ea <? ec); reflexivity.
Qed.

Lemma compare_opp_opp x y : (- x ?= - y) = CompOpp (x ?= y).
Proof. rewrite Z.compare_opp. apply Z.compare_antisym. Qed.

Theorem cmp_units p a c :
  0 <= dcoef a -> 0 <= dcoef c -> 0 <= dexp a + p -> 0 <= dexp c + p ->
  cmp a c = Z.compare (units p a) (units p c).
Proof.
  destruct a as [na A ea], c as [nc C ec]. cbn [dcoef dexp]. intros HA HC Hea Hec.
  pose proof (pow10_gt0 _ Hea) as Pa. pose proof (pow10_gt0 _ Hec) as Pc.
  unfold cmp. cbn [dcoef dexp]. rewrite cmp_same_sign.
  unfold units, dint, dsign, is_zero. cbn [dneg dcoef dexp].
  destruct (A =? 0) eqn:EA; destruct (C =? 0) eqn:EC;
    [apply Z.eqb_eq in EA | apply Z.eqb_eq in EA | apply Z.eqb_neq in EA | apply Z.eqb_neq in EA];
    [apply Z.eqb_eq in EC | apply Z.eqb_neq in EC | apply Z.eqb_eq in EC | apply Z.eqb_neq in EC].
  - (* both zero *)
    subst A C. cbn [Z.ltb Z.gtb Z.eqb Z.compare andb].
    destruct na, nc; cbn; reflexivity.
  - (* a zero *)
    subst A. assert (0 < C * 10 ^ (ec + p)) by nia.
    destruct na, nc; cbn [Z.opp Z.mul Z.ltb Z.gtb Z.eqb Z.compare andb];
      symmetry; first [apply Z.compare_lt_iff; lia | apply Z.compare_gt_iff; lia].
  - (* c zero *)
    subst C. assert (0 < A * 10 ^ (ea + p)) by nia.
    destruct na, nc; cbn [Z.opp Z.mul Z.ltb Z.gtb Z.eqb Z.compare andb];
      rewrite ?Z.mul_0_l; symmetry; first [apply Z.compare_lt_iff; lia | apply Z.compare_gt_iff; lia].
  - (* both non-zero *)
    assert (HA' : 0 < A) by lia. assert (HC' : 0 < C) by lia.
    assert (0 < A * 10 ^ (ea + p)) by nia. assert (0 < C * 10 ^ (ec + p)) by nia.
    rewrite (cmp_mag_spec A ea C ec p HA' HC' Hea Hec).
    destruct na, nc; cbn [Z.ltb Z.gtb Z.eqb Z.compare andb cmp_flip].
    + rewrite !Z.mul_opp_l. rewrite compare_opp_opp. reflexivity.
    + symmetry. apply Z.compare_lt_iff. lia.
    + symmetry. apply Z.compare_gt_iff. lia.
    + reflexivity.
Qed.
