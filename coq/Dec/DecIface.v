(* Interface lemmas consumed by the ledger proofs (Ledger/Amount.v):
     parse_wf, nnfixed_ok, posfixed_ok, cmp_units, parse_to_string.
   Imports only the model Dec.v and DecLemmas.v (num_digits_spec, digit strings). *)
From Coq Require Import List ZArith NArith Bool Lia Strings.Byte Strings.String.
Require Import Regen.Base.Bytes Regen.Dec.Dec Regen.Dec.DecLemmas.
Import ListNotations.
Local Open Scope Z_scope.
Local Arguments b s%string_scope.

(* ------------------------------------------------------------------ *)
(* Inversion of parse                                                  *)
(* ------------------------------------------------------------------ *)

Ltac case_matches H :=
  repeat match type of H with
         | context [match ?x with _ => _ end] => destruct x eqn:?; try discriminate H
         | context [if ?x then _ else _] => destruct x eqn:?; try discriminate H
         end.

Lemma parse_inv s d : parse s = Ok d -> exists neg s', parse_finite neg s' = Ok d.
Proof.
  unfold parse. intro H.
  destruct (has_prefix (b ".+") _ || has_prefix (b ".-") _); [discriminate|].
  destruct (consume_prefix match s with [] => b "0" | _ :: _ => s end (b "-")) as [s1 neg].
  destruct (has_prefix (b "-") _ || has_prefix (b "+") _); [discriminate|].
  destruct (bytes_eqb _ (b "infinity") || bytes_eqb _ (b "inf")); [discriminate|].
  destruct (consume_prefix _ (b "nan")) as [s4 c1].
  destruct (consume_prefix s4 (b "snan")) as [s5 c2].
  destruct (c1 || c2).
  - destruct s5; [discriminate|]. destruct (parse_uint64_ok _); discriminate.
  - eauto.
Qed.

Lemma set_exponent_inv d xs r : set_exponent d xs = Ok r ->
  dneg r = dneg d /\ dcoef r = dcoef d /\ dexp r = zsum xs /\ forallb exp_in_limits xs = true /\
  min_exponent <= zsum xs + num_digits (dcoef d) - 1 <= max_exponent.
Proof.
  unfold set_exponent. intro H.
  destruct (forallb exp_in_limits xs); [|discriminate].
  destruct ((_ >? _) || (_ <? _)) eqn:E; [discriminate|].
  injection H as <-. cbn [dneg dcoef dexp]. apply orb_false_iff in E. destruct E as [E1 E2].
  repeat split; lia.
Qed.

Lemma parse_finite_inv neg s d : parse_finite neg s = Ok d -> dneg d = neg /\ 0 <= dcoef d.
Proof.
  unfold parse_finite, bind. intro H.
  destruct (match index_byte "e"%byte s with Some _ => _ | None => _ end) as [[m exps]|]; [|discriminate].
  destruct (match index_byte "."%byte m with Some _ => _ | None => _ end) as [m' exps'].
  destruct (bigint_set_string m') as [c|]; [|discriminate].
  destruct (set_exponent _ exps') as [d1|] eqn:E1; [|discriminate].
  unfold round0 in H. destruct (set_exponent d1 _) as [d2|] eqn:E2; [|discriminate].
  destruct (dcoef d2 <? 0) eqn:E3; [discriminate|]. injection H as <-.
  apply set_exponent_inv in E1. apply set_exponent_inv in E2. cbn [dneg dcoef] in *.
  apply Z.ltb_ge in E3. intuition congruence.
Qed.

(* NewDecFromString only returns well-formed values. *)
Theorem parse_wf s d : parse s = Ok d -> 0 <= dcoef d.
Proof. intro H. apply parse_inv in H. destruct H as (neg & s' & H). apply parse_finite_inv in H. tauto. Qed.

(* ------------------------------------------------------------------ *)
(* Gated constructors                                                  *)
(* ------------------------------------------------------------------ *)

Lemma non_negative_inv s d : non_negative_dec_from_string s = Ok d ->
  parse s = Ok d /\ is_negative d = false.
Proof.
  unfold non_negative_dec_from_string. destruct (parse s) as [d0|e]; [|discriminate].
  destruct (is_negative d0) eqn:E; [discriminate|]. intro H. injection H as <-. tauto.
Qed.

Lemma positive_inv s d : positive_dec_from_string s = Ok d ->
  parse s = Ok d /\ is_positive d = true.
Proof.
  unfold positive_dec_from_string. destruct (parse s) as [d0|e]; [|discriminate].
  destruct (is_positive d0) eqn:E; [|discriminate]. intro H. injection H as <-. tauto.
Qed.

Lemma num_decimal_places_le d p : (num_decimal_places d >? p) = false -> - p <= dexp d.
Proof.
  unfold num_decimal_places. destruct (dexp d >=? 0) eqn:E; intro H.
  - apply Z.geb_le in E. lia.
  - lia.
Qed.

Theorem nnfixed_ok s p d : non_negative_fixed_dec_from_string s p = Ok d ->
  0 <= dcoef d /\ (dneg d = true -> dcoef d = 0) /\ - p <= dexp d.
Proof.
  unfold non_negative_fixed_dec_from_string, bind.
  destruct (non_negative_dec_from_string s) as [d0|e] eqn:E; [|discriminate].
  destruct (num_decimal_places d0 >? p) eqn:E2; [discriminate|]. intro H. injection H as <-.
  apply non_negative_inv in E. destruct E as [Hp Hn]. split; [eapply parse_wf; exact Hp|]. split.
  - intro Hneg. unfold is_negative, is_zero in Hn. rewrite Hneg in Hn. cbn in Hn.
    apply negb_false_iff in Hn. apply Z.eqb_eq in Hn. exact Hn.
  - apply num_decimal_places_le. exact E2.
Qed.

Theorem posfixed_ok s p d : positive_fixed_dec_from_string s p = Ok d ->
  0 < dcoef d /\ dneg d = false /\ - p <= dexp d.
Proof.
  unfold positive_fixed_dec_from_string, bind.
  destruct (positive_dec_from_string s) as [d0|e] eqn:E; [|discriminate].
  destruct (num_decimal_places d0 >? p) eqn:E2; [discriminate|]. intro H. injection H as <-.
  apply positive_inv in E. destruct E as [Hp Hn]. pose proof (parse_wf _ _ Hp) as Hwf.
  unfold is_positive, is_zero in Hn. apply andb_true_iff in Hn. destruct Hn as [Hn1 Hn2].
  apply negb_true_iff in Hn1. apply negb_true_iff in Hn2. apply Z.eqb_neq in Hn2.
  repeat split; [lia | exact Hn1 | apply num_decimal_places_le; exact E2].
Qed.

(* ------------------------------------------------------------------ *)
(* Cmp agrees with the comparison of unit counts                       *)
(* ------------------------------------------------------------------ *)

(* comparison of two positive magnitudes, as Cmp does it after the sign tests *)
Definition cmp_mag (A ea C ec : Z) : comparison :=
  if ea =? ec then A ?= C
  else
    let dn := num_digits A + ea in
    let xn := num_digits C + ec in
    if dn <? xn then Lt
    else if dn >? xn then Gt
    else if ea <? ec then A ?= C * 10 ^ (ec - ea) else A * 10 ^ (ea - ec) ?= C.

Lemma digits_lt A C x y : 0 < A -> 0 < C -> 0 <= x -> 0 <= y ->
  num_digits A + x < num_digits C + y -> A * 10 ^ x < C * 10 ^ y.
Proof.
  intros HA HC Hx Hy Hlt.
  pose proof (num_digits_spec A HA) as [_ HA2]. pose proof (num_digits_spec C HC) as [HC1 _].
  pose proof (num_digits_ge1 A) as GA. pose proof (num_digits_ge1 C) as GC.
  pose proof (pow10_gt0 x Hx) as Px. pose proof (pow10_gt0 y Hy) as Py.
  assert (H1 : A * 10 ^ x < 10 ^ (num_digits A + x)) by (rewrite pow10_add by lia; nia).
  assert (H2 : 10 ^ (num_digits A + x) <= 10 ^ (num_digits C - 1 + y)) by (apply pow10_le; lia).
  assert (H3 : 10 ^ (num_digits C - 1 + y) <= C * 10 ^ y) by (rewrite pow10_add by lia; nia).
  lia.
Qed.

Lemma cmp_mag_spec A ea C ec p : 0 < A -> 0 < C -> 0 <= ea + p -> 0 <= ec + p ->
  cmp_mag A ea C ec = (A * 10 ^ (ea + p) ?= C * 10 ^ (ec + p)).
Proof.
  intros HA HC Hea Hec. unfold cmp_mag.
  pose proof (pow10_gt0 _ Hea) as Pa. pose proof (pow10_gt0 _ Hec) as Pc.
  destruct (ea =? ec) eqn:E.
  - apply Z.eqb_eq in E. subst ec. apply Zmult_compare_compat_r. lia.
  - apply Z.eqb_neq in E. cbv zeta.
    destruct (num_digits A + ea <? num_digits C + ec) eqn:E1.
    { apply Z.ltb_lt in E1. symmetry. apply Z.compare_lt_iff. apply digits_lt; try assumption. clear - E1. lia. }
    destruct (num_digits A + ea >? num_digits C + ec) eqn:E2.
    { apply Z.gtb_lt in E2. symmetry. apply Z.compare_gt_iff. apply digits_lt; try assumption. clear - E2. lia. }
    destruct (ea <? ec) eqn:E3.
    + apply Z.ltb_lt in E3.
      replace (ec + p) with ((ec - ea) + (ea + p)) by lia. rewrite (pow10_add (ec - ea) (ea + p)) by lia.
      rewrite Z.mul_assoc. apply Zmult_compare_compat_r. lia.
    + apply Z.ltb_ge in E3.
      replace (ea + p) with ((ea - ec) + (ec + p)) by lia. rewrite (pow10_add (ea - ec) (ec + p)) by lia.
      rewrite Z.mul_assoc. apply Zmult_compare_compat_r. lia.
Qed.

Lemma cmp_same_sign neg A ea C ec :
  (if ea =? ec then cmp_flip neg (A ?= C)
   else
     if num_digits A + ea <? num_digits C + ec then cmp_flip neg Lt
     else if num_digits A + ea >? num_digits C + ec then cmp_flip neg Gt
     else if ea <? ec then cmp_flip neg (A ?= C * 10 ^ (ec - ea))
          else cmp_flip neg (A * 10 ^ (ea - ec) ?= C))
  = cmp_flip neg (cmp_mag A ea C ec).
Proof.
  unfold cmp_mag. destruct (ea =? ec); [reflexivity|]. cbv zeta.
  destruct (_ <? _); [reflexivity|]. destruct (_ >? _); [reflexivity|].
  destruct (ea <? ec); reflexivity.
Qed.

Lemma compare_opp_opp x y : (- x ?= - y) = CompOpp (x ?= y).
Proof. rewrite Z.compare_opp. apply Z.compare_antisym. Qed.

Theorem cmp_units p a c :
  0 <= dcoef a -> 0 <= dcoef c -> 0 <= dexp a + p -> 0 <= dexp c + p ->
  cmp a c = Z.compare (units p a) (units p c).
Proof.
  destruct a as [na A ea], c as [nc C ec]. cbn [dcoef dexp]. intros HA HC Hea Hec.
  pose proof (pow10_gt0 _ Hea) as Pa. pose proof (pow10_gt0 _ Hec) as Pc.
  unfold cmp. cbn [dcoef dexp]. rewrite cmp_same_sign.
  unfold units, dint, dsign, is_zero. cbn [dneg dcoef dexp].
  destruct (A =? 0) eqn:EA; destruct (C =? 0) eqn:EC;
    [apply Z.eqb_eq in EA | apply Z.eqb_eq in EA | apply Z.eqb_neq in EA | apply Z.eqb_neq in EA];
    [apply Z.eqb_eq in EC | apply Z.eqb_neq in EC | apply Z.eqb_eq in EC | apply Z.eqb_neq in EC].
  - (* both zero *)
    subst A C.
    destruct na, nc; remember (_ * 10 ^ (ea + p) ?= _ * 10 ^ (ec + p)) as rhs eqn:Hr; cbn; subst rhs;
      symmetry; apply Z.compare_eq_iff; lia.
  - (* a zero *)
    subst A. assert (0 < C * 10 ^ (ec + p)) by nia.
    destruct na, nc; remember (_ * 10 ^ (ea + p) ?= _ * 10 ^ (ec + p)) as rhs eqn:Hr; cbn; subst rhs;
      symmetry; first [apply Z.compare_lt_iff; lia | apply Z.compare_gt_iff; lia].
  - (* c zero *)
    subst C. assert (0 < A * 10 ^ (ea + p)) by nia.
    destruct na, nc; remember (_ * 10 ^ (ea + p) ?= _ * 10 ^ (ec + p)) as rhs eqn:Hr; cbn; subst rhs;
      symmetry; first [apply Z.compare_lt_iff; lia | apply Z.compare_gt_iff; lia].
  - (* both non-zero *)
    assert (HA' : 0 < A) by lia. assert (HC' : 0 < C) by lia.
    assert (0 < A * 10 ^ (ea + p)) by nia. assert (0 < C * 10 ^ (ec + p)) by nia.
    rewrite (cmp_mag_spec A ea C ec p HA' HC' Hea Hec).
    remember (A * 10 ^ (ea + p) ?= C * 10 ^ (ec + p)) as m eqn:Hm.
    destruct na, nc; remember (_ * 10 ^ (ea + p) ?= _ * 10 ^ (ec + p)) as rhs eqn:Hr; cbn; subst rhs m.
    + rewrite !Z.mul_opp_l. rewrite compare_opp_opp. reflexivity.
    + symmetry. apply Z.compare_lt_iff. lia.
    + symmetry. apply Z.compare_gt_iff. lia.
    + reflexivity.
Qed.

(* ------------------------------------------------------------------ *)
(* Rendering then re-parsing                                           *)
(* ------------------------------------------------------------------ *)

(* bytes that String() can produce after the sign *)
Definition plainb (c : byte) : bool := is_digit c || Byte.eqb c "."%byte.

Lemma is_digit_cases f : is_digit f = true ->
  f = x30 \/ f = x31 \/ f = x32 \/ f = x33 \/ f = x34 \/ f = x35 \/ f = x36 \/ f = x37 \/ f = x38 \/ f = x39.
Proof. destruct f; cbn; intro H; try discriminate H; tauto. Qed.

Lemma plainb_cases f : plainb f = true -> is_digit f = true \/ f = "."%byte.
Proof.
  unfold plainb. intro H. apply orb_true_iff in H. destruct H as [H|H]; [left; exact H|right].
  apply byte_eqb_eq. exact H.
Qed.

Lemma go_to_lower_plain s : forallb plainb s = true -> go_to_lower s = s.
Proof.
  induction s as [|c r IH]; [reflexivity|]. cbn [forallb]. intro H.
  apply andb_true_iff in H. destruct H as [Hc Hr]. specialize (IH Hr).
  apply plainb_cases in Hc. destruct Hc as [Hc|Hc].
  - apply is_digit_cases in Hc.
    repeat (destruct Hc as [Hc|Hc]; [subst c; cbn [go_to_lower]; rewrite IH; reflexivity|]).
    subst c; cbn [go_to_lower]; rewrite IH; reflexivity.
  - subst c; cbn [go_to_lower]; rewrite IH; reflexivity.
Qed.

Lemma digits_plain s : forallb is_digit s = true -> forallb plainb s = true.
Proof.
  induction s as [|c r IH]; [reflexivity|]. cbn [forallb]. intro H.
  apply andb_true_iff in H. destruct H as [Hc Hr]. unfold plainb at 1. rewrite Hc, (IH Hr). reflexivity.
Qed.

Lemma index_byte_none c s : is_digit c = false -> forallb is_digit s = true -> index_byte c s = None.
Proof.
  intros Hc. induction s as [|a r IH]; [reflexivity|]. cbn [forallb index_byte]. intro H.
  apply andb_true_iff in H. destruct H as [Ha Hr].
  destruct (Byte.eqb a c) eqn:E.
  - apply byte_eqb_eq in E. subst a. congruence.
  - rewrite (IH Hr). reflexivity.
Qed.

Lemma index_byte_app c s t : is_digit c = false -> forallb is_digit s = true ->
  index_byte c (s ++ c :: t) = Some (List.length s).
Proof.
  intros Hc. induction s as [|a r IH]; cbn [forallb index_byte app List.length]; intro H.
  - rewrite (proj2 (byte_eqb_eq c c) eq_refl). reflexivity.
  - apply andb_true_iff in H. destruct H as [Ha Hr].
    destruct (Byte.eqb a c) eqn:E.
    + apply byte_eqb_eq in E. subst a. congruence.
    + rewrite (IH Hr). reflexivity.
Qed.

Lemma index_byte_e_plain s : forallb plainb s = true -> index_byte "e"%byte s = None.
Proof.
  induction s as [|a r IH]; [reflexivity|]. cbn [forallb index_byte]. intro H.
  apply andb_true_iff in H. destruct H as [Ha Hr]. rewrite (IH Hr).
  destruct (Byte.eqb a "e"%byte) eqn:E; [|reflexivity].
  apply byte_eqb_eq in E. subst a. discriminate Ha.
Qed.

Lemma firstn_len_app (s t : bytes) : firstn (List.length s) (s ++ t) = s.
Proof. induction s as [|a r IH]; cbn; [destruct t; reflexivity | rewrite IH; reflexivity]. Qed.

Lemma skipn_S_len_app (s : bytes) c t : skipn (S (List.length s)) (s ++ c :: t) = t.
Proof. induction s as [|a r IH]; cbn; [reflexivity | exact IH]. Qed.

Lemma bigint_digits s : s <> [] -> forallb is_digit s = true ->
  bigint_set_string s = Some (dec_digits_val s).
Proof.
  destruct s as [|c r]; [congruence|]. intros _ H. pose proof H as H0.
  cbn [forallb] in H. apply andb_true_iff in H. destruct H as [Hc Hr].
  unfold bigint_set_string, all_digits. apply is_digit_cases in Hc.
  repeat (destruct Hc as [Hc|Hc]; [subst c; rewrite H0; reflexivity|]).
  subst c; rewrite H0; reflexivity.
Qed.

Definition finish (neg : bool) (c : Z) (xs : list Z) : res dec :=
  bind (set_exponent (mkDec neg c 0) xs) (fun d =>
  bind (round0 d) (fun d' => if dcoef d' <? 0 then Err EParse else Ok d')).

Lemma pf_nopoint neg ds : ds <> [] -> forallb is_digit ds = true ->
  parse_finite neg ds = finish neg (dec_digits_val ds) [].
Proof.
  intros Hne Hd. unfold parse_finite.
  rewrite (index_byte_none "e"%byte ds eq_refl Hd). cbn [bind].
  rewrite (index_byte_none "."%byte ds eq_refl Hd).
  rewrite (bigint_digits ds Hne Hd). reflexivity.
Qed.

Lemma pf_point neg ip fp : forallb is_digit ip = true -> forallb is_digit fp = true -> ip ++ fp <> [] ->
  parse_finite neg (ip ++ "."%byte :: fp) =
  finish neg (dec_digits_val (ip ++ fp)) [- Z.of_nat (List.length fp)].
Proof.
  intros Hi Hf Hne. unfold parse_finite.
  rewrite index_byte_e_plain.
  2:{ rewrite forallb_app. rewrite (digits_plain ip Hi). cbn [forallb]. rewrite (digits_plain fp Hf). reflexivity. }
  cbn [bind]. rewrite (index_byte_app "."%byte ip fp eq_refl Hi).
  rewrite firstn_len_app, skipn_S_len_app.
  rewrite bigint_digits; [|exact Hne|rewrite forallb_app, Hi, Hf; reflexivity].
  cbn [app]. replace (Z.of_nat (List.length (ip ++ "."%byte :: fp)) - Z.of_nat (List.length ip) - 1) with (Z.of_nat (List.length fp)).
  - reflexivity.
  - rewrite app_length. cbn [List.length]. lia.
Qed.

Lemma eqb_nondigit_digit c f : is_digit c = false -> is_digit f = true -> Byte.eqb c f = false.
Proof.
  intros Hc Hf. destruct (Byte.eqb c f) eqn:E; [|reflexivity]. apply byte_eqb_eq in E. congruence.
Qed.

Lemma parse_plain (neg : bool) f rest : is_digit f = true -> forallb plainb rest = true ->
  parse ((if neg then b "-" else []) ++ f :: rest) = parse_finite neg (f :: rest).
Proof.
  intros Hf Hr. pose proof (go_to_lower_plain rest Hr) as Hl. apply is_digit_cases in Hf.
  assert (G : parse ((if neg then b "-" else []) ++ f :: rest) = parse_finite neg (f :: go_to_lower rest)).
  { repeat (destruct Hf as [Hf|Hf]; [subst f; destruct neg; reflexivity|]).
    subst f; destruct neg; reflexivity. }
  rewrite G, Hl. reflexivity.
Qed.

Lemma zsum_single x : zsum [x] = x.
Proof. unfold zsum. cbn [fold_left]. apply Z.add_0_l. Qed.

Lemma set_exponent_ok d xs : forallb exp_in_limits xs = true ->
  min_exponent <= zsum xs + num_digits (dcoef d) - 1 <= max_exponent ->
  set_exponent d xs = Ok (mkDec (dneg d) (dcoef d) (zsum xs)).
Proof.
  intros Hxs Hadj. unfold set_exponent. rewrite Hxs.
  assert (E : ((zsum xs + num_digits (dcoef d) - 1 >? max_exponent) ||
               (zsum xs + num_digits (dcoef d) - 1 <? min_exponent)) = false).
  { apply orb_false_iff. split; [rewrite Z.gtb_ltb; apply Z.ltb_ge; lia | apply Z.ltb_ge; lia]. }
  rewrite E. reflexivity.
Qed.

Lemma finish_ok neg C xs : 0 <= C -> forallb exp_in_limits xs = true -> exp_in_limits (zsum xs) = true ->
  min_exponent <= zsum xs + num_digits C - 1 <= max_exponent ->
  finish neg C xs = Ok (mkDec neg C (zsum xs)).
Proof.
  intros HC Hxs Hs Hadj. unfold finish.
  rewrite set_exponent_ok; [|exact Hxs|exact Hadj]. cbn [bind dneg dcoef dexp].
  unfold round0. cbn [dexp].
  rewrite set_exponent_ok; cbn [dneg dcoef dexp forallb]; rewrite ?zsum_single.
  - cbn [bind dcoef]. destruct (C <? 0) eqn:E2; [apply Z.ltb_lt in E2; lia|reflexivity].
  - rewrite Hs. reflexivity.
  - exact Hadj.
Qed.

Lemma forallb_firstn {A} (f : A -> bool) n l : forallb f l = true -> forallb f (firstn n l) = true.
Proof.
  revert l. induction n as [|n IH]; intros [|a l]; cbn; try reflexivity. intro H.
  apply andb_true_iff in H. destruct H as [Ha Hl]. rewrite Ha, (IH l Hl). reflexivity.
Qed.

Lemma forallb_skipn {A} (f : A -> bool) n l : forallb f l = true -> forallb f (skipn n l) = true.
Proof.
  revert l. induction n as [|n IH]; intros [|a l]; cbn; try reflexivity; try (intro H; exact H). intro H.
  apply andb_true_iff in H. destruct H as [Ha Hl]. apply IH. exact Hl.
Qed.

(* what re-parsing the rendering of d yields: d itself when there is no positive exponent,
   otherwise the exponent is folded into the coefficient *)
Definition reparsed (d : dec) : dec :=
  if dexp d <=? 0 then d else mkDec (dneg d) (dcoef d * 10 ^ dexp d) 0.

(* the exponent limits under which the rendering parses again *)
Definition reparse_ok (d : dec) : Prop :=
  if dexp d <=? 0
  then min_exponent <= dexp d /\ min_exponent <= dexp d + num_digits (dcoef d) - 1 <= max_exponent
  else num_digits (dcoef d * 10 ^ dexp d) - 1 <= max_exponent.

Theorem parse_to_string_gen d : dwf d -> reparse_ok d -> parse (to_string d) = Ok (reparsed d).
Proof.
  destruct d as [neg C e]. unfold dwf, reparse_ok, reparsed. cbn [dneg dcoef dexp]. intros HC Hok.
  destruct (Z_to_dec_spec C HC) as (Hne & Hall & Hval).
  unfold to_string. cbn [dneg dcoef dexp].
  remember (Z_to_dec C) as digits eqn:Hd. clear Hd.
  destruct digits as [|f r]; [congruence|]. clear Hne.
  pose proof Hall as Hall0. cbn [forallb] in Hall. apply andb_true_iff in Hall. destruct Hall as [Hf Hr].
  change (if neg then b "-" else []) with (if neg then b "-" else ([] : bytes)).
  destruct (e <? 0) eqn:Ee.
  - (* negative exponent *)
    apply Z.ltb_lt in Ee. assert (Ele : (e <=? 0) = true) by (apply Z.leb_le; lia). rewrite Ele in *.
    destruct Hok as [Hmin Hadj].
    assert (Hlim : exp_in_limits e = true).
    { unfold exp_in_limits. apply andb_true_iff. split; apply Z.leb_le; [exact Hmin | unfold max_exponent; lia]. }
    set (len := Z.of_nat (List.length (f :: r))).
    destruct (- e - len >=? 0) eqn:El.
    + (* 0.000ddd *)
      apply Z.geb_le in El.
      change (b "0." ++ zeros (- e - len) ++ f :: r) with ("0"%byte :: [] ++ "."%byte :: (zeros (- e - len) ++ f :: r)).
      rewrite parse_plain.
      2: reflexivity.
      2:{ cbn [app forallb]. rewrite forallb_app. rewrite (digits_plain _ (zeros_all_digits _)).
          rewrite (digits_plain _ Hall0). reflexivity. }
      change ("0"%byte :: [] ++ "."%byte :: (zeros (- e - len) ++ f :: r))
        with (["0"%byte] ++ "."%byte :: (zeros (- e - len) ++ f :: r)).
      rewrite pf_point.
      2: reflexivity.
      2:{ rewrite forallb_app, zeros_all_digits, Hall0. reflexivity. }
      2: discriminate.
      rewrite !dec_digits_val_app, zeros_val, Hval.
      replace (dec_digits_val ["0"%byte]) with 0 by reflexivity. rewrite !Z.mul_0_l, !Z.add_0_l.
      replace (- Z.of_nat (List.length (zeros (- e - len) ++ f :: r))) with e.
      2:{ rewrite app_length, Nat2Z.inj_add, zeros_length by lia. fold len. lia. }
      rewrite finish_ok.
      * unfold zsum. cbn [fold_left]. rewrite Z.add_0_l. reflexivity.
      * exact HC.
      * cbn [forallb]. rewrite Hlim. reflexivity.
      * unfold zsum. cbn [fold_left]. rewrite Z.add_0_l. exact Hlim.
      * unfold zsum. cbn [fold_left]. rewrite Z.add_0_l. exact Hadj.
    + (* ddd.ddd *)
      rewrite Z.geb_leb in El. apply Z.leb_gt in El.
      set (off := Z.to_nat (- (- e - len))).
      assert (Hoff : (0 < off < List.length (f :: r))%nat) by (subst off len; lia).
      change (firstn off (f :: r) ++ b "." ++ skipn off (f :: r))
        with (firstn off (f :: r) ++ "."%byte :: skipn off (f :: r)).
      pose proof (forallb_firstn is_digit off _ Hall0) as Hfi.
      pose proof (forallb_skipn is_digit off _ Hall0) as Hsk.
      pose proof (firstn_skipn off (f :: r)) as Hfs.
      pose proof (skipn_length off (f :: r)) as Hsl.
      remember (firstn off (f :: r)) as ip eqn:Hip. remember (skipn off (f :: r)) as fp eqn:Hfp.
      assert (Hipne : ip <> []).
      { subst ip. destruct off as [|o]; [lia|]. cbn. discriminate. }
      destruct ip as [|f0 ip']; [congruence|].
      pose proof Hfi as Hfi0. cbn [forallb] in Hfi. apply andb_true_iff in Hfi. destruct Hfi as [Hf0 Hip'].
      cbn [app]. rewrite parse_plain.
      2: exact Hf0.
      2:{ rewrite forallb_app. rewrite (digits_plain _ Hip'). cbn [forallb]. rewrite (digits_plain _ Hsk). reflexivity. }
      change (f0 :: ip' ++ "."%byte :: fp) with ((f0 :: ip') ++ "."%byte :: fp).
      rewrite pf_point; [|exact Hfi0|exact Hsk|discriminate].
      rewrite Hfs, Hval.
      replace (- Z.of_nat (List.length fp)) with e by (rewrite Hsl; subst off len; lia).
      rewrite finish_ok.
      * unfold zsum. cbn [fold_left]. rewrite Z.add_0_l. reflexivity.
      * exact HC.
      * cbn [forallb]. rewrite Hlim. reflexivity.
      * unfold zsum. cbn [fold_left]. rewrite Z.add_0_l. exact Hlim.
      * unfold zsum. cbn [fold_left]. rewrite Z.add_0_l. exact Hadj.
  - (* exponent >= 0: digits followed by zeros *)
    apply Z.ltb_ge in Ee.
    change ((f :: r) ++ zeros e) with (f :: (r ++ zeros e)).
    rewrite parse_plain.
    2: exact Hf.
    2:{ rewrite forallb_app. rewrite (digits_plain _ Hr), (digits_plain _ (zeros_all_digits _)). reflexivity. }
    change (f :: (r ++ zeros e)) with ((f :: r) ++ zeros e).
    rewrite pf_nopoint; [|discriminate|rewrite forallb_app, Hall0, zeros_all_digits; reflexivity].
    rewrite dec_digits_val_app, zeros_val, Hval, zeros_length, Z.add_0_r by exact Ee.
    assert (Hz : exp_in_limits 0 = true) by reflexivity.
    destruct (e <=? 0) eqn:Ele.
    + apply Z.leb_le in Ele. assert (e = 0) by lia. subst e.
      rewrite Z.pow_0_r, Z.mul_1_r. destruct Hok as [_ Hadj].
      rewrite finish_ok; [reflexivity | exact HC | reflexivity | exact Hz | exact Hadj].
    + apply Z.leb_gt in Ele. pose proof (pow10_gt0 e Ee) as Hp.
      pose proof (num_digits_ge1 (C * 10 ^ e)) as Hge.
      rewrite finish_ok; [reflexivity | nia | reflexivity | exact Hz |].
      unfold zsum, min_exponent. cbn [fold_left]. lia.
Qed.

Lemma num_digits_le c n : 0 <= c < 10 ^ n -> 1 <= n -> num_digits c <= n.
Proof.
  intros [H0 H1] Hn. destruct (Z.eq_dec c 0) as [->|Hnz]; [rewrite num_digits_0; exact Hn|].
  assert (Hc : 0 < c) by lia. pose proof (num_digits_spec c Hc) as [Hs _].
  pose proof (num_digits_ge1 c) as Hge.
  destruct (Z_lt_le_dec n (num_digits c)) as [Hlt|Hle]; [|exact Hle].
  assert (10 ^ n <= 10 ^ (num_digits c - 1)) by (apply pow10_le; lia). lia.
Qed.

(* Rendering then re-parsing gives back the very same record when the exponent is not positive
   (true of every credit amount: those have dexp <= 0). *)
Theorem parse_to_string d : dwf d -> -100000 <= dexp d <= 0 -> dcoef d < 10 ^ 100000 ->
  parse (to_string d) = Ok d.
Proof.
  intros Hwf He Hc. rewrite parse_to_string_gen; [|exact Hwf|].
  - clear Hc. unfold reparsed. destruct (dexp d <=? 0) eqn:E; [reflexivity|apply Z.leb_gt in E; lia].
  - unfold reparse_ok. destruct (dexp d <=? 0) eqn:E; [|apply Z.leb_gt in E; clear Hc; lia].
    pose proof (num_digits_ge1 (dcoef d)) as Hge.
    assert (Hnd : num_digits (dcoef d) <= 100000) by (apply num_digits_le; [split; [exact Hwf|exact Hc]|clear; lia]).
    clear Hc. unfold min_exponent, max_exponent. lia.
Qed.

Example parse_to_string_ex :
  parse (to_string (mkDec false 1234500 (-6))) = Ok (mkDec false 1234500 (-6)) /\
  to_string (mkDec false 1234500 (-6)) = b "1.234500" /\
  parse (to_string (mkDec true 5 (-3))) = Ok (mkDec true 5 (-3)) /\
  parse (to_string (mkDec false 12 3)) = Ok (mkDec false 12000 0).
Proof. repeat split; vm_compute; reflexivity. Qed.
