(* Basic facts used by all Dec proof files: powers of ten, digit counting (num_digits_spec),
   decimal rendering of integers (Z_to_dec) and its value. *)
From Coq Require Import List ZArith NArith Bool Lia Strings.Byte.
Require Import Regen.Base.Bytes Regen.Dec.Dec.
Import ListNotations.
Local Open Scope Z_scope.

(* ------------------------------------------------------------------ *)
(* Powers of ten                                                       *)
(* ------------------------------------------------------------------ *)

Lemma pow10_pos n : 0 < 10 ^ n \/ n < 0.
Proof. destruct (Z_lt_le_dec n 0) as [Hn|Hn]; [right; exact Hn | left; apply Z.pow_pos_nonneg; lia]. Qed.

Lemma pow10_gt0 n : 0 <= n -> 0 < 10 ^ n.
Proof. intro Hn. apply Z.pow_pos_nonneg; lia. Qed.

Lemma pow10_ge1 n : 0 <= n -> 1 <= 10 ^ n.
Proof. intro Hn. pose proof (pow10_gt0 n Hn). lia. Qed.

Lemma pow10_add a c : 0 <= a -> 0 <= c -> 10 ^ (a + c) = 10 ^ a * 10 ^ c.
Proof. intros. apply Z.pow_add_r; assumption. Qed.

Lemma pow10_succ n : 0 <= n -> 10 ^ (n + 1) = 10 ^ n * 10.
Proof. intro Hn. rewrite pow10_add by lia. reflexivity. Qed.

Lemma pow10_le a c : 0 <= a <= c -> 10 ^ a <= 10 ^ c.
Proof. intros H. apply Z.pow_le_mono_r; lia. Qed.

Lemma pow10_lt a c : 0 <= a < c -> 10 ^ a < 10 ^ c.
Proof. intros H. apply Z.pow_lt_mono_r; lia. Qed.

(* ------------------------------------------------------------------ *)
(* num_digits                                                          *)
(* ------------------------------------------------------------------ *)

Lemma nd_fuel_ge1 fuel c : 1 <= nd_fuel fuel c.
Proof.
  revert c. induction fuel as [|f IH]; intro c; cbn [nd_fuel]; [lia|].
  destruct (c <? 10); [lia|]. specialize (IH (c / 10)). lia.
Qed.

Lemma nd_fuel_spec fuel : forall c, 0 < c -> c < 2 ^ Z.of_nat fuel ->
  10 ^ (nd_fuel fuel c - 1) <= c < 10 ^ nd_fuel fuel c.
Proof.
  induction fuel as [|f IH]; intros c Hc Hlt.
  - cbn in Hlt. lia.
  - cbn [nd_fuel]. destruct (c <? 10) eqn:E.
    + apply Z.ltb_lt in E. cbn. lia.
    + apply Z.ltb_ge in E.
      assert (Hq : 0 < c / 10) by (apply Z.div_str_pos; lia).
      assert (Hq2 : c / 10 < 2 ^ Z.of_nat f).
      { rewrite Nat2Z.inj_succ, Z.pow_succ_r in Hlt by lia.
        apply Z.div_lt_upper_bound; lia. }
      specialize (IH (c / 10) Hq Hq2).
      pose proof (nd_fuel_ge1 f (c / 10)) as Hge.
      set (n := nd_fuel f (c / 10)) in *.
      replace (1 + n - 1) with ((n - 1) + 1) by lia.
      replace (1 + n) with (n + 1) by lia.
      rewrite !pow10_succ by lia.
      pose proof (Z.div_mod c 10 ltac:(lia)) as Hdm.
      pose proof (Z.mod_pos_bound c 10 ltac:(lia)) as Hmb.
      lia.
Qed.

Lemma num_digits_ge1 c : 1 <= num_digits c.
Proof. unfold num_digits. apply nd_fuel_ge1. Qed.

Lemma num_digits_0 : num_digits 0 = 1.
Proof. reflexivity. Qed.

(* 10^(nd-1) <= c < 10^nd for c > 0 *)
Lemma num_digits_spec c : 0 < c -> 10 ^ (num_digits c - 1) <= c < 10 ^ num_digits c.
Proof.
  intro Hc. unfold num_digits. rewrite Z.abs_eq by lia.
  apply nd_fuel_spec; [exact Hc|].
  rewrite Nat2Z.inj_succ, Z2Nat.id by apply Z.log2_nonneg.
  apply Z.log2_spec. exact Hc.
Qed.

Lemma num_digits_abs c : num_digits (Z.abs c) = num_digits c.
Proof. unfold num_digits. rewrite Z.abs_involutive. reflexivity. Qed.

Lemma digits_unique c n m : 0 < c -> 0 <= n -> 0 <= m ->
  10 ^ (n - 1) <= c < 10 ^ n -> 10 ^ (m - 1) <= c < 10 ^ m -> n = m.
Proof.
  intros Hc Hn Hm [Hn1 Hn2] [Hm1 Hm2].
  destruct (Z.lt_trichotomy n m) as [Hlt|[Heq|Hgt]]; [|exact Heq|].
  - assert (10 ^ n <= 10 ^ (m - 1)) by (apply pow10_le; lia). lia.
  - assert (10 ^ m <= 10 ^ (n - 1)) by (apply pow10_le; lia). lia.
Qed.

Lemma num_digits_unique c n : 0 < c -> 0 <= n -> 10 ^ (n - 1) <= c < 10 ^ n -> num_digits c = n.
Proof.
  intros Hc Hn H. apply (digits_unique c); try assumption.
  - pose proof (num_digits_ge1 c). lia.
  - apply num_digits_spec. exact Hc.
Qed.

Lemma num_digits_mul_pow10 c k : 0 < c -> 0 <= k -> num_digits (c * 10 ^ k) = num_digits c + k.
Proof.
  intros Hc Hk. pose proof (num_digits_spec c Hc) as [H1 H2].
  pose proof (num_digits_ge1 c) as Hge. pose proof (pow10_gt0 k Hk) as Hp.
  apply num_digits_unique; [nia | lia |].
  replace (num_digits c + k - 1) with ((num_digits c - 1) + k) by lia.
  rewrite !pow10_add by lia. nia.
Qed.

(* ------------------------------------------------------------------ *)
(* Decimal digit strings                                               *)
(* ------------------------------------------------------------------ *)

Lemma dec_digits_val_app s t :
  dec_digits_val (s ++ t) = dec_digits_val s * 10 ^ Z.of_nat (length t) + dec_digits_val t.
Proof.
  unfold dec_digits_val.
  assert (G : forall t acc, fold_left (fun a c => a * 10 + digit_val c) t acc =
            acc * 10 ^ Z.of_nat (length t) + fold_left (fun a c => a * 10 + digit_val c) t 0).
  { clear. induction t as [|x t IH]; intro acc.
    - cbn. lia.
    - cbn [fold_left length]. rewrite IH. rewrite (IH (0 * 10 + digit_val x)).
      rewrite Nat2Z.inj_succ, Z.pow_succ_r by lia. ring. }
  rewrite fold_left_app. rewrite G. reflexivity.
Qed.

Lemma dec_digits_val_nonneg s : forallb is_digit s = true -> 0 <= dec_digits_val s.
Proof.
  unfold dec_digits_val.
  assert (G : forall s acc, 0 <= acc -> forallb is_digit s = true ->
             0 <= fold_left (fun a c => a * 10 + digit_val c) s acc).
  { clear. induction s as [|x s IH]; intros acc Ha Hs; cbn [fold_left]; [exact Ha|].
    cbn [forallb] in Hs. apply andb_true_iff in Hs. destruct Hs as [Hx Hs].
    apply IH; [|exact Hs]. unfold is_digit in Hx. unfold digit_val, byte_Z.
    apply andb_true_iff in Hx. destruct Hx as [Hx1 Hx2]. apply N.leb_le in Hx1. unfold byte_N in Hx1. lia. }
  intro H. apply G; [lia|exact H].
Qed.

Lemma zeros_length n : 0 <= n -> Z.of_nat (length (zeros n)) = n.
Proof. intro Hn. unfold zeros. rewrite repeat_length. apply Z2Nat.id. exact Hn. Qed.

Lemma zeros_all_digits n : forallb is_digit (zeros n) = true.
Proof. unfold zeros. induction (Z.to_nat n) as [|k IH]; cbn; [reflexivity|exact IH]. Qed.

Lemma zeros_val n : dec_digits_val (zeros n) = 0.
Proof.
  unfold zeros. induction (Z.to_nat n) as [|k IH]; [reflexivity|].
  change (repeat "0"%byte (S k)) with ([ "0"%byte ] ++ repeat "0"%byte k).
  rewrite dec_digits_val_app, IH. reflexivity.
Qed.

(* the ten digit bytes *)
Lemma digit_byte k : (k < 10)%N ->
  is_digit (byte_of_N_trunc (48 + k)) = true /\ digit_val (byte_of_N_trunc (48 + k)) = Z.of_N k.
Proof.
  intro Hk.
  assert (H : (k = 0 \/ k = 1 \/ k = 2 \/ k = 3 \/ k = 4 \/ k = 5 \/ k = 6 \/ k = 7 \/ k = 8 \/ k = 9)%N) by lia.
  repeat (destruct H as [H|H]; [subst k; split; reflexivity|]). subst k; split; reflexivity.
Qed.

Lemma digits_fuel_spec f : forall n acc, (n < 2 ^ N.of_nat (S f))%N ->
  exists ds, digits_fuel (S f) n acc = ds ++ acc /\ ds <> [] /\ forallb is_digit ds = true /\
             dec_digits_val ds = Z.of_N n.
Proof.
  induction f as [|f IH]; intros n acc Hn.
  - assert (Hlt : (n < 10)%N) by (cbn in Hn; lia).
    cbn [digits_fuel]. apply N.ltb_lt in Hlt. rewrite Hlt. apply N.ltb_lt in Hlt.
    exists [byte_of_N_trunc (48 + n mod 10)].
    rewrite N.mod_small by exact Hlt. destruct (digit_byte n Hlt) as [Hd Hv].
    repeat split; [discriminate | cbn [forallb]; rewrite Hd; reflexivity | unfold dec_digits_val; cbn [fold_left]; rewrite Hv; lia].
  - remember (S f) as f1. cbn [digits_fuel]. destruct (n <? 10)%N eqn:E.
    + apply N.ltb_lt in E. exists [byte_of_N_trunc (48 + n mod 10)].
      rewrite N.mod_small by exact E. destruct (digit_byte n E) as [Hd Hv].
      repeat split; [discriminate | cbn [forallb]; rewrite Hd; reflexivity | unfold dec_digits_val; cbn [fold_left]; rewrite Hv; lia].
    + apply N.ltb_ge in E. subst f1.
      assert (Hq : (n / 10 < 2 ^ N.of_nat (S f))%N).
      { rewrite (Nat2N.inj_succ (S f)), N.pow_succ_r' in Hn.
        apply N.div_lt_upper_bound; lia. }
      destruct (IH (n / 10)%N (byte_of_N_trunc (48 + n mod 10) :: acc) Hq) as (ds & Heq & Hne & Hall & Hval).
      exists (ds ++ [byte_of_N_trunc (48 + n mod 10)]).
      assert (Hm : (n mod 10 < 10)%N) by (apply N.mod_lt; lia).
      destruct (digit_byte _ Hm) as [Hd Hv].
      repeat split.
      * rewrite Heq, <- app_assoc. reflexivity.
      * destruct ds; discriminate.
      * rewrite forallb_app, Hall. cbn [forallb]. rewrite Hd. reflexivity.
      * rewrite dec_digits_val_app, Hval. unfold dec_digits_val at 1. cbn [fold_left length].
        rewrite Hv. pose proof (N.div_mod n 10 ltac:(lia)). lia.
Qed.

Lemma N_to_dec_spec n :
  N_to_dec n <> [] /\ forallb is_digit (N_to_dec n) = true /\ dec_digits_val (N_to_dec n) = Z.of_N n.
Proof.
  unfold N_to_dec.
  destruct (digits_fuel_spec (N.to_nat (N.log2 n)) n []) as (ds & Heq & Hne & Hall & Hval).
  - rewrite Nat2N.inj_succ, N2Nat.id.
    destruct n as [|p]; [cbn; lia|]. apply N.log2_spec. lia.
  - rewrite Heq, app_nil_r. repeat split; assumption.
Qed.

Lemma Z_to_dec_spec c : 0 <= c ->
  Z_to_dec c <> [] /\ forallb is_digit (Z_to_dec c) = true /\ dec_digits_val (Z_to_dec c) = c.
Proof.
  intro Hc. unfold Z_to_dec. destruct (c <? 0) eqn:E; [apply Z.ltb_lt in E; lia|].
  destruct (N_to_dec_spec (Z.to_N c)) as (H1 & H2 & H3). rewrite Z2N.id in H3 by exact Hc.
  repeat split; assumption.
Qed.
