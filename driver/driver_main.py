import argparse, concurrent.futures, hashlib, json, os, re, shutil, subprocess, sys, time

VERIF = os.path.dirname(os.path.dirname(os.path.abspath(__file__)))
COQ = os.path.join(VERIF, "coq")
REPO = os.environ.get("VERIF_REPO", "/repo")
WORK = os.path.join(VERIF, ".work")
CACHE = os.path.join(VERIF, ".cache")
GOENV = dict(os.environ, GOFLAGS="-mod=mod", GOPROXY="off", GOSUMDB="off", GOTOOLCHAIN="local", CGO_ENABLED="0")
JOBS = int(os.environ.get("VERIF_JOBS", "16"))

FORBIDDEN = re.compile(
    r"\b(Admitted|admit|Axiom|Axioms|Parameter|Parameters|Conjecture|Conjectures|Admit\s+Obligations|"
    r"bypass_check|native_compute|Unset\s+Guard\s+Checking|Unset\s+Positivity\s+Checking|"
    r"Unset\s+Universe\s+Checking|type-in-type|impredicative-set)\b")

from properties import PROPS  # noqa: E402


def log(*a):
    print("[check]", *a, file=sys.stderr, flush=True)


def run(cmd, cwd=None, env=None, timeout=None, capture=True):
    p = subprocess.run(cmd, cwd=cwd, env=env, timeout=timeout, stdout=subprocess.PIPE if capture else None,
                       stderr=subprocess.STDOUT if capture else None, text=True)
    return p.returncode, (p.stdout or "")


class FrameworkError(Exception):
    pass


# ----------------------------------------------------------------------------------------------
# tree hash (cache key for harness outputs)
# ----------------------------------------------------------------------------------------------

def tree_hash():
    h = hashlib.sha256()
    rc, out = run(["git", "-C", REPO, "rev-parse", "HEAD"])
    h.update(out.encode())
    rc, out = run(["git", "-C", REPO, "diff", "HEAD"])
    h.update(out.encode())
    rc, out = run(["git", "-C", REPO, "ls-files", "--others", "--exclude-standard"])
    for f in sorted(out.split()):
        p = os.path.join(REPO, f)
        h.update(f.encode())
        try:
            with open(p, "rb") as fh:
                h.update(fh.read())
        except OSError:
            pass
    # the harness and the model are part of the key too
    rc, out = run(["git", "-C", VERIF, "rev-parse", "HEAD"])
    h.update(out.encode())
    rc, out = run(["git", "-C", VERIF, "diff", "HEAD", "--", "harness", "harness-intertx", "driver", "coq", "tools"])
    h.update(out.encode())
    return h.hexdigest()[:20]


# ----------------------------------------------------------------------------------------------
# step 1: translator
# ----------------------------------------------------------------------------------------------

def write_if_changed(path, content):
    try:
        with open(path) as f:
            if f.read() == content:
                return False
    except OSError:
        pass
    with open(path, "w") as f:
        f.write(content)
    return True


GENERATORS = {  # tools/extract/cmd/<name> -> files under coq/Generated/ (a list means -out takes a directory)
    "idconsts": "IdConsts.v",
    "dataconsts": "DataConsts.v",
    "ledgerconsts": "LedgerConsts.v",
    "miscconsts": ["IntertxConsts.v", "QueryConsts.v"],
}


def run_translator(report):
    """Regenerates coq/Generated/*.v from /repo.  A failure means the source no longer has the shape the
    model was written against: reported as a broken tie (no-failing-input-found unless a monitor finds one)."""
    tdir = os.path.join(VERIF, "tools", "extract")
    outdir = os.path.join(WORK, "generated")
    os.makedirs(outdir, exist_ok=True)
    changed, logs, ok_all = [], [], True
    for name, vfiles in sorted(GENERATORS.items()):
        if not os.path.isdir(os.path.join(tdir, "cmd", name)):
            continue
        binp = os.path.join(tdir, "bin", name)
        rc, out = run(["go", "build", "-o", binp, "./cmd/" + name], cwd=tdir, env=GOENV, timeout=600)
        if rc != 0:
            raise FrameworkError("translator %s does not build:\n%s" % (name, out))
        if isinstance(vfiles, list):
            outp = outdir
            files = vfiles
        else:
            outp = os.path.join(outdir, vfiles)
            files = [vfiles]
        rc, out = run([binp, "-repo", REPO, "-out", outp], cwd=tdir, env=GOENV, timeout=300)
        logs.append("%s: rc=%d %s" % (name, rc, out[-1500:]))
        if rc != 0:
            ok_all = False
            report["translator_failed"] = (report.get("translator_failed", "") + "\n" + name + ": " + out[-1500:])
            continue
        for vf in files:
            with open(os.path.join(outdir, vf)) as fh:
                if write_if_changed(os.path.join(COQ, "Generated", vf), fh.read()):
                    changed.append(vf)
    report["translator_log"] = "\n".join(logs)[-4000:]
    report["generated_changed"] = changed
    return ok_all


# ----------------------------------------------------------------------------------------------
# step 2/3: Coq build and audit
# ----------------------------------------------------------------------------------------------

def coq_project():
    rc, out = run(["bash", "-c", "cd %s && ./build.sh -n >/dev/null 2>&1; true" % COQ])


def coq_build(targets, report, timeout=3000):
    """make the given .vo targets (and everything they depend on).  Returns (ok, failed_files, log)."""
    t0 = time.time()
    rc, out = run(["bash", "./build.sh"] + targets, cwd=COQ, env=dict(os.environ, JOBS=str(JOBS), COQ_BUILD_TIMEOUT=str(timeout)),
                  timeout=timeout + 60)
    failed = re.findall(r"\*\*\* \[[^\]]*?:\d+: ([^\]]+?\.vo)\] Error", out)
    errs = re.findall(r'File "\./([^"]+)", line (\d+)[^\n]*\n((?:.*\n){0,6})', out)
    report["coq_build_s"] = round(time.time() - t0, 1)
    report["coq_failed"] = failed
    if rc != 0:
        report["coq_errors"] = [{"file": f, "line": int(l), "msg": m.strip()[:600]} for f, l, m in errs][:10]
    return rc == 0, failed, out


def dep_closure(vfile):
    """All .v files that vfile (relative to coq/) depends on, from the coq_makefile dependency file."""
    depfile = os.path.join(COQ, ".Makefile.coq.d")
    deps = {}
    try:
        with open(depfile) as f:
            txt = f.read().replace("\\\n", " ")
    except OSError:
        return [vfile]
    for line in txt.splitlines():
        if ":" not in line:
            continue
        lhs, rhs = line.split(":", 1)
        for t in lhs.split():
            if t.endswith(".vo"):
                deps[t[:-1]] = [x[:-1] for x in rhs.split() if x.endswith(".vo")]
    seen, stack = set(), [vfile]
    while stack:
        x = stack.pop()
        if x in seen:
            continue
        seen.add(x)
        stack.extend(deps.get(x, []))
    return sorted(seen)


def audit(prop_file, report):
    """Forbidden vernacular anywhere in the development; obligations counted over the dependency closure
    of the property file; Print Assumptions of the property file re-run and parsed."""
    problems = []
    for root, _, files in os.walk(COQ):
        for f in files:
            if f.endswith(".v") and not f.startswith("cases_"):
                p = os.path.join(root, f)
                with open(p, errors="replace") as fh:
                    src = fh.read()
                src_nc = re.sub(r"\(\*.*?\*\)", " ", src, flags=re.S)
                for m in FORBIDDEN.finditer(src_nc):
                    problems.append("%s: forbidden '%s'" % (os.path.relpath(p, COQ), m.group(0)))
                # Variable/Hypothesis outside a Section
                depth = 0
                for line in src_nc.splitlines():
                    s = line.strip()
                    if re.match(r"(Section|Module)\s", s) and not re.match(r"Module\s+(Import|Export)", s):
                        depth += 1
                    elif re.match(r"End\s", s):
                        depth = max(0, depth - 1)
                    elif depth == 0 and re.match(r"(Variable|Variables|Hypothesis|Hypotheses|Context)\b", s):
                        problems.append("%s: '%s' outside a section" % (os.path.relpath(p, COQ), s[:40]))
    closure = dep_closure(prop_file)
    obligations = 0
    for v in closure:
        try:
            with open(os.path.join(COQ, v), errors="replace") as fh:
                src = re.sub(r"\(\*.*?\*\)", " ", fh.read(), flags=re.S)
        except OSError:
            continue
        obligations += len(re.findall(r"^\s*(?:Local\s+|Global\s+|#\[[^\]]*\]\s*)?(?:Theorem|Lemma|Corollary|Example|Proposition|Fact|Remark)\s", src, flags=re.M))
    # re-run the property file to capture Print Assumptions
    rc, out = run(["timeout", "900", "coqc", "-Q", ".", "Regen", prop_file], cwd=COQ, timeout=960)
    with open(os.path.join(COQ, prop_file), errors="replace") as fh:
        psrc = re.sub(r"\(\*.*?\*\)", " ", fh.read(), flags=re.S)
    n_print = len(re.findall(r"^\s*Print\s+Assumptions\s", psrc, flags=re.M))
    n_thm = len(re.findall(r"^\s*Theorem\s", psrc, flags=re.M))
    n_closed = out.count("Closed under the global context")
    axioms = []
    if rc != 0:
        problems.append("%s does not compile: %s" % (prop_file, out[-800:]))
    elif n_closed != n_print:
        m = re.findall(r"Axioms:\n((?:.+\n)+?)(?=\S|\Z)", out)
        axioms = [a.strip() for a in m]
        problems.append("%s: %d of %d Print Assumptions are not closed: %s" % (prop_file, n_print - n_closed, n_print, "; ".join(axioms)[:600]))
    if n_print < n_thm:
        problems.append("%s: %d theorems but only %d Print Assumptions" % (prop_file, n_thm, n_print))
    report["obligations"] = obligations
    report["property_theorems"] = n_thm
    report["print_assumptions_closed"] = n_closed
    report["closure_files"] = closure
    report["audit_problems"] = problems
    return problems


# ----------------------------------------------------------------------------------------------
# step 4: families
# ----------------------------------------------------------------------------------------------

def go_build(module_dir, pkg, binname):
    binp = os.path.join(module_dir, "bin", binname)
    rc, out = run(["go", "build", "-tags", "verif", "-o", binp, pkg], cwd=module_dir, env=GOENV, timeout=1800)
    return rc == 0, out, binp


def run_family(fam, seed, tier, outdir, report):
    """fam: dict(module, cmd, args).  Builds from /repo's current tree and runs.  Returns summary dict or None."""
    module_dir = os.path.join(VERIF, fam["module"])
    ok, out, binp = go_build(module_dir, "./cmd/" + fam["cmd"], fam["cmd"])
    if not ok:
        report.setdefault("go_build_errors", []).append(out[-3000:])
        return None
    if os.path.isdir(outdir):
        shutil.rmtree(outdir)
    os.makedirs(outdir)
    t0 = time.time()
    cmd = [binp, "-seed", str(seed), "-tier", tier, "-out", outdir] + fam.get("args", [])
    rc, out = run(cmd, cwd=module_dir, env=GOENV, timeout=fam.get("timeout", 3600))
    if rc != 0:
        report.setdefault("family_errors", []).append({"family": fam["cmd"], "rc": rc, "log": out[-3000:]})
        return None
    with open(os.path.join(outdir, "summary.json")) as f:
        summ = json.load(f)
    summ["_go_s"] = round(time.time() - t0, 1)
    summ["_dir"] = outdir
    return summ


def eval_shard(path):
    d = os.path.dirname(path)
    t0 = time.time()
    cmd = ["bash", "-c", "ulimit -v 12000000; exec timeout 1200 coqc -Q %s Regen %s" % (COQ, os.path.basename(path))]
    rc, out = run(cmd, cwd=d, timeout=1300)
    for ext in (".vo", ".vok", ".vos", ".glob"):
        try:
            os.remove(path[:-2] + ext)
        except OSError:
            pass
    try:
        os.remove(os.path.join(d, "." + os.path.basename(path)[:-2] + ".aux"))
    except OSError:
        pass
    ok = rc == 0 and re.search(r"M\s*=\s*\[\s*\]", out) is not None
    return {"shard": os.path.basename(path), "ok": ok, "rc": rc, "out": out[-3000:] if not ok else "", "s": round(time.time() - t0, 1)}


def eval_shards(outdir, shards):
    paths = [os.path.join(outdir, s) for s in shards]
    res = []
    with concurrent.futures.ThreadPoolExecutor(max_workers=JOBS) as ex:
        for r in ex.map(eval_shard, paths):
            res.append(r)
    return res


def mismatch_ids(text):
    m = re.search(r"M\s*=\s*(\[.*)", text, flags=re.S)
    if not m:
        return []
    body = m.group(1)
    ids = re.findall(r"\(\s*(\d+)%N", body)
    if not ids:
        ids = re.findall(r"(\d+)%N", body)
    return [int(x) for x in ids][:50]


# ----------------------------------------------------------------------------------------------
# known findings
# ----------------------------------------------------------------------------------------------

def load_known():
    p = os.path.join(VERIF, "known_findings.json")
    try:
        with open(p) as f:
            return json.load(f)
    except OSError:
        return {"findings": []}


def known_match(known, prop, key):
    for k in known.get("findings", []):
        if k.get("status") != "known" or k.get("property") != prop:
            continue
        if k.get("key") == key:
            return k
        if k.get("key_regex") and key is not None and re.fullmatch(k["key_regex"], key):
            return k
    return None


# ----------------------------------------------------------------------------------------------
# main
# ----------------------------------------------------------------------------------------------

def main(argv):
    ap = argparse.ArgumentParser()
    ap.add_argument("prop")
    ap.add_argument("--tier", default=os.environ.get("VERIF_TIER", "quick"), choices=["quick", "thorough"])
    ap.add_argument("--replay", default=None)
    ap.add_argument("--seed", type=int, default=int(os.environ.get("VERIF_SEED", "20260929")))
    ap.add_argument("--skip-coq", action="store_true", help=argparse.SUPPRESS)
    args = ap.parse_args(argv)
    pid = args.prop
    if pid not in PROPS:
        print("unknown property", pid, file=sys.stderr)
        return 2
    cfg = PROPS[pid]
    t0 = time.time()
    os.makedirs(WORK, exist_ok=True)
    os.makedirs(os.path.join(VERIF, "evidence"), exist_ok=True)
    os.makedirs(os.path.join(VERIF, "replays"), exist_ok=True)
    report = {"property": pid, "tier": args.tier, "seed": args.seed}
    violations = []   # dicts: {kind, key, desc, replay_obj}
    known_hits = []

    if args.replay:
        from replay import do_replay
        return do_replay(pid, cfg, args.replay)

    try:
        # 1. translator
        tie_ok = run_translator(report)
        if not tie_ok:
            violations.append({"kind": "translator", "key": "translator-shape", "desc": "the translator no longer recognises the source: " + report.get("translator_failed", "")[-600:], "found_input": False})

        # 2. build
        targets = cfg["coq_targets"]
        ok, failed, out = coq_build(targets, report)
        proof_failed = [f for f in failed if not f.startswith("Cases/")]
        run_failed = [f for f in failed if f.startswith("Cases/")]
        if not ok and not failed:
            raise FrameworkError("coq build failed without a failing target:\n" + out[-3000:])
        if proof_failed:
            violations.append({"kind": "proof", "key": "proof:" + ",".join(proof_failed),
                               "desc": "proof obligations no longer check: %s; %s" % (", ".join(proof_failed), json.dumps(report.get("coq_errors", []))[:1500]),
                               "found_input": False})
        # 3. audit
        if not proof_failed:
            problems = audit(cfg["prop_file"], report)
            for extra in cfg.get("extra_prop_files", []):
                r2 = {}
                problems = problems + audit(extra, r2)
                for k in ("obligations", "property_theorems", "print_assumptions_closed"):
                    report[k] = report.get(k, 0) + r2.get(k, 0)
                report["closure_files"] = sorted(set(report.get("closure_files", []) + r2.get("closure_files", [])))
            report["audit_problems"] = problems
            if problems:
                violations.append({"kind": "audit", "key": "audit", "desc": "; ".join(problems)[:2000], "found_input": False})
        # thorough tier: independent re-check of the compiled property file and everything it depends on
        if args.tier == "thorough" and not proof_failed:
            lib = "Regen." + cfg["prop_file"][:-2].replace("/", ".")
            tc = time.time()
            rc, out = run(["timeout", "5400", "coqchk", "-silent", "-o", "-Q", ".", "Regen", lib], cwd=COQ, timeout=5500)
            report["coqchk_s"] = round(time.time() - tc, 1)
            report["coqchk_rc"] = rc
            m = re.search(r"\* Axioms:\s*(.*?)\n\s*\n", out + "\n\n", flags=re.S)
            report["coqchk_axioms"] = (m.group(1).strip() if m else out[-1500:])
            if rc != 0:
                violations.append({"kind": "coqchk", "key": "coqchk", "desc": "coqchk rejected %s: %s" % (lib, out[-1500:]), "found_input": False})
        if run_failed:
            raise FrameworkError("the case evaluator does not compile: %s\n%s" % (run_failed, out[-3000:]))

        # 4./5. families
        th = tree_hash()
        summaries = []
        shard_results = []
        from ledger_emit import prepare_family  # converts traces into case shards where needed
        for fam in cfg["families"]:
            name = fam["cmd"]
            fam_args = dict(fam)
            akey = hashlib.sha256((" ".join(fam.get("args", [])) + "|" + str(fam.get("emit"))).encode()).hexdigest()[:8]
            cdir = os.path.join(CACHE, th, name + "_" + akey, "%s_%d" % (args.tier, args.seed))
            summ = None
            if fam.get("cache") and os.path.exists(os.path.join(cdir, "summary.json")) and os.path.exists(os.path.join(cdir, "shards_done.json")):
                with open(os.path.join(cdir, "summary.json")) as f:
                    summ = json.load(f)
                with open(os.path.join(cdir, "shards_done.json")) as f:
                    sres = json.load(f)
                summ["_dir"] = cdir
                summ["_cached"] = True
            else:
                summ = run_family(fam_args, args.seed, args.tier, cdir, report)
                if summ is None:
                    if report.get("go_build_errors"):
                        raise FrameworkError("harness does not build against /repo:\n" + report["go_build_errors"][-1])
                    # The harness builds but the run of the family died.  On the unchanged tree no family crashes, so a
                    # crash (a Go panic out of the code under test, a generator step that must succeed and did not) means
                    # that the property is no longer shown to hold: reported as a violation whose replay carries the log.
                    ferr = report.get("family_errors") or [{}]
                    flog = str(ferr[-1].get("log", ""))
                    if "panic:" in flog or "goroutine " in flog or "staging step failed" in flog:
                        violations.append({"kind": "family-crashed", "key": "family-crashed:" + name,
                                           "desc": "family %s crashed: %s" % (name, flog[:1500]), "input": None,
                                           "family": name, "found_input": False})
                        continue
                    raise FrameworkError("family %s failed: %s" % (name, json.dumps(report.get("family_errors"))[-3000:]))
                summ = prepare_family(fam_args, summ, cdir)
                sres = eval_shards(cdir, summ.get("shards", []))
                with open(os.path.join(cdir, "summary.json"), "w") as f:
                    json.dump(summ, f)
                with open(os.path.join(cdir, "shards_done.json"), "w") as f:
                    json.dump(sres, f)
            summaries.append(summ)
            for r in sres:
                r["family"] = name
                r["dir"] = summ["_dir"]
            shard_results.extend(sres)

        # 6. classify
        known = load_known()
        props_of_interest = set([pid] + cfg.get("also_monitors", []))
        for summ in summaries:
            for mv in summ.get("monitor_violations") or []:
                if mv.get("property") != "*" and mv.get("property") not in props_of_interest:
                    continue
                k = known_match(known, pid, mv.get("key")) or known_match(known, mv.get("property"), mv.get("key"))
                if k:
                    known_hits.append((k, mv))
                else:
                    violations.append({"kind": "monitor", "key": mv.get("key"), "desc": mv.get("desc"), "input": mv.get("input"),
                                       "family": summ.get("family"), "found_input": True})
        bad = [r for r in shard_results if not r["ok"]]
        relevant_bad = []
        for r in bad:
            ids = mismatch_ids(r["out"])
            cases = {}
            try:
                with open(os.path.join(r["dir"], "cases.json")) as f:
                    cj = json.load(f)
                # shards written by data_cases.py key their cases "data:<n>" and print nested item indices too
                prefix = "data:" if os.path.basename(r["shard"]).startswith("cases_data_") else ""
                for i in ids:
                    if prefix + str(i) in cj and len(cases) < 5:
                        cases[prefix + str(i)] = cj[prefix + str(i)]
            except (OSError, ValueError):
                pass
            # a family may tag cases with the properties they are relevant to
            tags = set()
            for c in cases.values():
                if isinstance(c, dict):
                    for t in c.get("properties", []):
                        tags.add(t)
            if tags and not (tags & props_of_interest):
                continue
            relevant_bad.append((r, ids, cases))
        if relevant_bad:
            r, ids, cases = relevant_bad[0]
            # a monitor hit is a direct counterexample to the property; failing that, the concrete case on
            # which the implementation departs from the verified model is the replayable failing input
            have_input = any(v["kind"] == "monitor" for v in violations) or any(c for c in cases.values())
            violations.append({"kind": "correspondence", "key": "correspondence:%s" % r["family"],
                               "desc": "model and implementation disagree on %d shard(s); first: %s case ids %s; coqc said: %s" % (
                                   len(relevant_bad), r["shard"], ids[:10], r["out"][-700:]),
                               "input": {"cases": cases, "shard": r["shard"], "family": r["family"]},
                               "found_input": have_input})

        # 7. evidence
        evaluations = sum(s.get("evaluations", 0) for s in summaries)
        distinct = sum(s.get("distinct_nontrivial", 0) for s in summaries)
        samples = []
        for s in summaries:
            samples.extend((s.get("samples") or [])[:3])
        wall = round(time.time() - t0, 1)
        obligations = report.get("obligations", 0)
        discharged = obligations if not proof_failed and not report.get("audit_problems") else 0
        ev = {
            "property_id": pid, "tier": args.tier, "seed": args.seed, "level": cfg.get("level", "proof"),
            "coverage": {
                "obligations": max(obligations, 1), "discharged": max(discharged, 0) if discharged else 0,
                "checker_cmd": "cd coq && ./build.sh %s  (coq_makefile + make, full .vo; coqc 8.16.1 kernel) ; coqc -Q . Regen %s (Print Assumptions)" % (" ".join(targets), cfg["prop_file"]),
                "trusted_base": cfg.get("trusted_base", []) + COMMON_TRUSTED,
                "property_theorems": report.get("property_theorems"),
                "print_assumptions_closed": report.get("print_assumptions_closed"),
                "theorem_files": report.get("closure_files"),
                "evaluations": evaluations, "distinct_nontrivial": distinct,
                "rule": "; ".join(s.get("rule", "") for s in summaries)[:3000],
                "samples": samples[:6] if samples else ["(no correspondence family for this property)"],
                "traces_validated_against_impl": evaluations,
                "correspondence_shards": len(shard_results), "correspondence_shards_ok": len([r for r in shard_results if r["ok"]]),
                "histograms": {s.get("family", "?"): s.get("histogram") for s in summaries},
                "per_family": [{k: s.get(k) for k in ("family", "evaluations", "distinct_nontrivial", "_go_s", "_cached", "extra")} for s in summaries],
                "monitor_violations_total": sum(len(s.get("monitor_violations") or []) for s in summaries),
                "generated_changed": report.get("generated_changed"),
                "coq_build_s": report.get("coq_build_s"),
                "coqchk": {k: report.get(k) for k in ("coqchk_s", "coqchk_rc", "coqchk_axioms") if k in report},
                "explanation": cfg.get("explanation", ""),
            },
            "assumptions": cfg.get("assumptions", []),
            "wall_s": wall,
            "violations": len(violations),
        }
        if ev["coverage"]["discharged"] == 0:
            ev["coverage"]["discharged"] = 0
        with open(os.path.join(VERIF, "evidence", pid + ".json"), "w") as f:
            json.dump(ev, f, indent=1)

        seen_known = set()
        for k, mv in known_hits:
            if k.get("key") in seen_known:
                continue
            seen_known.add(k.get("key"))
            print("KNOWN-FINDING: property=%s %s (%s)" % (pid, k.get("key"), (k.get("desc") or "")[:200]))
        if violations:
            # concrete failing inputs first
            violations.sort(key=lambda v: (0 if v["kind"] == "monitor" else 1))
            have_input = any(v.get("found_input") for v in violations)
            rp = os.path.join(VERIF, "replays", "%s_%s_%d.json" % (pid, args.tier, args.seed))
            with open(rp, "w") as f:
                json.dump({"property": pid, "seed": args.seed, "tier": args.tier, "tree": th, "violations": violations[:20],
                           "report": {k: report.get(k) for k in ("coq_failed", "coq_errors", "audit_problems", "translator_failed")}}, f, indent=1, default=str)
            suffix = "" if have_input else " no-failing-input-found"
            print("VIOLATION property=%s replay=%s%s" % (pid, rp, suffix))
            for v in violations[:5]:
                log(v["kind"], v.get("key"), (v.get("desc") or "")[:400])
            return 1
        log("%s ok: %d obligations, %d evaluations, %d shards, %.0fs" % (pid, obligations, evaluations, len(shard_results), wall))
        return 0
    except FrameworkError as e:
        print("FRAMEWORK-ERROR property=%s: %s" % (pid, str(e)[-4000:]), file=sys.stderr)
        return 2


COMMON_TRUSTED = [
    "Coq 8.16.1 kernel (coqc, full .vo build; vm_compute used for case evaluation and finite sweeps; no native_compute)",
    "no axioms: every Print Assumptions under a property theorem must report 'Closed under the global context' (checked on every run)",
    "translator tools/extract (Go AST -> coq/Generated/*.v), regenerated on every run",
    "correspondence harness (Go, builds against /repo's working tree) and its projection of observables",
    "modelled, not verified: cosmos-sdk ORM, x/bank, x/auth, baseapp tx rule, apd/math/big/strconv, protobuf, bech32, IAVL, gas",
]
