"""Per-property configuration of the check driver."""

H = "harness"
HI = "harness-intertx"

PROPS = {
    "C19": {
        "prop_file": "Properties/C19.v",
        "coq_targets": ["Properties/C19.vo", "Cases/DecRun.vo"],
        "families": [{"module": H, "cmd": "dec"}],
        "trusted_base": ["Dec/Dec.v is a hand transcription of apd v2.0.2 as used by types/math (validated by the dec family in string mode)"],
        "assumptions": ["decimal exponents within apd's +-100000 window are modelled exactly; QuoInteger/Rem/Int64 are outside the property and the model"],
    },
    "C15": {
        "prop_file": "Properties/C15.v",
        "coq_targets": ["Properties/C15.vo", "Cases/IriRun.vo", "Data/Tie.vo"],
        "families": [{"module": H, "cmd": "iri"}],
        "trusted_base": ["SHA-256 implemented in Gallina (test vectors proved); theorems hold for any 4-byte checksum function"],
        "assumptions": ["base58 alphabet/table and IRI field layout come from Generated/DataConsts.v"],
    },
    "C14": {
        "prop_file": "Properties/C14pure.v",
        "coq_targets": ["Properties/C14pure.vo", "Properties/C14.vo", "Cases/IdsRun.vo", "Cases/LedgerRun.vo", "Ledger/Tie.vo"],
        "extra_prop_files": ["Properties/C14.v"],
        "families": [{"module": H, "cmd": "idstrings"}],
        "trusted_base": ["regexes/format verbs/layout regenerated from the Go AST into Generated/IdConsts.v"],
        "assumptions": ["GetCreditTypeAbbrevFromClassID is modelled on ASCII input (non-ASCII cases counted and skipped)"],
    },
    "C20": {
        "prop_file": "Properties/C20.v",
        "coq_targets": ["Properties/C20.vo", "Cases/IntertxRun.vo", "Intertx/Tie.vo"],
        "families": [{"module": HI, "cmd": "intertx"}],
        "trusted_base": ["ICA controller and capability keepers are oracles (section variables); ibc-go SerializeCosmosTx tied by correspondence"],
        "assumptions": ["block time + 1 minute representable as int64 nanoseconds"],
    },

}

LEDGER = {"module": H, "cmd": "ledger", "emit": "ledger", "cache": True, "timeout": 7200}
LEDGER_TB = ["Ledger/*.v is a hand transcription of the keeper handlers, ValidateBasic methods and begin-block pruning (validated step by step by the ledger correspondence family on every run)",
             "ORM and x/bank rules modelled in Ledger/Orm.v"]
LEDGER_AS = ["every credit type has precision 6 (enforced by CreditType.Validate for genesis and AddCreditType)",
             "addresses are known accounts (users, gov, module accounts); timestamps within protobuf range; infinite gas meter"]

EXTRA_AS = {
    "C01": ["genesis satisfies Inv_run = Inv_core /\\ Inv_bound /\\ Inv_qty (the empty state does)"],
    "C02": ["genesis satisfies Inv_run and the ghost ledger agrees with it (ghost_ok)"],
    "C03": ["signer is not the ecocredit / basket module account; seller of a filled order is not the fee pool (model allows any address as signer)"],
    "C05": ["genesis satisfies Inv_all_basket; no governance message sets a creation fee in a basket ('eco.') denom (gov_fees_ok) - without it the property is REFUTED: known finding basket-fee-burns-basket-tokens"],
    "C06": ["genesis satisfies Inv_all (adds Inv_ids and Inv_orders)"],
    "C07": ["coin values are given per operation (34-digit Mul, exact Add/Sub, truncation); beyond 34 significant digits the exact-value bounds do not hold: known finding *:beyond-34-digits"],
    "C12": ["genesis satisfies Inv_run (Inv_bound: every tradable supply representable by apd)"],
}

PROPS.update({
    "C01": {
        "prop_file": "Properties/C01.v",
        "coq_targets": ["Properties/C01.vo", "Cases/LedgerRun.vo", "Ledger/Tie.vo"],
        "families": [LEDGER],
        "trusted_base": LEDGER_TB, "assumptions": LEDGER_AS + EXTRA_AS.get("C01", []),
    },
    "C02": {
        "prop_file": "Properties/C02.v",
        "coq_targets": ["Properties/C02.vo", "Cases/LedgerRun.vo", "Ledger/Tie.vo"],
        "families": [LEDGER],
        "trusted_base": LEDGER_TB, "assumptions": LEDGER_AS + EXTRA_AS.get("C02", []),
    },
    "C03": {
        "prop_file": "Properties/C03.v",
        "coq_targets": ["Properties/C03.vo", "Cases/LedgerRun.vo", "Ledger/Tie.vo"],
        "families": [LEDGER],
        "trusted_base": LEDGER_TB, "assumptions": LEDGER_AS + EXTRA_AS.get("C03", []),
    },
    "C04": {
        "prop_file": "Properties/C04.v",
        "coq_targets": ["Properties/C04.vo", "Cases/LedgerRun.vo", "Ledger/Tie.vo"],
        "families": [LEDGER],
        "trusted_base": LEDGER_TB, "assumptions": LEDGER_AS + EXTRA_AS.get("C04", []),
    },
    "C05": {
        "prop_file": "Properties/C05.v",
        "coq_targets": ["Properties/C05.vo", "Cases/LedgerRun.vo", "Ledger/Tie.vo"],
        "families": [LEDGER],
        "trusted_base": LEDGER_TB, "assumptions": LEDGER_AS + EXTRA_AS.get("C05", []),
    },
    "C06": {
        "prop_file": "Properties/C06.v",
        "coq_targets": ["Properties/C06.vo", "Cases/LedgerRun.vo", "Ledger/Tie.vo"],
        "families": [LEDGER],
        "trusted_base": LEDGER_TB, "assumptions": LEDGER_AS + EXTRA_AS.get("C06", []),
    },
    "C07": {
        "prop_file": "Properties/C07.v",
        "coq_targets": ["Properties/C07.vo", "Cases/LedgerRun.vo", "Ledger/Tie.vo"],
        "families": [LEDGER],
        "trusted_base": LEDGER_TB, "assumptions": LEDGER_AS + EXTRA_AS.get("C07", []),
    },
    "C12": {
        "prop_file": "Properties/C12.v",
        "coq_targets": ["Properties/C12.vo", "Cases/LedgerRun.vo", "Ledger/Tie.vo"],
        "families": [LEDGER],
        "trusted_base": LEDGER_TB, "assumptions": LEDGER_AS + EXTRA_AS.get("C12", []),
    },
    "C09": {
        "prop_file": "Properties/C09.v",
        "coq_targets": ["Properties/C09.vo", "Cases/GenesisRun.vo", "Cases/LedgerRun.vo", "Ledger/Tie.vo"],
        "families": [dict(LEDGER, emit="genesis"), {"module": H, "cmd": "genesisprobe", "emit": "genesis"}, {"module": H, "cmd": "idstrings"}],
        "also_monitors": ["C14"],
        "trusted_base": LEDGER_TB + ["Genesis/Validators.v is a hand transcription of every state Validate() and of ValidateGenesis' cross-table checks (its verdict is compared with the real ValidateGenesis on every exported state)",
                                     "the ORM JSON export/import codec is modelled as the identity on rows; the real round trip is executed by the harness (genesis_rt items)"],
        "assumptions": LEDGER_AS + ["stored coefficients below 10^100000 (small_state)"],
    },
    "C11": {
        "prop_file": "Properties/C11.v",
        "coq_targets": ["Properties/C11.vo", "Cases/LedgerRun.vo", "Ledger/Tie.vo"],
        "families": [LEDGER],
        "trusted_base": LEDGER_TB, "assumptions": LEDGER_AS,
    },
    "C13": {
        "prop_file": "Properties/C13.v",
        "coq_targets": ["Properties/C13.vo", "Cases/LedgerRun.vo", "Ledger/Tie.vo"],
        "families": [LEDGER],
        "trusted_base": LEDGER_TB, "assumptions": LEDGER_AS + ["history theorem stated for base-module messages (basket and marketplace handlers never touch the origin-tx and contract tables: frame lemmas)"],
    },
    "C17": {
        "prop_file": "Properties/C17.v",
        "coq_targets": ["Properties/C17.vo", "Properties/C17pure.vo", "Properties/C14.vo", "Cases/QueryRun.vo"],
        "families": [{"module": H, "cmd": "queries"}],
        "trusted_base": ["Query/Queries.v models each list query as filter + index order over the ledger state model; Query/Paginate.v models the ORM paginator (both validated against the real gRPC query services)"],
        "assumptions": ["cursor bytes are opaque (only presence and page contents are compared); requests with offset beyond the row count are outside the property (known ORM panic, counted separately)"],
    },
    "C16": {
        "prop_file": "Properties/C16.v",
        "coq_targets": ["Properties/C16.vo", "Cases/DataRun.vo", "Data/Tie.vo"],
        "families": [{"module": H, "cmd": "ledger", "args": ["-families", "data"], "emit": "data", "cache": True}],
        "trusted_base": ["Data/DataMsgs.v is a hand transcription of x/data/server msg handlers and ValidateBasic (validated on traces of the real chain under the production, 4-output and constant ID hashers)",
                         "the ID digest function is an arbitrary function with 8-byte output in the theorems; blake2b is an oracle table in the cases"],
        "assumptions": ["|DataID| + #hashes < 2^62; resolver URL validity is url.ParseRequestURI, ported in the converter and carried as a boolean"],
    },
    "C08": {
        "prop_file": "Properties/C08.v",
        "coq_targets": ["Properties/C08.vo", "Cases/LedgerRun.vo", "Ledger/Tie.vo", "Cases/DataRun.vo", "Data/Tie.vo"],
        "families": [LEDGER, {"module": H, "cmd": "ledger", "args": ["-families", "data"], "emit": "data", "cache": True}],
        "trusted_base": LEDGER_TB, "assumptions": LEDGER_AS,
    },
    "C10": {
        "prop_file": "Properties/C10.v",
        "coq_targets": ["Properties/C10.vo", "Cases/LedgerRun.vo", "Ledger/Tie.vo"],
        "families": [LEDGER],
        "trusted_base": LEDGER_TB + ["runtime determinism (IAVL hashes, gas, events, map order, restarts) is checked by replicated executions, which are tests, not proofs"],
        "assumptions": LEDGER_AS,
        "explanation": "partial: theorems cover the logical transition function, failed-tx no-trace and restart-at-block-boundary invariance of the model; app hashes/gas/events/responses are compared across 3+ executions with restart subsets by the determinism family",
    },
    "C18": {
        "prop_file": "Properties/C18.v",
        "coq_targets": ["Properties/C18.vo", "Cases/LedgerRun.vo", "Ledger/Tie.vo"],
        "families": [LEDGER],
        "trusted_base": LEDGER_TB, "assumptions": LEDGER_AS,
    },
})

PROPS["C14"]["families"].append(LEDGER)
PROPS["C14"]["trusted_base"] = PROPS["C14"]["trusted_base"] + LEDGER_TB
