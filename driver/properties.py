"""Per-property configuration of the check driver."""

H = "harness"
HI = "harness-intertx"

PROPS = {
    "C19": {
        "prop_file": "Properties/C19.v",
        "coq_targets": ["Properties/C19.vo", "Cases/DecRun.vo"],
        "families": [{"module": H, "cmd": "dec"}],
        "trusted_base": ["Dec/Dec.v is a hand transcription of apd v2.0.2 as used by types/math (validated by the dec family in string mode)"],
        "assumptions": ["decimal exponents within apd's +-100000 window are modelled exactly; QuoInteger/Rem/Int64 are outside the property and the model"],
    },
    "C15": {
        "prop_file": "Properties/C15.v",
        "coq_targets": ["Properties/C15.vo", "Cases/IriRun.vo"],
        "families": [{"module": H, "cmd": "iri"}],
        "trusted_base": ["SHA-256 implemented in Gallina (test vectors proved); theorems hold for any 4-byte checksum function"],
        "assumptions": ["base58 alphabet/table and IRI field layout come from Generated/DataConsts.v"],
    },
    "C14": {
        "prop_file": "Properties/C14pure.v",
        "coq_targets": ["Properties/C14pure.vo", "Cases/IdsRun.vo"],
        "families": [{"module": H, "cmd": "idstrings"}],
        "trusted_base": ["regexes/format verbs/layout regenerated from the Go AST into Generated/IdConsts.v"],
        "assumptions": ["GetCreditTypeAbbrevFromClassID is modelled on ASCII input (non-ASCII cases counted and skipped)"],
    },
    "C20": {
        "prop_file": "Properties/C20.v",
        "coq_targets": ["Properties/C20.vo", "Cases/IntertxRun.vo"],
        "families": [{"module": HI, "cmd": "intertx"}],
        "trusted_base": ["ICA controller and capability keepers are oracles (section variables); ibc-go SerializeCosmosTx tied by correspondence"],
        "assumptions": ["block time + 1 minute representable as int64 nanoseconds"],
    },
}
