"""Converts chain traces (harness/chain Trace JSON) into Coq case shards for Cases/LedgerRun.v."""
import datetime, json, os, re, sys

PER_SHARD = int(os.environ.get("VERIF_LEDGER_PER_SHARD", "6"))


class OutOfModel(Exception):
    pass


# ---------------------------------------------------------------- Coq terms

def cbytes(s):
    if s is None:
        s = ""
    bs = s.encode("utf-8") if isinstance(s, str) else bytes(s)
    if not bs:
        return "[]"
    if all(0x20 <= c <= 0x7e and c != 0x22 for c in bs):
        return '(b "%s")' % bs.decode("ascii")
    return "[" + ";".join("x%02x" % c for c in bs) + "]"


def cN(n):
    return "%d%%N" % int(n)


def cZ(z):
    z = int(z)
    return "(%d)%%Z" % z if z < 0 else "%d%%Z" % z


def cbool(v):
    return "true" if v else "false"


def copt(v, f):
    return "None" if v is None else "(Some %s)" % f(v)


def clist(items):
    return "[" + "; ".join(items) + "]"


def caddr(a):
    if a is None:
        raise OutOfModel("empty address")
    if isinstance(a, dict) and "addr" in a:
        return cN(a["addr"])
    raise OutOfModel("unknown address %r" % (a,))


def cts_obj(t):  # {"s":..,"n":..}
    return "{| secs := %s; nanos := %s |}" % (cZ(t["s"]), cZ(t["n"]))


_RFC = re.compile(r"^(-?\d{4,})-(\d\d)-(\d\d)T(\d\d):(\d\d):(\d\d)(?:\.(\d+))?Z$")


def rfc3339(s):
    m = _RFC.match(s)
    if not m:
        raise OutOfModel("timestamp %r" % s)
    y, mo, d, h, mi, se = (int(m.group(i)) for i in range(1, 7))
    frac = m.group(7) or ""
    nanos = int((frac + "000000000")[:9])
    if not (1 <= y <= 9999):
        raise OutOfModel("year %d" % y)
    days = (datetime.date(y, mo, d) - datetime.date(1970, 1, 1)).days
    return {"s": days * 86400 + h * 3600 + mi * 60 + se, "n": nanos}


def cts_str(s):
    return cts_obj(rfc3339(s))


def duration(s):  # "86400s", "1.500s", "-3s"
    m = re.match(r"^(-?)(\d+)(?:\.(\d+))?s$", s)
    if not m:
        raise OutOfModel("duration %r" % s)
    sign = -1 if m.group(1) else 1
    return sign * int(m.group(2)), sign * int(((m.group(3) or "") + "000000000")[:9])


def ccoin(c):
    return "{| c_denom := %s; c_amount := %s |}" % (cbytes(c["denom"]), cZ(c["amount"] if c["amount"] != "" else 0))


def ccoin_opt(c):
    return copt(c, ccoin)


def ccriteria_msg(dc):
    if dc is None:
        return "DCNone"
    # criteria outside the protobuf JSON range are recorded in raw form (harness/chain/trace.go rawCriteriaJSON)
    if dc.get("min_start_date_raw"):
        r = dc["min_start_date_raw"]
        return "(DCMinStart {| secs := %s; nanos := %s |})" % (cZ(int(r["seconds"])), cZ(int(r["nanos"])))
    if dc.get("start_date_window_raw"):
        r = dc["start_date_window_raw"]
        return "(DCWindow %s %s)" % (cZ(int(r["seconds"])), cZ(int(r["nanos"])))
    if dc.get("min_start_date"):
        return "(DCMinStart %s)" % cts_str(dc["min_start_date"])
    if dc.get("start_date_window"):
        s, n = duration(dc["start_date_window"])
        return "(DCWindow %s %s)" % (cZ(s), cZ(n))
    y = int(dc.get("years_in_the_past") or 0)
    return "(DCYears %s)" % cZ(y) if y else "DCNone"


def ccriteria_row(dc):
    if dc is None:
        return "DCNone"
    if dc.get("min_start_date"):
        return "(DCMinStart %s)" % cts_obj(dc["min_start_date"])
    if dc.get("start_date_window"):
        return "(DCWindow %s %s)" % (cZ(dc["start_date_window"]["s"]), cZ(dc["start_date_window"]["n"]))
    y = int(dc.get("years_in_the_past") or 0)
    return "(DCYears %s)" % cZ(y) if y else "DCNone"


# ---------------------------------------------------------------- messages

def issuance(i):
    return ("{| is_recipient := %s; is_tradable := %s; is_retired := %s; is_jurisdiction := %s; is_reason := %s |}"
            % (caddr(i["recipient"]), cbytes(i.get("tradable_amount")), cbytes(i.get("retired_amount")),
               cbytes(i.get("retirement_jurisdiction")), cbytes(i.get("retirement_reason"))))


def origin_tx(o):
    return ("{| ot_id := %s; ot_source := %s; ot_contract := %s; ot_note := %s |}"
            % (cbytes(o.get("id")), cbytes(o.get("source")), cbytes(o.get("contract")), cbytes(o.get("note"))))


def credits(c):
    return "{| cr_denom := %s; cr_amount := %s |}" % (cbytes(c.get("batch_denom")), cbytes(c.get("amount")))


def ts_opt_str(s):
    return copt(s, cts_str)


def msg_term(type_url, m):
    t = type_url.rsplit(".", 1)[-1]
    pkg = type_url.rsplit(".", 1)[0]
    A = caddr
    if pkg == "/regen.ecocredit.v1":
        if t == "MsgCreateClass":
            return "(MCreateClass %s %s %s %s %s)" % (A(m["admin"]), clist([A(x) for x in m.get("issuers") or []]),
                                                      cbytes(m.get("metadata")), cbytes(m.get("credit_type_abbrev")), ccoin_opt(m.get("fee")))
        if t == "MsgCreateProject":
            return "(MCreateProject %s %s %s %s %s)" % (A(m["admin"]), cbytes(m.get("class_id")), cbytes(m.get("metadata")),
                                                        cbytes(m.get("jurisdiction")), cbytes(m.get("reference_id")))
        if t == "MsgCreateBatch":
            return "(MCreateBatch %s %s %s %s %s %s %s %s)" % (
                A(m["issuer"]), cbytes(m.get("project_id")), clist([issuance(i) for i in m.get("issuance") or []]),
                cbytes(m.get("metadata")), ts_opt_str(m.get("start_date")), ts_opt_str(m.get("end_date")),
                cbool(m.get("open")), copt(m.get("origin_tx"), origin_tx))
        if t == "MsgMintBatchCredits":
            return "(MMintBatchCredits %s %s %s %s)" % (A(m["issuer"]), cbytes(m.get("batch_denom")),
                                                        clist([issuance(i) for i in m.get("issuance") or []]), copt(m.get("origin_tx"), origin_tx))
        if t == "MsgSealBatch":
            return "(MSealBatch %s %s)" % (A(m["issuer"]), cbytes(m.get("batch_denom")))
        if t == "MsgSend":
            cs = ["{| sc_denom := %s; sc_tradable := %s; sc_retired := %s; sc_jurisdiction := %s; sc_reason := %s |}"
                  % (cbytes(c.get("batch_denom")), cbytes(c.get("tradable_amount")), cbytes(c.get("retired_amount")),
                     cbytes(c.get("retirement_jurisdiction")), cbytes(c.get("retirement_reason"))) for c in m.get("credits") or []]
            return "(MSend %s %s %s)" % (A(m["sender"]), A(m["recipient"]), clist(cs))
        if t == "MsgRetire":
            return "(MRetire %s %s %s %s)" % (A(m["owner"]), clist([credits(c) for c in m.get("credits") or []]),
                                              cbytes(m.get("jurisdiction")), cbytes(m.get("reason")))
        if t == "MsgCancel":
            return "(MCancel %s %s %s)" % (A(m["owner"]), clist([credits(c) for c in m.get("credits") or []]), cbytes(m.get("reason")))
        if t == "MsgUpdateClassAdmin":
            return "(MUpdateClassAdmin %s %s %s)" % (A(m["admin"]), cbytes(m.get("class_id")), A(m["new_admin"]))
        if t == "MsgUpdateClassIssuers":
            return "(MUpdateClassIssuers %s %s %s %s)" % (A(m["admin"]), cbytes(m.get("class_id")),
                                                          clist([A(x) for x in m.get("add_issuers") or []]), clist([A(x) for x in m.get("remove_issuers") or []]))
        if t == "MsgUpdateClassMetadata":
            return "(MUpdateClassMetadata %s %s %s)" % (A(m["admin"]), cbytes(m.get("class_id")), cbytes(m.get("new_metadata")))
        if t == "MsgUpdateProjectAdmin":
            return "(MUpdateProjectAdmin %s %s %s)" % (A(m["admin"]), cbytes(m.get("project_id")), A(m["new_admin"]))
        if t == "MsgUpdateProjectMetadata":
            return "(MUpdateProjectMetadata %s %s %s)" % (A(m["admin"]), cbytes(m.get("project_id")), cbytes(m.get("new_metadata")))
        if t == "MsgUpdateBatchMetadata":
            return "(MUpdateBatchMetadata %s %s %s)" % (A(m["issuer"]), cbytes(m.get("batch_denom")), cbytes(m.get("new_metadata")))
        if t == "MsgBridge":
            return "(MBridge %s %s %s %s)" % (A(m["owner"]), cbytes(m.get("target")), cbytes(m.get("recipient")),
                                              clist([credits(c) for c in m.get("credits") or []]))
        if t == "MsgBridgeReceive":
            pj = m.get("project")
            ba = m.get("batch")
            pjt = copt(pj, lambda p: "{| brp_reference_id := %s; brp_jurisdiction := %s; brp_metadata := %s |}"
                       % (cbytes(p.get("reference_id")), cbytes(p.get("jurisdiction")), cbytes(p.get("metadata"))))
            bat = copt(ba, lambda x: "{| brb_recipient := %s; brb_amount := %s; brb_start := %s; brb_end := %s; brb_metadata := %s |}"
                       % (A(x["recipient"]), cbytes(x.get("amount")), ts_opt_str(x.get("start_date")), ts_opt_str(x.get("end_date")), cbytes(x.get("metadata"))))
            return "(MBridgeReceive %s %s %s %s %s)" % (A(m["issuer"]), cbytes(m.get("class_id")), pjt, bat, copt(m.get("origin_tx"), origin_tx))
        if t == "MsgAddCreditType":
            ct = m.get("credit_type")
            if ct is None:
                raise OutOfModel("nil credit type")
            return "(MAddCreditType %s %s %s %s %s)" % (A(m["authority"]), cbytes(ct.get("abbreviation")), cbytes(ct.get("name")),
                                                        cbytes(ct.get("unit")), cZ(ct.get("precision") or 0))
        if t == "MsgSetClassCreatorAllowlist":
            return "(MSetClassCreatorAllowlist %s %s)" % (A(m["authority"]), cbool(m.get("enabled")))
        if t == "MsgAddClassCreator":
            return "(MAddClassCreator %s %s)" % (A(m["authority"]), A(m["creator"]))
        if t == "MsgRemoveClassCreator":
            return "(MRemoveClassCreator %s %s)" % (A(m["authority"]), A(m["creator"]))
        if t == "MsgUpdateClassFee":
            return "(MUpdateClassFee %s %s)" % (A(m["authority"]), ccoin_opt(m.get("fee")))
        if t == "MsgAddAllowedBridgeChain":
            return "(MAddAllowedBridgeChain %s %s)" % (A(m["authority"]), cbytes(m.get("chain_name")))
        if t == "MsgRemoveAllowedBridgeChain":
            return "(MRemoveAllowedBridgeChain %s %s)" % (A(m["authority"]), cbytes(m.get("chain_name")))
        if t == "MsgBurnRegen":
            return "(MBurnRegen %s %s %s)" % (A(m["burner"]), cbytes(m.get("amount")), cbytes(m.get("reason")))
        if t in ("MsgCreateUnregisteredProject", "MsgCreateOrUpdateApplication", "MsgUpdateProjectEnrollment", "MsgUpdateProjectFee"):
            signer = m.get("admin") or m.get("project_admin") or m.get("issuer") or m.get("authority")
            return "(MUnimplemented %s)" % A(signer)
    if pkg == "/regen.ecocredit.basket.v1":
        if t == "MsgCreate":
            return "(MBasketCreate %s %s %s %s %s %s %s %s)" % (
                A(m["curator"]), cbytes(m.get("name")), cbytes(m.get("description")), cbool(m.get("disable_auto_retire")),
                cbytes(m.get("credit_type_abbrev")), clist([cbytes(c) for c in m.get("allowed_classes") or []]),
                ccriteria_msg(m.get("date_criteria")), clist([ccoin(c) for c in m.get("fee") or []]))
        if t == "MsgPut":
            cs = ["{| bcr_denom := %s; bcr_amount := %s |}" % (cbytes(c.get("batch_denom")), cbytes(c.get("amount"))) for c in m.get("credits") or []]
            return "(MPut %s %s %s)" % (A(m["owner"]), cbytes(m.get("basket_denom")), clist(cs))
        if t == "MsgTake":
            return "(MTake %s %s %s %s %s %s %s)" % (A(m["owner"]), cbytes(m.get("basket_denom")), cbytes(m.get("amount")),
                                                     cbytes(m.get("retirement_location")), cbool(m.get("retire_on_take")),
                                                     cbytes(m.get("retirement_jurisdiction")), cbytes(m.get("retirement_reason")))
        if t == "MsgUpdateBasketFee":
            return "(MUpdateBasketFee %s %s)" % (A(m["authority"]), ccoin_opt(m.get("fee")))
        if t == "MsgUpdateCurator":
            return "(MUpdateCurator %s %s %s)" % (A(m["curator"]), cbytes(m.get("denom")), A(m["new_curator"]))
        if t == "MsgUpdateDateCriteria":
            return "(MUpdateDateCriteria %s %s %s)" % (A(m["authority"]), cbytes(m.get("denom")), ccriteria_msg(m.get("new_date_criteria")))
    if pkg == "/regen.ecocredit.marketplace.v1":
        if t == "MsgSell":
            os_ = ["{| sl_denom := %s; sl_quantity := %s; sl_ask := %s; sl_disable_auto_retire := %s; sl_expiration := %s |}"
                   % (cbytes(o.get("batch_denom")), cbytes(o.get("quantity")), ccoin_opt(o.get("ask_price")),
                      cbool(o.get("disable_auto_retire")), ts_opt_str(o.get("expiration"))) for o in m.get("orders") or []]
            return "(MSell %s %s)" % (A(m["seller"]), clist(os_))
        if t == "MsgUpdateSellOrders":
            us = ["{| up_id := %s; up_quantity := %s; up_ask := %s; up_disable_auto_retire := %s; up_expiration := %s |}"
                  % (cN(u.get("sell_order_id") or 0), cbytes(u.get("new_quantity")), ccoin_opt(u.get("new_ask_price")),
                     cbool(u.get("disable_auto_retire")), ts_opt_str(u.get("new_expiration"))) for u in m.get("updates") or []]
            return "(MUpdateSellOrders %s %s)" % (A(m["seller"]), clist(us))
        if t == "MsgCancelSellOrder":
            return "(MCancelSellOrder %s %s)" % (A(m["seller"]), cN(m.get("sell_order_id") or 0))
        if t == "MsgBuyDirect":
            os_ = ["{| by_id := %s; by_quantity := %s; by_bid := %s; by_disable_auto_retire := %s; by_jurisdiction := %s; by_reason := %s; by_max_fee := %s |}"
                   % (cN(o.get("sell_order_id") or 0), cbytes(o.get("quantity")), ccoin_opt(o.get("bid_price")),
                      cbool(o.get("disable_auto_retire")), cbytes(o.get("retirement_jurisdiction")), cbytes(o.get("retirement_reason")),
                      ccoin_opt(o.get("max_fee_amount"))) for o in m.get("orders") or []]
            return "(MBuyDirect %s %s)" % (A(m["buyer"]), clist(os_))
        if t == "MsgAddAllowedDenom":
            return "(MAddAllowedDenom %s %s %s %s)" % (A(m["authority"]), cbytes(m.get("bank_denom")), cbytes(m.get("display_denom")), cZ(m.get("exponent") or 0))
        if t == "MsgRemoveAllowedDenom":
            return "(MRemoveAllowedDenom %s %s)" % (A(m["authority"]), cbytes(m.get("denom")))
        if t == "MsgGovSetFeeParams":
            f = m.get("fees")
            return "(MGovSetFeeParams %s %s)" % (A(m["authority"]), copt(f, lambda x: "{| fp_buyer := %s; fp_seller := %s |}"
                                                                       % (cbytes(x.get("buyer_percentage_fee")), cbytes(x.get("seller_percentage_fee")))))
        if t == "MsgGovSendFromFeePool":
            return "(MGovSendFromFeePool %s %s %s)" % (A(m["authority"]), A(m["recipient"]), clist([ccoin(c) for c in m.get("coins") or []]))
    if type_url == "/cosmos.bank.v1beta1.MsgSend":
        return "(MBankSend %s %s %s)" % (A(m["from_address"]), A(m["to_address"]), clist([ccoin(c) for c in m.get("amount") or []]))
    raise OutOfModel("message type " + type_url)


# ---------------------------------------------------------------- rows

SEQ_IDS = {"Class": 0, "Project": 1, "Batch": 2, "Basket": 3, "SellOrder": 4, "Market": 5}
COUNT_IDS = {"Class": 0, "Project": 1, "Batch": 2, "Basket": 3, "SellOrder": 4, "Market": 5, "BatchBalance": 6, "BatchSupply": 7,
             "BasketBalance": 8, "ClassIssuer": 9, "OriginTxIndex": 10, "BatchContract": 11, "CreditType": 12, "BasketClass": 13,
             "AllowedDenom": 14, "AllowedClassCreator": 15, "AllowedBridgeChain": 16, "ClassSequence": 17, "ProjectSequence": 18,
             "BatchSequence": 19}
IGNORED_TABLES = {"ProjectEnrollment", "ProjectFee", "DataID", "DataAnchor", "DataAttestor", "Resolver", "DataResolver"}


def fee_row(r):
    f = r.get("fee")
    return ccoin_opt(f)


def row_term(table, r, present=True):
    """The rowv term for row r of table (present) or for its primary key (absent)."""
    P = present
    if table == "CreditType":
        return "(XCreditType %s %s)" % (cbytes(r["abbreviation"]), "(Some (%s, %s, %s))" % (cbytes(r["name"]), cbytes(r["unit"]), cZ(r["precision"])) if P else "None")
    if table == "Class":
        v = "(Some {| cl_id := %s; cl_admin := %s; cl_metadata := %s; cl_ct := %s |})" % (cbytes(r["id"]), caddr(r["admin"]), cbytes(r["metadata"]), cbytes(r["credit_type_abbrev"])) if P else "None"
        return "(XClass %s %s)" % (cN(r["key"]), v)
    if table == "ClassIssuer":
        return "(XIssuer %s %s %s)" % (cN(r["class_key"]), caddr(r["issuer"]), cbool(P))
    if table == "Project":
        v = ("(Some {| pj_id := %s; pj_admin := %s; pj_class_key := %s; pj_jurisdiction := %s; pj_metadata := %s; pj_reference_id := %s |})"
             % (cbytes(r["id"]), caddr(r["admin"]), cN(r["class_key"]), cbytes(r["jurisdiction"]), cbytes(r["metadata"]), cbytes(r["reference_id"]))) if P else "None"
        return "(XProject %s %s)" % (cN(r["key"]), v)
    if table == "Batch":
        if P:
            if r.get("start_date") is None or r.get("end_date") is None or r.get("issuance_date") is None:
                raise OutOfModel("batch without dates")
            v = ("(Some {| ba_issuer := %s; ba_project_key := %s; ba_denom := %s; ba_metadata := %s; ba_start := %s; ba_end := %s; ba_issuance := %s; ba_open := %s |})"
                 % (caddr(r["issuer"]), cN(r["project_key"]), cbytes(r["denom"]), cbytes(r["metadata"]), cts_obj(r["start_date"]), cts_obj(r["end_date"]),
                    cts_obj(r["issuance_date"]), cbool(r["open"])))
        else:
            v = "None"
        return "(XBatch %s %s)" % (cN(r["key"]), v)
    if table == "ClassSequence":
        return "(XClassSeq %s %s)" % (cbytes(r["credit_type_abbrev"]), "(Some %s)" % cN(r["next_sequence"]) if P else "None")
    if table == "ProjectSequence":
        return "(XProjectSeq %s %s)" % (cN(r["class_key"]), "(Some %s)" % cN(r["next_sequence"]) if P else "None")
    if table == "BatchSequence":
        return "(XBatchSeq %s %s)" % (cN(r["project_key"]), "(Some %s)" % cN(r["next_sequence"]) if P else "None")
    if table == "BatchBalance":
        v = "(Some (%s, %s, %s))" % (cbytes(r["tradable_amount"]), cbytes(r["retired_amount"]), cbytes(r["escrowed_amount"])) if P else "None"
        return "(XBalance %s %s %s)" % (caddr(r["address"]), cN(r["batch_key"]), v)
    if table == "BatchSupply":
        v = "(Some (%s, %s, %s))" % (cbytes(r["tradable_amount"]), cbytes(r["retired_amount"]), cbytes(r["cancelled_amount"])) if P else "None"
        return "(XSupply %s %s)" % (cN(r["batch_key"]), v)
    if table == "OriginTxIndex":
        return "(XOriginTx %s %s %s %s)" % (cN(r["class_key"]), cbytes(r["id"]), cbytes(r["source"]), cbool(P))
    if table == "BatchContract":
        return "(XContract %s %s)" % (cN(r["batch_key"]), "(Some (%s, %s))" % (cN(r["class_key"]), cbytes(r["contract"])) if P else "None")
    if table == "ClassCreatorAllowlist":
        return "(XAllowlist %s)" % cbool(r.get("enabled"))
    if table == "AllowedClassCreator":
        return "(XCreator %s %s)" % (caddr(r["address"]), cbool(P))
    if table == "ClassFee":
        return "(XClassFee %s)" % fee_row(r)
    if table == "AllowedBridgeChain":
        return "(XBridgeChain %s %s)" % (cbytes(r["chain_name"]), cbool(P))
    if table == "Basket":
        v = ("(Some {| bk_denom := %s; bk_name := %s; bk_disable_auto_retire := %s; bk_ct := %s; bk_criteria := %s; bk_exponent := %s; bk_curator := %s |})"
             % (cbytes(r["basket_denom"]), cbytes(r["name"]), cbool(r["disable_auto_retire"]), cbytes(r["credit_type_abbrev"]),
                ccriteria_row(r.get("date_criteria")), cZ(r["exponent"]), caddr(r["curator"]))) if P else "None"
        return "(XBasket %s %s)" % (cN(r["id"]), v)
    if table == "BasketClass":
        return "(XBasketClass %s %s %s)" % (cN(r["basket_id"]), cbytes(r["class_id"]), cbool(P))
    if table == "BasketBalance":
        if P and r.get("batch_start_date") is None:
            raise OutOfModel("basket balance without start date")
        v = "(Some (%s, %s))" % (cbytes(r["balance"]), cts_obj(r["batch_start_date"])) if P else "None"
        return "(XBasketBalance %s %s %s)" % (cN(r["basket_id"]), cbytes(r["batch_denom"]), v)
    if table == "BasketFee":
        return "(XBasketFee %s)" % fee_row(r)
    if table == "SellOrder":
        v = ("(Some {| so_seller := %s; so_batch_key := %s; so_quantity := %s; so_market_id := %s; so_ask_amount := %s; so_disable_auto_retire := %s; so_expiration := %s; so_maker := %s |})"
             % (caddr(r["seller"]), cN(r["batch_key"]), cbytes(r["quantity"]), cN(r["market_id"]), cZ(r["ask_amount"]), cbool(r["disable_auto_retire"]),
                copt(r.get("expiration"), cts_obj), cbool(r["maker"]))) if P else "None"
        return "(XOrder %s %s)" % (cN(r["id"]), v)
    if table == "AllowedDenom":
        return "(XAllowedDenom %s %s)" % (cbytes(r["bank_denom"]), "(Some (%s, %s))" % (cbytes(r["display_denom"]), cZ(r["exponent"])) if P else "None")
    if table == "Market":
        v = "(Some {| mk_ct := %s; mk_denom := %s; mk_precision_modifier := %s |})" % (cbytes(r["credit_type_abbrev"]), cbytes(r["bank_denom"]), cZ(r["precision_modifier"])) if P else "None"
        return "(XMarket %s %s)" % (cN(r["id"]), v)
    if table == "FeeParams":
        return "(XFeeParams %s %s)" % (cbytes(r.get("buyer_percentage_fee")), cbytes(r.get("seller_percentage_fee")))
    raise OutOfModel("table " + table)


def state_rows(st, with_counts):
    rows = []
    for table in sorted(st["tables"]):
        if table in IGNORED_TABLES:
            continue
        for r in st["tables"][table]:
            rows.append(row_term(table, r))
        if with_counts and table in COUNT_IDS:
            rows.append("(XCount %s %s)" % (cN(COUNT_IDS[table]), cN(len(st["tables"][table]))))
    for t, v in sorted((st.get("sequences") or {}).items()):
        if t in SEQ_IDS:
            rows.append("(XSeq %s %s)" % (cN(SEQ_IDS[t]), cN(v)))
    for b in st.get("balances") or []:
        acc = b["account"]
        if not (isinstance(acc, dict) and "addr" in acc):
            continue
        for d, v in sorted(b["coins"].items()):
            rows.append("(XBank %s %s %s)" % (cN(acc["addr"]), cbytes(d), cZ(v)))
    for d, v in sorted((st.get("supply") or {}).items()):
        rows.append("(XBankSupply %s %s)" % (cbytes(d), cZ(v)))
    return rows


def diff_rows(diff):
    rows = []
    for table in sorted((diff or {}).get("tables") or {}):
        if table in IGNORED_TABLES:
            continue
        d = diff["tables"][table]
        for r in d.get("deletes") or []:
            rows.append(row_term(table, r, present=False))
        for r in d.get("puts") or []:
            rows.append(row_term(table, r))
    for s in (diff or {}).get("sequences") or []:
        if s["table"] in SEQ_IDS:
            rows.append("(XSeq %s %s)" % (cN(SEQ_IDS[s["table"]]), cN(s["new"])))
    for b in (diff or {}).get("balances") or []:
        acc = b["account"]
        if isinstance(acc, dict) and "addr" in acc:
            rows.append("(XBank %s %s %s)" % (cN(acc["addr"]), cbytes(b["denom"]), cZ(b["new"])))
    for s in (diff or {}).get("supply") or []:
        rows.append("(XBankSupply %s %s)" % (cbytes(s["denom"]), cZ(s["new"])))
    return rows


# ---------------------------------------------------------------- responses / events

def response_term(type_url, res):
    if not res:
        return "REmpty"
    j = res[0].get("json") or {}
    t = res[0].get("type_url", "")
    if t.endswith(".v1.MsgCreateClassResponse"):
        return "(RClassId %s)" % cbytes(j.get("class_id"))
    if t.endswith("MsgCreateProjectResponse"):
        return "(RProjectId %s)" % cbytes(j.get("project_id"))
    if t.endswith("MsgCreateBatchResponse"):
        return "(RBatchDenom %s)" % cbytes(j.get("batch_denom"))
    if t.endswith("MsgBridgeReceiveResponse"):
        return "(RBridgeReceive %s %s)" % (cbytes(j.get("batch_denom")), cbytes(j.get("project_id")))
    if t.endswith("basket.v1.MsgCreateResponse"):
        return "(RBasketDenom %s)" % cbytes(j.get("basket_denom"))
    if t.endswith("MsgPutResponse"):
        return "(RAmountReceived %s)" % cZ(j.get("amount_received") or 0)
    if t.endswith("MsgTakeResponse"):
        return "(RTake %s)" % clist(["(%s, %s)" % (cbytes(c.get("batch_denom")), cbytes(c.get("amount"))) for c in j.get("credits") or []])
    if t.endswith("MsgSellResponse"):
        return "(RSellOrderIds %s)" % clist([cN(x) for x in j.get("sell_order_ids") or []])
    return "REmpty"


def event_terms(events, bech):
    out = []
    for e in events or []:
        a = {x["k"]: x["v"] for x in e.get("attrs") or []}

        def g(k):
            v = a.get(k, '""')
            try:
                return json.loads(v)
            except ValueError:
                return v
        if e["type"] == "regen.ecocredit.v1.EventBridge":
            owner = bech.get(g("owner"))
            if owner is None:
                raise OutOfModel("bridge event owner")
            out.append("(EvBridge %s %s %s %s %s %s)" % (cbytes(g("target")), cbytes(g("recipient")), cbytes(g("contract")), cbytes(g("amount")), cN(owner), cbytes(g("batch_denom"))))
        elif e["type"] == "regen.ecocredit.v1.EventBridgeReceive":
            o = g("origin_tx") or {}
            out.append("(EvBridgeReceive %s %s %s %s)" % (cbytes(g("project_id")), cbytes(g("batch_denom")), cbytes(g("amount")), origin_tx(o)))
    return out


# ---------------------------------------------------------------- address spellings

_PAIRS = {"MsgSend": ("sender", "recipient"), "MsgUpdateClassAdmin": ("admin", "new_admin"),
          "MsgUpdateProjectAdmin": ("admin", "new_admin"), "MsgUpdateCurator": ("curator", "new_curator")}


def spelling_ctor(type_url, m):
    """IMsg for messages in canonical spelling, IMsgSp <spelling> when one of the address strings ValidateBasic or a
    governance handler compares is the upper-case spelling (harness/chain/trace.go marks it with "upper")."""
    if not isinstance(m, dict):
        return "IMsg"
    up = lambda v: bool(isinstance(v, dict) and v.get("upper"))
    t = type_url.rsplit(".", 1)[-1]
    same = True
    if t in _PAIRS:
        a, c = _PAIRS[t]
        same = up(m.get(a)) == up(m.get(c))
    auth = not up(m.get("authority"))
    if same and auth:
        return "IMsg"
    return "IMsgSp {| sp_pair_identical := %s; sp_authority_canonical := %s |}" % (cbool(same), cbool(auth))


# ---------------------------------------------------------------- traces

def trace_case(cid, t):
    bech = {a["bech32"]: a["index"] for a in t.get("accounts") or []}
    items = []
    for it in t["items"]:
        k = it["kind"]
        res = it.get("result") or {}
        if k == "begin":
            ok = bool(res.get("ok")) and not res.get("panicked") and not res.get("err")
            items.append("IBegin {| secs := %s; nanos := %s |} %s %s" % (cZ(it["time_s"]), cZ(it.get("time_n") or 0), cbool(ok), clist(diff_rows(it.get("diff")) if ok else [])))
        elif k == "msg":
            ok = bool(res.get("ok"))
            if it["type_url"].startswith("/regen.data."):
                continue  # data module tables are not part of the ledger model; they do not touch ledger tables
            if it.get("more"):
                # a failed multi-message transaction has no effect (the model's transaction rule, C10); a successful
                # one is outside the per-message evaluator
                if ok:
                    raise OutOfModel("successful multi-message tx")
                continue
            m = msg_term(it["type_url"], it["msg"])
            items.append("%s %s %s %s %s %s" % (spelling_ctor(it["type_url"], it["msg"]), m, cbool(ok), response_term(it["type_url"], res.get("responses")) if ok else "REmpty",
                                                  clist(event_terms(res.get("events"), bech)) if ok else "[]",
                                                  clist(diff_rows(it.get("diff")) if ok else [])))
        elif k == "fund":
            raise OutOfModel("fund item")
        # commit / restart / genesis_rt / query items have no effect on the modelled state
    gen = state_rows(t["genesis"], False)
    fin = state_rows(t["final"], True)
    return ("{| lc_id := %s;\n   lc_genesis := %s;\n   lc_items := [\n     %s];\n   lc_final := %s |}"
            % (cN(cid), clist(gen), ";\n     ".join(items), clist(fin)))


HEADER = """From stdpp Require Import gmap.
From Coq Require Import List ZArith NArith String Strings.Byte.
Require Import Regen.Base.Bytes Regen.Base.Calendar Regen.Dec.Dec.
Require Import Regen.Ledger.Types Regen.Ledger.Msgs Regen.Ledger.Orm Regen.Ledger.Step Regen.Ledger.SpellingModel.
Require Import Regen.Cases.LedgerRun.
Import ListNotations.
Open Scope string_scope.
Open Scope list_scope.
Local Open Scope Z_scope.
"""


def traces_to_shards(outdir, summ):
    tdir = os.path.join(outdir, "traces")
    files = sorted(f for f in os.listdir(tdir) if f.endswith(".json"))
    cases, cj, skipped = [], {}, {}
    cid = 0
    for f in files:
        with open(os.path.join(tdir, f)) as fh:
            t = json.load(fh)
        if (t.get("options") or {}).get("hasher_kind", "prod") != "prod" and all(
                (it.get("type_url") or "").startswith("/regen.data.") for it in t["items"] if it["kind"] == "msg"):
            continue
        if "#skip-model" in str(t.get("id", "")):
            skipped[f] = "marked #skip-model by the generator (amounts of 100k digits)"
            continue
        try:
            term = trace_case(cid, t)
        except OutOfModel as e:
            skipped[f] = str(e)
            continue
        cases.append(term)
        cj[str(cid)] = {"trace": os.path.join("traces", f), "id": t.get("id"), "seed": t.get("seed"), "items": len(t["items"])}
        cid += 1
    shards = []
    for i in range(0, len(cases), PER_SHARD):
        name = "cases_%03d.v" % (i // PER_SHARD)
        with open(os.path.join(outdir, name), "w") as fh:
            fh.write(HEADER)
            fh.write("Definition cases : list lcase := [\n")
            fh.write(";\n".join(cases[i:i + PER_SHARD]))
            fh.write("\n].\nDefinition M := Eval vm_compute in mismatches cases.\nPrint M.\n")
        shards.append(name)
    with open(os.path.join(outdir, "cases.json"), "w") as fh:
        json.dump(cj, fh)
    summ.setdefault("extra", {})["ledger_cases"] = len(cases)
    summ["extra"]["ledger_cases_out_of_model"] = skipped
    return shards


if __name__ == "__main__":
    # stand-alone use: python3 ledger_cases.py <trace.json> <out.v>
    with open(sys.argv[1]) as fh:
        t = json.load(fh)
    with open(sys.argv[2], "w") as fh:
        fh.write(HEADER)
        fh.write("Definition cases : list lcase := [\n" + trace_case(0, t) + "\n].\n")
        fh.write("Definition M := Eval vm_compute in mismatches cases.\nPrint M.\n")
