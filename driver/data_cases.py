"""Converts chain traces (harness/chain Trace JSON) of the `data` family into Coq case shards for
Cases/DataRun.v (property C16: the x/data module state machine).

    traces_to_shards(outdir, summ) -> [shard names]      reads outdir/traces/trace_data_*.json
    python3 data_cases.py <trace.json> <out.v>           one trace, for debugging

What the converter computes itself (independently of the implementation under test):
  * the ID-digest table iri -> digest of the hasher the chain ran with: hashlib.blake2b(digest_size=8)
    for "prod", a re-implementation of chain.WeakDigest for "weak4"/"const";
  * the IRI of every content hash in every message (base58check with double SHA-256), so that the table
    also covers hashes the implementation rejected.  These IRIs only select table entries: the model
    computes every IRI itself (Data/Iri.v) and the evaluator compares it with what the chain reports;
    an IRI missing from the table shows up as a mismatch (empty digest => CreateID "panics");
  * url_ok of MsgDefineResolver: a port of Go's url.ParseRequestURI, cross-checked against the outcome
    of the implementation (a disagreement puts the trace outside the model domain).
"""
import base64, datetime, hashlib, json, os, re, sys

PER_SHARD = int(os.environ.get("VERIF_DATA_PER_SHARD", "10"))
DATA_TABLES = ("DataID", "DataAnchor", "DataAttestor", "Resolver", "DataResolver")
COUNT_IDS = {"DataID": 0, "DataAnchor": 1, "DataAttestor": 2, "Resolver": 3, "DataResolver": 4}


class OutOfModel(Exception):
    pass


# ---------------------------------------------------------------- Coq terms

def cbytes(s):
    if s is None:
        s = ""
    bs = s.encode("utf-8") if isinstance(s, str) else bytes(s)
    if not bs:
        return "[]"
    if all(0x20 <= c <= 0x7e and c != 0x22 for c in bs):
        return '(b "%s")' % bs.decode("ascii")
    return "[" + ";".join("x%02x" % c for c in bs) + "]"


def chexbytes(bs):
    return "[" + ";".join("x%02x" % c for c in bs) + "]"


def cN(n):
    n = int(n)
    if n < 0:
        raise OutOfModel("negative number %d" % n)
    return "%d%%N" % n


def cZ(z):
    z = int(z)
    return "(%d)%%Z" % z if z < 0 else "%d%%Z" % z


def cbool(v):
    return "true" if v else "false"


def copt(v, f):
    return "None" if v is None else "(Some %s)" % f(v)


def clist(items):
    return "[" + "; ".join(items) + "]"


def caddr(a):
    if isinstance(a, dict) and "addr" in a:
        return cN(a["addr"])
    raise OutOfModel("address outside the account table: %r" % (a,))


def cts_obj(t):  # {"s":..,"n":..}
    if t is None:
        raise OutOfModel("null timestamp in a stored row")
    return "{| secs := %s; nanos := %s |}" % (cZ(t["s"]), cZ(t["n"]))


_RFC = re.compile(r"^(\d{4})-(\d\d)-(\d\d)T(\d\d):(\d\d):(\d\d)(?:\.(\d+))?Z$")


def rfc3339(s):
    m = _RFC.match(s or "")
    if not m:
        raise OutOfModel("timestamp %r" % (s,))
    y, mo, d, h, mi, se = (int(m.group(i)) for i in range(1, 7))
    nanos = int(((m.group(7) or "") + "000000000")[:9])
    if not (1 <= y <= 9999):
        raise OutOfModel("year %d" % y)
    days = (datetime.date(y, mo, d) - datetime.date(1970, 1, 1)).days
    return {"s": days * 86400 + h * 3600 + mi * 60 + se, "n": nanos}


# ---------------------------------------------------------------- IRIs and digests (independent re-computation)

_B58 = "123456789ABCDEFGHJKLMNPQRSTUVWXYZabcdefghijkmnopqrstuvwxyz"


def b58check(payload, version=0):
    bz = bytes([version]) + payload
    bz += hashlib.sha256(hashlib.sha256(bz).digest()).digest()[:4]
    n = int.from_bytes(bz, "big")
    out = ""
    while n > 0:
        n, r = divmod(n, 58)
        out = _B58[r] + out
    zeros = len(bz) - len(bz.lstrip(b"\0"))
    return "1" * zeros + out


def iri_raw(r):
    return "regen:%s.%s" % (b58check(bytes([0, int(r.get("digest_algorithm") or 0) & 0xff]) + _hash(r)), r.get("file_extension") or "")


def iri_graph(g):
    return "regen:%s.rdf" % b58check(bytes([1, int(g.get("canonicalization_algorithm") or 0) & 0xff, int(g.get("merkle_tree") or 0) & 0xff,
                                            int(g.get("digest_algorithm") or 0) & 0xff]) + _hash(g))


def _hash(x):
    return base64.b64decode(x.get("hash") or "")


def _enum(v):
    """proto JSON renders uint32 fields as numbers; be liberal with strings."""
    if v is None:
        return 0
    if isinstance(v, (int, float)):
        return int(v)
    if isinstance(v, str) and re.match(r"^\d+$", v):
        return int(v)
    raise OutOfModel("enum value %r" % (v,))


def fnv32a(bs):
    h = 0x811c9dc5
    for c in bs:
        h = ((h ^ c) * 0x01000193) & 0xffffffff
    return h


def digest(kind, iri):
    """chain.WeakDigest / the production BLAKE2b-64 of []byte(iri)."""
    bs = iri.encode("utf-8")
    if kind in ("", "prod", None):
        return hashlib.blake2b(bs, digest_size=8).digest()
    if kind == "weak4":
        v = (fnv32a(bs) % 4) * 8
    elif kind == "const":
        v = 0
    else:
        raise OutOfModel("hasher kind %r" % (kind,))
    return bytes((v + i) & 0xff for i in range(8))


# ---------------------------------------------------------------- url.ParseRequestURI (Go 1.23 net/url)

def _alnum(c):
    return (0x61 <= c <= 0x7a) or (0x41 <= c <= 0x5a) or (0x30 <= c <= 0x39)


def _should_escape_host(c):
    if _alnum(c):
        return False
    if c in b"!$&'()*+,;=:[]<>\"":
        return False
    if c in b"-_.~":
        return False
    return True


def _ishex(c):
    return (0x30 <= c <= 0x39) or (0x61 <= c <= 0x66) or (0x41 <= c <= 0x46)


def _unescape_ok(s, mode):
    """Does url.unescape(s, mode) succeed?  mode in host, zone, path, user."""
    i = 0
    while i < len(s):
        c = s[i]
        if c == 0x25:
            if i + 2 >= len(s) or not _ishex(s[i + 1]) or not _ishex(s[i + 2]):
                return False
            hi = int(chr(s[i + 1]), 16)
            v = int(s[i + 1:i + 3].decode("ascii"), 16)
            if mode == "host" and hi < 8 and s[i:i + 3] != b"%25":
                return False
            if mode == "zone" and s[i:i + 3] != b"%25" and v != 0x20 and _should_escape_host(v):
                return False
            i += 3
        else:
            if mode in ("host", "zone") and c < 0x80 and _should_escape_host(c):
                return False
            i += 1
    return True


def _valid_optional_port(p):
    if p == b"":
        return True
    if p[0] != 0x3a:
        return False
    return all(0x30 <= c <= 0x39 for c in p[1:])


def _parse_host_ok(host):
    if host.startswith(b"["):
        i = host.rfind(b"]")
        if i < 0:
            return False
        if not _valid_optional_port(host[i + 1:]):
            return False
        zone = host[:i].find(b"%25")
        if zone >= 0:
            return _unescape_ok(host[:zone], "host") and _unescape_ok(host[zone:i], "zone") and _unescape_ok(host[i:], "host")
    else:
        i = host.rfind(b":")
        if i != -1 and not _valid_optional_port(host[i:]):
            return False
    return _unescape_ok(host, "host")


def _valid_userinfo(s):
    try:
        text = s.decode("utf-8")
    except UnicodeDecodeError:
        return False  # utf8.RuneError is not in the allowed set
    return all(ch.isascii() and (ch.isalnum() or ch in "-._:~!$&'()*+,;=%@") for ch in text)


def _parse_authority_ok(a):
    i = a.rfind(b"@")
    if not _parse_host_ok(a if i < 0 else a[i + 1:]):
        return False
    if i < 0:
        return True
    userinfo = a[:i]
    if not _valid_userinfo(userinfo):
        return False
    if b":" not in userinfo:
        return _unescape_ok(userinfo, "user")
    u, _, p = userinfo.partition(b":")
    return _unescape_ok(u, "user") and _unescape_ok(p, "user")


def parse_request_uri_ok(raw):
    """True iff url.ParseRequestURI(raw) returns a nil error."""
    s = raw.encode("utf-8") if isinstance(raw, str) else bytes(raw)
    if any(c < 0x20 or c == 0x7f for c in s):
        return False
    if s == b"":
        return False
    if s == b"*":
        return True
    # getScheme
    scheme, rest = b"", s
    for i, c in enumerate(s):
        if (0x61 <= c <= 0x7a) or (0x41 <= c <= 0x5a):
            continue
        if (0x30 <= c <= 0x39) or c in b"+-.":
            if i == 0:
                break
            continue
        if c == 0x3a:
            if i == 0:
                return False  # missing protocol scheme
            scheme, rest = s[:i], s[i + 1:]
            break
        break
    if rest.endswith(b"?") and rest.count(b"?") == 1:
        rest = rest[:-1]
    else:
        rest = rest.partition(b"?")[0]
    if not rest.startswith(b"/"):
        return scheme != b""   # opaque, or "invalid URI for request"
    if scheme != b"" and rest.startswith(b"//"):
        authority, rest = rest[2:], b""
        i = authority.find(b"/")
        if i >= 0:
            authority, rest = authority[:i], authority[i:]
        if not _parse_authority_ok(authority):
            return False
    return _unescape_ok(rest, "path")


# ---------------------------------------------------------------- messages

def craw(r):
    return "(mkRaw %s %s %s)" % (chexbytes(_hash(r)), cN(_enum(r.get("digest_algorithm"))), cbytes(r.get("file_extension")))


def cgraph(g):
    return "(mkGraph %s %s %s %s)" % (chexbytes(_hash(g)), cN(_enum(g.get("digest_algorithm"))),
                                      cN(_enum(g.get("canonicalization_algorithm"))), cN(_enum(g.get("merkle_tree"))))


def cch(ch):
    if ch is None:
        raise OutOfModel("nil entry in a content hash list")
    return "(mkCH %s %s)" % (copt(ch.get("raw"), craw), copt(ch.get("graph"), cgraph))


def msg_iris(type_url, m):
    """IRIs of every content hash of the message (for the digest table)."""
    t = type_url.rsplit(".", 1)[-1]
    out = []

    def of_ch(ch):
        if not ch:
            return
        if ch.get("raw"):
            out.append(iri_raw(ch["raw"]))
        if ch.get("graph"):
            out.append(iri_graph(ch["graph"]))
    if t == "MsgAnchor":
        of_ch(m.get("content_hash"))
    elif t == "MsgAttest":
        for g in m.get("content_hashes") or []:
            if g:
                out.append(iri_graph(g))
    elif t == "MsgRegisterResolver":
        for ch in m.get("content_hashes") or []:
            of_ch(ch)
    return out


def msg_term(type_url, m, res):
    pkg, t = type_url.rsplit(".", 1)
    if pkg != "/regen.data.v2":
        raise OutOfModel("message type " + type_url)
    if t == "MsgAnchor":
        return "(DAnchor %s %s)" % (caddr(m.get("sender")), copt(m.get("content_hash"), cch))
    if t == "MsgAttest":
        gs = m.get("content_hashes") or []
        if any(g is None for g in gs):
            raise OutOfModel("nil entry in a content hash list")
        return "(DAttest %s %s)" % (caddr(m.get("attestor")), clist([cgraph(g) for g in gs]))
    if t == "MsgDefineResolver":
        url = m.get("resolver_url") or ""
        ok = parse_request_uri_ok(url)
        go_rejected = (not res.get("ok")) and "invalid resolver url" in (res.get("log") or "")
        if ok == go_rejected:
            raise OutOfModel("ParseRequestURI port disagrees with Go on %r" % url)
        return "(DDefineResolver %s %s %s %s)" % (caddr(m.get("definer")), cbytes(url), cbool(ok), cbool(m.get("public")))
    if t == "MsgRegisterResolver":
        return "(DRegisterResolver %s %s %s)" % (caddr(m.get("signer")), cN(m.get("resolver_id") or 0),
                                                 clist([cch(c) for c in m.get("content_hashes") or []]))
    raise OutOfModel("message type " + type_url)


def response_term(type_url, res):
    t = type_url.rsplit(".", 1)[-1]
    rs = res.get("responses") or []
    j = (rs[0].get("json") or {}) if rs else {}
    if t == "MsgAnchor":
        return "(RAnchored %s %s)" % (cbytes(j.get("iri")), cts_obj(rfc3339(j.get("timestamp"))))
    if t == "MsgAttest":
        return "(RAttested %s %s)" % (clist([cbytes(i) for i in j.get("iris") or []]), cts_obj(rfc3339(j.get("timestamp"))))
    if t == "MsgDefineResolver":
        return "(RDefined %s)" % cN(j.get("resolver_id") or 0)
    return "RRegistered"


# ---------------------------------------------------------------- rows

def hexid(x):
    if not (isinstance(x, dict) and "hex" in x):
        raise OutOfModel("id %r" % (x,))
    return chexbytes(bytes.fromhex(x["hex"]))


def copt_addr(a):
    return "None" if a is None else "(Some %s)" % caddr(a)


def row_term(table, r, present=True):
    P = present
    if table == "DataID":
        return "(XDataID %s %s)" % (hexid(r["id"]), "(Some %s)" % cbytes(r["iri"]) if P else "None")
    if table == "DataAnchor":
        return "(XAnchor %s %s)" % (hexid(r["id"]), "(Some %s)" % cts_obj(r["timestamp"]) if P else "None")
    if table == "DataAttestor":
        return "(XAttestor %s %s %s)" % (hexid(r["id"]), caddr(r["attestor"]), "(Some %s)" % cts_obj(r["timestamp"]) if P else "None")
    if table == "Resolver":
        return "(XResolver %s %s)" % (cN(r["id"]), "(Some (%s, %s))" % (cbytes(r["url"]), copt_addr(r.get("manager"))) if P else "None")
    if table == "DataResolver":
        return "(XDataResolver %s %s %s)" % (hexid(r["id"]), cN(r["resolver_id"]), cbool(P))
    raise OutOfModel("table " + table)


def state_rows(st, with_counts):
    rows = []
    for table in DATA_TABLES:
        trs = (st.get("tables") or {}).get(table)
        if trs is None:
            raise OutOfModel("state without table " + table)
        for r in trs:
            rows.append(row_term(table, r))
        if with_counts:
            rows.append("(XCount %s %s)" % (cN(COUNT_IDS[table]), cN(len(trs))))
    rows.append("(XResolverSeq %s)" % cN((st.get("sequences") or {}).get("Resolver", 0)))
    return rows


def diff_rows(diff):
    rows = []
    for table in DATA_TABLES:
        d = ((diff or {}).get("tables") or {}).get(table)
        if not d:
            continue
        for r in d.get("deletes") or []:
            rows.append(row_term(table, r, present=False))
        for r in d.get("puts") or []:
            rows.append(row_term(table, r))
    for s in (diff or {}).get("sequences") or []:
        if s["table"] == "Resolver":
            rows.append("(XResolverSeq %s)" % cN(s["new"]))
    return rows


def state_iris(st):
    return [r["iri"] for r in (st.get("tables") or {}).get("DataID") or []]


# ---------------------------------------------------------------- traces

def trace_case(cid, t):
    opts = t.get("options") or {}
    kind = opts.get("hasher_kind") or "prod"
    if int(opts.get("gas_limit") or 0) != 0:
        raise OutOfModel("gas-limited trace (gas is not modelled)")
    iris = set(state_iris(t["genesis"])) | set(state_iris(t["final"]))
    items = []
    for it in t["items"]:
        k = it["kind"]
        res = it.get("result") or {}
        if k == "begin":
            if res.get("panicked") or res.get("err"):
                raise OutOfModel("begin blocker failed")
            items.append("IBegin {| secs := %s; nanos := %s |}" % (cZ(it["time_s"]), cZ(it.get("time_n") or 0)))
            if diff_rows(it.get("diff")):
                items.append("IOther %s" % clist(diff_rows(it.get("diff"))))
        elif k == "msg":
            ok = bool(res.get("ok"))
            if it.get("more"):
                # a multi-message transaction that failed as a whole is a no-op of the model (C10: no trace); if the
                # implementation left a diff behind, the model is forced to follow it and the monitors report it
                if ok:
                    raise OutOfModel("successful multi-message tx")
                if it.get("diff") and diff_rows(it.get("diff")):
                    items.append("IOther %s" % clist(diff_rows(it.get("diff"))))
                continue
            if not it["type_url"].startswith("/regen.data."):
                items.append("IOther %s" % clist(diff_rows(it.get("diff"))))
                continue
            if res.get("panicked"):
                raise OutOfModel("handler panic: %s" % (res.get("panic_value"),))
            if not ok and (res.get("codespace"), res.get("code")) == ("sdk", 11):
                raise OutOfModel("out of gas")
            m = it["msg"]
            for i in msg_iris(it["type_url"], m):
                iris.add(i)
            for table_diff in [((it.get("diff") or {}).get("tables") or {}).get("DataID") or {}]:
                for r in table_diff.get("puts") or []:
                    iris.add(r["iri"])
            obs = ("(OOk %s)" % response_term(it["type_url"], res)) if ok else \
                  ("(OFail %s %s)" % (cbytes(res.get("codespace") or ""), cN(res.get("code") or 0)))
            items.append("IMsg %s %s %s" % (msg_term(it["type_url"], m, res), obs, clist(diff_rows(it.get("diff")))))
        elif k == "fund":
            items.append("IOther %s" % clist(diff_rows(it.get("diff"))))
        elif k in ("restart", "genesis_rt", "query", "commit"):
            if it.get("diff") and diff_rows(it.get("diff")):
                items.append("IOther %s" % clist(diff_rows(it.get("diff"))))
        else:
            raise OutOfModel("item kind " + k)
    table = clist(["(%s, %s)" % (cbytes(i), chexbytes(digest(kind, i))) for i in sorted(iris)])
    gen = state_rows(t["genesis"], False)
    fin = state_rows(t["final"], True)
    return ("{| dc_id := %s;\n   dc_hasher := %s;\n   dc_genesis := %s;\n   dc_items := [\n     %s];\n   dc_final := %s |}"
            % (cN(cid), table, clist(gen), ";\n     ".join(items), clist(fin)))


HEADER = """From Coq Require Import List ZArith NArith String Strings.Byte.
Require Import Regen.Base.Bytes Regen.Base.Calendar Regen.Data.Iri Regen.Data.DataMsgs.
Require Import Regen.Cases.DataRun.
Import ListNotations.
Open Scope string_scope.
Open Scope list_scope.
"""

FOOTER = "\n].\nDefinition M := Eval vm_compute in mismatches cases.\nPrint M.\n"


def traces_to_shards(outdir, summ):
    tdir = os.path.join(outdir, "traces")
    files = sorted(f for f in os.listdir(tdir) if re.match(r"^trace_data_.*\.json$", f)) if os.path.isdir(tdir) else []
    cases, cj, skipped, kinds = [], {}, {}, {}
    cid = 0
    for f in files:
        with open(os.path.join(tdir, f)) as fh:
            t = json.load(fh)
        try:
            term = trace_case(cid, t)
        except OutOfModel as e:
            skipped[f] = str(e)
            continue
        cases.append(term)
        kind = (t.get("options") or {}).get("hasher_kind") or "prod"
        kinds[kind] = kinds.get(kind, 0) + 1
        cj["data:%d" % cid] = {"trace": os.path.join("traces", f), "id": t.get("id"), "seed": t.get("seed"),
                               "hasher_kind": kind, "items": len(t["items"]),
                               "data_msgs": sum(1 for it in t["items"] if it["kind"] == "msg" and it["type_url"].startswith("/regen.data."))}
        cid += 1
    shards = []
    for i in range(0, len(cases), PER_SHARD):
        name = "cases_data_%03d.v" % (i // PER_SHARD)
        with open(os.path.join(outdir, name), "w") as fh:
            fh.write(HEADER)
            fh.write("Definition cases : list dcase := [\n")
            fh.write(";\n".join(cases[i:i + PER_SHARD]))
            fh.write(FOOTER)
        shards.append(name)
    # merge into cases.json (other converters write their own keys)
    path = os.path.join(outdir, "cases.json")
    merged = {}
    if os.path.exists(path):
        try:
            with open(path) as fh:
                merged = json.load(fh)
        except ValueError:
            merged = {}
    merged = {k: v for k, v in merged.items() if not k.startswith("data:")}
    merged.update(cj)
    with open(path, "w") as fh:
        json.dump(merged, fh)
    extra = summ.setdefault("extra", {})
    extra["data_cases"] = len(cases)
    extra["data_cases_by_hasher"] = kinds
    extra["data_cases_out_of_model"] = skipped
    return shards


if __name__ == "__main__":
    with open(sys.argv[1]) as fh:
        tr = json.load(fh)
    with open(sys.argv[2], "w") as fh:
        fh.write(HEADER)
        fh.write("Definition cases : list dcase := [\n" + trace_case(0, tr))
        fh.write(FOOTER)
