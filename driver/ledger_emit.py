"""Post-processing of family outputs: families that emit Coq case shards themselves need nothing;
the ledger family emits JSON traces which are converted into case shards here."""
import os


def prepare_family(fam, summ, outdir):
    emit = fam.get("emit")
    if emit == "ledger":
        from ledger_cases import traces_to_shards
        summ["shards"] = traces_to_shards(outdir, summ)
    elif emit == "genesis":
        from genesis_cases import traces_to_genesis_shards
        shards, info = traces_to_genesis_shards(outdir, summ)
        summ["shards"] = shards
        summ.setdefault("extra", {})["genesis_cases"] = info
    elif emit == "data":
        from data_cases import traces_to_shards
        summ["shards"] = traces_to_shards(outdir, summ)
    return summ
