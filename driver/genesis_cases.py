"""Converts the genesis round trips recorded in chain traces into Coq case shards for Cases/GenesisRun.v
(property C09).

For every `genesis_rt` item of every trace in <outdir>/traces/*.json the module state at that point is
reconstructed (genesis snapshot + the diffs of the preceding items, see apply_diff), printed as the
row list of Cases/LedgerRun.v and paired with the verdict of the REAL ecocredit ValidateGenesis:
    observed = "ecocredit" not in item["genesis_rt"]["validate_errs"]

Stand-alone use:
    python3 genesis_cases.py <outdir>            # reads <outdir>/traces, writes <outdir>/cases_genesis_NNN.v,
                                                 # <outdir>/cases_genesis.json, prints a summary line
"""
import copy, json, os, sys

sys.path.insert(0, os.path.dirname(os.path.abspath(__file__)))
import ledger_cases as lc  # row printers (row_term, cN, ...), OutOfModel

PER_SHARD = int(os.environ.get("VERIF_GENESIS_PER_SHARD", "12"))

# tables of the ecocredit module the model knows (everything else is ignored, like ledger_cases does)
ECO_TABLES = set(lc.COUNT_IDS) | {"ClassCreatorAllowlist", "ClassFee", "BasketFee", "FeeParams"}


# ---------------------------------------------------------------- state reconstruction

# primary keys of the 31 tables (harness/chain TableInfo.primary_key); used when no trace["tables"] is at hand
DEFAULT_PK = {'AllowedBridgeChain': ['chain_name'], 'AllowedClassCreator': ['address'], 'AllowedDenom': ['bank_denom'],
              'Basket': ['id'], 'BasketBalance': ['basket_id', 'batch_denom'], 'BasketClass': ['basket_id', 'class_id'],
              'BasketFee': [], 'Batch': ['key'], 'BatchBalance': ['address', 'batch_key'], 'BatchContract': ['batch_key'],
              'BatchSequence': ['project_key'], 'BatchSupply': ['batch_key'], 'Class': ['key'], 'ClassCreatorAllowlist': [],
              'ClassFee': [], 'ClassIssuer': ['class_key', 'issuer'], 'ClassSequence': ['credit_type_abbrev'],
              'CreditType': ['abbreviation'], 'DataAnchor': ['id'], 'DataAttestor': ['id', 'attestor'], 'DataID': ['id'],
              'DataResolver': ['id', 'resolver_id'], 'FeeParams': [], 'Market': ['id'],
              'OriginTxIndex': ['class_key', 'id', 'source'], 'Project': ['key'],
              'ProjectEnrollment': ['project_key', 'class_key'], 'ProjectFee': [], 'ProjectSequence': ['class_key'],
              'Resolver': ['id'], 'SellOrder': ['id']}
DEFAULT_INFOS = {t: {"name": t, "primary_key": pk} for t, pk in DEFAULT_PK.items()}


def pk_of(info, row):
    return tuple(json.dumps(row.get(f), sort_keys=True) for f in info["primary_key"])


def apply_diff(state, diff, infos=None):
    """Applies a StateDiff (harness/chain README, section StateDiff) to a State in place.
    infos: table name -> TableInfo (trace["tables"]); defaults to the primary keys in DEFAULT_PK.
    tables: deletes are primary-key projections, puts are full rows (insert or update);
    sequences: {"table","old","new"}; balances: {"account","denom","old","new"}; supply: {"denom","old","new"}."""
    if not diff:
        return state
    if infos is None:
        infos = DEFAULT_INFOS
    for table, d in (diff.get("tables") or {}).items():
        rows = state["tables"].setdefault(table, [])
        info = infos[table]
        if not info["primary_key"]:                       # singleton: exactly one row
            for r in d.get("puts") or []:
                state["tables"][table] = [r]
            continue
        index = {pk_of(info, r): i for i, r in enumerate(rows)}
        dead = set()
        for r in d.get("deletes") or []:
            k = pk_of(info, r)
            if k not in index:
                raise ValueError("diff deletes a missing row of %s: %r" % (table, r))
            dead.add(index.pop(k))
        for r in d.get("puts") or []:
            k = pk_of(info, r)
            if k in index:
                rows[index[k]] = r
            else:
                index[k] = len(rows)
                rows.append(r)
        if dead:
            state["tables"][table] = [r for i, r in enumerate(rows) if i not in dead]
    seqs = state.setdefault("sequences", {})
    for s in diff.get("sequences") or []:
        seqs[s["table"]] = s["new"]
    if diff.get("balances"):
        by_acc = {json.dumps(b["account"], sort_keys=True): b for b in state.setdefault("balances", [])}
        for ch in diff["balances"]:
            k = json.dumps(ch["account"], sort_keys=True)
            if k not in by_acc:
                by_acc[k] = {"account": ch["account"], "coins": {}}
                state["balances"].append(by_acc[k])
            if ch["new"] in ("0", "", None):
                by_acc[k]["coins"].pop(ch["denom"], None)
            else:
                by_acc[k]["coins"][ch["denom"]] = ch["new"]
        state["balances"] = [b for b in state["balances"] if b["coins"]]
    for ch in diff.get("supply") or []:
        sup = state.setdefault("supply", {})
        if ch["new"] in ("0", "", None):
            sup.pop(ch["denom"], None)
        else:
            sup[ch["denom"]] = ch["new"]
    return state


def canon_tables(state, infos):
    out = {}
    for t, rows in state["tables"].items():
        info = infos.get(t)
        if info is None:
            continue
        out[t] = sorted(json.dumps(r, sort_keys=True) for r in rows)
    return out


def states_at_round_trips(trace):
    """Yields (item, state) for every genesis_rt item; checks the reconstruction against trace["final"]."""
    infos = {ti["name"]: ti for ti in trace["tables"]}
    st = copy.deepcopy(trace["genesis"])
    for it in trace["items"]:
        if it["kind"] == "genesis_rt":
            yield it, copy.deepcopy(st)
        elif it.get("diff"):
            apply_diff(st, it["diff"], infos)
    fin = trace.get("final")
    if fin is not None:
        a, c = canon_tables(st, infos), canon_tables(fin, infos)
        if a != c:
            bad = sorted(t for t in set(a) | set(c) if a.get(t) != c.get(t))
            raise ValueError("reconstructed final state differs from the recorded one in tables %s" % bad)
        if (st.get("sequences") or {}) != (fin.get("sequences") or {}):
            raise ValueError("reconstructed sequences differ: %r vs %r" % (st.get("sequences"), fin.get("sequences")))


# ---------------------------------------------------------------- printing

def eco_rows(st):
    """The ecocredit rows and ORM sequences of a State as rowv terms (bank data is not read by the validators)."""
    rows = []
    for table in sorted(st["tables"]):
        if table not in ECO_TABLES:
            continue
        for r in st["tables"][table]:
            rows.append(lc.row_term(table, r))
    for t, v in sorted((st.get("sequences") or {}).items()):
        if t in lc.SEQ_IDS:
            rows.append("(XSeq %s %s)" % (lc.cN(lc.SEQ_IDS[t]), lc.cN(v)))
    return rows


def case_term(cid, st, observed):
    return "{| gc_id := %s; gc_rows := %s; gc_observed := %s |}" % (lc.cN(cid), lc.clist(eco_rows(st)), lc.cbool(observed))


HEADER = """From stdpp Require Import gmap.
From Coq Require Import List ZArith NArith String Strings.Byte.
Require Import Regen.Base.Bytes Regen.Base.Calendar Regen.Dec.Dec.
Require Import Regen.Ledger.Types Regen.Ledger.Msgs Regen.Ledger.Orm Regen.Ledger.Step.
Require Import Regen.Cases.LedgerRun Regen.Cases.GenesisRun.
Import ListNotations.
Open Scope string_scope.
Open Scope list_scope.
Local Open Scope Z_scope.
"""


def traces_to_genesis_shards(outdir, summ=None):
    tdir = os.path.join(outdir, "traces")
    files = sorted(f for f in os.listdir(tdir) if f.endswith(".json"))
    cases, cj, skipped, broken = [], {}, {}, {}
    accepted = rejected = 0
    reasons = {}
    cid = 0
    for f in files:
        with open(os.path.join(tdir, f)) as fh:
            t = json.load(fh)
        try:
            pairs = list(states_at_round_trips(t))
        except ValueError as e:
            broken[f] = str(e)
            continue
        for it, st in pairs:
            rt = it["genesis_rt"]
            if rt.get("export_err"):
                skipped["%s#%s" % (f, it.get("seq"))] = "export failed: " + rt["export_err"]
                continue
            errs = rt.get("validate_errs") or {}
            observed = "ecocredit" not in errs
            try:
                term = case_term(cid, st, observed)
            except lc.OutOfModel as e:
                skipped["%s#%s" % (f, it.get("seq"))] = str(e)
                continue
            cases.append(term)
            cj[str(cid)] = {"trace": os.path.join("traces", f), "trace_id": t.get("id"), "item_seq": it.get("seq"),
                            "note": it.get("note"), "observed_valid": observed, "ecocredit_error": errs.get("ecocredit")}
            if observed:
                accepted += 1
            else:
                rejected += 1
                key = (errs.get("ecocredit") or "").split(" [")[0][:140]
                reasons[key] = reasons.get(key, 0) + 1
            cid += 1
    shards = []
    for i in range(0, len(cases), PER_SHARD):
        name = "cases_genesis_%03d.v" % (i // PER_SHARD)
        with open(os.path.join(outdir, name), "w") as fh:
            fh.write(HEADER)
            fh.write("Definition cases : list gcase := [\n")
            fh.write(";\n".join(cases[i:i + PER_SHARD]))
            fh.write("\n].\nDefinition M := Eval vm_compute in mismatches cases.\nPrint M.\n")
        shards.append(name)
    with open(os.path.join(outdir, "cases_genesis.json"), "w") as fh:
        json.dump(cj, fh, indent=1, sort_keys=True)
    info = {"genesis_cases": len(cases), "genesis_accepted_by_impl": accepted, "genesis_rejected_by_impl": rejected,
            "genesis_rejection_reasons": reasons, "genesis_out_of_model": skipped, "genesis_broken_traces": broken,
            "genesis_shards": shards}
    if summ is not None:
        summ.setdefault("extra", {}).update(info)
    return shards, info


if __name__ == "__main__":
    shards, info = traces_to_genesis_shards(sys.argv[1])
    print(json.dumps(info, indent=1, sort_keys=True))
