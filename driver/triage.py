#!/usr/bin/env python3
"""Evaluates all ledger shards in a directory and prints, for every mismatch, the trace item."""
import sys, os, re, json, concurrent.futures, subprocess
d = sys.argv[1]
shards = sorted(f for f in os.listdir(d) if re.match(r"cases_\d+\.v$", f))
cj = json.load(open(os.path.join(d, "cases.json")))
def ev(s):
    p = subprocess.run(["coqc", "-Q", "/verif/coq", "Regen", s], cwd=d, stdout=subprocess.PIPE, stderr=subprocess.STDOUT, text=True)
    return s, p.stdout
tot = 0
with concurrent.futures.ThreadPoolExecutor(max_workers=16) as ex:
    for s, out in ex.map(ev, shards):
        if re.search(r"M\s*=\s*\[\s*\]", out):
            continue
        m = re.search(r"M\s*=(.*?)\n\s*:", out, flags=re.S)
        if not m:
            print(s, "ERROR", out[-600:]); continue
        body = m.group(1)
        for cm in re.finditer(r"\((\d+)%N,\s*\[(.*?)\]\)(?=;\s*\(\d+%N,\s*\[|\s*\]\s*$)", body, flags=re.S):
            cid = cm.group(1)
            info = cj[cid]
            t = json.load(open(os.path.join(d, info["trace"])))
            # items as converted: begin + msg items excluding data msgs
            conv = [it for it in t["items"] if it["kind"] == "begin" or (it["kind"] == "msg" and not it["type_url"].startswith("/regen.data."))]
            for im in re.finditer(r"\((\d+)%N,\s*(\d+)%N,\s*\[(.*?)\]\)", cm.group(2)):
                idx, code, rows = int(im.group(1)), int(im.group(2)), im.group(3)
                tot += 1
                if idx < len(conv):
                    it = conv[idx]
                    res = it.get("result", {})
                    print("%s case %s %s item %d code %d rows[%s] %s ok=%s log=%s msg=%s" % (
                        s, cid, info["trace"], idx, code, rows.replace("%N", ""), it.get("type_url", it["kind"]), res.get("ok"),
                        (res.get("log") or res.get("err") or "")[:160], json.dumps(it.get("msg"))[:400]))
                else:
                    print("%s case %s %s FINAL code %d rows[%s]" % (s, cid, info["trace"], code, rows.replace("%N", "")))
print("total mismatching items:", tot)
