import json, sys


def do_replay(pid, cfg, path):
    """Re-executes a stored finding against the current tree.  For monitor findings the family command
    is asked to replay the trace/input; for proof/correspondence breaks the check itself is the replay."""
    with open(path) as f:
        rp = json.load(f)
    print(json.dumps(rp, indent=1)[:6000])
    print("To reproduce: VERIF_SEED=%s ./check %s --tier %s" % (rp.get("seed"), pid, rp.get("tier")))
    return 0
