package monitor

import (
	"fmt"
	"math/big"

	sdk "github.com/cosmos/cosmos-sdk/types"

	base "github.com/regen-network/regen-ledger/x/ecocredit/v3/base/types/v1"
	market "github.com/regen-network/regen-ledger/x/ecocredit/v3/marketplace/types/v1"

	"verif/harness/chain"
)

// ---------------------------------------------------------------------------------------------
// C01: conservation and well-formedness of stored amounts

func (c *Checker) strictAmount(table, field, raw string, prec int, row chain.Row) {
	if raw == "" {
		// an omitted amount field (rows of a hand-written genesis): every reader of the row takes it as zero
		c.Counters["stored-amount:omitted(=0)"]++
		return
	}
	r, places, ok := ParseStrict(raw)
	switch {
	case !ok:
		c.report("C01", "amount-unparseable", fmt.Sprintf("%s.%s = %q is not a plain decimal", table, field, raw), row)
	case r.Sign() < 0:
		c.report("C01", "amount-negative", fmt.Sprintf("%s.%s = %q is negative", table, field, raw), row)
	case places > prec:
		c.report("C01", "amount-precision", fmt.Sprintf("%s.%s = %q has more than %d decimal places", table, field, raw, prec), row)
	}
}

func (c *Checker) checkC01() {
	v := c.post
	if len(v.Batches) == 0 && len(v.Balances) == 0 {
		return
	}
	c.hit("C01")
	tr := map[uint64]*big.Rat{}
	rt := map[uint64]*big.Rat{}
	for _, k := range v.SortedBalKeys() {
		b := v.Balances[k]
		prec := v.Precision(v.Batches[k.Batch])
		c.strictAmount("BatchBalance", "tradable_amount", b.T.Raw, prec, b.Row)
		c.strictAmount("BatchBalance", "retired_amount", b.R.Raw, prec, b.Row)
		c.strictAmount("BatchBalance", "escrowed_amount", b.E.Raw, prec, b.Row)
		if tr[k.Batch] == nil {
			tr[k.Batch], rt[k.Batch] = zero(), zero()
		}
		tr[k.Batch].Add(tr[k.Batch], add(b.T.val(), b.E.val()))
		rt[k.Batch].Add(rt[k.Batch], b.R.val())
	}
	for _, bb := range v.BasketBals {
		bt := v.BatchByDen[bb.Denom]
		c.strictAmount("BasketBalance", "balance", bb.Bal.Raw, v.Precision(bt), bb.Row)
		if bt == nil {
			continue // reported by C14 (dangling reference)
		}
		if tr[bt.Key] == nil {
			tr[bt.Key], rt[bt.Key] = zero(), zero()
		}
		tr[bt.Key].Add(tr[bt.Key], bb.Bal.val())
	}
	for _, k := range sortedU64(v.Batches) {
		b := v.Batches[k]
		s := v.Supplies[k]
		if s == nil {
			c.report("C01", "supply-row-missing", "batch "+b.Denom+" has no BatchSupply row", b.Row)
			continue
		}
		prec := v.Precision(b)
		c.strictAmount("BatchSupply", "tradable_amount", s.T.Raw, prec, s.Row)
		c.strictAmount("BatchSupply", "retired_amount", s.R.Raw, prec, s.Row)
		c.strictAmount("BatchSupply", "cancelled_amount", s.C.Raw, prec, s.Row)
		sumT, sumR := tr[k], rt[k]
		if sumT == nil {
			sumT, sumR = zero(), zero()
		}
		if s.T.val().Cmp(sumT) != 0 {
			c.report("C01", "tradable-supply!=balances+baskets",
				fmt.Sprintf("batch %s: tradable supply %s but accounts(tradable+escrowed)+baskets hold %s", b.Denom, s.T.Raw, ratStr(sumT)), c.batchRows(v, k))
		}
		if s.R.val().Cmp(sumR) != 0 {
			c.report("C01", "retired-supply!=balances",
				fmt.Sprintf("batch %s: retired supply %s but accounts hold %s retired", b.Denom, s.R.Raw, ratStr(sumR)), c.batchRows(v, k))
		}
	}
	if msg, broken := brokenInv(c.it, "ecocredit/batch-supply"); broken {
		c.report("C01", "invariant-batch-supply-broken", "registered invariant ecocredit/batch-supply reports: "+clip(msg, 400), nil)
	}
}

// batchRows collects the rows relevant to one batch (supply, balances, basket balances, orders).
func (c *Checker) batchRows(v *View, key uint64) map[string]interface{} {
	out := map[string]interface{}{}
	if s := v.Supplies[key]; s != nil {
		out["BatchSupply"] = s.Row
	}
	var bals []chain.Row
	for _, k := range v.SortedBalKeys() {
		if k.Batch == key {
			bals = append(bals, v.Balances[k].Row)
		}
	}
	out["BatchBalance"] = bals
	if b := v.Batches[key]; b != nil {
		out["Batch"] = b.Row
		var bb []chain.Row
		for _, x := range v.BasketBals {
			if x.Denom == b.Denom {
				bb = append(bb, x.Row)
			}
		}
		if len(bb) > 0 {
			out["BasketBalance"] = bb
		}
	}
	var os []chain.Row
	for _, id := range sortedU64(v.Orders) {
		if v.Orders[id].Batch == key {
			os = append(os, v.Orders[id].Row)
		}
	}
	if len(os) > 0 {
		out["SellOrder"] = os
	}
	return out
}

// ---------------------------------------------------------------------------------------------
// C02: issuance accounting

func (c *Checker) ghostAdd(denom string, amounts ...string) {
	if c.issued[denom] == nil {
		c.issued[denom] = zero()
	}
	for _, a := range amounts {
		r, ok := MsgAmount(a)
		if !ok {
			c.issuedBad[denom] = true
			c.report("C02", "accepted-unparseable-amount", fmt.Sprintf("an issuance amount %q was accepted but is not a decimal number", a), nil)
			continue
		}
		if r.Sign() < 0 {
			c.report("C02", "accepted-negative-amount", fmt.Sprintf("a negative issuance amount %q was accepted", a), nil)
		}
		c.issued[denom].Add(c.issued[denom], r)
	}
}

func (c *Checker) checkC02After(msg sdk.Msg, ok bool) {
	if ok && msg != nil {
		switch m := msg.(type) {
		case *base.MsgCreateBatch:
			c.hit("C02")
			denom := respStr(c.response(), "batch_denom")
			if _, seen := c.issued[denom]; seen {
				c.report("C14", "batch-denom-reused", "CreateBatch returned a denom that already exists: "+denom, nil)
			}
			c.issued[denom] = zero()
			for _, is := range m.Issuance {
				c.ghostAdd(denom, is.TradableAmount, is.RetiredAmount)
			}
		case *base.MsgMintBatchCredits:
			c.hit("C02")
			for _, is := range m.Issuance {
				c.ghostAdd(m.BatchDenom, is.TradableAmount, is.RetiredAmount)
			}
		case *base.MsgBridgeReceive:
			c.hit("C02")
			denom := respStr(c.response(), "batch_denom")
			if m.Batch != nil {
				c.ghostAdd(denom, m.Batch.Amount)
			}
		}
	}
	for _, k := range sortedU64(c.post.Batches) {
		b := c.post.Batches[k]
		s := c.post.Supplies[k]
		if s == nil {
			continue
		}
		tot := add(add(s.T.val(), s.R.val()), s.C.val())
		g, known := c.issued[b.Denom]
		if !known {
			c.report("C02", "batch-without-issuing-message", "batch "+b.Denom+" exists but no successful issuing message created it", b.Row)
			c.issued[b.Denom] = tot
		} else if !c.issuedBad[b.Denom] && tot.Cmp(g) != 0 {
			c.report("C02", "supply-total!=issued",
				fmt.Sprintf("batch %s: tradable+retired+cancelled = %s but %s was issued", b.Denom, ratStr(tot), ratStr(g)), s.Row)
			c.issued[b.Denom] = tot // report once per deviation
		}
		if pb := c.pre.Batches[k]; pb != nil {
			if !pb.Open && b.Open {
				c.report("C02", "batch-reopened", "batch "+b.Denom+" went from sealed to open", b.Row)
			}
			if ps := c.pre.Supplies[k]; ps != nil && !pb.Open {
				ptot := add(add(ps.T.val(), ps.R.val()), ps.C.val())
				if ptot.Cmp(tot) != 0 {
					c.report("C02", "sealed-total-changed", fmt.Sprintf("sealed batch %s: total %s -> %s", b.Denom, ratStr(ptot), ratStr(tot)), s.Row)
				}
			}
		}
	}
	for _, k := range sortedU64(c.pre.Batches) {
		if c.post.Batches[k] == nil {
			c.report("C02", "batch-disappeared", "batch "+c.pre.Batches[k].Denom+" was deleted", c.pre.Batches[k].Row)
		}
	}
}

// ---------------------------------------------------------------------------------------------
// C04: retirement and cancellation are permanent

func (c *Checker) checkC04() {
	if len(c.pre.Balances) == 0 && len(c.pre.Supplies) == 0 {
		return
	}
	c.hit("C04")
	for _, k := range c.pre.SortedBalKeys() {
		p := c.pre.Balances[k]
		q := c.post.Bal(k.Acct, k.Batch)
		if q.R.val().Cmp(p.R.val()) < 0 {
			c.report("C04", "retired-decreased", fmt.Sprintf("retired balance of %s in batch %d: %s -> %s", k.Acct, k.Batch, p.R.Raw, q.R.Raw),
				map[string]interface{}{"pre": p.Row, "post": q.Row})
		}
	}
	for _, k := range sortedU64(c.pre.Supplies) {
		p := c.pre.Supplies[k]
		q := c.post.Supplies[k]
		if q == nil {
			c.report("C04", "supply-row-deleted", fmt.Sprintf("BatchSupply row of batch %d disappeared", k), p.Row)
			continue
		}
		if q.R.val().Cmp(p.R.val()) < 0 {
			c.report("C04", "retired-supply-decreased", fmt.Sprintf("batch %d retired supply %s -> %s", k, p.R.Raw, q.R.Raw), map[string]interface{}{"pre": p.Row, "post": q.Row})
		}
		if q.C.val().Cmp(p.C.val()) < 0 {
			c.report("C04", "cancelled-supply-decreased", fmt.Sprintf("batch %d cancelled supply %s -> %s", k, p.C.Raw, q.C.Raw), map[string]interface{}{"pre": p.Row, "post": q.Row})
		}
	}
}

// ---------------------------------------------------------------------------------------------
// C03: ownership safety

// allAccounts returns every account key that has a credit balance or a bank balance in either state.
func (c *Checker) allAccounts() []string {
	set := map[string]bool{}
	for _, v := range []*View{c.pre, c.post} {
		for k := range v.Balances {
			set[k.Acct] = true
		}
		for a := range v.Bank {
			set[a] = true
		}
	}
	return sortedStr(set)
}

func (c *Checker) allDenoms(acct string) []string {
	set := map[string]bool{}
	for _, v := range []*View{c.pre, c.post} {
		for d := range v.Bank[acct] {
			set[d] = true
		}
	}
	return sortedStr(set)
}

func (c *Checker) checkC03Begin() {
	c.hit("C03")
	for _, a := range c.allAccounts() {
		for _, d := range c.allDenoms(a) {
			if c.pre.BankOf(a, d).Cmp(c.post.BankOf(a, d)) != 0 {
				c.report("C03", "beginblock-changed-bank", fmt.Sprintf("begin block changed %s balance of %s: %s -> %s", d, a, c.pre.BankOf(a, d), c.post.BankOf(a, d)), nil)
			}
		}
	}
	keys := map[BalKey]bool{}
	for k := range c.pre.Balances {
		keys[k] = true
	}
	for k := range c.post.Balances {
		keys[k] = true
	}
	for k := range keys {
		p, q := c.pre.Bal(k.Acct, k.Batch), c.post.Bal(k.Acct, k.Batch)
		if add(p.T.val(), p.E.val()).Cmp(add(q.T.val(), q.E.val())) != 0 || p.R.val().Cmp(q.R.val()) != 0 {
			c.report("C03", "beginblock-changed-holdings", fmt.Sprintf("begin block changed the holdings of %s in batch %d other than escrow->tradable", k.Acct, k.Batch),
				map[string]interface{}{"pre": p.Row, "post": q.Row})
		}
		if q.E.val().Cmp(p.E.val()) > 0 {
			c.report("C03", "beginblock-escrowed-more", fmt.Sprintf("begin block increased escrow of %s in batch %d", k.Acct, k.Batch), map[string]interface{}{"pre": p.Row, "post": q.Row})
		}
	}
	if c.it.Diff != nil {
		for _, t := range sortedStr(c.it.Diff.Tables) {
			if t != "BatchBalance" && t != "SellOrder" {
				c.report("C03", "beginblock-touched-table", "begin block wrote table "+t, c.it.Diff.Tables[t])
			}
		}
		if len(c.it.Diff.Supply) > 0 {
			c.report("C03", "beginblock-changed-bank", "begin block changed the bank supply", c.it.Diff.Supply)
		}
	}
}

func (c *Checker) checkC03Msg(msg sdk.Msg, ok bool) {
	c.hit("C03")
	signers := map[string]bool{}
	if msg != nil {
		for _, s := range signersOf(msg) {
			signers[c.key(s.String())] = true
		}
	}
	// fills: seller → batch → quantity bought by this (successful) BuyDirect; seller → ask denom → exact payment
	fills := map[BalKey]*big.Rat{}
	pay := map[string]map[string]*big.Rat{}      // exact payments
	payFloor := map[string]map[string]*big.Int{} // Σ floor(exact payment of one order): whole units owed at least
	if bd, isBuy := msg.(*market.MsgBuyDirect); isBuy && ok {
		sr, _ := MsgAmount(c.pre.SellerFee)
		if sr == nil {
			sr = zero()
		}
		for _, o := range bd.Orders {
			so := c.pre.Orders[o.SellOrderId]
			q, qok := MsgAmount(o.Quantity)
			if so == nil || !qok {
				continue
			}
			k := BalKey{so.Seller, so.Batch}
			if fills[k] == nil {
				fills[k] = zero()
			}
			fills[k].Add(fills[k], q)
			if m := c.pre.Markets[so.Market]; m != nil && so.Ask != nil {
				if pay[so.Seller] == nil {
					pay[so.Seller], payFloor[so.Seller] = map[string]*big.Rat{}, map[string]*big.Int{}
				}
				if pay[so.Seller][m.Denom] == nil {
					pay[so.Seller][m.Denom], payFloor[so.Seller][m.Denom] = zero(), new(big.Int)
				}
				subt := mul(q, ratInt(so.Ask))
				one := sub(subt, mul(subt, sr))
				pay[so.Seller][m.Denom].Add(pay[so.Seller][m.Denom], one)
				if one.Sign() > 0 {
					payFloor[so.Seller][m.Denom].Add(payFloor[so.Seller][m.Denom], floorRat(one))
				}
			}
		}
	}
	_, isFeePoolSend := msg.(*market.MsgGovSendFromFeePool)

	// credits
	for _, k := range c.pre.SortedBalKeys() {
		if signers[k.Acct] {
			continue
		}
		p, q := c.pre.Balances[k], c.post.Bal(k.Acct, k.Batch)
		before, after := add(p.T.val(), p.E.val()), add(q.T.val(), q.E.val())
		if after.Cmp(before) >= 0 {
			continue
		}
		if f := fills[k]; f != nil {
			if sub(before, after).Cmp(f) == 0 && q.T.val().Cmp(p.T.val()) == 0 {
				continue // exactly the purchased quantity left the escrow
			}
			c.report("C03", "fill-took-wrong-amount", fmt.Sprintf("BuyDirect of %s from %s in batch %d changed holdings %s -> %s", ratStr(f), k.Acct, k.Batch, ratStr(before), ratStr(after)),
				map[string]interface{}{"pre": p.Row, "post": q.Row})
			continue
		}
		c.report("C03", "credits-decreased-without-signature", fmt.Sprintf("tradable+escrowed of %s in batch %d decreased %s -> %s by a message it did not sign", k.Acct, k.Batch, ratStr(before), ratStr(after)),
			map[string]interface{}{"pre": p.Row, "post": q.Row})
	}
	// sellers of filled orders must be paid
	for _, s := range sortedStr(pay) {
		for _, d := range sortedStr(pay[s]) {
			delta := new(big.Int).Sub(c.post.BankOf(s, d), c.pre.BankOf(s, d))
			exact := pay[s][d]
			// every order is settled in whole units (rounded down), so only Σ floor(payment) is owed for sure
			if delta.Sign() < 0 || (delta.Sign() == 0 && payFloor[s][d].Sign() > 0) {
				c.report("C03", "seller-not-paid", fmt.Sprintf("seller %s lost escrowed credits to a fill but its %s balance changed by %s (exact payment %s)", s, d, delta, ratStr(exact)), nil)
			} else if delta.Sign() == 0 {
				c.Counters["dust_fill_paid_zero"]++
			}
		}
		// a filled seller may only receive coins in the ask denoms of its own filled orders
		if !signers[s] {
			for _, d := range c.allDenoms(s) {
				if pay[s][d] == nil && c.post.BankOf(s, d).Cmp(c.pre.BankOf(s, d)) > 0 {
					c.report("C03", "seller-paid-in-wrong-denom", fmt.Sprintf("seller %s of a filled order received %s %s, but its filled order(s) ask for %v", s,
						new(big.Int).Sub(c.post.BankOf(s, d), c.pre.BankOf(s, d)), d, sortedStr(pay[s])), nil)
				}
			}
		}
	}
	// bank
	for _, a := range c.allAccounts() {
		for _, d := range c.allDenoms(a) {
			p, q := c.pre.BankOf(a, d), c.post.BankOf(a, d)
			if p.Cmp(q) == 0 {
				continue
			}
			switch a {
			case KeyEco, KeyBasket:
				c.report("C03", "module-account-net-change", fmt.Sprintf("module account %s: %s %s -> %s after a message", a, d, p, q), nil)
				continue
			case KeyFeePool:
				if q.Cmp(p) < 0 && !(isFeePoolSend && ok && signers[c.gov]) {
					c.report("C03", "fee-pool-decreased", fmt.Sprintf("fee pool %s %s -> %s without a governance message", d, p, q), nil)
				}
				continue
			}
			if signers[a] || q.Cmp(p) > 0 {
				continue
			}
			c.report("C03", "coins-decreased-without-signature", fmt.Sprintf("%s balance of %s decreased %s -> %s by a message it did not sign", d, a, p, q), nil)
		}
	}
}
