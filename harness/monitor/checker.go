package monitor

import (
	"encoding/json"
	"fmt"
	"math/big"
	"strings"

	sdk "github.com/cosmos/cosmos-sdk/types"

	"verif/harness/chain"
	"verif/harness/internal/common"
)

// Violation is one monitor hit (the summary.json entry).
type Violation = common.MonitorViolation

// Checker runs every monitor over the steps of ONE history. It keeps the ghost state the
// properties need (issued totals, accepted origin txs, contract bindings, id counters, data ids).
type Checker struct {
	TraceFile string
	Family    string
	Out       []Violation
	// Exercised counts, per property id, the steps on which the property had something to check.
	Exercised map[string]int
	// Counters are free-form statistics (boundary situations seen by the monitors).
	Counters map[string]int

	acct   map[string]string // bech32 → "#index"
	gov    string            // "#100"
	hasher string

	cacheState *chain.State
	cacheView  *View

	// ghosts
	issued      map[string]*big.Rat // batch denom → total issued (exact)
	issuedBad   map[string]bool     // ghost unusable (an accepted amount did not parse)
	origins     map[string]string   // "class|id|source" → first item
	originsCI   map[string]string   // "class|id|lower(source)" → first item
	contracts   map[string]string   // "class|contract" → batch denom
	nextClass   map[string]uint64
	nextProject map[string]uint64 // class id → next
	nextBatch   map[string]uint64 // project id → next
	iriID       map[string]string // iri → data id hex
	anchorFirst map[string]TS     // data id → block time of first anchoring

	basketInvBroken bool // verdict of the basket-supply invariant at the previous item
	// feeBurned: basket denom → basket tokens burned as class/basket creation fees (known finding:
	// a creation fee may be set in a basket denom; burning it removes backing-less supply)
	feeBurned map[string]*big.Int

	// current step
	it   *chain.Item
	pre  *View
	post *View
}

const (
	KeyGov      = "#100"
	KeyEco      = "#101"
	KeyBasket   = "#102"
	KeyFeePool  = "#103"
	KeyMintAcct = "#104"
)

// NewChecker prepares a checker for a history that starts from tr.Genesis.
func NewChecker(tr *chain.Trace, traceFile, family string) *Checker {
	c := &Checker{TraceFile: traceFile, Family: family, Exercised: map[string]int{}, Counters: map[string]int{},
		acct: map[string]string{}, gov: KeyGov, hasher: tr.Options.HasherKind,
		issued: map[string]*big.Rat{}, issuedBad: map[string]bool{}, origins: map[string]string{}, originsCI: map[string]string{},
		contracts: map[string]string{}, nextClass: map[string]uint64{}, nextProject: map[string]uint64{}, nextBatch: map[string]uint64{},
		iriID: map[string]string{}, anchorFirst: map[string]TS{}, feeBurned: map[string]*big.Int{},
	}
	for _, a := range tr.Accounts {
		c.acct[a.Bech32] = fmt.Sprintf("#%d", a.Index)
	}
	g := c.view(tr.Genesis)
	for _, k := range sortedU64(g.Batches) {
		b := g.Batches[k]
		s := g.Supplies[k]
		tot := zero()
		if s != nil {
			tot = add(add(s.T.val(), s.R.val()), s.C.val())
		}
		c.issued[b.Denom] = tot
	}
	for o := range g.Origins {
		cl := g.Classes[o.Class]
		id := fmt.Sprintf("key%d", o.Class)
		if cl != nil {
			id = cl.ID
		}
		c.origins[id+"|"+o.ID+"|"+o.Source] = "genesis"
		c.originsCI[id+"|"+o.ID+"|"+strings.ToLower(o.Source)] = "genesis"
	}
	for _, k := range sortedU64(g.Contracts) {
		ct := g.Contracts[k]
		cl, b := g.Classes[ct.Class], g.Batches[ct.Batch]
		if cl != nil && b != nil {
			c.contracts[cl.ID+"|"+ct.Contract] = b.Denom
		}
	}
	// id counters: the stored sequence (or 1)
	for ab := range g.CreditTypes {
		c.nextClass[ab] = 1
	}
	for ab, n := range g.ClassSeq {
		c.nextClass[ab] = n
	}
	for _, cl := range g.Classes {
		c.nextProject[cl.ID] = 1
		if n, ok := g.ProjectSeq[cl.Key]; ok {
			c.nextProject[cl.ID] = n
		}
	}
	for _, p := range g.Projects {
		c.nextBatch[p.ID] = 1
		if n, ok := g.BatchSeq[p.Key]; ok {
			c.nextBatch[p.ID] = n
		}
	}
	for id, iri := range g.DataIDs {
		c.iriID[iri] = id
	}
	for id, ts := range g.DataAnchors {
		if ts != nil {
			c.anchorFirst[id] = *ts
		}
	}
	return c
}

func (c *Checker) view(s *chain.State) *View {
	if s == c.cacheState && c.cacheView != nil {
		return c.cacheView
	}
	v := NewView(s)
	c.cacheState, c.cacheView = s, v
	return v
}

// key maps a bech32 address to the account key used in views.
func (c *Checker) key(bech32 string) string {
	if k, ok := c.acct[bech32]; ok {
		return k
	}
	if a, err := sdk.AccAddressFromBech32(bech32); err == nil {
		// the other valid spelling (all upper case) of a known account
		if k, ok := c.acct[a.String()]; ok {
			return k
		}
		return fmt.Sprintf("0x%x", []byte(a))
	}
	return "?" + bech32
}

func (c *Checker) hit(prop string) { c.Exercised[prop]++ }

// report records a violation. rows are arbitrary JSON-able evidence.
func (c *Checker) report(prop, key, desc string, rows interface{}) {
	in := map[string]interface{}{"trace": c.TraceFile, "family": c.Family}
	if c.it != nil {
		in["seq"] = c.it.Seq
		in["kind"] = c.it.Kind
		if c.it.TraceMsg != nil {
			in["type_url"] = c.it.TypeURL
			in["msg"] = c.it.Msg
		}
		if c.it.Note != "" {
			in["note"] = c.it.Note
		}
		if c.it.Result != nil && !c.it.Result.OK {
			in["verdict"] = c.it.Result.Verdict()
			if c.it.Result.Log != "" {
				in["log"] = clip(c.it.Result.Log, 300)
			}
		}
	}
	if rows != nil {
		in["rows"] = rows
	}
	c.Out = append(c.Out, Violation{Property: prop, Key: key, Desc: clip(desc, 1500), Input: in})
}

func clip(s string, n int) string {
	if len(s) > n {
		return s[:n] + "..."
	}
	return s
}

func signersOf(m sdk.Msg) (out []sdk.AccAddress) {
	defer func() {
		if r := recover(); r != nil {
			out = nil
		}
	}()
	return m.GetSigners()
}

// Step runs all monitors on one recorded item. pre/post are the complete states before and after
// the item (equal pointers are fine for items that cannot change state). msgs are the decoded
// messages of a msg item.
func (c *Checker) Step(pre, post *chain.State, it *chain.Item, msgs []sdk.Msg) {
	c.it = it
	defer func() { c.it = nil }()
	switch it.Kind {
	case chain.KindGenesisRT:
		c.checkGenesisRT(it)
		return
	case chain.KindRestart:
		if it.Diff != nil && !it.Diff.Empty() {
			c.report("C10", "restart-changed-state", "the observable state differs after rebuilding the app over the same DB", it.Diff)
		}
		if it.Result != nil && !it.Result.OK {
			c.report("C10", "restart-changed-apphash", "app hash changed across restart: "+it.Result.Err, nil)
		}
		return
	case chain.KindBegin, chain.KindMsg:
	default:
		return
	}
	if pre == nil || post == nil || it.Result == nil {
		return
	}
	c.pre, c.post = c.view(pre), c.view(post)
	defer func() { c.pre, c.post = nil, nil }()
	ok := it.Result.OK
	var msg sdk.Msg
	if it.Kind == chain.KindMsg && len(msgs) == 1 {
		msg = msgs[0]
	}
	c.noteFeeBurn(msg, ok)

	// state monitors on the post state
	c.checkC01()
	c.checkC04()
	c.checkC05State()
	c.checkC06State()
	c.checkC14State()
	c.checkC16State()

	if it.Kind == chain.KindBegin {
		c.checkC12Begin()
		c.checkC03Begin()
		c.checkC02After(nil, false)
		return
	}

	// message monitors
	if !ok && it.Diff != nil && !it.Diff.Empty() {
		c.report("C10", "failed-msg-nonempty-diff", "a failed message left a trace in state", it.Diff)
		c.report("C03", "failed-msg-changed-state", "a failed message changed state", it.Diff)
	}
	c.checkExpectation(ok)
	c.checkC03Msg(msg, ok)
	c.checkC02After(msg, ok)
	if msg == nil {
		return
	}
	c.checkC05Msg(msg, ok)
	c.checkC06Msg(msg, ok)
	c.checkC07(msg, ok)
	c.checkC08(msg, ok)
	c.checkC11(msg, ok)
	c.checkC12Buy(msg, ok)
	c.checkC13(msg, ok)
	c.checkC14Msg(msg, ok)
	c.checkC16Msg(msg, ok)
	c.checkC18(msg, ok)
}

// response returns the first typed response decoded into a generic map.
func (c *Checker) response() map[string]interface{} {
	if c.it == nil || c.it.Result == nil || len(c.it.Result.Responses) == 0 {
		return nil
	}
	var m map[string]interface{}
	dec := json.NewDecoder(strings.NewReader(string(c.it.Result.Responses[0].JSON)))
	dec.UseNumber()
	if err := dec.Decode(&m); err != nil {
		return nil
	}
	return m
}

func respStr(m map[string]interface{}, k string) string {
	if m == nil {
		return ""
	}
	s, _ := m[k].(string)
	return s
}

// events returns the events of the current item with the given type.
func (c *Checker) events(typ string) []chain.Event {
	var out []chain.Event
	if c.it == nil || c.it.Result == nil {
		return nil
	}
	for _, e := range c.it.Result.Events {
		if e.Type == typ {
			out = append(out, e)
		}
	}
	return out
}

func unquote(s string) string {
	var out string
	if err := json.Unmarshal([]byte(s), &out); err == nil {
		return out
	}
	return s
}

func brokenInv(it *chain.Item, route string) (string, bool) {
	if it == nil || it.Invariants == nil {
		return "", false
	}
	r, ok := it.Invariants[route]
	if !ok || !r.Broken {
		return "", false
	}
	if r.Panic != "" {
		return "panic: " + r.Panic, true
	}
	return r.Msg, true
}
