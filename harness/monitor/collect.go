package monitor

import "sort"

// Merged is the run-level view of all monitor hits: at most Cap reports per distinct
// (property, key), plus the complete counts.
type Merged struct {
	Violations []Violation
	// Counts maps "<property>/<key>" to the total number of hits (reported or not).
	Counts map[string]int
}

// Merge concatenates per-history violation lists (in the given, deterministic order) and keeps at
// most cap entries per distinct property/key.
func Merge(lists [][]Violation, cap int) Merged {
	m := Merged{Counts: map[string]int{}}
	for _, l := range lists {
		for _, v := range l {
			k := v.Property + "/" + v.Key
			m.Counts[k]++
			if m.Counts[k] <= cap {
				m.Violations = append(m.Violations, v)
			}
		}
	}
	sort.SliceStable(m.Violations, func(i, j int) bool {
		a, b := m.Violations[i], m.Violations[j]
		if a.Property != b.Property {
			return a.Property < b.Property
		}
		return a.Key < b.Key
	})
	return m
}
