//go:build verif

package monitor_test

import (
	"encoding/json"
	"strings"
	"testing"
	"time"

	sdk "github.com/cosmos/cosmos-sdk/types"

	base "github.com/regen-network/regen-ledger/x/ecocredit/v3/base/types/v1"
	market "github.com/regen-network/regen-ledger/x/ecocredit/v3/marketplace/types/v1"

	"verif/harness/chain"
	"verif/harness/monitor"
)

// The monitors must stay silent on a clean history and must fire when a state is doctored. The
// implementation cannot be mutated here, so the test mutates the OBSERVATIONS (pre/post states of
// real steps) and checks that each monitor notices.

type step struct {
	pre, post *chain.State
	item      chain.Item
	msgs      []sdk.Msg
	label     string
}

type scenario struct {
	trace *chain.Trace
	steps []step
}

var t0 = time.Date(2024, 1, 1, 0, 0, 0, 0, time.UTC)

const batch1 = "C01-001-20200101-20210101-001"

func build(t *testing.T) *scenario {
	rec := chain.NewRecorder("selftest", 1, chain.Options{GenesisTime: t0})
	a := rec.App
	sc := &scenario{trace: rec.Trace}
	do := func(label string, m sdk.Msg, wantOK bool) {
		pre := rec.State()
		res := rec.Deliver(m)
		if res.OK != wantOK {
			t.Fatalf("%s: ok=%v, want %v: %s", label, res.OK, wantOK, res.Log)
		}
		sc.steps = append(sc.steps, step{pre, rec.State(), *rec.Last(), []sdk.Msg{m}, label})
	}
	begin := func(label string, tm time.Time) {
		pre := rec.State()
		rec.Begin(0, tm)
		sc.steps = append(sc.steps, step{pre, rec.State(), *rec.Last(), nil, label})
	}
	begin("begin1", t0.Add(6*time.Second))
	do("allow-chain", a.MsgAddAllowedBridgeChain("polygon"), true)
	do("class", a.MsgCreateClass(0, []int{0, 1}, "md", "C", chain.Coin("stake", 20000000)), true)
	do("project", a.MsgCreateProject(0, "C01", "md", "US-WA", "", nil), true)
	do("batch", a.MsgCreateBatch(0, "C01-001", "", []*base.BatchIssuance{a.Issuance(0, "1000", "10", "US-WA"), a.Issuance(1, "500", "", "")}, "md",
		time.Date(2020, 1, 1, 0, 0, 0, 0, time.UTC), time.Date(2021, 1, 1, 0, 0, 0, 0, time.UTC), true, nil), true)
	do("class-md", a.MsgUpdateClassMetadata(0, "C01", "md2"), true)
	do("send", a.MsgSendCredits(0, 2, batch1, "100", "", "", ""), true)
	do("retire", a.MsgRetire(0, "US-WA", "r", chain.Credits(batch1, "5")), true)
	exp := t0.Add(time.Hour)
	do("sell", a.MsgSell(0, chain.SellOrder(batch1, "50", chain.Coin("stake", 1000), true, &exp)), true)
	do("update2", a.MsgUpdateSellOrders(0,
		&market.MsgUpdateSellOrders_Update{SellOrderId: 1, NewQuantity: "40", NewAskPrice: chain.Coin("stake", 1000), DisableAutoRetire: true},
		&market.MsgUpdateSellOrders_Update{SellOrderId: 1, NewQuantity: "45", NewAskPrice: chain.Coin("stake", 1000), DisableAutoRetire: true}), true)
	do("buy", a.MsgBuyDirect(3, chain.BuyOrder(1, "10", chain.Coin("stake", 1000), true, "", "", nil)), true)
	do("basket", a.MsgBasketCreate(2, "NCT", "d", "C", []string{"C01"}, true, nil, sdk.NewCoins(sdk.NewInt64Coin("stake", 20000000))), true)
	do("put", a.MsgBasketPut(1, "eco.uC.NCT", chain.BasketCredit(batch1, "20")), true)
	do("take", a.MsgBasketTake(1, "eco.uC.NCT", "5000000", false, "", ""), true)
	do("receive", a.MsgBridgeReceive(0, "C01", &base.MsgBridgeReceive_Project{ReferenceId: "R", Jurisdiction: "KE", Metadata: "m"}, 4, "7", time.Date(2020, 1, 1, 0, 0, 0, 0, time.UTC),
		time.Date(2021, 1, 1, 0, 0, 0, 0, time.UTC), "m", &base.OriginTx{Id: "0x7a70692a348e8688f54ab2bdfe87d925d8cc88932520492a11eaa02dc128243e", Source: "polygon", Contract: "0x0E65079a29d7793ab5CA500c2d88e60EE99bA606"}), true)
	do("anchor", a.MsgAnchor(0, chain.RawHash(make([]byte, 32), "pdf")), true)
	do("send-fail", a.MsgSendCredits(5, 2, batch1, "1", "", "", ""), false)
	rec.Commit()
	begin("begin2", t0.Add(2*time.Hour)) // order 1 expires
	do("anchor2", a.MsgAnchor(1, chain.RawHash(make([]byte, 32), "pdf")), true)
	rec.Commit()
	return sc
}

func clone(t *testing.T, s *chain.State) *chain.State {
	bz, err := json.Marshal(s)
	if err != nil {
		t.Fatal(err)
	}
	var out chain.State
	if err := json.Unmarshal(bz, &out); err != nil {
		t.Fatal(err)
	}
	return &out
}

// run replays the scenario through a fresh checker, applying doctor to the step called label.
func run(t *testing.T, sc *scenario, label string, doctor func(pre, post *chain.State)) []monitor.Violation {
	c := monitor.NewChecker(sc.trace, "selftest.json", "selftest")
	found := label == ""
	for _, st := range sc.steps {
		pre, post := st.pre, st.post
		if st.label == label {
			found = true
			pre, post = clone(t, pre), clone(t, post)
			doctor(pre, post)
		}
		it := st.item
		c.Step(pre, post, &it, st.msgs)
		if st.label == label {
			break
		}
	}
	if !found {
		t.Fatalf("no step %q", label)
	}
	return c.Out
}

func keys(vs []monitor.Violation) string {
	var out []string
	for _, v := range vs {
		out = append(out, v.Property+"/"+v.Key)
	}
	return strings.Join(out, " ")
}

func expect(t *testing.T, vs []monitor.Violation, want string) {
	t.Helper()
	for _, v := range vs {
		if v.Property+"/"+v.Key == want {
			return
		}
	}
	t.Errorf("expected %s, got [%s]", want, keys(vs))
}

func row(s *chain.State, table string, match func(chain.Row) bool) chain.Row {
	for _, r := range s.Tables[table] {
		if match == nil || match(r) {
			return r
		}
	}
	return nil
}

func delRow(s *chain.State, table string, match func(chain.Row) bool) {
	var out []chain.Row
	for _, r := range s.Tables[table] {
		if !match(r) {
			out = append(out, r)
		}
	}
	s.Tables[table] = out
}

func isAddr(r chain.Row, field string, idx string) bool {
	m, _ := r[field].(map[string]interface{})
	return m != nil && m["addr"] != nil && m["addr"].(json.Number).String() == idx
}

func TestMonitorsSilentOnCleanHistory(t *testing.T) {
	sc := build(t)
	if vs := run(t, sc, "", nil); len(vs) != 0 {
		t.Fatalf("violations on a clean history: %s\n%v", keys(vs), vs[0])
	}
}

func TestMonitorsFireOnDoctoredObservations(t *testing.T) {
	sc := build(t)
	cases := []struct {
		name, step, want string
		doctor           func(pre, post *chain.State)
	}{
		{"supply row off", "send", "C01/tradable-supply!=balances+baskets", func(_, post *chain.State) {
			row(post, "BatchSupply", nil)["tradable_amount"] = "1499"
		}},
		{"issued total off", "send", "C02/supply-total!=issued", func(_, post *chain.State) {
			row(post, "BatchSupply", nil)["tradable_amount"] = "1499"
		}},
		{"unparseable amount", "send", "C01/amount-unparseable", func(_, post *chain.State) {
			row(post, "BatchBalance", func(r chain.Row) bool { return isAddr(r, "address", "2") })["tradable_amount"] = "0.-5"
		}},
		{"seven decimals", "send", "C01/amount-precision", func(_, post *chain.State) {
			row(post, "BatchBalance", func(r chain.Row) bool { return isAddr(r, "address", "2") })["tradable_amount"] = "100.0000000"
		}},
		{"retired decreased", "send", "C04/retired-decreased", func(_, post *chain.State) {
			row(post, "BatchBalance", func(r chain.Row) bool { return isAddr(r, "address", "0") })["retired_amount"] = "9"
		}},
		{"third party loses credits", "send", "C03/credits-decreased-without-signature", func(_, post *chain.State) {
			row(post, "BatchBalance", func(r chain.Row) bool { return isAddr(r, "address", "1") })["tradable_amount"] = "400"
		}},
		{"third party loses coins", "send", "C03/coins-decreased-without-signature", func(_, post *chain.State) {
			post.Balances[4].Coins["stake"] = "5"
		}},
		{"failed message writes", "send-fail", "C10/failed-msg-nonempty-diff", func(_, _ *chain.State) {}},
		{"escrow off", "sell", "C06/escrow!=orders", func(_, post *chain.State) {
			row(post, "BatchBalance", func(r chain.Row) bool { return isAddr(r, "address", "0") })["escrowed_amount"] = "49"
		}},
		{"second update of the same order works on a stale snapshot", "update2", "C06/update-escrow-delta", func(_, post *chain.State) {
			r := row(post, "BatchBalance", func(r chain.Row) bool { return isAddr(r, "address", "0") })
			r["escrowed_amount"], r["tradable_amount"] = "35", "860"
		}},
		{"last update of the same order lost", "update2", "C06/update-final-state", func(_, post *chain.State) {
			row(post, "SellOrder", nil)["quantity"] = "40"
		}},
		{"order with zero quantity", "sell", "C06/order-quantity-not-positive", func(_, post *chain.State) {
			row(post, "SellOrder", nil)["quantity"] = "0"
		}},
		{"denom not allowed", "sell", "C06/order-created-with-disallowed-denom", func(pre, _ *chain.State) {
			pre.Tables["AllowedDenom"] = nil
		}},
		{"seller underpaid", "buy", "C07/seller-credit-off", func(_, post *chain.State) {
			post.Balances[0].Coins["stake"] = "999980009000"
		}},
		{"buyer gets retired instead of tradable", "buy", "C07/credits-settlement", func(_, post *chain.State) {
			r := row(post, "BatchBalance", func(r chain.Row) bool { return isAddr(r, "address", "3") })
			r["tradable_amount"], r["retired_amount"] = "0", "10"
		}},
		{"bid in another denom than the order's market", "buy", "C07/bid-denom!=ask-denom", func(pre, _ *chain.State) {
			row(pre, "Market", nil)["bank_denom"] = "uatom"
		}},
		{"seller paid in the wrong denom", "buy", "C03/seller-paid-in-wrong-denom", func(_, post *chain.State) {
			post.Balances[0].Coins["stake"] = "999980000000"
			post.Balances[0].Coins["uatom"] = "1000000010000"
		}},
		{"coins move in a foreign denom", "buy", "C07/coin-movement-in-foreign-denom", func(_, post *chain.State) {
			post.Balances[4].Coins["uregen"] = "1000000000001"
		}},
		{"bid below ask", "buy", "C07/bid<ask", func(pre, _ *chain.State) {
			row(pre, "SellOrder", nil)["ask_amount"] = "1001"
		}},
		{"non-admin updates class", "class-md", "C08/role:class-admin", func(pre, post *chain.State) {
			row(pre, "Class", nil)["admin"] = map[string]interface{}{"addr": json.Number("4")}
			row(post, "Class", nil)["admin"] = map[string]interface{}{"addr": json.Number("4")}
		}},
		{"class update touches issuers", "class-md", "C08/footprint-fields:Class", func(pre, _ *chain.State) {
			row(pre, "Class", nil)["credit_type_abbrev"] = "X"
		}},
		{"basket supply off", "put", "C05/basket-supply!=credits", func(_, post *chain.State) {
			post.Supply["eco.uC.NCT"] = "19999999"
		}},
		{"put mints wrong amount", "put", "C05/put-minted!=units", func(_, post *chain.State) {
			post.Balances[1].Coins["eco.uC.NCT"] = "19999999"
		}},
		{"class not allowed", "put", "C11/put-accepted-inadmissible:class-not-allowed", func(pre, _ *chain.State) {
			pre.Tables["BasketClass"] = nil
		}},
		{"start date before criterion", "put", "C11/put-accepted-inadmissible:start-before-min_start_date", func(pre, _ *chain.State) {
			row(pre, "Basket", nil)["date_criteria"] = map[string]interface{}{"min_start_date": map[string]interface{}{"s": json.Number("1577836801"), "n": json.Number("0")}, "start_date_window": nil, "years_in_the_past": json.Number("0")}
		}},
		{"take delivers to the wrong column", "take", "C11/take-delivery", func(_, post *chain.State) {
			r := row(post, "BatchBalance", func(r chain.Row) bool { return isAddr(r, "address", "1") })
			r["tradable_amount"], r["retired_amount"] = "480", "5"
		}},
		{"expired order survives", "begin2", "C12/expired-order-survived", func(pre, post *chain.State) {
			post.Tables["SellOrder"] = pre.Tables["SellOrder"]
		}},
		{"expiry without refund", "begin2", "C12/expiry-refund", func(pre, post *chain.State) {
			post.Tables["BatchBalance"] = pre.Tables["BatchBalance"]
		}},
		{"receive from a chain that is not allowed", "receive", "C13/bridge-receive-from-disallowed-chain", func(pre, _ *chain.State) {
			pre.Tables["AllowedBridgeChain"] = nil
		}},
		{"dangling project", "send", "C14/dangling-reference:batch->project", func(_, post *chain.State) {
			post.Tables["Project"] = nil
		}},
		{"skipped project number", "project", "C14/non-consecutive-project-id", func(_, _ *chain.State) {}},
		{"anchor timestamp moves", "anchor2", "C16/anchor-changed", func(_, post *chain.State) {
			row(post, "DataAnchor", nil)["timestamp"] = map[string]interface{}{"s": json.Number("5"), "n": json.Number("0")}
		}},
		{"fee not burned", "class", "C18/fee-not-burned", func(_, post *chain.State) {
			post.Supply["stake"] = "6000000000000"
		}},
	}
	for _, tc := range cases {
		tc := tc
		t.Run(tc.name, func(t *testing.T) {
			local := sc
			switch tc.name {
			case "failed message writes":
				// forge a diff on the failed item
				cp := *sc
				cp.steps = append([]step{}, sc.steps...)
				for i := range cp.steps {
					if cp.steps[i].label == "send-fail" {
						cp.steps[i].item.Diff = &chain.StateDiff{Sequences: []chain.SeqChange{{Table: "Class", Old: 1, New: 2}}}
					}
				}
				local = &cp
			case "skipped project number":
				cp := *sc
				cp.steps = append([]step{}, sc.steps...)
				for i := range cp.steps {
					if cp.steps[i].label == "project" {
						res := *cp.steps[i].item.Result
						res.Responses = []chain.TypedJSON{{TypeURL: "/regen.ecocredit.v1.MsgCreateProjectResponse", JSON: json.RawMessage(`{"project_id":"C01-002"}`)}}
						cp.steps[i].item.Result = &res
					}
				}
				local = &cp
			}
			expect(t, run(t, local, tc.step, tc.doctor), tc.want)
		})
	}
}
