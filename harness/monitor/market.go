package monitor

import (
	"fmt"
	"math/big"
	"sort"
	"strings"

	sdk "github.com/cosmos/cosmos-sdk/types"

	market "github.com/regen-network/regen-ledger/x/ecocredit/v3/marketplace/types/v1"

	"verif/harness/chain"
)

// ---------------------------------------------------------------------------------------------
// C06: escrow equals the open sell orders

func (c *Checker) checkC06State() {
	v := c.post
	if len(v.Orders) == 0 && len(c.pre.Orders) == 0 {
		// still check that nothing is escrowed
		for _, k := range v.SortedBalKeys() {
			if v.Balances[k].E.val().Sign() != 0 {
				c.report("C06", "escrow!=orders", fmt.Sprintf("%s holds %s escrowed in batch %d but there are no sell orders", k.Acct, v.Balances[k].E.Raw, k.Batch), v.Balances[k].Row)
			}
		}
		return
	}
	c.hit("C06")
	sum := map[BalKey]*big.Rat{}
	rows := map[BalKey][]chain.Row{}
	for _, id := range sortedU64(v.Orders) {
		o := v.Orders[id]
		k := BalKey{o.Seller, o.Batch}
		if sum[k] == nil {
			sum[k] = zero()
		}
		rows[k] = append(rows[k], o.Row)
		bt := v.Batches[o.Batch]
		switch {
		case o.Qty.V == nil:
			c.report("C06", "order-quantity-unparseable", fmt.Sprintf("sell order %d has quantity %q", id, o.Qty.Raw), o.Row)
		case o.Qty.V.Sign() <= 0:
			c.report("C06", "order-quantity-not-positive", fmt.Sprintf("sell order %d has quantity %q", id, o.Qty.Raw), o.Row)
		default:
			sum[k].Add(sum[k], o.Qty.V)
			if d := ValueDecimals(o.Qty.V); d < 0 || d > v.Precision(bt) {
				c.report("C06", "order-quantity-precision", fmt.Sprintf("sell order %d has quantity %q beyond the credit type precision", id, o.Qty.Raw), o.Row)
			}
			if _, _, strict := ParseStrict(o.Qty.Raw); !strict {
				c.Counters["c06_order_quantity_non_canonical"]++
			}
		}
		if o.Ask == nil || o.Ask.Sign() <= 0 {
			c.report("C06", "order-ask-not-positive-integer", fmt.Sprintf("sell order %d has ask amount %q", id, o.AskRaw), o.Row)
		}
		if bt == nil {
			c.report("C06", "order-batch-missing", fmt.Sprintf("sell order %d references batch key %d which does not exist", id, o.Batch), o.Row)
		}
		if v.Markets[o.Market] == nil {
			c.report("C06", "order-market-missing", fmt.Sprintf("sell order %d references market %d which does not exist", id, o.Market), o.Row)
		}
	}
	seen := map[BalKey]bool{}
	for _, k := range v.SortedBalKeys() {
		seen[k] = true
		want := sum[k]
		if want == nil {
			want = zero()
		}
		if v.Balances[k].E.val().Cmp(want) != 0 {
			c.report("C06", "escrow!=orders", fmt.Sprintf("%s in batch %d: escrowed %s but open sell orders sum to %s", k.Acct, k.Batch, v.Balances[k].E.Raw, ratStr(want)),
				map[string]interface{}{"BatchBalance": v.Balances[k].Row, "SellOrder": rows[k]})
		}
	}
	for k, want := range sum {
		if !seen[k] && want.Sign() != 0 {
			c.report("C06", "escrow!=orders", fmt.Sprintf("%s in batch %d has open sell orders (%s) but no balance row", k.Acct, k.Batch, ratStr(want)), map[string]interface{}{"SellOrder": rows[k]})
		}
	}
}

func (c *Checker) checkC06Msg(msg sdk.Msg, ok bool) {
	if !ok {
		return
	}
	switch m := msg.(type) {
	case *market.MsgSell:
		c.hit("C06")
		for i, o := range m.Orders {
			if o.AskPrice != nil && !c.pre.AllowedDenoms[o.AskPrice.Denom] {
				c.report("C06", "order-created-with-disallowed-denom", fmt.Sprintf("Sell order[%d] accepted ask denom %s which is not on the allowed-denom list", i, o.AskPrice.Denom), nil)
			}
		}
	case *market.MsgUpdateSellOrders:
		c.hit("C06")
		for i, u := range m.Updates {
			if u.NewAskPrice != nil && !c.pre.AllowedDenoms[u.NewAskPrice.Denom] {
				c.report("C06", "order-updated-to-disallowed-denom", fmt.Sprintf("UpdateSellOrders update[%d] accepted ask denom %s which is not on the allowed-denom list", i, u.NewAskPrice.Denom), nil)
			}
		}
		c.checkUpdateFold(m)
	}
}

// checkUpdateFold applies the updates of one successful MsgUpdateSellOrders one after the other to the
// pre-state orders (the same order may be named several times) and compares the outcome: final
// quantity, ask, market denom, expiration and auto-retire flag of every touched order, and the
// seller's escrow/tradable moved by exactly the net quantity change.
func (c *Checker) checkUpdateFold(m *market.MsgUpdateSellOrders) {
	type ref struct {
		qty   *big.Rat
		ask   string
		denom string
		exp   *TS
		dar   bool
	}
	refs := map[uint64]*ref{}
	seen := map[uint64]int{}
	for _, u := range m.Updates {
		o := c.pre.Orders[u.SellOrderId]
		if o == nil || o.Qty.V == nil {
			return
		}
		r := refs[o.ID]
		if r == nil {
			r = &ref{qty: new(big.Rat).Set(o.Qty.V), ask: o.AskRaw, exp: o.Exp}
			if mk := c.pre.Markets[o.Market]; mk != nil {
				r.denom = mk.Denom
			}
			refs[o.ID] = r
		}
		seen[o.ID]++
		if q, ok := MsgAmount(u.NewQuantity); ok && u.NewQuantity != "" {
			r.qty = q
		}
		if u.NewAskPrice != nil {
			r.ask, r.denom = u.NewAskPrice.Amount.String(), u.NewAskPrice.Denom
		}
		if u.NewExpiration != nil {
			t := u.NewExpiration.UTC()
			r.exp = &TS{S: t.Unix(), N: int64(t.Nanosecond())}
		}
		r.dar = u.DisableAutoRetire
	}
	delta := map[BalKey]*big.Rat{}
	for _, id := range sortedU64(refs) {
		r := refs[id]
		if seen[id] > 1 {
			c.Counters["c06_same_order_updated_several_times"]++
		}
		pre := c.pre.Orders[id]
		po := c.post.Orders[id]
		if po == nil || po.Qty.V == nil {
			c.report("C06", "update-final-state", fmt.Sprintf("sell order %d disappeared in an update", id), pre.Row)
			continue
		}
		k := BalKey{pre.Seller, pre.Batch}
		if delta[k] == nil {
			delta[k] = zero()
		}
		delta[k].Add(delta[k], sub(r.qty, pre.Qty.V))
		denom := ""
		if mk := c.post.Markets[po.Market]; mk != nil {
			denom = mk.Denom
		}
		expOK := (r.exp == nil && po.Exp == nil) || (r.exp != nil && po.Exp != nil && r.exp.Cmp(*po.Exp) == 0)
		if po.Qty.V.Cmp(r.qty) != 0 || po.AskRaw != r.ask || denom != r.denom || !expOK || po.DisableAutoRetire != r.dar {
			c.report("C06", "update-final-state", fmt.Sprintf("sell order %d after %d update(s) in one message: quantity %s ask %s%s expiration %v, applying the updates in order gives quantity %s ask %s%s expiration %v",
				id, seen[id], po.Qty.Raw, po.AskRaw, denom, po.Exp, ratStr(r.qty), r.ask, r.denom, r.exp), map[string]interface{}{"pre": pre.Row, "post": po.Row})
		}
	}
	dks := make([]BalKey, 0, len(delta))
	for k := range delta {
		dks = append(dks, k)
	}
	sort.Slice(dks, func(i, j int) bool {
		if dks[i].Batch != dks[j].Batch {
			return dks[i].Batch < dks[j].Batch
		}
		return dks[i].Acct < dks[j].Acct
	})
	for _, k := range dks {
		d := delta[k]
		p, q := c.pre.Bal(k.Acct, k.Batch), c.post.Bal(k.Acct, k.Batch)
		if sub(q.E.val(), p.E.val()).Cmp(d) != 0 || sub(p.T.val(), q.T.val()).Cmp(d) != 0 {
			c.report("C06", "update-escrow-delta", fmt.Sprintf("%s batch %d: the updates change the open quantity by %s, escrow moved %s -> %s and tradable %s -> %s", k.Acct, k.Batch, ratStr(d), p.E.Raw, q.E.Raw, p.T.Raw, q.T.Raw),
				map[string]interface{}{"pre": p.Row, "post": q.Row})
		}
	}
}

// ---------------------------------------------------------------------------------------------
// C07: BuyDirect settles exactly

type refBal struct{ T, R, E *big.Rat }

// checkBuyRejection: a BuyDirect that the implementation rejects with its own "bid price denom"
// complaint although every order is bid in the ask denom of its sell order's market.
func (c *Checker) checkBuyRejection(m *market.MsgBuyDirect) {
	if c.it.Result == nil || !strings.Contains(c.it.Result.Log, "bid price denom:") {
		return
	}
	markets := map[uint64]bool{}
	for _, o := range m.Orders {
		so := c.pre.Orders[o.SellOrderId]
		if so == nil || o.BidPrice == nil {
			return
		}
		mk := c.pre.Markets[so.Market]
		if mk == nil || mk.Denom != o.BidPrice.Denom {
			return
		}
		markets[mk.ID] = true
	}
	if len(markets) > 1 {
		c.Counters["c07_rejected_buy_across_markets"]++
	}
	c.report("C07", "matching-bid-denom-rejected", "BuyDirect was rejected for a bid/ask denom mismatch although every order is bid in the ask denom of its own sell order", nil)
}

func (c *Checker) checkC07(msg sdk.Msg, ok bool) {
	m, is := msg.(*market.MsgBuyDirect)
	if is && !ok {
		c.checkBuyRejection(m)
	}
	if !is || !ok {
		return
	}
	{
		ms := map[uint64]bool{}
		for _, o := range m.Orders {
			if so := c.pre.Orders[o.SellOrderId]; so != nil {
				ms[so.Market] = true
			}
		}
		if len(ms) > 1 {
			c.Counters["c07_buy_across_markets"]++
		}
	}
	c.hit("C07")
	v := c.pre
	buyer := c.key(m.Buyer)
	br, bok := MsgAmount(v.BuyerFee)
	sr, sok := MsgAmount(v.SellerFee)
	if !bok || !sok {
		c.report("C07", "fee-params-unparseable", fmt.Sprintf("fee params %q / %q", v.BuyerFee, v.SellerFee), nil)
		return
	}
	// reference state, folded over the orders of the message
	qty := map[uint64]*big.Rat{}
	for id, o := range v.Orders {
		if o.Qty.V != nil {
			qty[id] = new(big.Rat).Set(o.Qty.V)
		}
	}
	bal := map[BalKey]*refBal{}
	getBal := func(k BalKey) *refBal {
		if bal[k] == nil {
			b := v.Bal(k.Acct, k.Batch)
			bal[k] = &refBal{new(big.Rat).Set(b.T.val()), new(big.Rat).Set(b.R.val()), new(big.Rat).Set(b.E.val())}
		}
		return bal[k]
	}
	supT, supR := map[uint64]*big.Rat{}, map[uint64]*big.Rat{}
	sellerExact := map[string]map[string]*big.Rat{} // seller → denom → Σ(sub − sf)
	sellerN := map[string]map[string]int64{}
	poolExact := map[string]*big.Rat{}
	poolN := map[string]int64{}
	buyerMax := map[string]*big.Rat{}
	over34 := false // some exact intermediate value needs more than 34 significant digits

	for i, o := range m.Orders {
		so := v.Orders[o.SellOrderId]
		if so == nil || qty[o.SellOrderId] == nil {
			c.report("C07", "bought-nonexistent-order", fmt.Sprintf("orders[%d]: sell order %d does not exist (or was already filled by this message)", i, o.SellOrderId), nil)
			return
		}
		q, places, qok := ParseLenient(o.Quantity)
		bt := v.Batches[so.Batch]
		if !qok || q.Sign() <= 0 {
			c.report("C07", "bought-invalid-quantity", fmt.Sprintf("orders[%d]: quantity %q accepted", i, o.Quantity), nil)
			return
		}
		if places > v.Precision(bt) {
			c.report("C07", "bought-quantity-precision", fmt.Sprintf("orders[%d]: quantity %q exceeds the precision", i, o.Quantity), nil)
		}
		mk := v.Markets[so.Market]
		if mk == nil || so.Ask == nil {
			return // reported by C06
		}
		if so.Seller == buyer {
			c.report("C07", "bought-own-order", fmt.Sprintf("orders[%d]: buyer is the seller", i), so.Row)
		}
		if o.BidPrice == nil {
			return
		}
		if o.BidPrice.Denom != mk.Denom {
			// the order must still be settled in ITS market's denom: the reference below keeps using mk.Denom
			c.report("C07", "bid-denom!=ask-denom", fmt.Sprintf("orders[%d]: bid %v accepted for sell order %d whose ask denom (market %d) is %s", i, o.BidPrice, so.ID, mk.ID, mk.Denom), so.Row)
		} else if o.BidPrice.Amount.BigInt().Cmp(so.Ask) < 0 {
			c.report("C07", "bid<ask", fmt.Sprintf("orders[%d]: bid %s < ask %s accepted", i, o.BidPrice.Amount, so.Ask), so.Row)
		}
		if o.DisableAutoRetire && !so.DisableAutoRetire {
			c.report("C07", "auto-retire-bypassed", fmt.Sprintf("orders[%d]: auto-retire disabled by the buyer on an order that requires it", i), so.Row)
		}
		if so.Exp != nil && so.Exp.Cmp(v.Time) <= 0 {
			c.report("C12", "bought-expired-order", fmt.Sprintf("orders[%d]: sell order %d expired at %v, block time %v", i, so.ID, *so.Exp, v.Time), so.Row)
		}
		if q.Cmp(qty[so.ID]) > 0 {
			c.report("C07", "bought-more-than-offered", fmt.Sprintf("orders[%d]: quantity %s > order quantity %s", i, ratStr(q), ratStr(qty[so.ID])), so.Row)
			return
		}
		qty[so.ID].Sub(qty[so.ID], q)
		if qty[so.ID].Sign() == 0 {
			delete(qty, so.ID)
		}
		sb := getBal(BalKey{so.Seller, so.Batch})
		sb.E.Sub(sb.E, q)
		bb := getBal(BalKey{buyer, so.Batch})
		if !o.DisableAutoRetire {
			bb.R.Add(bb.R, q)
			if supT[so.Batch] == nil {
				s := v.Supplies[so.Batch]
				if s == nil {
					return
				}
				supT[so.Batch], supR[so.Batch] = new(big.Rat).Set(s.T.val()), new(big.Rat).Set(s.R.val())
			}
			supT[so.Batch].Sub(supT[so.Batch], q)
			supR[so.Batch].Add(supR[so.Batch], q)
		} else {
			bb.T.Add(bb.T, q)
		}
		// coins
		subt := mul(q, ratInt(so.Ask))
		bf, sf := mul(subt, br), mul(subt, sr)
		d := mk.Denom
		if sellerExact[so.Seller] == nil {
			sellerExact[so.Seller], sellerN[so.Seller] = map[string]*big.Rat{}, map[string]int64{}
		}
		if sellerExact[so.Seller][d] == nil {
			sellerExact[so.Seller][d] = zero()
		}
		sellerExact[so.Seller][d].Add(sellerExact[so.Seller][d], sub(subt, sf))
		sellerN[so.Seller][d]++
		if poolExact[d] == nil {
			poolExact[d], buyerMax[d] = zero(), zero()
		}
		poolExact[d].Add(poolExact[d], add(bf, sf))
		poolN[d]++
		buyerMax[d].Add(buyerMax[d], add(subt, bf))
		for _, x := range []*big.Rat{subt, bf, sf, add(subt, bf), sub(subt, sf)} {
			if sigDigits(x) > 34 {
				over34 = true
			}
		}
		if sigDigits(subt) > 34 {
			c.Counters["c07_subtotal_over_34_digits"]++
		}
		// max fee
		mf := new(big.Int)
		if o.MaxFeeAmount != nil {
			if o.MaxFeeAmount.Denom != d {
				if floorRat(bf).Sign() > 0 {
					c.report("C07", "max-fee-wrong-denom-accepted", fmt.Sprintf("orders[%d]: max fee %s for market denom %s with a buyer fee of %s", i, o.MaxFeeAmount, d, ratStr(bf)), nil)
				}
			} else {
				mf = o.MaxFeeAmount.Amount.BigInt()
			}
		}
		if mf.Cmp(floorRat(bf)) < 0 && (o.MaxFeeAmount == nil || o.MaxFeeAmount.Denom == d) {
			k := "max-fee<buyer-fee"
			if sigDigits(bf) > 34 || sigDigits(subt) > 34 {
				k += ":beyond-34-digits"
			}
			c.report("C07", k, fmt.Sprintf("orders[%d]: max fee %s < floor(buyer fee %s)", i, mf, ratStr(bf)), nil)
		}
	}

	// credits: post state must equal the folded reference
	keys := map[BalKey]bool{}
	for k := range v.Balances {
		keys[k] = true
	}
	for k := range c.post.Balances {
		keys[k] = true
	}
	for k := range bal {
		keys[k] = true
	}
	bad := false
	for k := range keys {
		want := getBal(k)
		got := c.post.Bal(k.Acct, k.Batch)
		if want.T.Cmp(got.T.val()) != 0 || want.R.Cmp(got.R.val()) != 0 || want.E.Cmp(got.E.val()) != 0 {
			bad = true
			c.report("C07", "credits-settlement", fmt.Sprintf("%s batch %d after BuyDirect: got T=%s R=%s E=%s, exact reference T=%s R=%s E=%s", k.Acct, k.Batch,
				got.T.Raw, got.R.Raw, got.E.Raw, ratStr(want.T), ratStr(want.R), ratStr(want.E)), map[string]interface{}{"pre": v.Bal(k.Acct, k.Batch).Row, "post": got.Row})
		}
	}
	for _, k := range sortedU64(c.post.Supplies) {
		wantT, wantR := supT[k], supR[k]
		p := v.Supplies[k]
		if wantT == nil && p != nil {
			wantT, wantR = p.T.val(), p.R.val()
		}
		got := c.post.Supplies[k]
		if wantT != nil && (wantT.Cmp(got.T.val()) != 0 || wantR.Cmp(got.R.val()) != 0) {
			bad = true
			c.report("C07", "supply-settlement", fmt.Sprintf("batch %d supply after BuyDirect T=%s R=%s, reference T=%s R=%s", k, got.T.Raw, got.R.Raw, ratStr(wantT), ratStr(wantR)), got.Row)
		}
	}
	// orders
	ordersOK := len(qty) == len(c.post.Orders)
	for id, q := range qty {
		po := c.post.Orders[id]
		if po == nil || po.Qty.V == nil || po.Qty.V.Cmp(q) != 0 {
			ordersOK = false
		}
	}
	if !ordersOK && !bad {
		c.report("C07", "order-settlement", "sell orders after BuyDirect differ from the reference (quantity reduced by the purchase, deleted at zero)",
			map[string]interface{}{"pre": v.S.Tables["SellOrder"], "post": c.post.S.Tables["SellOrder"]})
	}

	// coins
	sfx := ""
	if over34 {
		sfx = ":beyond-34-digits"
	}
	touched := map[string]map[string]bool{}
	mark := func(a, d string) {
		if touched[a] == nil {
			touched[a] = map[string]bool{}
		}
		touched[a][d] = true
	}
	for _, d := range sortedStr(poolExact) {
		sellersCredit := new(big.Int)
		for _, s := range sortedStr(sellerExact) {
			ex := sellerExact[s][d]
			if ex == nil {
				continue
			}
			mark(s, d)
			delta := new(big.Int).Sub(c.post.BankOf(s, d), v.BankOf(s, d))
			sellersCredit.Add(sellersCredit, delta)
			tol := big.NewRat(sellerN[s][d], 1)
			if diff := new(big.Rat).Abs(sub(ratInt(delta), ex)); diff.Cmp(tol) >= 0 {
				c.report("C07", "seller-credit-off"+sfx, fmt.Sprintf("seller %s credited %s %s, exact quantity x ask - seller fee = %s (%d order(s))", s, delta, d, ratStr(ex), sellerN[s][d]), nil)
			}
		}
		mark(KeyFeePool, d)
		mark(buyer, d)
		poolDelta := new(big.Int).Sub(c.post.BankOf(KeyFeePool, d), v.BankOf(KeyFeePool, d))
		feeTaken := new(big.Int).Set(poolDelta)
		supDelta := new(big.Int).Sub(v.SupplyOf(d), c.post.SupplyOf(d))
		if d == "uregen" {
			if poolDelta.Sign() != 0 {
				c.report("C07", "uregen-fee-not-burned", fmt.Sprintf("fee pool uregen balance changed by %s", poolDelta), nil)
			}
			feeTaken = supDelta
		} else if supDelta.Sign() != 0 {
			c.report("C07", "supply-changed", fmt.Sprintf("bank supply of %s changed by -%s during BuyDirect", d, supDelta), nil)
		}
		tol := big.NewRat(poolN[d], 1)
		if diff := new(big.Rat).Abs(sub(ratInt(feeTaken), poolExact[d])); diff.Cmp(tol) >= 0 {
			c.report("C07", "pool-credit-off"+sfx, fmt.Sprintf("fees collected %s %s, exact buyer fee + seller fee = %s (%d order(s))", feeTaken, d, ratStr(poolExact[d]), poolN[d]), nil)
		}
		debit := new(big.Int).Sub(v.BankOf(buyer, d), c.post.BankOf(buyer, d))
		if debit.Cmp(new(big.Int).Add(sellersCredit, feeTaken)) != 0 {
			c.report("C07", "buyer-debit!=credits"+sfx, fmt.Sprintf("buyer debited %s %s but sellers received %s and fees were %s", debit, d, sellersCredit, feeTaken), nil)
		}
		if ratInt(debit).Cmp(buyerMax[d]) > 0 {
			c.report("C07", "buyer-overcharged"+sfx, fmt.Sprintf("buyer debited %s %s, exact total quantity x ask x (1 + buyer fee) = %s", debit, d, ratStr(buyerMax[d])), nil)
		}
	}
	for _, a := range c.allAccounts() {
		for _, d := range c.allDenoms(a) {
			if touched[a][d] {
				continue
			}
			if v.BankOf(a, d).Cmp(c.post.BankOf(a, d)) != 0 {
				key := "unrelated-balance-changed"
				if poolExact[d] == nil {
					key = "coin-movement-in-foreign-denom" // not the ask denom of any filled order
				}
				c.report("C07", key, fmt.Sprintf("%s balance of %s changed %s -> %s during BuyDirect (ask denoms of the filled orders: %v)", d, a, v.BankOf(a, d), c.post.BankOf(a, d), sortedStr(poolExact)), nil)
			}
		}
	}
}

// sigDigits returns the number of significant decimal digits needed to write r exactly
// (integer digits + decimals; 99 if r has no finite decimal expansion).
func sigDigits(r *big.Rat) int {
	d := ValueDecimals(r)
	if d < 0 {
		return 99
	}
	n := new(big.Int).Mul(r.Num(), pow10(d))
	n.Quo(n, r.Denom())
	s := strings.TrimRight(new(big.Int).Abs(n).String(), "0")
	if s == "" {
		return 1
	}
	return len(s)
}

func maxInt(a, b int) int {
	if a > b {
		return a
	}
	return b
}

// ---------------------------------------------------------------------------------------------
// C12: expiry at begin block

func (c *Checker) checkC12Begin() {
	c.hit("C12")
	res := c.it.Result
	if res.Panicked {
		c.report("C12", "beginblock-panic", "BeginBlock panicked: "+clip(res.PanicValue, 300), res.PanicStack)
	} else if !res.OK {
		c.report("C12", "beginblock-error", "BeginBlock returned an error: "+clip(res.Err, 300), nil)
	}
	T := c.post.Time
	for _, id := range sortedU64(c.post.Orders) {
		o := c.post.Orders[id]
		if o.Exp != nil && !(o.Exp.S == 0 && o.Exp.N == 0) && o.Exp.Cmp(T) <= 0 {
			c.report("C12", "expired-order-survived", fmt.Sprintf("sell order %d with expiration %v still exists after BeginBlock at %v", id, *o.Exp, T), o.Row)
		}
		if o.Exp != nil {
			if d := new(big.Int).Sub(o.Exp.Nanos(), T.Nanos()); d.Cmp(big.NewInt(1)) == 0 {
				c.Counters["c12_order_expiring_1ns_after_block_time"]++
			}
		}
	}
	removed := map[BalKey]*big.Rat{}
	nRemoved := 0
	for _, id := range sortedU64(c.pre.Orders) {
		p := c.pre.Orders[id]
		q := c.post.Orders[id]
		if q != nil {
			if chainRowJSON(p.Row) != chainRowJSON(q.Row) {
				c.report("C12", "beginblock-modified-order", fmt.Sprintf("sell order %d was modified by BeginBlock", id), map[string]interface{}{"pre": p.Row, "post": q.Row})
			}
			continue
		}
		nRemoved++
		if p.Exp == nil || p.Exp.Cmp(T) > 0 {
			c.report("C12", "unexpired-order-removed", fmt.Sprintf("sell order %d (expiration %v) was removed by BeginBlock at %v", id, p.Exp, T), p.Row)
		}
		if p.Exp != nil && p.Exp.Cmp(T) == 0 {
			c.Counters["c12_order_expiring_exactly_at_block_time"]++
		}
		k := BalKey{p.Seller, p.Batch}
		if removed[k] == nil {
			removed[k] = zero()
		}
		removed[k].Add(removed[k], p.Qty.val())
	}
	if nRemoved > 0 {
		c.Counters["c12_blocks_with_expiry"]++
		if nRemoved > 1 {
			c.Counters["c12_blocks_with_several_expiries"]++
		}
	}
	for id := range c.post.Orders {
		if c.pre.Orders[id] == nil {
			c.report("C12", "beginblock-created-order", fmt.Sprintf("sell order %d appeared during BeginBlock", id), c.post.Orders[id].Row)
		}
	}
	keys := map[BalKey]bool{}
	for k := range c.pre.Balances {
		keys[k] = true
	}
	for k := range removed {
		keys[k] = true
	}
	for k := range keys {
		p, q := c.pre.Bal(k.Acct, k.Batch), c.post.Bal(k.Acct, k.Batch)
		r := removed[k]
		if r == nil {
			r = zero()
		}
		if sub(p.E.val(), q.E.val()).Cmp(r) != 0 || sub(q.T.val(), p.T.val()).Cmp(r) != 0 {
			c.report("C12", "expiry-refund", fmt.Sprintf("%s batch %d: expired quantity %s, escrow %s -> %s, tradable %s -> %s", k.Acct, k.Batch, ratStr(r), p.E.Raw, q.E.Raw, p.T.Raw, q.T.Raw),
				map[string]interface{}{"pre": p.Row, "post": q.Row})
		}
	}
}

func (c *Checker) checkC12Buy(msg sdk.Msg, ok bool) {
	m, is := msg.(*market.MsgBuyDirect)
	if !is {
		return
	}
	for _, o := range m.Orders {
		if so := c.pre.Orders[o.SellOrderId]; so == nil {
			c.Counters["c12_buy_of_missing_or_expired_order"]++
		}
	}
	_ = ok
}

func chainRowJSON(r chain.Row) string {
	bz, _ := chain.MarshalIndentJSON(r)
	return string(bz)
}
