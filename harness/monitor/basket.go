package monitor

import (
	"fmt"
	"math/big"
	"sort"
	"strings"
	"time"

	sdk "github.com/cosmos/cosmos-sdk/types"

	base "github.com/regen-network/regen-ledger/x/ecocredit/v3/base/types/v1"
	basket "github.com/regen-network/regen-ledger/x/ecocredit/v3/basket/types/v1"

	"verif/harness/chain"
)

// ---------------------------------------------------------------------------------------------
// C05: basket tokens are backed 1:1

func (c *Checker) basketTotal(v *View, id uint64) *big.Rat {
	t := zero()
	for _, bb := range v.BasketBals {
		if bb.Basket == id {
			t.Add(t, bb.Bal.val())
		}
	}
	return t
}

func (c *Checker) basketRows(v *View, id uint64) []chain.Row {
	var out []chain.Row
	for _, bb := range v.BasketBals {
		if bb.Basket == id {
			out = append(out, bb.Row)
		}
	}
	return out
}

func (c *Checker) checkC05State() {
	v := c.post
	if len(v.Baskets) == 0 {
		return
	}
	c.hit("C05")
	exactOK := true
	explained := false // a deficit that equals the basket tokens burned as creation fees (reported separately)
	for _, id := range sortedU64(v.Baskets) {
		b := v.Baskets[id]
		prec := 6
		if p, ok := v.CreditTypes[b.Type]; ok {
			prec = int(p)
		}
		want := mul(c.basketTotal(v, id), ratInt(pow10(prec)))
		got := ratInt(v.SupplyOf(b.Denom))
		if burned := c.feeBurned[b.Denom]; burned != nil && sub(want, got).Cmp(ratInt(burned)) == 0 {
			explained = true
		} else if want.Cmp(got) != 0 {
			exactOK = false
			c.report("C05", "basket-supply!=credits", fmt.Sprintf("basket %s: bank supply %s but credits held x 10^%d = %s", b.Denom, ratStr(got), prec, ratStr(want)),
				map[string]interface{}{"BasketBalance": c.basketRows(v, id)})
		}
		if IntDigits(floorRat(want)) > 34 {
			c.Counters["basket_total_over_34_digits"]++
		}
	}
	msg, broken := brokenInv(c.it, "ecocredit/basket-supply")
	was := c.basketInvBroken
	c.basketInvBroken = broken
	if explained && exactOK {
		return // the invariant necessarily reports the fee-burn deficit; that finding has its own key
	}
	if broken && !was { // report the step at which the invariant starts to fail
		key := "basket-invariant-broken"
		desc := "registered invariant ecocredit/basket-supply reports: " + clip(msg, 400)
		if exactOK {
			key = "basket-invariant-34digit"
			desc = "basket supply equals the credits held exactly, yet the registered invariant ecocredit/basket-supply reports: " + clip(msg, 400)
		}
		var rows []chain.Row
		for _, id := range sortedU64(v.Baskets) {
			rows = append(rows, c.basketRows(v, id)...)
		}
		c.report("C05", key, desc, map[string]interface{}{"BasketBalance": rows, "supply": v.S.Supply})
	}
}

// noteFeeBurn recognises a class/basket creation fee that is charged (and burned) in the denom of an
// existing basket: the burned tokens leave the bank supply while the credits stay in the basket.
func (c *Checker) noteFeeBurn(msg sdk.Msg, ok bool) {
	if !ok || msg == nil {
		return
	}
	var fee *CoinV
	key, what := "", ""
	switch msg.(type) {
	case *basket.MsgCreate:
		fee, key, what = c.pre.BasketFee, "basket-fee-burns-basket-tokens", "basket creation fee"
	case *base.MsgCreateClass:
		fee, key, what = c.pre.ClassFee, "class-fee-burns-basket-tokens", "class creation fee"
	default:
		return
	}
	if fee == nil || fee.Amount == nil || fee.Amount.Sign() <= 0 {
		return
	}
	bk := c.pre.BasketByDenom[fee.Denom]
	if bk == nil {
		return
	}
	burned := new(big.Int).Sub(c.pre.SupplyOf(fee.Denom), c.post.SupplyOf(fee.Denom))
	if burned.Sign() <= 0 {
		return
	}
	if c.feeBurned[fee.Denom] == nil {
		c.feeBurned[fee.Denom] = new(big.Int)
	}
	c.feeBurned[fee.Denom].Add(c.feeBurned[fee.Denom], burned)
	c.report("C05", key, fmt.Sprintf("the %s is set in basket denom %s; paying it burned %s basket tokens, so the bank supply (%s) is now below credits held x 10^precision by the burned amount (total %s)",
		what, fee.Denom, burned, c.post.SupplyOf(fee.Denom), c.feeBurned[fee.Denom]),
		map[string]interface{}{"fee": map[string]string{"denom": fee.Denom, "amount": fee.Raw}, "BasketBalance": c.basketRows(c.post, bk.ID), "supply_before": c.pre.SupplyOf(fee.Denom).String(), "supply_after": c.post.SupplyOf(fee.Denom).String()})
}

func (c *Checker) checkC05Msg(msg sdk.Msg, ok bool) {
	if !ok {
		return
	}
	switch m := msg.(type) {
	case *basket.MsgPut:
		c.hit("C05")
		b := c.pre.BasketByDenom[m.BasketDenom]
		if b == nil {
			c.report("C05", "put-into-missing-basket", "Put succeeded for a basket that does not exist", nil)
			return
		}
		prec := 6
		if p, ok := c.pre.CreditTypes[b.Type]; ok {
			prec = int(p)
		}
		want := zero()
		for _, cr := range m.Credits {
			a, aok := MsgAmount(cr.Amount)
			if !aok {
				c.report("C05", "put-accepted-unparseable-amount", fmt.Sprintf("Put accepted amount %q", cr.Amount), nil)
				return
			}
			want.Add(want, mul(a, ratInt(pow10(prec))))
		}
		owner := c.key(m.Owner)
		got := new(big.Int).Sub(c.post.BankOf(owner, b.Denom), c.pre.BankOf(owner, b.Denom))
		sup := new(big.Int).Sub(c.post.SupplyOf(b.Denom), c.pre.SupplyOf(b.Denom))
		if ratInt(got).Cmp(want) != 0 || ratInt(sup).Cmp(want) != 0 {
			c.report("C05", "put-minted!=units", fmt.Sprintf("Put of credits worth exactly %s tokens (amount x 10^%d): the owner received %s, the supply grew by %s", ratStr(want), prec, got, sup), nil)
		}
		if r := respStr(c.response(), "amount_received"); r != got.String() {
			c.report("C05", "put-response-mismatch", fmt.Sprintf("MsgPutResponse.amount_received = %q but the owner received %s", r, got), nil)
		}
	case *basket.MsgTake:
		c.hit("C05")
		b := c.pre.BasketByDenom[m.BasketDenom]
		if b == nil {
			c.report("C05", "take-from-missing-basket", "Take succeeded for a basket that does not exist", nil)
			return
		}
		// the amount is an sdk.Int: Go integer-literal syntax ("010" is 8, "0x10" is 16, "1_000" is 1000)
		amt, aok := new(big.Int).SetString(m.Amount, 0)
		if !aok {
			c.report("C05", "take-accepted-bad-amount", fmt.Sprintf("Take accepted amount %q", m.Amount), nil)
			return
		}
		owner := c.key(m.Owner)
		got := new(big.Int).Sub(c.pre.BankOf(owner, b.Denom), c.post.BankOf(owner, b.Denom))
		sup := new(big.Int).Sub(c.pre.SupplyOf(b.Denom), c.post.SupplyOf(b.Denom))
		if got.Cmp(amt) != 0 || sup.Cmp(amt) != 0 {
			c.report("C05", "take-burned-wrong-amount", fmt.Sprintf("Take of %s: owner debited %s, supply shrank by %s", amt, got, sup), nil)
		}
		prec := 6
		if p, ok := c.pre.CreditTypes[b.Type]; ok {
			prec = int(p)
		}
		want := new(big.Rat).SetFrac(amt, pow10(prec))
		sum := zero()
		for _, cr := range respCredits(c.response()) {
			a, aok := MsgAmount(cr[1])
			if !aok {
				c.report("C05", "take-response-unparseable", fmt.Sprintf("MsgTakeResponse credit amount %q", cr[1]), nil)
				return
			}
			sum.Add(sum, a)
		}
		// independent of how the amount string is read: credits released x 10^precision = tokens burned
		if burned := new(big.Rat).SetFrac(sup, pow10(prec)); sum.Cmp(burned) != 0 {
			c.report("C05", "take-released!=burned", fmt.Sprintf("Take(%q) burned %s tokens but released %s credits", m.Amount, sup, ratStr(sum)), nil)
		}
		if sum.Cmp(want) != 0 {
			c.report("C05", "take-released-wrong-amount", fmt.Sprintf("Take of %s tokens released %s credits, expected %s", amt, ratStr(sum), ratStr(want)), nil)
		}
	}
}

// respCredits extracts [batch_denom, amount] pairs of a MsgTakeResponse.
func respCredits(m map[string]interface{}) [][2]string {
	var out [][2]string
	if m == nil {
		return nil
	}
	arr, _ := m["credits"].([]interface{})
	for _, e := range arr {
		em, _ := e.(map[string]interface{})
		d, _ := em["batch_denom"].(string)
		a, _ := em["amount"].(string)
		out = append(out, [2]string{d, a})
	}
	return out
}

// ---------------------------------------------------------------------------------------------
// C11: admission, oldest-first release, auto-retire

// criterion computes the earliest admissible start date of a basket at block time t, in
// nanoseconds since the epoch (exact integer arithmetic; nil = no criterion).
func criterion(b *Basket, t TS) (*big.Int, string) {
	switch {
	case b.MinStart != nil:
		return b.MinStart.Nanos(), "min_start_date"
	case b.Window != nil:
		return new(big.Int).Sub(t.Nanos(), b.Window.Nanos()), "start_date_window"
	case b.Years != 0:
		year := time.Unix(t.S, t.N).UTC().Year() - int(b.Years)
		jan1 := time.Date(year, 1, 1, 0, 0, 0, 0, time.UTC)
		return TS{S: jan1.Unix()}.Nanos(), "years_in_the_past"
	}
	return nil, "none"
}

func classIDOfDenom(denom string) string {
	if i := strings.IndexByte(denom, '-'); i >= 0 {
		return denom[:i]
	}
	return denom
}

// PutAdmissible reports whether the admission rules (class, credit type, start date at the block
// time of v) let batch bt enter basket b. Exported for generators that want mostly-valid deposits.
func PutAdmissible(v *View, b *Basket, bt *Batch) bool {
	return (&Checker{Counters: map[string]int{}}).putAdmissible(v, b, bt) == ""
}

// putAdmissible evaluates the three admission rules for one batch; it returns "" if the batch may
// enter the basket, else the reason.
func (c *Checker) putAdmissible(v *View, b *Basket, bt *Batch) string {
	cl := v.ClassOfBatch(bt)
	if cl == nil {
		return "class-missing"
	}
	if !v.BasketClasses[b.ID][cl.ID] {
		return "class-not-allowed"
	}
	if cl.Type != b.Type {
		return "credit-type-mismatch"
	}
	if crit, kind := criterion(b, v.Time); crit != nil {
		if bt.Start == nil {
			return "start-date-missing"
		}
		if bt.Start.Nanos().Cmp(crit) < 0 {
			return "start-before-" + kind
		}
		if bt.Start.Nanos().Cmp(crit) == 0 {
			c.Counters["c11_start_equals_criterion"]++
		}
	}
	return ""
}

func (c *Checker) checkC11(msg sdk.Msg, ok bool) {
	switch m := msg.(type) {
	case *basket.MsgPut:
		c.hit("C11")
		c.checkPut(m, ok)
	case *basket.MsgTake:
		c.hit("C11")
		if ok {
			c.checkTake(m)
		}
	}
}

func (c *Checker) checkPut(m *basket.MsgPut, ok bool) {
	v := c.pre
	b := v.BasketByDenom[m.BasketDenom]
	if b == nil {
		return // success reported by C05
	}
	reasons := []string{}
	allExist, strictOK := true, true
	owner := c.key(m.Owner)
	remaining := map[uint64]*big.Rat{}
	enough := true
	for _, cr := range m.Credits {
		bt := v.BatchByDen[cr.BatchDenom]
		if bt == nil {
			allExist = false
			continue
		}
		if r := c.putAdmissible(v, b, bt); r != "" {
			reasons = append(reasons, r)
		}
		a, places, pok := ParseStrict(cr.Amount)
		if !pok || a.Sign() <= 0 || places > v.Precision(bt) || strings.HasPrefix(cr.Amount, "-") {
			strictOK = false
			continue
		}
		if IntDigits(floorRat(mul(a, ratInt(pow10(v.Precision(bt)))))) > 34 {
			strictOK = false
			c.Counters["c11_put_over_34_digits"]++
			continue
		}
		if remaining[bt.Key] == nil {
			remaining[bt.Key] = new(big.Rat).Set(v.Bal(owner, bt.Key).T.val())
		}
		remaining[bt.Key].Sub(remaining[bt.Key], a)
		if remaining[bt.Key].Sign() < 0 {
			enough = false
		}
	}
	if ok {
		if !allExist {
			c.report("C11", "put-accepted-unknown-batch", "Put succeeded although a batch does not exist", nil)
		}
		if len(reasons) > 0 {
			c.report("C11", "put-accepted-inadmissible:"+reasons[0], "Put succeeded although the credits do not qualify: "+strings.Join(reasons, ","),
				map[string]interface{}{"basket": b.Row, "block_time": v.Time})
		}
		return
	}
	// converse: every documented precondition holds → the Put must succeed
	isUser := strings.HasPrefix(owner, "#") && len(owner) <= 3 && owner != KeyGov
	if allExist && strictOK && enough && len(reasons) == 0 && isUser && len(m.Credits) > 0 {
		var rows []chain.Row
		for _, cr := range m.Credits {
			if bt := v.BatchByDen[cr.BatchDenom]; bt != nil {
				rows = append(rows, bt.Row)
			}
		}
		key := "put-rejected-admissible"
		if b.Window != nil {
			key += ":start_date_window"
		} else if b.Years != 0 {
			key += ":years_in_the_past"
		} else if b.MinStart != nil {
			key += ":min_start_date"
		}
		c.report("C11", key, "Put was rejected although class, credit type and start date qualify and the owner holds the credits",
			map[string]interface{}{"basket": b.Row, "batches": rows, "block_time": v.Time})
	}
}

func (c *Checker) checkTake(m *basket.MsgTake) {
	v := c.pre
	b := v.BasketByDenom[m.BasketDenom]
	if b == nil {
		return
	}
	amt, aok := new(big.Int).SetString(m.Amount, 0) // sdk.Int syntax (base 0), see C05
	if !aok {
		return
	}
	prec := 6
	if p, ok := v.CreditTypes[b.Type]; ok {
		prec = int(p)
	}
	if !b.DisableAutoRetire && !m.RetireOnTake {
		c.report("C11", "take-unretired-from-auto-retire-basket", "Take with retire_on_take=false succeeded on a basket with auto-retire enabled", b.Row)
	}
	retire := m.RetireOnTake
	need := new(big.Rat).SetFrac(amt, pow10(prec))
	// reference release order: start date, then batch denom
	var bals []*BasketBal
	for _, bb := range v.BasketBals {
		if bb.Basket == b.ID {
			bals = append(bals, bb)
		}
	}
	sort.SliceStable(bals, func(i, j int) bool {
		x, y := bals[i], bals[j]
		if x.Start != nil && y.Start != nil {
			if cmp := x.Start.Cmp(*y.Start); cmp != 0 {
				return cmp < 0
			}
		}
		return x.Denom < y.Denom
	})
	tied := false
	for i := 1; i < len(bals); i++ {
		if bals[i].Start != nil && bals[i-1].Start != nil && bals[i].Start.Cmp(*bals[i-1].Start) == 0 {
			tied = true
		}
	}
	if tied {
		c.Counters["c11_take_with_tied_start_dates"]++
	}
	type rel struct {
		denom string
		amt   *big.Rat
	}
	var want []rel
	left := map[string]*big.Rat{}
	for _, bb := range bals {
		left[bb.Denom] = new(big.Rat).Set(bb.Bal.val())
	}
	for _, bb := range bals {
		if need.Sign() <= 0 {
			break
		}
		if bb.Bal.val().Cmp(need) > 0 {
			want = append(want, rel{bb.Denom, new(big.Rat).Set(need)})
			left[bb.Denom].Sub(left[bb.Denom], need)
			need = zero()
			break
		}
		want = append(want, rel{bb.Denom, new(big.Rat).Set(bb.Bal.val())})
		need.Sub(need, bb.Bal.val())
		delete(left, bb.Denom)
	}
	if need.Sign() > 0 {
		c.report("C11", "take-more-than-basket-holds", "Take succeeded for more than the basket holds", map[string]interface{}{"BasketBalance": c.basketRows(v, b.ID)})
		return
	}
	got := respCredits(c.response())
	same := len(got) == len(want)
	if same {
		for i := range got {
			a, aok := MsgAmount(got[i][1])
			if got[i][0] != want[i].denom || !aok || a.Cmp(want[i].amt) != 0 {
				same = false
			}
		}
	}
	if !same {
		ws := []string{}
		for _, w := range want {
			ws = append(ws, w.denom+":"+ratStr(w.amt))
		}
		c.report("C11", "take-order", fmt.Sprintf("Take released %v, oldest-first expects %v", got, ws), map[string]interface{}{"BasketBalance": c.basketRows(v, b.ID)})
	}
	// basket balances afterwards
	postLeft := map[string]*big.Rat{}
	for _, bb := range c.post.BasketBals {
		if bb.Basket == b.ID {
			postLeft[bb.Denom] = bb.Bal.val()
		}
	}
	okLeft := len(postLeft) == len(left)
	for d, x := range left {
		if y := postLeft[d]; y == nil || y.Cmp(x) != 0 {
			okLeft = false
		}
	}
	if !okLeft {
		c.report("C11", "take-basket-balance", "basket balances after Take differ from oldest-first draining",
			map[string]interface{}{"pre": c.basketRows(v, b.ID), "post": c.basketRows(c.post, b.ID)})
	}
	// the owner receives the credits retired iff retire
	owner := c.key(m.Owner)
	for _, w := range want {
		bt := v.BatchByDen[w.denom]
		if bt == nil {
			continue
		}
		p, q := v.Bal(owner, bt.Key), c.post.Bal(owner, bt.Key)
		dT, dR := sub(q.T.val(), p.T.val()), sub(q.R.val(), p.R.val())
		wantT, wantR := w.amt, zero()
		if retire {
			wantT, wantR = zero(), w.amt
		}
		if dT.Cmp(wantT) != 0 || dR.Cmp(wantR) != 0 {
			c.report("C11", "take-delivery", fmt.Sprintf("Take (retire=%v) of %s from %s changed the owner's tradable by %s and retired by %s", retire, ratStr(w.amt), w.denom, ratStr(dT), ratStr(dR)),
				map[string]interface{}{"pre": p.Row, "post": q.Row})
		}
	}
}
