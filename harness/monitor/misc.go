package monitor

import (
	"fmt"
	"math/big"
	"regexp"
	"strconv"
	"strings"

	sdk "github.com/cosmos/cosmos-sdk/types"

	data "github.com/regen-network/regen-ledger/x/data/v3"
	base "github.com/regen-network/regen-ledger/x/ecocredit/v3/base/types/v1"
	basket "github.com/regen-network/regen-ledger/x/ecocredit/v3/basket/types/v1"

	"verif/harness/chain"
)

// ---------------------------------------------------------------------------------------------
// C09: genesis round trip

var reNoise = regexp.MustCompile(`[0-9]+|"[^"]*"|regen1[a-z0-9]+`)

func validateKey(mod, msg string) string {
	switch {
	case strings.Contains(msg, "batch end date"):
		return "batch-dates-equal"
	case mod == chain.GenData && strings.Contains(msg, "manager"):
		return "public-resolver-manager"
	}
	s := reNoise.ReplaceAllString(msg, "#")
	s = strings.Join(strings.Fields(s), "-")
	if len(s) > 70 {
		s = s[:70]
	}
	return "validate-" + mod + ":" + s
}

func (c *Checker) checkGenesisRT(it *chain.Item) {
	rt := it.GenesisRT
	if rt == nil {
		return
	}
	c.hit("C09")
	if rt.ExportErr != "" {
		c.report("C09", "export-error", "genesis export failed: "+clip(rt.ExportErr, 300), nil)
		return
	}
	for _, mod := range sortedStr(rt.ValidateErrs) {
		c.report("C09", validateKey(mod, rt.ValidateErrs[mod]), "exported "+mod+" genesis fails the module's own validation: "+clip(rt.ValidateErrs[mod], 400), nil)
	}
	if rt.ImportPanic != "" {
		c.report("C09", "import-panic", "InitGenesis of the exported genesis panicked: "+clip(rt.ImportPanic, 300), rt.ImportStack)
		return
	}
	if rt.ReexportErr != "" {
		c.report("C09", "reexport-error", "re-export failed: "+clip(rt.ReexportErr, 300), nil)
		return
	}
	if !rt.Identical {
		c.report("C09", "reexport-differs", "re-exported genesis differs: "+clip(rt.FirstDiff, 300), rt.ModuleIdentical)
	}
	if !rt.StateIdentical {
		c.report("C09", "state-differs", "state of the re-imported chain differs from the original", nil)
	}
	for _, r := range chain.BrokenInvariants(rt.Invariants) {
		c.report("C09", "fresh-invariant-broken:"+r, "invariant broken on the re-imported chain: "+clip(rt.Invariants[r].Msg, 300), nil)
	}
}

// ---------------------------------------------------------------------------------------------
// C16: data module permanence

func (c *Checker) checkC16State() {
	p, q := c.pre, c.post
	if len(q.DataIDs) == 0 && len(q.Resolvers) == 0 && len(p.DataIDs) == 0 {
		return
	}
	c.hit("C16")
	iris := map[string]string{}
	for _, id := range sortedStr(q.DataIDs) {
		iri := q.DataIDs[id]
		if other, dup := iris[iri]; dup {
			c.report("C16", "iri-two-ids", fmt.Sprintf("IRI %s has ids %s and %s", iri, other, id), nil)
		}
		iris[iri] = id
		if prev, seen := c.iriID[iri]; seen && prev != id {
			c.report("C16", "iri-id-changed", fmt.Sprintf("IRI %s had id %s, now %s", iri, prev, id), nil)
		}
		c.iriID[iri] = id
		if len(id) > 10 {
			c.Counters["c16_ids_from_collision_fallback"]++
		}
	}
	for _, id := range sortedStr(p.DataIDs) {
		if q.DataIDs[id] != p.DataIDs[id] {
			c.report("C16", "data-id-changed", fmt.Sprintf("DataID %s: iri %q -> %q", id, p.DataIDs[id], q.DataIDs[id]), nil)
		}
	}
	for _, id := range sortedStr(p.DataAnchors) {
		a, b := p.DataAnchors[id], q.DataAnchors[id]
		if b == nil || a == nil || a.Cmp(*b) != 0 {
			c.report("C16", "anchor-changed", fmt.Sprintf("anchor of %s: %v -> %v", id, a, b), nil)
		}
	}
	for _, id := range sortedStr(q.DataAnchors) {
		if _, had := p.DataAnchors[id]; had {
			continue
		}
		ts := q.DataAnchors[id]
		if ts == nil || ts.Cmp(q.Time) != 0 {
			c.report("C16", "anchor-timestamp!=block-time", fmt.Sprintf("new anchor %s has timestamp %v at block time %v", id, ts, q.Time), nil)
		}
		if _, ok := q.DataIDs[id]; !ok {
			c.report("C16", "anchor-without-id", "anchor "+id+" has no DataID row", nil)
		}
	}
	for _, k := range sortedStr(p.DataAttest) {
		a, b := p.DataAttest[k], q.DataAttest[k]
		if b == nil || a == nil || a.Cmp(*b) != 0 {
			c.report("C16", "attestation-changed", fmt.Sprintf("attestation %s: %v -> %v", k, a, b), nil)
		}
	}
	for _, k := range sortedStr(q.DataAttest) {
		if _, had := p.DataAttest[k]; had {
			continue
		}
		if ts := q.DataAttest[k]; ts == nil || ts.Cmp(q.Time) != 0 {
			c.report("C16", "attestation-timestamp!=block-time", fmt.Sprintf("new attestation %s has timestamp %v at block time %v", k, ts, q.Time), nil)
		}
	}
	for _, k := range sortedStr(p.DataResolver) {
		if !q.DataResolver[k] {
			c.report("C16", "resolver-registration-lost", "registration "+k+" disappeared", nil)
		}
	}
	for _, id := range sortedU64(p.Resolvers) {
		a, b := p.Resolvers[id], q.Resolvers[id]
		if b == nil || a.Manager != b.Manager || a.URL != b.URL {
			c.report("C16", "resolver-changed", fmt.Sprintf("resolver %d changed or disappeared", id), nil)
		}
	}
}

func (c *Checker) checkC16Msg(msg sdk.Msg, ok bool) {
	switch m := msg.(type) {
	case *data.MsgRegisterResolver:
		c.hit("C16")
		c.hit("C08")
		r := c.pre.Resolvers[m.ResolverId]
		if r == nil {
			if ok {
				c.report("C16", "registered-to-missing-resolver", "RegisterResolver succeeded for a resolver that does not exist", nil)
			}
			return
		}
		signer := c.key(m.Signer)
		if r.Manager == "" {
			c.Counters["c16_register_on_public_resolver"]++
		} else if r.Manager != signer {
			c.Counters["c16_register_by_non_manager"]++
			if ok {
				c.report("C16", "non-manager-registered", fmt.Sprintf("%s registered data to resolver %d managed by %s", signer, r.ID, r.Manager), nil)
				c.report("C08", "role:resolver-manager", fmt.Sprintf("%s registered data to resolver %d managed by %s", signer, r.ID, r.Manager), nil)
			}
		}
	case *data.MsgAnchor:
		if ok {
			iri := respStr(c.response(), "iri")
			if _, has := c.iriID[iri]; !has {
				c.report("C16", "anchored-iri-without-id", "Anchor returned IRI "+iri+" which has no DataID row", nil)
			}
			if m.ContentHash != nil {
				if want, err := m.ContentHash.ToIRI(); err == nil {
					c.requireAnchored("Anchor", want)
				}
			}
		}
	case *data.MsgAttest:
		// a successful Attest leaves EVERY content hash of the message anchored and attested by the signer
		if ok {
			c.hit("C16")
			signer := c.key(m.Attestor)
			for _, ch := range m.ContentHashes {
				iri, err := ch.ToIRI()
				if err != nil {
					continue
				}
				id, has := c.requireAnchored("Attest", iri)
				if !has {
					continue
				}
				if c.post.DataAttest[id+"/"+signer] == nil {
					c.report("C16", "attest-succeeded-without-record", fmt.Sprintf("Attest by %s succeeded but %s has no attestation by the signer", signer, iri), nil)
				}
			}
			if len(m.ContentHashes) > 1 {
				c.Counters["c16_attest_multi_hash"]++
			}
		}
	}
	if m, isReg := msg.(*data.MsgRegisterResolver); isReg && ok {
		// a successful RegisterResolver leaves EVERY content hash of the message anchored and registered
		for _, ch := range m.ContentHashes {
			iri, err := ch.ToIRI()
			if err != nil {
				continue
			}
			id, has := c.requireAnchored("RegisterResolver", iri)
			if !has {
				continue
			}
			if !c.post.DataResolver[id+"/"+strconv.FormatUint(m.ResolverId, 10)] {
				c.report("C16", "register-succeeded-without-record", fmt.Sprintf("RegisterResolver succeeded but %s is not registered to resolver %d", iri, m.ResolverId), nil)
			}
		}
	}
}

// requireAnchored reports when, after a successful data message, the IRI has no id row or no anchor row.
func (c *Checker) requireAnchored(what, iri string) (string, bool) {
	id := ""
	for _, k := range sortedStr(c.post.DataIDs) {
		if c.post.DataIDs[k] == iri {
			id = k
			break
		}
	}
	if id == "" {
		c.report("C16", "succeeded-without-id", what+" succeeded but "+iri+" has no DataID row", nil)
		return "", false
	}
	if c.post.DataAnchors[id] == nil {
		c.report("C16", "succeeded-without-anchor", what+" succeeded but "+iri+" has no anchor row", nil)
		return id, false
	}
	return id, true
}

// ---------------------------------------------------------------------------------------------
// expectations recorded by scripted (corpus) histories in the item note:
// "expect|ok|<property>|<key>|<text>" or "expect|fail|<property>|<key>|<text>"

func (c *Checker) checkExpectation(ok bool) {
	if !strings.HasPrefix(c.it.Note, "expect|") {
		return
	}
	parts := strings.SplitN(c.it.Note, "|", 5)
	if len(parts) < 4 {
		return
	}
	wantOK := parts[1] == "ok"
	prop, key := parts[2], parts[3]
	c.hit(prop)
	if ok == wantOK {
		return
	}
	text := ""
	if len(parts) == 5 {
		text = ": " + parts[4]
	}
	if wantOK {
		if c.it.Result.Panicked {
			key += ":panic"
		}
		c.report(prop, key, "a message that must succeed was rejected"+text, nil)
	} else {
		c.report(prop, key, "a message that must be rejected succeeded"+text, c.it.Diff)
	}
}

// ---------------------------------------------------------------------------------------------
// C18: fees are charged exactly; accepted parameters never disable a feature

func (c *Checker) checkFee(what string, fee *CoinV, signer string, ok bool) {
	c.hit("C18")
	if !ok {
		return
	}
	if fee == nil {
		c.Counters["c18_creation_without_fee"]++
		if c.it.Diff != nil && (len(c.it.Diff.Balances) > 0 || len(c.it.Diff.Supply) > 0) {
			c.report("C18", "charged-without-fee", what+" changed bank balances although no fee is set", c.it.Diff.Balances)
		}
		return
	}
	if fee.Amount == nil {
		return
	}
	debit := new(big.Int).Sub(c.pre.BankOf(signer, fee.Denom), c.post.BankOf(signer, fee.Denom))
	burned := new(big.Int).Sub(c.pre.SupplyOf(fee.Denom), c.post.SupplyOf(fee.Denom))
	if debit.Cmp(fee.Amount) != 0 {
		c.report("C18", "fee-debit!=fee", fmt.Sprintf("%s with fee %s%s debited the creator %s", what, fee.Raw, fee.Denom, debit), nil)
	}
	if burned.Cmp(fee.Amount) != 0 {
		c.report("C18", "fee-not-burned", fmt.Sprintf("%s with fee %s%s reduced the supply by %s", what, fee.Raw, fee.Denom, burned), nil)
	}
	if c.it.Diff != nil {
		for _, bc := range c.it.Diff.Balances {
			if bc.Denom != fee.Denom || bc.Account.String() != signer {
				c.report("C18", "fee-other-balance-changed", what+" changed an unrelated balance", bc)
			}
		}
	}
}

func (c *Checker) checkC18(msg sdk.Msg, ok bool) {
	switch m := msg.(type) {
	case *base.MsgCreateClass:
		c.checkFee("CreateClass", c.pre.ClassFee, c.key(m.Admin), ok)
		if !ok && c.pre.ClassFee != nil && c.pre.ClassFee.Amount != nil && m.Fee != nil &&
			(m.Fee.Denom != c.pre.ClassFee.Denom || m.Fee.Amount.BigInt().Cmp(c.pre.ClassFee.Amount) < 0) {
			c.Counters["c18_below_fee_rejected"]++
		}
	case *basket.MsgCreate:
		c.checkFee("basket Create", c.pre.BasketFee, c.key(m.Curator), ok)
	}
	// expectations recorded by the params family: "expect-ok|<key>|<description>"
	if strings.HasPrefix(c.it.Note, "expect-ok|") {
		c.hit("C18")
		parts := strings.SplitN(c.it.Note, "|", 3)
		if !ok && len(parts) >= 2 {
			key := parts[1]
			desc := "a user operation whose own preconditions hold failed under an accepted parameter value"
			if len(parts) == 3 {
				desc += ": " + parts[2]
			}
			if c.it.Result.Panicked {
				key += ":panic"
				desc += " (panic: " + clip(c.it.Result.PanicValue, 200) + ")"
			}
			params := map[string]interface{}{
				"ClassFee": c.pre.S.Tables["ClassFee"], "BasketFee": c.pre.S.Tables["BasketFee"], "FeeParams": c.pre.S.Tables["FeeParams"],
				"AllowedDenom": c.pre.S.Tables["AllowedDenom"], "ClassCreatorAllowlist": c.pre.S.Tables["ClassCreatorAllowlist"],
			}
			c.report("C18", key, desc, params)
		}
	}
}
