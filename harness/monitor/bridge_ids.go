package monitor

import (
	"fmt"
	"math/big"
	"regexp"
	"strings"

	sdk "github.com/cosmos/cosmos-sdk/types"

	base "github.com/regen-network/regen-ledger/x/ecocredit/v3/base/types/v1"
	basket "github.com/regen-network/regen-ledger/x/ecocredit/v3/basket/types/v1"
)

// ---------------------------------------------------------------------------------------------
// C13: bridge safety

func (c *Checker) acceptOrigin(classID string, o *base.OriginTx, via string) {
	if o == nil {
		return
	}
	where := fmt.Sprintf("item %d (%s)", c.it.Seq, via)
	k := classID + "|" + o.Id + "|" + o.Source
	if first, dup := c.origins[k]; dup {
		c.report("C13", "origin-tx-twice", fmt.Sprintf("origin tx (%s, %s) in class %s issued credits at %s and again at %s", o.Id, o.Source, classID, first, where), nil)
	} else {
		c.origins[k] = where
	}
	kci := classID + "|" + o.Id + "|" + strings.ToLower(o.Source)
	if first, dup := c.originsCI[kci]; dup {
		if _, exact := c.origins[k]; !exact || c.origins[k] == where {
			c.Counters["c13_case_variant_replay_accepted"]++
			c.report("C13", "origin-tx-twice-case-variant",
				fmt.Sprintf("origin tx id %s of chain %q in class %s issued credits at %s and again at %s under a letter-case variant of the same chain name", o.Id, strings.ToLower(o.Source), classID, first, where), nil)
		}
	} else {
		c.originsCI[kci] = where
	}
}

func (c *Checker) checkC13(msg sdk.Msg, ok bool) {
	v := c.pre
	switch m := msg.(type) {
	case *base.MsgCreateBatch:
		if m.OriginTx == nil {
			return
		}
		c.hit("C13")
		if !ok {
			return
		}
		p := v.ProjectByID[m.ProjectId]
		if p == nil {
			return
		}
		cl := v.Classes[p.ClassKey]
		if cl == nil {
			return
		}
		c.acceptOrigin(cl.ID, m.OriginTx, "CreateBatch")
		if m.OriginTx.Contract != "" {
			denom := respStr(c.response(), "batch_denom")
			k := cl.ID + "|" + m.OriginTx.Contract
			if prev, bound := c.contracts[k]; bound {
				c.report("C13", "contract-bound-twice", fmt.Sprintf("contract %s of class %s is bound to %s and now also to %s", m.OriginTx.Contract, cl.ID, prev, denom), nil)
			}
			c.contracts[k] = denom
		}
	case *base.MsgMintBatchCredits:
		c.hit("C13")
		if !ok {
			return
		}
		b := v.BatchByDen[m.BatchDenom]
		if cl := v.ClassOfBatch(b); cl != nil {
			c.acceptOrigin(cl.ID, m.OriginTx, "MintBatchCredits")
		}
	case *base.MsgBridgeReceive:
		c.hit("C13")
		if !ok || m.OriginTx == nil {
			return
		}
		if !v.Chains[strings.ToLower(m.OriginTx.Source)] {
			c.report("C13", "bridge-receive-from-disallowed-chain", fmt.Sprintf("BridgeReceive accepted source %q which is not an allowed bridge chain", m.OriginTx.Source), v.S.Tables["AllowedBridgeChain"])
		}
		if m.OriginTx.Source != strings.ToLower(m.OriginTx.Source) {
			c.Counters["c13_receive_with_mixed_case_source"]++
		}
		c.acceptOrigin(m.ClassId, m.OriginTx, "BridgeReceive")
		denom := respStr(c.response(), "batch_denom")
		k := m.ClassId + "|" + m.OriginTx.Contract
		if prev, bound := c.contracts[k]; bound {
			c.Counters["c13_receive_into_bound_batch"]++
			if prev != denom {
				c.report("C13", "contract-second-batch", fmt.Sprintf("contract %s of class %s is bound to batch %s but the receipt went to %s", m.OriginTx.Contract, m.ClassId, prev, denom), nil)
			}
			if c.post.BatchByDen[denom] != nil && v.BatchByDen[denom] == nil {
				c.report("C13", "contract-second-batch", "a new batch was created for an already bound contract", nil)
			}
		} else {
			c.contracts[k] = denom
			if v.BatchByDen[denom] != nil {
				c.report("C13", "receipt-into-unbound-batch", fmt.Sprintf("first receipt for contract %s minted into the existing batch %s", m.OriginTx.Contract, denom), nil)
			}
		}
		// the bound contract must be recorded in state
		if b := c.post.BatchByDen[denom]; b != nil {
			if ct := c.post.Contracts[b.Key]; ct == nil || ct.Contract != m.OriginTx.Contract {
				c.report("C13", "contract-not-recorded", fmt.Sprintf("batch %s has no BatchContract row for %s", denom, m.OriginTx.Contract), nil)
			}
		}
	case *base.MsgBridge:
		c.hit("C13")
		if !ok {
			return
		}
		if !v.Chains[strings.ToLower(m.Target)] {
			c.report("C13", "bridge-to-disallowed-chain", fmt.Sprintf("Bridge accepted target %q which is not an allowed bridge chain", m.Target), v.S.Tables["AllowedBridgeChain"])
		}
		owner := c.key(m.Owner)
		tot := map[uint64]*big.Rat{}
		for _, cr := range m.Credits {
			b := v.BatchByDen[cr.BatchDenom]
			if b == nil {
				c.report("C13", "bridge-unknown-batch", "Bridge succeeded for a batch that does not exist: "+cr.BatchDenom, nil)
				continue
			}
			if v.Contracts[b.Key] == nil {
				c.report("C13", "bridge-without-contract", "Bridge succeeded for batch "+cr.BatchDenom+" which has no bound contract", b.Row)
			}
			a, aok := MsgAmount(cr.Amount)
			if !aok {
				c.report("C13", "bridge-unparseable-amount", fmt.Sprintf("Bridge accepted amount %q", cr.Amount), nil)
				continue
			}
			if tot[b.Key] == nil {
				tot[b.Key] = zero()
			}
			tot[b.Key].Add(tot[b.Key], a)
		}
		for _, k := range sortedU64(tot) {
			a := tot[k]
			p, q := v.Bal(owner, k), c.post.Bal(owner, k)
			ps, qs := v.Supplies[k], c.post.Supplies[k]
			if ps == nil || qs == nil {
				continue
			}
			if sub(p.T.val(), q.T.val()).Cmp(a) != 0 || sub(ps.T.val(), qs.T.val()).Cmp(a) != 0 || sub(qs.C.val(), ps.C.val()).Cmp(a) != 0 {
				c.report("C13", "bridge-cancelled-wrong-amount", fmt.Sprintf("Bridge of %s from batch %d: owner tradable %s -> %s, supply tradable %s -> %s, cancelled %s -> %s",
					ratStr(a), k, p.T.Raw, q.T.Raw, ps.T.Raw, qs.T.Raw, ps.C.Raw, qs.C.Raw), nil)
			}
		}
		evs := c.events("regen.ecocredit.v1.EventBridge")
		if len(evs) != len(m.Credits) {
			c.report("C13", "bridge-event-count", fmt.Sprintf("%d EventBridge for %d credits entries", len(evs), len(m.Credits)), nil)
		}
		for i, e := range evs {
			if i >= len(m.Credits) {
				break
			}
			b := v.BatchByDen[m.Credits[i].BatchDenom]
			if b == nil || v.Contracts[b.Key] == nil {
				continue
			}
			ct, _ := e.Attr("contract")
			bd, _ := e.Attr("batch_denom")
			if unquote(ct) != v.Contracts[b.Key].Contract || unquote(bd) != b.Denom {
				c.report("C13", "bridge-event-contract", fmt.Sprintf("EventBridge carries contract %s / batch %s, the batch %s is bound to %s", ct, bd, b.Denom, v.Contracts[b.Key].Contract), nil)
			}
		}
	}
}

// ---------------------------------------------------------------------------------------------
// C14: identifiers and references

var (
	reClassID   = regexp.MustCompile(`^[A-Z]{1,3}[0-9]{2,}$`)
	reProjectID = regexp.MustCompile(`^[A-Z]{1,3}[0-9]{2,}-[0-9]{3,}$`)
	reBatchDen  = regexp.MustCompile(`^[A-Z]{1,3}[0-9]{2,}-[0-9]{3,}-[0-9]{8}-[0-9]{8}-[0-9]{3,}$`)
)

func (c *Checker) checkC14State() {
	v := c.post
	if len(v.Classes) == 0 && len(v.Baskets) == 0 {
		return
	}
	c.hit("C14")
	for _, d := range v.Dups {
		c.report("C14", "duplicate-id", "two rows share the "+d, nil)
	}
	dangling := func(what string, row interface{}) {
		c.report("C14", "dangling-reference:"+what, "a stored reference does not resolve: "+what, row)
	}
	for _, k := range sortedU64(v.Classes) {
		cl := v.Classes[k]
		if _, ok := v.CreditTypes[cl.Type]; !ok {
			dangling("class->credit-type", cl.Row)
		}
		if !reClassID.MatchString(cl.ID) || !strings.HasPrefix(cl.ID, cl.Type) {
			c.report("C14", "malformed-class-id", "class id "+cl.ID, cl.Row)
		}
	}
	for k := range v.Issuers {
		if v.Classes[k] == nil {
			dangling("issuer->class", k)
		}
	}
	for _, k := range sortedU64(v.Projects) {
		p := v.Projects[k]
		cl := v.Classes[p.ClassKey]
		if cl == nil {
			dangling("project->class", p.Row)
			continue
		}
		if !reProjectID.MatchString(p.ID) || !strings.HasPrefix(p.ID, cl.ID+"-") {
			c.report("C14", "malformed-project-id", "project id "+p.ID+" of class "+cl.ID, p.Row)
		}
	}
	for _, k := range sortedU64(v.Batches) {
		b := v.Batches[k]
		p := v.Projects[b.ProjectKey]
		if p == nil {
			dangling("batch->project", b.Row)
			continue
		}
		if !reBatchDen.MatchString(b.Denom) || !strings.HasPrefix(b.Denom, p.ID+"-") {
			c.report("C14", "malformed-batch-denom", "batch denom "+b.Denom+" of project "+p.ID, b.Row)
		}
	}
	for k, b := range v.Balances {
		if v.Batches[k.Batch] == nil {
			dangling("balance->batch", b.Row)
		}
	}
	for k, s := range v.Supplies {
		if v.Batches[k] == nil {
			dangling("supply->batch", s.Row)
		}
	}
	for k, ct := range v.Contracts {
		if v.Batches[k] == nil || v.Classes[ct.Class] == nil {
			dangling("contract->batch/class", ct)
		}
	}
	for o := range v.Origins {
		if v.Classes[o.Class] == nil {
			dangling("origin-tx->class", o)
		}
	}
	for _, o := range v.Orders {
		if v.Batches[o.Batch] == nil {
			dangling("sell-order->batch", o.Row)
		}
		if v.Markets[o.Market] == nil {
			dangling("sell-order->market", o.Row)
		}
	}
	for _, bb := range v.BasketBals {
		if v.BatchByDen[bb.Denom] == nil {
			dangling("basket-balance->batch", bb.Row)
		}
		if v.Baskets[bb.Basket] == nil {
			dangling("basket-balance->basket", bb.Row)
		}
	}
	for id, m := range v.BasketClasses {
		if v.Baskets[id] == nil {
			dangling("basket-class->basket", id)
		}
		for cid := range m {
			if v.ClassByID[cid] == nil {
				dangling("basket-class->class", cid)
			}
		}
	}
	for k := range v.ProjectSeq {
		if v.Classes[k] == nil {
			dangling("project-sequence->class", k)
		}
	}
	for k := range v.BatchSeq {
		if v.Projects[k] == nil {
			dangling("batch-sequence->project", k)
		}
	}
	for _, b := range v.Baskets {
		if _, ok := v.CreditTypes[b.Type]; !ok {
			dangling("basket->credit-type", b.Row)
		}
	}
}

func (c *Checker) expectID(kind, got, want string) {
	if got != want {
		c.report("C14", "non-consecutive-"+kind, fmt.Sprintf("created %s %q, consecutive numbering expects %q", kind, got, want), nil)
	}
}

func (c *Checker) checkC14Msg(msg sdk.Msg, ok bool) {
	v := c.pre
	switch m := msg.(type) {
	case *base.MsgAddCreditType:
		if ok && m.CreditType != nil {
			if _, seen := c.nextClass[m.CreditType.Abbreviation]; !seen {
				c.nextClass[m.CreditType.Abbreviation] = 1
			}
		}
	case *base.MsgCreateClass:
		c.hit("C14")
		if !ok {
			c.Counters["c14_failed_creations"]++
			return
		}
		id := respStr(c.response(), "class_id")
		n := c.nextClass[m.CreditTypeAbbrev]
		if n == 0 {
			n = 1
		}
		c.expectID("class-id", id, fmt.Sprintf("%s%02d", m.CreditTypeAbbrev, n))
		c.nextClass[m.CreditTypeAbbrev] = n + 1
		c.nextProject[id] = 1
		if n >= 100 {
			c.Counters["c14_class_seq_beyond_padding"]++
		}
	case *base.MsgCreateProject:
		c.hit("C14")
		if !ok {
			c.Counters["c14_failed_creations"]++
			return
		}
		c.newProject(m.ClassId, respStr(c.response(), "project_id"))
	case *base.MsgCreateBatch:
		c.hit("C14")
		if !ok {
			c.Counters["c14_failed_creations"]++
			return
		}
		c.newBatch(m.ProjectId, respStr(c.response(), "batch_denom"), m.StartDate.UTC().Format("20060102"), m.EndDate.UTC().Format("20060102"))
	case *base.MsgBridgeReceive:
		if !ok {
			return
		}
		c.hit("C14")
		r := c.response()
		pid, denom := respStr(r, "project_id"), respStr(r, "batch_denom")
		if v.ProjectByID[pid] == nil {
			c.newProject(m.ClassId, pid)
		}
		if v.BatchByDen[denom] == nil && m.Batch != nil {
			c.newBatch(pid, denom, m.Batch.StartDate.UTC().Format("20060102"), m.Batch.EndDate.UTC().Format("20060102"))
		}
	case *basket.MsgCreate:
		if ok {
			c.hit("C14")
			want := "eco.u" + m.CreditTypeAbbrev + "." + m.Name
			if got := respStr(c.response(), "basket_denom"); got != want {
				c.report("C14", "basket-denom-format", fmt.Sprintf("basket denom %q, expected %q", got, want), nil)
			}
		}
	}
}

func (c *Checker) newProject(classID, got string) {
	n := c.nextProject[classID]
	if n == 0 {
		n = 1
	}
	c.expectID("project-id", got, fmt.Sprintf("%s-%03d", classID, n))
	c.nextProject[classID] = n + 1
	c.nextBatch[got] = 1
	if n >= 1000 {
		c.Counters["c14_project_seq_beyond_padding"]++
	}
}

func (c *Checker) newBatch(projectID, got, start, end string) {
	n := c.nextBatch[projectID]
	if n == 0 {
		n = 1
	}
	c.expectID("batch-denom", got, fmt.Sprintf("%s-%s-%s-%03d", projectID, start, end, n))
	c.nextBatch[projectID] = n + 1
	if n >= 1000 {
		c.Counters["c14_batch_seq_beyond_padding"]++
	}
}
