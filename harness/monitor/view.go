package monitor

import (
	"math/big"
	"sort"
	"strconv"
	"time"

	"verif/harness/chain"
)

// View is a typed, indexed reading of one chain.State. Amount strings are kept verbatim next to
// their exact rational value (nil when a string does not parse with the lenient parser).

type Class struct {
	Key      uint64
	ID       string
	Admin    string
	Type     string
	Metadata string
	Row      chain.Row
}

type Project struct {
	Key      uint64
	ID       string
	Admin    string
	ClassKey uint64
	RefID    string
	Row      chain.Row
}

type Batch struct {
	Key        uint64
	Denom      string
	Issuer     string
	ProjectKey uint64
	Start, End *TS
	Open       bool
	Metadata   string
	Row        chain.Row
}

type Amt struct {
	Raw string
	V   *big.Rat // nil if not parseable (lenient)
}

func mkAmt(s string) Amt {
	a := Amt{Raw: s}
	if s == "" {
		a.V = zero()
		return a
	}
	if r, _, ok := ParseLenient(s); ok {
		a.V = r
	}
	return a
}

// val returns the value, reading unparseable strings as zero (they are reported by C01 anyway).
func (a Amt) val() *big.Rat {
	if a.V == nil {
		return zero()
	}
	return a.V
}

type BalKey struct {
	Acct  string
	Batch uint64
}

type Balance struct {
	Key     BalKey
	T, R, E Amt
	Row     chain.Row
}

type Supply struct {
	Batch   uint64
	T, R, C Amt
	Row     chain.Row
}

type Basket struct {
	ID                uint64
	Denom, Name, Type string
	Curator           string
	DisableAutoRetire bool
	Exponent          uint64
	MinStart          *TS
	Window            *TS
	Years             uint64
	Row               chain.Row
}

type BasketBal struct {
	Basket uint64
	Denom  string
	Bal    Amt
	Start  *TS
	Row    chain.Row
}

type Order struct {
	ID                uint64
	Seller            string
	Batch             uint64
	Qty               Amt
	QtyPlaces         int
	AskRaw            string
	Ask               *big.Int // nil if not a decimal integer
	Market            uint64
	DisableAutoRetire bool
	Exp               *TS
	Row               chain.Row
}

type Market struct {
	ID    uint64
	Type  string
	Denom string
}

type Contract struct {
	Batch, Class uint64
	Contract     string
}

type OriginKey struct {
	Class      uint64
	ID, Source string
}

type Resolver struct {
	ID      uint64
	Manager string
	URL     string
}

type View struct {
	S    *chain.State
	Time TS

	Classes     map[uint64]*Class
	ClassByID   map[string]*Class
	Issuers     map[uint64]map[string]bool
	Projects    map[uint64]*Project
	ProjectByID map[string]*Project
	Batches     map[uint64]*Batch
	BatchByDen  map[string]*Batch
	Balances    map[BalKey]*Balance
	Supplies    map[uint64]*Supply
	Contracts   map[uint64]*Contract
	Origins     map[OriginKey]bool
	CreditTypes map[string]uint64 // abbreviation → precision
	Chains      map[string]bool
	Creators    map[string]bool
	AllowlistOn bool
	ClassFee    *CoinV
	BasketFee   *CoinV
	ClassSeq    map[string]uint64
	ProjectSeq  map[uint64]uint64
	BatchSeq    map[uint64]uint64

	Baskets       map[uint64]*Basket
	BasketByDenom map[string]*Basket
	BasketBals    []*BasketBal
	BasketClasses map[uint64]map[string]bool

	Orders        map[uint64]*Order
	Markets       map[uint64]*Market
	AllowedDenoms map[string]bool
	BuyerFee      string
	SellerFee     string

	Bank   map[string]map[string]*big.Int
	BankSu map[string]*big.Int

	DataIDs      map[string]string // id hex → iri
	DataAnchors  map[string]*TS    // id hex → timestamp
	DataAttest   map[string]*TS    // id hex + "/" + attestor → timestamp
	DataResolver map[string]bool   // id hex + "/" + resolver id
	Resolvers    map[uint64]*Resolver

	// Dups lists primary-key independent uniqueness problems found while indexing
	// (two rows with the same class id, project id, batch denom, basket denom or basket name).
	Dups []string
}

// Precision returns the precision of a batch's credit type (6 if anything is missing).
func (v *View) Precision(b *Batch) int {
	if b == nil {
		return 6
	}
	p := v.Projects[b.ProjectKey]
	if p == nil {
		return 6
	}
	c := v.Classes[p.ClassKey]
	if c == nil {
		return 6
	}
	if pr, ok := v.CreditTypes[c.Type]; ok {
		return int(pr)
	}
	return 6
}

// ClassOfBatch resolves batch → project → class.
func (v *View) ClassOfBatch(b *Batch) *Class {
	if b == nil {
		return nil
	}
	p := v.Projects[b.ProjectKey]
	if p == nil {
		return nil
	}
	return v.Classes[p.ClassKey]
}

// BankOf returns the bank balance (0 if none).
func (v *View) BankOf(acct, denom string) *big.Int {
	if m := v.Bank[acct]; m != nil {
		if z := m[denom]; z != nil {
			return z
		}
	}
	return new(big.Int)
}

// SupplyOf returns the bank supply of denom (0 if none).
func (v *View) SupplyOf(denom string) *big.Int {
	if z := v.BankSu[denom]; z != nil {
		return z
	}
	return new(big.Int)
}

// Bal returns the credit balance row of (acct,batch) or a zero row.
func (v *View) Bal(acct string, batch uint64) *Balance {
	if b := v.Balances[BalKey{acct, batch}]; b != nil {
		return b
	}
	return &Balance{Key: BalKey{acct, batch}, T: mkAmt("0"), R: mkAmt("0"), E: mkAmt("0")}
}

// SortedBalKeys returns the balance keys in a stable order.
func (v *View) SortedBalKeys() []BalKey {
	ks := make([]BalKey, 0, len(v.Balances))
	for k := range v.Balances {
		ks = append(ks, k)
	}
	sort.Slice(ks, func(i, j int) bool {
		if ks[i].Batch != ks[j].Batch {
			return ks[i].Batch < ks[j].Batch
		}
		return ks[i].Acct < ks[j].Acct
	})
	return ks
}

func sortedU64[V any](m map[uint64]V) []uint64 {
	ks := make([]uint64, 0, len(m))
	for k := range m {
		ks = append(ks, k)
	}
	sort.Slice(ks, func(i, j int) bool { return ks[i] < ks[j] })
	return ks
}

func sortedStr[V any](m map[string]V) []string {
	ks := make([]string, 0, len(m))
	for k := range m {
		ks = append(ks, k)
	}
	sort.Strings(ks)
	return ks
}

// BlockTime returns the block time of the state as time.Time (UTC).
func (v *View) BlockTime() time.Time { return time.Unix(v.Time.S, v.Time.N).UTC() }

// NewView indexes a state.
func NewView(s *chain.State) *View {
	v := &View{S: s, Time: TS{S: s.TimeS, N: int64(s.TimeN)},
		Classes: map[uint64]*Class{}, ClassByID: map[string]*Class{}, Issuers: map[uint64]map[string]bool{},
		Projects: map[uint64]*Project{}, ProjectByID: map[string]*Project{},
		Batches: map[uint64]*Batch{}, BatchByDen: map[string]*Batch{},
		Balances: map[BalKey]*Balance{}, Supplies: map[uint64]*Supply{}, Contracts: map[uint64]*Contract{},
		Origins: map[OriginKey]bool{}, CreditTypes: map[string]uint64{}, Chains: map[string]bool{}, Creators: map[string]bool{},
		ClassSeq: map[string]uint64{}, ProjectSeq: map[uint64]uint64{}, BatchSeq: map[uint64]uint64{},
		Baskets: map[uint64]*Basket{}, BasketByDenom: map[string]*Basket{}, BasketClasses: map[uint64]map[string]bool{},
		Orders: map[uint64]*Order{}, Markets: map[uint64]*Market{}, AllowedDenoms: map[string]bool{},
		Bank: map[string]map[string]*big.Int{}, BankSu: map[string]*big.Int{},
		DataIDs: map[string]string{}, DataAnchors: map[string]*TS{}, DataAttest: map[string]*TS{}, DataResolver: map[string]bool{},
		Resolvers: map[uint64]*Resolver{},
	}
	t := s.Tables
	for _, r := range t["CreditType"] {
		v.CreditTypes[fStr(r, "abbreviation")] = fU64(r, "precision")
	}
	for _, r := range t["Class"] {
		c := &Class{Key: fU64(r, "key"), ID: fStr(r, "id"), Admin: fAcct(r, "admin"), Type: fStr(r, "credit_type_abbrev"), Metadata: fStr(r, "metadata"), Row: r}
		v.Classes[c.Key] = c
		if _, dup := v.ClassByID[c.ID]; dup {
			v.Dups = append(v.Dups, "class id "+c.ID)
		}
		v.ClassByID[c.ID] = c
	}
	for _, r := range t["ClassIssuer"] {
		k := fU64(r, "class_key")
		if v.Issuers[k] == nil {
			v.Issuers[k] = map[string]bool{}
		}
		v.Issuers[k][fAcct(r, "issuer")] = true
	}
	for _, r := range t["Project"] {
		p := &Project{Key: fU64(r, "key"), ID: fStr(r, "id"), Admin: fAcct(r, "admin"), ClassKey: fU64(r, "class_key"), RefID: fStr(r, "reference_id"), Row: r}
		v.Projects[p.Key] = p
		if _, dup := v.ProjectByID[p.ID]; dup {
			v.Dups = append(v.Dups, "project id "+p.ID)
		}
		v.ProjectByID[p.ID] = p
	}
	for _, r := range t["Batch"] {
		b := &Batch{Key: fU64(r, "key"), Denom: fStr(r, "denom"), Issuer: fAcct(r, "issuer"), ProjectKey: fU64(r, "project_key"),
			Start: fTS(r, "start_date"), End: fTS(r, "end_date"), Open: fBool(r, "open"), Metadata: fStr(r, "metadata"), Row: r}
		v.Batches[b.Key] = b
		if _, dup := v.BatchByDen[b.Denom]; dup {
			v.Dups = append(v.Dups, "batch denom "+b.Denom)
		}
		v.BatchByDen[b.Denom] = b
	}
	for _, r := range t["BatchBalance"] {
		b := &Balance{Key: BalKey{fAcct(r, "address"), fU64(r, "batch_key")},
			T: mkAmt(fStr(r, "tradable_amount")), R: mkAmt(fStr(r, "retired_amount")), E: mkAmt(fStr(r, "escrowed_amount")), Row: r}
		v.Balances[b.Key] = b
	}
	for _, r := range t["BatchSupply"] {
		s := &Supply{Batch: fU64(r, "batch_key"), T: mkAmt(fStr(r, "tradable_amount")), R: mkAmt(fStr(r, "retired_amount")), C: mkAmt(fStr(r, "cancelled_amount")), Row: r}
		v.Supplies[s.Batch] = s
	}
	for _, r := range t["BatchContract"] {
		c := &Contract{Batch: fU64(r, "batch_key"), Class: fU64(r, "class_key"), Contract: fStr(r, "contract")}
		v.Contracts[c.Batch] = c
	}
	for _, r := range t["OriginTxIndex"] {
		v.Origins[OriginKey{fU64(r, "class_key"), fStr(r, "id"), fStr(r, "source")}] = true
	}
	for _, r := range t["AllowedBridgeChain"] {
		v.Chains[fStr(r, "chain_name")] = true
	}
	for _, r := range t["AllowedClassCreator"] {
		v.Creators[fAcct(r, "address")] = true
	}
	for _, r := range t["ClassCreatorAllowlist"] {
		v.AllowlistOn = fBool(r, "enabled")
	}
	for _, r := range t["ClassFee"] {
		v.ClassFee = fCoin(r, "fee")
	}
	for _, r := range t["BasketFee"] {
		v.BasketFee = fCoin(r, "fee")
	}
	for _, r := range t["ClassSequence"] {
		v.ClassSeq[fStr(r, "credit_type_abbrev")] = fU64(r, "next_sequence")
	}
	for _, r := range t["ProjectSequence"] {
		v.ProjectSeq[fU64(r, "class_key")] = fU64(r, "next_sequence")
	}
	for _, r := range t["BatchSequence"] {
		v.BatchSeq[fU64(r, "project_key")] = fU64(r, "next_sequence")
	}
	for _, r := range t["Basket"] {
		b := &Basket{ID: fU64(r, "id"), Denom: fStr(r, "basket_denom"), Name: fStr(r, "name"), Type: fStr(r, "credit_type_abbrev"),
			Curator: fAcct(r, "curator"), DisableAutoRetire: fBool(r, "disable_auto_retire"), Exponent: fU64(r, "exponent"), Row: r}
		if dc, ok := r["date_criteria"].(map[string]interface{}); ok {
			b.MinStart = tsOf(dc["min_start_date"])
			b.Window = tsOf(dc["start_date_window"])
			b.Years = anyU64(dc["years_in_the_past"])
		}
		v.Baskets[b.ID] = b
		if _, dup := v.BasketByDenom[b.Denom]; dup {
			v.Dups = append(v.Dups, "basket denom "+b.Denom)
		}
		v.BasketByDenom[b.Denom] = b
	}
	names := map[string]bool{}
	for _, b := range v.Baskets {
		if names[b.Name] {
			v.Dups = append(v.Dups, "basket name "+b.Name)
		}
		names[b.Name] = true
	}
	sort.Strings(v.Dups)
	for _, r := range t["BasketBalance"] {
		v.BasketBals = append(v.BasketBals, &BasketBal{Basket: fU64(r, "basket_id"), Denom: fStr(r, "batch_denom"), Bal: mkAmt(fStr(r, "balance")), Start: fTS(r, "batch_start_date"), Row: r})
	}
	for _, r := range t["BasketClass"] {
		k := fU64(r, "basket_id")
		if v.BasketClasses[k] == nil {
			v.BasketClasses[k] = map[string]bool{}
		}
		v.BasketClasses[k][fStr(r, "class_id")] = true
	}
	for _, r := range t["SellOrder"] {
		o := &Order{ID: fU64(r, "id"), Seller: fAcct(r, "seller"), Batch: fU64(r, "batch_key"), AskRaw: fStr(r, "ask_amount"),
			Market: fU64(r, "market_id"), DisableAutoRetire: fBool(r, "disable_auto_retire"), Exp: fTS(r, "expiration"), Row: r}
		o.Qty = Amt{Raw: fStr(r, "quantity")}
		if q, places, ok := ParseLenient(o.Qty.Raw); ok {
			o.Qty.V = q
			o.QtyPlaces = places
		}
		if allDigits(o.AskRaw) {
			o.Ask, _ = new(big.Int).SetString(o.AskRaw, 10)
		}
		v.Orders[o.ID] = o
	}
	for _, r := range t["Market"] {
		m := &Market{ID: fU64(r, "id"), Type: fStr(r, "credit_type_abbrev"), Denom: fStr(r, "bank_denom")}
		v.Markets[m.ID] = m
	}
	for _, r := range t["AllowedDenom"] {
		v.AllowedDenoms[fStr(r, "bank_denom")] = true
	}
	for _, r := range t["FeeParams"] {
		v.BuyerFee = fStr(r, "buyer_percentage_fee")
		v.SellerFee = fStr(r, "seller_percentage_fee")
	}
	for _, b := range s.Balances {
		m := map[string]*big.Int{}
		for d, a := range b.Coins {
			z, _ := new(big.Int).SetString(a, 10)
			if z == nil {
				z = new(big.Int)
			}
			m[d] = z
		}
		k := ""
		if b.Account.Addr != nil {
			k = "#" + strconv.Itoa(*b.Account.Addr)
		} else {
			k = "0x" + b.Account.Hex
		}
		v.Bank[k] = m
	}
	for d, a := range s.Supply {
		z, _ := new(big.Int).SetString(a, 10)
		if z == nil {
			z = new(big.Int)
		}
		v.BankSu[d] = z
	}
	for _, r := range t["DataID"] {
		v.DataIDs[fHex(r, "id")] = fStr(r, "iri")
	}
	for _, r := range t["DataAnchor"] {
		v.DataAnchors[fHex(r, "id")] = fTS(r, "timestamp")
	}
	for _, r := range t["DataAttestor"] {
		v.DataAttest[fHex(r, "id")+"/"+fAcct(r, "attestor")] = fTS(r, "timestamp")
	}
	for _, r := range t["DataResolver"] {
		v.DataResolver[fHex(r, "id")+"/"+strconv.FormatUint(fU64(r, "resolver_id"), 10)] = true
	}
	for _, r := range t["Resolver"] {
		v.Resolvers[fU64(r, "id")] = &Resolver{ID: fU64(r, "id"), Manager: fAcct(r, "manager"), URL: fStr(r, "url")}
	}
	return v
}
