// Package monitor holds the independent property monitors of the stateful properties
// (C01..C14, C16, C18 and the per-step half of C10). A monitor never looks at a model: it works on
// complete observations of the chain state (chain.State), on the messages and on their results, with
// math/big rationals and brute-force scans.
package monitor

import (
	"encoding/json"
	"math/big"
	"strconv"
	"strings"

	"verif/harness/chain"
)

// ---------------------------------------------------------------------------------------------
// decimal parsing (own parsers, independent of /repo/types/math)

var ten = big.NewInt(10)

func pow10(n int) *big.Int { return new(big.Int).Exp(ten, big.NewInt(int64(n)), nil) }

func allDigits(s string) bool {
	if s == "" {
		return false
	}
	for i := 0; i < len(s); i++ {
		if s[i] < '0' || s[i] > '9' {
			return false
		}
	}
	return true
}

// ParseStrict parses `-?digits(.digits)?` exactly. It returns the value, the number of fractional
// digits written, and ok.
func ParseStrict(s string) (*big.Rat, int, bool) {
	neg := false
	t := s
	if strings.HasPrefix(t, "-") {
		neg = true
		t = t[1:]
	}
	ip, fp := t, ""
	if i := strings.IndexByte(t, '.'); i >= 0 {
		ip, fp = t[:i], t[i+1:]
		if !allDigits(fp) {
			return nil, 0, false
		}
	}
	if !allDigits(ip) {
		return nil, 0, false
	}
	n, _ := new(big.Int).SetString(ip+fp, 10)
	r := new(big.Rat).SetFrac(n, pow10(len(fp)))
	if neg {
		r.Neg(r)
	}
	return r, len(fp), true
}

// ParseLenient parses the decimal syntax a general-purpose decimal library accepts:
// [+-]? (digits [. digits*] | . digits) ([eE] [+-]? digits)?
// It returns the exact value and the number of decimal places of the (coefficient, exponent)
// representation (max(0, fraction digits - exponent)), which is how arbitrary-precision decimal
// libraries define "decimal places". Exponents beyond +-1000000 are refused.
func ParseLenient(s string) (*big.Rat, int, bool) {
	t := s
	neg := false
	if strings.HasPrefix(t, "+") {
		t = t[1:]
	} else if strings.HasPrefix(t, "-") {
		neg = true
		t = t[1:]
	}
	exp := 0
	if i := strings.IndexAny(t, "eE"); i >= 0 {
		es := t[i+1:]
		t = t[:i]
		esign := 1
		if strings.HasPrefix(es, "+") {
			es = es[1:]
		} else if strings.HasPrefix(es, "-") {
			esign = -1
			es = es[1:]
		}
		if !allDigits(es) || len(es) > 7 {
			return nil, 0, false
		}
		v, _ := strconv.Atoi(es)
		if v > 1000000 {
			return nil, 0, false
		}
		exp = esign * v
	}
	ip, fp := t, ""
	if i := strings.IndexByte(t, '.'); i >= 0 {
		ip, fp = t[:i], t[i+1:]
	}
	if ip == "" && fp == "" {
		return nil, 0, false
	}
	if (ip != "" && !allDigits(ip)) || (fp != "" && !allDigits(fp)) {
		return nil, 0, false
	}
	n, _ := new(big.Int).SetString("0"+ip+fp, 10)
	r := new(big.Rat).SetInt(n)
	e := exp - len(fp)
	if e >= 0 {
		r.Mul(r, new(big.Rat).SetInt(pow10(e)))
	} else {
		r.Quo(r, new(big.Rat).SetInt(pow10(-e)))
	}
	if neg {
		r.Neg(r)
	}
	places := 0
	if e < 0 {
		places = -e
	}
	return r, places, true
}

// MsgAmount parses an amount string of a message ("" reads as zero, like the implementation does).
func MsgAmount(s string) (*big.Rat, bool) {
	if s == "" {
		return new(big.Rat), true
	}
	r, _, ok := ParseLenient(s)
	return r, ok
}

// ValueDecimals returns the number of decimal places needed to write r exactly (-1 if r has no
// finite decimal expansion).
func ValueDecimals(r *big.Rat) int {
	d := new(big.Int).Set(r.Denom())
	two, five := big.NewInt(2), big.NewInt(5)
	a, b := 0, 0
	for new(big.Int).Mod(d, two).Sign() == 0 {
		d.Quo(d, two)
		a++
	}
	for new(big.Int).Mod(d, five).Sign() == 0 {
		d.Quo(d, five)
		b++
	}
	if d.Cmp(big.NewInt(1)) != 0 {
		return -1
	}
	if a > b {
		return a
	}
	return b
}

// IntDigits returns the number of decimal digits of |floor(r)| for integral r (0 has 1 digit).
func IntDigits(z *big.Int) int { return len(new(big.Int).Abs(z).String()) }

func ratInt(z *big.Int) *big.Rat { return new(big.Rat).SetInt(z) }

func ratStr(r *big.Rat) string {
	if r == nil {
		return "<nil>"
	}
	if r.IsInt() {
		return r.Num().String()
	}
	if d := ValueDecimals(r); d >= 0 && d <= 60 {
		return r.FloatString(d)
	}
	return r.String()
}

func floorRat(r *big.Rat) *big.Int {
	q := new(big.Int)
	m := new(big.Int)
	q.DivMod(r.Num(), r.Denom(), m) // Euclidean: floor for positive denominators
	return q
}

func add(a, b *big.Rat) *big.Rat { return new(big.Rat).Add(a, b) }
func sub(a, b *big.Rat) *big.Rat { return new(big.Rat).Sub(a, b) }
func mul(a, b *big.Rat) *big.Rat { return new(big.Rat).Mul(a, b) }
func zero() *big.Rat             { return new(big.Rat) }

// ---------------------------------------------------------------------------------------------
// row field access (rows are map[string]interface{} with json.Number numbers)

func fStr(r chain.Row, k string) string {
	if v, ok := r[k].(string); ok {
		return v
	}
	return ""
}

func anyU64(v interface{}) uint64 {
	switch x := v.(type) {
	case json.Number:
		u, _ := strconv.ParseUint(x.String(), 10, 64)
		return u
	case string:
		u, _ := strconv.ParseUint(x, 10, 64)
		return u
	case float64:
		return uint64(x)
	case uint64:
		return x
	case int:
		return uint64(x)
	}
	return 0
}

func anyI64(v interface{}) int64 {
	switch x := v.(type) {
	case json.Number:
		u, _ := strconv.ParseInt(x.String(), 10, 64)
		return u
	case string:
		u, _ := strconv.ParseInt(x, 10, 64)
		return u
	case float64:
		return int64(x)
	case int64:
		return x
	case int:
		return int64(x)
	}
	return 0
}

func fU64(r chain.Row, k string) uint64 { return anyU64(r[k]) }

func fBool(r chain.Row, k string) bool {
	b, _ := r[k].(bool)
	return b
}

// fAcct renders an address field as "#<index>" / "0x<hex>" / "" (nil).
func fAcct(r chain.Row, k string) string { return acctOf(r[k]) }

func acctOf(v interface{}) string {
	m, ok := v.(map[string]interface{})
	if !ok {
		return ""
	}
	if a, ok := m["addr"]; ok {
		return "#" + strconv.FormatInt(anyI64(a), 10)
	}
	if h, ok := m["hex"].(string); ok {
		return "0x" + h
	}
	return ""
}

func fHex(r chain.Row, k string) string {
	if m, ok := r[k].(map[string]interface{}); ok {
		if h, ok := m["hex"].(string); ok {
			return h
		}
	}
	return ""
}

// TS is a protobuf timestamp or duration (seconds, nanos).
type TS struct {
	S int64
	N int64
}

// Nanos returns the total number of nanoseconds as a big integer.
func (t TS) Nanos() *big.Int {
	z := new(big.Int).Mul(big.NewInt(t.S), big.NewInt(1_000_000_000))
	return z.Add(z, big.NewInt(t.N))
}

// Cmp compares two timestamps.
func (t TS) Cmp(o TS) int { return t.Nanos().Cmp(o.Nanos()) }

func fTS(r chain.Row, k string) *TS { return tsOf(r[k]) }

func tsOf(v interface{}) *TS {
	m, ok := v.(map[string]interface{})
	if !ok {
		return nil
	}
	return &TS{S: anyI64(m["s"]), N: anyI64(m["n"])}
}

// CoinV is a bank coin of a state row.
type CoinV struct {
	Denom  string
	Amount *big.Int // nil if unparseable
	Raw    string
}

func fCoin(r chain.Row, k string) *CoinV {
	m, ok := r[k].(map[string]interface{})
	if !ok {
		return nil
	}
	c := &CoinV{}
	c.Denom, _ = m["denom"].(string)
	c.Raw, _ = m["amount"].(string)
	if z, ok := new(big.Int).SetString(c.Raw, 10); ok {
		c.Amount = z
	}
	return c
}
