package monitor

import (
	"fmt"
	"strings"

	sdk "github.com/cosmos/cosmos-sdk/types"
	banktypes "github.com/cosmos/cosmos-sdk/x/bank/types"

	data "github.com/regen-network/regen-ledger/x/data/v3"
	base "github.com/regen-network/regen-ledger/x/ecocredit/v3/base/types/v1"
	basket "github.com/regen-network/regen-ledger/x/ecocredit/v3/basket/types/v1"
	market "github.com/regen-network/regen-ledger/x/ecocredit/v3/marketplace/types/v1"

	"verif/harness/chain"
)

// ---------------------------------------------------------------------------------------------
// C08: roles and write footprints

// footprint lists, per message type, the tables a successful message may write.
var footprint = map[string][]string{
	"/regen.ecocredit.v1.MsgCreateClass":              {"Class", "ClassIssuer", "ClassSequence"},
	"/regen.ecocredit.v1.MsgCreateProject":            {"Project", "ProjectSequence"},
	"/regen.ecocredit.v1.MsgCreateBatch":              {"Batch", "BatchSequence", "BatchBalance", "BatchSupply", "OriginTxIndex", "BatchContract"},
	"/regen.ecocredit.v1.MsgMintBatchCredits":         {"BatchBalance", "BatchSupply", "OriginTxIndex"},
	"/regen.ecocredit.v1.MsgSealBatch":                {"Batch"},
	"/regen.ecocredit.v1.MsgSend":                     {"BatchBalance", "BatchSupply"},
	"/regen.ecocredit.v1.MsgRetire":                   {"BatchBalance", "BatchSupply"},
	"/regen.ecocredit.v1.MsgCancel":                   {"BatchBalance", "BatchSupply"},
	"/regen.ecocredit.v1.MsgBridge":                   {"BatchBalance", "BatchSupply"},
	"/regen.ecocredit.v1.MsgBridgeReceive":            {"Project", "ProjectSequence", "Batch", "BatchSequence", "BatchBalance", "BatchSupply", "OriginTxIndex", "BatchContract"},
	"/regen.ecocredit.v1.MsgUpdateClassAdmin":         {"Class"},
	"/regen.ecocredit.v1.MsgUpdateClassIssuers":       {"ClassIssuer"},
	"/regen.ecocredit.v1.MsgUpdateClassMetadata":      {"Class"},
	"/regen.ecocredit.v1.MsgUpdateProjectAdmin":       {"Project"},
	"/regen.ecocredit.v1.MsgUpdateProjectMetadata":    {"Project"},
	"/regen.ecocredit.v1.MsgUpdateBatchMetadata":      {"Batch"},
	"/regen.ecocredit.v1.MsgBurnRegen":                {},
	"/regen.ecocredit.v1.MsgAddCreditType":            {"CreditType"},
	"/regen.ecocredit.v1.MsgSetClassCreatorAllowlist": {"ClassCreatorAllowlist"},
	"/regen.ecocredit.v1.MsgAddClassCreator":          {"AllowedClassCreator"},
	"/regen.ecocredit.v1.MsgRemoveClassCreator":       {"AllowedClassCreator"},
	"/regen.ecocredit.v1.MsgUpdateClassFee":           {"ClassFee"},
	"/regen.ecocredit.v1.MsgUpdateProjectFee":         {"ProjectFee"},
	"/regen.ecocredit.v1.MsgAddAllowedBridgeChain":    {"AllowedBridgeChain"},
	"/regen.ecocredit.v1.MsgRemoveAllowedBridgeChain": {"AllowedBridgeChain"},

	"/regen.ecocredit.basket.v1.MsgCreate":             {"Basket", "BasketClass"},
	"/regen.ecocredit.basket.v1.MsgPut":                {"BatchBalance", "BasketBalance"},
	"/regen.ecocredit.basket.v1.MsgTake":               {"BatchBalance", "BatchSupply", "BasketBalance"},
	"/regen.ecocredit.basket.v1.MsgUpdateBasketFee":    {"BasketFee"},
	"/regen.ecocredit.basket.v1.MsgUpdateCurator":      {"Basket"},
	"/regen.ecocredit.basket.v1.MsgUpdateDateCriteria": {"Basket"},

	"/regen.ecocredit.marketplace.v1.MsgSell":               {"SellOrder", "Market", "BatchBalance"},
	"/regen.ecocredit.marketplace.v1.MsgUpdateSellOrders":   {"SellOrder", "Market", "BatchBalance"},
	"/regen.ecocredit.marketplace.v1.MsgCancelSellOrder":    {"SellOrder", "BatchBalance"},
	"/regen.ecocredit.marketplace.v1.MsgBuyDirect":          {"SellOrder", "BatchBalance", "BatchSupply"},
	"/regen.ecocredit.marketplace.v1.MsgAddAllowedDenom":    {"AllowedDenom"},
	"/regen.ecocredit.marketplace.v1.MsgRemoveAllowedDenom": {"AllowedDenom"},
	"/regen.ecocredit.marketplace.v1.MsgGovSetFeeParams":    {"FeeParams"},
	"/regen.ecocredit.marketplace.v1.MsgGovSendFromFeePool": {},

	"/regen.data.v2.MsgAnchor":           {"DataID", "DataAnchor"},
	"/regen.data.v2.MsgAttest":           {"DataID", "DataAnchor", "DataAttestor"},
	"/regen.data.v2.MsgDefineResolver":   {"Resolver"},
	"/regen.data.v2.MsgRegisterResolver": {"DataID", "DataAnchor", "DataResolver"},

	"/cosmos.bank.v1beta1.MsgSend": {},
}

// bankFree lists message types that must not touch bank balances at all.
var bankTouching = map[string]bool{
	"/regen.ecocredit.v1.MsgCreateClass":                    true,
	"/regen.ecocredit.v1.MsgBurnRegen":                      true,
	"/regen.ecocredit.basket.v1.MsgCreate":                  true,
	"/regen.ecocredit.basket.v1.MsgPut":                     true,
	"/regen.ecocredit.basket.v1.MsgTake":                    true,
	"/regen.ecocredit.marketplace.v1.MsgBuyDirect":          true,
	"/regen.ecocredit.marketplace.v1.MsgGovSendFromFeePool": true,
	"/cosmos.bank.v1beta1.MsgSend":                          true,
}

// onlyFieldsChanged checks that exactly one row of table changed between pre and post and that it
// differs only in the given fields.
func (c *Checker) onlyFieldsChanged(table string, fields ...string) {
	if c.it.Diff == nil {
		return
	}
	td := c.it.Diff.Tables[table]
	if td == nil {
		return // nothing changed (e.g. same value written)
	}
	if len(td.Deletes) > 0 || len(td.Puts) != 1 {
		c.report("C08", "footprint-rows:"+table, fmt.Sprintf("expected exactly one %s row to change, got %d puts and %d deletes", table, len(td.Puts), len(td.Deletes)), td)
		return
	}
	allowed := map[string]bool{}
	for _, f := range fields {
		allowed[f] = true
	}
	put := td.Puts[0]
	info, _ := chain.TableInfoByName(table)
	var old chain.Row
	for _, r := range c.pre.S.Tables[table] {
		same := true
		for _, pk := range info.PrimaryKey {
			if chainRowJSON(chain.Row{"v": r[pk]}) != chainRowJSON(chain.Row{"v": put[pk]}) {
				same = false
			}
		}
		if same {
			old = r
		}
	}
	if old == nil {
		c.report("C08", "footprint-rows:"+table, "a "+table+" row was inserted by a message that only updates", put)
		return
	}
	for k, nv := range put {
		if allowed[k] {
			continue
		}
		if chainRowJSON(chain.Row{"v": nv}) != chainRowJSON(chain.Row{"v": old[k]}) {
			c.report("C08", "footprint-fields:"+table, fmt.Sprintf("%s.%s changed although the message only names %v", table, k, fields), map[string]interface{}{"pre": old, "post": put})
		}
	}
}

func (c *Checker) checkC08(msg sdk.Msg, ok bool) {
	url := c.it.TypeURL
	v := c.pre
	signer := ""
	if ss := signersOf(msg); len(ss) > 0 {
		signer = c.key(ss[0].String())
	}
	// sealed batches: these messages must fail
	sealedFail := func(denom, what string) {
		if b := v.BatchByDen[denom]; b != nil && !b.Open {
			c.hit("C08")
			c.Counters["c08_"+what+"_on_sealed_batch"]++
			if ok {
				c.report("C08", "sealed-batch-"+what, what+" succeeded on sealed batch "+denom, b.Row)
			}
		}
	}
	switch m := msg.(type) {
	case *base.MsgMintBatchCredits:
		sealedFail(m.BatchDenom, "mint")
	case *base.MsgUpdateBatchMetadata:
		sealedFail(m.BatchDenom, "update-metadata")
	case *base.MsgSealBatch:
		if b := v.BatchByDen[m.BatchDenom]; b != nil && !b.Open {
			c.Counters["c08_seal_again"]++
			if ok && c.it.Diff != nil && !c.it.Diff.Empty() {
				c.report("C08", "seal-again-changed-state", "sealing a sealed batch changed state", c.it.Diff)
			}
		}
	}
	if !ok {
		return
	}
	c.hit("C08")
	need := func(cond bool, role, what string, row interface{}) {
		if !cond {
			c.report("C08", "role:"+role, fmt.Sprintf("%s succeeded although the signer %s is not the %s", what, signer, role), row)
		}
	}
	isGov := signer == c.gov
	switch m := msg.(type) {
	case *base.MsgCreateClass:
		if v.AllowlistOn {
			need(v.Creators[signer], "allowed-class-creator", "CreateClass", nil)
		}
	case *base.MsgCreateProject:
		cl := v.ClassByID[m.ClassId]
		need(cl != nil && v.Issuers[cl.Key][signer], "class-issuer", "CreateProject", nil)
	case *base.MsgCreateBatch:
		p := v.ProjectByID[m.ProjectId]
		need(p != nil && v.Issuers[p.ClassKey][signer], "class-issuer", "CreateBatch", nil)
	case *base.MsgMintBatchCredits:
		b := v.BatchByDen[m.BatchDenom]
		need(b != nil && b.Issuer == signer, "batch-issuer", "MintBatchCredits", nil)
	case *base.MsgSealBatch:
		b := v.BatchByDen[m.BatchDenom]
		need(b != nil && b.Issuer == signer, "batch-issuer", "SealBatch", nil)
		c.onlyFieldsChanged("Batch", "open")
	case *base.MsgUpdateBatchMetadata:
		b := v.BatchByDen[m.BatchDenom]
		need(b != nil && b.Issuer == signer, "batch-issuer", "UpdateBatchMetadata", nil)
		c.onlyFieldsChanged("Batch", "metadata")
	case *base.MsgBridgeReceive:
		cl := v.ClassByID[m.ClassId]
		if cl != nil && m.OriginTx != nil {
			bound := ""
			for _, ct := range v.Contracts {
				if ct.Class == cl.Key && ct.Contract == m.OriginTx.Contract {
					if b := v.Batches[ct.Batch]; b != nil {
						bound = b.Denom
					}
				}
			}
			if bound != "" {
				b := v.BatchByDen[bound]
				need(b.Issuer == signer, "batch-issuer", "BridgeReceive into an existing batch", b.Row)
				need(b.Open, "open-batch", "BridgeReceive into an existing batch", b.Row)
			} else {
				need(v.Issuers[cl.Key][signer], "class-issuer", "BridgeReceive", nil)
			}
		}
	case *base.MsgUpdateClassAdmin:
		cl := v.ClassByID[m.ClassId]
		need(cl != nil && cl.Admin == signer, "class-admin", "UpdateClassAdmin", nil)
		c.onlyFieldsChanged("Class", "admin")
	case *base.MsgUpdateClassIssuers:
		cl := v.ClassByID[m.ClassId]
		need(cl != nil && cl.Admin == signer, "class-admin", "UpdateClassIssuers", nil)
		if cl != nil && c.it.Diff != nil {
			if td := c.it.Diff.Tables["ClassIssuer"]; td != nil {
				for _, r := range append(append([]chain.Row{}, td.Puts...), td.Deletes...) {
					if fU64(r, "class_key") != cl.Key {
						c.report("C08", "footprint-rows:ClassIssuer", "issuers of another class changed", r)
					}
				}
			}
		}
	case *base.MsgUpdateClassMetadata:
		cl := v.ClassByID[m.ClassId]
		need(cl != nil && cl.Admin == signer, "class-admin", "UpdateClassMetadata", nil)
		c.onlyFieldsChanged("Class", "metadata")
	case *base.MsgUpdateProjectAdmin:
		p := v.ProjectByID[m.ProjectId]
		need(p != nil && p.Admin == signer, "project-admin", "UpdateProjectAdmin", nil)
		c.onlyFieldsChanged("Project", "admin")
	case *base.MsgUpdateProjectMetadata:
		p := v.ProjectByID[m.ProjectId]
		need(p != nil && p.Admin == signer, "project-admin", "UpdateProjectMetadata", nil)
		c.onlyFieldsChanged("Project", "metadata")
	case *basket.MsgUpdateCurator:
		b := v.BasketByDenom[m.Denom]
		need(b != nil && b.Curator == signer, "basket-curator", "basket UpdateCurator", nil)
		c.onlyFieldsChanged("Basket", "curator")
	case *basket.MsgUpdateDateCriteria:
		need(isGov, "gov-authority", "basket UpdateDateCriteria", nil)
		c.onlyFieldsChanged("Basket", "date_criteria")
	case *market.MsgUpdateSellOrders:
		for _, u := range m.Updates {
			o := v.Orders[u.SellOrderId]
			need(o != nil && o.Seller == signer, "sell-order-owner", "UpdateSellOrders", nil)
		}
	case *market.MsgCancelSellOrder:
		o := v.Orders[m.SellOrderId]
		need(o != nil && o.Seller == signer, "sell-order-owner", "CancelSellOrder", nil)
	case *base.MsgAddCreditType, *base.MsgSetClassCreatorAllowlist, *base.MsgAddClassCreator, *base.MsgRemoveClassCreator,
		*base.MsgUpdateClassFee, *base.MsgUpdateProjectFee, *base.MsgAddAllowedBridgeChain, *base.MsgRemoveAllowedBridgeChain,
		*basket.MsgUpdateBasketFee, *market.MsgAddAllowedDenom, *market.MsgRemoveAllowedDenom, *market.MsgGovSetFeeParams,
		*market.MsgGovSendFromFeePool:
		need(isGov, "gov-authority", strings.TrimPrefix(url, "/"), nil)
	case *data.MsgRegisterResolver:
		r := v.Resolvers[m.ResolverId]
		need(r != nil && (r.Manager == "" || r.Manager == signer), "resolver-manager", "RegisterResolver", nil)
	case *banktypes.MsgSend:
	}

	// write footprint
	fp, known := footprint[url]
	if !known || c.it.Diff == nil {
		return
	}
	allowed := map[string]bool{}
	for _, t := range fp {
		allowed[t] = true
	}
	for _, t := range sortedStr(c.it.Diff.Tables) {
		if !allowed[t] {
			c.report("C08", "footprint-table:"+t, fmt.Sprintf("%s wrote table %s", strings.TrimPrefix(url, "/"), t), c.it.Diff.Tables[t])
		}
	}
	if !bankTouching[url] && (len(c.it.Diff.Balances) > 0 || len(c.it.Diff.Supply) > 0) {
		c.report("C08", "footprint-bank", fmt.Sprintf("%s changed bank balances", strings.TrimPrefix(url, "/")), map[string]interface{}{"balances": c.it.Diff.Balances, "supply": c.it.Diff.Supply})
	}
	c.checkCreditScope(msg, signer)
}

// checkCreditScope checks that credit-moving messages only write balance/supply rows of the named
// batches and of the accounts they name.
func (c *Checker) checkCreditScope(msg sdk.Msg, signer string) {
	batches := map[uint64]bool{}
	accts := map[string]bool{signer: true}
	addDenom := func(d string) {
		if b := c.pre.BatchByDen[d]; b != nil {
			batches[b.Key] = true
		} else if b := c.post.BatchByDen[d]; b != nil {
			batches[b.Key] = true
		}
	}
	switch m := msg.(type) {
	case *base.MsgSend:
		accts[c.key(m.Recipient)] = true
		for _, cr := range m.Credits {
			addDenom(cr.BatchDenom)
		}
	case *base.MsgRetire:
		for _, cr := range m.Credits {
			addDenom(cr.BatchDenom)
		}
	case *base.MsgCancel:
		for _, cr := range m.Credits {
			addDenom(cr.BatchDenom)
		}
	case *base.MsgBridge:
		for _, cr := range m.Credits {
			addDenom(cr.BatchDenom)
		}
	case *base.MsgMintBatchCredits:
		addDenom(m.BatchDenom)
		delete(accts, signer)
		for _, is := range m.Issuance {
			accts[c.key(is.Recipient)] = true
		}
	case *base.MsgCreateBatch:
		addDenom(respStr(c.response(), "batch_denom"))
		delete(accts, signer)
		for _, is := range m.Issuance {
			accts[c.key(is.Recipient)] = true
		}
	case *base.MsgBridgeReceive:
		addDenom(respStr(c.response(), "batch_denom"))
		delete(accts, signer)
		if m.Batch != nil {
			accts[c.key(m.Batch.Recipient)] = true
		}
	case *basket.MsgPut:
		for _, cr := range m.Credits {
			addDenom(cr.BatchDenom)
		}
	case *basket.MsgTake:
		for _, cr := range respCredits(c.response()) {
			addDenom(cr[0])
		}
	case *market.MsgSell:
		for _, o := range m.Orders {
			addDenom(o.BatchDenom)
		}
	case *market.MsgUpdateSellOrders:
		for _, u := range m.Updates {
			if o := c.pre.Orders[u.SellOrderId]; o != nil {
				batches[o.Batch] = true
			}
		}
	case *market.MsgCancelSellOrder:
		if o := c.pre.Orders[m.SellOrderId]; o != nil {
			batches[o.Batch] = true
		}
	case *market.MsgBuyDirect:
		for _, bo := range m.Orders {
			if o := c.pre.Orders[bo.SellOrderId]; o != nil {
				batches[o.Batch] = true
				accts[o.Seller] = true
			}
		}
	default:
		return
	}
	if td := c.it.Diff.Tables["BatchBalance"]; td != nil {
		for _, r := range append(append([]chain.Row{}, td.Puts...), td.Deletes...) {
			if !batches[fU64(r, "batch_key")] || !accts[fAcct(r, "address")] {
				c.report("C08", "footprint-rows:BatchBalance", "a balance row outside the named batches/accounts was written", r)
			}
		}
	}
	if td := c.it.Diff.Tables["BatchSupply"]; td != nil {
		for _, r := range append(append([]chain.Row{}, td.Puts...), td.Deletes...) {
			if !batches[fU64(r, "batch_key")] {
				c.report("C08", "footprint-rows:BatchSupply", "the supply row of a batch the message does not name was written", r)
			}
		}
	}
}
