package chain

import (
	"fmt"
	"hash"
	"hash/fnv"

	"github.com/regen-network/regen-ledger/x/data/v3/server/hasher"
)

// newWeakHasher builds a hasher.Hasher that keeps the production CreateID logic
// (hasher.NewHasherWithOptions, MinLength 4, 8-byte digests) but swaps the digest function:
//
//	"weak4": k = fnv32a(value) mod 4, digest = bytes 8k, 8k+1, .., 8k+7 → only 4 distinct digests
//	         (with pairwise distinct bytes), so IDs collide after a handful of IRIs and both collision
//	         branches of CreateID are exercised: the "append digest[collisions]" branch for
//	         collisions < 4 and the uvarint fallback from the 5th IRI of a class on;
//	"const": digest = bytes 0,1,..,7 for every value → every IRI collides with every other.
func newWeakHasher(kind string) (hasher.Hasher, error) {
	var mk func() hash.Hash
	switch kind {
	case HasherWeak4:
		mk = func() hash.Hash { return &weakHash{mod: 4} }
	case HasherConst:
		mk = func() hash.Hash { return &weakHash{mod: 1} }
	default:
		return nil, fmt.Errorf("chain: unknown HasherKind %q", kind)
	}
	return hasher.NewHasherWithOptions(hasher.HashOptions{NewHash: mk, MinLength: 4})
}

// WeakDigest returns the 8-byte digest the weak hasher of the given kind computes for value
// (exported so that models/monitors can predict IDs).
func WeakDigest(kind string, value []byte) []byte {
	mod := uint32(4)
	if kind == HasherConst {
		mod = 1
	}
	h := &weakHash{mod: mod}
	_, _ = h.Write(value)
	return h.Sum(nil)
}

type weakHash struct {
	mod uint32
	buf []byte
}

func (w *weakHash) Write(p []byte) (int, error) { w.buf = append(w.buf, p...); return len(p), nil }
func (w *weakHash) Sum(b []byte) []byte {
	f := fnv.New32a()
	_, _ = f.Write(w.buf)
	v := byte(f.Sum32()%w.mod) * 8
	return append(b, v, v+1, v+2, v+3, v+4, v+5, v+6, v+7)
}
func (w *weakHash) Reset()         { w.buf = nil }
func (w *weakHash) Size() int      { return 8 }
func (w *weakHash) BlockSize() int { return 1 }
