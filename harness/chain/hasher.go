package chain

import (
	"fmt"
	"hash"
	"hash/fnv"

	"github.com/regen-network/regen-ledger/x/data/v3/server/hasher"
)

// newWeakHasher builds a hasher.Hasher that keeps the production CreateID logic
// (hasher.NewHasherWithOptions, MinLength 4, 8-byte digests) but swaps the digest function:
//
//	"weak4": digest = 8 bytes all equal to (fnv32a(value) mod 4) → only 4 distinct digests, so IDs
//	         collide after a handful of IRIs and the collision counter path is exercised, including
//	         the varint fallback once collisions >= 4;
//	"const": digest = 8 zero bytes → every IRI collides with every other.
func newWeakHasher(kind string) (hasher.Hasher, error) {
	var mk func() hash.Hash
	switch kind {
	case HasherWeak4:
		mk = func() hash.Hash { return &weakHash{mod: 4} }
	case HasherConst:
		mk = func() hash.Hash { return &weakHash{mod: 1} }
	default:
		return nil, fmt.Errorf("chain: unknown HasherKind %q", kind)
	}
	return hasher.NewHasherWithOptions(hasher.HashOptions{NewHash: mk, MinLength: 4})
}

// WeakDigest returns the 8-byte digest the weak hasher of the given kind computes for value
// (exported so that models/monitors can predict IDs).
func WeakDigest(kind string, value []byte) []byte {
	mod := uint32(4)
	if kind == HasherConst {
		mod = 1
	}
	h := &weakHash{mod: mod}
	_, _ = h.Write(value)
	return h.Sum(nil)
}

type weakHash struct {
	mod uint32
	buf []byte
}

func (w *weakHash) Write(p []byte) (int, error) { w.buf = append(w.buf, p...); return len(p), nil }
func (w *weakHash) Sum(b []byte) []byte {
	f := fnv.New32a()
	_, _ = f.Write(w.buf)
	v := byte(f.Sum32() % w.mod)
	return append(b, v, v, v, v, v, v, v, v)
}
func (w *weakHash) Reset()         { w.buf = nil }
func (w *weakHash) Size() int      { return 8 }
func (w *weakHash) BlockSize() int { return 1 }
