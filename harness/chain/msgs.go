package chain

import (
	"time"

	sdk "github.com/cosmos/cosmos-sdk/types"
	banktypes "github.com/cosmos/cosmos-sdk/x/bank/types"
	gogotypes "github.com/cosmos/gogoproto/types"

	data "github.com/regen-network/regen-ledger/x/data/v3"
	base "github.com/regen-network/regen-ledger/x/ecocredit/v3/base/types/v1"
	basket "github.com/regen-network/regen-ledger/x/ecocredit/v3/basket/types/v1"
	market "github.com/regen-network/regen-ledger/x/ecocredit/v3/marketplace/types/v1"
)

// This file holds optional helper constructors: one per Msg type of the ecocredit base, basket and
// marketplace services, the data service and bank MsgSend. They take ACCOUNT INDICES (see
// accounts.go) where the message has a bech32 address and otherwise mirror the proto fields.
// Governance-gated messages take no signer: the authority is always index IdxGov.

// Coin is a shorthand for *sdk.Coin.
func Coin(denom string, amount int64) *sdk.Coin {
	c := sdk.NewInt64Coin(denom, amount)
	return &c
}

// TimePtr returns a pointer to t (UTC).
func TimePtr(t time.Time) *time.Time { u := t.UTC(); return &u }

func (a *App) addrs(idx []int) []string {
	out := make([]string, len(idx))
	for i, x := range idx {
		out[i] = a.Addr(x)
	}
	return out
}

// ---- ecocredit base -------------------------------------------------------------------------

func (a *App) MsgCreateClass(admin int, issuers []int, metadata, creditTypeAbbrev string, fee *sdk.Coin) *base.MsgCreateClass {
	return &base.MsgCreateClass{Admin: a.Addr(admin), Issuers: a.addrs(issuers), Metadata: metadata, CreditTypeAbbrev: creditTypeAbbrev, Fee: fee}
}

func (a *App) MsgCreateProject(admin int, classID, metadata, jurisdiction, referenceID string, fee *sdk.Coin) *base.MsgCreateProject {
	return &base.MsgCreateProject{Admin: a.Addr(admin), ClassId: classID, Metadata: metadata, Jurisdiction: jurisdiction, ReferenceId: referenceID, Fee: fee}
}

func (a *App) MsgCreateUnregisteredProject(admin int, metadata, jurisdiction, referenceID string, fee *sdk.Coin) *base.MsgCreateUnregisteredProject {
	return &base.MsgCreateUnregisteredProject{Admin: a.Addr(admin), Metadata: metadata, Jurisdiction: jurisdiction, ReferenceId: referenceID, Fee: fee}
}

func (a *App) MsgCreateOrUpdateApplication(projectAdmin int, projectID, classID, metadata string, withdraw bool) *base.MsgCreateOrUpdateApplication {
	return &base.MsgCreateOrUpdateApplication{ProjectAdmin: a.Addr(projectAdmin), ProjectId: projectID, ClassId: classID, Metadata: metadata, Withdraw: withdraw}
}

func (a *App) MsgUpdateProjectEnrollment(issuer int, projectID, classID string, status base.ProjectEnrollmentStatus, metadata string) *base.MsgUpdateProjectEnrollment {
	return &base.MsgUpdateProjectEnrollment{Issuer: a.Addr(issuer), ProjectId: projectID, ClassId: classID, NewStatus: status, Metadata: metadata}
}

// Issuance builds one BatchIssuance entry for recipient index r.
func (a *App) Issuance(r int, tradable, retired, retirementJurisdiction string) *base.BatchIssuance {
	return &base.BatchIssuance{Recipient: a.Addr(r), TradableAmount: tradable, RetiredAmount: retired, RetirementJurisdiction: retirementJurisdiction}
}

func (a *App) MsgCreateBatch(issuer int, projectID, classID string, issuance []*base.BatchIssuance, metadata string, start, end time.Time, open bool, origin *base.OriginTx) *base.MsgCreateBatch {
	return &base.MsgCreateBatch{Issuer: a.Addr(issuer), ProjectId: projectID, ClassId: classID, Issuance: issuance, Metadata: metadata,
		StartDate: TimePtr(start), EndDate: TimePtr(end), Open: open, OriginTx: origin}
}

func (a *App) MsgMintBatchCredits(issuer int, batchDenom string, issuance []*base.BatchIssuance, origin *base.OriginTx) *base.MsgMintBatchCredits {
	return &base.MsgMintBatchCredits{Issuer: a.Addr(issuer), BatchDenom: batchDenom, Issuance: issuance, OriginTx: origin}
}

func (a *App) MsgSealBatch(issuer int, batchDenom string) *base.MsgSealBatch {
	return &base.MsgSealBatch{Issuer: a.Addr(issuer), BatchDenom: batchDenom}
}

// MsgSendCredits is ecocredit MsgSend with a single credits entry (use MsgSendMulti for several).
func (a *App) MsgSendCredits(sender, recipient int, batchDenom, tradable, retired, retirementJurisdiction, reason string) *base.MsgSend {
	return a.MsgSendMulti(sender, recipient, &base.MsgSend_SendCredits{BatchDenom: batchDenom, TradableAmount: tradable, RetiredAmount: retired,
		RetirementJurisdiction: retirementJurisdiction, RetirementReason: reason})
}

func (a *App) MsgSendMulti(sender, recipient int, credits ...*base.MsgSend_SendCredits) *base.MsgSend {
	return &base.MsgSend{Sender: a.Addr(sender), Recipient: a.Addr(recipient), Credits: credits}
}

// Credits builds a base Credits entry.
func Credits(batchDenom, amount string) *base.Credits {
	return &base.Credits{BatchDenom: batchDenom, Amount: amount}
}

func (a *App) MsgRetire(owner int, jurisdiction, reason string, credits ...*base.Credits) *base.MsgRetire {
	return &base.MsgRetire{Owner: a.Addr(owner), Credits: credits, Jurisdiction: jurisdiction, Reason: reason}
}

func (a *App) MsgCancel(owner int, reason string, credits ...*base.Credits) *base.MsgCancel {
	return &base.MsgCancel{Owner: a.Addr(owner), Credits: credits, Reason: reason}
}

func (a *App) MsgUpdateClassAdmin(admin int, classID string, newAdmin int) *base.MsgUpdateClassAdmin {
	return &base.MsgUpdateClassAdmin{Admin: a.Addr(admin), ClassId: classID, NewAdmin: a.Addr(newAdmin)}
}

func (a *App) MsgUpdateClassIssuers(admin int, classID string, add, remove []int) *base.MsgUpdateClassIssuers {
	return &base.MsgUpdateClassIssuers{Admin: a.Addr(admin), ClassId: classID, AddIssuers: a.addrs(add), RemoveIssuers: a.addrs(remove)}
}

func (a *App) MsgUpdateClassMetadata(admin int, classID, newMetadata string) *base.MsgUpdateClassMetadata {
	return &base.MsgUpdateClassMetadata{Admin: a.Addr(admin), ClassId: classID, NewMetadata: newMetadata}
}

func (a *App) MsgUpdateProjectAdmin(admin int, projectID string, newAdmin int) *base.MsgUpdateProjectAdmin {
	return &base.MsgUpdateProjectAdmin{Admin: a.Addr(admin), ProjectId: projectID, NewAdmin: a.Addr(newAdmin)}
}

func (a *App) MsgUpdateProjectMetadata(admin int, projectID, newMetadata string) *base.MsgUpdateProjectMetadata {
	return &base.MsgUpdateProjectMetadata{Admin: a.Addr(admin), ProjectId: projectID, NewMetadata: newMetadata}
}

func (a *App) MsgUpdateBatchMetadata(issuer int, batchDenom, newMetadata string) *base.MsgUpdateBatchMetadata {
	return &base.MsgUpdateBatchMetadata{Issuer: a.Addr(issuer), BatchDenom: batchDenom, NewMetadata: newMetadata}
}

// MsgBridge: recipient is an Ethereum address string (not an account index).
func (a *App) MsgBridge(owner int, target, ethRecipient string, credits ...*base.Credits) *base.MsgBridge {
	return &base.MsgBridge{Owner: a.Addr(owner), Target: target, Recipient: ethRecipient, Credits: credits}
}

func (a *App) MsgBridgeReceive(issuer int, classID string, project *base.MsgBridgeReceive_Project, recipient int, amount string, start, end time.Time, batchMetadata string, origin *base.OriginTx) *base.MsgBridgeReceive {
	return &base.MsgBridgeReceive{Issuer: a.Addr(issuer), ClassId: classID, Project: project,
		Batch:    &base.MsgBridgeReceive_Batch{Recipient: a.Addr(recipient), Amount: amount, StartDate: TimePtr(start), EndDate: TimePtr(end), Metadata: batchMetadata},
		OriginTx: origin}
}

func (a *App) MsgBurnRegen(burner int, amount, reason string) *base.MsgBurnRegen {
	return &base.MsgBurnRegen{Burner: a.Addr(burner), Amount: amount, Reason: reason}
}

// governance-gated base messages (authority = gov module address)

func (a *App) MsgAddCreditType(ct *base.CreditType) *base.MsgAddCreditType {
	return &base.MsgAddCreditType{Authority: a.Gov(), CreditType: ct}
}

func (a *App) MsgSetClassCreatorAllowlist(enabled bool) *base.MsgSetClassCreatorAllowlist {
	return &base.MsgSetClassCreatorAllowlist{Authority: a.Gov(), Enabled: enabled}
}

func (a *App) MsgAddClassCreator(creator int) *base.MsgAddClassCreator {
	return &base.MsgAddClassCreator{Authority: a.Gov(), Creator: a.Addr(creator)}
}

func (a *App) MsgRemoveClassCreator(creator int) *base.MsgRemoveClassCreator {
	return &base.MsgRemoveClassCreator{Authority: a.Gov(), Creator: a.Addr(creator)}
}

func (a *App) MsgUpdateClassFee(fee *sdk.Coin) *base.MsgUpdateClassFee {
	return &base.MsgUpdateClassFee{Authority: a.Gov(), Fee: fee}
}

func (a *App) MsgUpdateProjectFee(fee *sdk.Coin) *base.MsgUpdateProjectFee {
	return &base.MsgUpdateProjectFee{Authority: a.Gov(), Fee: fee}
}

func (a *App) MsgAddAllowedBridgeChain(chain string) *base.MsgAddAllowedBridgeChain {
	return &base.MsgAddAllowedBridgeChain{Authority: a.Gov(), ChainName: chain}
}

func (a *App) MsgRemoveAllowedBridgeChain(chain string) *base.MsgRemoveAllowedBridgeChain {
	return &base.MsgRemoveAllowedBridgeChain{Authority: a.Gov(), ChainName: chain}
}

// ---- basket -----------------------------------------------------------------------------------

func (a *App) MsgBasketCreate(curator int, name, description, creditTypeAbbrev string, allowedClasses []string, disableAutoRetire bool, dc *basket.DateCriteria, fee sdk.Coins) *basket.MsgCreate {
	return &basket.MsgCreate{Curator: a.Addr(curator), Name: name, Description: description, CreditTypeAbbrev: creditTypeAbbrev,
		AllowedClasses: allowedClasses, DisableAutoRetire: disableAutoRetire, DateCriteria: dc, Fee: fee}
}

// BasketCredit builds a basket credit entry.
func BasketCredit(batchDenom, amount string) *basket.BasketCredit {
	return &basket.BasketCredit{BatchDenom: batchDenom, Amount: amount}
}

func (a *App) MsgBasketPut(owner int, basketDenom string, credits ...*basket.BasketCredit) *basket.MsgPut {
	return &basket.MsgPut{Owner: a.Addr(owner), BasketDenom: basketDenom, Credits: credits}
}

func (a *App) MsgBasketTake(owner int, basketDenom, amount string, retireOnTake bool, jurisdiction, reason string) *basket.MsgTake {
	return &basket.MsgTake{Owner: a.Addr(owner), BasketDenom: basketDenom, Amount: amount, RetireOnTake: retireOnTake,
		RetirementJurisdiction: jurisdiction, RetirementReason: reason}
}

func (a *App) MsgUpdateBasketFee(fee *sdk.Coin) *basket.MsgUpdateBasketFee {
	return &basket.MsgUpdateBasketFee{Authority: a.Gov(), Fee: fee}
}

func (a *App) MsgBasketUpdateCurator(curator int, denom string, newCurator int) *basket.MsgUpdateCurator {
	return &basket.MsgUpdateCurator{Curator: a.Addr(curator), Denom: denom, NewCurator: a.Addr(newCurator)}
}

// MsgBasketUpdateDateCriteria is governance-gated.
func (a *App) MsgBasketUpdateDateCriteria(denom string, dc *basket.DateCriteria) *basket.MsgUpdateDateCriteria {
	return &basket.MsgUpdateDateCriteria{Authority: a.Gov(), Denom: denom, NewDateCriteria: dc}
}

// MinStartDate builds a DateCriteria with min_start_date.
func MinStartDate(t time.Time) *basket.DateCriteria {
	ts, err := gogotypes.TimestampProto(t)
	if err != nil {
		panic(err)
	}
	return &basket.DateCriteria{MinStartDate: ts}
}

// ---- marketplace ------------------------------------------------------------------------------

func (a *App) MsgSell(seller int, orders ...*market.MsgSell_Order) *market.MsgSell {
	return &market.MsgSell{Seller: a.Addr(seller), Orders: orders}
}

// SellOrder builds one MsgSell order; expiration may be nil.
func SellOrder(batchDenom, quantity string, ask *sdk.Coin, disableAutoRetire bool, expiration *time.Time) *market.MsgSell_Order {
	return &market.MsgSell_Order{BatchDenom: batchDenom, Quantity: quantity, AskPrice: ask, DisableAutoRetire: disableAutoRetire, Expiration: expiration}
}

func (a *App) MsgUpdateSellOrders(seller int, updates ...*market.MsgUpdateSellOrders_Update) *market.MsgUpdateSellOrders {
	return &market.MsgUpdateSellOrders{Seller: a.Addr(seller), Updates: updates}
}

func (a *App) MsgCancelSellOrder(seller int, id uint64) *market.MsgCancelSellOrder {
	return &market.MsgCancelSellOrder{Seller: a.Addr(seller), SellOrderId: id}
}

func (a *App) MsgBuyDirect(buyer int, orders ...*market.MsgBuyDirect_Order) *market.MsgBuyDirect {
	return &market.MsgBuyDirect{Buyer: a.Addr(buyer), Orders: orders}
}

// BuyOrder builds one MsgBuyDirect order; maxFee may be nil.
func BuyOrder(sellOrderID uint64, quantity string, bid *sdk.Coin, disableAutoRetire bool, jurisdiction, reason string, maxFee *sdk.Coin) *market.MsgBuyDirect_Order {
	return &market.MsgBuyDirect_Order{SellOrderId: sellOrderID, Quantity: quantity, BidPrice: bid, DisableAutoRetire: disableAutoRetire,
		RetirementJurisdiction: jurisdiction, RetirementReason: reason, MaxFeeAmount: maxFee}
}

func (a *App) MsgAddAllowedDenom(bankDenom, displayDenom string, exponent uint32) *market.MsgAddAllowedDenom {
	return &market.MsgAddAllowedDenom{Authority: a.Gov(), BankDenom: bankDenom, DisplayDenom: displayDenom, Exponent: exponent}
}

func (a *App) MsgRemoveAllowedDenom(denom string) *market.MsgRemoveAllowedDenom {
	return &market.MsgRemoveAllowedDenom{Authority: a.Gov(), Denom: denom}
}

func (a *App) MsgGovSetFeeParams(buyerPct, sellerPct string) *market.MsgGovSetFeeParams {
	return &market.MsgGovSetFeeParams{Authority: a.Gov(), Fees: &market.FeeParams{BuyerPercentageFee: buyerPct, SellerPercentageFee: sellerPct}}
}

func (a *App) MsgGovSendFromFeePool(recipient int, coins sdk.Coins) *market.MsgGovSendFromFeePool {
	return &market.MsgGovSendFromFeePool{Authority: a.Gov(), Recipient: a.Addr(recipient), Coins: coins}
}

// ---- data ---------------------------------------------------------------------------------------

// RawHash builds a raw ContentHash (BLAKE2B-256 digest algorithm id 1) from a 32-byte hash.
func RawHash(hash []byte, fileExtension string) *data.ContentHash {
	return &data.ContentHash{Raw: &data.ContentHash_Raw{Hash: hash, DigestAlgorithm: 1, FileExtension: fileExtension}}
}

// GraphHash builds a graph ContentHash_Graph (BLAKE2B-256, RDFC-1.0, no merkle tree).
func GraphHash(hash []byte) *data.ContentHash_Graph {
	return &data.ContentHash_Graph{Hash: hash, DigestAlgorithm: 1, CanonicalizationAlgorithm: 1, MerkleTree: 0}
}

func (a *App) MsgAnchor(sender int, ch *data.ContentHash) *data.MsgAnchor {
	return &data.MsgAnchor{Sender: a.Addr(sender), ContentHash: ch}
}

func (a *App) MsgAttest(attestor int, hashes ...*data.ContentHash_Graph) *data.MsgAttest {
	return &data.MsgAttest{Attestor: a.Addr(attestor), ContentHashes: hashes}
}

func (a *App) MsgDefineResolver(definer int, url string, public bool) *data.MsgDefineResolver {
	return &data.MsgDefineResolver{Definer: a.Addr(definer), ResolverUrl: url, Public: public}
}

func (a *App) MsgRegisterResolver(signer int, resolverID uint64, hashes ...*data.ContentHash) *data.MsgRegisterResolver {
	return &data.MsgRegisterResolver{Signer: a.Addr(signer), ResolverId: resolverID, ContentHashes: hashes}
}

// ---- bank ---------------------------------------------------------------------------------------

// MsgBankSend is the bank MsgSend (e.g. to move basket tokens between accounts).
func (a *App) MsgBankSend(from, to int, coins sdk.Coins) *banktypes.MsgSend {
	return &banktypes.MsgSend{FromAddress: a.Addr(from), ToAddress: a.Addr(to), Amount: coins}
}
