package chain

import (
	"bytes"
	"context"
	"encoding/hex"
	"encoding/json"
	"fmt"
	"sort"
	"strconv"
	"strings"

	ormv1 "cosmossdk.io/api/cosmos/orm/v1"
	ormv1alpha1 "cosmossdk.io/api/cosmos/orm/v1alpha1"
	"google.golang.org/protobuf/proto"
	"google.golang.org/protobuf/reflect/protoreflect"
	"google.golang.org/protobuf/reflect/protoregistry"

	"github.com/cosmos/cosmos-sdk/orm/encoding/ormkv"
	"github.com/cosmos/cosmos-sdk/orm/model/ormdb"
	"github.com/cosmos/cosmos-sdk/orm/model/ormtable"
	storetypes "github.com/cosmos/cosmos-sdk/store/types"
	sdk "github.com/cosmos/cosmos-sdk/types"
	banktypes "github.com/cosmos/cosmos-sdk/x/bank/types"

	data "github.com/regen-network/regen-ledger/x/data/v3"
	ecocredit "github.com/regen-network/regen-ledger/x/ecocredit/v3"
)

// Row is one ORM table row in canonical form (see README "Canonical row form").
type Row map[string]interface{}

// TableInfo describes one ORM table of the ecocredit or data module.
type TableInfo struct {
	Name          string   `json:"name"`           // short message name, e.g. "BatchBalance" (unique across modules)
	FullName      string   `json:"full_name"`      // proto full name, e.g. "regen.ecocredit.v1.BatchBalance"
	Module        string   `json:"module"`         // "ecocredit" | "data"
	Sub           string   `json:"sub"`            // "base" | "basket" | "marketplace" | "data"
	ID            uint32   `json:"id"`             // ORM table id within its schema file
	PrimaryKey    []string `json:"primary_key"`    // proto field names; empty for singletons
	AutoIncrement bool     `json:"auto_increment"` // primary key is an ORM auto-increment uint64
	Singleton     bool     `json:"singleton"`
	AddressFields []string `json:"address_fields"` // bytes fields holding account addresses
	BytesFields   []string `json:"bytes_fields"`   // all other bytes fields (rendered {"hex":..})
}

// addressFieldNames are the names of bytes fields that hold account addresses in the state protos.
var addressFieldNames = map[string]bool{
	"admin": true, "issuer": true, "address": true, "curator": true, "seller": true,
	"attestor": true, "manager": true,
}

type tableHandle struct {
	info     TableInfo
	table    ormtable.Table
	storeKey storetypes.StoreKey
	seqKey   []byte
	msgType  protoreflect.MessageType
}

// Tables lists every ORM table the harness snapshots, sorted by name.
func (a *App) Tables() []TableInfo { return Tables() }

// Tables lists every ORM table of the ecocredit and data module schemas, sorted by name. The list is
// derived from the proto descriptors by reflection (no App needed), so tables added to /repo later
// are picked up automatically.
func Tables() []TableInfo {
	loadTableInfos()
	out := make([]TableInfo, len(tableInfos))
	copy(out, tableInfos)
	return out
}

// TableInfoByName returns the description of one table.
func TableInfoByName(name string) (TableInfo, bool) {
	loadTableInfos()
	i, ok := tableInfoIdx[name]
	if !ok {
		return TableInfo{}, false
	}
	return tableInfos[i], true
}

var (
	tableInfos   []TableInfo
	tableInfoIdx map[string]int
)

func loadTableInfos() {
	if tableInfos != nil {
		return
	}
	var out []TableInfo
	add := func(schema *ormv1alpha1.ModuleSchemaDescriptor, mod string) {
		for _, fe := range schema.SchemaFile {
			fd, err := protoregistry.GlobalFiles.FindFileByPath(fe.ProtoFileName)
			if err != nil {
				panic(fmt.Sprintf("chain: schema file %s: %v", fe.ProtoFileName, err))
			}
			sub := "base"
			switch {
			case strings.Contains(fe.ProtoFileName, "/basket/"):
				sub = "basket"
			case strings.Contains(fe.ProtoFileName, "/marketplace/"):
				sub = "marketplace"
			case strings.Contains(fe.ProtoFileName, "/data/"):
				sub = "data"
			}
			msgs := fd.Messages()
			for i := 0; i < msgs.Len(); i++ {
				md := msgs.Get(i)
				tdesc, _ := proto.GetExtension(md.Options(), ormv1.E_Table).(*ormv1.TableDescriptor)
				sdesc, _ := proto.GetExtension(md.Options(), ormv1.E_Singleton).(*ormv1.SingletonDescriptor)
				if tdesc == nil && sdesc == nil {
					continue
				}
				info := TableInfo{Name: string(md.Name()), FullName: string(md.FullName()), Module: mod, Sub: sub}
				if tdesc != nil {
					info.ID = tdesc.Id
					for _, f := range strings.Split(tdesc.PrimaryKey.Fields, ",") {
						info.PrimaryKey = append(info.PrimaryKey, strings.TrimSpace(f))
					}
					info.AutoIncrement = tdesc.PrimaryKey.AutoIncrement
				} else {
					info.ID = sdesc.Id
					info.Singleton = true
					info.PrimaryKey = []string{}
				}
				info.AddressFields, info.BytesFields = []string{}, []string{}
				fields := md.Fields()
				for j := 0; j < fields.Len(); j++ {
					f := fields.Get(j)
					if f.Kind() == protoreflect.BytesKind {
						if addressFieldNames[string(f.Name())] {
							info.AddressFields = append(info.AddressFields, string(f.Name()))
						} else {
							info.BytesFields = append(info.BytesFields, string(f.Name()))
						}
					}
				}
				out = append(out, info)
			}
		}
	}
	add(&ecocredit.ModuleSchema, ecocredit.ModuleName)
	add(&data.ModuleSchema, data.ModuleName)
	sort.Slice(out, func(i, j int) bool { return out[i].Name < out[j].Name })
	idx := map[string]int{}
	for i, t := range out {
		if _, dup := idx[t.Name]; dup {
			panic("chain: duplicate short table name " + t.Name)
		}
		idx[t.Name] = i
	}
	tableInfos, tableInfoIdx = out, idx
}

func (a *App) tableByName(name string) *tableHandle {
	for _, t := range a.tables {
		if t.info.Name == name {
			return t
		}
	}
	return nil
}

// buildTableHandles binds every table description to a read-only ORM table over the App's stores.
func buildTableHandles(a *App) []*tableHandle {
	var out []*tableHandle
	for _, info := range Tables() {
		db, key := a.ecoDB, storetypes.StoreKey(a.keys[ecocredit.ModuleName])
		if info.Module == data.ModuleName {
			db, key = a.dataDB, a.keys[data.ModuleName]
		}
		mt, err := protoregistry.GlobalTypes.FindMessageByName(protoreflect.FullName(info.FullName))
		if err != nil {
			panic(fmt.Sprintf("chain: message type %s: %v", info.FullName, err))
		}
		tbl := db.GetTable(mt.New().Interface())
		if tbl == nil {
			panic(fmt.Sprintf("chain: no ORM table for %s", info.FullName))
		}
		h := &tableHandle{info: info, table: tbl, storeKey: key, msgType: mt}
		if info.Singleton {
			k, _, err := tbl.EncodeEntry(&ormkv.PrimaryKeyEntry{TableName: protoreflect.FullName(info.FullName), Value: mt.New().Interface()})
			if err != nil {
				panic(fmt.Sprintf("chain: singleton key of %s: %v", info.FullName, err))
			}
			if a.singletonKeys == nil {
				a.singletonKeys = map[string]*tableHandle{}
			}
			a.singletonKeys[string(k)] = h
		}
		if info.AutoIncrement {
			k, _, err := tbl.EncodeEntry(&ormkv.SeqEntry{TableName: protoreflect.FullName(info.FullName), Value: 0})
			if err != nil {
				panic(fmt.Sprintf("chain: seq key of %s: %v", info.FullName, err))
			}
			h.seqKey = k
		}
		out = append(out, h)
	}
	return out
}

// AddrRef refers to an account: by index if known, else by the hex of the raw address bytes.
type AddrRef struct {
	Addr *int   `json:"addr,omitempty"`
	Hex  string `json:"hex,omitempty"`
}

func (r AddrRef) String() string {
	if r.Addr != nil {
		return "#" + strconv.Itoa(*r.Addr)
	}
	return "0x" + r.Hex
}

func (a *App) addrRef(bz []byte) AddrRef {
	if i, ok := a.book.indexOfBytes(bz); ok {
		return AddrRef{Addr: &i}
	}
	return AddrRef{Hex: hex.EncodeToString(bz)}
}

// AccountBalance is the complete bank balance of one account (only non-zero coins).
type AccountBalance struct {
	Account AddrRef           `json:"account"`
	Coins   map[string]string `json:"coins"` // denom → integer amount string
}

// State is a complete observation of the chain's module state.
type State struct {
	// Height/TimeS/TimeN identify the block the state was read in (open block, or last block).
	Height int64 `json:"height"`
	TimeS  int64 `json:"time_s"`
	TimeN  int32 `json:"time_n"`
	// Tables maps the short table name to its rows in primary-key (ORM iteration) order.
	// Every snapshotted table is present, possibly with an empty slice.
	Tables map[string][]Row `json:"tables"`
	// Sequences holds the ORM auto-increment counter of every auto-increment table
	// (0 if nothing was ever inserted).
	Sequences map[string]uint64 `json:"sequences"`
	// Balances lists every account with a non-zero bank balance (known accounts first by index,
	// then unknown accounts by hex). Nil in table-only snapshots.
	Balances []AccountBalance `json:"balances"`
	// Supply is the bank total supply per denom (non-zero only). Nil in table-only snapshots.
	Supply map[string]string `json:"supply"`
	// DenomMetadata is the bank denom metadata (set by basket creation), proto JSON per base denom.
	DenomMetadata map[string]json.RawMessage `json:"denom_metadata,omitempty"`
	// HasBank is false for SnapshotTables results.
	HasBank bool `json:"has_bank"`

	enc map[string][]rowEnc // lazily computed canonical encodings for Diff
}

type rowEnc struct {
	pk  string
	all string
}

// UnmarshalJSON decodes a State keeping numbers as json.Number so that a decoded State is deeply
// equal to the in-memory original.
func (s *State) UnmarshalJSON(bz []byte) error {
	type plain State
	dec := json.NewDecoder(bytes.NewReader(bz))
	dec.UseNumber()
	var p plain
	if err := dec.Decode(&p); err != nil {
		return err
	}
	*s = State(p)
	for k, v := range s.DenomMetadata {
		s.DenomMetadata[k] = canonJSON(v)
	}
	return nil
}

// Snapshot reads EVERY ORM table of ecocredit (base, basket, marketplace) and data, the ORM
// auto-increment sequences, all bank balances, the bank supply and denom metadata from the working
// state (open block / pending genesis) or else the last committed state.
func (a *App) Snapshot() *State {
	ctx := a.snapCtx()
	var s *State
	if !a.rawScanOff {
		s = a.snapshotRaw(ctx)
	}
	if s == nil {
		s = a.snapshotTables(ctx, nil)
	}
	a.snapshotBank(ctx, s)
	return s
}

// SnapshotViaList is Snapshot implemented with one ORM List call per table (the reference
// implementation; ~2x slower). Snapshot itself scans each module store once and decodes entries with
// the ORM codecs; both must agree (chainprobe checks this).
func (a *App) SnapshotViaList() *State {
	ctx := a.snapCtx()
	s := a.snapshotTables(ctx, nil)
	a.snapshotBank(ctx, s)
	return s
}

// RawScanActive reports whether Snapshot uses the single-scan fast path (it switches itself off,
// permanently for this App, if a store holds a key the ORM codecs cannot decode).
func (a *App) RawScanActive() bool { return !a.rawScanOff }

// snapshotRaw reads all tables with ONE iterator per module store: every key/value pair is decoded
// with ModuleDB.DecodeEntry; primary-key entries carry the full row, sequence entries the
// auto-increment counters, index entries are skipped. Rows arrive in (table id, primary key) order,
// i.e. the same per-table order as ORM List. Returns nil if anything cannot be decoded.
func (a *App) snapshotRaw(ctx sdk.Context) *State {
	s := &State{
		Height:    a.header.Height,
		TimeS:     a.header.Time.Unix(),
		TimeN:     int32(a.header.Time.Nanosecond()),
		Tables:    map[string][]Row{},
		Sequences: map[string]uint64{},
	}
	if a.header.Time.IsZero() {
		s.TimeS, s.TimeN = 0, 0
	}
	byFull := map[protoreflect.FullName]*tableHandle{}
	for _, t := range a.tables {
		byFull[protoreflect.FullName(t.info.FullName)] = t
		s.Tables[t.info.Name] = []Row{}
		if t.info.AutoIncrement {
			s.Sequences[t.info.Name] = 0
		}
	}
	scan := func(key storetypes.StoreKey, db ormdb.ModuleDB) bool {
		it := ctx.KVStore(key).Iterator(nil, nil)
		defer it.Close()
		for ; it.Valid(); it.Next() {
			if t := a.singletonKeys[string(it.Key())]; t != nil {
				// singleton keys carry no index id and are not decodable through DecodeEntry
				m := t.msgType.New()
				if err := proto.Unmarshal(it.Value(), m.Interface()); err != nil {
					return false
				}
				s.Tables[t.info.Name] = append(s.Tables[t.info.Name], a.rowFromMessage(m))
				continue
			}
			e, err := db.DecodeEntry(it.Key(), it.Value())
			if err != nil {
				return false
			}
			switch x := e.(type) {
			case *ormkv.PrimaryKeyEntry:
				t := byFull[x.TableName]
				if t == nil || x.Value == nil {
					return false
				}
				s.Tables[t.info.Name] = append(s.Tables[t.info.Name], a.rowFromMessage(x.Value.ProtoReflect()))
			case *ormkv.SeqEntry:
				t := byFull[x.TableName]
				if t == nil {
					return false
				}
				s.Sequences[t.info.Name] = x.Value
			case *ormkv.IndexKeyEntry:
			default:
				return false
			}
		}
		return true
	}
	if !scan(a.keys[ecocredit.ModuleName], a.ecoDB) || !scan(a.keys[data.ModuleName], a.dataDB) {
		a.rawScanOff = true
		return nil
	}
	// singletons that were never written still read as their default row through the ORM
	goCtx := sdk.WrapSDKContext(ctx)
	for _, t := range a.tables {
		if t.info.Singleton && len(s.Tables[t.info.Name]) == 0 {
			s.Tables[t.info.Name] = a.listRows(goCtx, t)
		}
	}
	return s
}

func (a *App) listRows(goCtx context.Context, t *tableHandle) []Row {
	rows := []Row{}
	it, err := t.table.List(goCtx, nil)
	if err != nil {
		panic(fmt.Sprintf("chain: list %s: %v", t.info.Name, err))
	}
	defer it.Close()
	for it.Next() {
		m, err := it.GetMessage()
		if err != nil {
			panic(fmt.Sprintf("chain: read %s: %v", t.info.Name, err))
		}
		rows = append(rows, a.rowFromMessage(m.ProtoReflect()))
	}
	return rows
}

// SnapshotTables reads only the named tables (no bank data). Unknown names panic.
func (a *App) SnapshotTables(names ...string) *State {
	want := map[string]bool{}
	for _, n := range names {
		if a.tableByName(n) == nil {
			panic("chain: unknown table " + n)
		}
		want[n] = true
	}
	return a.snapshotTables(a.snapCtx(), want)
}

func (a *App) snapshotTables(ctx sdk.Context, only map[string]bool) *State {
	s := &State{
		Height:    a.header.Height,
		TimeS:     a.header.Time.Unix(),
		TimeN:     int32(a.header.Time.Nanosecond()),
		Tables:    map[string][]Row{},
		Sequences: map[string]uint64{},
	}
	if a.header.Time.IsZero() {
		s.TimeS, s.TimeN = 0, 0
	}
	goCtx := sdk.WrapSDKContext(ctx)
	for _, t := range a.tables {
		if only != nil && !only[t.info.Name] {
			continue
		}
		s.Tables[t.info.Name] = a.listRows(goCtx, t)
		if t.info.AutoIncrement {
			s.Sequences[t.info.Name] = a.readSeq(ctx, t)
		}
	}
	return s
}

func (a *App) readSeq(ctx sdk.Context, t *tableHandle) uint64 {
	v := ctx.KVStore(t.storeKey).Get(t.seqKey)
	if v == nil {
		return 0
	}
	e, err := t.table.DecodeEntry(t.seqKey, v)
	if err != nil {
		panic(fmt.Sprintf("chain: decode seq of %s: %v", t.info.Name, err))
	}
	se, ok := e.(*ormkv.SeqEntry)
	if !ok {
		panic(fmt.Sprintf("chain: seq key of %s decoded to %T", t.info.Name, e))
	}
	return se.Value
}

func (a *App) snapshotBank(ctx sdk.Context, s *State) {
	s.HasBank = true
	byAcct := map[string]*AccountBalance{}
	var order []string
	a.bk.IterateAllBalances(ctx, func(addr sdk.AccAddress, c sdk.Coin) bool {
		if c.Amount.IsZero() {
			return false
		}
		k := hex.EncodeToString(addr)
		ab := byAcct[k]
		if ab == nil {
			ab = &AccountBalance{Account: a.addrRef(addr), Coins: map[string]string{}}
			byAcct[k] = ab
			order = append(order, k)
		}
		ab.Coins[c.Denom] = c.Amount.String()
		return false
	})
	s.Balances = make([]AccountBalance, 0, len(order))
	for _, k := range order {
		s.Balances = append(s.Balances, *byAcct[k])
	}
	sort.Slice(s.Balances, func(i, j int) bool { return addrRefLess(s.Balances[i].Account, s.Balances[j].Account) })

	s.Supply = map[string]string{}
	a.bk.IterateTotalSupply(ctx, func(c sdk.Coin) bool {
		if !c.Amount.IsZero() {
			s.Supply[c.Denom] = c.Amount.String()
		}
		return false
	})
	a.bk.IterateAllDenomMetaData(ctx, func(md banktypes.Metadata) bool {
		if s.DenomMetadata == nil {
			s.DenomMetadata = map[string]json.RawMessage{}
		}
		s.DenomMetadata[md.Base] = canonJSON(a.cdc.MustMarshalJSON(&md))
		return false
	})
}

func addrRefLess(x, y AddrRef) bool {
	switch {
	case x.Addr != nil && y.Addr != nil:
		return *x.Addr < *y.Addr
	case x.Addr != nil:
		return true
	case y.Addr != nil:
		return false
	default:
		return x.Hex < y.Hex
	}
}

// ---------------------------------------------------------------------------------------------
// canonical row form

const maxSafeInt = uint64(1) << 53

func numU(v uint64) interface{} {
	if v > maxSafeInt {
		return strconv.FormatUint(v, 10)
	}
	return json.Number(strconv.FormatUint(v, 10))
}

func numI(v int64) interface{} {
	if v > int64(maxSafeInt) || v < -int64(maxSafeInt) {
		return strconv.FormatInt(v, 10)
	}
	return json.Number(strconv.FormatInt(v, 10))
}

// rowFromMessage converts a protobuf (v2 API) message into the canonical row form.
func (a *App) rowFromMessage(m protoreflect.Message) Row {
	return Row(a.msgToMap(m, true))
}

func (a *App) msgToMap(m protoreflect.Message, top bool) map[string]interface{} {
	out := map[string]interface{}{}
	fields := m.Descriptor().Fields()
	for i := 0; i < fields.Len(); i++ {
		f := fields.Get(i)
		name := string(f.Name())
		if f.ContainingOneof() != nil && !m.Has(f) {
			continue // only the populated member of a oneof is emitted
		}
		switch {
		case f.IsList():
			l := m.Get(f).List()
			arr := make([]interface{}, 0, l.Len())
			for j := 0; j < l.Len(); j++ {
				arr = append(arr, a.valueToJSON(f, l.Get(j)))
			}
			out[name] = arr
		case f.IsMap():
			mm := map[string]interface{}{}
			m.Get(f).Map().Range(func(k protoreflect.MapKey, v protoreflect.Value) bool {
				mm[k.String()] = a.valueToJSON(f.MapValue(), v)
				return true
			})
			out[name] = mm
		case f.Kind() == protoreflect.MessageKind || f.Kind() == protoreflect.GroupKind:
			if !m.Has(f) {
				out[name] = nil
			} else {
				out[name] = a.valueToJSON(f, m.Get(f))
			}
		default:
			out[name] = a.valueToJSON(f, m.Get(f))
		}
	}
	return out
}

func (a *App) valueToJSON(f protoreflect.FieldDescriptor, v protoreflect.Value) interface{} {
	switch f.Kind() {
	case protoreflect.BoolKind:
		return v.Bool()
	case protoreflect.StringKind:
		return v.String()
	case protoreflect.BytesKind:
		bz := v.Bytes()
		if addressFieldNames[string(f.Name())] {
			if len(bz) == 0 {
				return nil
			}
			if i, ok := a.book.indexOfBytes(bz); ok {
				return map[string]interface{}{"addr": json.Number(strconv.Itoa(i))}
			}
		}
		return map[string]interface{}{"hex": hex.EncodeToString(bz)}
	case protoreflect.EnumKind:
		ev := f.Enum().Values().ByNumber(v.Enum())
		if ev == nil {
			return numI(int64(v.Enum()))
		}
		return string(ev.Name())
	case protoreflect.Int32Kind, protoreflect.Sint32Kind, protoreflect.Sfixed32Kind,
		protoreflect.Int64Kind, protoreflect.Sint64Kind, protoreflect.Sfixed64Kind:
		return numI(v.Int())
	case protoreflect.Uint32Kind, protoreflect.Fixed32Kind, protoreflect.Uint64Kind, protoreflect.Fixed64Kind:
		return numU(v.Uint())
	case protoreflect.FloatKind, protoreflect.DoubleKind:
		return json.Number(strconv.FormatFloat(v.Float(), 'g', -1, 64))
	case protoreflect.MessageKind, protoreflect.GroupKind:
		sub := v.Message()
		switch sub.Descriptor().FullName() {
		case "google.protobuf.Timestamp", "google.protobuf.Duration":
			fs := sub.Descriptor().Fields()
			return map[string]interface{}{
				"s": numI(sub.Get(fs.ByName("seconds")).Int()),
				"n": numI(sub.Get(fs.ByName("nanos")).Int()),
			}
		}
		return a.msgToMap(sub, false)
	}
	return nil
}

// pkOf returns the primary-key projection of a row.
func pkOf(info TableInfo, r Row) Row {
	pk := Row{}
	for _, f := range info.PrimaryKey {
		pk[f] = r[f]
	}
	return pk
}

func mustJSON(v interface{}) string {
	bz, err := marshalNoEscape(v)
	if err != nil {
		panic(err)
	}
	return string(bz)
}

func (s *State) encodings() map[string][]rowEnc {
	if s.enc != nil {
		return s.enc
	}
	s.enc = map[string][]rowEnc{}
	for name, rows := range s.Tables {
		info, ok := TableInfoByName(name)
		if !ok {
			continue
		}
		encs := make([]rowEnc, len(rows))
		for i, r := range rows {
			encs[i] = rowEnc{pk: mustJSON(pkOf(info, r)), all: mustJSON(r)}
		}
		s.enc[name] = encs
	}
	return s.enc
}

// ---------------------------------------------------------------------------------------------
// diff

// TableDiff lists the rows written (inserted or updated; the full new row) and the primary keys of
// the rows deleted between two states.
type TableDiff struct {
	Puts    []Row `json:"puts,omitempty"`
	Deletes []Row `json:"deletes,omitempty"` // primary-key projections
}

// BalanceChange is a changed (account, denom) bank balance; absent balances read "0".
type BalanceChange struct {
	Account AddrRef `json:"account"`
	Denom   string  `json:"denom"`
	Old     string  `json:"old"`
	New     string  `json:"new"`
}

// SupplyChange is a changed bank supply.
type SupplyChange struct {
	Denom string `json:"denom"`
	Old   string `json:"old"`
	New   string `json:"new"`
}

// SeqChange is a changed ORM auto-increment counter.
type SeqChange struct {
	Table string `json:"table"`
	Old   uint64 `json:"old"`
	New   uint64 `json:"new"`
}

// StateDiff is the difference between two States. Only tables present in BOTH states are compared
// (relevant for SnapshotTables); bank data only if both have it.
type StateDiff struct {
	Tables        map[string]*TableDiff `json:"tables,omitempty"` // changed tables only
	Sequences     []SeqChange           `json:"sequences,omitempty"`
	Balances      []BalanceChange       `json:"balances,omitempty"`
	Supply        []SupplyChange        `json:"supply,omitempty"`
	DenomMetadata []string              `json:"denom_metadata,omitempty"` // base denoms whose metadata changed
}

// Empty reports whether nothing changed.
func (d *StateDiff) Empty() bool {
	return d == nil || (len(d.Tables) == 0 && len(d.Sequences) == 0 && len(d.Balances) == 0 && len(d.Supply) == 0 && len(d.DenomMetadata) == 0)
}

// Diff computes cur - prev. It needs no App: primary keys come from the proto descriptors.
func Diff(prev, cur *State) *StateDiff {
	d := &StateDiff{}
	pe, ce := prev.encodings(), cur.encodings()
	names := make([]string, 0, len(cur.Tables))
	for n := range cur.Tables {
		if _, ok := prev.Tables[n]; ok {
			names = append(names, n)
		}
	}
	sort.Strings(names)
	for _, n := range names {
		info, ok := TableInfoByName(n)
		if !ok {
			continue
		}
		pRows, cRows := prev.Tables[n], cur.Tables[n]
		pEnc, cEnc := pe[n], ce[n]
		old := make(map[string]string, len(pEnc))
		for _, e := range pEnc {
			old[e.pk] = e.all
		}
		now := make(map[string]bool, len(cEnc))
		var td TableDiff
		for i, e := range cEnc {
			now[e.pk] = true
			if o, ok := old[e.pk]; !ok || o != e.all {
				td.Puts = append(td.Puts, cRows[i])
			}
		}
		for i, e := range pEnc {
			if !now[e.pk] {
				td.Deletes = append(td.Deletes, pkOf(info, pRows[i]))
			}
		}
		if len(td.Puts) > 0 || len(td.Deletes) > 0 {
			if d.Tables == nil {
				d.Tables = map[string]*TableDiff{}
			}
			d.Tables[n] = &td
		}
		if info.AutoIncrement && prev.Sequences[n] != cur.Sequences[n] {
			d.Sequences = append(d.Sequences, SeqChange{Table: n, Old: prev.Sequences[n], New: cur.Sequences[n]})
		}
	}
	if prev.HasBank && cur.HasBank {
		type key struct{ acct, denom string }
		ref := map[string]AddrRef{}
		oldB := map[key]string{}
		for _, b := range prev.Balances {
			ref[b.Account.String()] = b.Account
			for dn, amt := range b.Coins {
				oldB[key{b.Account.String(), dn}] = amt
			}
		}
		newB := map[key]string{}
		for _, b := range cur.Balances {
			ref[b.Account.String()] = b.Account
			for dn, amt := range b.Coins {
				newB[key{b.Account.String(), dn}] = amt
			}
		}
		keys := map[key]bool{}
		for k := range oldB {
			keys[k] = true
		}
		for k := range newB {
			keys[k] = true
		}
		for k := range keys {
			o, n := oldB[k], newB[k]
			if o == "" {
				o = "0"
			}
			if n == "" {
				n = "0"
			}
			if o != n {
				d.Balances = append(d.Balances, BalanceChange{Account: ref[k.acct], Denom: k.denom, Old: o, New: n})
			}
		}
		sort.Slice(d.Balances, func(i, j int) bool {
			x, y := d.Balances[i], d.Balances[j]
			if x.Account.String() != y.Account.String() {
				return addrRefLess(x.Account, y.Account)
			}
			return x.Denom < y.Denom
		})
		denoms := map[string]bool{}
		for dn := range prev.Supply {
			denoms[dn] = true
		}
		for dn := range cur.Supply {
			denoms[dn] = true
		}
		for dn := range denoms {
			o, n := prev.Supply[dn], cur.Supply[dn]
			if o == "" {
				o = "0"
			}
			if n == "" {
				n = "0"
			}
			if o != n {
				d.Supply = append(d.Supply, SupplyChange{Denom: dn, Old: o, New: n})
			}
		}
		sort.Slice(d.Supply, func(i, j int) bool { return d.Supply[i].Denom < d.Supply[j].Denom })
		mds := map[string]bool{}
		for dn := range prev.DenomMetadata {
			mds[dn] = true
		}
		for dn := range cur.DenomMetadata {
			mds[dn] = true
		}
		for dn := range mds {
			if !bytes.Equal(prev.DenomMetadata[dn], cur.DenomMetadata[dn]) {
				d.DenomMetadata = append(d.DenomMetadata, dn)
			}
		}
		sort.Strings(d.DenomMetadata)
	}
	return d
}

// Diff is a convenience method form of the package-level Diff.
func (a *App) Diff(prev, cur *State) *StateDiff { return Diff(prev, cur) }

// StatesEqual reports whether two states are identical (same tables, rows, sequences, bank data).
func StatesEqual(x, y *State) bool {
	if len(x.Tables) != len(y.Tables) || x.HasBank != y.HasBank {
		return false
	}
	for n := range x.Tables {
		if _, ok := y.Tables[n]; !ok {
			return false
		}
	}
	return Diff(x, y).Empty()
}

// Balance returns the amount string of (account index, denom) in a state ("0" if absent).
func (s *State) Balance(idx int, denom string) string {
	for _, b := range s.Balances {
		if b.Account.Addr != nil && *b.Account.Addr == idx {
			if v, ok := b.Coins[denom]; ok {
				return v
			}
			return "0"
		}
	}
	return "0"
}
