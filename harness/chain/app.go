package chain

import (
	"encoding/hex"
	"encoding/json"
	"fmt"
	"sort"
	"strings"
	"time"

	dbm "github.com/cometbft/cometbft-db"
	abci "github.com/cometbft/cometbft/abci/types"
	"github.com/cometbft/cometbft/libs/log"
	tmproto "github.com/cometbft/cometbft/proto/tendermint/types"

	"github.com/cosmos/cosmos-sdk/baseapp"
	"github.com/cosmos/cosmos-sdk/client"
	"github.com/cosmos/cosmos-sdk/codec"
	codectypes "github.com/cosmos/cosmos-sdk/codec/types"
	"github.com/cosmos/cosmos-sdk/orm/model/ormdb"
	storetypes "github.com/cosmos/cosmos-sdk/store/types"
	sdk "github.com/cosmos/cosmos-sdk/types"
	sdkerrors "github.com/cosmos/cosmos-sdk/types/errors"
	"github.com/cosmos/cosmos-sdk/types/module"
	authkeeper "github.com/cosmos/cosmos-sdk/x/auth/keeper"
	authtx "github.com/cosmos/cosmos-sdk/x/auth/tx"
	authtypes "github.com/cosmos/cosmos-sdk/x/auth/types"
	bankkeeper "github.com/cosmos/cosmos-sdk/x/bank/keeper"
	banktypes "github.com/cosmos/cosmos-sdk/x/bank/types"
	paramstypes "github.com/cosmos/cosmos-sdk/x/params/types"
	gogoproto "github.com/cosmos/gogoproto/proto"

	"github.com/regen-network/regen-ledger/types/v2/ormstore"
	data "github.com/regen-network/regen-ledger/x/data/v3"
	datamodule "github.com/regen-network/regen-ledger/x/data/v3/module"
	ecocredit "github.com/regen-network/regen-ledger/x/ecocredit/v3"
	ecocreditmodule "github.com/regen-network/regen-ledger/x/ecocredit/v3/module"
)

// Hasher kinds for Options.HasherKind.
const (
	HasherProd  = "prod"  // the production BLAKE2b-64 based hasher (hasher.NewHasher)
	HasherWeak4 = "weak4" // real CreateID logic over a hash with only 4 distinct outputs
	HasherConst = "const" // real CreateID logic over a constant hash (every IRI collides)
)

// Genesis module keys (the keys of Options.Genesis and of App.GenesisJSON()).
const (
	GenAuth      = "auth"
	GenBank      = "bank"
	GenEcocredit = "ecocredit"
	GenData      = "data"
)

// genesisOrder is the order in which InitChain initialises modules.
var genesisOrder = []string{GenAuth, GenBank, GenEcocredit, GenData}

// Options configures a mini chain. The zero value is valid (see the defaults on each field).
// Options is JSON-serialisable except for DB and Patch; a Trace stores the *effective* genesis so
// that replays do not need Patch.
type Options struct {
	// DB is the backing database; nil → a fresh dbm.MemDB. Passing a DB that already holds a chain
	// attaches to it (same effect as Restart).
	DB dbm.DB `json:"-"`
	// HasherKind selects the x/data ID hasher: "prod" (default), "weak4" or "const". The weak kinds
	// need the /repo hook (see hooks/); without it New panics with an explanatory message.
	HasherKind string `json:"hasher_kind"`
	// GenesisTime is the InitChain time; zero → 2024-01-01T00:00:00Z.
	GenesisTime time.Time `json:"genesis_time"`
	// NumAccounts is the number of funded user accounts (default 6, max 100).
	NumAccounts int `json:"num_accounts"`
	// FundingDenoms / FundingAmount: every user account starts with FundingAmount of each denom.
	// Defaults: ["stake","uatom","uregen"], "1000000000000" (10^12).
	FundingDenoms []string `json:"funding_denoms"`
	FundingAmount string   `json:"funding_amount"`
	// Genesis holds optional raw genesis JSON per module ("auth","bank","ecocredit","data") replacing
	// the default genesis of that module wholesale.
	Genesis map[string]json.RawMessage `json:"genesis,omitempty"`
	// Patch, if set, may edit the complete effective genesis (after defaults and overrides).
	Patch func(gen map[string]json.RawMessage) `json:"-"`
	// GasLimit is the per-tx gas limit installed by the harness ante handler; 0 → infinite gas meter
	// (GasWanted is then reported as 0). Gas is metered per tx either way.
	GasLimit uint64 `json:"gas_limit"`
}

func (o Options) withDefaults() Options {
	if o.HasherKind == "" {
		o.HasherKind = HasherProd
	}
	if o.GenesisTime.IsZero() {
		o.GenesisTime = time.Date(2024, 1, 1, 0, 0, 0, 0, time.UTC)
	}
	o.GenesisTime = o.GenesisTime.UTC()
	if o.NumAccounts == 0 {
		o.NumAccounts = 6
	}
	if o.NumAccounts < 0 || o.NumAccounts > MaxUserAccounts {
		panic(fmt.Sprintf("chain: NumAccounts %d out of range 1..%d", o.NumAccounts, MaxUserAccounts))
	}
	if o.FundingDenoms == nil {
		o.FundingDenoms = []string{"stake", "uatom", "uregen"}
	}
	d := append([]string(nil), o.FundingDenoms...)
	sort.Strings(d)
	o.FundingDenoms = d
	if o.FundingAmount == "" {
		o.FundingAmount = "1000000000000"
	}
	return o
}

// genesisModule is the part of an AppModule the harness needs for genesis handling. Both methods
// panic on error, exactly like the real modules do.
type genesisModule interface {
	InitGenesis(sdk.Context, codec.JSONCodec, json.RawMessage) []abci.ValidatorUpdate
	ExportGenesis(sdk.Context, codec.JSONCodec) json.RawMessage
}

// App is one mini chain: a real baseapp with the real auth, bank, ecocredit and data keepers.
// It is not safe for concurrent use.
type App struct {
	opts Options
	db   dbm.DB
	book *accountBook

	// --- objects rebuilt by build() (and therefore by Restart) ---
	bapp          *baseapp.BaseApp
	ir            codectypes.InterfaceRegistry
	cdc           *codec.ProtoCodec
	txCfg         client.TxConfig
	keys          map[string]*storetypes.KVStoreKey
	ak            authkeeper.AccountKeeper
	bk            bankkeeper.BaseKeeper
	eco           *ecocreditmodule.Module
	dataMod       *datamodule.Module
	dataGen       genesisModule
	ecoDB         ormdb.ModuleDB
	dataDB        ormdb.ModuleDB
	tables        []*tableHandle
	singletonKeys map[string]*tableHandle // raw store key → singleton table
	invs          []invariantRoute

	// --- chain progress (survives Restart) ---
	genesis    map[string]json.RawMessage // effective genesis (set by InitChain / New)
	inited     bool                       // InitChain done or attached to an existing chain
	hasWorking bool                       // baseapp holds a deliver state (pending genesis or open block)
	blockOpen  bool                       // BeginBlock called and not yet committed
	header     tmproto.Header             // header of the open (or last) block
	lastBegin  beginOutcome
	rawScanOff bool // Snapshot fast path disabled (undecodable key seen)
}

type beginOutcome struct {
	ran   bool
	err   string
	panic string
	stack []string
}

// New creates a mini chain. It does not call InitChain (unless opts.DB already holds a chain, in
// which case the App attaches to the committed state).
func New(opts Options) *App {
	opts = opts.withDefaults()
	a := &App{opts: opts, db: opts.DB}
	if a.db == nil {
		a.db = dbm.NewMemDB()
	}
	a.book = newAccountBook(opts.NumAccounts)
	a.build()
	if a.bapp.LastBlockHeight() > 0 {
		a.inited = true
		a.header = tmproto.Header{ChainID: ChainID, Height: a.bapp.LastBlockHeight(), Time: opts.GenesisTime}
	}
	return a
}

// Options returns the (defaulted) options the App was created with.
func (a *App) Options() Options { return a.opts }

// Codec returns the proto codec (interface registry holds auth, bank, ecocredit and data types).
func (a *App) Codec() *codec.ProtoCodec { return a.cdc }

// BaseApp exposes the underlying baseapp for advanced uses (treat as read-only).
func (a *App) BaseApp() *baseapp.BaseApp { return a.bapp }

// BankKeeper / AccountKeeper / EcocreditModule expose the real keepers (for monitors that need direct reads).
func (a *App) BankKeeper() bankkeeper.BaseKeeper        { return a.bk }
func (a *App) AccountKeeper() authkeeper.AccountKeeper  { return a.ak }
func (a *App) EcocreditModule() *ecocreditmodule.Module { return a.eco }

// Height is the height of the open block, or of the last committed block if none is open.
func (a *App) Height() int64 { return a.header.Height }

// BlockTime is the time of the open (or last) block.
func (a *App) BlockTime() time.Time { return a.header.Time }

// BlockOpen reports whether BeginBlock has been called without a matching EndBlockCommit.
func (a *App) BlockOpen() bool { return a.blockOpen }

// build constructs every runtime object over a.db. Called by New and Restart.
func (a *App) build() {
	ir := codectypes.NewInterfaceRegistry()
	cdc := codec.NewProtoCodec(ir)
	txCfg := authtx.NewTxConfig(cdc, authtx.DefaultSignModes)
	bapp := baseapp.NewBaseApp("verif-minichain", log.NewNopLogger(), a.db, txCfg.TxDecoder(), baseapp.SetChainID(ChainID))
	bapp.SetInterfaceRegistry(ir)

	authtypes.RegisterInterfaces(ir)
	banktypes.RegisterInterfaces(ir)

	keys := sdk.NewKVStoreKeys(authtypes.StoreKey, banktypes.StoreKey, paramstypes.StoreKey, ecocredit.ModuleName, data.ModuleName)
	tkey := sdk.NewTransientStoreKey(paramstypes.TStoreKey)
	names := make([]string, 0, len(keys))
	for n := range keys {
		names = append(names, n)
	}
	sort.Strings(names)
	for _, n := range names {
		bapp.MountStore(keys[n], storetypes.StoreTypeIAVL)
	}
	bapp.MountStore(tkey, storetypes.StoreTypeTransient)

	govAddr := authtypes.NewModuleAddress("gov")
	ak := authkeeper.NewAccountKeeper(cdc, keys[authtypes.StoreKey], authtypes.ProtoBaseAccount, maccPerms(), Bech32Prefix, govAddr.String())
	bk := bankkeeper.NewBaseKeeper(cdc, keys[banktypes.StoreKey], ak, blockedAddrs(), govAddr.String())

	amino := codec.NewLegacyAmino()
	ecoSubspace := paramstypes.NewSubspace(cdc, amino, keys[paramstypes.StoreKey], tkey, ecocredit.ModuleName)
	eco := ecocreditmodule.NewModule(keys[ecocredit.ModuleName], govAddr, ak, bk, ecoSubspace, nil)
	eco.RegisterInterfaces(ir)

	dataMod := datamodule.NewModule(keys[data.ModuleName], ak, bk)
	dataMod.RegisterInterfaces(ir)

	cfg := module.NewConfigurator(cdc, bapp.MsgServiceRouter(), bapp.GRPCQueryRouter())
	eco.RegisterServices(cfg)
	var dataGen genesisModule
	if a.opts.HasherKind == HasherProd {
		dataMod.RegisterServices(cfg)
		dataGen = dataMod
	} else {
		h, err := newWeakHasher(a.opts.HasherKind)
		if err != nil {
			panic(err)
		}
		dataGen, err = registerDataServerWithHasher(cfg, keys[data.ModuleName], ak, bk, h)
		if err != nil {
			panic(err)
		}
	}
	banktypes.RegisterMsgServer(bapp.MsgServiceRouter(), bankkeeper.NewMsgServerImpl(bk))
	banktypes.RegisterQueryServer(bapp.GRPCQueryRouter(), bk)

	a.bapp, a.ir, a.cdc, a.txCfg = bapp, ir, cdc, txCfg
	a.keys, a.ak, a.bk, a.eco, a.dataMod, a.dataGen = keys, ak, bk, eco, dataMod, dataGen

	bapp.SetInitChainer(a.initChainer)
	bapp.SetBeginBlocker(a.beginBlocker)
	bapp.SetAnteHandler(a.anteHandler)

	// read-only ORM handles over the same stores (exactly how the servers build theirs)
	var err error
	a.ecoDB, err = ormstore.NewStoreKeyDB(&ecocredit.ModuleSchema, keys[ecocredit.ModuleName], ormdb.ModuleDBOptions{})
	if err != nil {
		panic(err)
	}
	a.dataDB, err = ormstore.NewStoreKeyDB(&data.ModuleSchema, keys[data.ModuleName], ormdb.ModuleDBOptions{})
	if err != nil {
		panic(err)
	}
	a.singletonKeys = nil
	a.tables = buildTableHandles(a)

	a.invs = nil
	reg := &invariantRegistry{}
	eco.RegisterInvariants(reg)
	dataMod.RegisterInvariants(reg)
	a.invs = reg.routes

	if err := bapp.LoadLatestVersion(); err != nil {
		panic(err)
	}
}

// anteHandler only installs a fresh per-tx gas meter (no signature, fee or sequence checks).
func (a *App) anteHandler(ctx sdk.Context, _ sdk.Tx, _ bool) (sdk.Context, error) {
	if a.opts.GasLimit > 0 {
		return ctx.WithGasMeter(sdk.NewGasMeter(a.opts.GasLimit)), nil
	}
	return ctx.WithGasMeter(sdk.NewInfiniteGasMeter()), nil
}

// beginBlocker runs the ecocredit BeginBlocker under recover and records its outcome; the real
// module panics on a BeginBlocker error (chain halt) - the harness records it and carries on.
func (a *App) beginBlocker(ctx sdk.Context, _ abci.RequestBeginBlock) (res abci.ResponseBeginBlock) {
	a.lastBegin = beginOutcome{ran: true}
	defer func() {
		if r := recover(); r != nil {
			a.lastBegin.panic = fmt.Sprint(r)
			a.lastBegin.stack = captureStack()
		}
		res = abci.ResponseBeginBlock{Events: ctx.EventManager().ABCIEvents()}
	}()
	if err := ecocreditmodule.BeginBlocker(ctx, a.eco.Keeper); err != nil {
		a.lastBegin.err = err.Error()
	}
	return
}

// initChainer initialises auth, bank, ecocredit and data from the app state bytes.
func (a *App) initChainer(ctx sdk.Context, req abci.RequestInitChain) abci.ResponseInitChain {
	var gen map[string]json.RawMessage
	if err := json.Unmarshal(req.AppStateBytes, &gen); err != nil {
		panic(err)
	}
	a.initGenesisInto(ctx, gen)
	return abci.ResponseInitChain{}
}

func (a *App) initGenesisInto(ctx sdk.Context, gen map[string]json.RawMessage) {
	var authGen authtypes.GenesisState
	a.cdc.MustUnmarshalJSON(gen[GenAuth], &authGen)
	a.ak.InitGenesis(ctx, authGen)
	var bankGen banktypes.GenesisState
	a.cdc.MustUnmarshalJSON(gen[GenBank], &bankGen)
	a.bk.InitGenesis(ctx, &bankGen)
	a.eco.InitGenesis(ctx, a.cdc, gen[GenEcocredit])
	a.dataGen.InitGenesis(ctx, a.cdc, gen[GenData])
}

// DefaultGenesis returns the genesis the App would use without Options.Genesis / Options.Patch:
// auth = default params + one BaseAccount per user; bank = default params + funding balances;
// ecocredit and data = the modules' DefaultGenesis.
func (a *App) DefaultGenesis() map[string]json.RawMessage {
	gen := map[string]json.RawMessage{}

	var accs authtypes.GenesisAccounts
	for i := 0; i < a.opts.NumAccounts; i++ {
		accs = append(accs, authtypes.NewBaseAccount(a.book.addrs[i], nil, uint64(i), 0))
	}
	gen[GenAuth] = a.cdc.MustMarshalJSON(authtypes.NewGenesisState(authtypes.DefaultParams(), accs))

	amt, ok := sdk.NewIntFromString(a.opts.FundingAmount)
	if !ok {
		panic(fmt.Sprintf("chain: bad FundingAmount %q", a.opts.FundingAmount))
	}
	var bals []banktypes.Balance
	for i := 0; i < a.opts.NumAccounts; i++ {
		coins := sdk.Coins{}
		for _, d := range a.opts.FundingDenoms {
			coins = coins.Add(sdk.NewCoin(d, amt))
		}
		bals = append(bals, banktypes.Balance{Address: a.book.addrs[i].String(), Coins: coins})
	}
	bankGen := banktypes.NewGenesisState(banktypes.DefaultParams(), bals, nil, nil, nil)
	gen[GenBank] = a.cdc.MustMarshalJSON(bankGen)

	gen[GenEcocredit] = a.eco.DefaultGenesis(a.cdc)
	gen[GenData] = a.dataMod.DefaultGenesis(a.cdc)
	return gen
}

// GenesisJSON returns the effective genesis used by InitChain (nil before InitChain).
func (a *App) GenesisJSON() map[string]json.RawMessage { return a.genesis }

// InitChain builds the effective genesis (defaults, Options.Genesis overrides, Options.Patch) and
// runs the real baseapp InitChain with an InitChainer that calls the real InitGenesis of auth,
// bank, ecocredit and data (in that order). The genesis writes stay in the deliver state and are
// committed with block 1. Panics of any InitGenesis are recovered and reported in the result.
func (a *App) InitChain() StepResult {
	res := StepResult{Kind: KindInit}
	if a.inited {
		res.Err = "chain already initialised"
		return res
	}
	gen := a.DefaultGenesis()
	for _, k := range genesisOrder {
		if raw, ok := a.opts.Genesis[k]; ok && len(raw) > 0 {
			gen[k] = append(json.RawMessage(nil), raw...)
		}
	}
	if a.opts.Patch != nil {
		a.opts.Patch(gen)
	}
	a.genesis = gen
	bz, err := json.Marshal(gen)
	if err != nil {
		res.Err = err.Error()
		return res
	}
	a.header = tmproto.Header{ChainID: ChainID, Height: 0, Time: a.opts.GenesisTime}
	func() {
		defer func() {
			if r := recover(); r != nil {
				res.Panicked = true
				res.PanicValue = fmt.Sprint(r)
				res.PanicStack = captureStack()
			}
		}()
		a.bapp.InitChain(abci.RequestInitChain{ChainId: ChainID, Time: a.opts.GenesisTime, AppStateBytes: bz})
	}()
	// even after a panic the deliver state exists (set before the InitChainer runs)
	a.inited = true
	a.hasWorking = true
	res.OK = !res.Panicked
	return res
}

// BeginBlock starts block `height` (0 → next height) at time t. It runs the real baseapp BeginBlock,
// whose begin blocker is the ecocredit BeginBlocker (order expiry). A BeginBlocker error is reported
// in Err, a panic in Panicked/PanicValue; both would halt a real chain. OK is true iff neither happened.
func (a *App) BeginBlock(height int64, t time.Time) StepResult {
	res := StepResult{Kind: KindBegin}
	if !a.inited {
		res.Err = "harness: BeginBlock before InitChain"
		return res
	}
	if a.blockOpen {
		res.Err = "harness: BeginBlock while a block is open"
		return res
	}
	want := a.bapp.LastBlockHeight() + 1
	if height == 0 {
		height = want
	}
	res.Height = height
	if height != want {
		res.Err = fmt.Sprintf("harness: invalid height %d, expected %d", height, want)
		return res
	}
	hdr := tmproto.Header{ChainID: ChainID, Height: height, Time: t.UTC()}
	var resp abci.ResponseBeginBlock
	a.lastBegin = beginOutcome{}
	func() {
		defer func() {
			if r := recover(); r != nil {
				// a panic outside the begin blocker (baseapp itself)
				a.lastBegin.panic = fmt.Sprint(r)
				a.lastBegin.stack = captureStack()
			}
		}()
		resp = a.bapp.BeginBlock(abci.RequestBeginBlock{Header: hdr})
	}()
	a.header = hdr
	a.hasWorking = true
	a.blockOpen = true
	res.Events = convertEvents(resp.Events)
	if a.lastBegin.panic != "" {
		res.Panicked = true
		res.PanicValue = a.lastBegin.panic
		res.PanicStack = a.lastBegin.stack
	}
	if a.lastBegin.err != "" {
		res.Err = a.lastBegin.err
	}
	res.OK = !res.Panicked && res.Err == ""
	return res
}

// Deliver wraps msg in a transaction (no signatures, no fee) and runs the real baseapp DeliverTx:
// ValidateBasic, the harness ante handler (gas meter only), the cache-wrapped message handler.
func (a *App) Deliver(msg sdk.Msg) StepResult { return a.DeliverMulti([]sdk.Msg{msg}) }

// DeliverMulti delivers several messages in ONE transaction (all-or-nothing).
func (a *App) DeliverMulti(msgs []sdk.Msg) StepResult {
	res := StepResult{Kind: KindMsg, Height: a.header.Height}
	if !a.blockOpen {
		res.Err = "harness: Deliver without an open block"
		return res
	}
	b := a.txCfg.NewTxBuilder()
	if err := b.SetMsgs(msgs...); err != nil {
		res.Err = "harness: SetMsgs: " + err.Error()
		return res
	}
	bz, err := a.txCfg.TxEncoder()(b.GetTx())
	if err != nil {
		res.Err = "harness: encode tx: " + err.Error()
		return res
	}
	return a.DeliverRaw(bz)
}

// DeliverRaw delivers already-encoded transaction bytes.
func (a *App) DeliverRaw(txBytes []byte) StepResult {
	res := StepResult{Kind: KindMsg, Height: a.header.Height}
	if !a.blockOpen {
		res.Err = "harness: Deliver without an open block"
		return res
	}
	var resp abci.ResponseDeliverTx
	func() {
		defer func() {
			// baseapp recovers handler panics itself; this only catches panics escaping baseapp
			if r := recover(); r != nil {
				res.Panicked = true
				res.PanicValue = "escaped baseapp: " + fmt.Sprint(r)
				res.PanicStack = captureStack()
			}
		}()
		resp = a.bapp.DeliverTx(abci.RequestDeliverTx{Tx: txBytes})
	}()
	if res.Panicked {
		return res
	}
	res.Code = resp.Code
	res.Codespace = resp.Codespace
	res.GasUsed = resp.GasUsed
	res.GasWanted = resp.GasWanted
	if a.opts.GasLimit == 0 {
		res.GasWanted = 0
	}
	res.Events = convertEvents(resp.Events)
	res.OK = resp.Code == 0
	if resp.Code != 0 {
		// (the log of a successful tx only repeats the events as JSON and is dropped)
		res.Log = resp.Log
		if isPanicResponse(resp) {
			res.Panicked = true
			res.Log, res.PanicValue, res.PanicStack = splitPanicLog(resp.Log)
		}
		return res
	}
	responses, err := a.decodeTxMsgData(resp.Data)
	if err != nil {
		res.Err = "harness: decode TxMsgData: " + err.Error()
	}
	res.Responses = responses
	return res
}

// isPanicResponse recognises baseapp's conversion of a recovered handler panic: ErrPanic
// (codespace "undefined", code 111222) with log "recovered: <value>\nstack:\n...".
func isPanicResponse(resp abci.ResponseDeliverTx) bool {
	if resp.Codespace == sdkerrors.ErrPanic.Codespace() && resp.Code == sdkerrors.ErrPanic.ABCICode() {
		return true
	}
	return strings.HasPrefix(resp.Log, "recovered: ") && strings.Contains(resp.Log, "\nstack:\n")
}

func (a *App) decodeTxMsgData(bz []byte) ([]TypedJSON, error) {
	if len(bz) == 0 {
		return nil, nil
	}
	var tmd sdk.TxMsgData
	if err := gogoproto.Unmarshal(bz, &tmd); err != nil {
		return nil, err
	}
	var out []TypedJSON
	for _, any := range tmd.MsgResponses {
		m, err := a.ir.Resolve(any.TypeUrl)
		if err != nil {
			return out, err
		}
		if err := gogoproto.Unmarshal(any.Value, m); err != nil {
			return out, err
		}
		js, err := a.cdc.MarshalJSON(m)
		if err != nil {
			return out, err
		}
		out = append(out, TypedJSON{TypeURL: any.TypeUrl, JSON: canonJSON(js)})
	}
	return out, nil
}

// EndBlockCommit runs EndBlock and Commit and returns the new app hash. It panics if no block is open
// (harness misuse).
func (a *App) EndBlockCommit() []byte {
	if !a.blockOpen {
		panic("chain: EndBlockCommit without an open block")
	}
	a.bapp.EndBlock(abci.RequestEndBlock{Height: a.header.Height})
	resp := a.bapp.Commit()
	a.blockOpen = false
	a.hasWorking = false
	return resp.Data
}

// AppHash returns the hash of the last commit (nil before the first commit).
func (a *App) AppHash() []byte { return a.bapp.LastCommitID().Hash }

// Restart tears down every object (baseapp, codec, keepers, modules, ORM handles) and rebuilds them
// over the same DB, like a node restart. Uncommitted work (an open block, or a pending genesis) is
// lost. The result carries the app hash before and after, which must be equal.
func (a *App) Restart() StepResult {
	res := StepResult{Kind: KindRestart}
	before := a.AppHash()
	lostOpen := a.blockOpen || a.hasWorking
	a.build()
	a.blockOpen = false
	a.hasWorking = false
	if a.bapp.LastBlockHeight() == 0 {
		// nothing was ever committed: the genesis is lost as well
		a.inited = false
		a.header = tmproto.Header{}
	} else {
		a.header.Height = a.bapp.LastBlockHeight()
	}
	res.Height = a.bapp.LastBlockHeight()
	res.AppHash = hex.EncodeToString(a.AppHash())
	res.OK = hex.EncodeToString(before) == res.AppHash
	if !res.OK {
		res.Err = fmt.Sprintf("harness: app hash changed across restart: %x -> %s", before, res.AppHash)
	}
	if lostOpen {
		res.Log = "uncommitted working state discarded"
	}
	return res
}

// Fund mints coins into the "mint" module account and sends them to account index idx. It writes to
// the working state, so it needs a pending genesis or an open block. Supply grows accordingly.
func (a *App) Fund(idx int, coins sdk.Coins) error {
	if !a.hasWorking {
		return fmt.Errorf("harness: Fund needs an open block (or a pending genesis)")
	}
	ctx := a.bapp.NewContext(false, a.header)
	if err := a.bk.MintCoins(ctx, "mint", coins); err != nil {
		return err
	}
	return a.bk.SendCoinsFromModuleToAccount(ctx, "mint", a.AccAddr(idx), coins)
}

// readCtx returns a throw-away cached context over the working state (open block / pending genesis)
// or, if there is none, over the last committed state. Writes to it are never persisted.
func (a *App) readCtx() sdk.Context {
	var ctx sdk.Context
	if a.hasWorking {
		ctx = a.bapp.NewContext(false, a.header)
	} else {
		ctx = a.bapp.NewUncachedContext(false, a.header)
	}
	cctx, _ := ctx.CacheContext()
	return cctx
}

// snapCtx is the context Snapshot reads through: the working / committed state WITHOUT the extra
// cache layer (Snapshot only ever calls read methods; skipping the layer makes iteration ~2x faster).
func (a *App) snapCtx() sdk.Context {
	if a.hasWorking {
		return a.bapp.NewContext(false, a.header)
	}
	return a.bapp.NewUncachedContext(false, a.header)
}

// ReadContext exposes readCtx for monitors that want to call keepers directly.
func (a *App) ReadContext() sdk.Context { return a.readCtx() }
