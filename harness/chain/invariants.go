package chain

import (
	"fmt"
	"sort"

	sdk "github.com/cosmos/cosmos-sdk/types"
)

// InvariantResult is the verdict of one registered invariant route.
type InvariantResult struct {
	Msg    string `json:"msg"`
	Broken bool   `json:"broken"`
	// Panic is set (and Broken is true) when the invariant function itself panicked.
	Panic string `json:"panic,omitempty"`
}

type invariantRoute struct {
	name string // "<module>/<route>"
	fn   sdk.Invariant
}

// invariantRegistry implements sdk.InvariantRegistry by capturing the routes.
type invariantRegistry struct{ routes []invariantRoute }

func (r *invariantRegistry) RegisterRoute(moduleName, route string, invar sdk.Invariant) {
	r.routes = append(r.routes, invariantRoute{name: moduleName + "/" + route, fn: invar})
}

// InvariantRoutes lists the registered invariant routes ("module/route"), sorted.
func (a *App) InvariantRoutes() []string {
	out := make([]string, len(a.invs))
	for i, r := range a.invs {
		out[i] = r.name
	}
	sort.Strings(out)
	return out
}

// Invariants runs every invariant registered by the ecocredit module (the data module registers
// none) against the working state (open block / pending genesis) or else the committed state.
// Keys are "module/route", e.g. "ecocredit/batch-supply" and "basket/basket-supply".
func (a *App) Invariants() map[string]InvariantResult {
	out := map[string]InvariantResult{}
	for _, r := range a.invs {
		out[r.name] = a.runInvariant(r)
	}
	return out
}

func (a *App) runInvariant(r invariantRoute) (res InvariantResult) {
	defer func() {
		if p := recover(); p != nil {
			res = InvariantResult{Msg: "invariant panicked", Broken: true, Panic: fmt.Sprint(p)}
		}
	}()
	msg, broken := r.fn(a.readCtx())
	return InvariantResult{Msg: msg, Broken: broken}
}

// BrokenInvariants returns the sorted names of broken routes in a verdict map.
func BrokenInvariants(m map[string]InvariantResult) []string {
	var out []string
	for k, v := range m {
		if v.Broken {
			out = append(out, k)
		}
	}
	sort.Strings(out)
	return out
}
