//go:build verif

package chain

import (
	"encoding/json"

	abci "github.com/cometbft/cometbft/abci/types"

	"github.com/cosmos/cosmos-sdk/codec"
	storetypes "github.com/cosmos/cosmos-sdk/store/types"
	sdk "github.com/cosmos/cosmos-sdk/types"
	"github.com/cosmos/cosmos-sdk/types/module"

	data "github.com/regen-network/regen-ledger/x/data/v3"
	dataserver "github.com/regen-network/regen-ledger/x/data/v3/server"
	"github.com/regen-network/regen-ledger/x/data/v3/server/hasher"
)

// WeakHasherAvailable reports whether this binary was built with the /repo hook
// (x/data/server/server_verif.go, build tags "verif,verifhook").
const WeakHasherAvailable = true

// registerDataServerWithHasher does what datamodule.Module.RegisterServices does, but with a server
// built by the hook constructor server.NewServerWithHasher.
func registerDataServerWithHasher(cfg module.Configurator, key storetypes.StoreKey, ak data.AccountKeeper, bk data.BankKeeper, h hasher.Hasher) (genesisModule, error) {
	impl := dataserver.NewServerWithHasher(key, ak, bk, h)
	data.RegisterMsgServer(cfg.MsgServer(), impl)
	data.RegisterQueryServer(cfg.QueryServer(), impl)
	return dataKeeperGenesis{impl}, nil
}

// dataKeeperGenesis adapts server.Keeper to the panicking InitGenesis/ExportGenesis of the module.
type dataKeeperGenesis struct{ k dataserver.Keeper }

func (d dataKeeperGenesis) InitGenesis(ctx sdk.Context, cdc codec.JSONCodec, raw json.RawMessage) []abci.ValidatorUpdate {
	upd, err := d.k.InitGenesis(ctx, cdc, raw)
	if err != nil {
		panic(err)
	}
	return upd
}

func (d dataKeeperGenesis) ExportGenesis(ctx sdk.Context, cdc codec.JSONCodec) json.RawMessage {
	bz, err := d.k.ExportGenesis(ctx, cdc)
	if err != nil {
		panic(err)
	}
	return bz
}
