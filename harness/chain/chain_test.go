package chain

import (
	"encoding/json"
	"strings"
	"testing"
	"time"

	sdk "github.com/cosmos/cosmos-sdk/types"
)

var tt0 = time.Date(2024, 1, 1, 0, 0, 0, 0, time.UTC)

func newChain(t *testing.T, o Options) *App {
	t.Helper()
	a := New(o)
	if r := a.InitChain(); !r.OK {
		t.Fatalf("InitChain: %+v", r)
	}
	return a
}

func TestMisuseIsReported(t *testing.T) {
	a := New(Options{})
	if r := a.BeginBlock(0, tt0); r.OK || !strings.HasPrefix(r.Err, "harness:") {
		t.Fatalf("BeginBlock before InitChain: %+v", r)
	}
	a.InitChain()
	if r := a.Deliver(a.MsgSetClassCreatorAllowlist(true)); r.OK || !strings.HasPrefix(r.Err, "harness:") {
		t.Fatalf("Deliver without block: %+v", r)
	}
	if r := a.BeginBlock(7, tt0); r.OK || !strings.Contains(r.Err, "invalid height") {
		t.Fatalf("bad height: %+v", r)
	}
}

func TestFailedTxLeavesStateAndHashUnchanged(t *testing.T) {
	a := newChain(t, Options{})
	a.BeginBlock(0, tt0.Add(time.Second))
	h1 := a.EndBlockCommit()
	a.BeginBlock(0, tt0.Add(2*time.Second))
	before := a.Snapshot()
	r := a.Deliver(a.MsgCreateClass(0, []int{0}, "m", "C", Coin("stake", 1))) // fee too low
	if r.OK || r.Panicked || r.Code == 0 || r.Codespace == "" {
		t.Fatalf("expected a plain error: %+v", r)
	}
	if d := Diff(before, a.Snapshot()); !d.Empty() {
		t.Fatalf("failed tx changed state: %s", mustJSON(d))
	}
	h2 := a.EndBlockCommit()
	// the hash changes only through the block height-independent store contents: nothing was written
	if string(h1) != string(h2) {
		t.Fatalf("app hash changed by a failed tx: %x -> %x", h1, h2)
	}
}

func TestMultiMsgTxIsAtomic(t *testing.T) {
	a := newChain(t, Options{})
	a.BeginBlock(0, tt0.Add(time.Second))
	before := a.Snapshot()
	r := a.DeliverMulti([]sdk.Msg{
		a.MsgAddAllowedBridgeChain("polygon"),
		a.MsgCreateClass(0, []int{0}, "m", "C", Coin("stake", 1)), // fee too low → first msg must be rolled back
	})
	if r.OK {
		t.Fatalf("expected failure: %+v", r)
	}
	if d := Diff(before, a.Snapshot()); !d.Empty() {
		t.Fatalf("partial tx effects persisted: %s", mustJSON(d))
	}
}

func TestOutOfGasIsAnErrorNotAPanic(t *testing.T) {
	a := newChain(t, Options{GasLimit: 5000})
	a.BeginBlock(0, tt0.Add(time.Second))
	r := a.Deliver(a.MsgCreateClass(0, []int{0, 1, 2}, "m", "C", Coin("stake", 20000000)))
	if r.OK || r.Panicked || r.Codespace != "sdk" || r.Code != 11 || r.GasWanted != 5000 {
		t.Fatalf("expected out of gas: %+v", r)
	}
}

func TestInitGenesisPanicIsReported(t *testing.T) {
	a := New(Options{Genesis: map[string]json.RawMessage{GenEcocredit: json.RawMessage(`{"regen.ecocredit.v1.Class":[{"key":"5"}]}`)}})
	r := a.InitChain()
	if !r.Panicked || r.PanicValue == "" {
		t.Fatalf("expected InitChain panic: %+v", r)
	}
}

// A sell order whose escrowed balance row is missing makes PruneOrders fail: the real module would
// panic in BeginBlock and halt the chain; the harness reports it in Err and carries on.
func TestBeginBlockerErrorIsReported(t *testing.T) {
	patch := func(gen map[string]json.RawMessage) {
		var eco map[string]json.RawMessage
		if err := json.Unmarshal(gen[GenEcocredit], &eco); err != nil {
			panic(err)
		}
		eco["regen.ecocredit.marketplace.v1.SellOrder"] = json.RawMessage(`[1,{"id":"1","seller":"` +
			"0IniR4lYMQLa2xT7qU7lsOuFcBY=" + `","batch_key":"1","quantity":"10","market_id":"1","ask_amount":"1","expiration":"2024-01-01T00:00:01Z"}]`)
		bz, _ := json.Marshal(eco)
		gen[GenEcocredit] = bz
	}
	a := New(Options{Patch: patch})
	if r := a.InitChain(); !r.OK {
		t.Fatalf("InitChain: %+v", r)
	}
	r := a.BeginBlock(0, tt0.Add(time.Hour))
	if r.OK || (r.Err == "" && !r.Panicked) {
		t.Fatalf("expected BeginBlocker error or panic: %+v", r)
	}
	t.Logf("begin block verdict=%s err=%q panic=%q", r.Verdict(), r.Err, r.PanicValue)
	// the chain object stays usable
	if res := a.Deliver(a.MsgAddAllowedBridgeChain("polygon")); !res.OK {
		t.Fatalf("deliver after failed begin blocker: %+v", res)
	}
	a.EndBlockCommit()
}

func TestUnknownAddressesAreHex(t *testing.T) {
	a := newChain(t, Options{NumAccounts: 2})
	stranger := UserAddress(50) // not one of the 2 accounts
	a.BeginBlock(0, tt0.Add(time.Second))
	msg := a.MsgBankSend(0, 1, sdk.NewCoins(sdk.NewInt64Coin("stake", 5)))
	msg.ToAddress = stranger.String()
	if r := a.Deliver(msg); !r.OK {
		t.Fatalf("bank send: %+v", r)
	}
	st := a.Snapshot()
	last := st.Balances[len(st.Balances)-1]
	if last.Account.Addr != nil || last.Account.Hex == "" || last.Coins["stake"] != "5" {
		t.Fatalf("unknown account not rendered as hex: %+v", last)
	}
	_, raw, _ := MsgToJSON(msg)
	if m := string(a.MapAddresses(raw)); !strings.Contains(m, `"to_address":{"hex":"`) || !strings.Contains(m, `"from_address":{"addr":0}`) {
		t.Fatalf("bad address mapping: %s", m)
	}
}

func TestRestartKeepsHashAndDropsOpenBlock(t *testing.T) {
	a := newChain(t, Options{})
	a.BeginBlock(0, tt0.Add(time.Second))
	a.Deliver(a.MsgAddAllowedBridgeChain("polygon"))
	a.EndBlockCommit()
	committed := a.Snapshot()
	a.BeginBlock(0, tt0.Add(2*time.Second))
	a.Deliver(a.MsgAddAllowedBridgeChain("ethereum"))
	r := a.Restart()
	if !r.OK || a.BlockOpen() {
		t.Fatalf("restart: %+v", r)
	}
	if d := Diff(committed, a.Snapshot()); !d.Empty() {
		t.Fatalf("restart did not fall back to the committed state: %s", mustJSON(d))
	}
	if br := a.BeginBlock(0, tt0.Add(3*time.Second)); !br.OK || br.Height != 2 {
		t.Fatalf("begin after restart: %+v", br)
	}
}

func TestStateJSONRoundTrip(t *testing.T) {
	a := newChain(t, Options{})
	a.BeginBlock(0, tt0.Add(time.Second))
	a.Deliver(a.MsgCreateClass(0, []int{0}, "m", "C", Coin("stake", 20000000)))
	s := a.Snapshot()
	bz, err := MarshalIndentJSON(s)
	if err != nil {
		t.Fatal(err)
	}
	var back State
	if err := json.Unmarshal(bz, &back); err != nil {
		t.Fatal(err)
	}
	if !StatesEqual(s, &back) || !StatesEqual(&back, s) {
		t.Fatalf("lossy: %s", mustJSON(Diff(s, &back)))
	}
	bz2, _ := MarshalIndentJSON(&back)
	if string(bz) != string(bz2) {
		t.Fatal("re-encoding differs")
	}
}
