package chain

import (
	"crypto/sha256"
	"encoding/hex"
	"fmt"
	"sort"

	sdk "github.com/cosmos/cosmos-sdk/types"
	authtypes "github.com/cosmos/cosmos-sdk/x/auth/types"
	govtypes "github.com/cosmos/cosmos-sdk/x/gov/types"
	minttypes "github.com/cosmos/cosmos-sdk/x/mint/types"

	ecocredit "github.com/regen-network/regen-ledger/x/ecocredit/v3"
	"github.com/regen-network/regen-ledger/x/ecocredit/v3/basket"
	"github.com/regen-network/regen-ledger/x/ecocredit/v3/marketplace"
)

// Stable small integer indices of the named (module) accounts. User accounts are 0..NumAccounts-1.
const (
	IdxGov       = 100 // x/gov module address = the "authority" of every governance-gated message
	IdxEcocredit = 101 // x/ecocredit module account (burner); holds nothing at rest
	IdxBasket    = 102 // basket sub-module account (minter+burner) - mints/burns basket tokens
	IdxFeePool   = 103 // marketplace fee pool (burner) - collects marketplace fees
	IdxMint      = 104 // "mint" module account (minter) - used only by App.Fund
)

// MaxUserAccounts bounds Options.NumAccounts so that user indices never collide with module indices.
const MaxUserAccounts = 100

// Account describes one known account of a mini chain.
type Account struct {
	Index  int    `json:"index"`
	Name   string `json:"name"`   // "user0".. or the module account name
	Bech32 string `json:"bech32"` // regen1...
	Hex    string `json:"hex"`    // lower-case hex of the 20 address bytes
	Module bool   `json:"module"`
}

// moduleAccounts lists the named module accounts in index order.
var moduleAccounts = []struct {
	idx   int
	name  string
	perms []string
}{
	{IdxGov, govtypes.ModuleName, []string{authtypes.Burner}},
	{IdxEcocredit, ecocredit.ModuleName, []string{authtypes.Burner}},
	{IdxBasket, basket.BasketSubModuleName, []string{authtypes.Burner, authtypes.Minter}},
	{IdxFeePool, marketplace.FeePoolName, []string{authtypes.Burner}},
	{IdxMint, minttypes.ModuleName, []string{authtypes.Minter}},
}

// maccPerms mirrors the relevant entries of /repo/app/app.go maccPerms.
func maccPerms() map[string][]string {
	m := map[string][]string{}
	for _, ma := range moduleAccounts {
		m[ma.name] = ma.perms
	}
	return m
}

// blockedAddrs mirrors RegenApp.BlockAddresses: every module account except gov is blocked from
// receiving funds through bank MsgSend / SendCoinsFromModuleToAccount.
func blockedAddrs() map[string]bool {
	m := map[string]bool{}
	for _, ma := range moduleAccounts {
		if ma.name == govtypes.ModuleName {
			continue
		}
		m[authtypes.NewModuleAddress(ma.name).String()] = true
	}
	return m
}

// UserAddress is the deterministic address of user account i: the first 20 bytes of
// sha256("verif/harness/chain/user/<i>"). It does not depend on any App.
func UserAddress(i int) sdk.AccAddress {
	h := sha256.Sum256([]byte(fmt.Sprintf("verif/harness/chain/user/%d", i)))
	return sdk.AccAddress(h[:20])
}

// accountBook maps addresses <-> indices.
type accountBook struct {
	list  []Account              // users then modules, ascending index
	byHex map[string]int         // hex(addr bytes) -> index
	addrs map[int]sdk.AccAddress // index -> address
}

func newAccountBook(numUsers int) *accountBook {
	b := &accountBook{byHex: map[string]int{}, addrs: map[int]sdk.AccAddress{}}
	add := func(idx int, name string, addr sdk.AccAddress, module bool) {
		hx := hex.EncodeToString(addr)
		b.list = append(b.list, Account{Index: idx, Name: name, Bech32: addr.String(), Hex: hx, Module: module})
		b.byHex[hx] = idx
		b.addrs[idx] = addr
	}
	for i := 0; i < numUsers; i++ {
		add(i, fmt.Sprintf("user%d", i), UserAddress(i), false)
	}
	for _, ma := range moduleAccounts {
		add(ma.idx, ma.name, authtypes.NewModuleAddress(ma.name), true)
	}
	sort.Slice(b.list, func(i, j int) bool { return b.list[i].Index < b.list[j].Index })
	return b
}

// Accounts returns the user account addresses 0..NumAccounts-1.
func (a *App) Accounts() []sdk.AccAddress {
	out := make([]sdk.AccAddress, a.opts.NumAccounts)
	for i := range out {
		out[i] = a.book.addrs[i]
	}
	return out
}

// AllAccounts returns users and named module accounts in ascending index order.
func (a *App) AllAccounts() []Account {
	out := make([]Account, len(a.book.list))
	copy(out, a.book.list)
	return out
}

// AccAddr returns the address bytes of account index i (user or module). It panics on unknown indices.
func (a *App) AccAddr(i int) sdk.AccAddress {
	ad, ok := a.book.addrs[i]
	if !ok {
		panic(fmt.Sprintf("chain: unknown account index %d", i))
	}
	return ad
}

// Addr returns the bech32 string of account index i (user or module). It panics on unknown indices.
func (a *App) Addr(i int) string { return a.AccAddr(i).String() }

// Gov returns the bech32 governance authority address (index IdxGov).
func (a *App) Gov() string { return a.Addr(IdxGov) }

// AddrIndex maps an address to its account index. v may be a bech32 string, a hex string,
// an sdk.AccAddress or a []byte.
func (a *App) AddrIndex(v interface{}) (int, bool) {
	switch x := v.(type) {
	case sdk.AccAddress:
		return a.book.indexOfBytes(x)
	case []byte:
		return a.book.indexOfBytes(x)
	case string:
		if bz, err := sdk.AccAddressFromBech32(x); err == nil {
			return a.book.indexOfBytes(bz)
		}
		if bz, err := hex.DecodeString(x); err == nil {
			return a.book.indexOfBytes(bz)
		}
	}
	return 0, false
}

func (b *accountBook) indexOfBytes(bz []byte) (int, bool) {
	i, ok := b.byHex[hex.EncodeToString(bz)]
	return i, ok
}
