package chain

import (
	"bytes"
	"encoding/hex"
	"encoding/json"
	"fmt"
	"os"
	"strconv"
	"strings"
	"time"

	"github.com/cosmos/cosmos-sdk/codec"
	codectypes "github.com/cosmos/cosmos-sdk/codec/types"
	sdk "github.com/cosmos/cosmos-sdk/types"
	authtypes "github.com/cosmos/cosmos-sdk/x/auth/types"
	banktypes "github.com/cosmos/cosmos-sdk/x/bank/types"
	gogoproto "github.com/cosmos/gogoproto/proto"

	data "github.com/regen-network/regen-ledger/x/data/v3"
	basetypes "github.com/regen-network/regen-ledger/x/ecocredit/v3/base/types/v1"
	baskettypes "github.com/regen-network/regen-ledger/x/ecocredit/v3/basket/types/v1"
	markettypes "github.com/regen-network/regen-ledger/x/ecocredit/v3/marketplace/types/v1"
)

// Trace is a complete, replayable record of one mini-chain run.
type Trace struct {
	ID      string  `json:"id"`
	Seed    uint64  `json:"seed"`
	Options Options `json:"options"`
	// GenesisJSON is the effective genesis (defaults + overrides + Patch) per module; Replay feeds
	// it back through Options.Genesis, so a trace replays without the Patch function.
	GenesisJSON map[string]json.RawMessage `json:"genesis_json"`
	Accounts    []Account                  `json:"accounts"`
	Tables      []TableInfo                `json:"tables"`
	Init        StepResult                 `json:"init"`
	Genesis     *State                     `json:"genesis"`
	Items       []Item                     `json:"items"`
	Final       *State                     `json:"final"`
}

// TraceMsg is one message of a traced transaction.
type TraceMsg struct {
	TypeURL string `json:"type_url"`
	// Msg is the proto JSON with every bech32 account address replaced by {"addr": <index>} (known
	// account) or {"hex": "<bytes>"} (unknown but well-formed address).
	Msg json.RawMessage `json:"msg"`
	// Raw is the unmodified proto JSON (bech32 addresses), accepted by MsgFromJSON.
	Raw json.RawMessage `json:"raw"`
}

// Item is one operation of a trace. Which fields are set depends on Kind:
//
//	"begin"      Height, TimeS, TimeN, Result, Diff, Invariants
//	"msg"        TraceMsg (+More for multi-msg txs), TxHex, Result, Diff, Invariants
//	"commit"     Result (Height, AppHash)
//	"restart"    Result (AppHash, OK = hash unchanged)
//	"genesis_rt" GenesisRT
//	"query"      Path, ReqType, Req, ResType, Res | QueryErr
//	"fund"       Account, Coins, Result, Diff
type Item struct {
	Seq  int    `json:"seq"`
	Kind string `json:"kind"`
	Note string `json:"note,omitempty"` // free-form annotation (generators: intent / expectation)

	Height int64 `json:"height,omitempty"`
	TimeS  int64 `json:"time_s,omitempty"`
	TimeN  int32 `json:"time_n,omitempty"`

	*TraceMsg
	More  []TraceMsg `json:"more,omitempty"`
	TxHex string     `json:"tx_hex,omitempty"`

	Result     *StepResult                `json:"result,omitempty"`
	Diff       *StateDiff                 `json:"diff,omitempty"`
	Invariants map[string]InvariantResult `json:"invariants,omitempty"`

	GenesisRT *GenesisRT `json:"genesis_rt,omitempty"`

	Path     string          `json:"path,omitempty"`
	ReqType  string          `json:"req_type,omitempty"`
	Req      json.RawMessage `json:"req,omitempty"`
	ResType  string          `json:"res_type,omitempty"`
	Res      json.RawMessage `json:"res,omitempty"`
	QueryErr string          `json:"query_err,omitempty"`

	Account *int   `json:"account,omitempty"`
	Coins   string `json:"coins,omitempty"`
}

// MarshalIndentJSON encodes v as indented JSON with sorted map keys and without HTML escaping.
func MarshalIndentJSON(v interface{}) ([]byte, error) {
	var buf bytes.Buffer
	enc := json.NewEncoder(&buf)
	enc.SetEscapeHTML(false)
	enc.SetIndent("", " ")
	if err := enc.Encode(v); err != nil {
		return nil, err
	}
	return buf.Bytes(), nil
}

// JSON returns the deterministic JSON encoding of the trace.
func (t *Trace) JSON() ([]byte, error) { return MarshalIndentJSON(t) }

// WriteJSON writes the trace to path.
func (t *Trace) WriteJSON(path string) error {
	bz, err := t.JSON()
	if err != nil {
		return err
	}
	return os.WriteFile(path, bz, 0o644)
}

// ReadTrace loads a trace written by WriteJSON.
func ReadTrace(path string) (*Trace, error) {
	bz, err := os.ReadFile(path)
	if err != nil {
		return nil, err
	}
	dec := json.NewDecoder(bytes.NewReader(bz))
	dec.UseNumber()
	var t Trace
	if err := dec.Decode(&t); err != nil {
		return nil, err
	}
	return &t, nil
}

// ---------------------------------------------------------------------------------------------
// messages <-> JSON

var sharedCdc *codec.ProtoCodec

// SharedCodec returns a process-wide proto codec whose interface registry knows the auth, bank,
// ecocredit (base, basket, marketplace) and data types. Use it to build or parse messages without an App.
func SharedCodec() *codec.ProtoCodec {
	if sharedCdc == nil {
		ir := codectypes.NewInterfaceRegistry()
		authtypes.RegisterInterfaces(ir)
		banktypes.RegisterInterfaces(ir)
		basetypes.RegisterTypes(ir)
		baskettypes.RegisterTypes(ir)
		markettypes.RegisterTypes(ir)
		data.RegisterTypes(ir)
		sharedCdc = codec.NewProtoCodec(ir)
	}
	return sharedCdc
}

// MsgFromJSON builds an sdk.Msg from its type URL (e.g. "/regen.ecocredit.v1.MsgSend") and proto JSON.
func MsgFromJSON(typeURL string, js []byte) (sdk.Msg, error) {
	m, err := SharedCodec().InterfaceRegistry().Resolve(typeURL)
	if err != nil {
		return nil, err
	}
	if err := SharedCodec().UnmarshalJSON(js, m); err != nil {
		return nil, err
	}
	msg, ok := m.(sdk.Msg)
	if !ok {
		return nil, fmt.Errorf("chain: %s is not an sdk.Msg", typeURL)
	}
	return msg, nil
}

// MsgToJSON returns the type URL and canonical proto JSON of a message.
func MsgToJSON(msg sdk.Msg) (string, json.RawMessage, error) {
	bz, err := SharedCodec().MarshalJSON(msg)
	if err != nil {
		return "", nil, err
	}
	return "/" + gogoproto.MessageName(msg), canonJSON(bz), nil
}

// MapAddresses rewrites a JSON document: every string that is a well-formed bech32 account address
// with the "regen" prefix becomes {"addr": <index>} if it is a known account and {"hex": "<bytes>"}
// otherwise. Everything else is kept. The result is canonical JSON.
func (a *App) MapAddresses(js []byte) json.RawMessage {
	dec := json.NewDecoder(bytes.NewReader(js))
	dec.UseNumber()
	var v interface{}
	if err := dec.Decode(&v); err != nil {
		return append(json.RawMessage(nil), js...)
	}
	out, err := marshalNoEscape(a.mapAddrValue(v))
	if err != nil {
		return append(json.RawMessage(nil), js...)
	}
	return out
}

func (a *App) mapAddrValue(v interface{}) interface{} {
	switch x := v.(type) {
	case map[string]interface{}:
		for k, e := range x {
			x[k] = a.mapAddrValue(e)
		}
		return x
	case []interface{}:
		for i, e := range x {
			x[i] = a.mapAddrValue(e)
		}
		return x
	case string:
		// a bech32 address has two valid spellings (all lower case, all upper case); the upper-case one is marked
		if len(x) > len(Bech32Prefix)+1 && strings.EqualFold(x[:len(Bech32Prefix)+1], Bech32Prefix+"1") {
			if bz, err := sdk.AccAddressFromBech32(x); err == nil {
				upper := x != strings.ToLower(x)
				if i, ok := a.book.indexOfBytes(bz); ok {
					if upper {
						return map[string]interface{}{"addr": json.Number(strconv.Itoa(i)), "upper": true}
					}
					return map[string]interface{}{"addr": json.Number(strconv.Itoa(i))}
				}
				if upper {
					return map[string]interface{}{"hex": hex.EncodeToString(bz), "upper": true}
				}
				return map[string]interface{}{"hex": hex.EncodeToString(bz)}
			}
		}
		return x
	default:
		return v
	}
}

// rawCriteriaJSON encodes basket messages whose date criteria are outside the protobuf JSON range (a Timestamp
// beyond year 9999, nanos outside [0, 1e9), a Duration beyond 10000 years): the message is encoded without its
// criteria and the criteria are added in raw form, {"min_start_date_raw": {"seconds": "<int>", "nanos": <int>}} or
// {"start_date_window_raw": {...}}.  Replays use the tx bytes, not this rendering.
func rawCriteriaJSON(msg sdk.Msg) (string, json.RawMessage, bool) {
	var dc *baskettypes.DateCriteria
	var stripped sdk.Msg
	field := ""
	switch m := msg.(type) {
	case *baskettypes.MsgCreate:
		c := *m
		dc, c.DateCriteria, field = m.DateCriteria, nil, "date_criteria"
		stripped = &c
	case *baskettypes.MsgUpdateDateCriteria:
		c := *m
		dc, c.NewDateCriteria, field = m.NewDateCriteria, nil, "new_date_criteria"
		stripped = &c
	default:
		return "", nil, false
	}
	if dc == nil {
		return "", nil, false
	}
	bz, err := SharedCodec().MarshalJSON(stripped)
	if err != nil {
		return "", nil, false
	}
	var obj map[string]interface{}
	dec := json.NewDecoder(bytes.NewReader(bz))
	dec.UseNumber()
	if dec.Decode(&obj) != nil {
		return "", nil, false
	}
	crit := map[string]interface{}{}
	switch {
	case dc.GetMinStartDate() != nil:
		t := dc.GetMinStartDate()
		crit["min_start_date_raw"] = map[string]interface{}{"seconds": strconv.FormatInt(t.Seconds, 10), "nanos": json.Number(strconv.Itoa(int(t.Nanos)))}
	case dc.GetStartDateWindow() != nil:
		d := dc.GetStartDateWindow()
		crit["start_date_window_raw"] = map[string]interface{}{"seconds": strconv.FormatInt(d.Seconds, 10), "nanos": json.Number(strconv.Itoa(int(d.Nanos)))}
	default:
		return "", nil, false
	}
	obj[field] = crit
	out, err := marshalNoEscape(obj)
	if err != nil {
		return "", nil, false
	}
	return "/" + gogoproto.MessageName(msg), canonJSON(out), true
}

func (a *App) traceMsg(msg sdk.Msg) TraceMsg {
	url, raw, err := MsgToJSON(msg)
	if err != nil {
		if u, r, ok := rawCriteriaJSON(msg); ok {
			return TraceMsg{TypeURL: u, Raw: json.RawMessage(`null`), Msg: a.MapAddresses(r)}
		}
		return TraceMsg{TypeURL: "/" + gogoproto.MessageName(msg), Raw: json.RawMessage(`null`), Msg: json.RawMessage(strconv.Quote("unencodable: " + err.Error()))}
	}
	return TraceMsg{TypeURL: url, Raw: raw, Msg: a.MapAddresses(raw)}
}

// ---------------------------------------------------------------------------------------------
// recorder

// Recorder drives an App and records everything into a Trace.
type Recorder struct {
	App   *App
	Trace *Trace
	// SnapshotEachStep: take a full Snapshot after begin/msg/fund steps and record the StateDiff
	// (default true). CheckInvariants: run all invariants after begin/msg steps (default true).
	SnapshotEachStep bool
	CheckInvariants  bool

	prev *State
}

// NewRecorder creates an App from opts, runs InitChain and records the genesis state.
func NewRecorder(id string, seed uint64, opts Options) *Recorder {
	a := New(opts)
	init := a.InitChain()
	r := &Recorder{App: a, SnapshotEachStep: true, CheckInvariants: true}
	r.prev = a.Snapshot()
	r.Trace = &Trace{
		ID: id, Seed: seed, Options: a.Options(), GenesisJSON: a.GenesisJSON(),
		Accounts: a.AllAccounts(), Tables: a.Tables(), Init: init, Genesis: r.prev,
	}
	// the options stored in the trace must not repeat the genesis overrides (GenesisJSON has them)
	r.Trace.Options.Genesis = nil
	return r
}

func (r *Recorder) add(it Item) *Item {
	it.Seq = len(r.Trace.Items)
	r.Trace.Items = append(r.Trace.Items, it)
	return &r.Trace.Items[len(r.Trace.Items)-1]
}

// Last returns the most recently recorded item (nil if none), e.g. to set Note.
func (r *Recorder) Last() *Item {
	if len(r.Trace.Items) == 0 {
		return nil
	}
	return &r.Trace.Items[len(r.Trace.Items)-1]
}

// State returns the most recent snapshot taken by the recorder (the state after the last step).
func (r *Recorder) State() *State { return r.prev }

func (r *Recorder) observe(it *Item, invariants bool) {
	if r.SnapshotEachStep {
		cur := r.App.Snapshot()
		it.Diff = Diff(r.prev, cur)
		r.prev = cur
	}
	if invariants && r.CheckInvariants {
		it.Invariants = r.App.Invariants()
	}
}

// Begin starts a block and records it.
func (r *Recorder) Begin(height int64, t time.Time) StepResult {
	res := r.App.BeginBlock(height, t)
	it := Item{Kind: KindBegin, Height: res.Height, TimeS: t.Unix(), TimeN: int32(t.Nanosecond()), Result: &res}
	if r.App.BlockOpen() {
		r.observe(&it, true)
	}
	r.add(it)
	return res
}

// Deliver delivers one message in its own transaction and records result, diff and invariants.
func (r *Recorder) Deliver(msg sdk.Msg) StepResult { return r.DeliverMulti([]sdk.Msg{msg}) }

// DeliverMulti delivers several messages in one transaction.
func (r *Recorder) DeliverMulti(msgs []sdk.Msg) StepResult {
	it := Item{Kind: KindMsg, Height: r.App.Height()}
	for i, m := range msgs {
		tm := r.App.traceMsg(m)
		if i == 0 {
			it.TraceMsg = &tm
		} else {
			it.More = append(it.More, tm)
		}
	}
	var res StepResult
	b := r.App.txCfg.NewTxBuilder()
	if err := b.SetMsgs(msgs...); err != nil {
		res = StepResult{Kind: KindMsg, Err: "harness: SetMsgs: " + err.Error()}
	} else if bz, err := r.App.txCfg.TxEncoder()(b.GetTx()); err != nil {
		res = StepResult{Kind: KindMsg, Err: "harness: encode tx: " + err.Error()}
	} else {
		it.TxHex = hex.EncodeToString(bz)
		res = r.App.DeliverRaw(bz)
	}
	it.Result = &res
	if r.App.BlockOpen() {
		r.observe(&it, true)
	}
	r.add(it)
	return res
}

// Commit ends and commits the open block.
func (r *Recorder) Commit() []byte {
	h := r.App.EndBlockCommit()
	res := StepResult{Kind: KindCommit, Height: r.App.Height(), OK: true, AppHash: hex.EncodeToString(h)}
	r.add(Item{Kind: KindCommit, Height: res.Height, Result: &res})
	return h
}

// Restart restarts the app (see App.Restart).
func (r *Recorder) Restart() StepResult {
	res := r.App.Restart()
	it := Item{Kind: KindRestart, Result: &res}
	if r.SnapshotEachStep {
		// a restart must not change the observable state; record the diff (expected empty)
		cur := r.App.Snapshot()
		if d := Diff(r.prev, cur); !d.Empty() {
			it.Diff = d
		}
		r.prev = cur
	}
	r.add(it)
	return res
}

// GenesisRoundTrip runs and records App.GenesisRoundTrip.
func (r *Recorder) GenesisRoundTrip() GenesisRT {
	rt := r.App.GenesisRoundTrip()
	r.add(Item{Kind: KindGenesisRT, GenesisRT: &rt})
	return rt
}

// Query runs and records a query.
func (r *Recorder) Query(path string, req, res gogoproto.Message) error {
	err := r.App.Query(path, req, res)
	it := Item{Kind: KindQuery, Path: path, ReqType: "/" + gogoproto.MessageName(req), ResType: "/" + gogoproto.MessageName(res)}
	if bz, e := r.App.cdc.MarshalJSON(req); e == nil {
		it.Req = canonJSON(bz)
	}
	if err != nil {
		it.QueryErr = err.Error()
	} else if bz, e := r.App.cdc.MarshalJSON(res); e == nil {
		it.Res = canonJSON(bz)
	}
	r.add(it)
	return err
}

// Fund runs and records App.Fund.
func (r *Recorder) Fund(idx int, coins sdk.Coins) error {
	err := r.App.Fund(idx, coins)
	res := StepResult{Kind: KindFund, Height: r.App.Height(), OK: err == nil}
	if err != nil {
		res.Err = err.Error()
	}
	it := Item{Kind: KindFund, Account: &idx, Coins: coins.String(), Result: &res}
	r.observe(&it, false)
	r.add(it)
	return err
}

// Finish records the final state and returns the trace.
func (r *Recorder) Finish() *Trace {
	r.Trace.Final = r.App.Snapshot()
	return r.Trace
}

// ---------------------------------------------------------------------------------------------
// replay

// Replay re-executes the operations of a trace on a fresh App (same options, same effective
// genesis) and returns the App and one StepResult per item (query items yield Kind "query" with
// Err = the query error; genesis_rt items yield OK = GenesisRT.OK()).
func Replay(t *Trace) (*App, []StepResult) {
	opts := t.Options
	opts.DB = nil
	opts.Patch = nil
	opts.Genesis = t.GenesisJSON
	a := New(opts)
	a.InitChain()
	var out []StepResult
	for _, it := range t.Items {
		out = append(out, replayItem(a, it))
	}
	return a, out
}

func replayItem(a *App, it Item) StepResult {
	switch it.Kind {
	case KindBegin:
		return a.BeginBlock(it.Height, time.Unix(it.TimeS, int64(it.TimeN)).UTC())
	case KindMsg:
		if it.TxHex != "" {
			bz, err := hex.DecodeString(it.TxHex)
			if err != nil {
				return StepResult{Kind: KindMsg, Err: "harness: bad tx_hex: " + err.Error()}
			}
			return a.DeliverRaw(bz)
		}
		var msgs []sdk.Msg
		all := append([]TraceMsg{}, it.More...)
		if it.TraceMsg != nil {
			all = append([]TraceMsg{*it.TraceMsg}, all...)
		}
		for _, tm := range all {
			m, err := MsgFromJSON(tm.TypeURL, tm.Raw)
			if err != nil {
				return StepResult{Kind: KindMsg, Err: "harness: MsgFromJSON: " + err.Error()}
			}
			msgs = append(msgs, m)
		}
		return a.DeliverMulti(msgs)
	case KindCommit:
		if !a.BlockOpen() {
			return StepResult{Kind: KindCommit, Err: "harness: commit without an open block"}
		}
		h := a.EndBlockCommit()
		return StepResult{Kind: KindCommit, Height: a.Height(), OK: true, AppHash: hex.EncodeToString(h)}
	case KindRestart:
		return a.Restart()
	case KindGenesisRT:
		rt := a.GenesisRoundTrip()
		res := StepResult{Kind: KindGenesisRT, OK: rt.OK()}
		if !res.OK {
			bz, _ := marshalNoEscape(rt)
			res.Log = string(bz)
		}
		return res
	case KindQuery:
		res := StepResult{Kind: KindQuery}
		out, err := a.QueryJSON(it.Path, it.ReqType, it.Req, it.ResType)
		if err != nil {
			res.Err = err.Error()
		} else {
			res.OK = true
			res.Responses = []TypedJSON{{TypeURL: it.ResType, JSON: out}}
		}
		return res
	case KindFund:
		res := StepResult{Kind: KindFund, Height: a.Height()}
		coins, err := sdk.ParseCoinsNormalized(it.Coins)
		if err == nil && it.Account != nil {
			err = a.Fund(*it.Account, coins)
		}
		if err != nil {
			res.Err = err.Error()
		}
		res.OK = err == nil
		return res
	}
	return StepResult{Kind: it.Kind, Err: "harness: unknown item kind"}
}

// ReplayCheck replays a trace and lists every deviation from the recorded results (step verdicts,
// codes, logs, gas, events, responses, app hashes) and from the recorded final state. An empty
// result means the trace reproduces exactly.
func ReplayCheck(t *Trace) []string {
	a, results := Replay(t)
	var out []string
	for i, it := range t.Items {
		got := results[i]
		switch it.Kind {
		case KindQuery:
			want := it.QueryErr
			if got.Err != want {
				out = append(out, fmt.Sprintf("item %d query: err %q != recorded %q", i, got.Err, want))
			} else if want == "" && len(got.Responses) == 1 && !bytes.Equal(got.Responses[0].JSON, canonJSON(it.Res)) {
				out = append(out, fmt.Sprintf("item %d query: response differs", i))
			}
		case KindGenesisRT:
			if it.GenesisRT != nil && got.OK != it.GenesisRT.OK() {
				out = append(out, fmt.Sprintf("item %d genesis_rt: ok %v != recorded %v", i, got.OK, it.GenesisRT.OK()))
			}
		default:
			if it.Result == nil {
				continue
			}
			x, y := mustJSON(got), mustJSON(*it.Result)
			if x != y {
				out = append(out, fmt.Sprintf("item %d %s: %s", i, it.Kind, FirstJSONDiff([]byte(y), []byte(x))))
			}
		}
	}
	if t.Final != nil {
		if d := Diff(t.Final, a.Snapshot()); !d.Empty() {
			out = append(out, "final state differs: "+mustJSON(d))
		}
	}
	return out
}
