package chain

import (
	"bytes"
	"encoding/json"
	"fmt"
	"sort"

	authtypes "github.com/cosmos/cosmos-sdk/x/auth/types"
	banktypes "github.com/cosmos/cosmos-sdk/x/bank/types"
)

// ExportGenesis exports the auth, bank, ecocredit and data genesis from the working state (open
// block / pending genesis) or else the committed state. Export panics are returned as errors.
func (a *App) ExportGenesis() (gen map[string]json.RawMessage, err error) {
	defer func() {
		if r := recover(); r != nil {
			err = fmt.Errorf("export panicked: %v", r)
		}
	}()
	ctx := a.readCtx()
	gen = map[string]json.RawMessage{}
	gen[GenAuth] = a.cdc.MustMarshalJSON(a.ak.ExportGenesis(ctx))
	gen[GenBank] = a.cdc.MustMarshalJSON(a.bk.ExportGenesis(ctx))
	gen[GenEcocredit] = a.eco.ExportGenesis(ctx, a.cdc)
	gen[GenData] = a.dataGen.ExportGenesis(ctx, a.cdc)
	return gen, nil
}

// ValidateGenesis runs each module's own genesis validation (ecocredit and data: the module's
// ValidateGenesis = ORM ValidateJSON + genesis.ValidateGenesis; auth: authtypes.ValidateGenesis;
// bank: GenesisState.Validate). Only failing modules appear in the result.
func (a *App) ValidateGenesis(gen map[string]json.RawMessage) map[string]string {
	out := map[string]string{}
	run := func(mod string, f func() error) {
		defer func() {
			if r := recover(); r != nil {
				out[mod] = fmt.Sprintf("panic: %v", r)
			}
		}()
		if err := f(); err != nil {
			out[mod] = err.Error()
		}
	}
	run(GenAuth, func() error {
		var gs authtypes.GenesisState
		if err := a.cdc.UnmarshalJSON(gen[GenAuth], &gs); err != nil {
			return err
		}
		return authtypes.ValidateGenesis(gs)
	})
	run(GenBank, func() error {
		var gs banktypes.GenesisState
		if err := a.cdc.UnmarshalJSON(gen[GenBank], &gs); err != nil {
			return err
		}
		return gs.Validate()
	})
	run(GenEcocredit, func() error { return a.eco.ValidateGenesis(a.cdc, nil, gen[GenEcocredit]) })
	run(GenData, func() error { return a.dataMod.ValidateGenesis(a.cdc, nil, gen[GenData]) })
	return out
}

// GenesisRT is the report of a genesis export → validate → import → re-export round trip.
type GenesisRT struct {
	// ExportErr is set if exporting from the current state failed (nothing else is then filled in).
	ExportErr string `json:"export_err,omitempty"`
	// ValidateErrs holds the ValidateGenesis error per failing module ("auth","bank","ecocredit","data").
	ValidateErrs map[string]string `json:"validate_errs,omitempty"`
	// ImportPanic is the recovered panic value if InitChain of the fresh app panicked (the real
	// modules panic on any InitGenesis error). ImportStack lists the function names.
	ImportPanic string   `json:"import_panic,omitempty"`
	ImportStack []string `json:"import_stack,omitempty"`
	// ReexportErr is set if exporting from the fresh app failed.
	ReexportErr string `json:"reexport_err,omitempty"`
	// Identical: the canonicalised JSON of all four modules is byte-identical after the round trip.
	Identical bool `json:"identical"`
	// ModuleIdentical gives the verdict per module.
	ModuleIdentical map[string]bool `json:"module_identical,omitempty"`
	// FirstDiff is the first differing JSON path, "<module>: <path>: <exported> != <re-exported>".
	FirstDiff string `json:"first_diff,omitempty"`
	// StateIdentical: Snapshot() of the fresh app equals Snapshot() of the original (tables,
	// sequences, bank).
	StateIdentical bool `json:"state_identical"`
	// Invariants are the invariant verdicts of the fresh app.
	Invariants map[string]InvariantResult `json:"invariants,omitempty"`

	// Exported / Reexported / Fresh are kept in memory only.
	Exported   map[string]json.RawMessage `json:"-"`
	Reexported map[string]json.RawMessage `json:"-"`
	Fresh      *App                       `json:"-"`
}

// OK reports a fully clean round trip.
func (g GenesisRT) OK() bool {
	return g.ExportErr == "" && len(g.ValidateErrs) == 0 && g.ImportPanic == "" && g.ReexportErr == "" &&
		g.Identical && g.StateIdentical && len(BrokenInvariants(g.Invariants)) == 0
}

// GenesisRoundTrip exports the genesis of auth, bank, ecocredit and data from the current state,
// validates each, initialises a FRESH app (same Options, empty MemDB, no Patch) from exactly those
// four geneses, re-exports and compares. Bank and auth are carried over by their own genesis
// export/import, so basket token supplies and fee-pool balances match and the basket-supply
// invariant cannot break spuriously. The import is attempted even if validation failed.
func (a *App) GenesisRoundTrip() GenesisRT {
	var rt GenesisRT
	gen, err := a.ExportGenesis()
	if err != nil {
		rt.ExportErr = err.Error()
		return rt
	}
	rt.Exported = gen
	if errs := a.ValidateGenesis(gen); len(errs) > 0 {
		rt.ValidateErrs = errs
	}
	opts := a.opts
	opts.DB = nil
	opts.Patch = nil
	opts.Genesis = gen
	fresh := New(opts)
	rt.Fresh = fresh
	ir := fresh.InitChain()
	if ir.Panicked {
		rt.ImportPanic = ir.PanicValue
		rt.ImportStack = ir.PanicStack
		return rt
	}
	regen, err := fresh.ExportGenesis()
	if err != nil {
		rt.ReexportErr = err.Error()
		return rt
	}
	rt.Reexported = regen
	rt.Identical = true
	rt.ModuleIdentical = map[string]bool{}
	for _, mod := range genesisOrder {
		x, y := canonJSON(gen[mod]), canonJSON(regen[mod])
		same := bytes.Equal(x, y)
		rt.ModuleIdentical[mod] = same
		if !same {
			rt.Identical = false
			if rt.FirstDiff == "" {
				rt.FirstDiff = mod + ": " + FirstJSONDiff(x, y)
			}
		}
	}
	rt.StateIdentical = snapshotsMatch(a.Snapshot(), fresh.Snapshot())
	rt.Invariants = fresh.Invariants()
	return rt
}

// snapshotsMatch compares two snapshots ignoring block height and time.
func snapshotsMatch(x, y *State) bool { return StatesEqual(x, y) }

// FirstJSONDiff returns "<path>: <a> != <b>" for the first difference between two JSON documents
// (objects are compared in sorted key order), or "" if they are equal.
func FirstJSONDiff(a, b []byte) string {
	var x, y interface{}
	da := json.NewDecoder(bytes.NewReader(a))
	da.UseNumber()
	db := json.NewDecoder(bytes.NewReader(b))
	db.UseNumber()
	if err := da.Decode(&x); err != nil {
		return "$: left is not JSON: " + err.Error()
	}
	if err := db.Decode(&y); err != nil {
		return "$: right is not JSON: " + err.Error()
	}
	return jsonDiff("$", x, y)
}

func short(v interface{}) string {
	s := mustJSON(v)
	if len(s) > 120 {
		s = s[:117] + "..."
	}
	return s
}

func jsonDiff(path string, x, y interface{}) string {
	switch xv := x.(type) {
	case map[string]interface{}:
		yv, ok := y.(map[string]interface{})
		if !ok {
			return fmt.Sprintf("%s: %s != %s", path, short(x), short(y))
		}
		keys := map[string]bool{}
		for k := range xv {
			keys[k] = true
		}
		for k := range yv {
			keys[k] = true
		}
		ks := make([]string, 0, len(keys))
		for k := range keys {
			ks = append(ks, k)
		}
		sort.Strings(ks)
		for _, k := range ks {
			xe, xok := xv[k]
			ye, yok := yv[k]
			if !xok {
				return fmt.Sprintf("%s.%s: <absent> != %s", path, k, short(ye))
			}
			if !yok {
				return fmt.Sprintf("%s.%s: %s != <absent>", path, k, short(xe))
			}
			if d := jsonDiff(path+"."+k, xe, ye); d != "" {
				return d
			}
		}
		return ""
	case []interface{}:
		yv, ok := y.([]interface{})
		if !ok {
			return fmt.Sprintf("%s: %s != %s", path, short(x), short(y))
		}
		for i := 0; i < len(xv) && i < len(yv); i++ {
			if d := jsonDiff(fmt.Sprintf("%s[%d]", path, i), xv[i], yv[i]); d != "" {
				return d
			}
		}
		if len(xv) != len(yv) {
			return fmt.Sprintf("%s: length %d != %d", path, len(xv), len(yv))
		}
		return ""
	default:
		if mustJSON(x) != mustJSON(y) {
			return fmt.Sprintf("%s: %s != %s", path, short(x), short(y))
		}
		return ""
	}
}
