// Package chain is the mini-chain execution core of the differential-testing harness.
//
// It runs real transactions against the REAL keepers of /repo (real baseapp, real x/auth and x/bank
// keepers, IAVL stores on a MemDB, the real x/ecocredit and x/data modules), observes the complete
// module state after every step and writes replayable JSON traces.
//
// See README.md in this directory for the API overview, JSON schemas and everything surprising.
//
// Determinism contract: no wall clock, no goroutines, no map-order dependence in any output. Two runs
// of the same operation sequence on Apps created with equal Options yield byte-identical traces and
// identical app hashes.
//
// Global side effect: importing this package sets the process-wide bech32 account prefix to "regen"
// (as /repo/app does). It does not seal the sdk config.
package chain

import (
	sdk "github.com/cosmos/cosmos-sdk/types"
)

// Bech32Prefix is the account address prefix used by every address string in this package.
const Bech32Prefix = "regen"

// ChainID is the chain id of every mini chain.
const ChainID = "verif-1"

func init() {
	cfg := sdk.GetConfig()
	cfg.SetBech32PrefixForAccount(Bech32Prefix, Bech32Prefix+"pub")
	cfg.SetBech32PrefixForValidator(Bech32Prefix+"valoper", Bech32Prefix+"valoperpub")
	cfg.SetBech32PrefixForConsensusNode(Bech32Prefix+"valcons", Bech32Prefix+"valconspub")
}
