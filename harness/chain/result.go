package chain

import (
	"bytes"
	"encoding/json"
	"runtime"
	"strings"

	abci "github.com/cometbft/cometbft/abci/types"
)

// Step kinds (StepResult.Kind and Item.Kind).
const (
	KindInit      = "init"
	KindBegin     = "begin"
	KindMsg       = "msg"
	KindCommit    = "commit"
	KindRestart   = "restart"
	KindGenesisRT = "genesis_rt"
	KindQuery     = "query"
	KindFund      = "fund"
)

// StepResult is the outcome of one harness operation. Exactly one of three verdicts holds:
//
//	ok     : OK == true
//	error  : OK == false && !Panicked  (Code/Codespace/Log for tx errors, Err for harness or BeginBlocker errors)
//	panic  : Panicked == true          (PanicValue, PanicStack; for txs Code=111222 Codespace="undefined")
type StepResult struct {
	Kind   string `json:"kind"`
	Height int64  `json:"height,omitempty"`
	OK     bool   `json:"ok"`

	// ABCI result of a delivered tx.
	Code      uint32 `json:"code,omitempty"`
	Codespace string `json:"codespace,omitempty"`
	// Log is the ABCI log of a FAILED tx (empty on success, where it would only repeat the events as
	// JSON). For recovered panics the (non-deterministic) stack trace is cut off: Log is
	// "recovered: <panic value>".
	Log       string `json:"log,omitempty"`
	GasUsed   int64  `json:"gas_used,omitempty"`
	GasWanted int64  `json:"gas_wanted,omitempty"`

	// Panicked is set when baseapp recovered a handler panic (DeliverTx), when the BeginBlocker
	// panicked (BeginBlock) or when InitGenesis panicked (InitChain).
	Panicked   bool     `json:"panicked,omitempty"`
	PanicValue string   `json:"panic_value,omitempty"`
	PanicStack []string `json:"panic_stack,omitempty"` // function names only (deterministic)

	// Err is a non-ABCI error: a BeginBlocker error (would halt the chain) or harness misuse
	// (prefixed "harness:").
	Err string `json:"err,omitempty"`

	Events    []Event     `json:"events,omitempty"`
	Responses []TypedJSON `json:"responses,omitempty"` // typed Msg responses decoded from TxMsgData, one per msg

	// AppHash (hex) is set for commit and restart steps.
	AppHash string `json:"app_hash,omitempty"`
}

// Verdict returns "ok", "error" or "panic".
func (r StepResult) Verdict() string {
	switch {
	case r.Panicked:
		return "panic"
	case r.OK:
		return "ok"
	default:
		return "error"
	}
}

// Response returns the first typed response (nil if none).
func (r StepResult) Response() *TypedJSON {
	if len(r.Responses) == 0 {
		return nil
	}
	return &r.Responses[0]
}

// Event is an ABCI event. Typed events (ctx.EventManager().EmitTypedEvent) have Type = the proto
// full name (e.g. "regen.ecocredit.v1.EventCreateClass") and JSON-encoded attribute values.
type Event struct {
	Type  string `json:"type"`
	Attrs []Attr `json:"attrs,omitempty"`
}

// Attr is one event attribute.
type Attr struct {
	Key   string `json:"k"`
	Value string `json:"v"`
}

// Attr returns the value of the first attribute with the given key.
func (e Event) Attr(key string) (string, bool) {
	for _, at := range e.Attrs {
		if at.Key == key {
			return at.Value, true
		}
	}
	return "", false
}

// TypedJSON is a protobuf message as type URL + canonical proto JSON (sorted keys, no whitespace).
type TypedJSON struct {
	TypeURL string          `json:"type_url"`
	JSON    json.RawMessage `json:"json"`
}

func convertEvents(evs []abci.Event) []Event {
	if len(evs) == 0 {
		return nil
	}
	out := make([]Event, len(evs))
	for i, e := range evs {
		out[i].Type = e.Type
		for _, at := range e.Attributes {
			out[i].Attrs = append(out[i].Attrs, Attr{Key: at.Key, Value: at.Value})
		}
	}
	return out
}

// splitPanicLog cuts baseapp's "recovered: <v>\nstack:\n<trace>" log into a deterministic log,
// the panic value and the list of function names on the stack.
func splitPanicLog(log string) (short, value string, stack []string) {
	head := log
	trace := ""
	if i := strings.Index(log, "\nstack:\n"); i >= 0 {
		head = log[:i]
		trace = log[i+len("\nstack:\n"):]
	}
	value = strings.TrimPrefix(head, "recovered: ")
	return head, value, stackFuncs(trace)
}

// stackFuncs extracts function names (no arguments, no addresses) from a debug.Stack() dump, keeping
// only the frames between the panic and baseapp's runTx.
func stackFuncs(trace string) []string {
	var out []string
	seenPanic := false
	for _, ln := range strings.Split(trace, "\n") {
		if ln == "" || strings.HasPrefix(ln, "\t") || strings.HasPrefix(ln, "goroutine ") {
			continue
		}
		fn := ln
		if i := strings.LastIndex(fn, "("); i > 0 {
			fn = fn[:i]
		}
		if !seenPanic {
			if fn == "panic" {
				seenPanic = true
			}
			continue
		}
		if strings.HasSuffix(fn, ".runTx") || strings.HasSuffix(fn, "(*BaseApp).runTx") {
			break
		}
		out = append(out, fn)
		if len(out) >= 16 {
			break
		}
	}
	return out
}

// captureStack returns the function names of the current goroutine's stack below the panic
// (used when the harness itself recovers a panic).
func captureStack() []string {
	pcs := make([]uintptr, 64)
	n := runtime.Callers(2, pcs)
	frames := runtime.CallersFrames(pcs[:n])
	var all []string
	for {
		f, more := frames.Next()
		all = append(all, f.Function)
		if !more {
			break
		}
	}
	// keep frames after runtime.gopanic up to the harness package
	start := 0
	for i, f := range all {
		if f == "runtime.gopanic" {
			start = i + 1
		}
	}
	var out []string
	for _, f := range all[start:] {
		if strings.HasPrefix(f, "verif/harness/chain.") || strings.Contains(f, "baseapp.(*BaseApp)") {
			break
		}
		out = append(out, f)
		if len(out) >= 16 {
			break
		}
	}
	return out
}

// canonJSON re-encodes JSON with sorted object keys and no insignificant whitespace, keeping numbers
// verbatim. Invalid input is returned unchanged.
func canonJSON(in []byte) json.RawMessage {
	dec := json.NewDecoder(bytes.NewReader(in))
	dec.UseNumber()
	var v interface{}
	if err := dec.Decode(&v); err != nil {
		return append(json.RawMessage(nil), in...)
	}
	out, err := marshalNoEscape(v)
	if err != nil {
		return append(json.RawMessage(nil), in...)
	}
	return out
}

// marshalNoEscape is json.Marshal without HTML escaping (keeps "<", ">" and "&" readable).
func marshalNoEscape(v interface{}) ([]byte, error) {
	var buf bytes.Buffer
	enc := json.NewEncoder(&buf)
	enc.SetEscapeHTML(false)
	if err := enc.Encode(v); err != nil {
		return nil, err
	}
	return bytes.TrimRight(buf.Bytes(), "\n"), nil
}
