package chain

import (
	"fmt"
	"reflect"
	"strings"

	abci "github.com/cometbft/cometbft/abci/types"
	gogoproto "github.com/cosmos/gogoproto/proto"
)

// PanicError is returned by Query when the query handler panicked.
type PanicError struct {
	Value string
	Stack []string
}

func (e *PanicError) Error() string { return "query handler panicked: " + e.Value }

// Query routes a gRPC query through the real baseapp GRPCQueryRouter to the real query servers of
// ecocredit (base, basket, marketplace), data and bank. path is the full gRPC method name, e.g.
// "/regen.ecocredit.v1.Query/Classes". The query reads the working state (open block / pending
// genesis) or else the last committed state - i.e. the same state Snapshot observes.
// A panicking handler yields a *PanicError.
func (a *App) Query(path string, req gogoproto.Message, res gogoproto.Message) (err error) {
	h := a.bapp.GRPCQueryRouter().Route(path)
	if h == nil {
		return fmt.Errorf("chain: no query route %q", path)
	}
	bz, err := gogoproto.Marshal(req)
	if err != nil {
		return err
	}
	defer func() {
		if r := recover(); r != nil {
			err = &PanicError{Value: fmt.Sprint(r), Stack: captureStack()}
		}
	}()
	resp, err := h(a.readCtx(), abci.RequestQuery{Path: path, Data: bz})
	if err != nil {
		return err
	}
	return gogoproto.Unmarshal(resp.Value, res)
}

// NewMessageByName instantiates a gogoproto-registered message (any Msg, response, query request or
// query response of the SDK and of /repo) from its full name or type URL ("/" prefix optional).
func NewMessageByName(name string) (gogoproto.Message, error) {
	name = strings.TrimPrefix(name, "/")
	t := gogoproto.MessageType(name)
	if t == nil {
		return nil, fmt.Errorf("chain: unknown message type %q", name)
	}
	m, ok := reflect.New(t.Elem()).Interface().(gogoproto.Message)
	if !ok {
		return nil, fmt.Errorf("chain: %q is not a proto message", name)
	}
	return m, nil
}

// QueryJSON is Query with JSON in and out: reqJSON is the proto JSON of the request type reqTypeURL
// (e.g. "/regen.ecocredit.v1.QueryClassesRequest"), the response is returned as canonical proto JSON
// of resTypeURL.
func (a *App) QueryJSON(path, reqTypeURL string, reqJSON []byte, resTypeURL string) ([]byte, error) {
	req, err := NewMessageByName(reqTypeURL)
	if err != nil {
		return nil, err
	}
	if err := a.cdc.UnmarshalJSON(reqJSON, req); err != nil {
		return nil, err
	}
	res, err := NewMessageByName(resTypeURL)
	if err != nil {
		return nil, err
	}
	if err := a.Query(path, req, res); err != nil {
		return nil, err
	}
	bz, err := a.cdc.MarshalJSON(res)
	if err != nil {
		return nil, err
	}
	return canonJSON(bz), nil
}
