//go:build !verif

package chain

import (
	"fmt"

	storetypes "github.com/cosmos/cosmos-sdk/store/types"
	"github.com/cosmos/cosmos-sdk/types/module"

	data "github.com/regen-network/regen-ledger/x/data/v3"
	"github.com/regen-network/regen-ledger/x/data/v3/server/hasher"
)

// WeakHasherAvailable reports whether this binary was built with the /repo hook
// (x/data/server/server_verif.go, build tags "verif,verifhook").
const WeakHasherAvailable = false

// registerDataServerWithHasher is the stub used until /repo/x/data/server/server_verif.go exists:
// non-production hashers are refused loudly.
func registerDataServerWithHasher(_ module.Configurator, _ storetypes.StoreKey, _ data.AccountKeeper, _ data.BankKeeper, _ hasher.Hasher) (genesisModule, error) {
	return nil, fmt.Errorf("chain: HasherKind != \"prod\" needs the /repo hook x/data/server/server_verif.go " +
		"(see /verif/harness/hooks/PROPOSED_server_verif.go.txt) and build tags \"verif,verifhook\"")
}
