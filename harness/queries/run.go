package queries

import (
	"encoding/hex"
	"fmt"
	"sort"
	"strings"

	"github.com/cosmos/cosmos-sdk/types/query"
	"google.golang.org/grpc/codes"
	"google.golang.org/grpc/status"

	"verif/harness/chain"
	"verif/harness/internal/common"
)

// PageSpec is a pagination scenario (pspec in Regen.Cases.QueryRun).
type PageSpec struct {
	Kind    string `json:"kind"` // nil | one | key+offset | walk-key | walk-offset
	Offset  uint64 `json:"offset,omitempty"`
	Limit   uint64 `json:"limit,omitempty"` // page size k for walks
	Count   bool   `json:"count_total,omitempty"`
	Reverse bool   `json:"reverse,omitempty"`
}

func (p PageSpec) Coq() string {
	switch p.Kind {
	case "nil":
		return "PSNil"
	case "one":
		return fmt.Sprintf("(PSOne %s %s %s %s)", cn(p.Offset), cn(p.Limit), common.CoqBool(p.Count), common.CoqBool(p.Reverse))
	case "key+offset":
		return fmt.Sprintf("(PSKeyAndOffset %s %s)", cn(p.Offset), cn(p.Limit))
	case "walk-key":
		return fmt.Sprintf("(PSWalkKey %s %s %s)", cn(p.Limit), common.CoqBool(p.Count), common.CoqBool(p.Reverse))
	case "walk-offset":
		return fmt.Sprintf("(PSWalkOffset %s %s %s)", cn(p.Limit), common.CoqBool(p.Count), common.CoqBool(p.Reverse))
	}
	panic("queries: page spec " + p.Kind)
}

type PageObs struct {
	Rows    []Row
	Next    bool
	NextKey string // hex, for cases.json only
	Total   uint64
	Present bool
}

// Record is one executed item: what was asked and what the real query service answered.
type Record struct {
	Item     *Item
	Spec     PageSpec
	Pages    []PageObs
	ErrClass int
	ErrMsg   string
	PastEnd  bool // belongs to the separate offset-past-the-end stream
	// oracle
	Want    []Row
	WantErr int
}

func classify(err error) int {
	if err == nil {
		return ErrNone
	}
	if _, ok := err.(*chain.PanicError); ok {
		return ErrPanic
	}
	switch status.Code(err) {
	case codes.NotFound:
		return ErrNotFound
	case codes.InvalidArgument:
		return ErrInvalidArgument
	}
	return ErrOther
}

func short(s string) string {
	if i := strings.Index(s, " [/"); i >= 0 { // cut the source position cosmossdk.io/errors appends
		s = s[:i]
	}
	if len(s) > 200 {
		s = s[:200]
	}
	return s
}

func obs(rows []Row, pr *query.PageResponse) PageObs {
	o := PageObs{Rows: rows}
	if pr != nil {
		o.Present = true
		o.Next = len(pr.NextKey) > 0
		o.NextKey = hex.EncodeToString(pr.NextKey)
		o.Total = pr.Total
	}
	return o
}

// Exec runs the item under the page spec against the real query service.
func Exec(it *Item, spec PageSpec) *Record {
	rec := &Record{Item: it, Spec: spec}
	rec.Want, rec.WantErr = it.oracle()
	fail := func(err error) *Record {
		rec.ErrClass = classify(err)
		rec.ErrMsg = short(err.Error())
		return rec
	}
	switch spec.Kind {
	case "nil":
		rows, pr, err := it.exec(nil)
		if err != nil {
			return fail(err)
		}
		rec.Pages = append(rec.Pages, obs(rows, pr))
	case "one":
		rows, pr, err := it.exec(&query.PageRequest{Offset: spec.Offset, Limit: spec.Limit, CountTotal: spec.Count, Reverse: spec.Reverse})
		if err != nil {
			return fail(err)
		}
		rec.Pages = append(rec.Pages, obs(rows, pr))
	case "key+offset":
		rows, pr, err := it.exec(&query.PageRequest{Key: []byte{1}, Offset: spec.Offset, Limit: spec.Limit})
		if err != nil {
			return fail(err)
		}
		rec.Pages = append(rec.Pages, obs(rows, pr))
	case "walk-key":
		var key []byte
		for guard := 0; ; guard++ {
			rows, pr, err := it.exec(&query.PageRequest{Key: key, Limit: spec.Limit, CountTotal: spec.Count, Reverse: spec.Reverse})
			if err != nil {
				return fail(err)
			}
			rec.Pages = append(rec.Pages, obs(rows, pr))
			if pr == nil || len(pr.NextKey) == 0 {
				break
			}
			key = pr.NextKey
			if guard > 5000 {
				rec.ErrClass, rec.ErrMsg = ErrOther, "harness: key walk does not terminate"
				return rec
			}
		}
	case "walk-offset":
		for i := uint64(0); ; i++ {
			rows, pr, err := it.exec(&query.PageRequest{Offset: i * spec.Limit, Limit: spec.Limit, CountTotal: spec.Count, Reverse: spec.Reverse})
			if err != nil {
				return fail(err)
			}
			rec.Pages = append(rec.Pages, obs(rows, pr))
			if pr == nil || len(pr.NextKey) == 0 {
				break
			}
			if i > 5000 {
				rec.ErrClass, rec.ErrMsg = ErrOther, "harness: offset walk does not terminate"
				return rec
			}
		}
	default:
		panic("queries: page spec " + spec.Kind)
	}
	return rec
}

// Coq prints the record as a qitem.
func (rec *Record) Coq() string {
	var obsT string
	switch {
	case rec.ErrClass != 0:
		obsT = "OErr " + cn(uint64(rec.ErrClass))
	case !rec.Item.List:
		if len(rec.Pages) == 1 && len(rec.Pages[0].Rows) == 1 {
			obsT = "OOne (" + rec.Pages[0].Rows[0].Coq + ")"
		} else {
			obsT = "OPages []" // an ok answer without an entity: never matches
		}
	default:
		var pages []string
		for _, p := range rec.Pages {
			var rows []string
			for _, r := range p.Rows {
				rows = append(rows, r.Coq)
			}
			pages = append(pages, fmt.Sprintf("{| op_rows := %s; op_next := %s; op_total := %s; op_present := %s |}",
				common.CoqList(rows), common.CoqBool(p.Next), cn(p.Total), common.CoqBool(p.Present)))
		}
		obsT = "OPages " + common.CoqList(pages)
	}
	req := rec.Item.CoqReq
	if !rec.Item.DataQ {
		req = "EQ (" + req + ")"
	}
	return fmt.Sprintf("{| qi_req := %s; qi_page := %s; qi_obs := %s |}", req, rec.Spec.Coq(), obsT)
}

// ---------------------------------------------------------------------------------------------
// choosing page specs

func sizes(r *common.Rng, n int) []uint64 {
	cand := []int{1, 2, 3, n - 1, n, n + 1}
	var out []uint64
	seen := map[int]bool{}
	for _, c := range cand {
		if c >= 1 && !seen[c] {
			seen[c] = true
			out = append(out, uint64(c))
		}
	}
	return out
}

// Specs picks the pagination scenarios for a paged list item whose full result has n rows.
// count = how many scenarios (at least one walk when count >= 2).
func Specs(r *common.Rng, n int, count int, walkToggle *int) []PageSpec {
	ks := sizes(r, n)
	var out []PageSpec
	walk := func() PageSpec {
		*walkToggle++
		k := ks[r.Intn(len(ks))]
		kind := "walk-key"
		if *walkToggle%2 == 0 {
			kind = "walk-offset"
		}
		return PageSpec{Kind: kind, Limit: k, Count: r.Bool(), Reverse: r.Chance(1, 4)}
	}
	single := func() PageSpec {
		switch r.Intn(10) {
		case 0, 1:
			return PageSpec{Kind: "nil"}
		case 2:
			// limit 0: everything; without count_total and offset there is no PageResponse at all
			off := uint64(0)
			if r.Chance(1, 3) && n > 0 {
				off = uint64(r.Range(0, n))
			}
			return PageSpec{Kind: "one", Offset: off, Limit: 0, Count: r.Bool(), Reverse: r.Chance(1, 4)}
		case 3:
			return PageSpec{Kind: "key+offset", Offset: uint64(r.Range(1, 3)), Limit: uint64(r.Range(0, 3))}
		case 4, 5:
			return PageSpec{Kind: "one", Offset: uint64(r.Range(0, n)), Limit: ks[r.Intn(len(ks))], Count: r.Bool(), Reverse: r.Chance(1, 4)}
		default:
			return PageSpec{Kind: "one", Offset: 0, Limit: ks[r.Intn(len(ks))], Count: r.Chance(2, 3), Reverse: r.Chance(1, 4)}
		}
	}
	for i := 0; i < count; i++ {
		if i == 0 && count >= 2 {
			out = append(out, walk())
		} else if r.Chance(1, 4) {
			out = append(out, walk())
		} else {
			out = append(out, single())
		}
	}
	return out
}

// ---------------------------------------------------------------------------------------------
// monitors: brute force over the State snapshot, independent of the Coq model

type Violation = common.MonitorViolation

func multiset(rows []Row) map[string]int {
	m := map[string]int{}
	for _, r := range rows {
		m[r.Coq]++
	}
	return m
}

func (rec *Record) input(sc *Scenario) map[string]interface{} {
	return map[string]interface{}{"scenario_seed": sc.Seed, "scenario_kind": sc.Kind, "query": rec.Item.Query, "args": rec.Item.Args, "page": rec.Spec}
}

// Check runs the monitors on one record. orderDiffs counts answers whose row order differs from the
// index order (informational: ordering is not part of the property).
func Check(sc *Scenario, rec *Record, orderDiffs *int, unexpectedErrs *[]string) []Violation {
	var out []Violation
	viol := func(key, desc string) {
		out = append(out, Violation{Property: "C17", Key: key, Desc: rec.Item.Query + ": " + desc, Input: rec.input(sc)})
	}
	if rec.PastEnd || rec.Spec.Kind == "key+offset" {
		return nil // outside the property's quantifier (documented ORM behaviour)
	}
	var got []Row
	for _, p := range rec.Pages {
		got = append(got, p.Rows...)
	}
	if rec.WantErr != 0 {
		// the filter argument refers to nothing (or is malformed): an error or an empty answer is fine
		if rec.ErrClass == 0 && len(got) > 0 {
			viol("query-extra-row", fmt.Sprintf("%d row(s) returned for an argument that matches nothing in state, e.g. %s", len(got), got[0].Coq))
		}
		return out
	}
	if rec.ErrClass != 0 {
		if len(rec.Want) > 0 {
			viol("query-missing-row", fmt.Sprintf("the query failed (%s) although %d row(s) match", rec.ErrMsg, len(rec.Want)))
		} else {
			*unexpectedErrs = append(*unexpectedErrs, rec.Item.Query+": "+rec.ErrMsg)
		}
		return out
	}
	n := uint64(len(rec.Want))
	want := multiset(rec.Want)
	if !rec.Item.List {
		if len(got) != 1 || got[0].Coq != rec.Want[0].Coq {
			g := "nothing"
			if len(got) > 0 {
				g = got[0].Coq
			}
			viol("query-single-entity", fmt.Sprintf("returned %s, stored %s", g, rec.Want[0].Coq))
		}
		return out
	}
	// duplicates and foreign rows, whatever the page
	seen := map[string]int{}
	for _, r := range got {
		seen[r.Coq]++
		if want[r.Coq] == 0 {
			viol("query-extra-row", "returned a row that does not satisfy the filter in state: "+r.Coq)
		} else if seen[r.Coq] == want[r.Coq]+1 {
			viol("query-page-dup", "row returned more than once: "+r.Coq)
		}
	}
	spec := rec.Spec
	full := false
	switch spec.Kind {
	case "walk-key", "walk-offset":
		full = true
		if spec.Count {
			for i, p := range rec.Pages {
				if (spec.Kind == "walk-offset" || i == 0) && p.Total != n {
					viol("query-total", fmt.Sprintf("page %d reports total %d, %d rows match", i, p.Total, n))
				}
			}
		}
	case "nil", "one":
		lim, off := spec.Limit, spec.Offset
		if spec.Kind == "nil" {
			lim, off = 100, 0
		}
		expect := n - off
		if lim != 0 && lim < expect {
			expect = lim
		}
		full = off == 0 && expect == n
		if uint64(len(got)) < expect {
			viol("query-missing-row", fmt.Sprintf("page has %d rows, expected %d (offset %d limit %d of %d)", len(got), expect, off, lim, n))
		}
		if uint64(len(got)) > expect {
			viol("query-extra-row", fmt.Sprintf("page has %d rows, expected %d (offset %d limit %d of %d)", len(got), expect, off, lim, n))
		}
		if spec.Count && rec.Pages[0].Total != n {
			viol("query-total", fmt.Sprintf("total %d, %d rows match", rec.Pages[0].Total, n))
		}
	}
	if full {
		for k, c := range want {
			if seen[k] < c {
				viol("query-missing-row", "a row satisfying the filter is not returned: "+k)
			}
		}
		// order (informational)
		exp := rec.Want
		if spec.Reverse {
			exp = make([]Row, len(rec.Want))
			for i, r := range rec.Want {
				exp[len(rec.Want)-1-i] = r
			}
		}
		if len(exp) == len(got) {
			for i := range exp {
				if exp[i].Coq != got[i].Coq {
					*orderDiffs++
					break
				}
			}
		}
	}
	return out
}

// ---------------------------------------------------------------------------------------------
// one scenario end to end

type CaseResult struct {
	Coq        string
	JSON       map[string]interface{}
	Records    []*Record
	Violations []Violation
	OrderDiffs int
	Unexpected []string
	PastEnd    int
	PastPanics int
}

func addrTable(sc *Scenario) string {
	var rows []string
	for _, acc := range sc.App.AllAccounts() {
		rows = append(rows, fmt.Sprintf("(%s, %s)", cn(uint64(acc.Index)), common.CoqBytes(hexBytes(acc.Hex))))
	}
	var extra []int
	for i := range sc.Extra {
		extra = append(extra, i)
	}
	sort.Ints(extra)
	for _, i := range extra {
		rows = append(rows, fmt.Sprintf("(%s, %s)", cn(uint64(i)), common.CoqBytes(sc.Extra[i])))
	}
	return common.CoqList(rows)
}

// RunScenario builds the state, runs the requests and returns the Coq case.
func RunScenario(id uint64, seed uint64, big bool, budget int) *CaseResult {
	sc := Build(seed, big)
	r := common.NewRng(seed ^ 0x5eed5eed5eed5eed)
	items := sc.Items(r)
	items = append(items, sc.DataItems(r)...)
	res := &CaseResult{}
	toggle := int(seed % 2)
	paged := 0
	for _, it := range items {
		if it.Paged {
			paged++
		}
	}
	// spread the budget: singles once, paged lists 2-3 scenarios (1 for arguments that match nothing)
	per := 2
	if paged > 0 && (budget-(len(items)-paged))/paged >= 3 {
		per = 3
	}
	for _, it := range items {
		want, werr := it.oracle()
		switch {
		case !it.Paged:
			res.Records = append(res.Records, Exec(it, PageSpec{Kind: "nil"}))
		case werr != 0:
			for _, sp := range Specs(r, 0, 1, &toggle) {
				res.Records = append(res.Records, Exec(it, sp))
			}
		default:
			cnt := per
			if len(want) == 0 {
				cnt = 2
			}
			for _, sp := range Specs(r, len(want), cnt, &toggle) {
				res.Records = append(res.Records, Exec(it, sp))
			}
			// results larger than the default page size: the page sizes around it, "everything" and the default
			// page, by key and by offset
			if len(want) > 100 {
				for _, k := range []uint64{100, 101, uint64(len(want)), uint64(len(want)) + 1} {
					res.Records = append(res.Records, Exec(it, PageSpec{Kind: "walk-key", Limit: k, Count: r.Bool()}))
					res.Records = append(res.Records, Exec(it, PageSpec{Kind: "walk-offset", Limit: k, Count: r.Bool()}))
				}
				res.Records = append(res.Records, Exec(it, PageSpec{Kind: "one", Limit: 0, Count: true}))
				res.Records = append(res.Records, Exec(it, PageSpec{Kind: "one", Limit: 1000, Count: r.Bool()}))
				res.Records = append(res.Records, Exec(it, PageSpec{Kind: "nil"}))
			}
		}
	}
	// the separate stream: offsets past the end (known ORM panic); recorded, never a violation
	var pagedItems []*Item
	for _, it := range items {
		if _, e := it.oracle(); it.Paged && e == 0 {
			pagedItems = append(pagedItems, it)
		}
	}
	for i := 0; i < 3 && len(pagedItems) > 0; i++ {
		it := pagedItems[r.Intn(len(pagedItems))]
		want, _ := it.oracle()
		rec := Exec(it, PageSpec{Kind: "one", Offset: uint64(len(want) + r.Range(1, 3)), Limit: uint64(r.Range(0, 3)), Count: r.Bool(), Reverse: r.Chance(1, 4)})
		rec.PastEnd = true
		res.PastEnd++
		if rec.ErrClass == ErrPanic {
			res.PastPanics++
		}
		res.Records = append(res.Records, rec)
	}
	var itemsCoq []string
	var itemsJSON []interface{}
	for _, rec := range res.Records {
		res.Violations = append(res.Violations, Check(sc, rec, &res.OrderDiffs, &res.Unexpected)...)
		itemsCoq = append(itemsCoq, rec.Coq())
		j := map[string]interface{}{"query": rec.Item.Query, "args": rec.Item.Args, "page": rec.Spec, "matching_rows": len(rec.Want)}
		if rec.ErrClass != 0 {
			j["error_class"] = rec.ErrClass
			j["error"] = rec.ErrMsg
		} else {
			var pages []interface{}
			for _, p := range rec.Pages {
				pages = append(pages, map[string]interface{}{"rows": len(p.Rows), "next_key": p.NextKey, "total": p.Total, "page_response": p.Present})
			}
			j["pages"] = pages
		}
		if rec.PastEnd {
			j["stream"] = "offset-past-end"
		}
		itemsJSON = append(itemsJSON, j)
	}
	res.Coq = fmt.Sprintf("{| qc_id := %s;\n   qc_state := %s;\n   qc_data := %s;\n   qc_addrs := %s;\n   qc_items := [\n     %s\n   ] |}",
		cn(id), common.CoqList(StateRows(sc.State)), common.CoqList(DataRows(sc.Data)), addrTable(sc), strings.Join(itemsCoq, ";\n     "))
	counts := map[string]int{}
	for t, rows := range sc.State.Tables {
		if len(rows) > 0 {
			counts[t] = len(rows)
		}
	}
	res.JSON = map[string]interface{}{
		"scenario_seed": seed, "scenario_kind": sc.Kind, "genesis_sequences": sc.PatchTag, "block_open": sc.Open,
		"msgs_ok": sc.OKMsgs, "msgs_failed": sc.Failed, "table_rows": counts, "items": itemsJSON,
		"replay": fmt.Sprintf("queries -one %d (scenario seed %d, big=%v)", id, seed, big),
	}
	return res
}
