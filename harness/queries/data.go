package queries

import (
	"bytes"
	"encoding/hex"
	"fmt"
	"sort"

	sdk "github.com/cosmos/cosmos-sdk/types"
	"github.com/cosmos/cosmos-sdk/types/query"

	"verif/harness/chain"
	"verif/harness/internal/common"

	data "github.com/regen-network/regen-ledger/x/data/v3"
)

// ---------------------------------------------------------------------------------------------
// data part of the scenario: anchors, attestations, resolvers, registrations

var urlPool = []string{"https://r.example", "https://r.example/x", "https://r.example", "https://data.regen.network", "https://r.example/xy"}

// buildData delivers the x/data messages of a scenario and returns the content hashes used.
func buildData(sc *Scenario, r *common.Rng, do func(sdk.Msg) chain.StepResult) {
	a := sc.App
	n := r.Range(3, 8)
	for i := 0; i < n; i++ {
		h := r.Bytes(32)
		if r.Chance(2, 3) {
			g := chain.GraphHash(h)
			sc.Hashes = append(sc.Hashes, &data.ContentHash{Graph: g})
		} else {
			sc.Hashes = append(sc.Hashes, chain.RawHash(h, pick(r, []string{"pdf", "csv", "bin", "jpg"})))
		}
	}
	for _, ch := range sc.Hashes {
		if ch.Graph != nil {
			for _, u := range subset(r, activeUsers, 0, 4) {
				do(a.MsgAttest(u, ch.Graph)) // attesting anchors as well
			}
			if r.Chance(1, 3) {
				do(a.MsgAnchor(r.Intn(activeUsers), ch))
			}
		} else if r.Chance(3, 4) {
			do(a.MsgAnchor(r.Intn(activeUsers), ch))
		}
	}
	type res struct {
		id      uint64
		manager int
		public  bool
	}
	var resolvers []res
	for i := r.Range(2, 5); i > 0; i-- {
		definer := r.Intn(activeUsers)
		public := r.Chance(1, 5)
		out := do(a.MsgDefineResolver(definer, pick(r, urlPool), public))
		if id := respField(out, "resolver_id"); id != "" {
			var v uint64
			fmt.Sscan(id, &v)
			resolvers = append(resolvers, res{v, definer, public})
		}
	}
	for _, rs := range resolvers {
		var hs []*data.ContentHash
		for _, ch := range sc.Hashes {
			if r.Chance(1, 2) {
				hs = append(hs, ch)
			}
		}
		if len(hs) > 0 {
			do(a.MsgRegisterResolver(rs.manager, rs.id, hs...))
		}
	}
	// a hash that is never written to state
	sc.FreshHash = chain.RawHash(r.Bytes(32), "txt")
}

// ---------------------------------------------------------------------------------------------
// view of the data tables

type VDataID struct {
	ID  []byte
	IRI string
}
type VAnchor struct {
	ID []byte
	T  TS
}
type VAttestor struct {
	ID       []byte
	Attestor int
	T        TS
}
type VResolver struct {
	ID      uint64
	URL     string
	Manager *int
}
type VDataResolver struct {
	ID  []byte
	RID uint64
}

type DataView struct {
	IDs           []VDataID
	Anchors       []VAnchor
	Attestors     []VAttestor
	Resolvers     []VResolver
	DataResolvers []VDataResolver
	ResolverSeq   uint64
}

func hexField(v interface{}) []byte {
	m, ok := v.(map[string]interface{})
	if !ok {
		panic(fmt.Sprintf("queries: bytes field %v", v))
	}
	bz, err := hex.DecodeString(str(m["hex"]))
	if err != nil {
		panic(err)
	}
	return bz
}

func NewDataView(st *chain.State) *DataView {
	v := &DataView{ResolverSeq: st.Sequences["Resolver"]}
	for _, r := range st.Tables["DataID"] {
		v.IDs = append(v.IDs, VDataID{hexField(r["id"]), str(r["iri"])})
	}
	for _, r := range st.Tables["DataAnchor"] {
		v.Anchors = append(v.Anchors, VAnchor{hexField(r["id"]), mustTS(r["timestamp"])})
	}
	for _, r := range st.Tables["DataAttestor"] {
		v.Attestors = append(v.Attestors, VAttestor{hexField(r["id"]), addrIdx(r["attestor"]), mustTS(r["timestamp"])})
	}
	for _, r := range st.Tables["Resolver"] {
		var m *int
		if r["manager"] != nil {
			i := addrIdx(r["manager"])
			m = &i
		}
		v.Resolvers = append(v.Resolvers, VResolver{u64(r["id"]), str(r["url"]), m})
	}
	for _, r := range st.Tables["DataResolver"] {
		v.DataResolvers = append(v.DataResolvers, VDataResolver{hexField(r["id"]), u64(r["resolver_id"])})
	}
	return v
}

func (v *DataView) idOfIRI(iri string) []byte {
	for _, d := range v.IDs {
		if d.IRI == iri {
			return d.ID
		}
	}
	return nil
}
func (v *DataView) iriOfID(id []byte) (string, bool) {
	for _, d := range v.IDs {
		if bytes.Equal(d.ID, id) {
			return d.IRI, true
		}
	}
	return "", false
}
func (v *DataView) resolver(id uint64) *VResolver {
	for i := range v.Resolvers {
		if v.Resolvers[i].ID == id {
			return &v.Resolvers[i]
		}
	}
	return nil
}

// DataRows prints the data tables as drow terms of Regen.Cases.DataRun.
func DataRows(v *DataView) []string {
	var rows []string
	for _, d := range v.IDs {
		rows = append(rows, fmt.Sprintf("(DataRun.XDataID %s (Some %s))", common.CoqBytes(d.ID), cs(d.IRI)))
	}
	for _, a := range v.Anchors {
		rows = append(rows, fmt.Sprintf("(DataRun.XAnchor %s (Some %s))", common.CoqBytes(a.ID), coqTS(a.T)))
	}
	for _, a := range v.Attestors {
		rows = append(rows, fmt.Sprintf("(DataRun.XAttestor %s %s (Some %s))", common.CoqBytes(a.ID), ca(a.Attestor), coqTS(a.T)))
	}
	for _, r := range v.Resolvers {
		rows = append(rows, fmt.Sprintf("(DataRun.XResolver %s (Some (%s, %s)))", cn(r.ID), cs(r.URL), optAddr(r.Manager)))
	}
	for _, d := range v.DataResolvers {
		rows = append(rows, fmt.Sprintf("(DataRun.XDataResolver %s %s true)", common.CoqBytes(d.ID), cn(d.RID)))
	}
	rows = append(rows, fmt.Sprintf("(DataRun.XResolverSeq %s)", cn(v.ResolverSeq)))
	return rows
}

func optAddr(m *int) string {
	if m == nil {
		return "None"
	}
	return "(Some " + ca(*m) + ")"
}

func coqHash(ch *data.ContentHash) string {
	if ch.Raw != nil {
		return fmt.Sprintf("(Iri.mkCH (Some (Iri.mkRaw %s %s %s)) None)", common.CoqBytes(ch.Raw.Hash), cn(uint64(ch.Raw.DigestAlgorithm)), cs(ch.Raw.FileExtension))
	}
	g := ch.Graph
	return fmt.Sprintf("(Iri.mkCH None (Some (Iri.mkGraph %s %s %s %s)))", common.CoqBytes(g.Hash), cn(uint64(g.DigestAlgorithm)), cn(uint64(g.CanonicalizationAlgorithm)), cn(uint64(g.MerkleTree)))
}

// ---------------------------------------------------------------------------------------------
// rows, items, oracle

func rowAttestation(iri string, attestor int, t TS) Row {
	return Row{fmt.Sprintf("RAttestation %s %s %s", cs(iri), ca(attestor), coqTS(t))}
}
func rowResolver(id uint64, url string, manager *int) Row {
	return Row{fmt.Sprintf("RResolver %s %s %s", cn(id), cs(url), optAddr(manager))}
}
func rowAnchor(iri string, t TS) Row { return Row{fmt.Sprintf("RAnchor %s %s", cs(iri), coqTS(t))} }

const pData = "/regen.data.v2.Query/"

func (sc *Scenario) attRows(as []*data.AttestationInfo) []Row {
	var out []Row
	for _, a := range as {
		out = append(out, rowAttestation(a.Iri, sc.idxOf(a.Attestor), gts(a.Timestamp)))
	}
	return out
}
func (sc *Scenario) resRow(r *data.ResolverInfo) Row {
	var m *int
	if r.Manager != "" {
		i := sc.idxOf(r.Manager)
		m = &i
	}
	return rowResolver(r.Id, r.Url, m)
}
func (sc *Scenario) resRows(rs []*data.ResolverInfo) []Row {
	var out []Row
	for _, r := range rs {
		out = append(out, sc.resRow(r))
	}
	return out
}

func (sc *Scenario) oAttestationsOfIRI(iri string) ([]Row, int) {
	id := sc.Data.idOfIRI(iri)
	if id == nil {
		return nil, ErrNotFound
	}
	var as []VAttestor
	for _, a := range sc.Data.Attestors {
		if bytes.Equal(a.ID, id) {
			as = append(as, a)
		}
	}
	sort.SliceStable(as, func(i, j int) bool { return sc.addrLess(as[i].Attestor, as[j].Attestor) })
	var out []Row
	for _, a := range as {
		out = append(out, rowAttestation(iri, a.Attestor, a.T))
	}
	return out, 0
}

func (sc *Scenario) oResolversOfIRI(iri string) ([]Row, int) {
	id := sc.Data.idOfIRI(iri)
	if id == nil {
		return nil, ErrNotFound
	}
	var ds []VDataResolver
	for _, d := range sc.Data.DataResolvers {
		if bytes.Equal(d.ID, id) {
			ds = append(ds, d)
		}
	}
	sort.SliceStable(ds, func(i, j int) bool { return ds[i].RID < ds[j].RID })
	var out []Row
	for _, d := range ds {
		r := sc.Data.resolver(d.RID)
		if r == nil {
			return nil, ErrNotFound
		}
		out = append(out, rowResolver(r.ID, r.URL, r.Manager))
	}
	return out, 0
}

func iriOK(iri string) bool {
	if iri == "" {
		return false
	}
	_, err := data.ParseIRI(iri)
	return err == nil
}

func (sc *Scenario) itAttestationsByIRI(iri string) *Item {
	return &Item{Query: "AttestationsByIRI", Args: map[string]string{"iri": iri}, CoqReq: "DQ (DQAttestationsByIRI " + cs(iri) + ")", Paged: true, List: true, DataQ: true,
		exec: func(pg *query.PageRequest) ([]Row, *query.PageResponse, error) {
			var res data.QueryAttestationsByIRIResponse
			err := sc.App.Query(pData+"AttestationsByIRI", &data.QueryAttestationsByIRIRequest{Iri: iri, Pagination: pg}, &res)
			return sc.attRows(res.Attestations), res.Pagination, err
		},
		oracle: func() ([]Row, int) {
			if !iriOK(iri) {
				return nil, ErrInvalidArgument
			}
			return sc.oAttestationsOfIRI(iri)
		}}
}

func (sc *Scenario) itAttestationsByHash(ch *data.ContentHash) *Item {
	iri, ierr := ch.ToIRI()
	return &Item{Query: "AttestationsByHash", Args: map[string]string{"iri": iri}, CoqReq: "DQ (DQAttestationsByHash " + coqHash(ch) + ")", Paged: true, List: true, DataQ: true,
		exec: func(pg *query.PageRequest) ([]Row, *query.PageResponse, error) {
			var res data.QueryAttestationsByHashResponse
			err := sc.App.Query(pData+"AttestationsByHash", &data.QueryAttestationsByHashRequest{ContentHash: ch, Pagination: pg}, &res)
			return sc.attRows(res.Attestations), res.Pagination, err
		},
		oracle: func() ([]Row, int) {
			if ierr != nil {
				return nil, ErrInvalidArgument
			}
			return sc.oAttestationsOfIRI(iri)
		}}
}

func (sc *Scenario) itAttestationsByAttestor(a int) *Item {
	return &Item{Query: "AttestationsByAttestor", Args: map[string]string{"attestor": fmt.Sprint(a)}, CoqReq: "DQ (DQAttestationsByAttestor " + ca(a) + ")", Paged: true, List: true, DataQ: true,
		exec: func(pg *query.PageRequest) ([]Row, *query.PageResponse, error) {
			var res data.QueryAttestationsByAttestorResponse
			err := sc.App.Query(pData+"AttestationsByAttestor", &data.QueryAttestationsByAttestorRequest{Attestor: sc.bech(a), Pagination: pg}, &res)
			return sc.attRows(res.Attestations), res.Pagination, err
		},
		oracle: func() ([]Row, int) {
			var as []VAttestor
			for _, x := range sc.Data.Attestors {
				if x.Attestor == a {
					as = append(as, x)
				}
			}
			sort.SliceStable(as, func(i, j int) bool { return bytes.Compare(as[i].ID, as[j].ID) < 0 })
			var out []Row
			for _, x := range as {
				iri, ok := sc.Data.iriOfID(x.ID)
				if !ok {
					return nil, ErrNotFound
				}
				out = append(out, rowAttestation(iri, a, x.T))
			}
			return out, 0
		}}
}

func (sc *Scenario) itResolversByIRI(iri string) *Item {
	return &Item{Query: "ResolversByIRI", Args: map[string]string{"iri": iri}, CoqReq: "DQ (DQResolversByIRI " + cs(iri) + ")", Paged: true, List: true, DataQ: true,
		exec: func(pg *query.PageRequest) ([]Row, *query.PageResponse, error) {
			var res data.QueryResolversByIRIResponse
			err := sc.App.Query(pData+"ResolversByIRI", &data.QueryResolversByIRIRequest{Iri: iri, Pagination: pg}, &res)
			return sc.resRows(res.Resolvers), res.Pagination, err
		},
		oracle: func() ([]Row, int) {
			if !iriOK(iri) {
				return nil, ErrInvalidArgument
			}
			return sc.oResolversOfIRI(iri)
		}}
}

func (sc *Scenario) itResolversByHash(ch *data.ContentHash) *Item {
	iri, ierr := ch.ToIRI()
	return &Item{Query: "ResolversByHash", Args: map[string]string{"iri": iri}, CoqReq: "DQ (DQResolversByHash " + coqHash(ch) + ")", Paged: true, List: true, DataQ: true,
		exec: func(pg *query.PageRequest) ([]Row, *query.PageResponse, error) {
			var res data.QueryResolversByHashResponse
			err := sc.App.Query(pData+"ResolversByHash", &data.QueryResolversByHashRequest{ContentHash: ch, Pagination: pg}, &res)
			return sc.resRows(res.Resolvers), res.Pagination, err
		},
		oracle: func() ([]Row, int) {
			if ierr != nil {
				return nil, ErrInvalidArgument
			}
			return sc.oResolversOfIRI(iri)
		}}
}

func (sc *Scenario) itResolversByURL(url string) *Item {
	return &Item{Query: "ResolversByURL", Args: map[string]string{"url": url}, CoqReq: "DQ (DQResolversByURL " + cs(url) + ")", Paged: true, List: true, DataQ: true,
		exec: func(pg *query.PageRequest) ([]Row, *query.PageResponse, error) {
			var res data.QueryResolversByURLResponse
			err := sc.App.Query(pData+"ResolversByURL", &data.QueryResolversByURLRequest{Url: url, Pagination: pg}, &res)
			return sc.resRows(res.Resolvers), res.Pagination, err
		},
		oracle: func() ([]Row, int) {
			if url == "" {
				return nil, ErrInvalidArgument
			}
			var rs []VResolver
			for _, r := range sc.Data.Resolvers {
				if r.URL == url {
					rs = append(rs, r)
				}
			}
			sort.SliceStable(rs, func(i, j int) bool { return rs[i].ID < rs[j].ID })
			var out []Row
			for _, r := range rs {
				out = append(out, rowResolver(r.ID, r.URL, r.Manager))
			}
			return out, 0
		}}
}

func (sc *Scenario) itResolver(id uint64) *Item {
	return &Item{Query: "Resolver", Args: map[string]string{"id": fmt.Sprint(id)}, CoqReq: "DQ (DQResolver " + cn(id) + ")", DataQ: true,
		exec: func(*query.PageRequest) ([]Row, *query.PageResponse, error) {
			var res data.QueryResolverResponse
			err := sc.App.Query(pData+"Resolver", &data.QueryResolverRequest{Id: id}, &res)
			if err != nil || res.Resolver == nil {
				return nil, nil, err
			}
			return []Row{sc.resRow(res.Resolver)}, nil, nil
		},
		oracle: func() ([]Row, int) {
			if id == 0 {
				return nil, ErrInvalidArgument
			}
			r := sc.Data.resolver(id)
			if r == nil {
				return nil, ErrNotFound
			}
			return []Row{rowResolver(r.ID, r.URL, r.Manager)}, 0
		}}
}

func (sc *Scenario) itAnchorByIRI(iri string) *Item {
	return &Item{Query: "AnchorByIRI", Args: map[string]string{"iri": iri}, CoqReq: "DQ (DQAnchorByIRI " + cs(iri) + ")", DataQ: true,
		exec: func(*query.PageRequest) ([]Row, *query.PageResponse, error) {
			var res data.QueryAnchorByIRIResponse
			err := sc.App.Query(pData+"AnchorByIRI", &data.QueryAnchorByIRIRequest{Iri: iri}, &res)
			if err != nil || res.Anchor == nil {
				return nil, nil, err
			}
			return []Row{rowAnchor(res.Anchor.Iri, gts(res.Anchor.Timestamp))}, nil, nil
		},
		oracle: func() ([]Row, int) {
			if !iriOK(iri) {
				return nil, ErrInvalidArgument
			}
			id := sc.Data.idOfIRI(iri)
			if id == nil {
				return nil, ErrNotFound
			}
			for _, a := range sc.Data.Anchors {
				if bytes.Equal(a.ID, id) {
					return []Row{rowAnchor(iri, a.T)}, 0
				}
			}
			return nil, ErrNotFound
		}}
}

// DataItems builds the data-module (query, argument) pairs.
func (sc *Scenario) DataItems(r *common.Rng) []*Item {
	var items []*Item
	add := func(present bool, it *Item) {
		it.Present = present
		items = append(items, it)
	}
	hs := append([]*data.ContentHash(nil), sc.Hashes...)
	shuffle(r, hs)
	inState := func(ch *data.ContentHash) bool {
		iri, err := ch.ToIRI()
		return err == nil && sc.Data.idOfIRI(iri) != nil
	}
	for _, ch := range take(hs, 3) {
		iri, _ := ch.ToIRI()
		p := inState(ch)
		add(p, sc.itAttestationsByIRI(iri))
		add(p, sc.itResolversByIRI(iri))
		add(p, sc.itAnchorByIRI(iri))
	}
	for _, ch := range take(hs[len(hs)/2:], 2) {
		p := inState(ch)
		add(p, sc.itAttestationsByHash(ch))
		add(p, sc.itResolversByHash(ch))
	}
	fresh, _ := sc.FreshHash.ToIRI()
	add(false, sc.itAttestationsByIRI(fresh))
	add(false, sc.itResolversByHash(sc.FreshHash))
	add(false, sc.itAnchorByIRI(fresh))
	bad := pick(r, []string{"", "foo", "regen:xyz", "regen:."})
	add(false, sc.itAttestationsByIRI(bad))
	add(false, sc.itResolversByIRI(pick(r, []string{"", "regen:113", "regen"})))
	// an invalid content hash (digest algorithm 0)
	add(false, sc.itAttestationsByHash(&data.ContentHash{Raw: &data.ContentHash_Raw{Hash: r.Bytes(32), DigestAlgorithm: 0, FileExtension: "pdf"}}))

	users := []int{0, 1, 2, 3, 4, 5}
	shuffle(r, users)
	for _, a := range take(users, 3) {
		add(true, sc.itAttestationsByAttestor(a))
	}
	add(false, sc.itAttestationsByAttestor(pick(r, []int{6, 7, 900})))

	urls := map[string]bool{}
	for _, x := range sc.Data.Resolvers {
		urls[x.URL] = true
	}
	us := common.SortedKeys(urls)
	for _, u := range take(prefixFirst(r, us), 3) {
		add(true, sc.itResolversByURL(u))
	}
	for _, u := range []string{"https://r.example/", "https://r.exampl", ""} {
		if !urls[u] {
			add(false, sc.itResolversByURL(u))
		}
	}
	for i := 0; i < 2 && len(sc.Data.Resolvers) > 0; i++ {
		add(true, sc.itResolver(sc.Data.Resolvers[r.Intn(len(sc.Data.Resolvers))].ID))
	}
	add(false, sc.itResolver(sc.Data.ResolverSeq+1))
	add(false, sc.itResolver(0))
	return items
}
