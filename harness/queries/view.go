// Package queries is the correspondence family of property C17 (list queries return exactly the
// matching state; paging neither drops nor repeats): a compact scenario generator on top of
// verif/harness/chain, adapters for every covered gRPC query, a brute-force oracle over the State
// snapshot (monitors), and the Coq case printer for Regen.Cases.QueryRun.
package queries

import (
	"encoding/hex"
	"encoding/json"
	"fmt"
	"math/big"
	"sort"
	"strconv"

	"verif/harness/chain"
	"verif/harness/internal/common"
)

// ---------------------------------------------------------------------------------------------
// typed view of a chain.State (only what the oracle needs)

type TS struct{ S, N int64 }

type VClass struct {
	Key              uint64
	ID               string
	Admin            int
	Metadata, Credit string
}
type VIssuer struct {
	ClassKey uint64
	Issuer   int
}
type VProject struct {
	Key                                 uint64
	ID                                  string
	Admin                               int
	ClassKey                            uint64
	Jurisdiction, Metadata, ReferenceID string
}
type VBatch struct {
	Key                  uint64
	Issuer               int
	ProjectKey           uint64
	Denom, Metadata      string
	Start, End, Issuance TS
	Open                 bool
}
type VBalance struct {
	Addr     int
	BatchKey uint64
	T, R, E  string
}
type VSupply struct {
	BatchKey uint64
	T, R, C  string
}
type VCreditType struct {
	Abbrev, Name, Unit string
	Precision          int64
}
type VBasket struct {
	ID                uint64
	Denom, Name       string
	DisableAutoRetire bool
	Credit            string
	Criteria          string // Coq term of the date criteria
	Exponent          int64
	Curator           int
}
type VBasketClass struct {
	BasketID uint64
	ClassID  string
}
type VBasketBalance struct {
	BasketID uint64
	Denom    string
	Balance  string
	Start    TS
}
type VOrder struct {
	ID                uint64
	Seller            int
	BatchKey          uint64
	Quantity          string
	MarketID          uint64
	AskAmount         string
	DisableAutoRetire bool
	Expiration        *TS
}
type VMarket struct {
	ID            uint64
	Credit, Denom string
}
type VAllowedDenom struct {
	Bank, Display string
	Exponent      int64
}

type View struct {
	Classes        []VClass
	Issuers        []VIssuer
	Projects       []VProject
	Batches        []VBatch
	Balances       []VBalance
	Supplies       []VSupply
	CreditTypes    []VCreditType
	Creators       []int
	BridgeChains   []string
	Baskets        []VBasket
	BasketClasses  []VBasketClass
	BasketBalances []VBasketBalance
	Orders         []VOrder
	Markets        []VMarket
	AllowedDenoms  []VAllowedDenom
}

func u64(v interface{}) uint64 {
	switch x := v.(type) {
	case json.Number:
		n, err := strconv.ParseUint(string(x), 10, 64)
		if err != nil {
			panic(fmt.Sprintf("queries: not a uint64: %v", v))
		}
		return n
	case string:
		n, err := strconv.ParseUint(x, 10, 64)
		if err != nil {
			panic(fmt.Sprintf("queries: not a uint64: %v", v))
		}
		return n
	case float64:
		return uint64(x)
	case nil:
		return 0
	}
	panic(fmt.Sprintf("queries: not a number: %T %v", v, v))
}

func i64(v interface{}) int64 {
	switch x := v.(type) {
	case json.Number:
		n, err := strconv.ParseInt(string(x), 10, 64)
		if err != nil {
			panic(fmt.Sprintf("queries: not an int64: %v", v))
		}
		return n
	case string:
		n, err := strconv.ParseInt(x, 10, 64)
		if err != nil {
			panic(fmt.Sprintf("queries: not an int64: %v", v))
		}
		return n
	case float64:
		return int64(x)
	case nil:
		return 0
	}
	panic(fmt.Sprintf("queries: not a number: %T %v", v, v))
}

func str(v interface{}) string {
	if v == nil {
		return ""
	}
	return v.(string)
}

func boolean(v interface{}) bool {
	if v == nil {
		return false
	}
	return v.(bool)
}

// addrIdx decodes {"addr": i}; unknown addresses ({"hex":..}) and empty ones are outside the
// scenarios this family generates.
func addrIdx(v interface{}) int {
	m, ok := v.(map[string]interface{})
	if !ok {
		panic(fmt.Sprintf("queries: address %v is not a known account", v))
	}
	a, ok := m["addr"]
	if !ok {
		panic(fmt.Sprintf("queries: address %v is not a known account", v))
	}
	return int(i64(a))
}

func tsOf(v interface{}) *TS {
	if v == nil {
		return nil
	}
	m := v.(map[string]interface{})
	return &TS{S: i64(m["s"]), N: i64(m["n"])}
}

func mustTS(v interface{}) TS {
	t := tsOf(v)
	if t == nil {
		panic("queries: missing timestamp")
	}
	return *t
}

func criteriaTerm(v interface{}) string {
	if v == nil {
		return "DCNone"
	}
	m := v.(map[string]interface{})
	if t := tsOf(m["min_start_date"]); t != nil {
		return "(DCMinStart " + coqTS(*t) + ")"
	}
	if d := tsOf(m["start_date_window"]); d != nil {
		return fmt.Sprintf("(DCWindow %s %s)", common.CoqZi(d.S), common.CoqZi(d.N))
	}
	if y := i64(m["years_in_the_past"]); y != 0 {
		return "(DCYears " + common.CoqZi(y) + ")"
	}
	return "DCNone"
}

func NewView(st *chain.State) *View {
	v := &View{}
	for _, r := range st.Tables["Class"] {
		v.Classes = append(v.Classes, VClass{u64(r["key"]), str(r["id"]), addrIdx(r["admin"]), str(r["metadata"]), str(r["credit_type_abbrev"])})
	}
	for _, r := range st.Tables["ClassIssuer"] {
		v.Issuers = append(v.Issuers, VIssuer{u64(r["class_key"]), addrIdx(r["issuer"])})
	}
	for _, r := range st.Tables["Project"] {
		v.Projects = append(v.Projects, VProject{u64(r["key"]), str(r["id"]), addrIdx(r["admin"]), u64(r["class_key"]),
			str(r["jurisdiction"]), str(r["metadata"]), str(r["reference_id"])})
	}
	for _, r := range st.Tables["Batch"] {
		v.Batches = append(v.Batches, VBatch{u64(r["key"]), addrIdx(r["issuer"]), u64(r["project_key"]), str(r["denom"]), str(r["metadata"]),
			mustTS(r["start_date"]), mustTS(r["end_date"]), mustTS(r["issuance_date"]), boolean(r["open"])})
	}
	for _, r := range st.Tables["BatchBalance"] {
		v.Balances = append(v.Balances, VBalance{addrIdx(r["address"]), u64(r["batch_key"]), str(r["tradable_amount"]), str(r["retired_amount"]), str(r["escrowed_amount"])})
	}
	for _, r := range st.Tables["BatchSupply"] {
		v.Supplies = append(v.Supplies, VSupply{u64(r["batch_key"]), str(r["tradable_amount"]), str(r["retired_amount"]), str(r["cancelled_amount"])})
	}
	for _, r := range st.Tables["CreditType"] {
		v.CreditTypes = append(v.CreditTypes, VCreditType{str(r["abbreviation"]), str(r["name"]), str(r["unit"]), i64(r["precision"])})
	}
	for _, r := range st.Tables["AllowedClassCreator"] {
		v.Creators = append(v.Creators, addrIdx(r["address"]))
	}
	for _, r := range st.Tables["AllowedBridgeChain"] {
		v.BridgeChains = append(v.BridgeChains, str(r["chain_name"]))
	}
	for _, r := range st.Tables["Basket"] {
		v.Baskets = append(v.Baskets, VBasket{u64(r["id"]), str(r["basket_denom"]), str(r["name"]), boolean(r["disable_auto_retire"]),
			str(r["credit_type_abbrev"]), criteriaTerm(r["date_criteria"]), i64(r["exponent"]), addrIdx(r["curator"])})
	}
	for _, r := range st.Tables["BasketClass"] {
		v.BasketClasses = append(v.BasketClasses, VBasketClass{u64(r["basket_id"]), str(r["class_id"])})
	}
	for _, r := range st.Tables["BasketBalance"] {
		v.BasketBalances = append(v.BasketBalances, VBasketBalance{u64(r["basket_id"]), str(r["batch_denom"]), str(r["balance"]), mustTS(r["batch_start_date"])})
	}
	for _, r := range st.Tables["SellOrder"] {
		v.Orders = append(v.Orders, VOrder{u64(r["id"]), addrIdx(r["seller"]), u64(r["batch_key"]), str(r["quantity"]), u64(r["market_id"]),
			str(r["ask_amount"]), boolean(r["disable_auto_retire"]), tsOf(r["expiration"])})
	}
	for _, r := range st.Tables["Market"] {
		v.Markets = append(v.Markets, VMarket{u64(r["id"]), str(r["credit_type_abbrev"]), str(r["bank_denom"])})
	}
	for _, r := range st.Tables["AllowedDenom"] {
		v.AllowedDenoms = append(v.AllowedDenoms, VAllowedDenom{str(r["bank_denom"]), str(r["display_denom"]), i64(r["exponent"])})
	}
	return v
}

func (v *View) classByKey(k uint64) *VClass {
	for i := range v.Classes {
		if v.Classes[i].Key == k {
			return &v.Classes[i]
		}
	}
	return nil
}
func (v *View) classByID(id string) *VClass {
	for i := range v.Classes {
		if v.Classes[i].ID == id {
			return &v.Classes[i]
		}
	}
	return nil
}
func (v *View) projectByKey(k uint64) *VProject {
	for i := range v.Projects {
		if v.Projects[i].Key == k {
			return &v.Projects[i]
		}
	}
	return nil
}
func (v *View) projectByID(id string) *VProject {
	for i := range v.Projects {
		if v.Projects[i].ID == id {
			return &v.Projects[i]
		}
	}
	return nil
}
func (v *View) batchByKey(k uint64) *VBatch {
	for i := range v.Batches {
		if v.Batches[i].Key == k {
			return &v.Batches[i]
		}
	}
	return nil
}
func (v *View) batchByDenom(d string) *VBatch {
	for i := range v.Batches {
		if v.Batches[i].Denom == d {
			return &v.Batches[i]
		}
	}
	return nil
}
func (v *View) basketByDenom(d string) *VBasket {
	for i := range v.Baskets {
		if v.Baskets[i].Denom == d {
			return &v.Baskets[i]
		}
	}
	return nil
}
func (v *View) marketByID(id uint64) *VMarket {
	for i := range v.Markets {
		if v.Markets[i].ID == id {
			return &v.Markets[i]
		}
	}
	return nil
}

// ---------------------------------------------------------------------------------------------
// Coq terms: the rowv syntax of Regen.Cases.LedgerRun (a port of driver/ledger_cases.py row_term /
// state_rows(st, False))

func coqTS(t TS) string {
	return fmt.Sprintf("{| secs := %s; nanos := %s |}", common.CoqZi(t.S), common.CoqZi(t.N))
}

func coqZs(s string) string {
	if s == "" {
		s = "0"
	}
	z, ok := new(big.Int).SetString(s, 10)
	if !ok {
		panic("queries: not an integer: " + s)
	}
	return common.CoqZ(z)
}

func coqAddr(v interface{}) string { return common.CoqN(uint64(addrIdx(v))) }

func coqCoinOpt(v interface{}) string {
	if v == nil {
		return "None"
	}
	m := v.(map[string]interface{})
	return fmt.Sprintf("(Some {| c_denom := %s; c_amount := %s |})", common.CoqStr(str(m["denom"])), coqZs(str(m["amount"])))
}

func coqTSOpt(v interface{}) string {
	t := tsOf(v)
	if t == nil {
		return "None"
	}
	return "(Some " + coqTS(*t) + ")"
}

var seqIDs = map[string]uint64{"Class": 0, "Project": 1, "Batch": 2, "Basket": 3, "SellOrder": 4, "Market": 5}
var ignoredTables = map[string]bool{"ProjectEnrollment": true, "ProjectFee": true, "DataID": true, "DataAnchor": true,
	"DataAttestor": true, "Resolver": true, "DataResolver": true}

func rowTerm(table string, r chain.Row) string {
	S := func(k string) string { return common.CoqStr(str(r[k])) }
	N := func(k string) string { return common.CoqN(u64(r[k])) }
	Z := func(k string) string { return common.CoqZi(i64(r[k])) }
	B := func(k string) string { return common.CoqBool(boolean(r[k])) }
	switch table {
	case "CreditType":
		return fmt.Sprintf("(XCreditType %s (Some (%s, %s, %s)))", S("abbreviation"), S("name"), S("unit"), Z("precision"))
	case "Class":
		return fmt.Sprintf("(XClass %s (Some {| cl_id := %s; cl_admin := %s; cl_metadata := %s; cl_ct := %s |}))",
			N("key"), S("id"), coqAddr(r["admin"]), S("metadata"), S("credit_type_abbrev"))
	case "ClassIssuer":
		return fmt.Sprintf("(XIssuer %s %s true)", N("class_key"), coqAddr(r["issuer"]))
	case "Project":
		return fmt.Sprintf("(XProject %s (Some {| pj_id := %s; pj_admin := %s; pj_class_key := %s; pj_jurisdiction := %s; pj_metadata := %s; pj_reference_id := %s |}))",
			N("key"), S("id"), coqAddr(r["admin"]), N("class_key"), S("jurisdiction"), S("metadata"), S("reference_id"))
	case "Batch":
		return fmt.Sprintf("(XBatch %s (Some {| ba_issuer := %s; ba_project_key := %s; ba_denom := %s; ba_metadata := %s; ba_start := %s; ba_end := %s; ba_issuance := %s; ba_open := %s |}))",
			N("key"), coqAddr(r["issuer"]), N("project_key"), S("denom"), S("metadata"), coqTS(mustTS(r["start_date"])), coqTS(mustTS(r["end_date"])),
			coqTS(mustTS(r["issuance_date"])), B("open"))
	case "ClassSequence":
		return fmt.Sprintf("(XClassSeq %s (Some %s))", S("credit_type_abbrev"), N("next_sequence"))
	case "ProjectSequence":
		return fmt.Sprintf("(XProjectSeq %s (Some %s))", N("class_key"), N("next_sequence"))
	case "BatchSequence":
		return fmt.Sprintf("(XBatchSeq %s (Some %s))", N("project_key"), N("next_sequence"))
	case "BatchBalance":
		return fmt.Sprintf("(XBalance %s %s (Some (%s, %s, %s)))", coqAddr(r["address"]), N("batch_key"), S("tradable_amount"), S("retired_amount"), S("escrowed_amount"))
	case "BatchSupply":
		return fmt.Sprintf("(XSupply %s (Some (%s, %s, %s)))", N("batch_key"), S("tradable_amount"), S("retired_amount"), S("cancelled_amount"))
	case "OriginTxIndex":
		return fmt.Sprintf("(XOriginTx %s %s %s true)", N("class_key"), S("id"), S("source"))
	case "BatchContract":
		return fmt.Sprintf("(XContract %s (Some (%s, %s)))", N("batch_key"), N("class_key"), S("contract"))
	case "ClassCreatorAllowlist":
		return fmt.Sprintf("(XAllowlist %s)", B("enabled"))
	case "AllowedClassCreator":
		return fmt.Sprintf("(XCreator %s true)", coqAddr(r["address"]))
	case "ClassFee":
		return fmt.Sprintf("(XClassFee %s)", coqCoinOpt(r["fee"]))
	case "AllowedBridgeChain":
		return fmt.Sprintf("(XBridgeChain %s true)", S("chain_name"))
	case "Basket":
		return fmt.Sprintf("(XBasket %s (Some {| bk_denom := %s; bk_name := %s; bk_disable_auto_retire := %s; bk_ct := %s; bk_criteria := %s; bk_exponent := %s; bk_curator := %s |}))",
			N("id"), S("basket_denom"), S("name"), B("disable_auto_retire"), S("credit_type_abbrev"), criteriaTerm(r["date_criteria"]), Z("exponent"), coqAddr(r["curator"]))
	case "BasketClass":
		return fmt.Sprintf("(XBasketClass %s %s true)", N("basket_id"), S("class_id"))
	case "BasketBalance":
		return fmt.Sprintf("(XBasketBalance %s %s (Some (%s, %s)))", N("basket_id"), S("batch_denom"), S("balance"), coqTS(mustTS(r["batch_start_date"])))
	case "BasketFee":
		return fmt.Sprintf("(XBasketFee %s)", coqCoinOpt(r["fee"]))
	case "SellOrder":
		return fmt.Sprintf("(XOrder %s (Some {| so_seller := %s; so_batch_key := %s; so_quantity := %s; so_market_id := %s; so_ask_amount := %s; so_disable_auto_retire := %s; so_expiration := %s; so_maker := %s |}))",
			N("id"), coqAddr(r["seller"]), N("batch_key"), S("quantity"), N("market_id"), coqZs(str(r["ask_amount"])), B("disable_auto_retire"), coqTSOpt(r["expiration"]), B("maker"))
	case "AllowedDenom":
		return fmt.Sprintf("(XAllowedDenom %s (Some (%s, %s)))", S("bank_denom"), S("display_denom"), Z("exponent"))
	case "Market":
		return fmt.Sprintf("(XMarket %s (Some {| mk_ct := %s; mk_denom := %s; mk_precision_modifier := %s |}))", N("id"), S("credit_type_abbrev"), S("bank_denom"), Z("precision_modifier"))
	case "FeeParams":
		return fmt.Sprintf("(XFeeParams %s %s)", S("buyer_percentage_fee"), S("seller_percentage_fee"))
	}
	panic("queries: table " + table + " is not part of the ledger model")
}

// StateRows prints a snapshot as rowv terms. The bank part of the state is irrelevant to the
// ecocredit queries and is left out (build_state starts from empty maps).
func StateRows(st *chain.State) []string {
	var rows []string
	names := make([]string, 0, len(st.Tables))
	for t := range st.Tables {
		names = append(names, t)
	}
	sort.Strings(names)
	for _, t := range names {
		if ignoredTables[t] {
			continue
		}
		for _, r := range st.Tables[t] {
			rows = append(rows, rowTerm(t, r))
		}
	}
	for _, t := range common.SortedKeys(st.Sequences) {
		if id, ok := seqIDs[t]; ok {
			rows = append(rows, fmt.Sprintf("(XSeq %s %s)", common.CoqN(id), common.CoqN(st.Sequences[t])))
		}
	}
	return rows
}

func hexBytes(s string) []byte {
	bz, err := hex.DecodeString(s)
	if err != nil {
		panic(err)
	}
	return bz
}
