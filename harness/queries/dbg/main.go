package main

import (
	"fmt"
	"os"
	"strconv"

	"verif/harness/queries"
)

func main() {
	seed, _ := strconv.ParseUint(os.Args[1], 10, 64)
	sc := queries.Build(seed, os.Args[2] == "big")
	fmt.Println(sc.Kind, sc.PatchTag, sc.OKMsgs, sc.Failed)
	for _, l := range sc.FailLog {
		fmt.Println("  ", l)
	}
	fmt.Println(len(sc.View.Classes), len(sc.View.Projects), len(sc.View.Batches))
}
