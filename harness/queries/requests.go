package queries

import (
	"bytes"
	"fmt"
	"sort"
	"strings"

	sdk "github.com/cosmos/cosmos-sdk/types"
	"github.com/cosmos/cosmos-sdk/types/query"
	gogotypes "github.com/cosmos/gogoproto/types"

	"verif/harness/internal/common"

	ecobase "github.com/regen-network/regen-ledger/x/ecocredit/v3/base"
	base "github.com/regen-network/regen-ledger/x/ecocredit/v3/base/types/v1"
	basket "github.com/regen-network/regen-ledger/x/ecocredit/v3/basket/types/v1"
	market "github.com/regen-network/regen-ledger/x/ecocredit/v3/marketplace/types/v1"
)

// error classes shared with Regen.Cases.QueryRun (OErr)
const (
	ErrNone            = 0
	ErrNotFound        = 1
	ErrInvalidArgument = 2
	ErrOther           = 3
	ErrPanic           = 4
)

// Row is one result row: its Coq term (type qrow bytes). The term renders every compared field
// canonically, so it also serves as the identity of the row for the monitors.
type Row struct{ Coq string }

const unknownAddrIdx = 999999

func (sc *Scenario) accAddr(i int) sdk.AccAddress {
	if a, ok := sc.Extra[i]; ok {
		return a
	}
	return sc.App.AccAddr(i)
}
func (sc *Scenario) bech(i int) string { return sc.accAddr(i).String() }

func (sc *Scenario) idxOf(bech32 string) int {
	if i, ok := sc.App.AddrIndex(bech32); ok {
		return i
	}
	for i, a := range sc.Extra {
		if a.String() == bech32 {
			return i
		}
	}
	return unknownAddrIdx
}

// ---------------------------------------------------------------------------------------------
// row constructors (used by both the response decoders and the oracle)

func cs(s string) string { return common.CoqStr(s) }
func cn(n uint64) string { return common.CoqN(n) }
func ca(i int) string    { return common.CoqN(uint64(i)) }

func rowClass(id string, admin int, md, ct string) Row {
	return Row{fmt.Sprintf("RClass %s %s %s %s", cs(id), ca(admin), cs(md), cs(ct))}
}
func rowProject(id string, admin int, classID, jur, md, ref string) Row {
	return Row{fmt.Sprintf("RProject %s %s %s %s %s %s", cs(id), ca(admin), cs(classID), cs(jur), cs(md), cs(ref))}
}
func rowBatch(issuer int, projectID, denom, md string, s, e, i TS, open bool) Row {
	return Row{fmt.Sprintf("RBatch %s %s %s %s %s %s %s %s", ca(issuer), cs(projectID), cs(denom), cs(md), coqTS(s), coqTS(e), coqTS(i), common.CoqBool(open))}
}
func rowBalance(addr int, denom, t, r, e string) Row {
	return Row{fmt.Sprintf("RBalance %s %s %s %s %s", ca(addr), cs(denom), cs(t), cs(r), cs(e))}
}
func rowSupply(t, r, c string) Row { return Row{fmt.Sprintf("RSupply %s %s %s", cs(t), cs(r), cs(c))} }
func rowCreditType(abbrev, name, unit string, precision int64) Row {
	return Row{fmt.Sprintf("RCreditType %s %s %s %s", cs(abbrev), cs(name), cs(unit), common.CoqZi(precision))}
}
func rowAddr(a int) Row      { return Row{"RAddr " + ca(a)} }
func rowStr(s string) Row    { return Row{"RStr " + cs(s)} }
func rowAmount(s string) Row { return Row{"RAmount " + cs(s)} }
func rowBasket(id uint64, denom, name string, dar bool, ct, criteria string, exponent int64, curator int) Row {
	return Row{fmt.Sprintf("RBasket %s %s %s %s %s %s %s %s", cn(id), cs(denom), cs(name), common.CoqBool(dar), cs(ct), criteria, common.CoqZi(exponent), ca(curator))}
}
func rowBasketOne(id uint64, denom, name string, dar bool, ct, criteria string, exponent int64, curator int, classes []string) Row {
	var cl []string
	for _, c := range classes {
		cl = append(cl, cs(c))
	}
	return Row{fmt.Sprintf("RBasketOne %s %s %s %s %s %s %s %s %s", cn(id), cs(denom), cs(name), common.CoqBool(dar), cs(ct), criteria, common.CoqZi(exponent), ca(curator), common.CoqList(cl))}
}
func rowBasketBalance(id uint64, denom, bal string, start TS) Row {
	return Row{fmt.Sprintf("RBasketBalance %s %s %s %s", cn(id), cs(denom), cs(bal), coqTS(start))}
}
func rowOrder(id uint64, seller int, denom, qty, askDenom, askAmount string, dar bool, exp *TS) Row {
	e := "None"
	if exp != nil {
		e = "(Some " + coqTS(*exp) + ")"
	}
	amt := "0%Z"
	if isInt(askAmount) {
		amt = coqZs(askAmount)
	} else {
		amt = "(-1)%Z" // not an integer string: cannot equal any stored amount
	}
	return Row{fmt.Sprintf("ROrder %s %s %s %s %s %s %s %s", cn(id), ca(seller), cs(denom), cs(qty), cs(askDenom), amt, common.CoqBool(dar), e)}
}
func rowAllowedDenom(bank, display string, exponent int64) Row {
	return Row{fmt.Sprintf("RAllowedDenom %s %s %s", cs(bank), cs(display), common.CoqZi(exponent))}
}

func isInt(s string) bool {
	if s == "" {
		return false
	}
	for i, c := range s {
		if c == '-' && i == 0 && len(s) > 1 {
			continue
		}
		if c < '0' || c > '9' {
			return false
		}
	}
	return true
}

func gts(t *gogotypes.Timestamp) TS {
	if t == nil {
		return TS{-1, -1}
	}
	return TS{t.Seconds, int64(t.Nanos)}
}
func gtsOpt(t *gogotypes.Timestamp) *TS {
	if t == nil {
		return nil
	}
	return &TS{t.Seconds, int64(t.Nanos)}
}

func criteriaOfResp(dc *basket.DateCriteria) string {
	if dc == nil {
		return "DCNone"
	}
	if dc.MinStartDate != nil {
		return "(DCMinStart " + coqTS(gts(dc.MinStartDate)) + ")"
	}
	if dc.StartDateWindow != nil {
		return fmt.Sprintf("(DCWindow %s %s)", common.CoqZi(dc.StartDateWindow.Seconds), common.CoqZi(int64(dc.StartDateWindow.Nanos)))
	}
	if dc.YearsInThePast != 0 {
		return "(DCYears " + common.CoqZi(int64(dc.YearsInThePast)) + ")"
	}
	return "DCNone"
}

// ---------------------------------------------------------------------------------------------
// items: one (query, arguments) pair with its adapter and its oracle

type Item struct {
	Query  string
	Args   map[string]string
	CoqReq string
	DataQ  bool // a request to the data query service (CoqReq is already wrapped in DQ)
	Paged  bool // takes a PageRequest
	List   bool // returns a list (paged or not)
	// Present tells whether the filter argument refers to something in the state
	Present bool
	exec    func(pg *query.PageRequest) ([]Row, *query.PageResponse, error)
	oracle  func() ([]Row, int)
}

func (sc *Scenario) classRows(cs []*base.ClassInfo) []Row {
	var out []Row
	for _, c := range cs {
		out = append(out, rowClass(c.Id, sc.idxOf(c.Admin), c.Metadata, c.CreditTypeAbbrev))
	}
	return out
}
func (sc *Scenario) projectRow(p *base.ProjectInfo) Row {
	return rowProject(p.Id, sc.idxOf(p.Admin), p.ClassId, p.Jurisdiction, p.Metadata, p.ReferenceId)
}
func (sc *Scenario) projectRows(ps []*base.ProjectInfo) []Row {
	var out []Row
	for _, p := range ps {
		out = append(out, sc.projectRow(p))
	}
	return out
}
func (sc *Scenario) batchRow(b *base.BatchInfo) Row {
	return rowBatch(sc.idxOf(b.Issuer), b.ProjectId, b.Denom, b.Metadata, gts(b.StartDate), gts(b.EndDate), gts(b.IssuanceDate), b.Open)
}
func (sc *Scenario) batchRows(bs []*base.BatchInfo) []Row {
	var out []Row
	for _, b := range bs {
		out = append(out, sc.batchRow(b))
	}
	return out
}
func (sc *Scenario) balanceRow(b *base.BatchBalanceInfo) Row {
	return rowBalance(sc.idxOf(b.Address), b.BatchDenom, b.TradableAmount, b.RetiredAmount, b.EscrowedAmount)
}
func (sc *Scenario) balanceRows(bs []*base.BatchBalanceInfo) []Row {
	var out []Row
	for _, b := range bs {
		out = append(out, sc.balanceRow(b))
	}
	return out
}
func (sc *Scenario) orderRow(o *market.SellOrderInfo) Row {
	return rowOrder(o.Id, sc.idxOf(o.Seller), o.BatchDenom, o.Quantity, o.AskDenom, o.AskAmount, o.DisableAutoRetire, gtsOpt(o.Expiration))
}
func (sc *Scenario) orderRows(os []*market.SellOrderInfo) []Row {
	var out []Row
	for _, o := range os {
		out = append(out, sc.orderRow(o))
	}
	return out
}

// ---- oracle helpers over the View (brute force, no index / prefix logic)

func (sc *Scenario) addrLess(x, y int) bool {
	return bytes.Compare(sc.accAddr(x), sc.accAddr(y)) < 0
}

func (sc *Scenario) oClass(c *VClass) Row { return rowClass(c.ID, c.Admin, c.Metadata, c.Credit) }
func (sc *Scenario) oProject(p *VProject) (Row, bool) {
	c := sc.View.classByKey(p.ClassKey)
	if c == nil {
		return Row{}, false
	}
	return rowProject(p.ID, p.Admin, c.ID, p.Jurisdiction, p.Metadata, p.ReferenceID), true
}
func (sc *Scenario) oBatch(b *VBatch) (Row, bool) {
	p := sc.View.projectByKey(b.ProjectKey)
	if p == nil {
		return Row{}, false
	}
	return rowBatch(b.Issuer, p.ID, b.Denom, b.Metadata, b.Start, b.End, b.Issuance, b.Open), true
}
func (sc *Scenario) oBalance(b *VBalance) (Row, bool) {
	ba := sc.View.batchByKey(b.BatchKey)
	if ba == nil {
		return Row{}, false
	}
	return rowBalance(b.Addr, ba.Denom, b.T, b.R, b.E), true
}
func (sc *Scenario) oOrder(o *VOrder) (Row, bool) {
	ba := sc.View.batchByKey(o.BatchKey)
	m := sc.View.marketByID(o.MarketID)
	if ba == nil || m == nil {
		return Row{}, false
	}
	return rowOrder(o.ID, o.Seller, ba.Denom, o.Quantity, m.Denom, o.AskAmount, o.DisableAutoRetire, o.Expiration), true
}
func (sc *Scenario) oBasket(b *VBasket) Row {
	return rowBasket(b.ID, b.Denom, b.Name, b.DisableAutoRetire, b.Credit, b.Criteria, b.Exponent, b.Curator)
}

func (sc *Scenario) oProjects(filter func(*VProject) bool, byID bool) ([]Row, int) {
	var ps []*VProject
	for i := range sc.View.Projects {
		if filter(&sc.View.Projects[i]) {
			ps = append(ps, &sc.View.Projects[i])
		}
	}
	if byID {
		sort.SliceStable(ps, func(i, j int) bool { return ps[i].ID < ps[j].ID })
	} else {
		sort.SliceStable(ps, func(i, j int) bool { return ps[i].Key < ps[j].Key })
	}
	var out []Row
	for _, p := range ps {
		r, ok := sc.oProject(p)
		if !ok {
			return nil, ErrNotFound
		}
		out = append(out, r)
	}
	return out, 0
}

func (sc *Scenario) oBatches(filter func(*VBatch) bool, byDenom bool) ([]Row, int) {
	var bs []*VBatch
	for i := range sc.View.Batches {
		if filter(&sc.View.Batches[i]) {
			bs = append(bs, &sc.View.Batches[i])
		}
	}
	if byDenom {
		sort.SliceStable(bs, func(i, j int) bool { return bs[i].Denom < bs[j].Denom })
	} else {
		sort.SliceStable(bs, func(i, j int) bool { return bs[i].Key < bs[j].Key })
	}
	var out []Row
	for _, b := range bs {
		r, ok := sc.oBatch(b)
		if !ok {
			return nil, ErrNotFound
		}
		out = append(out, r)
	}
	return out, 0
}

func (sc *Scenario) oBalances(filter func(*VBalance) bool, less func(x, y *VBalance) bool) ([]Row, int) {
	var bs []*VBalance
	for i := range sc.View.Balances {
		if filter(&sc.View.Balances[i]) {
			bs = append(bs, &sc.View.Balances[i])
		}
	}
	sort.SliceStable(bs, func(i, j int) bool { return less(bs[i], bs[j]) })
	var out []Row
	for _, b := range bs {
		r, ok := sc.oBalance(b)
		if !ok {
			return nil, ErrNotFound
		}
		out = append(out, r)
	}
	return out, 0
}

func (sc *Scenario) oOrders(filter func(*VOrder) bool) ([]Row, int) {
	var os []*VOrder
	for i := range sc.View.Orders {
		if filter(&sc.View.Orders[i]) {
			os = append(os, &sc.View.Orders[i])
		}
	}
	sort.SliceStable(os, func(i, j int) bool { return os[i].ID < os[j].ID })
	var out []Row
	for _, o := range os {
		r, ok := sc.oOrder(o)
		if !ok {
			return nil, ErrNotFound
		}
		out = append(out, r)
	}
	return out, 0
}

// ---------------------------------------------------------------------------------------------
// item constructors

const (
	pBase   = "/regen.ecocredit.v1.Query/"
	pBasket = "/regen.ecocredit.basket.v1.Query/"
	pMarket = "/regen.ecocredit.marketplace.v1.Query/"
)

func (sc *Scenario) itClasses() *Item {
	return &Item{Query: "Classes", CoqReq: "QClasses", Paged: true, List: true, Present: true,
		exec: func(pg *query.PageRequest) ([]Row, *query.PageResponse, error) {
			var res base.QueryClassesResponse
			err := sc.App.Query(pBase+"Classes", &base.QueryClassesRequest{Pagination: pg}, &res)
			return sc.classRows(res.Classes), res.Pagination, err
		},
		oracle: func() ([]Row, int) {
			var out []Row
			for i := range sc.View.Classes { // table order = key order
				out = append(out, sc.oClass(&sc.View.Classes[i]))
			}
			return out, 0
		}}
}

func (sc *Scenario) itClassesByAdmin(a int) *Item {
	return &Item{Query: "ClassesByAdmin", Args: map[string]string{"admin": fmt.Sprint(a)}, CoqReq: "QClassesByAdmin " + ca(a), Paged: true, List: true,
		exec: func(pg *query.PageRequest) ([]Row, *query.PageResponse, error) {
			var res base.QueryClassesByAdminResponse
			err := sc.App.Query(pBase+"ClassesByAdmin", &base.QueryClassesByAdminRequest{Admin: sc.bech(a), Pagination: pg}, &res)
			return sc.classRows(res.Classes), res.Pagination, err
		},
		oracle: func() ([]Row, int) {
			var out []Row
			for i := range sc.View.Classes {
				if sc.View.Classes[i].Admin == a {
					out = append(out, sc.oClass(&sc.View.Classes[i]))
				}
			}
			return out, 0
		}}
}

func (sc *Scenario) itClass(id string) *Item {
	return &Item{Query: "Class", Args: map[string]string{"class_id": id}, CoqReq: "QClass " + cs(id),
		exec: func(*query.PageRequest) ([]Row, *query.PageResponse, error) {
			var res base.QueryClassResponse
			err := sc.App.Query(pBase+"Class", &base.QueryClassRequest{ClassId: id}, &res)
			if err != nil || res.Class == nil {
				return nil, nil, err
			}
			return sc.classRows([]*base.ClassInfo{res.Class}), nil, nil
		},
		oracle: func() ([]Row, int) {
			c := sc.View.classByID(id)
			if c == nil {
				return nil, ErrNotFound
			}
			return []Row{sc.oClass(c)}, 0
		}}
}

func (sc *Scenario) itClassIssuers(id string) *Item {
	return &Item{Query: "ClassIssuers", Args: map[string]string{"class_id": id}, CoqReq: "QClassIssuers " + cs(id), Paged: true, List: true,
		exec: func(pg *query.PageRequest) ([]Row, *query.PageResponse, error) {
			var res base.QueryClassIssuersResponse
			err := sc.App.Query(pBase+"ClassIssuers", &base.QueryClassIssuersRequest{ClassId: id, Pagination: pg}, &res)
			var out []Row
			for _, i := range res.Issuers {
				out = append(out, rowAddr(sc.idxOf(i)))
			}
			return out, res.Pagination, err
		},
		oracle: func() ([]Row, int) {
			c := sc.View.classByID(id)
			if c == nil {
				return nil, ErrNotFound
			}
			var is []int
			for _, x := range sc.View.Issuers {
				if x.ClassKey == c.Key {
					is = append(is, x.Issuer)
				}
			}
			sort.SliceStable(is, func(i, j int) bool { return sc.addrLess(is[i], is[j]) })
			var out []Row
			for _, i := range is {
				out = append(out, rowAddr(i))
			}
			return out, 0
		}}
}

func (sc *Scenario) itProjects() *Item {
	return &Item{Query: "Projects", CoqReq: "QProjects", Paged: true, List: true, Present: true,
		exec: func(pg *query.PageRequest) ([]Row, *query.PageResponse, error) {
			var res base.QueryProjectsResponse
			err := sc.App.Query(pBase+"Projects", &base.QueryProjectsRequest{Pagination: pg}, &res)
			return sc.projectRows(res.Projects), res.Pagination, err
		},
		oracle: func() ([]Row, int) { return sc.oProjects(func(*VProject) bool { return true }, true) }}
}

func (sc *Scenario) itProjectsByClass(id string) *Item {
	return &Item{Query: "ProjectsByClass", Args: map[string]string{"class_id": id}, CoqReq: "QProjectsByClass " + cs(id), Paged: true, List: true,
		exec: func(pg *query.PageRequest) ([]Row, *query.PageResponse, error) {
			var res base.QueryProjectsByClassResponse
			err := sc.App.Query(pBase+"ProjectsByClass", &base.QueryProjectsByClassRequest{ClassId: id, Pagination: pg}, &res)
			return sc.projectRows(res.Projects), res.Pagination, err
		},
		oracle: func() ([]Row, int) {
			c := sc.View.classByID(id)
			if c == nil {
				return nil, ErrNotFound
			}
			return sc.oProjects(func(p *VProject) bool { return p.ClassKey == c.Key }, true)
		}}
}

func (sc *Scenario) itProjectsByAdmin(a int) *Item {
	return &Item{Query: "ProjectsByAdmin", Args: map[string]string{"admin": fmt.Sprint(a)}, CoqReq: "QProjectsByAdmin " + ca(a), Paged: true, List: true,
		exec: func(pg *query.PageRequest) ([]Row, *query.PageResponse, error) {
			var res base.QueryProjectsByAdminResponse
			err := sc.App.Query(pBase+"ProjectsByAdmin", &base.QueryProjectsByAdminRequest{Admin: sc.bech(a), Pagination: pg}, &res)
			return sc.projectRows(res.Projects), res.Pagination, err
		},
		oracle: func() ([]Row, int) { return sc.oProjects(func(p *VProject) bool { return p.Admin == a }, false) }}
}

func (sc *Scenario) itProjectsByReferenceID(ref string) *Item {
	return &Item{Query: "ProjectsByReferenceId", Args: map[string]string{"reference_id": ref}, CoqReq: "QProjectsByReferenceId " + cs(ref), Paged: true, List: true,
		exec: func(pg *query.PageRequest) ([]Row, *query.PageResponse, error) {
			var res base.QueryProjectsByReferenceIdResponse
			err := sc.App.Query(pBase+"ProjectsByReferenceId", &base.QueryProjectsByReferenceIdRequest{ReferenceId: ref, Pagination: pg}, &res)
			return sc.projectRows(res.Projects), res.Pagination, err
		},
		oracle: func() ([]Row, int) {
			if ref == "" {
				return nil, ErrInvalidArgument
			}
			return sc.oProjects(func(p *VProject) bool { return p.ReferenceID == ref }, false)
		}}
}

func (sc *Scenario) itProject(id string) *Item {
	return &Item{Query: "Project", Args: map[string]string{"project_id": id}, CoqReq: "QProject " + cs(id),
		exec: func(*query.PageRequest) ([]Row, *query.PageResponse, error) {
			var res base.QueryProjectResponse
			err := sc.App.Query(pBase+"Project", &base.QueryProjectRequest{ProjectId: id}, &res)
			if err != nil || res.Project == nil {
				return nil, nil, err
			}
			return []Row{sc.projectRow(res.Project)}, nil, nil
		},
		oracle: func() ([]Row, int) {
			p := sc.View.projectByID(id)
			if p == nil {
				return nil, ErrNotFound
			}
			r, ok := sc.oProject(p)
			if !ok {
				return nil, ErrNotFound
			}
			return []Row{r}, 0
		}}
}

func (sc *Scenario) itBatches() *Item {
	return &Item{Query: "Batches", CoqReq: "QBatches", Paged: true, List: true, Present: true,
		exec: func(pg *query.PageRequest) ([]Row, *query.PageResponse, error) {
			var res base.QueryBatchesResponse
			err := sc.App.Query(pBase+"Batches", &base.QueryBatchesRequest{Pagination: pg}, &res)
			return sc.batchRows(res.Batches), res.Pagination, err
		},
		oracle: func() ([]Row, int) { return sc.oBatches(func(*VBatch) bool { return true }, false) }}
}

func (sc *Scenario) itBatchesByClass(id string) *Item {
	return &Item{Query: "BatchesByClass", Args: map[string]string{"class_id": id}, CoqReq: "QBatchesByClass " + cs(id), Paged: true, List: true,
		exec: func(pg *query.PageRequest) ([]Row, *query.PageResponse, error) {
			var res base.QueryBatchesByClassResponse
			err := sc.App.Query(pBase+"BatchesByClass", &base.QueryBatchesByClassRequest{ClassId: id, Pagination: pg}, &res)
			return sc.batchRows(res.Batches), res.Pagination, err
		},
		oracle: func() ([]Row, int) {
			c := sc.View.classByID(id)
			if c == nil {
				return nil, ErrNotFound
			}
			// the batches whose project belongs to the class (a join on keys, not on id strings)
			return sc.oBatches(func(b *VBatch) bool {
				p := sc.View.projectByKey(b.ProjectKey)
				return p != nil && p.ClassKey == c.Key
			}, true)
		}}
}

func (sc *Scenario) itBatchesByIssuer(a int) *Item {
	return &Item{Query: "BatchesByIssuer", Args: map[string]string{"issuer": fmt.Sprint(a)}, CoqReq: "QBatchesByIssuer " + ca(a), Paged: true, List: true,
		exec: func(pg *query.PageRequest) ([]Row, *query.PageResponse, error) {
			var res base.QueryBatchesByIssuerResponse
			err := sc.App.Query(pBase+"BatchesByIssuer", &base.QueryBatchesByIssuerRequest{Issuer: sc.bech(a), Pagination: pg}, &res)
			return sc.batchRows(res.Batches), res.Pagination, err
		},
		oracle: func() ([]Row, int) { return sc.oBatches(func(b *VBatch) bool { return b.Issuer == a }, false) }}
}

func (sc *Scenario) itBatchesByProject(id string) *Item {
	return &Item{Query: "BatchesByProject", Args: map[string]string{"project_id": id}, CoqReq: "QBatchesByProject " + cs(id), Paged: true, List: true,
		exec: func(pg *query.PageRequest) ([]Row, *query.PageResponse, error) {
			var res base.QueryBatchesByProjectResponse
			err := sc.App.Query(pBase+"BatchesByProject", &base.QueryBatchesByProjectRequest{ProjectId: id, Pagination: pg}, &res)
			return sc.batchRows(res.Batches), res.Pagination, err
		},
		oracle: func() ([]Row, int) {
			p := sc.View.projectByID(id)
			if p == nil {
				return nil, ErrNotFound
			}
			return sc.oBatches(func(b *VBatch) bool { return b.ProjectKey == p.Key }, false)
		}}
}

func (sc *Scenario) itBatch(denom string) *Item {
	return &Item{Query: "Batch", Args: map[string]string{"batch_denom": denom}, CoqReq: "QBatch " + cs(denom),
		exec: func(*query.PageRequest) ([]Row, *query.PageResponse, error) {
			var res base.QueryBatchResponse
			err := sc.App.Query(pBase+"Batch", &base.QueryBatchRequest{BatchDenom: denom}, &res)
			if err != nil || res.Batch == nil {
				return nil, nil, err
			}
			return []Row{sc.batchRow(res.Batch)}, nil, nil
		},
		oracle: func() ([]Row, int) {
			if ecobase.ValidateBatchDenom(denom) != nil {
				return nil, ErrInvalidArgument
			}
			b := sc.View.batchByDenom(denom)
			if b == nil {
				return nil, ErrNotFound
			}
			r, ok := sc.oBatch(b)
			if !ok {
				return nil, ErrNotFound
			}
			return []Row{r}, 0
		}}
}

func (sc *Scenario) itBalances(a int) *Item {
	return &Item{Query: "Balances", Args: map[string]string{"address": fmt.Sprint(a)}, CoqReq: "QBalances " + ca(a), Paged: true, List: true,
		exec: func(pg *query.PageRequest) ([]Row, *query.PageResponse, error) {
			var res base.QueryBalancesResponse
			err := sc.App.Query(pBase+"Balances", &base.QueryBalancesRequest{Address: sc.bech(a), Pagination: pg}, &res)
			return sc.balanceRows(res.Balances), res.Pagination, err
		},
		oracle: func() ([]Row, int) {
			return sc.oBalances(func(b *VBalance) bool { return b.Addr == a }, func(x, y *VBalance) bool { return x.BatchKey < y.BatchKey })
		}}
}

func (sc *Scenario) itBalancesByBatch(denom string) *Item {
	return &Item{Query: "BalancesByBatch", Args: map[string]string{"batch_denom": denom}, CoqReq: "QBalancesByBatch " + cs(denom), Paged: true, List: true,
		exec: func(pg *query.PageRequest) ([]Row, *query.PageResponse, error) {
			var res base.QueryBalancesByBatchResponse
			err := sc.App.Query(pBase+"BalancesByBatch", &base.QueryBalancesByBatchRequest{BatchDenom: denom, Pagination: pg}, &res)
			return sc.balanceRows(res.Balances), res.Pagination, err
		},
		oracle: func() ([]Row, int) {
			ba := sc.View.batchByDenom(denom)
			if ba == nil {
				return nil, ErrInvalidArgument
			}
			return sc.oBalances(func(b *VBalance) bool { return b.BatchKey == ba.Key }, func(x, y *VBalance) bool { return sc.addrLess(x.Addr, y.Addr) })
		}}
}

func (sc *Scenario) itAllBalances() *Item {
	return &Item{Query: "AllBalances", CoqReq: "QAllBalances", Paged: true, List: true, Present: true,
		exec: func(pg *query.PageRequest) ([]Row, *query.PageResponse, error) {
			var res base.QueryAllBalancesResponse
			err := sc.App.Query(pBase+"AllBalances", &base.QueryAllBalancesRequest{Pagination: pg}, &res)
			return sc.balanceRows(res.Balances), res.Pagination, err
		},
		oracle: func() ([]Row, int) {
			return sc.oBalances(func(*VBalance) bool { return true }, func(x, y *VBalance) bool {
				if x.Addr != y.Addr {
					return sc.addrLess(x.Addr, y.Addr)
				}
				return x.BatchKey < y.BatchKey
			})
		}}
}

func (sc *Scenario) itBalance(a int, denom string) *Item {
	return &Item{Query: "Balance", Args: map[string]string{"address": fmt.Sprint(a), "batch_denom": denom}, CoqReq: fmt.Sprintf("QBalance %s %s", ca(a), cs(denom)),
		exec: func(*query.PageRequest) ([]Row, *query.PageResponse, error) {
			var res base.QueryBalanceResponse
			err := sc.App.Query(pBase+"Balance", &base.QueryBalanceRequest{Address: sc.bech(a), BatchDenom: denom}, &res)
			if err != nil || res.Balance == nil {
				return nil, nil, err
			}
			return []Row{sc.balanceRow(res.Balance)}, nil, nil
		},
		oracle: func() ([]Row, int) {
			ba := sc.View.batchByDenom(denom)
			if ba == nil {
				return nil, ErrNotFound
			}
			for _, b := range sc.View.Balances {
				if b.Addr == a && b.BatchKey == ba.Key {
					return []Row{rowBalance(a, ba.Denom, b.T, b.R, b.E)}, 0
				}
			}
			return []Row{rowBalance(a, ba.Denom, "0", "0", "0")}, 0
		}}
}

func (sc *Scenario) itSupply(denom string) *Item {
	return &Item{Query: "Supply", Args: map[string]string{"batch_denom": denom}, CoqReq: "QSupply " + cs(denom),
		exec: func(*query.PageRequest) ([]Row, *query.PageResponse, error) {
			var res base.QuerySupplyResponse
			err := sc.App.Query(pBase+"Supply", &base.QuerySupplyRequest{BatchDenom: denom}, &res)
			if err != nil {
				return nil, nil, err
			}
			return []Row{rowSupply(res.TradableAmount, res.RetiredAmount, res.CancelledAmount)}, nil, nil
		},
		oracle: func() ([]Row, int) {
			ba := sc.View.batchByDenom(denom)
			if ba == nil {
				return nil, ErrInvalidArgument
			}
			for _, s := range sc.View.Supplies {
				if s.BatchKey == ba.Key {
					return []Row{rowSupply(s.T, s.R, s.C)}, 0
				}
			}
			return nil, ErrInvalidArgument
		}}
}

func (sc *Scenario) itCreditTypes() *Item {
	return &Item{Query: "CreditTypes", CoqReq: "QCreditTypes", List: true, Present: true,
		exec: func(*query.PageRequest) ([]Row, *query.PageResponse, error) {
			var res base.QueryCreditTypesResponse
			err := sc.App.Query(pBase+"CreditTypes", &base.QueryCreditTypesRequest{}, &res)
			var out []Row
			for _, c := range res.CreditTypes {
				out = append(out, rowCreditType(c.Abbreviation, c.Name, c.Unit, int64(c.Precision)))
			}
			return out, nil, err
		},
		oracle: func() ([]Row, int) {
			cts := append([]VCreditType(nil), sc.View.CreditTypes...)
			sort.SliceStable(cts, func(i, j int) bool { return cts[i].Abbrev < cts[j].Abbrev })
			var out []Row
			for _, c := range cts {
				out = append(out, rowCreditType(c.Abbrev, c.Name, c.Unit, c.Precision))
			}
			return out, 0
		}}
}

func (sc *Scenario) itCreditType(abbrev string) *Item {
	return &Item{Query: "CreditType", Args: map[string]string{"abbreviation": abbrev}, CoqReq: "QCreditType " + cs(abbrev),
		exec: func(*query.PageRequest) ([]Row, *query.PageResponse, error) {
			var res base.QueryCreditTypeResponse
			err := sc.App.Query(pBase+"CreditType", &base.QueryCreditTypeRequest{Abbreviation: abbrev}, &res)
			if err != nil || res.CreditType == nil {
				return nil, nil, err
			}
			c := res.CreditType
			return []Row{rowCreditType(c.Abbreviation, c.Name, c.Unit, int64(c.Precision))}, nil, nil
		},
		oracle: func() ([]Row, int) {
			for _, c := range sc.View.CreditTypes {
				if c.Abbrev == abbrev {
					return []Row{rowCreditType(c.Abbrev, c.Name, c.Unit, c.Precision)}, 0
				}
			}
			return nil, ErrNotFound
		}}
}

func (sc *Scenario) itAllowedClassCreators() *Item {
	return &Item{Query: "AllowedClassCreators", CoqReq: "QAllowedClassCreators", Paged: true, List: true, Present: true,
		exec: func(pg *query.PageRequest) ([]Row, *query.PageResponse, error) {
			var res base.QueryAllowedClassCreatorsResponse
			err := sc.App.Query(pBase+"AllowedClassCreators", &base.QueryAllowedClassCreatorsRequest{Pagination: pg}, &res)
			var out []Row
			for _, c := range res.ClassCreators {
				out = append(out, rowAddr(sc.idxOf(c)))
			}
			return out, res.Pagination, err
		},
		oracle: func() ([]Row, int) {
			is := append([]int(nil), sc.View.Creators...)
			sort.SliceStable(is, func(i, j int) bool { return sc.addrLess(is[i], is[j]) })
			var out []Row
			for _, i := range is {
				out = append(out, rowAddr(i))
			}
			return out, 0
		}}
}

func (sc *Scenario) itAllowedBridgeChains() *Item {
	return &Item{Query: "AllowedBridgeChains", CoqReq: "QAllowedBridgeChains", List: true, Present: true,
		exec: func(*query.PageRequest) ([]Row, *query.PageResponse, error) {
			var res base.QueryAllowedBridgeChainsResponse
			err := sc.App.Query(pBase+"AllowedBridgeChains", &base.QueryAllowedBridgeChainsRequest{}, &res)
			var out []Row
			for _, c := range res.AllowedBridgeChains {
				out = append(out, rowStr(c))
			}
			return out, nil, err
		},
		oracle: func() ([]Row, int) {
			cs := append([]string(nil), sc.View.BridgeChains...)
			sort.Strings(cs)
			var out []Row
			for _, c := range cs {
				out = append(out, rowStr(c))
			}
			return out, 0
		}}
}

func (sc *Scenario) itBaskets() *Item {
	return &Item{Query: "Baskets", CoqReq: "QBaskets", Paged: true, List: true, Present: true,
		exec: func(pg *query.PageRequest) ([]Row, *query.PageResponse, error) {
			var res basket.QueryBasketsResponse
			err := sc.App.Query(pBasket+"Baskets", &basket.QueryBasketsRequest{Pagination: pg}, &res)
			var out []Row
			for i, b := range res.BasketsInfo {
				id := uint64(0)
				if i < len(res.Baskets) && res.Baskets[i] != nil {
					id = res.Baskets[i].Id
				}
				out = append(out, rowBasket(id, b.BasketDenom, b.Name, b.DisableAutoRetire, b.CreditTypeAbbrev, criteriaOfResp(b.DateCriteria), int64(b.Exponent), sc.idxOf(b.Curator)))
			}
			return out, res.Pagination, err
		},
		oracle: func() ([]Row, int) {
			var out []Row
			for i := range sc.View.Baskets {
				out = append(out, sc.oBasket(&sc.View.Baskets[i]))
			}
			return out, 0
		}}
}

func (sc *Scenario) itBasket(denom string) *Item {
	return &Item{Query: "Basket", Args: map[string]string{"basket_denom": denom}, CoqReq: "QBasket " + cs(denom),
		exec: func(*query.PageRequest) ([]Row, *query.PageResponse, error) {
			var res basket.QueryBasketResponse
			err := sc.App.Query(pBasket+"Basket", &basket.QueryBasketRequest{BasketDenom: denom}, &res)
			if err != nil || res.BasketInfo == nil {
				return nil, nil, err
			}
			b := res.BasketInfo
			id := uint64(0)
			if res.Basket != nil {
				id = res.Basket.Id
			}
			return []Row{rowBasketOne(id, b.BasketDenom, b.Name, b.DisableAutoRetire, b.CreditTypeAbbrev, criteriaOfResp(b.DateCriteria), int64(b.Exponent), sc.idxOf(b.Curator), res.Classes)}, nil, nil
		},
		oracle: func() ([]Row, int) {
			b := sc.View.basketByDenom(denom)
			if b == nil {
				return nil, ErrNotFound
			}
			var cl []string
			for _, c := range sc.View.BasketClasses {
				if c.BasketID == b.ID {
					cl = append(cl, c.ClassID)
				}
			}
			sort.Strings(cl)
			return []Row{rowBasketOne(b.ID, b.Denom, b.Name, b.DisableAutoRetire, b.Credit, b.Criteria, b.Exponent, b.Curator, cl)}, 0
		}}
}

func (sc *Scenario) itBasketBalances(denom string) *Item {
	return &Item{Query: "BasketBalances", Args: map[string]string{"basket_denom": denom}, CoqReq: "QBasketBalances " + cs(denom), Paged: true, List: true,
		exec: func(pg *query.PageRequest) ([]Row, *query.PageResponse, error) {
			var res basket.QueryBasketBalancesResponse
			err := sc.App.Query(pBasket+"BasketBalances", &basket.QueryBasketBalancesRequest{BasketDenom: denom, Pagination: pg}, &res)
			var out []Row
			for i, b := range res.BalancesInfo {
				id, start := uint64(0), TS{-1, -1}
				if i < len(res.Balances) && res.Balances[i] != nil {
					id, start = res.Balances[i].BasketId, gts(res.Balances[i].BatchStartDate)
				}
				out = append(out, rowBasketBalance(id, b.BatchDenom, b.Balance, start))
			}
			return out, res.Pagination, err
		},
		oracle: func() ([]Row, int) {
			b := sc.View.basketByDenom(denom)
			if b == nil {
				return nil, ErrNotFound
			}
			var bs []VBasketBalance
			for _, x := range sc.View.BasketBalances {
				if x.BasketID == b.ID {
					bs = append(bs, x)
				}
			}
			sort.SliceStable(bs, func(i, j int) bool { return bs[i].Denom < bs[j].Denom })
			var out []Row
			for _, x := range bs {
				out = append(out, rowBasketBalance(x.BasketID, x.Denom, x.Balance, x.Start))
			}
			return out, 0
		}}
}

func (sc *Scenario) itBasketBalance(bd, batch string) *Item {
	return &Item{Query: "BasketBalance", Args: map[string]string{"basket_denom": bd, "batch_denom": batch}, CoqReq: fmt.Sprintf("QBasketBalance %s %s", cs(bd), cs(batch)),
		exec: func(*query.PageRequest) ([]Row, *query.PageResponse, error) {
			var res basket.QueryBasketBalanceResponse
			err := sc.App.Query(pBasket+"BasketBalance", &basket.QueryBasketBalanceRequest{BasketDenom: bd, BatchDenom: batch}, &res)
			if err != nil {
				return nil, nil, err
			}
			return []Row{rowAmount(res.Balance)}, nil, nil
		},
		oracle: func() ([]Row, int) {
			b := sc.View.basketByDenom(bd)
			if b == nil || sc.View.batchByDenom(batch) == nil {
				return nil, ErrNotFound
			}
			for _, x := range sc.View.BasketBalances {
				if x.BasketID == b.ID && x.Denom == batch {
					return []Row{rowAmount(x.Balance)}, 0
				}
			}
			return []Row{rowAmount("0")}, 0
		}}
}

func (sc *Scenario) itSellOrders() *Item {
	return &Item{Query: "SellOrders", CoqReq: "QSellOrders", Paged: true, List: true, Present: true,
		exec: func(pg *query.PageRequest) ([]Row, *query.PageResponse, error) {
			var res market.QuerySellOrdersResponse
			err := sc.App.Query(pMarket+"SellOrders", &market.QuerySellOrdersRequest{Pagination: pg}, &res)
			return sc.orderRows(res.SellOrders), res.Pagination, err
		},
		oracle: func() ([]Row, int) { return sc.oOrders(func(*VOrder) bool { return true }) }}
}

func (sc *Scenario) itSellOrdersBySeller(a int) *Item {
	return &Item{Query: "SellOrdersBySeller", Args: map[string]string{"seller": fmt.Sprint(a)}, CoqReq: "QSellOrdersBySeller " + ca(a), Paged: true, List: true,
		exec: func(pg *query.PageRequest) ([]Row, *query.PageResponse, error) {
			var res market.QuerySellOrdersBySellerResponse
			err := sc.App.Query(pMarket+"SellOrdersBySeller", &market.QuerySellOrdersBySellerRequest{Seller: sc.bech(a), Pagination: pg}, &res)
			return sc.orderRows(res.SellOrders), res.Pagination, err
		},
		oracle: func() ([]Row, int) { return sc.oOrders(func(o *VOrder) bool { return o.Seller == a }) }}
}

func (sc *Scenario) itSellOrdersByBatch(denom string) *Item {
	return &Item{Query: "SellOrdersByBatch", Args: map[string]string{"batch_denom": denom}, CoqReq: "QSellOrdersByBatch " + cs(denom), Paged: true, List: true,
		exec: func(pg *query.PageRequest) ([]Row, *query.PageResponse, error) {
			var res market.QuerySellOrdersByBatchResponse
			err := sc.App.Query(pMarket+"SellOrdersByBatch", &market.QuerySellOrdersByBatchRequest{BatchDenom: denom, Pagination: pg}, &res)
			return sc.orderRows(res.SellOrders), res.Pagination, err
		},
		oracle: func() ([]Row, int) {
			ba := sc.View.batchByDenom(denom)
			if ba == nil {
				return nil, ErrNotFound
			}
			return sc.oOrders(func(o *VOrder) bool { return o.BatchKey == ba.Key })
		}}
}

func (sc *Scenario) itSellOrder(id uint64) *Item {
	return &Item{Query: "SellOrder", Args: map[string]string{"sell_order_id": fmt.Sprint(id)}, CoqReq: "QSellOrder " + cn(id),
		exec: func(*query.PageRequest) ([]Row, *query.PageResponse, error) {
			var res market.QuerySellOrderResponse
			err := sc.App.Query(pMarket+"SellOrder", &market.QuerySellOrderRequest{SellOrderId: id}, &res)
			if err != nil || res.SellOrder == nil {
				return nil, nil, err
			}
			return []Row{sc.orderRow(res.SellOrder)}, nil, nil
		},
		oracle: func() ([]Row, int) {
			rows, e := sc.oOrders(func(o *VOrder) bool { return o.ID == id })
			if e != 0 || len(rows) == 0 {
				return nil, ErrNotFound
			}
			return rows, 0
		}}
}

func (sc *Scenario) itAllowedDenoms() *Item {
	return &Item{Query: "AllowedDenoms", CoqReq: "QAllowedDenoms", Paged: true, List: true, Present: true,
		exec: func(pg *query.PageRequest) ([]Row, *query.PageResponse, error) {
			var res market.QueryAllowedDenomsResponse
			err := sc.App.Query(pMarket+"AllowedDenoms", &market.QueryAllowedDenomsRequest{Pagination: pg}, &res)
			var out []Row
			for _, d := range res.AllowedDenoms {
				out = append(out, rowAllowedDenom(d.BankDenom, d.DisplayDenom, int64(d.Exponent)))
			}
			return out, res.Pagination, err
		},
		oracle: func() ([]Row, int) {
			ds := append([]VAllowedDenom(nil), sc.View.AllowedDenoms...)
			sort.SliceStable(ds, func(i, j int) bool { return ds[i].Bank < ds[j].Bank })
			var out []Row
			for _, d := range ds {
				out = append(out, rowAllowedDenom(d.Bank, d.Display, d.Exponent))
			}
			return out, 0
		}}
}

// ---------------------------------------------------------------------------------------------
// argument selection

// prefixFirst orders ids so that those that are a proper string prefix of another id (C10 / C100),
// or have one, come first; the rest follows in a random order.
func prefixFirst(r *common.Rng, ids []string) []string {
	var hot, cold, lead []string
	// one random pair (x, y) with x a proper prefix of y always leads
	var pairs [][2]string
	for _, x := range ids {
		for _, y := range ids {
			if x != y && strings.HasPrefix(y, x) {
				pairs = append(pairs, [2]string{x, y})
			}
		}
	}
	if len(pairs) > 0 {
		p := pairs[r.Intn(len(pairs))]
		lead = []string{p[0], p[1]}
	}
	for _, x := range ids {
		h := false
		for _, y := range ids {
			if x != y && (strings.HasPrefix(y, x) || strings.HasPrefix(x, y)) {
				h = true
				break
			}
		}
		if h {
			hot = append(hot, x)
		} else {
			cold = append(cold, x)
		}
	}
	shuffle(r, hot)
	shuffle(r, cold)
	return uniq(append(append(lead, hot...), cold...))
}

func shuffle[T any](r *common.Rng, xs []T) {
	for i := len(xs) - 1; i > 0; i-- {
		j := r.Intn(i + 1)
		xs[i], xs[j] = xs[j], xs[i]
	}
}

func take[T any](xs []T, n int) []T {
	if len(xs) < n {
		return xs
	}
	return xs[:n]
}

func uniq(xs []string) []string {
	seen := map[string]bool{}
	var out []string
	for _, x := range xs {
		if !seen[x] {
			seen[x] = true
			out = append(out, x)
		}
	}
	return out
}

// Items builds the (query, argument) pairs for the scenario's state: arguments that are present in
// the state and arguments that are absent (including string prefixes / extensions of present ids).
func (sc *Scenario) Items(r *common.Rng) []*Item {
	v := sc.View
	var items []*Item
	add := func(present bool, it *Item) {
		it.Present = present
		items = append(items, it)
	}
	var classIDs, projectIDs, denoms, refs, basketDenoms []string
	for _, c := range v.Classes {
		classIDs = append(classIDs, c.ID)
	}
	for _, p := range v.Projects {
		projectIDs = append(projectIDs, p.ID)
		if p.ReferenceID != "" {
			refs = append(refs, p.ReferenceID)
		}
	}
	for _, b := range v.Batches {
		denoms = append(denoms, b.Denom)
	}
	for _, b := range v.Baskets {
		basketDenoms = append(basketDenoms, b.Denom)
	}
	refs = uniq(refs)
	hasClass := func(id string) bool { return v.classByID(id) != nil }

	// classes that own batches first (so that BatchesByClass has something to tell apart)
	classWithBatches := map[string]bool{}
	for _, b := range v.Batches {
		if p := v.projectByKey(b.ProjectKey); p != nil {
			if c := v.classByKey(p.ClassKey); c != nil {
				classWithBatches[c.ID] = true
			}
		}
	}
	var withBatches, withoutBatches []string
	for _, id := range classIDs {
		if classWithBatches[id] {
			withBatches = append(withBatches, id)
		} else {
			withoutBatches = append(withoutBatches, id)
		}
	}
	classArgs := take(prefixFirst(r, withBatches), 4)
	classArgs = append(classArgs, take(prefixFirst(r, withoutBatches), 5-len(classArgs))...)
	// absent class ids: a prefix and an extension of a present id, and unrelated ones
	var absentClasses []string
	for _, cand := range []string{classIDs[0] + "0", classIDs[0][:len(classIDs[0])-1], classIDs[len(classIDs)-1] + "1", "C999", "ZZZ01", "C1", ""} {
		if !hasClass(cand) {
			absentClasses = append(absentClasses, cand)
		}
	}
	absentClasses = uniq(absentClasses)
	shuffle(r, absentClasses)

	users := []int{0, 1, 2, 3, 4, 5}
	shuffle(r, users)
	absentAddrs := []int{6, 7, 100, 900}
	shuffle(r, absentAddrs)

	add(true, sc.itClasses())
	for _, a := range take(users, 2) {
		add(true, sc.itClassesByAdmin(a))
	}
	for _, a := range take(absentAddrs, 2) {
		add(false, sc.itClassesByAdmin(a))
	}
	for _, id := range take(classArgs, 2) {
		add(true, sc.itClass(id))
		add(true, sc.itClassIssuers(id))
	}
	for _, id := range take(absentClasses, 2) {
		add(false, sc.itClass(id))
	}
	add(false, sc.itClassIssuers(absentClasses[0]))

	add(true, sc.itProjects())
	for _, id := range take(classArgs, 3) {
		add(true, sc.itProjectsByClass(id))
	}
	for _, id := range take(absentClasses, 2) {
		add(false, sc.itProjectsByClass(id))
	}
	for _, a := range take(users, 2) {
		add(true, sc.itProjectsByAdmin(a))
	}
	add(false, sc.itProjectsByAdmin(absentAddrs[0]))
	for _, ref := range take(prefixFirst(r, refs), 3) {
		add(true, sc.itProjectsByReferenceID(ref))
	}
	absRefs := []string{"VCS-1000", "VC", "VCS-", "GS-70", "VCS-11"}
	shuffle(r, absRefs)
	for _, ref := range take(absRefs, 2) {
		present := false
		for _, x := range refs {
			present = present || x == ref
		}
		add(present, sc.itProjectsByReferenceID(ref))
	}
	add(false, sc.itProjectsByReferenceID(""))
	pp := prefixFirst(r, projectIDs)
	for _, id := range take(pp, 2) {
		add(true, sc.itProject(id))
	}
	var absentProjects []string
	if len(projectIDs) > 0 {
		p0 := projectIDs[0]
		for _, cand := range []string{p0 + "0", p0[:len(p0)-1], classIDs[0] + "-000", "C999-001", classIDs[0]} {
			if v.projectByID(cand) == nil {
				absentProjects = append(absentProjects, cand)
			}
		}
	}
	absentProjects = uniq(absentProjects)
	shuffle(r, absentProjects)
	for _, id := range take(absentProjects, 2) {
		add(false, sc.itProject(id))
	}

	add(true, sc.itBatches())
	for _, id := range take(classArgs, 4) {
		add(true, sc.itBatchesByClass(id))
	}
	for _, id := range take(absentClasses, 2) {
		add(false, sc.itBatchesByClass(id))
	}
	for _, a := range take(users, 2) {
		add(true, sc.itBatchesByIssuer(a))
	}
	add(false, sc.itBatchesByIssuer(absentAddrs[0]))
	for _, id := range take(pp, 3) {
		add(true, sc.itBatchesByProject(id))
	}
	for _, id := range take(absentProjects, 2) {
		add(false, sc.itBatchesByProject(id))
	}
	pd := append([]string(nil), denoms...)
	shuffle(r, pd)
	var absentDenoms []string // well-formed denoms that do not exist
	var badDenoms []string    // malformed denoms
	if len(denoms) > 0 {
		d0 := pd[0]
		for _, cand := range []string{d0 + "1", d0[:len(d0)-1] + "9", "C999-001-20200101-20210101-001"} {
			if v.batchByDenom(cand) == nil {
				absentDenoms = append(absentDenoms, cand)
			}
		}
		badDenoms = []string{d0[:len(d0)-2], strings.ToLower(d0), "", classIDs[0]}
		shuffle(r, badDenoms)
	}
	for _, d := range take(pd, 2) {
		add(true, sc.itBatch(d))
		add(true, sc.itSupply(d))
	}
	for _, d := range take(absentDenoms, 1) {
		add(false, sc.itBatch(d))
		add(false, sc.itSupply(d))
	}
	for _, d := range take(badDenoms, 1) {
		add(false, sc.itBatch(d))
	}

	for _, a := range take(users, 3) {
		add(true, sc.itBalances(a))
	}
	add(false, sc.itBalances(absentAddrs[0]))
	for _, d := range take(pd, 3) {
		add(true, sc.itBalancesByBatch(d))
	}
	for _, d := range take(absentDenoms, 1) {
		add(false, sc.itBalancesByBatch(d))
	}
	add(true, sc.itAllBalances())
	if len(v.Balances) > 0 {
		for i := 0; i < 2; i++ {
			b := v.Balances[r.Intn(len(v.Balances))]
			if ba := v.batchByKey(b.BatchKey); ba != nil {
				add(true, sc.itBalance(b.Addr, ba.Denom))
			}
		}
	}
	if len(pd) > 0 {
		add(false, sc.itBalance(absentAddrs[1], pd[0])) // no row: zero balance
	}
	for _, d := range take(absentDenoms, 1) {
		add(false, sc.itBalance(users[0], d))
	}

	add(true, sc.itCreditTypes())
	add(true, sc.itCreditType(v.CreditTypes[r.Intn(len(v.CreditTypes))].Abbrev))
	add(false, sc.itCreditType(pick(r, []string{"CC", "B", "", "c"})))
	add(true, sc.itAllowedClassCreators())
	add(true, sc.itAllowedBridgeChains())

	add(true, sc.itBaskets())
	pb := append([]string(nil), basketDenoms...)
	shuffle(r, pb)
	for _, d := range take(pb, 2) {
		add(true, sc.itBasket(d))
		add(true, sc.itBasketBalances(d))
	}
	absentBasket := pick(r, []string{"eco.uC.NONE", "eco.uC.NC", "eco.uC.NCT1", "NCT", ""})
	if v.basketByDenom(absentBasket) == nil {
		add(false, sc.itBasket(absentBasket))
		add(false, sc.itBasketBalances(absentBasket))
	}
	if len(v.BasketBalances) > 0 {
		for i := 0; i < 2; i++ {
			bb := v.BasketBalances[r.Intn(len(v.BasketBalances))]
			for _, b := range v.Baskets {
				if b.ID == bb.BasketID {
					add(true, sc.itBasketBalance(b.Denom, bb.Denom))
				}
			}
		}
	}
	if len(pb) > 0 && len(pd) > 0 {
		add(false, sc.itBasketBalance(pb[0], pd[len(pd)-1])) // usually no row: "0"
		for _, d := range take(absentDenoms, 1) {
			add(false, sc.itBasketBalance(pb[0], d))
		}
		if v.basketByDenom(absentBasket) == nil {
			add(false, sc.itBasketBalance(absentBasket, pd[0]))
		}
	}

	add(true, sc.itSellOrders())
	sellers := map[int]bool{}
	orderDenoms := map[string]bool{}
	for _, o := range v.Orders {
		sellers[o.Seller] = true
		if ba := v.batchByKey(o.BatchKey); ba != nil {
			orderDenoms[ba.Denom] = true
		}
	}
	n := 0
	for _, a := range users {
		if sellers[a] && n < 2 {
			add(true, sc.itSellOrdersBySeller(a))
			n++
		}
	}
	add(false, sc.itSellOrdersBySeller(absentAddrs[0]))
	n = 0
	for _, d := range pd {
		if orderDenoms[d] && n < 2 {
			add(true, sc.itSellOrdersByBatch(d))
			n++
		}
	}
	for _, d := range pd {
		if !orderDenoms[d] {
			add(false, sc.itSellOrdersByBatch(d)) // a batch without orders
			break
		}
	}
	for _, d := range take(absentDenoms, 1) {
		add(false, sc.itSellOrdersByBatch(d))
	}
	for i := 0; i < 2 && len(v.Orders) > 0; i++ {
		add(true, sc.itSellOrder(v.Orders[r.Intn(len(v.Orders))].ID))
	}
	add(false, sc.itSellOrder(sc.State.Sequences["SellOrder"]+uint64(r.Range(1, 3))))
	add(false, sc.itSellOrder(0))
	add(true, sc.itAllowedDenoms())
	return items
}
