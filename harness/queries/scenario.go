package queries

import (
	"encoding/json"
	"fmt"
	"math/big"
	"time"

	sdk "github.com/cosmos/cosmos-sdk/types"

	"verif/harness/chain"
	"verif/harness/internal/common"

	data "github.com/regen-network/regen-ledger/x/data/v3"
	base "github.com/regen-network/regen-ledger/x/ecocredit/v3/base/types/v1"
)

// Scenario is a chain whose module state was produced by a short randomized history of real
// transactions. The queries are run against its final (working or committed) state.
type Scenario struct {
	Seed     uint64
	Kind     string // "small" | "big"
	PatchTag string // which genesis sequences were moved
	App      *chain.App
	State    *chain.State
	View     *View
	OKMsgs   int
	Failed   int
	FailLog  []string
	Open     bool // the last block is still open (queries read the working state)
	// Extra maps additional account indices (>= 900) to addresses that are not in the account book
	// (used as filter arguments that match nothing).
	Extra map[int]sdk.AccAddress
	// data module: the content hashes the history used, one that it never used, and the data tables
	Hashes    []*data.ContentHash
	FreshHash *data.ContentHash
	Data      *DataView
}

const numUsers = 8 // users 0..5 are active, 6 and 7 never own anything
const activeUsers = 6

type classInfo struct {
	id      string
	ct      string
	admin   int
	issuers []int
}
type projInfo struct {
	id    string
	class int
	admin int
}
type batchInfo struct {
	denom string
	proj  int
}

func seqPatch(kind int) (string, func(gen map[string]json.RawMessage)) {
	if kind == 0 {
		return "none", nil
	}
	cs, ps, bs := uint64(9), uint64(99), uint64(9)
	tag := "class9-project99-batch9"
	if kind == 2 {
		cs, ps, bs = 99, 999, 99
		tag = "class99-project999-batch99"
	}
	return tag, func(gen map[string]json.RawMessage) {
		var eco map[string]json.RawMessage
		if err := json.Unmarshal(gen[chain.GenEcocredit], &eco); err != nil {
			panic(err)
		}
		type cseq struct {
			CT   string `json:"credit_type_abbrev"`
			Next string `json:"next_sequence"`
		}
		type pseq struct {
			Key  string `json:"class_key"`
			Next string `json:"next_sequence"`
		}
		type bseq struct {
			Key  string `json:"project_key"`
			Next string `json:"next_sequence"`
		}
		var c []cseq
		for i, ct := range []string{"C", "BIO", "KSH"} {
			c = append(c, cseq{ct, fmt.Sprint(cs + uint64(i)*90)})
		}
		var p []pseq
		for k := 1; k <= 16; k++ {
			n := ps
			if k%3 == 0 {
				n = 9
			}
			p = append(p, pseq{fmt.Sprint(k), fmt.Sprint(n)})
		}
		var b []bseq
		for k := 1; k <= 40; k++ {
			n := bs
			if k%4 == 0 {
				n = 999
			}
			b = append(b, bseq{fmt.Sprint(k), fmt.Sprint(n)})
		}
		mustSet := func(name string, v interface{}) {
			bz, err := json.Marshal(v)
			if err != nil {
				panic(err)
			}
			eco[name] = bz
		}
		mustSet("regen.ecocredit.v1.ClassSequence", c)
		mustSet("regen.ecocredit.v1.ProjectSequence", p)
		mustSet("regen.ecocredit.v1.BatchSequence", b)
		bz, err := json.Marshal(eco)
		if err != nil {
			panic(err)
		}
		gen[chain.GenEcocredit] = bz
	}
}

var (
	refPool   = []string{"", "VCS-1", "VCS-10", "VCS-100", "VCS-1", "GS-7", "VCS", "VCS-10"}
	jurPool   = []string{"US-WA", "KE", "FR", "US-CA 94110", "DE-BE"}
	amtPool   = []string{"100", "55.5", "1000.000001", "7", "250.25", "0.5", "12.345678"}
	smallAmts = []string{"1", "0.5", "2.25", "3", "0.000001", "1.5"}
	askDenoms = []string{"stake", "uatom", "uregen"}
	startPool = []time.Time{
		time.Date(2019, 1, 1, 0, 0, 0, 0, time.UTC), time.Date(2020, 1, 1, 0, 0, 0, 0, time.UTC),
		time.Date(2020, 6, 15, 0, 0, 0, 0, time.UTC), time.Date(2021, 3, 1, 0, 0, 0, 0, time.UTC),
		// dates whose protobuf form has a zero field: the epoch itself ({0,0}), one nanosecond off it, a pre-1970 date
		time.Unix(0, 0).UTC(), time.Unix(0, 1).UTC(), time.Unix(-1, 999999999).UTC(), time.Date(1969, 7, 20, 0, 0, 0, 0, time.UTC),
	}
)

func pick[T any](r *common.Rng, xs []T) T { return xs[r.Intn(len(xs))] }

func subset(r *common.Rng, n, lo, hi int) []int {
	k := r.Range(lo, hi)
	seen := map[int]bool{}
	var out []int
	for len(out) < k {
		x := r.Intn(n)
		if !seen[x] {
			seen[x] = true
			out = append(out, x)
		}
	}
	return out
}

func respField(res chain.StepResult, field string) string {
	if !res.OK || len(res.Responses) == 0 {
		return ""
	}
	var m map[string]interface{}
	if err := json.Unmarshal(res.Responses[0].JSON, &m); err != nil {
		return ""
	}
	s, _ := m[field].(string)
	return s
}

func rat(s string) *big.Rat {
	x, ok := new(big.Rat).SetString(s)
	if !ok {
		return new(big.Rat)
	}
	return x
}

// Build runs the history for one scenario.
func Build(seed uint64, big bool) *Scenario {
	r := common.NewRng(seed)
	sc := &Scenario{Seed: seed, Kind: "small", Extra: map[int]sdk.AccAddress{}}
	if big {
		sc.Kind = "big"
	}
	patchKind := r.Intn(3)
	if big {
		patchKind = 1 // C09, C10, ... C100, ...: genuine prefix pairs C10 / C100..C10x
	}
	tag, patch := seqPatch(patchKind)
	sc.PatchTag = tag
	nAcc := numUsers
	if big {
		nAcc = chain.MaxUserAccounts // the crowded batch below is held by every account
	}
	a := chain.New(chain.Options{NumAccounts: nAcc, Patch: patch})
	sc.App = a
	if res := a.InitChain(); !res.OK {
		panic(fmt.Sprintf("queries: InitChain failed: %+v", res))
	}
	now := a.Options().GenesisTime.Add(6 * time.Second)
	a.BeginBlock(0, now)
	do := func(m sdk.Msg) chain.StepResult {
		res := a.Deliver(m)
		if res.OK {
			sc.OKMsgs++
		} else {
			sc.Failed++
			if len(sc.FailLog) < 20 {
				l := res.Log
				if len(l) > 160 {
					l = l[:160]
				}
				sc.FailLog = append(sc.FailLog, fmt.Sprintf("%T: %s%s", m, l, res.Err))
			}
		}
		return res
	}

	// ---- governance set-up
	do(a.MsgAddCreditType(&base.CreditType{Abbreviation: "BIO", Name: "biodiversity", Unit: "ha", Precision: 6}))
	cts := []string{"C", "C", "C", "BIO", "BIO"}
	if r.Bool() {
		do(a.MsgAddCreditType(&base.CreditType{Abbreviation: "KSH", Name: "kasigau", Unit: "kg", Precision: 6}))
		cts = append(cts, "KSH")
	}
	do(a.MsgAddAllowedDenom("uatom", "atom", 6))
	if r.Bool() {
		do(a.MsgAddAllowedDenom("uregen", "regen", 6))
	}
	do(a.MsgGovSetFeeParams("0.01", "0.02"))
	for _, ch := range []string{"polygon", "ethereum", "polygon-pos"} {
		if r.Chance(2, 3) {
			do(a.MsgAddAllowedBridgeChain(ch))
		}
	}
	for _, u := range subset(r, numUsers, 0, 4) {
		do(a.MsgAddClassCreator(u))
	}

	// ---- classes
	var classes []classInfo
	mkClass := func(ct string, admin int, issuers []int) {
		res := do(a.MsgCreateClass(admin, issuers, fmt.Sprintf("regen:class-%d", len(classes)), ct, chain.Coin("stake", 20000000)))
		if id := respField(res, "class_id"); id != "" {
			classes = append(classes, classInfo{id: id, ct: ct, admin: admin, issuers: issuers})
		}
	}
	if big {
		n := r.Range(93, 104)
		for i := 0; i < n; i++ {
			mkClass("C", r.Intn(activeUsers), subset(r, activeUsers, 1, 2))
		}
		for i := r.Range(1, 3); i > 0; i-- {
			mkClass("BIO", r.Intn(activeUsers), subset(r, activeUsers, 1, 3))
		}
	} else {
		n := r.Range(3, 12)
		for i := 0; i < n; i++ {
			mkClass(pick(r, cts), r.Intn(activeUsers), subset(r, activeUsers, 1, 3))
		}
	}
	if len(classes) == 0 {
		panic("queries: no class could be created: " + fmt.Sprint(sc.FailLog))
	}

	// ---- projects
	var projects []projInfo
	mkProject := func(ci int) {
		admin := pick(r, classes[ci].issuers) // only an issuer of the class may create a project in it
		res := do(a.MsgCreateProject(admin, classes[ci].id, fmt.Sprintf("regen:project-%d", len(projects)), pick(r, jurPool), pick(r, refPool), nil))
		if id := respField(res, "project_id"); id != "" {
			projects = append(projects, projInfo{id: id, class: ci, admin: admin})
		}
	}
	if big {
		// the classes whose ids are prefixes of one another get projects and batches
		want := map[string]bool{"C09": true, "C10": true, "C100": true, "C101": true, "C11": true, "C99": true}
		for ci, c := range classes {
			if want[c.id] || r.Chance(1, 12) {
				for k := r.Range(1, 2); k > 0; k-- {
					mkProject(ci)
				}
			}
		}
	} else {
		for ci := range classes {
			for k := r.Range(0, 3); k > 0; k-- {
				mkProject(ci)
			}
		}
		for tries := 0; len(projects) < 3 && tries < 20; tries++ {
			mkProject(r.Intn(len(classes)))
		}
	}

	if len(projects) == 0 {
		panic("queries: no project could be created: " + fmt.Sprint(sc.FailLog))
	}

	// ---- batches
	var batches []batchInfo
	mkBatch := func(pi int) {
		c := classes[projects[pi].class]
		var iss []*base.BatchIssuance
		for _, u := range subset(r, activeUsers, 1, 3) {
			ret := "0"
			jur := ""
			if r.Chance(1, 3) {
				ret = pick(r, smallAmts)
				jur = "US-OR"
			}
			iss = append(iss, a.Issuance(u, pick(r, amtPool), ret, jur))
		}
		start := pick(r, startPool)
		end := start.AddDate(0, r.Range(1, 18), r.Intn(20))
		res := do(a.MsgCreateBatch(pick(r, c.issuers), projects[pi].id, "", iss, fmt.Sprintf("regen:batch-%d", len(batches)), start, end, r.Chance(1, 4), nil))
		if d := respField(res, "batch_denom"); d != "" {
			batches = append(batches, batchInfo{denom: d, proj: pi})
		}
	}
	if big {
		for pi := range projects {
			for k := r.Range(1, 2); k > 0; k-- {
				mkBatch(pi)
			}
		}
		// one crowded batch: a balance row for each of the 100 user accounts and for three module accounts, i.e. more
		// rows than the default page size (100) of the paginated queries
		pi := r.Intn(len(projects))
		c := classes[projects[pi].class]
		var iss []*base.BatchIssuance
		for u := 0; u < chain.MaxUserAccounts; u++ {
			iss = append(iss, a.Issuance(u, "3", "0", ""))
		}
		res := do(a.MsgCreateBatch(pick(r, c.issuers), projects[pi].id, "", iss, "regen:batch-crowded", startPool[0], startPool[0].AddDate(1, 0, 0), false, nil))
		if d := respField(res, "batch_denom"); d != "" {
			batches = append(batches, batchInfo{denom: d, proj: pi})
			for _, m := range []int{chain.IdxGov, chain.IdxEcocredit, chain.IdxFeePool} {
				do(a.MsgSendCredits(0, m, d, "0.5", "0", "", ""))
			}
		}
	} else {
		for n := r.Range(5, 20); n > 0; n-- {
			mkBatch(r.Intn(len(projects)))
		}
	}

	holders := func() []VBalance {
		v := NewView(a.SnapshotTables("BatchBalance", "Batch"))
		var out []VBalance
		for _, b := range v.Balances {
			if rat(b.T).Sign() > 0 {
				out = append(out, b)
			}
		}
		return out
	}
	denomOf := func(key uint64) string {
		v := NewView(a.SnapshotTables("Batch"))
		if b := v.batchByKey(key); b != nil {
			return b.Denom
		}
		return ""
	}

	// ---- credit movements and role changes
	for n := r.Range(10, 25); n > 0; n-- {
		hs := holders()
		if len(hs) == 0 {
			break
		}
		h := pick(r, hs)
		amt := pick(r, smallAmts)
		if rat(h.T).Cmp(rat(amt)) < 0 {
			continue
		}
		d := denomOf(h.BatchKey)
		switch r.Intn(8) {
		case 0, 1, 2:
			do(a.MsgSendCredits(h.Addr, r.Intn(activeUsers), d, amt, "0", "", ""))
		case 3:
			do(a.MsgSendCredits(h.Addr, r.Intn(activeUsers), d, "0", amt, "US-NY", "gift"))
		case 4:
			do(a.MsgRetire(h.Addr, "US-OR", "offset", chain.Credits(d, amt)))
		case 5:
			do(a.MsgCancel(h.Addr, "mistake", chain.Credits(d, amt)))
		case 6:
			ci := r.Intn(len(classes))
			na := r.Intn(activeUsers)
			if res := do(a.MsgUpdateClassAdmin(classes[ci].admin, classes[ci].id, na)); res.OK {
				classes[ci].admin = na
			}
		case 7:
			pi := r.Intn(len(projects))
			na := r.Intn(activeUsers)
			if res := do(a.MsgUpdateProjectAdmin(projects[pi].admin, projects[pi].id, na)); res.OK {
				projects[pi].admin = na
			}
		}
	}

	// ---- baskets
	var basketDenoms []string
	for i, name := range []string{"NCT", "BCT", "XCT9"}[:r.Range(1, 3)] {
		ct := "C"
		if i == 2 {
			ct = "BIO"
		}
		var allowed []string
		hasBatch := map[int]bool{}
		for _, b := range batches {
			hasBatch[projects[b.proj].class] = true
		}
		for ci, c := range classes { // classes that own batches first, so that puts can succeed
			if c.ct == ct && hasBatch[ci] && len(allowed) < 5 && r.Chance(3, 4) {
				allowed = append(allowed, c.id)
			}
		}
		for _, c := range classes {
			if c.ct == ct && (len(allowed) == 0 || r.Chance(1, 3)) && len(allowed) < 7 {
				dup := false
				for _, x := range allowed {
					dup = dup || x == c.id
				}
				if !dup {
					allowed = append(allowed, c.id)
				}
			}
		}
		if len(allowed) == 0 {
			continue
		}
		res := do(a.MsgBasketCreate(r.Intn(activeUsers), name, "basket "+name, ct, allowed, r.Bool(), nil, sdk.NewCoins(sdk.NewInt64Coin("stake", 20000000))))
		if d := respField(res, "basket_denom"); d != "" {
			basketDenoms = append(basketDenoms, d)
		}
	}
	if len(basketDenoms) > 0 {
		for n := r.Range(4, 12); n > 0; n-- {
			hs := holders()
			if len(hs) == 0 {
				break
			}
			h := pick(r, hs)
			amt := pick(r, smallAmts)
			if rat(h.T).Cmp(rat(amt)) < 0 {
				continue
			}
			do(a.MsgBasketPut(h.Addr, pick(r, basketDenoms), chain.BasketCredit(denomOf(h.BatchKey), amt)))
		}
	}

	// ---- sell orders
	var orderIDs []uint64
	var orderSeller []int
	for n := r.Range(3, 10); n > 0; n-- {
		hs := holders()
		if len(hs) == 0 {
			break
		}
		h := pick(r, hs)
		amt := pick(r, smallAmts)
		if rat(h.T).Cmp(rat(amt)) < 0 {
			continue
		}
		var exp *time.Time
		if r.Chance(1, 2) {
			t := now.Add(time.Duration(r.Range(1, 5)) * time.Hour)
			exp = &t
		}
		res := do(a.MsgSell(h.Addr, chain.SellOrder(denomOf(h.BatchKey), amt, chain.Coin(pick(r, askDenoms), int64(r.Range(1, 5000000))), r.Bool(), exp)))
		if res.OK {
			var m struct {
				IDs []string `json:"sell_order_ids"`
			}
			if json.Unmarshal(res.Responses[0].JSON, &m) == nil {
				for _, s := range m.IDs {
					var id uint64
					fmt.Sscan(s, &id)
					orderIDs = append(orderIDs, id)
					orderSeller = append(orderSeller, h.Addr)
				}
			}
		}
	}
	if len(orderIDs) > 2 && r.Chance(2, 3) {
		i := r.Intn(len(orderIDs))
		do(a.MsgCancelSellOrder(orderSeller[i], orderIDs[i]))
	}

	// ---- data module
	buildData(sc, r, do)

	// ---- where the queries look: open block, committed block, or a later block in which some
	// orders have expired
	switch r.Intn(4) {
	case 0:
		sc.Open = true
	case 1:
		a.EndBlockCommit()
		a.BeginBlock(0, now.Add(3*time.Hour))
		sc.Open = true
	default:
		a.EndBlockCommit()
	}
	sc.State = a.Snapshot()
	sc.View = NewView(sc.State)
	sc.Data = NewDataView(sc.State)
	// an address that is not an account of the chain
	sc.Extra[900] = sdk.AccAddress(r.Bytes(20))
	return sc
}
