package gen

import (
	"fmt"
	"math/big"
	"time"

	sdk "github.com/cosmos/cosmos-sdk/types"

	base "github.com/regen-network/regen-ledger/x/ecocredit/v3/base/types/v1"
	basket "github.com/regen-network/regen-ledger/x/ecocredit/v3/basket/types/v1"
	market "github.com/regen-network/regen-ledger/x/ecocredit/v3/marketplace/types/v1"

	"verif/harness/chain"
	"verif/harness/monitor"
)

type marketOrder = market.MsgSell_Order
type marketUpdate = market.MsgUpdateSellOrders_Update
type marketBuy = market.MsgBuyDirect_Order

func bioType() *base.CreditType {
	return &base.CreditType{Abbreviation: "BIO", Name: "biodiversity", Unit: "ha", Precision: 6}
}

// ---------------------------------------------------------------------------------------------
// 4. basket

// critTime computes the earliest admissible start date of a criteria at block time t (generator
// side; windows are exact seconds).
func critTime(dc *basket.DateCriteria, t time.Time) (time.Time, bool) {
	switch {
	case dc == nil:
		return time.Time{}, false
	case dc.MinStartDate != nil:
		return time.Unix(dc.MinStartDate.Seconds, int64(dc.MinStartDate.Nanos)).UTC(), true
	case dc.StartDateWindow != nil:
		return time.Unix(t.Unix()-dc.StartDateWindow.Seconds, int64(t.Nanosecond())).UTC(), true
	case dc.YearsInThePast != 0:
		return date(t.Year()-int(dc.YearsInThePast), 1, 1), true
	}
	return time.Time{}, false
}

const magnitude = "9999999999999999999999999999.999999"

// amounts whose value x 10^6 needs 35 and 40 significant digits (a Put of the whole amount must be
// rejected: the token amount cannot be represented exactly), and 34-digit parts of them
const (
	big35     = "12345678901234567890123456789.123456"
	big35part = "1234567890123456789012345678.123456"
	big40     = "1234567890123456789012345678901234.123456"
	big40part = "1234567890123456789012345678.901234"
	nines35   = "99999999999999999999999999999.999999"
)

func runBasket(c Cfg) *Result {
	// block times: some histories cross a year boundary exactly
	n := c.N
	plan := n % 4
	gt := T0
	yearEnd := time.Time{}
	switch plan {
	case 1:
		yearEnd = time.Date(2024, 12, 31, 23, 59, 59, 999999999, time.UTC)
	case 2:
		yearEnd = time.Date(2199, 12, 31, 23, 59, 59, 999999999, time.UTC)
	case 3:
		yearEnd = time.Date(1999, 12, 31, 23, 59, 59, 999999999, time.UTC)
	}
	if !yearEnd.IsZero() {
		gt = yearEnd.Add(-10 * time.Minute)
	}
	g := NewG(c, chain.Options{GenesisTime: gt})
	g.badPct = 15
	a := g.App

	// block 1: credit types, classes, projects
	g.Begin(g.now.Add(6 * time.Second))
	g.gov(a.MsgAddCreditType(bioType()), "add credit type BIO")
	g.setupDenoms()
	c1 := g.mkClass(0, []int{0, 1}, "C")
	c2 := g.mkClass(1, []int{1, 0}, "C")
	bio := g.mkClass(2, []int{2, 0}, "BIO")
	p1 := g.mkProject(0, c1, "R1")
	p1b := g.mkProject(0, c1, "R2")
	p2 := g.mkProject(1, c2, "R1")
	pb := g.mkProject(2, bio, "")
	g.Commit()
	if c1 == "" || p1 == "" {
		return g.Finish()
	}

	// planned block times: T2 (baskets+batches), Tput (puts), later blocks
	t2 := g.now.Add(2 * time.Minute)
	tput := t2.Add(3 * time.Minute)
	if !yearEnd.IsZero() {
		tput = yearEnd
		g.bump("block-time==Dec31-23:59:59.999999999")
	}

	// block 2: baskets of 2..3 criteria variants, batches around each criterion at Tput
	g.Begin(t2)
	type bk struct {
		denom string
		dc    *basket.DateCriteria
		kind  string
	}
	variants := []func() (*basket.DateCriteria, string){
		func() (*basket.DateCriteria, string) { return nil, "none" },
		func() (*basket.DateCriteria, string) {
			ds := []time.Time{date(2010+g.R.Intn(10), 3, 15), time.Unix(0, 0).UTC(), date(1950, 3, 1), date(1900, 1, 1), time.Date(1969, 12, 31, 23, 59, 59, 999999999, time.UTC)}
			d := ds[g.R.Intn(len(ds))]
			if d.Unix() <= 0 {
				g.bump("min_start_date-at-or-before-epoch")
			}
			return chain.MinStartDate(d), "min_start_date"
		},
		func() (*basket.DateCriteria, string) {
			days := []int64{1, 30, 3650, 109575}[g.R.Intn(4)]
			g.bump(fmt.Sprintf("window-%d-days", days))
			return &basket.DateCriteria{StartDateWindow: durationSec(days * 86400)}, "start_date_window"
		},
		func() (*basket.DateCriteria, string) {
			return &basket.DateCriteria{YearsInThePast: uint32([]int{1, 10, 100}[g.R.Intn(3)])}, "years_in_the_past"
		},
	}
	var bks []bk
	order := []int{0, 1, 2, 3}
	for i := range order {
		j := i + g.R.Intn(len(order)-i)
		order[i], order[j] = order[j], order[i]
	}
	for i := 0; i < 2+g.R.Intn(2); i++ {
		dc, kind := variants[order[i]]()
		g.bump("criteria:" + kind)
		res := g.Do(a.MsgBasketCreate(3, basketNames[i], "basket "+kind, "C", []string{c1}, i%2 == 0, dc, g.basketFee(g.V())), "basket with date criteria "+kind)
		if d := respField(res, "basket_denom"); d != "" {
			bks = append(bks, bk{d, dc, kind})
		}
	}
	// batches: for every basket, start dates at criterion-1ns, criterion, criterion+1ns (as of Tput)
	type bt struct {
		denom string
		start time.Time
		note  string
	}
	var bts []bt
	mk := func(project string, issuer int, start time.Time, note string, amount string) {
		end := start.AddDate(1, 0, 0)
		d := g.mkBatch(issuer, project, start, end, true, nil, note, g.iss(0, amount, ""), g.iss(1, amount, ""), g.iss(2, "5", "1"))
		if d != "" {
			bts = append(bts, bt{d, start, note})
		}
	}
	for _, b := range bks {
		if crit, ok := critTime(b.dc, tput); ok {
			for _, off := range []time.Duration{-time.Nanosecond, 0, time.Nanosecond} {
				s := crit.Add(off)
				if s.Year() < 1850 {
					continue
				}
				mk(p1, 0, s, fmt.Sprintf("start = %s criterion%+dns", b.kind, int64(off)), "1000")
				g.bump(fmt.Sprintf("start==criterion%+dns", int64(off)))
			}
			if b.dc.StartDateWindow != nil && b.dc.StartDateWindow.Seconds > 292*366*86400 {
				// between (block time - 300 years) and (block time - 292 years)
				mk(p1, 0, time.Unix(tput.Unix()-295*365*86400, 0).UTC(), "start = block time - 295 years (inside a 300 year window)", "1000")
				g.bump("start-inside-300y-window-beyond-292y")
			}
		}
	}
	mk(p1, 0, time.Unix(0, 0).UTC(), "epoch start date", "500")
	g.bump("epoch-start-date")
	mk(p1b, 0, date(1955, 6, 1), "pre-1970 start date", "500")
	g.bump("pre-1970-start-date")
	tie := date(2016, 5, 5)
	mk(p1, 0, tie, "tied start date A", "300")
	mk(p1b, 0, tie, "tied start date B", "300")
	mk(p1, 0, tie.Add(time.Nanosecond), "tied start date +1ns", "300")
	g.bump("tied-start-dates")
	other := ""
	if p2 != "" {
		other = g.mkBatch(1, p2, date(2018, 1, 1), date(2019, 1, 1), true, nil, "class not allowed in the baskets", g.iss(0, "100", ""), g.iss(1, "100", ""))
	}
	bioBatch := ""
	if pb != "" {
		bioBatch = g.mkBatch(2, pb, date(2018, 1, 1), date(2019, 1, 1), true, nil, "other credit type", g.iss(0, "100", ""), g.iss(2, "100", ""))
	}
	big1, bigA, bigB, bigC := "", "", "", ""
	if n%6 == 5 {
		// start dates just before the deposit block so that most criteria admit them; distinct, so that
		// takes span the batches
		big1 = g.mkBatch(0, p1, tput.Add(-4*time.Hour), tput.AddDate(1, 0, 0), true, nil, "magnitude stream", g.iss(0, magnitude, ""), g.iss(1, magnitude, ""))
		bigA = g.mkBatch(0, p1, tput.Add(-3*time.Hour), tput.AddDate(1, 0, 0), true, nil, "magnitude stream: 35 significant digits", g.iss(0, big35, ""))
		bigB = g.mkBatch(0, p1, tput.Add(-2*time.Hour), tput.AddDate(1, 0, 0), true, nil, "magnitude stream: 40 significant digits", g.iss(0, big40, ""))
		bigC = g.mkBatch(0, p1, tput.Add(-time.Hour), tput.AddDate(1, 0, 0), true, nil, "magnitude stream: 35 nines", g.iss(1, nines35, ""))
		g.bump("magnitude-issuance")
	}
	g.Commit()
	if len(bks) == 0 {
		return g.Finish()
	}

	// block 3 (Tput): deposits in random order
	g.Begin(tput)
	type dep struct {
		basket, batch string
		owner         int
		note          string
	}
	var deps []dep
	for _, b := range bks {
		for _, t := range bts {
			deps = append(deps, dep{b.denom, t.denom, g.R.Intn(2), t.note + " -> basket " + b.kind})
		}
		if other != "" {
			deps = append(deps, dep{b.denom, other, g.R.Intn(2), "class not allowed"})
			g.bump("put-class-not-allowed")
		}
		if bioBatch != "" {
			deps = append(deps, dep{b.denom, bioBatch, 0, "wrong credit type"})
			g.bump("put-wrong-credit-type")
		}
	}
	for i := range deps {
		j := i + g.R.Intn(len(deps)-i)
		deps[i], deps[j] = deps[j], deps[i]
	}
	maxPuts := 14 + g.R.Intn(8)
	for i, d := range deps {
		if i >= maxPuts {
			break
		}
		v := g.V()
		amt := "10"
		if bt := v.BatchByDen[d.batch]; bt != nil {
			bal := v.Bal(keyOf(d.owner), bt.Key).T.V
			if bal != nil && bal.Sign() > 0 {
				s, k := g.amount(new(big.Rat).Quo(bal, big.NewRat(3, 1)))
				g.bump("amount:" + k)
				amt = s
			}
		}
		g.Do(a.MsgBasketPut(d.owner, d.basket, chain.BasketCredit(d.batch, amt)), "put: "+d.note)
	}
	if big1 != "" {
		bd := bks[0].denom
		no := func(t string) string {
			return expectNote(false, "C05", "put-minted!=units", t+": amount x 10^6 needs more than 34 significant digits, the tokens cannot be minted exactly")
		}
		if bigA != "" && bigB != "" && bigC != "" {
			g.Do(a.MsgBasketPut(0, bd, chain.BasketCredit(bigA, big35)), no("put of the whole 35-digit amount "+big35))
			g.Do(a.MsgBasketPut(0, bd, chain.BasketCredit(bigB, big40)), no("put of the whole 40-digit amount "+big40))
			g.Do(a.MsgBasketPut(1, bd, chain.BasketCredit(bigC, nines35)), no("put of "+nines35))
			g.Do(a.MsgBasketPut(0, bd, chain.BasketCredit(bigA, big35part)), "put: a 34-digit part of the 35-digit holding")
			g.Do(a.MsgBasketPut(0, bd, chain.BasketCredit(bigB, big40part)), "put: a 34-digit part of the 40-digit holding")
			g.bump("magnitude-put-beyond-34-digits")
		}
		for _, u := range []int{0, 1} {
			g.Do(a.MsgBasketPut(u, bd, chain.BasketCredit(big1, magnitude)), "put: magnitude stream "+magnitude+" (basket total beyond 34 digits)")
			g.bump("magnitude-put")
		}
	}
	g.Commit()

	// block 4: just after the year boundary (or later): criteria move; gov updates criteria
	t4 := tput.Add(time.Nanosecond)
	if yearEnd.IsZero() {
		t4 = tput.Add(time.Duration(1+g.R.Intn(100)) * time.Hour)
	} else {
		g.bump("block-time==Jan1-00:00:00")
	}
	g.Begin(t4)
	ub := bks[g.R.Intn(len(bks))]
	g.Do(a.MsgBasketUpdateDateCriteria(ub.denom, g.dateCriteria()), "gov: update date criteria of basket "+ub.kind)
	g.bump("gov-update-date-criteria")
	for i := 0; i < 4+g.R.Intn(4); i++ {
		opPut(g)
	}
	g.Commit()

	// blocks 5..: takes and token transfers
	ops := []wop{{10, opTake, "take"}, {3, opBankSend, "bank"}, {4, opPut, "put"}, {1, opBasketCurator, "curator"}, {1, opSend, "send"}}
	g.blocks(3+g.R.Intn(5), 2, 7, ops)
	return g.Finish()
}

// ---------------------------------------------------------------------------------------------
// 5. bridge

func runBridge(c Cfg) *Result {
	g := NewG(c, chain.Options{GenesisTime: T0})
	g.badPct = 12
	a := g.App
	g.Begin(g.now.Add(6 * time.Second))
	g.setupChains()
	cA := g.mkClass(0, []int{0, 1}, "C")
	cB := g.mkClass(1, []int{1, 2}, "C")
	pA := g.mkProject(0, cA, "VCS-1")
	pB := g.mkProject(1, cB, "VCS-1") // same reference id in another class
	g.bump("same-reference-id-projects")
	g.Commit()
	if cA == "" || cB == "" || pA == "" || pB == "" {
		return g.Finish()
	}
	classes := []struct {
		id, project string
		issuers     []int
	}{{cA, pA, []int{0, 1}}, {cB, pB, []int{1, 2}}}
	ids := []string{g.txHash(), g.txHash(), g.txHash()}
	sources := []string{"polygon", "Polygon", "POLYGON"}
	contracts := []string{ethAddr(1), ethAddr(2)}
	start, end := date(2020, 1, 1), date(2021, 1, 1)

	// issue performs one of the three issuing messages with the given origin tx
	issue := func(kind string, ci int, issuer int, o *base.OriginTx, note string) chain.StepResult {
		c := classes[ci]
		switch kind {
		case "CreateBatch":
			return g.Do(a.MsgCreateBatch(issuer, c.project, "", []*base.BatchIssuance{g.iss(g.user(), "100", "")}, g.id("md"), start, end, true, o), note)
		case "MintBatchCredits":
			// needs an open batch of the class issued by issuer
			v := g.V()
			for _, b := range g.batches(v) {
				if cl := v.ClassOfBatch(b); cl != nil && cl.ID == c.id && b.Open && idxOf(b.Issuer) == issuer {
					return g.Do(a.MsgMintBatchCredits(issuer, b.Denom, []*base.BatchIssuance{g.iss(g.user(), "50", "")}, o), note)
				}
			}
			d := g.mkBatch(issuer, c.project, start, end, true, nil, "open batch to mint into", g.iss(issuer, "10", ""))
			if d == "" {
				return chain.StepResult{}
			}
			return g.Do(a.MsgMintBatchCredits(issuer, d, []*base.BatchIssuance{g.iss(g.user(), "50", "")}, o), note)
		default:
			oo := *o
			if oo.Contract == "" {
				oo.Contract = contracts[0]
			}
			return g.Do(a.MsgBridgeReceive(issuer, c.id, &base.MsgBridgeReceive_Project{ReferenceId: "VCS-1", Jurisdiction: "KE", Metadata: "bridged"}, g.user(), "25.5", start, end, "bridged batch", &oo), note)
		}
	}
	kinds := []string{"CreateBatch", "MintBatchCredits", "BridgeReceive"}
	nBlocks := 5 + g.R.Intn(7)
	for b := 0; b < nBlocks; b++ {
		g.Begin(g.nextTime())
		k := 1 + g.R.Intn(3)
		for i := 0; i < k; i++ {
			switch r := g.R.Intn(100); {
			case r < 45:
				// ordered pair (A,B) replaying the same origin tx
				A, B := kinds[g.R.Intn(3)], kinds[g.R.Intn(3)]
				ci := g.R.Intn(2)
				cj := ci
				if g.R.Chance(1, 4) {
					cj = 1 - ci
					g.bump("replay-across-classes")
				}
				id := ids[g.R.Intn(len(ids))]
				if g.R.Chance(1, 2) {
					id = g.txHash()
				}
				s1 := sources[g.R.Intn(2)]
				s2 := s1
				if g.R.Chance(1, 3) {
					s2 = sources[g.R.Intn(3)]
					if s2 != s1 {
						g.bump("replay-with-letter-case-variant")
					}
				}
				ct := contracts[g.R.Intn(2)]
				i1 := classes[ci].issuers[g.R.Intn(2)]
				i2 := classes[cj].issuers[g.R.Intn(2)]
				if i1 != i2 {
					g.bump("replay-across-issuers")
				}
				g.bump("pair:" + A + "->" + B)
				o1 := &base.OriginTx{Id: id, Source: s1, Contract: ct}
				o2 := &base.OriginTx{Id: id, Source: s2, Contract: ct}
				if A == "MintBatchCredits" {
					o1.Contract = ""
				}
				if B == "MintBatchCredits" {
					o2.Contract = ""
				}
				issue(A, ci, i1, o1, fmt.Sprintf("%s with origin tx (%s..,%s)", A, id[:8], s1))
				issue(B, cj, i2, o2, fmt.Sprintf("replay through %s with origin tx (%s..,%s)", B, id[:8], s2))
			case r < 55:
				c := []string{"polygon", "Polygon", "ethereum"}[g.R.Intn(3)]
				if g.R.Bool() {
					g.Do(a.MsgAddAllowedBridgeChain(c), "gov: allow bridge chain "+c)
				} else {
					g.Do(a.MsgRemoveAllowedBridgeChain(c), "gov: remove bridge chain "+c)
				}
				g.bump("allowed-chain-add/remove")
			case r < 65:
				// seal a bound batch, then receive for its contract
				v := g.V()
				for _, bk := range sortedU64Keys(v.Contracts) {
					bt := v.Batches[bk]
					cl := v.ClassOfBatch(bt)
					if bt == nil || cl == nil || !bt.Open {
						continue
					}
					is := idxOf(bt.Issuer)
					g.Do(a.MsgSealBatch(is, bt.Denom), "seal a batch bound to a contract")
					g.Do(a.MsgBridgeReceive(is, cl.ID, &base.MsgBridgeReceive_Project{ReferenceId: "VCS-1", Jurisdiction: "KE", Metadata: "bridged"}, g.user(), "1", start, end, "md",
						&base.OriginTx{Id: g.txHash(), Source: "polygon", Contract: v.Contracts[bk].Contract}), "bridge receive into a sealed bound batch")
					g.bump("sealed-bound-batch")
					break
				}
			case r < 78:
				// BridgeReceive for an existing contract by a different issuer
				v := g.V()
				for _, bk := range sortedU64Keys(v.Contracts) {
					bt := v.Batches[bk]
					cl := v.ClassOfBatch(bt)
					if bt == nil || cl == nil {
						continue
					}
					var otherIss int = -1
					for u := 0; u < NumUsers; u++ {
						if v.Issuers[cl.Key][keyOf(u)] && keyOf(u) != bt.Issuer {
							otherIss = u
						}
					}
					if otherIss < 0 {
						continue
					}
					g.Do(a.MsgBridgeReceive(otherIss, cl.ID, &base.MsgBridgeReceive_Project{ReferenceId: "VCS-1", Jurisdiction: "KE", Metadata: "bridged"}, g.user(), "2", start, end, "md",
						&base.OriginTx{Id: g.txHash(), Source: "polygon", Contract: v.Contracts[bk].Contract}), "bridge receive for an existing contract by another issuer of the class")
					g.bump("receive-existing-contract-different-issuer")
					break
				}
			case r < 92:
				opBridge(g)
			default:
				g.pick([]wop{{3, opSend, ""}, {2, opAdminNoise, ""}, {2, opCancel, ""}, {1, opRetire, ""}})
			}
		}
		g.Commit()
	}
	return g.Finish()
}

// ---------------------------------------------------------------------------------------------
// 6. roles

func runRoles(c Cfg) *Result {
	g := NewG(c, chain.Options{GenesisTime: T0})
	a := g.App
	g.Begin(g.now.Add(6 * time.Second))
	g.setupDenoms()
	cA := g.mkClass(0, []int{0, 1}, "C")
	cB := g.mkClass(2, []int{2}, "C") // "the issuer of another class" = user 2
	pA := g.mkProject(0, cA, "")
	g.mkProject(2, cB, "")
	d1 := g.mkBatch(0, pA, date(2020, 1, 1), date(2021, 1, 1), true, nil, "open", g.spread("1000")...)
	d2 := g.mkBatch(1, pA, date(2020, 2, 1), date(2021, 2, 1), true, nil, "open, issued by user 1", g.spread("1000")...)
	res := g.Do(a.MsgBasketCreate(3, "ROLE", "roles basket", "C", []string{cA}, true, nil, g.basketFee(g.V())), "setup: basket curated by user 3")
	bd := respField(res, "basket_denom")
	g.Commit()
	if cA == "" || pA == "" || d1 == "" {
		return g.Finish()
	}
	const plain = 5
	otherIssuer := 2
	// attempt runs the same message builder for the former holder, the new holder, the issuer of
	// another class and a plain account
	attempt := func(what string, former, newer int, build func(signer int) sdk.Msg) {
		who := []struct {
			u    int
			name string
		}{{former, "former holder"}, {otherIssuer, "issuer of another class"}, {plain, "plain account"}, {newer, "new holder"}}
		for _, w := range who {
			g.Do(build(w.u), fmt.Sprintf("%s by the %s (user %d)", what, w.name, w.u))
		}
	}
	moves := []func(){
		func() { // class admin transfer
			v := g.V()
			cl := v.ClassByID[cA]
			old := idxOf(cl.Admin)
			nw := (old + 1) % 5
			g.Do(a.MsgUpdateClassAdmin(old, cA, nw), "role move: class admin transfer")
			g.bump("move:class-admin")
			attempt("update class metadata", old, nw, func(s int) sdk.Msg { return a.MsgUpdateClassMetadata(s, cA, g.id("md")) })
			attempt("update class issuers", old, nw, func(s int) sdk.Msg { return a.MsgUpdateClassIssuers(s, cA, []int{4}, nil) })
			g.Do(a.MsgUpdateClassIssuers(nw, cA, nil, []int{4}), "cleanup: remove issuer 4")
		},
		func() { // issuer add/remove
			v := g.V()
			cl := v.ClassByID[cA]
			admin := idxOf(cl.Admin)
			g.Do(a.MsgUpdateClassIssuers(admin, cA, []int{4}, []int{1}), "role move: issuer 4 added, issuer 1 removed")
			g.bump("move:issuer-add-remove")
			attempt("create project", 1, 4, func(s int) sdk.Msg { return a.MsgCreateProject(s, cA, g.id("md"), "US", "", nil) })
			attempt("create batch", 1, 4, func(s int) sdk.Msg {
				return a.MsgCreateBatch(s, pA, "", []*base.BatchIssuance{g.iss(s, "10", "")}, g.id("md"), date(2021, 1, 1), date(2022, 1, 1), true, nil)
			})
			// the removed issuer still is the issuer of batch d2
			g.Do(a.MsgMintBatchCredits(1, d2, []*base.BatchIssuance{g.iss(1, "5", "")}, g.origin(false)), "mint into own batch by a removed class issuer (batch issuer role persists)")
			g.Do(a.MsgUpdateClassIssuers(admin, cA, []int{1}, []int{4}), "cleanup: restore issuers")
		},
		func() { // project admin transfer
			v := g.V()
			p := v.ProjectByID[pA]
			old := idxOf(p.Admin)
			nw := (old + 1) % 5
			g.Do(a.MsgUpdateProjectAdmin(old, pA, nw), "role move: project admin transfer")
			g.bump("move:project-admin")
			attempt("update project metadata", old, nw, func(s int) sdk.Msg { return a.MsgUpdateProjectMetadata(s, pA, g.id("md")) })
		},
		func() { // curator change
			if bd == "" {
				return
			}
			v := g.V()
			b := v.BasketByDenom[bd]
			old := idxOf(b.Curator)
			nw := (old + 1) % 5
			g.Do(a.MsgBasketUpdateCurator(old, bd, nw), "role move: curator change")
			g.bump("move:curator")
			attempt("update curator", old, nw, func(s int) sdk.Msg { return a.MsgBasketUpdateCurator(s, bd, s) })
		},
		func() { // allowlist toggles and creator add/remove
			g.Do(a.MsgSetClassCreatorAllowlist(true), "role move: allowlist on")
			g.Do(a.MsgAddClassCreator(4), "role move: creator 4 added")
			g.bump("move:allowlist+creator")
			attempt("create class", 3, 4, func(s int) sdk.Msg { return a.MsgCreateClass(s, []int{s}, g.id("md"), "C", g.classFeeCoin()) })
			g.Do(a.MsgRemoveClassCreator(4), "role move: creator 4 removed")
			attempt("create class", 4, 3, func(s int) sdk.Msg { return a.MsgCreateClass(s, []int{s}, g.id("md"), "C", g.classFeeCoin()) })
			g.Do(a.MsgSetClassCreatorAllowlist(false), "role move: allowlist off")
			g.Do(a.MsgCreateClass(plain, []int{plain}, g.id("md"), "C", g.classFeeCoin()), "create class by a plain account with the allowlist off")
		},
		func() { // every governance message by a plain account and by the authority
			for i := 0; i < 6; i++ {
				m, note := g.govMsg()
				g.Do(g.asUser(m, plain), note+" — sent by a plain account")
				m2, note2 := g.govMsg()
				g.Do(m2, note2+" — sent by the authority")
			}
			g.bump("gov-by-plain-account-and-authority")
		},
		func() { // sealed batches: mint / update metadata / seal again
			v := g.V()
			for _, d := range []string{d1, d2} {
				b := v.BatchByDen[d]
				if b == nil || !b.Open {
					continue
				}
				is := idxOf(b.Issuer)
				g.Do(a.MsgUpdateBatchMetadata(is, d, g.id("md")), "update metadata of an open batch by its issuer")
				g.Do(a.MsgSealBatch(plain, d), "seal by a plain account")
				g.Do(a.MsgSealBatch(is, d), "seal by the batch issuer")
				g.Do(a.MsgMintBatchCredits(is, d, []*base.BatchIssuance{g.iss(is, "1", "")}, g.origin(false)), "mint into a sealed batch")
				g.Do(a.MsgUpdateBatchMetadata(is, d, g.id("md")), "update metadata of a sealed batch")
				g.Do(a.MsgSealBatch(is, d), "seal again")
				g.bump("sealed:mint/metadata/seal-again")
				break
			}
		},
		func() { // sell order ownership
			v := g.V()
			b := v.BatchByDen[d1]
			if b == nil {
				return
			}
			res := g.Do(a.MsgSell(0, chain.SellOrder(d1, "10", coin("stake", 100), true, nil)), "sell order by user 0")
			if !res.OK {
				return
			}
			id := g.Rec.State().Sequences["SellOrder"]
			g.bump("sell-order-owner")
			for _, u := range []int{1, plain, 0} {
				g.Do(a.MsgUpdateSellOrders(u, &marketUpdate{SellOrderId: id, NewQuantity: "9", NewAskPrice: coin("stake", 100), DisableAutoRetire: true}), fmt.Sprintf("update sell order %d by user %d", id, u))
			}
			for _, u := range []int{1, plain, 0} {
				g.Do(a.MsgCancelSellOrder(u, id), fmt.Sprintf("cancel sell order %d by user %d", id, u))
			}
		},
	}
	nBlocks := 5 + g.R.Intn(4)
	for b := 0; b < nBlocks; b++ {
		g.Begin(g.nextTime())
		moves[g.R.Intn(len(moves))]()
		if g.R.Bool() {
			g.pick([]wop{{3, opSend, ""}, {2, opAdminNoise, ""}, {1, opRetire, ""}})
		}
		g.Commit()
	}
	return g.Finish()
}

var _ = monitor.KeyGov
