package gen

import (
	"fmt"
	"math/big"
	"sort"
	"strings"
	"time"

	sdk "github.com/cosmos/cosmos-sdk/types"
	gogotypes "github.com/cosmos/gogoproto/types"

	basket "github.com/regen-network/regen-ledger/x/ecocredit/v3/basket/types/v1"
	market "github.com/regen-network/regen-ledger/x/ecocredit/v3/marketplace/types/v1"

	"verif/harness/chain"
	"verif/harness/monitor"
)

func durationSec(sec int64) *gogotypes.Duration { return &gogotypes.Duration{Seconds: sec} }

// ---------------------------------------------------------------------------------------------
// baskets

var basketNames = []string{"NCT", "BCT", "ECO", "RAIN", "KELP", "TREE", "SOIL", "BLUE", "Nc7", "abc", "MOSS", "PEAT"}

func (g *G) basketFee(v *monitor.View) sdk.Coins {
	if v.BasketFee == nil || v.BasketFee.Amount == nil {
		return nil
	}
	amt := new(big.Int).Set(v.BasketFee.Amount)
	if amt.Sign() == 0 {
		amt = big.NewInt(1)
	}
	return sdk.Coins{sdk.NewCoin(v.BasketFee.Denom, sdk.NewIntFromBigInt(amt))}
}

func opBasketCreate(g *G) bool {
	v := g.V()
	cs := g.classes(v)
	if len(cs) == 0 {
		return false
	}
	c := cs[g.R.Intn(len(cs))]
	allowed := []string{c.ID}
	for _, o := range cs {
		if o != c && o.Type == c.Type && g.R.Chance(1, 2) {
			allowed = append(allowed, o.ID)
		}
	}
	name := basketNames[g.R.Intn(len(basketNames))]
	note := "basket create " + name
	fee := g.basketFee(v)
	ct := c.Type
	if g.bad() {
		switch g.R.Intn(4) {
		case 0:
			for _, o := range cs {
				if o.Type != c.Type {
					allowed = append(allowed, o.ID)
					note += ": class of another credit type"
					break
				}
			}
		case 1:
			allowed = append(allowed, "C77")
			note += ": unknown class"
		case 2:
			if fee != nil {
				fee = nil
				note += ": fee absent although required"
			}
		case 3:
			if fee != nil && fee[0].Amount.GT(sdk.NewInt(1)) {
				fee = sdk.Coins{sdk.NewCoin(fee[0].Denom, fee[0].Amount.SubRaw(1))}
				note += ": fee one below the required fee"
			}
		}
	}
	g.Do(g.App.MsgBasketCreate(g.user(), name, "generated basket", ct, allowed, g.R.Bool(), g.dateCriteria(), fee), note)
	return true
}

func opPut(g *G) bool {
	v := g.V()
	bs := g.baskets(v)
	hs := g.holdings(v)
	if len(bs) == 0 || len(hs) == 0 {
		return false
	}
	b := bs[g.R.Intn(len(bs))]
	// prefer holdings whose class the basket allows
	var okH []holding
	for _, h := range hs {
		if monitor.PutAdmissible(v, b, h.Batch) {
			okH = append(okH, h)
		}
	}
	h := hs[g.R.Intn(len(hs))]
	if len(okH) > 0 && !(g.bad() && g.R.Chance(1, 3)) {
		h = okH[g.R.Intn(len(okH))]
	}
	a, k := g.amount(h.T)
	g.bump("amount:" + k)
	credits := []*basket.BasketCredit{chain.BasketCredit(h.Batch.Denom, a)}
	note := "put (" + k + ")"
	if g.R.Chance(1, 8) {
		// the same batch twice: split the amount if it is a plain value, else add a dust entry
		if r, _, okp := monitor.ParseStrict(a); okp && r.Sign() > 0 && g.R.Bool() {
			h1 := fmtRat(new(big.Rat).Quo(r, big.NewRat(2, 1)), 6)
			h2 := fmtRat(new(big.Rat).Sub(r, rat(h1)), 6)
			if rat(h1).Sign() > 0 && rat(h2).Sign() > 0 {
				credits = []*basket.BasketCredit{chain.BasketCredit(h.Batch.Denom, h1), chain.BasketCredit(h.Batch.Denom, h2)}
			}
		}
		if len(credits) == 1 {
			credits = append(credits, chain.BasketCredit(h.Batch.Denom, "0.000001"))
		}
		note += ", same batch twice"
		g.bump("dup:put-same-batch-twice")
	}
	for _, bb := range v.BasketBals {
		if bb.Basket == b.ID && bb.Denom == h.Batch.Denom {
			g.bump("put-into-existing-basket-row")
			break
		}
	}
	if g.R.Chance(1, 5) {
		// a second, different batch of the same owner in the same message (admissible if there is one)
		var cand, adm []holding
		for _, o := range g.otherHoldings(hs, h) {
			cand = append(cand, o)
			if monitor.PutAdmissible(v, b, o.Batch) {
				adm = append(adm, o)
			}
		}
		if len(adm) > 0 && !(g.bad() && g.R.Chance(1, 3)) {
			cand = adm
		}
		if len(cand) > 0 {
			o := cand[g.R.Intn(len(cand))]
			a2, _ := g.amount(o.T)
			if g.R.Chance(1, 4) {
				a2 = fmtRat(new(big.Rat).Add(o.T, big.NewRat(1, 1)), 6)
				g.bump("list:overdrawing-entry")
				note += " (the extra entry overdraws)"
			}
			extra := chain.BasketCredit(o.Batch.Denom, a2)
			if g.R.Bool() {
				credits = append(credits, extra)
			} else {
				credits = append([]*basket.BasketCredit{extra}, credits...)
			}
			note += ", two different batches in one message"
			g.bump("multi:put-different-batches")
		}
	}
	g.Do(g.App.MsgBasketPut(h.Acct, b.Denom, credits...), note)
	return true
}

// tokenHolders lists (user, amount) with a positive balance of denom.
func tokenHolders(v *monitor.View, denom string) (us []int, amts []*big.Int) {
	for i := 0; i < NumUsers; i++ {
		if z := v.BankOf(keyOf(i), denom); z.Sign() > 0 {
			us = append(us, i)
			amts = append(amts, z)
		}
	}
	return
}

// firstBatchTokens returns the token value of the basket balance that Take releases first.
func firstBatchTokens(v *monitor.View, b *monitor.Basket) *big.Int {
	var first *monitor.BasketBal
	for _, bb := range v.BasketBals {
		if bb.Basket != b.ID || bb.Start == nil {
			continue
		}
		if first == nil || bb.Start.Cmp(*first.Start) < 0 || (bb.Start.Cmp(*first.Start) == 0 && bb.Denom < first.Denom) {
			first = bb
		}
	}
	if first == nil || first.Bal.V == nil {
		return nil
	}
	t := new(big.Rat).Mul(first.Bal.V, big.NewRat(1000000, 1))
	return new(big.Int).Quo(t.Num(), t.Denom())
}

// spanTokens returns a token amount that drains the first `full` batches of the basket (oldest start
// date first) and half of the next one; nil if the basket holds fewer than full+1 batches.
func spanTokens(v *monitor.View, b *monitor.Basket, full int) *big.Int {
	var bals []*monitor.BasketBal
	for _, bb := range v.BasketBals {
		if bb.Basket == b.ID && bb.Start != nil && bb.Bal.V != nil {
			bals = append(bals, bb)
		}
	}
	if len(bals) < full+1 {
		return nil
	}
	sort.SliceStable(bals, func(i, j int) bool {
		if c := bals[i].Start.Cmp(*bals[j].Start); c != 0 {
			return c < 0
		}
		return bals[i].Denom < bals[j].Denom
	})
	tot := new(big.Rat)
	for i := 0; i < full; i++ {
		tot.Add(tot, bals[i].Bal.V)
	}
	tot.Add(tot, new(big.Rat).Quo(bals[full].Bal.V, big.NewRat(2, 1)))
	tot.Mul(tot, big.NewRat(1000000, 1))
	z := new(big.Int).Quo(tot.Num(), tot.Denom())
	if z.Sign() <= 0 {
		return nil
	}
	return z
}

func opTake(g *G) bool {
	v := g.V()
	bs := g.baskets(v)
	if len(bs) == 0 {
		return false
	}
	b := bs[g.R.Intn(len(bs))]
	us, amts := tokenHolders(v, b.Denom)
	if len(us) == 0 {
		if !g.bad() {
			return false
		}
		g.Do(g.App.MsgBasketTake(g.user(), b.Denom, "1", true, g.jur(), "take"), "take: owner holds no basket tokens")
		return true
	}
	i := g.R.Intn(len(us))
	have := amts[i]
	total := v.SupplyOf(b.Denom)
	var amt *big.Int
	kind := ""
	first := firstBatchTokens(v, b)
	span := spanTokens(v, b, 1+g.R.Intn(2))
	switch r := g.R.Intn(100); {
	case r < 22 && span != nil:
		amt, kind = span, "span-batches-last-partly"
	case r < 12:
		amt, kind = big.NewInt(1), "1-token"
	case r < 30 && first != nil:
		amt, kind = first, "exactly-first-batch"
	case r < 45 && first != nil:
		amt, kind = new(big.Int).Add(first, big.NewInt(1)), "first-batch+1"
	case r < 60:
		amt, kind = new(big.Int).Set(total), "everything"
	case r < 68:
		amt, kind = new(big.Int).Add(total, big.NewInt(1)), "everything+1"
	case r < 85:
		amt, kind = new(big.Int).Quo(have, big.NewInt(2)), "half-of-holdings"
	default:
		amt, kind = new(big.Int).Set(have), "all-holdings"
	}
	if amt.Sign() == 0 {
		amt = big.NewInt(1)
	}
	if amt.Cmp(have) > 0 && !(g.bad() && g.R.Chance(1, 3)) {
		// the owner does not hold that much: collect tokens from the other holders first (bank sends
		// of basket tokens), and fall back to the owner's holdings if that is not enough
		for j, u := range us {
			if u == us[i] || have.Cmp(amt) >= 0 {
				continue
			}
			res := g.Do(g.App.MsgBankSend(u, us[i], sdk.NewCoins(sdk.NewCoin(b.Denom, sdk.NewIntFromBigInt(amts[j])))), "bank send: collect basket tokens for a take")
			if res.OK {
				have = new(big.Int).Add(have, amts[j])
			}
		}
		if amt.Cmp(have) > 0 && kind != "everything+1" {
			amt, kind = new(big.Int).Set(have), "all-holdings"
		}
	}
	g.bump("take:" + kind)
	retire := !b.DisableAutoRetire
	if b.DisableAutoRetire {
		retire = g.R.Bool()
	} else if g.bad() && g.R.Chance(1, 2) {
		retire = false
	}
	g.bump(fmt.Sprintf("take:retire_on_take=%v/auto-retire-disabled=%v", retire, b.DisableAutoRetire))
	tk := g.App.MsgBasketTake(us[i], b.Denom, g.intSpelling(amt), retire, g.jur(), "take")
	if retire && g.R.Chance(1, 4) {
		// the deprecated retirement_location field instead of retirement_jurisdiction (still supported)
		tk.RetirementLocation, tk.RetirementJurisdiction = tk.RetirementJurisdiction, ""
		g.bump("take:deprecated-retirement-location")
		kind += " (deprecated retirement_location field)"
	}
	g.Do(tk, "take "+kind)
	return true
}

func opBankSend(g *G) bool {
	v := g.V()
	bs := g.baskets(v)
	if len(bs) > 0 && g.R.Chance(3, 4) {
		b := bs[g.R.Intn(len(bs))]
		us, amts := tokenHolders(v, b.Denom)
		if len(us) > 0 {
			i := g.R.Intn(len(us))
			amt := new(big.Int).Quo(amts[i], big.NewInt(int64(1+g.R.Intn(3))))
			if amt.Sign() == 0 {
				amt = big.NewInt(1)
			}
			if g.bad() {
				amt = new(big.Int).Add(amts[i], big.NewInt(1))
			}
			g.Do(g.App.MsgBankSend(us[i], g.otherUser(us[i]), sdk.NewCoins(sdk.NewCoin(b.Denom, sdk.NewIntFromBigInt(amt)))), "bank send of basket tokens")
			return true
		}
	}
	from := g.user()
	d := []string{"stake", "uatom", "uregen"}[g.R.Intn(3)]
	g.Do(g.App.MsgBankSend(from, g.otherUser(from), sdk.NewCoins(sdk.NewInt64Coin(d, int64(1+g.R.Intn(1000000))))), "bank send")
	return true
}

func opBasketCurator(g *G) bool {
	v := g.V()
	bs := g.baskets(v)
	if len(bs) == 0 {
		return false
	}
	b := bs[g.R.Intn(len(bs))]
	cur := idxOf(b.Curator)
	if cur < 0 || cur >= NumUsers || g.bad() {
		cur = g.user()
	}
	g.Do(g.App.MsgBasketUpdateCurator(cur, b.Denom, g.otherUser(cur)), "basket curator change")
	return true
}

// ---------------------------------------------------------------------------------------------
// marketplace

func (g *G) askDenom(v *monitor.View) string {
	ds := sortedDenoms(v.AllowedDenoms)
	if len(ds) == 0 || g.bad() && g.R.Chance(1, 3) {
		return []string{"uusdc", "stake", "uatom"}[g.R.Intn(3)]
	}
	return ds[g.R.Intn(len(ds))]
}

func (g *G) askAmount() *big.Int {
	switch r := g.R.Intn(100); {
	case r < 15:
		return big.NewInt(1)
	case r < 75:
		return big.NewInt(int64(1 + g.R.Intn(5000000)))
	case r < 90:
		return big.NewInt(int64(1+g.R.Intn(1000)) * 1000000)
	default:
		z, _ := new(big.Int).SetString(g.digits(12+g.R.Intn(6)), 10)
		return z
	}
}

func (g *G) expiration() *time.Time {
	switch r := g.R.Intn(100); {
	case r < 40:
		return nil
	case r < 85:
		t := g.now.Add(time.Duration(1+g.R.Intn(7200)) * time.Second)
		return &t
	case r < 92:
		t := g.now.Add(time.Nanosecond)
		return &t
	default:
		if g.badPct == 0 {
			return nil
		}
		t := g.now.Add(-time.Duration(g.R.Intn(100)) * time.Second) // now or in the past: rejected
		return &t
	}
}

func opSell(g *G) bool {
	v := g.V()
	hs := g.holdings(v)
	if len(hs) == 0 {
		return false
	}
	h := hs[g.R.Intn(len(hs))]
	n := 1 + g.R.Intn(3)
	part := new(big.Rat).Quo(h.T, big.NewRat(int64(n), 1))
	var orders []*market.MsgSell_Order
	note := "sell"
	saved := g.badPct
	// several orders in one message: all for one batch, or (half of the time) spread over the
	// different batches the seller holds, in an order unrelated to the batch keys
	others := g.otherHoldings(hs, h)
	spread := n > 1 && len(others) > 0 && g.R.Bool()
	distinct := map[string]bool{}
	for i := 0; i < n; i++ {
		hi, pi := h, part
		if spread && i > 0 {
			hi = others[g.R.Intn(len(others))]
			pi = new(big.Rat).Quo(hi.T, big.NewRat(int64(n), 1))
		}
		q, k := g.amount(pi)
		g.bump("amount:" + k)
		orders = append(orders, chain.SellOrder(hi.Batch.Denom, q, bigCoin(g.askDenom(v), g.askAmount()), g.R.Bool(), g.expiration()))
		distinct[hi.Batch.Denom] = true
		note += " " + k
		g.badPct = 0 // at most one deliberately invalid order per message
	}
	g.badPct = saved
	if len(distinct) > 1 {
		g.bump("multi:sell-orders-different-batches")
		note += fmt.Sprintf(" — %d different batches in one message", len(distinct))
	} else if n > 1 {
		g.bump("dup:sell-orders-same-batch")
	}
	seller := h.Acct
	if g.bad() && g.R.Chance(1, 4) {
		seller, note = g.otherUser(h.Acct), note+" — seller is not the holder"
	}
	g.Do(g.App.MsgSell(seller, orders...), note)
	return true
}

func opUpdateSell(g *G) bool {
	v := g.V()
	os := g.orders(v)
	if len(os) == 0 {
		return false
	}
	o := os[g.R.Intn(len(os))]
	seller := idxOf(o.Seller)
	note := "update sell order:"
	if seller < 0 || g.bad() && g.R.Chance(1, 4) {
		seller, note = g.otherUser(seller), note+" not the owner,"
	}
	mk := v.Markets[o.Market]
	denom := "stake"
	if mk != nil {
		denom = mk.Denom
	}
	ask := o.Ask
	if ask == nil {
		ask = big.NewInt(1)
	}
	qty := o.Qty.Raw
	cur := o.Qty.V
	if cur == nil {
		cur = new(big.Rat)
	}
	avail := v.Bal(o.Seller, o.Batch).T.V
	if avail == nil {
		avail = new(big.Rat)
	}
	if g.R.Chance(1, 6) && len(os) > 1 {
		// mixed list: 2-4 updates drawn from ALL open orders (the signer's own, other sellers', repeats of an
		// earlier entry) in random positions; the signer is the seller of the first entry
		k := 2 + g.R.Intn(3)
		var us []*market.MsgUpdateSellOrders_Update
		var picked []*monitor.Order
		foreign, repeats := 0, 0
		signerKey := o.Seller
		for i := 0; i < k; i++ {
			var oi *monitor.Order
			switch r := g.R.Intn(10); {
			case i == 0:
				oi = o
			case r < 3 && len(picked) > 0:
				oi = picked[g.R.Intn(len(picked))]
				repeats++
			default:
				oi = os[g.R.Intn(len(os))]
			}
			if oi.Seller != signerKey {
				foreign++
			}
			picked = append(picked, oi)
			d := "stake"
			if m := v.Markets[oi.Market]; m != nil {
				d = m.Denom
			}
			a := oi.Ask
			if a == nil {
				a = big.NewInt(1)
			}
			q := oi.Qty.Raw
			if oi.Qty.V != nil && g.R.Bool() {
				q = fmtRat(new(big.Rat).Mul(oi.Qty.V, big.NewRat(int64(1+g.R.Intn(3)), 2)), 6)
				if rat(q).Sign() == 0 {
					q = "0.000001"
				}
			}
			if g.R.Chance(1, 3) {
				a = new(big.Int).Add(a, big.NewInt(int64(g.R.Intn(5))))
			}
			us = append(us, &market.MsgUpdateSellOrders_Update{SellOrderId: oi.ID, NewQuantity: q, NewAskPrice: bigCoin(d, a), DisableAutoRetire: oi.DisableAutoRetire})
		}
		g.bump(fmt.Sprintf("list:update-mixed(foreign=%d,repeats=%d)", min(foreign, 2), min(repeats, 2)))
		g.Do(g.App.MsgUpdateSellOrders(idxOf(signerKey), us...), fmt.Sprintf("update %d orders in one message: %d of other sellers, %d repeats", k, foreign, repeats))
		return true
	}
	if g.R.Chance(1, 8) && cur.Sign() > 0 {
		// duplicates within one message: the same sell order 2-3 times
		up := fmtRat(new(big.Rat).Add(cur, new(big.Rat).Mul(avail, big.NewRat(1, 2))), 6)
		up2 := fmtRat(new(big.Rat).Add(cur, new(big.Rat).Mul(avail, big.NewRat(3, 4))), 6)
		down := fmtRat(new(big.Rat).Mul(cur, big.NewRat(1, 2)), 6)
		if rat(down).Sign() == 0 {
			down = "0.000001"
		}
		mid := fmtRat(new(big.Rat).Mul(cur, big.NewRat(3, 4)), 6)
		if rat(mid).Sign() == 0 {
			mid = "0.000001"
		}
		upd := func(q, d string, e *time.Time) *market.MsgUpdateSellOrders_Update {
			return &market.MsgUpdateSellOrders_Update{SellOrderId: o.ID, NewQuantity: q, NewAskPrice: bigCoin(d, ask), DisableAutoRetire: o.DisableAutoRetire, NewExpiration: e}
		}
		other := g.askDenom(v)
		later := g.now.Add(time.Duration(1+g.R.Intn(7200)) * time.Second)
		var us []*market.MsgUpdateSellOrders_Update
		kind := ""
		switch g.R.Intn(5) {
		case 0:
			us, kind = []*market.MsgUpdateSellOrders_Update{upd(up, denom, nil), upd(down, denom, nil)}, "up-then-down"
		case 1:
			us, kind = []*market.MsgUpdateSellOrders_Update{upd(down, denom, nil), upd(up, denom, nil)}, "down-then-up"
		case 2:
			us, kind = []*market.MsgUpdateSellOrders_Update{upd(down, denom, nil), upd(down, other, nil)}, "quantity-then-denom"
		case 3:
			us, kind = []*market.MsgUpdateSellOrders_Update{upd(up, denom, nil), upd(up, denom, &later)}, "quantity-then-expiration"
		default:
			us, kind = []*market.MsgUpdateSellOrders_Update{upd(down, denom, nil), upd(up, other, nil), upd(mid, denom, &later)}, "three-updates(down,up+denom,mid+expiration)"
		}
		_ = up2
		g.bump("dup:update-same-order:" + kind)
		g.Do(g.App.MsgUpdateSellOrders(seller, us...), note+" the same order "+fmt.Sprint(len(us))+" times in one message ("+kind+")")
		return true
	}
	var exp *time.Time
	switch g.R.Intn(7) {
	case 0:
		qty = fmtRat(new(big.Rat).Add(cur, new(big.Rat).Mul(avail, big.NewRat(1, 2))), 6)
		note += " quantity up"
		g.bump("update:quantity-up")
	case 1:
		qty = fmtRat(new(big.Rat).Mul(cur, big.NewRat(1, 2)), 6)
		if rat(qty).Sign() == 0 {
			qty = "0.000001"
		}
		note += " quantity down"
		g.bump("update:quantity-down")
	case 2:
		qty = fmtRat(cur, 6)
		if len(qty) > 0 && !containsDot(qty) {
			qty += ".0"
		} else {
			qty += "0"
		}
		note += " equal quantity, different string"
		g.bump("update:quantity-equal-different-string")
	case 3:
		denom = g.askDenom(v)
		note += " denom change to " + denom
		g.bump("update:denom-change")
	case 4:
		exp = g.expiration()
		note += " expiration change"
		g.bump("update:expiration-change")
	case 5:
		ask = g.askAmount()
		note += " price change"
	default:
		qty = fmtRat(new(big.Rat).Add(new(big.Rat).Add(cur, avail), micro), 6)
		note += " quantity beyond the balance"
	}
	g.Do(g.App.MsgUpdateSellOrders(seller, &market.MsgUpdateSellOrders_Update{SellOrderId: o.ID, NewQuantity: qty, NewAskPrice: bigCoin(denom, ask),
		DisableAutoRetire: g.R.Bool(), NewExpiration: exp}), note)
	return true
}

func containsDot(s string) bool {
	for i := 0; i < len(s); i++ {
		if s[i] == '.' {
			return true
		}
	}
	return false
}

func opCancelSell(g *G) bool {
	v := g.V()
	os := g.orders(v)
	if len(os) == 0 {
		return false
	}
	o := os[g.R.Intn(len(os))]
	seller := idxOf(o.Seller)
	note := "cancel sell order"
	id := o.ID
	if g.bad() {
		if g.R.Bool() {
			seller, note = g.otherUser(seller), note+": not the owner"
		} else {
			id, note = id+1000, note+": unknown id"
		}
	}
	g.Do(g.App.MsgCancelSellOrder(seller, id), note)
	return true
}

// buyerFeeFloor computes trunc(quantity x ask x buyer fee rate) with exact rationals.
func buyerFeeFloor(v *monitor.View, q *big.Rat, ask *big.Int) *big.Int {
	br, ok := monitor.MsgAmount(v.BuyerFee)
	if !ok {
		br = new(big.Rat)
	}
	f := new(big.Rat).Mul(new(big.Rat).Mul(q, new(big.Rat).SetInt(ask)), br)
	return new(big.Int).Quo(f.Num(), f.Denom())
}

// buyOrder builds one BuyDirect order for o, with variants controlled by the rng.
func (g *G) buyOrder(v *monitor.View, o *monitor.Order) (*market.MsgBuyDirect_Order, string) {
	mk := v.Markets[o.Market]
	denom := "stake"
	if mk != nil {
		denom = mk.Denom
	}
	ask := o.Ask
	if ask == nil {
		ask = big.NewInt(1)
	}
	cur := o.Qty.V
	if cur == nil {
		cur = big.NewRat(1, 1)
	}
	note := ""
	var q *big.Rat
	switch r := g.R.Intn(100); {
	case r < 35:
		q = new(big.Rat).Set(cur)
		note = "full"
		g.bump("buy:full")
	case r < 84:
		q = rat(fmtRat(new(big.Rat).Mul(cur, big.NewRat(int64(1+g.R.Intn(99)), 100)), 6))
		if q.Sign() == 0 {
			q = new(big.Rat).Set(micro)
		}
		note = "partial"
		g.bump("buy:partial")
	case r < 93:
		q = new(big.Rat).Set(micro)
		note = "dust"
		g.bump("buy:0.000001")
	default:
		q = new(big.Rat).Add(cur, micro)
		note = "over-asking quantity"
		g.bump("buy:over-asking")
	}
	qs := fmtRat(q, 6)
	bid := new(big.Int).Set(ask)
	switch r := g.R.Intn(100); {
	case r < 50:
		g.bump("buy:bid==ask")
	case r < 92:
		bid.Add(bid, big.NewInt(int64(1+g.R.Intn(1000))))
		g.bump("buy:bid>ask")
	default:
		if bid.Cmp(big.NewInt(1)) > 0 {
			bid.Sub(bid, big.NewInt(1))
			note += ", bid < ask"
			g.bump("buy:bid<ask")
		}
	}
	bidDenom := denom
	if g.bad() && g.R.Chance(1, 5) {
		bidDenom = map[string]string{"stake": "uatom", "uatom": "stake", "uregen": "stake", "uusdc": "stake"}[denom]
		if bidDenom == "" {
			bidDenom = "stake"
		}
		note += ", wrong bid denom"
		g.bump("buy:wrong-denom")
	}
	fee := buyerFeeFloor(v, q, ask)
	var maxFee *sdk.Coin
	switch r := g.R.Intn(100); {
	case r < 10:
		g.bump("buy:max-fee-absent")
		note += ", no max fee"
	case r < 65:
		maxFee = bigCoin(denom, fee)
		g.bump("buy:max-fee==trunc(fee)")
	case r < 88:
		maxFee = bigCoin(denom, new(big.Int).Add(fee, big.NewInt(int64(1+g.R.Intn(100)))))
	case r < 95:
		if fee.Sign() > 0 {
			maxFee = bigCoin(denom, new(big.Int).Sub(fee, big.NewInt(1)))
			note += ", max fee one less"
			g.bump("buy:max-fee-one-less")
		} else {
			maxFee = bigCoin(denom, big.NewInt(0))
		}
	default:
		other := "uatom"
		if denom == "uatom" {
			other = "stake"
		}
		maxFee = bigCoin(other, new(big.Int).Add(fee, big.NewInt(5)))
		note += ", max fee in a different denom"
		g.bump("buy:max-fee-different-denom")
	}
	disable := false
	if o.DisableAutoRetire {
		disable = g.R.Bool()
	} else if g.bad() && g.R.Chance(1, 3) {
		disable = true
		note += ", disable auto-retire not permitted"
	}
	g.bump(fmt.Sprintf("buy:disable-auto-retire buyer=%v/order=%v", disable, o.DisableAutoRetire))
	return chain.BuyOrder(o.ID, qs, bigCoin(bidDenom, bid), disable, g.jur(), "buy", maxFee), note
}

func opBuy(g *G) bool {
	v := g.V()
	os := g.orders(v)
	if len(os) == 0 {
		return false
	}
	o := os[g.R.Intn(len(os))]
	buyer := g.otherUser(idxOf(o.Seller))
	if g.bad() && g.R.Chance(1, 6) {
		buyer = idxOf(o.Seller)
	}
	bo, note := g.buyOrder(v, o)
	orders := []*market.MsgBuyDirect_Order{bo}
	switch g.R.Intn(7) {
	case 0:
		// the same order twice in one message
		half := rat(fmtRat(new(big.Rat).Quo(o.Qty.V, big.NewRat(2, 1)), 6))
		if half.Sign() > 0 && o.Ask != nil {
			mk := v.Markets[o.Market]
			if mk != nil {
				mf := bigCoin(mk.Denom, buyerFeeFloor(v, half, o.Ask))
				a := chain.BuyOrder(o.ID, fmtRat(half, 6), bigCoin(mk.Denom, o.Ask), o.DisableAutoRetire, g.jur(), "", mf)
				b := chain.BuyOrder(o.ID, fmtRat(half, 6), bigCoin(mk.Denom, o.Ask), o.DisableAutoRetire, g.jur(), "", mf)
				orders = []*market.MsgBuyDirect_Order{a, b}
				note = "same order twice in one message (half + half)"
				if g.R.Chance(1, 3) {
					orders = append(orders, chain.BuyOrder(o.ID, "0.000001", bigCoin(mk.Denom, o.Ask), o.DisableAutoRetire, g.jur(), "", mf))
					note += " + dust (over-asking after the two fills)"
				}
				g.bump("buy:same-order-twice")
			}
		}
	case 3:
		// the same order twice, each time for its FULL quantity: the second entry names an order the first one
		// has just removed (the message must fail as a whole); most interesting when the seller has another open
		// order for the same batch, whose escrow the second fill would eat
		if o.Qty.V != nil && o.Qty.V.Sign() > 0 && o.Ask != nil {
			if mk := v.Markets[o.Market]; mk != nil {
				full := fmtRat(o.Qty.V, 6)
				mf := bigCoin(mk.Denom, buyerFeeFloor(v, o.Qty.V, o.Ask))
				a := chain.BuyOrder(o.ID, full, bigCoin(mk.Denom, o.Ask), o.DisableAutoRetire, g.jur(), "", mf)
				b := chain.BuyOrder(o.ID, full, bigCoin(mk.Denom, o.Ask), o.DisableAutoRetire, g.jur(), "", mf)
				orders = []*market.MsgBuyDirect_Order{a, b}
				note = "same order twice in one message (full + full): the second names a removed order"
				sibling := false
				for _, o2 := range os {
					if o2.ID != o.ID && o2.Seller == o.Seller && o2.Batch == o.Batch {
						sibling = true
					}
				}
				if sibling {
					g.bump("buy:same-order-full-twice(seller-has-sibling-order)")
				} else {
					g.bump("buy:same-order-full-twice")
				}
			}
		}
	case 2:
		// two different orders of the same seller and batch in one message
		for _, o2 := range os {
			if o2.ID != o.ID && o2.Seller == o.Seller && o2.Batch == o.Batch && idxOf(o2.Seller) != buyer {
				b2, n2 := g.buyOrder(v, o2)
				orders = append(orders, b2)
				note += " | second order of the same seller and batch: " + n2
				g.bump("dup:buy-two-orders-same-seller-batch")
				break
			}
		}
	case 4:
		// two entries that resolve to the SAME market: an honest first entry (dust or partial), then the same order
		// or a sibling order of that market bid in ANOTHER denom the buyer holds (bid amount >= ask): the message
		// must fail as a whole -- every entry is checked against its market's denom, also a repeated market
		if mk := v.Markets[o.Market]; mk != nil && o.Ask != nil && o.Qty.V != nil && o.Qty.V.Sign() > 0 {
			other := ""
			for _, d := range []string{"stake", "uatom", "uregen"} {
				if d != mk.Denom {
					other = d
					if g.R.Bool() {
						break
					}
				}
			}
			target := o
			for _, o2 := range os {
				if o2.ID != o.ID && o2.Market == o.Market && idxOf(o2.Seller) != buyer && o2.Ask != nil && o2.Qty.V != nil && g.R.Bool() {
					target = o2
					break
				}
			}
			dust := "0.000001"
			first := chain.BuyOrder(o.ID, dust, bigCoin(mk.Denom, o.Ask), o.DisableAutoRetire, g.jur(), "", bigCoin(mk.Denom, new(big.Int).Add(buyerFeeFloor(v, micro, o.Ask), big.NewInt(1))))
			q := rat(fmtRat(new(big.Rat).Quo(target.Qty.V, big.NewRat(2, 1)), 6))
			if q.Sign() == 0 {
				q = new(big.Rat).Set(micro)
			}
			second := chain.BuyOrder(target.ID, fmtRat(q, 6), bigCoin(other, target.Ask), target.DisableAutoRetire, g.jur(), "", bigCoin(other, new(big.Int).Add(buyerFeeFloor(v, q, target.Ask), big.NewInt(1))))
			orders = []*market.MsgBuyDirect_Order{first, second}
			note = fmt.Sprintf("same market twice in one message: an honest dust bid in %s, then order %d bid in %s", mk.Denom, target.ID, other)
			g.bump("buy:same-market-later-bid-in-other-denom")
		}
	case 1:
		if len(os) > 1 {
			o2 := os[g.R.Intn(len(os))]
			if o2.ID != o.ID && idxOf(o2.Seller) != buyer {
				b2, n2 := g.buyOrder(v, o2)
				orders = append(orders, b2)
				note += " | second order: " + n2
				g.bump("buy:multi-order")
			}
		}
	}
	g.Do(g.App.MsgBuyDirect(buyer, orders...), "buy "+note)
	return true
}

// opBuyAcrossMarkets buys 2-3 orders that belong to DIFFERENT markets (ask denoms) in one message:
// each bid in its own ask denom (valid), or the later ones bid in the first order's denom (invalid).
func opBuyAcrossMarkets(g *G) bool {
	v := g.V()
	os := g.orders(v)
	if len(os) < 2 {
		return false
	}
	first := os[g.R.Intn(len(os))]
	picked := []*monitor.Order{first}
	denoms := map[string]bool{}
	if mk := v.Markets[first.Market]; mk != nil {
		denoms[mk.Denom] = true
	}
	want := 2 + g.R.Intn(2)
	for _, o := range os {
		mk := v.Markets[o.Market]
		if len(picked) >= want || mk == nil || denoms[mk.Denom] || o.Ask == nil || o.Qty.V == nil {
			continue
		}
		denoms[mk.Denom] = true
		picked = append(picked, o)
	}
	if len(picked) < 2 {
		return false
	}
	buyer := -1
	for u := 0; u < NumUsers; u++ {
		okU := true
		for _, o := range picked {
			if idxOf(o.Seller) == u {
				okU = false
			}
		}
		if okU {
			buyer = u
			break
		}
	}
	if buyer < 0 {
		return false
	}
	wrong := g.R.Chance(1, 3)
	m0 := v.Markets[first.Market]
	var orders []*market.MsgBuyDirect_Order
	for i, o := range picked {
		mk := v.Markets[o.Market]
		if mk == nil || o.Ask == nil || o.Qty.V == nil || m0 == nil {
			return false
		}
		q := rat(fmtRat(new(big.Rat).Mul(o.Qty.V, big.NewRat(int64(1+g.R.Intn(100)), 100)), 6))
		if q.Sign() == 0 {
			q = new(big.Rat).Set(micro)
		}
		denom := mk.Denom
		if wrong && i > 0 {
			denom = m0.Denom // bid in the FIRST order's denom
		}
		fee := new(big.Int).Add(buyerFeeFloor(v, q, o.Ask), big.NewInt(1))
		orders = append(orders, chain.BuyOrder(o.ID, fmtRat(q, 6), bigCoin(denom, o.Ask), o.DisableAutoRetire, g.jur(), "", bigCoin(denom, fee)))
	}
	note := fmt.Sprintf("buy %d orders of different markets in one message, each bid in its own ask denom", len(picked))
	if wrong {
		note = fmt.Sprintf("buy %d orders of different markets in one message, the later ones bid in the first order's denom %s", len(picked), m0.Denom)
		g.bump(fmt.Sprintf("buy-across-markets:%d-orders:later-bid-in-first-denom", len(picked)))
	} else {
		g.bump(fmt.Sprintf("buy-across-markets:%d-orders:own-denoms", len(picked)))
	}
	g.Do(g.App.MsgBuyDirect(buyer, orders...), note)
	return true
}

func opBuyMissing(g *G) bool {
	v := g.V()
	id := g.Rec.State().Sequences["SellOrder"]
	if id == 0 {
		return false
	}
	// an id that was issued but is (probably) gone: filled, cancelled or expired
	for try := 0; try < 6; try++ {
		c := uint64(1 + g.R.Intn(int(id)))
		if v.Orders[c] == nil {
			g.Do(g.App.MsgBuyDirect(g.user(), chain.BuyOrder(c, "1", coin("stake", 1000000000), false, g.jur(), "", coin("stake", 1000000000))), "buy an order that no longer exists (filled, cancelled or expired)")
			g.bump("buy:order-gone")
			return true
		}
	}
	return false
}

// intSpelling renders a non-negative integer in one of the spellings sdk.NewIntFromString accepts (math/big base 0):
// mostly plain decimal, sometimes hexadecimal / octal / binary with prefix, a leading plus or '_' separators, and in the
// malformed stream a spelling that must be rejected.
func (g *G) intSpelling(v *big.Int) string {
	plain := v.String()
	if !g.R.Chance(1, 6) {
		return plain
	}
	sep := func(s string) string { // '_' between two digits
		if len(s) < 2 {
			return s
		}
		i := 1 + g.R.Intn(len(s)-1)
		return s[:i] + "_" + s[i:]
	}
	var out string
	switch g.R.Intn(8) {
	case 0:
		out = "0x" + v.Text(16)
	case 1:
		out = "0" + v.Text(8)
	case 2:
		out = "0o" + v.Text(8)
	case 3:
		out = "0b" + v.Text(2)
	case 4:
		out = "+" + plain
	case 5:
		out = sep(plain)
	case 6:
		out = "0X" + sep(strings.ToUpper(v.Text(16)))
	default:
		out = "0_" + v.Text(8)
	}
	if g.bad() && g.R.Chance(1, 3) {
		out = []string{"0" + plain + "8", plain + "_", "_" + plain, "0x", plain + "__1", "0b" + plain + "2", "0" + plain + ".0"}[g.R.Intn(7)]
	}
	g.bump("take:spelling-variant")
	return out
}
