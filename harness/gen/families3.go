package gen

import (
	"encoding/base64"
	"encoding/json"
	"fmt"
	"math/big"
	"strings"
	"sync"
	"time"

	sdk "github.com/cosmos/cosmos-sdk/types"

	data "github.com/regen-network/regen-ledger/x/data/v3"
	datahasher "github.com/regen-network/regen-ledger/x/data/v3/server/hasher"
	base "github.com/regen-network/regen-ledger/x/ecocredit/v3/base/types/v1"
	basket "github.com/regen-network/regen-ledger/x/ecocredit/v3/basket/types/v1"
	market "github.com/regen-network/regen-ledger/x/ecocredit/v3/marketplace/types/v1"

	"verif/harness/chain"
	"verif/harness/monitor"
)

// ---------------------------------------------------------------------------------------------
// 7. params

var (
	paramsBaseOnce sync.Once
	paramsBase     map[string]json.RawMessage
	paramsBaseErr  interface{} // panic value of the staging, re-raised for every params history
)

const paramsBatch = "C01-001-20200101-20210101-001"
const paramsBasket = "eco.uC.PRM"

// paramsGenesis is a staged genesis in which the preconditions of every probed user operation
// hold: class C01 (issuer 0), a batch held by users 0..2, basket PRM with deposits, uatom and uregen
// allowed, user 4 on the (disabled) creator allowlist.
func paramsGenesis() map[string]json.RawMessage {
	paramsBaseOnce.Do(func() {
		defer func() { paramsBaseErr = recover() }()
		paramsBase = stage(nil, T0, func(a *chain.App) {
			stageDo(a, "params", "allow uatom", a.MsgAddAllowedDenom("uatom", "atom", 6))
			stageDo(a, "params", "allow uregen", a.MsgAddAllowedDenom("uregen", "regen", 6))
			stageDo(a, "params", "creator 4", a.MsgAddClassCreator(4))
			stageDo(a, "params", "class", a.MsgCreateClass(0, []int{0}, "md", "C", chain.Coin("stake", 20000000)))
			stageDo(a, "params", "project", a.MsgCreateProject(0, "C01", "md", "US-WA", "", nil))
			stageDo(a, "params", "batch", a.MsgCreateBatch(0, "C01-001", "", []*base.BatchIssuance{a.Issuance(0, "100000", "", ""), a.Issuance(1, "100000", "", ""), a.Issuance(2, "100000", "", "")},
				"md", date(2020, 1, 1), date(2021, 1, 1), true, nil))
			stageDo(a, "params", "basket", a.MsgBasketCreate(3, "PRM", "params basket", "C", []string{"C01"}, true, nil, sdk.NewCoins(sdk.NewInt64Coin("stake", 20000000))))
			stageDo(a, "params", "put", a.MsgBasketPut(0, paramsBasket, chain.BasketCredit(paramsBatch, "5000")))
			stageDo(a, "params", "put", a.MsgBasketPut(1, paramsBasket, chain.BasketCredit(paramsBatch, "5000")))
		})
	})
	if paramsBaseErr != nil {
		panic(paramsBaseErr)
	}
	out := map[string]json.RawMessage{}
	for k, v := range paramsBase {
		out[k] = append(json.RawMessage(nil), v...)
	}
	return out
}

type genesisVariant struct {
	slug  string
	patch func(gen map[string]json.RawMessage)
}

func feeObj(denom, amount string) map[string]interface{} {
	return map[string]interface{}{"fee": map[string]string{"denom": denom, "amount": amount}}
}

func paramsVariants() []genesisVariant {
	vs := []genesisVariant{
		{"default-genesis", func(map[string]json.RawMessage) {}},
		{"zero-fee-genesis", func(gen map[string]json.RawMessage) {
			patchEco(gen, "regen.ecocredit.v1.ClassFee", feeObj("stake", "0"))
			patchEco(gen, "regen.ecocredit.basket.v1.BasketFee", feeObj("stake", "0"))
		}},
		{"unset-fee-genesis", func(gen map[string]json.RawMessage) {
			patchEco(gen, "regen.ecocredit.v1.ClassFee", map[string]interface{}{"fee": nil})
			patchEco(gen, "regen.ecocredit.basket.v1.BasketFee", map[string]interface{}{"fee": nil})
		}},
		{"uatom-fee-genesis", func(gen map[string]json.RawMessage) {
			patchEco(gen, "regen.ecocredit.v1.ClassFee", feeObj("uatom", "1"))
			patchEco(gen, "regen.ecocredit.basket.v1.BasketFee", feeObj("uregen", "999999999999"))
		}},
		{"allowlist-on-genesis", func(gen map[string]json.RawMessage) {
			patchEco(gen, "regen.ecocredit.v1.ClassCreatorAllowlist", map[string]bool{"enabled": true})
		}},
	}
	for _, p := range [][2]string{{"0", "0"}, {"0.0", "0.0"}, {"", "1"}, {"1", ""}, {"0.5", "0.003"}, {FeeRates[7], FeeRates[7]}, {FeeRates[8], FeeRates[9]}, {"2.5", "1"}} {
		p := p
		vs = append(vs, genesisVariant{fmt.Sprintf("fee-params(%s,%s)-genesis", label(p[0]), label(p[1])), func(gen map[string]json.RawMessage) {
			patchEco(gen, "regen.ecocredit.marketplace.v1.FeeParams", map[string]string{"buyer_percentage_fee": p[0], "seller_percentage_fee": p[1]})
		}})
	}
	return vs
}

// probe runs each user operation in a state where its own preconditions hold and records the
// expectation in the item note ("expect-ok|<slug>-blocks-<op>|...") for monitor C18.
func (g *G) probe(slug string, expect bool) {
	a := g.App
	// the expectation is keyed by the parameter value that governs the operation in the CURRENT
	// state (a value set by genesis stays in force until a governance message replaces it)
	_ = slug
	v0 := g.V()
	from := func(param string) string {
		if g.paramFromGov[param] {
			return ""
		}
		return "-genesis"
	}
	feeSlug := func(name string, f *monitor.CoinV, param string) string {
		switch {
		case f == nil:
			return name + "-fee-unset" + from(param)
		case f.Amount != nil && f.Amount.Sign() == 0:
			return "zero-fee" + from(param)
		}
		return name + "-fee-positive-" + f.Denom + from(param)
	}
	slugOf := map[string]string{
		"create-class":      feeSlug("class", v0.ClassFee, "ClassFee"),
		"basket-create":     feeSlug("basket", v0.BasketFee, "BasketFee"),
		"sell":              "allowed-denoms(" + strings.Join(sortedDenoms(v0.AllowedDenoms), ",") + ")",
		"update-sell-order": "allowed-denoms(" + strings.Join(sortedDenoms(v0.AllowedDenoms), ",") + ")",
		"buy-direct":        fmt.Sprintf("fee-params(%s,%s)%s", label(v0.BuyerFee), label(v0.SellerFee), from("FeeParams")),
		"put":               "any-params",
		"take":              "any-params",
	}
	if v0.AllowlistOn {
		slugOf["create-class"] += "+allowlist-on" + from("Allowlist")
	}
	note := func(op, desc string) string {
		if !expect {
			return "probe " + op + " (genesis validation rejected this configuration; no expectation)"
		}
		return "expect-ok|" + slugOf[op] + "-blocks-" + op + "|" + desc + " under parameter configuration " + slugOf[op]
	}
	v := g.V()
	funded := func(u int, c *sdk.Coin) bool {
		return c == nil || v.BankOf(keyOf(u), c.Denom).Cmp(c.Amount.BigInt()) >= 0
	}
	// CreateClass
	creator := 4
	if !v.AllowlistOn || v.Creators[keyOf(creator)] {
		fee := g.classFeeCoin()
		if funded(creator, fee) {
			g.Do(a.MsgCreateClass(creator, []int{creator}, g.id("md"), "C", fee), note("create-class", "CreateClass by an allowed creator offering the required fee"))
			g.bump("probe:create-class")
		}
	}
	// basket Create
	v = g.V()
	var bfee *sdk.Coin
	if f := g.basketFee(v); f != nil {
		bfee = &f[0]
	}
	if funded(creator, bfee) {
		g.uniq++
		name := fmt.Sprintf("P%dx%d", g.N%10, g.uniq)
		g.Do(a.MsgBasketCreate(creator, name, "probe", "C", []string{"C01"}, false, nil, g.basketFee(v)), note("basket-create", "basket Create offering the required fee"))
		g.bump("probe:basket-create")
	}
	// Sell / Update / Buy
	v = g.V()
	ds := sortedDenoms(v.AllowedDenoms)
	if len(ds) > 0 {
		denom := ds[g.R.Intn(len(ds))]
		ask := int64(1000 + g.R.Intn(100000))
		res := g.Do(a.MsgSell(0, chain.SellOrder(paramsBatch, "10", coin(denom, ask), true, nil)), note("sell", "Sell of held credits in an allowed denom"))
		g.bump("probe:sell")
		if res.OK {
			id := g.Rec.State().Sequences["SellOrder"]
			g.Do(a.MsgUpdateSellOrders(0, &marketUpdate{SellOrderId: id, NewQuantity: "12", NewAskPrice: coin(denom, ask), DisableAutoRetire: true}), note("update-sell-order", "UpdateSellOrders by the owner"))
			g.bump("probe:update")
			v = g.V()
			q := big.NewRat(3, 1)
			fee := buyerFeeFloor(v, q, big.NewInt(ask))
			total := new(big.Int).Add(new(big.Int).Mul(big.NewInt(3), big.NewInt(ask)), new(big.Int).Add(fee, big.NewInt(1)))
			if v.BankOf(keyOf(1), denom).Cmp(total) >= 0 {
				g.Do(a.MsgBuyDirect(1, chain.BuyOrder(id, "3", coin(denom, ask), true, "", "", bigCoin(denom, fee))), note("buy-direct", "BuyDirect with bid = ask and max fee = floor(buyer fee)"))
				g.bump("probe:buy")
			}
		}
	} else {
		g.bump("probe:sell-skipped(no allowed denom)")
	}
	// Put / Take
	g.Do(a.MsgBasketPut(2, paramsBasket, chain.BasketCredit(paramsBatch, "7.5")), note("put", "Put of qualifying credits"))
	g.Do(a.MsgBasketTake(2, paramsBasket, "2500000", false, "", ""), note("take", "Take of held basket tokens"))
	g.bump("probe:put+take")
}

func runParams(c Cfg) *Result {
	vs := paramsVariants()
	variant := vs[c.N%len(vs)]
	gen := paramsGenesis()
	variant.patch(gen)
	opts := chain.Options{GenesisTime: T0.Add(time.Hour), Genesis: gen}
	g := NewG(c, opts)
	accepted := len(g.App.ValidateGenesis(gen)) == 0
	if accepted {
		g.bump("genesis-accepted:" + variant.slug)
	} else {
		g.bump("genesis-rejected-by-validation:" + variant.slug)
	}
	a := g.App
	g.Begin(g.now.Add(6 * time.Second))
	g.probe(variant.slug, accepted)
	g.Commit()

	type pm struct {
		slug string
		msg  func() sdk.Msg
	}
	var pms []pm
	for _, d := range []string{"stake", "uatom", "uregen"} {
		d := d
		pms = append(pms, pm{"class-fee-positive-" + d, func() sdk.Msg { return a.MsgUpdateClassFee(coin(d, int64(1+g.R.Intn(5000000)))) }})
		pms = append(pms, pm{"basket-fee-positive-" + d, func() sdk.Msg { return a.MsgUpdateBasketFee(coin(d, int64(1+g.R.Intn(5000000)))) }})
	}
	pms = append(pms,
		pm{"class-fee-unset", func() sdk.Msg { return a.MsgUpdateClassFee(nil) }},
		pm{"class-fee-zero-coin", func() sdk.Msg { return a.MsgUpdateClassFee(coin("stake", 0)) }},
		pm{"basket-fee-unset", func() sdk.Msg { return a.MsgUpdateBasketFee(nil) }},
		pm{"basket-fee-zero-coin", func() sdk.Msg { return a.MsgUpdateBasketFee(coin("uatom", 0)) }},
		pm{"allowlist-on", func() sdk.Msg { return a.MsgSetClassCreatorAllowlist(true) }},
		pm{"allowlist-off", func() sdk.Msg { return a.MsgSetClassCreatorAllowlist(false) }},
		pm{"allowed-denom-stake-removed", func() sdk.Msg { return a.MsgRemoveAllowedDenom("stake") }},
		pm{"allowed-denom-uatom-removed", func() sdk.Msg { return a.MsgRemoveAllowedDenom("uatom") }},
		pm{"allowed-denom-stake-added", func() sdk.Msg { return a.MsgAddAllowedDenom("stake", "stake", 6) }},
	)
	for _, b := range FeeRates {
		for _, s := range []string{"", "0", "0.0", "0.003", "1", FeeRates[7], FeeRates[8]} {
			b, s := b, s
			pms = append(pms, pm{fmt.Sprintf("fee-params(%s,%s)", label(b), label(s)), func() sdk.Msg { return a.MsgGovSetFeeParams(b, s) }})
		}
	}
	pms = append(pms, pm{"fee-params(buyer>1)", func() sdk.Msg { return a.MsgGovSetFeeParams("3.75", "0.5") }})
	nBlocks := 4 + g.R.Intn(5)
	for b := 0; b < nBlocks; b++ {
		g.Begin(g.nextTime())
		p := pms[g.R.Intn(len(pms))]
		m := p.msg()
		res := g.Do(m, "gov: parameter "+p.slug)
		g.bump("param:" + strings.SplitN(p.slug, "(", 2)[0])
		if res.OK {
			switch m.(type) {
			case *base.MsgUpdateClassFee:
				g.paramFromGov["ClassFee"] = true
			case *basket.MsgUpdateBasketFee:
				g.paramFromGov["BasketFee"] = true
			case *market.MsgGovSetFeeParams:
				g.paramFromGov["FeeParams"] = true
			case *base.MsgSetClassCreatorAllowlist:
				g.paramFromGov["Allowlist"] = true
			}
			g.probe(p.slug, true)
		}
		g.Commit()
	}
	g.Begin(g.nextTime())
	g.formatsBoundary()
	g.Commit()
	g.GenesisRT("params: after the format boundary rows")
	return g.Finish()
}

// ---------------------------------------------------------------------------------------------
// 8. ids

func setSeqRows(gen map[string]json.RawMessage, table, keyField string, key interface{}, next uint64) {
	rows, _ := ecoTable(gen, table).([]interface{})
	found := false
	for _, r := range rows {
		m, _ := r.(map[string]interface{})
		if fmt.Sprint(m[keyField]) == fmt.Sprint(key) {
			m["next_sequence"] = fmt.Sprint(next)
			found = true
		}
	}
	if !found {
		rows = append(rows, map[string]interface{}{keyField: key, "next_sequence": fmt.Sprint(next)})
	}
	patchEco(gen, table, rows)
}

var idsCreateOps = []wop{
	{8, opCreateClass, "class"}, {14, opCreateProject, "project"}, {16, opCreateBatch, "batch"}, {4, opBridgeReceive, "receive"},
	{2, opGov, "gov"}, {2, opSend, "send"}, {1, opMint, "mint"}, {1, opAdminNoise, "admin"},
}

func runIDs(c Cfg) *Result {
	starts := [][3]uint64{{9, 9, 9}, {99, 99, 99}, {999, 999, 999}, {10, 100, 1000}, {1, 1, 1}}
	s := starts[c.N%len(starts)]
	gt := T0
	var gen map[string]json.RawMessage
	if s[0] != 1 {
		// stage 1: class sequence start; create the class
		g1 := stage(nil, gt, func(a *chain.App) {})
		setSeqRows(g1, "regen.ecocredit.v1.ClassSequence", "credit_type_abbrev", "C", s[0])
		g2 := stage(g1, gt, func(a *chain.App) {
			for _, ab := range []string{"A", "BT", "ZZZ"} {
				stageDo(a, "ids", "credit type", a.MsgAddCreditType(&base.CreditType{Abbreviation: ab, Name: "type-" + ab, Unit: "u", Precision: 6}))
			}
			stageDo(a, "ids", "chain", a.MsgAddAllowedBridgeChain("polygon"))
			stageDo(a, "ids", "class", a.MsgCreateClass(0, []int{0, 1}, "md", "C", chain.Coin("stake", 20000000)))
		})
		// stage 2: project sequence start; create the project
		setSeqRows(g2, "regen.ecocredit.v1.ProjectSequence", "class_key", "1", s[1])
		classID := fmt.Sprintf("C%02d", s[0])
		g3 := stage(g2, gt, func(a *chain.App) {
			stageDo(a, "ids", "project", a.MsgCreateProject(0, classID, "md", "US", "", nil))
		})
		// stage 3: batch sequence start; neighbouring ids ten times larger follow in the history
		setSeqRows(g3, "regen.ecocredit.v1.BatchSequence", "project_key", "1", s[2])
		if c.N%2 == 0 {
			setSeqRows(g3, "regen.ecocredit.v1.ClassSequence", "credit_type_abbrev", "C", s[0]*10)
			setSeqRows(g3, "regen.ecocredit.v1.ProjectSequence", "class_key", "1", s[1]*10)
		}
		gen = g3
	}
	g := NewG(c, chain.Options{GenesisTime: gt.Add(time.Hour), Genesis: gen})
	g.badPct = 30
	g.bump(fmt.Sprintf("sequences-start-at-%d/%d/%d", s[0], s[1], s[2]))
	g.Begin(g.now.Add(6 * time.Second))
	if gen == nil {
		for _, ab := range []string{"A", "BT", "ZZZ"} {
			g.gov(g.App.MsgAddCreditType(&base.CreditType{Abbreviation: ab, Name: "type-" + ab, Unit: "u", Precision: 6}), "add credit type "+ab)
		}
		g.setupChains()
		g.mkClass(0, []int{0, 1}, "C")
	}
	g.gov(g.App.MsgUpdateClassFee(coin("stake", 1000)), "small class fee")
	g.mkClass(1, []int{1, 0}, "ZZZ")
	g.Commit()
	g.blocks(6+g.R.Intn(8), 3, 8, idsCreateOps)
	// prefix neighbours present?
	v := g.V()
	ids := []string{}
	for _, cl := range g.classes(v) {
		ids = append(ids, cl.ID)
	}
	for _, p := range g.projects(v) {
		ids = append(ids, p.ID)
	}
	for _, x := range ids {
		for _, y := range ids {
			if x != y && strings.HasPrefix(y, x) && !strings.HasPrefix(y, x+"-") {
				g.bump("prefix-neighbour-ids")
			}
		}
	}
	g.Begin(g.nextTime())
	g.formatsBoundary()
	g.Commit()
	g.GenesisRT("ids: after the format boundary rows")
	return g.Finish()
}

// ---------------------------------------------------------------------------------------------
// 9. genesis

func runGenesis(c Cfg) *Result {
	if c.N%2 == 0 {
		// a history of another family with 1..3 sampled genesis round trips
		sub := c
		sub.Sub = SubFamilies[(c.N/2)%len(SubFamilies)]
		sub.RTPoints = 1 + int(c.Seed%3)
		return Run(sub)
	}
	if c.N%4 == 3 {
		return runGenesisData(c)
	}
	g := NewG(c, chain.Options{GenesisTime: time.Date(1985, 6, 1, 0, 0, 0, 0, time.UTC)})
	g.badPct = 10
	a := g.App
	g.Begin(g.now.Add(6 * time.Second))
	g.setupDenoms()
	g.setupChains()
	switch g.R.Intn(3) {
	case 0:
		g.gov(a.MsgUpdateClassFee(nil), "class fee unset")
		g.gov(a.MsgUpdateBasketFee(nil), "basket fee unset")
		g.bump("unset-fees")
	case 1:
		g.gov(a.MsgUpdateClassFee(coin("stake", 0)), "class fee zero coin")
		g.gov(a.MsgUpdateBasketFee(coin("stake", 0)), "basket fee zero coin")
		g.bump("zero-fees")
	}
	cid := g.mkClass(0, []int{0, 1}, "C")
	res := g.Do(a.MsgCreateProject(0, cid, longString("project-metadata-", 256), "US-WA", "R", nil), "project with 256-byte metadata")
	pid := respField(res, "project_id")
	g.bump("256-byte-metadata")
	day := date(2019, 7, 7)
	dEq := g.mkBatch(0, pid, day, day, true, nil, "start == end date", g.spread("500")...)
	g.bump("batch-start==end")
	dEpoch := g.mkBatch(0, pid, time.Unix(0, 0).UTC(), date(1971, 1, 1), true, nil, "epoch start date", g.spread("500")...)
	g.bump("epoch-start-date")
	res = g.Do(a.MsgCreateBatch(0, pid, "", []*base.BatchIssuance{{Recipient: a.Addr(1), TradableAmount: "10", RetiredAmount: "3", RetirementJurisdiction: "US", RetirementReason: longString("reason-", 512)}},
		longString("batch-metadata-", 256), date(2001, 1, 1), date(2002, 1, 1), false, &base.OriginTx{Id: g.txHash(), Source: "polygon", Contract: ethAddr(1), Note: longString("note-", 512)}), "batch with 256-byte metadata and 512-byte notes")
	g.bump("512-byte-notes")
	g.formatsBoundary()
	g.Commit()
	g.GenesisRT("after setup (format boundary rows)")

	g.Begin(g.nextTime())
	res = g.Do(a.MsgBasketCreate(2, "GEN", "genesis basket", "C", []string{cid}, true, chain.MinStartDate(date(1950, 1, 1)), g.basketFee(g.V())), "basket accepting the epoch batch")
	bd := respField(res, "basket_denom")
	if bd != "" && dEpoch != "" {
		g.Do(a.MsgBasketPut(0, bd, chain.BasketCredit(dEpoch, "100")), "put: epoch start date into a basket")
		g.bump("epoch-start-date-in-basket")
		g.Do(a.MsgBasketPut(1, bd, chain.BasketCredit(dEq, "50")), "put: start==end batch")
		// drained-then-recreated basket balances
		v := g.V()
		tot := v.SupplyOf(bd)
		g.Do(a.MsgBankSend(1, 0, sdk.NewCoins(sdk.NewCoin(bd, sdk.NewIntFromBigInt(v.BankOf(keyOf(1), bd))))), "collect all basket tokens")
		g.Do(a.MsgBasketTake(0, bd, tot.String(), false, "", ""), "take everything (drain the basket)")
		g.Do(a.MsgBasketPut(0, bd, chain.BasketCredit(dEpoch, "25.5")), "put again (recreate the drained balance)")
		g.bump("drained-then-recreated-basket-balance")
	}
	if dEq != "" {
		g.Do(a.MsgSell(0, chain.SellOrder(dEq, "1e2", coin("stake", 5), true, nil)), "sell order with quantity in scientific notation")
		g.Do(a.MsgSell(1, chain.SellOrder(dEq, "1.50", coin("uatom", 5), false, ptr(g.now.Add(time.Hour)))), "sell order with a non-canonical quantity")
		g.bump("sell-order-quantity-scientific-notation")
	}
	g.Commit()
	g.GenesisRT("boundary stream")
	g.blocks(2+g.R.Intn(3), 2, 6, mixOps)
	g.GenesisRT("after random ops")
	return g.Finish()
}

// runGenesisData is the data-module part of the genesis boundary stream (data messages live in
// traces of their own): public and private resolvers, anchors, attestations, registrations.
func runGenesisData(c Cfg) *Result {
	g := NewG(c, chain.Options{GenesisTime: T0})
	a := g.App
	g.Begin(g.now.Add(6 * time.Second))
	raw := chain.RawHash(hash32("genesis-raw"), "pdf")
	gr := chain.GraphHash(hash32("genesis-graph"))
	g.Do(a.MsgAnchor(0, raw), "anchor")
	g.Do(a.MsgAttest(1, gr), "attest")
	pub := g.R.Bool()
	if pub || c.N%8 == 3 {
		g.Do(a.MsgDefineResolver(3, "https://public.example/data", true), "public resolver")
		g.bump("public-resolver")
	}
	g.Do(a.MsgDefineResolver(3, "https://private.example/data", false), "private resolver")
	g.Commit()
	g.GenesisRT("data boundary stream")
	g.Begin(g.nextTime())
	for _, id := range sortedU64Keys(g.V().Resolvers) {
		g.Do(a.MsgRegisterResolver(3, id, raw, &data.ContentHash{Graph: gr}), "register")
		g.Do(a.MsgRegisterResolver(4, id, raw), "register by another account")
	}
	g.Do(a.MsgAttest(1, gr), "attest again")
	g.Do(a.MsgAttest(2, gr), "attest by another account")
	g.Commit()
	g.GenesisRT("data boundary stream, with registrations")
	return g.Finish()
}

func hash32(seed string) []byte {
	out := make([]byte, 32)
	for i := range out {
		out[i] = byte(i*7) ^ seed[i%len(seed)]
	}
	return out
}

// ---------------------------------------------------------------------------------------------
// 10. data

func runData(c Cfg) *Result {
	kinds := []string{chain.HasherProd, chain.HasherWeak4, chain.HasherConst}
	kind := kinds[c.N%3]
	if !chain.WeakHasherAvailable {
		kind = chain.HasherProd
	}
	opts := chain.Options{GenesisTime: T0, HasherKind: kind}
	if kind == chain.HasherProd && c.N%2 == 1 {
		// a hand-written data genesis: DataID rows (on the probe path of their IRI) WITHOUT anchors, which the chain's
		// own exports never contain; the first message touching such an IRI (Anchor, Attest or RegisterResolver) must
		// anchor it at that block time
		opts.Patch = func(gen map[string]json.RawMessage) {
			h, err := datahasher.NewHasher()
			if err != nil {
				panic(err)
			}
			var rows []map[string]interface{}
			for i := 0; i < 4; i++ {
				ch := &data.ContentHash{Graph: chain.GraphHash(hash32(fmt.Sprintf("content-%d-%d", c.N%4, i)))}
				iri, err := ch.ToIRI()
				if err != nil {
					panic(err)
				}
				rows = append(rows, map[string]interface{}{"id": base64.StdEncoding.EncodeToString(h.CreateID([]byte(iri), 0)), "iri": iri})
			}
			var dg map[string]json.RawMessage
			if err := json.Unmarshal(gen[chain.GenData], &dg); err != nil {
				panic(err)
			}
			bz, _ := json.Marshal(rows)
			dg["regen.data.v1.DataID"] = bz
			out, _ := json.Marshal(dg)
			gen[chain.GenData] = out
		}
	}
	g := NewG(c, opts)
	if opts.Patch != nil {
		g.bump("data-genesis:ids-without-anchors")
	}
	g.bump("hasher:" + kind)
	g.rollbackEvery = 6
	a := g.App
	contents := make([][]byte, 10)
	for i := range contents {
		contents[i] = hash32(fmt.Sprintf("content-%d-%d", c.N%4, i))
	}
	// IRIs are determined by the digest AND by the metadata next to it (file extension; canonicalization and merkle
	// ids; digest id): one time in three the metadata is drawn independently of the digest, so that one message or
	// one history carries the same digest under different IRIs (doc.tif / doc.tiff, raw / graph of one hash).
	exts := []string{"pdf", "txt", "bin", "tif", "tiff", "htm", "html", "js", "json5"}
	raw := func() *data.ContentHash {
		i := g.R.Intn(len(contents))
		if g.R.Chance(1, 3) {
			g.bump("data:same-digest-other-metadata")
			ch := chain.RawHash(contents[i], exts[g.R.Intn(len(exts))])
			if g.R.Chance(1, 4) {
				ch.Raw.DigestAlgorithm = []uint32{2, 255}[g.R.Intn(2)]
			}
			return ch
		}
		return chain.RawHash(contents[i], []string{"pdf", "txt", "bin"}[i%3])
	}
	graph := func() *data.ContentHash_Graph {
		gh := chain.GraphHash(contents[g.R.Intn(len(contents))])
		if g.R.Chance(1, 3) {
			g.bump("data:same-digest-other-metadata")
			gh.CanonicalizationAlgorithm = []uint32{1, 2, 255}[g.R.Intn(3)]
			gh.MerkleTree = []uint32{0, 1, 255}[g.R.Intn(3)]
			if g.R.Chance(1, 4) {
				gh.DigestAlgorithm = 2
			}
		}
		return gh
	}
	any := func() *data.ContentHash {
		if g.R.Bool() {
			return raw()
		}
		return &data.ContentHash{Graph: graph()}
	}
	// variant returns a content hash with the digest of h and other metadata (a different IRI)
	variant := func(h *data.ContentHash) *data.ContentHash {
		g.bump("data:same-digest-twice-in-one-message")
		if r := h.GetRaw(); r != nil {
			if g.R.Chance(1, 4) {
				return &data.ContentHash{Graph: chain.GraphHash(r.Hash)}
			}
			return chain.RawHash(r.Hash, r.FileExtension+"x")
		}
		gr := *h.GetGraph()
		if g.R.Bool() {
			gr.MerkleTree++
		} else {
			gr.CanonicalizationAlgorithm++
		}
		return &data.ContentHash{Graph: &gr}
	}
	urls := []string{"https://a.example/data", "https://b.example/data", "https://c.example/data"}
	nBlocks := 5 + g.R.Intn(10)
	for b := 0; b < nBlocks; b++ {
		g.Begin(g.nextTime())
		k := 2 + g.R.Intn(7)
		for i := 0; i < k; i++ {
			v := g.V()
			switch r := g.R.Intn(100); {
			case r < 4:
				bad := chain.RawHash(contents[0], "pdf")
				bad.Raw.DigestAlgorithm = 0
				g.Do(a.MsgAnchor(g.user(), bad), "anchor: unspecified digest algorithm")
			case r < 7:
				gh := graph()
				gh.CanonicalizationAlgorithm = 0
				g.Do(a.MsgAttest(g.user(), gh), "attest: unspecified canonicalization algorithm")
			case r < 35:
				g.Do(a.MsgAnchor(g.user(), any()), "anchor")
			case r < 60:
				hs := []*data.ContentHash_Graph{graph()}
				for g.R.Chance(1, 3) {
					if g.R.Chance(1, 3) {
						hs = append(hs, variant(&data.ContentHash{Graph: hs[g.R.Intn(len(hs))]}).GetGraph())
					} else {
						hs = append(hs, graph())
					}
				}
				g.Do(a.MsgAttest(g.user(), hs...), fmt.Sprintf("attest %d hash(es)", len(hs)))
			case r < 75:
				pub := g.R.Chance(1, 3)
				g.Do(a.MsgDefineResolver(g.user(), urls[g.R.Intn(len(urls))], pub), fmt.Sprintf("define resolver (public=%v)", pub))
				if pub {
					g.bump("public-resolver")
				}
			default:
				ids := sortedU64Keys(v.Resolvers)
				if len(ids) == 0 {
					g.Do(a.MsgRegisterResolver(g.user(), 7, raw()), "register to a resolver that does not exist")
					continue
				}
				rs := v.Resolvers[ids[g.R.Intn(len(ids))]]
				signer := idxOf(rs.Manager)
				note := "register by the manager"
				if rs.Manager == "" {
					signer, note = g.user(), "register on a public resolver"
				} else if g.R.Chance(1, 3) {
					signer, note = g.otherUser(signer), "register by a non-manager"
				}
				hs := []*data.ContentHash{any()}
				for g.R.Chance(2, 5) {
					switch g.R.Intn(3) {
					case 0:
						hs = append(hs, variant(hs[g.R.Intn(len(hs))]))
					case 1:
						hs = append(hs, hs[g.R.Intn(len(hs))]) // exact repeat
					default:
						hs = append(hs, any())
					}
				}
				g.Do(a.MsgRegisterResolver(signer, rs.ID, hs...), note)
			}
		}
		g.Commit()
	}
	if g.R.Bool() {
		g.GenesisRT("data state")
	}
	return g.Finish()
}

var _ = monitor.KeyGov
