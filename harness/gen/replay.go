package gen

import (
	"encoding/hex"
	"encoding/json"
	"fmt"
	"runtime"
	"time"

	sdk "github.com/cosmos/cosmos-sdk/types"
	authtx "github.com/cosmos/cosmos-sdk/x/auth/tx"

	"verif/harness/chain"
	"verif/harness/internal/common"
	"verif/harness/monitor"
)

// Reexecute runs the operations of a stored trace on a fresh app through the same session layer as
// the generator (so all monitors run again when withMonitors is set). restartAfter(block) decides
// whether the app is torn down and rebuilt after the commit of that block (1-based); restart items
// of the stored trace are always honoured.
func Reexecute(t *chain.Trace, file, family string, withMonitors bool, restartAfter func(block int) bool) (*G, error) {
	opts := t.Options
	opts.DB = nil
	opts.Patch = nil
	opts.Genesis = t.GenesisJSON
	rec := chain.NewRecorder(t.ID, t.Seed, opts)
	g := &G{Family: family, Seed: t.Seed, R: common.NewRng(t.Seed), Rec: rec, App: rec.App, Stats: newStats(), file: file}
	g.Chk = monitor.NewChecker(rec.Trace, file, family)
	if !withMonitors {
		g.Chk = nil
	}
	g.now = rec.App.Options().GenesisTime
	block := 0
	for _, it := range t.Items {
		switch it.Kind {
		case chain.KindBegin:
			tm := time.Unix(it.TimeS, int64(it.TimeN)).UTC()
			if g.Chk != nil {
				g.Begin(tm)
			} else {
				g.Rec.Begin(0, tm)
			}
		case chain.KindMsg:
			msgs, err := itemMsgs(it)
			if err != nil {
				return g, fmt.Errorf("item %d: %v", it.Seq, err)
			}
			if g.Chk != nil && len(msgs) == 1 {
				g.Do(msgs[0], it.Note)
			} else {
				pre := g.Rec.State()
				res := g.Rec.DeliverMulti(msgs)
				last := g.Rec.Last()
				last.Note = it.Note
				g.account(last, res)
				if g.Chk != nil {
					g.Chk.Step(pre, g.Rec.State(), last, msgs)
				}
			}
		case chain.KindCommit:
			if !g.App.BlockOpen() {
				return g, fmt.Errorf("item %d: commit without an open block", it.Seq)
			}
			g.Rec.Commit()
			g.Stats.Commits++
			block++
			if restartAfter != nil && restartAfter(block) {
				g.restartQuiet()
			}
		case chain.KindRestart:
			g.restartQuiet()
		case chain.KindGenesisRT:
			if g.Chk != nil {
				g.GenesisRT(it.Note)
			} else {
				g.Rec.GenesisRoundTrip()
			}
		case chain.KindFund:
			if it.Account != nil {
				coins, err := sdk.ParseCoinsNormalized(it.Coins)
				if err == nil {
					_ = g.Rec.Fund(*it.Account, coins)
				}
			}
		case chain.KindQuery:
			// queries do not change state; skipped
		}
	}
	g.Rec.Finish()
	return g, nil
}

var replayTxCfg = authtx.NewTxConfig(chain.SharedCodec(), authtx.DefaultSignModes)

// itemMsgs recovers the messages of a msg item: from the exact tx bytes if present (the proto JSON
// form cannot carry every message: jsonpb refuses durations beyond ~292 years), else from the raw JSON.
func itemMsgs(it chain.Item) ([]sdk.Msg, error) {
	if it.TxHex != "" {
		bz, err := hex.DecodeString(it.TxHex)
		if err != nil {
			return nil, err
		}
		tx, err := replayTxCfg.TxDecoder()(bz)
		if err != nil {
			return nil, err
		}
		return tx.GetMsgs(), nil
	}
	var msgs []sdk.Msg
	all := append([]chain.TraceMsg{}, it.More...)
	if it.TraceMsg != nil {
		all = append([]chain.TraceMsg{*it.TraceMsg}, all...)
	}
	for _, tm := range all {
		m, err := chain.MsgFromJSON(tm.TypeURL, tm.Raw)
		if err != nil {
			return nil, err
		}
		msgs = append(msgs, m)
	}
	return msgs, nil
}

func (g *G) restartQuiet() {
	if g.Chk != nil {
		g.Restart()
		return
	}
	g.Rec.Restart()
	g.App = g.Rec.App
	g.Stats.Restarts++
}

func jsonOf(v interface{}) string {
	bz, err := json.Marshal(v)
	if err != nil {
		return "<" + err.Error() + ">"
	}
	return string(bz)
}

// CompareTraces compares a re-execution with the reference, item by item (restart items are
// ignored): step results (code, codespace, log, gas, events, responses), diffs, invariants and
// per-block app hashes. It returns one description per deviation (at most max).
func CompareTraces(ref, got *chain.Trace, max int) []Deviation {
	strip := func(items []chain.Item) []chain.Item {
		var out []chain.Item
		for _, it := range items {
			if it.Kind != chain.KindRestart && it.Kind != chain.KindQuery {
				out = append(out, it)
			}
		}
		return out
	}
	a, b := strip(ref.Items), strip(got.Items)
	var out []Deviation
	add := func(key string, seq int, desc string) {
		if len(out) < max {
			out = append(out, Deviation{Key: key, Seq: seq, Desc: desc})
		}
	}
	if len(a) != len(b) {
		add("item-count-differs", 0, fmt.Sprintf("%d items vs %d", len(a), len(b)))
	}
	for i := 0; i < len(a) && i < len(b); i++ {
		x, y := a[i], b[i]
		if x.Kind != y.Kind {
			add("item-kind-differs", x.Seq, x.Kind+" vs "+y.Kind)
			continue
		}
		switch x.Kind {
		case chain.KindCommit:
			if x.Result != nil && y.Result != nil && x.Result.AppHash != y.Result.AppHash {
				add("apphash-differs", x.Seq, fmt.Sprintf("height %d: %s vs %s", x.Height, x.Result.AppHash, y.Result.AppHash))
			}
		case chain.KindGenesisRT:
			if x.GenesisRT != nil && y.GenesisRT != nil && jsonOf(x.GenesisRT) != jsonOf(y.GenesisRT) {
				add("genesis-rt-differs", x.Seq, chain.FirstJSONDiff([]byte(jsonOf(x.GenesisRT)), []byte(jsonOf(y.GenesisRT))))
			}
		default:
			if rx, ry := jsonOf(x.Result), jsonOf(y.Result); rx != ry {
				add("result-differs", x.Seq, chain.FirstJSONDiff([]byte(rx), []byte(ry)))
			}
			if dx, dy := jsonOf(x.Diff), jsonOf(y.Diff); dx != dy {
				add("diff-differs", x.Seq, chain.FirstJSONDiff([]byte(dx), []byte(dy)))
			}
			if ix, iy := jsonOf(x.Invariants), jsonOf(y.Invariants); ix != iy {
				add("invariants-differ", x.Seq, chain.FirstJSONDiff([]byte(ix), []byte(iy)))
			}
		}
	}
	if ref.Final != nil && got.Final != nil && !chain.StatesEqual(ref.Final, got.Final) {
		add("final-state-differs", len(a), "final states differ")
	}
	return out
}

// Deviation is one difference between two executions of the same history.
type Deviation struct {
	Key  string
	Seq  int
	Desc string
}

// RunDeterminism generates one history of another family (the reference execution) and executes
// it again several times on fresh apps with different restart subsets and GOMAXPROCS settings;
// every difference is a C10 violation. Must not run concurrently with other work (GOMAXPROCS is
// process-wide).
func RunDeterminism(c Cfg) *Result {
	subs := append(append([]string{}, SubFamilies...), "data", "params")
	sub := c
	sub.Sub = subs[c.N%len(subs)]
	if c.N%5 == 4 {
		sub.RTPoints = 1
	}
	res := Run(sub)
	ref := res.Trace
	// the reference must survive a JSON round trip to be replayable from disk
	runs := 3
	if c.Tier == "thorough" {
		runs = 8
	}
	r := common.NewRng(c.Seed ^ 0x64657465726d)
	prev := runtime.GOMAXPROCS(0)
	defer runtime.GOMAXPROCS(prev)
	procs := []int{1, 2, prev, 4, 3, prev, 1, 2}
	for k := 0; k < runs; k++ {
		policy := k % 3
		var restart func(int) bool
		name := "none"
		switch policy {
		case 1:
			restart, name = func(int) bool { return true }, "every block"
		case 2:
			mask := r.Uint64()
			restart, name = func(b int) bool { return mask>>(uint(b)%64)&1 == 1 }, "random subset"
		}
		p := procs[k%len(procs)]
		if p < 1 {
			p = 1
		}
		runtime.GOMAXPROCS(p)
		g2, err := Reexecute(ref, res.File, c.Family, false, restart)
		res.Stats.Boundary["determinism:execution(restarts="+name+")"]++
		res.Stats.Boundary[fmt.Sprintf("determinism:GOMAXPROCS=%d", p)]++
		res.Stats.Restarts += g2.Stats.Restarts
		res.Exercised["C10"]++
		if err != nil {
			res.Violations = append(res.Violations, monitor.Violation{Property: "C10", Key: "reexecution-failed", Desc: err.Error(),
				Input: map[string]interface{}{"trace": res.File, "execution": k, "restarts": name}})
			continue
		}
		for _, d := range CompareTraces(ref, g2.Rec.Trace, 3) {
			var item interface{}
			if d.Seq < len(ref.Items) {
				it := ref.Items[d.Seq]
				item = map[string]interface{}{"kind": it.Kind, "type_url": typeURLOf(it), "msg": msgOf(it)}
			}
			res.Violations = append(res.Violations, monitor.Violation{Property: "C10", Key: d.Key,
				Desc:  fmt.Sprintf("execution %d (restarts: %s, GOMAXPROCS=%d) differs from the reference at item %d: %s", k, name, p, d.Seq, d.Desc),
				Input: map[string]interface{}{"trace": res.File, "seq": d.Seq, "item": item, "restarts": name, "gomaxprocs": p}})
		}
	}
	return res
}

func typeURLOf(it chain.Item) string {
	if it.TraceMsg != nil {
		return it.TypeURL
	}
	return ""
}

func msgOf(it chain.Item) interface{} {
	if it.TraceMsg != nil {
		return it.Msg
	}
	return nil
}

// ReplayFile re-executes a stored trace with all monitors and compares the outcome with the
// recorded one.
func ReplayFile(path string) (*Result, []Deviation, error) {
	t, err := chain.ReadTrace(path)
	if err != nil {
		return nil, nil, err
	}
	family := t.ID
	for i := 0; i < len(family); i++ {
		if family[i] == '_' {
			family = family[:i]
			break
		}
	}
	g, err := Reexecute(t, path, family, true, nil)
	if err != nil {
		return nil, nil, err
	}
	res := g.Finish()
	res.File = path
	return res, CompareTraces(t, g.Rec.Trace, 20), nil
}
