package gen

import (
	"fmt"
	"math/big"
	"time"

	sdk "github.com/cosmos/cosmos-sdk/types"

	"verif/harness/chain"
	"verif/harness/internal/common"
	"verif/harness/monitor"
)

// Families in execution/reporting order. "determinism" is driven separately (see determinism.go).
var Families = []string{"corpus", "mix", "market", "expiry", "basket", "bridge", "roles", "params", "ids", "genesis", "data", "determinism"}

// QuickCounts is the number of histories per family in the quick tier (thorough: x20).
var QuickCounts = map[string]int{
	"mix": 70, "market": 45, "expiry": 25, "basket": 30, "bridge": 25, "roles": 20,
	"params": 24, "ids": 16, "genesis": 20, "data": 15, "determinism": 10,
}

// Run generates history n of a family from its seed. It never panics on implementation
// misbehaviour (that is recorded), only on harness bugs.
func Run(c Cfg) *Result {
	family := c.Family
	if c.Sub != "" {
		family = c.Sub
	}
	switch family {
	case "corpus":
		return runCorpus(c)
	case "mix":
		return runMix(c)
	case "market":
		return runMarket(c)
	case "expiry":
		return runExpiry(c)
	case "basket":
		return runBasket(c)
	case "bridge":
		return runBridge(c)
	case "roles":
		return runRoles(c)
	case "params":
		return runParams(c)
	case "ids":
		return runIDs(c)
	case "genesis":
		return runGenesis(c)
	case "data":
		return runData(c)
	}
	panic("gen: unknown family " + family)
}

// SubFamilies are the families the genesis and determinism families draw histories from.
var SubFamilies = []string{"mix", "market", "expiry", "basket", "bridge", "roles", "ids"}

// blocks runs n blocks of lo..hi random ops.
func (g *G) blocks(n, lo, hi int, ops []wop) {
	for b := 0; b < n; b++ {
		g.Begin(g.nextTime())
		k := lo + g.R.Intn(hi-lo+1)
		for i := 0; i < k; i++ {
			g.pick(ops)
		}
		g.Commit()
	}
}

// ---------------------------------------------------------------------------------------------
// 1. mix

var mixOps = []wop{
	{12, opSend, "send"}, {6, opRetire, "retire"}, {5, opCancel, "cancel"}, {6, opCreateBatch, "batch"}, {4, opMint, "mint"},
	{2, opSeal, "seal"}, {4, opBridge, "bridge"}, {3, opBridgeReceive, "receive"}, {8, opPut, "put"}, {7, opTake, "take"},
	{4, opBankSend, "bank"}, {9, opSell, "sell"}, {5, opUpdateSell, "update"}, {3, opCancelSell, "cancel-sell"}, {10, opBuy, "buy"},
	{1, opBuyMissing, "buy-gone"}, {3, opBuyAcrossMarkets, "buy-across"}, {4, opGov, "gov"}, {4, opAdminNoise, "admin"}, {2, opCreateClass, "class"}, {2, opCreateProject, "project"},
	{2, opBasketCreate, "basket"}, {1, opBasketCurator, "curator"}, {1, opUnimplemented, "unimplemented"}, {1, opBurnRegen, "burn"},
}

func (g *G) standardSetup(nClasses, nProjects, nBatches, nBaskets int) world {
	g.Begin(g.now.Add(6 * time.Second))
	g.setupDenoms()
	g.setupChains()
	fr := []string{"", "0", "0.003", "0.01", "0.5"}
	g.gov(g.App.MsgGovSetFeeParams(fr[g.R.Intn(len(fr))], fr[g.R.Intn(len(fr))]), "fee params")
	if g.R.Chance(1, 3) {
		g.gov(g.App.MsgAddCreditType(bioType()), "add credit type BIO")
	}
	w := g.setupCredits(nClasses, nProjects, nBatches)
	for i := 0; i < nBaskets && len(w.classes) > 0; i++ {
		var dc = g.dateCriteria()
		if g.R.Chance(1, 2) {
			dc = chain.MinStartDate(date(2000, 1, 1))
		}
		res := g.Do(g.App.MsgBasketCreate(g.user(), basketNames[i], "setup basket", "C", w.classes, g.R.Bool(), dc, g.basketFee(g.V())), "setup: basket")
		// deposits from up to three batches with distinct start dates, so that takes span batches
		if bd := respField(res, "basket_denom"); bd != "" {
			v := g.V()
			seen := map[int64]bool{}
			n := 0
			for _, d := range w.batches {
				bt, bk := v.BatchByDen[d], v.BasketByDenom[bd]
				if bt == nil || bk == nil || bt.Start == nil || seen[bt.Start.S] || n >= 3 || !monitor.PutAdmissible(v, bk, bt) {
					continue
				}
				seen[bt.Start.S] = true
				n++
				g.Do(g.App.MsgBasketPut(n%NumUsers, bd, chain.BasketCredit(d, fmt.Sprint(5+g.R.Intn(40)))), "setup: deposit")
			}
		}
	}
	g.Commit()
	return w
}

func runMix(c Cfg) *Result {
	g := NewG(c, chain.Options{GenesisTime: T0})
	g.standardSetup(1+g.R.Intn(2), 1+g.R.Intn(2), 2, 1+g.R.Intn(2))
	g.blocks(5+g.R.Intn(8), 2, 7, mixOps)
	return g.Finish()
}

// ---------------------------------------------------------------------------------------------
// 2. market

func opFeeParams(g *G) bool {
	b, s := FeeRates[g.R.Intn(len(FeeRates))], FeeRates[g.R.Intn(len(FeeRates))]
	if rat(s).Cmp(big.NewRat(1, 1)) > 0 {
		s = "1"
	}
	g.bump("fee-params:buyer=" + label(b))
	g.bump("fee-params:seller=" + label(s))
	g.Do(g.App.MsgGovSetFeeParams(b, s), fmt.Sprintf("gov: fee params buyer=%q seller=%q", b, s))
	return true
}

func label(rate string) string {
	switch {
	case rate == "":
		return "unset"
	case len(rate) > 12:
		return fmt.Sprintf("%d-decimals", len(rate)-2)
	}
	return rate
}

func opFeePoolSend(g *G) bool {
	v := g.V()
	pool := v.Bank[monitor.KeyFeePool]
	ds := sortedKeys(pool)
	if len(ds) == 0 {
		return false
	}
	d := ds[g.R.Intn(len(ds))]
	amt := new(big.Int).Quo(new(big.Int).Add(pool[d], big.NewInt(1)), big.NewInt(2))
	note := "gov: send half of the fee pool"
	if g.bad() {
		amt, note = new(big.Int).Add(pool[d], big.NewInt(1)), "gov: send more than the fee pool holds"
	}
	g.Do(g.App.MsgGovSendFromFeePool(g.user(), sdk.NewCoins(sdk.NewCoin(d, sdk.NewIntFromBigInt(amt)))), note)
	return true
}

func opDenomChurn(g *G) bool {
	v := g.V()
	ds := sortedDenoms(v.AllowedDenoms)
	if len(ds) > 1 && g.R.Bool() {
		d := ds[g.R.Intn(len(ds))]
		open := 0
		for _, o := range v.Orders {
			if m := v.Markets[o.Market]; m != nil && m.Denom == d {
				open++
			}
		}
		if open > 0 {
			g.bump("allowed-denom-removed-while-orders-open")
		}
		g.Do(g.App.MsgRemoveAllowedDenom(d), fmt.Sprintf("gov: remove allowed denom %s (%d open orders)", d, open))
		return true
	}
	d := denomPool[g.R.Intn(len(denomPool))]
	g.Do(g.App.MsgAddAllowedDenom(d.bank, d.display, 6), "gov: allow denom "+d.bank)
	return true
}

// opBigProduct creates a sell order whose quantity x ask has 30..38 digits and buys from it.
func opBigProduct(g *G) bool {
	v := g.V()
	hs := g.holdings(v)
	if len(hs) == 0 {
		return false
	}
	h := hs[g.R.Intn(len(hs))]
	q := fmtRat(new(big.Rat).Mul(h.T, big.NewRat(int64(1+g.R.Intn(300)), 1000)), 6)
	if rat(q).Sign() == 0 {
		return false
	}
	ask, _ := new(big.Int).SetString(g.digits(24+g.R.Intn(10)), 10)
	denom := []string{"stake", "uatom", "uregen"}[g.R.Intn(3)]
	res := g.Do(g.App.MsgSell(h.Acct, chain.SellOrder(h.Batch.Denom, q, bigCoin(denom, ask), true, nil)), "sell: fractional quantity x very large ask")
	g.bump("large-product-order")
	if !res.OK {
		return true
	}
	v = g.V()
	var o *monitor.Order
	for _, x := range g.orders(v) {
		if x.Ask != nil && x.Ask.Cmp(ask) == 0 {
			o = x
		}
	}
	if o == nil {
		return true
	}
	buyQ := rat(fmtRat(new(big.Rat).Mul(o.Qty.V, big.NewRat(int64(1+g.R.Intn(999)), 1000)), 6))
	if buyQ.Sign() == 0 {
		buyQ = new(big.Rat).Set(micro)
	}
	fee := buyerFeeFloor(v, buyQ, ask)
	g.Do(g.App.MsgBuyDirect(g.otherUser(h.Acct), chain.BuyOrder(o.ID, fmtRat(buyQ, 6), bigCoin(denom, ask), true, "", "", bigCoin(denom, fee))), "buy: product of quantity and ask near/beyond 34 digits")
	g.bump("large-product-buy")
	return true
}

var marketOps = []wop{
	{20, opSell, "sell"}, {15, opUpdateSell, "update"}, {6, opCancelSell, "cancel"}, {32, opBuy, "buy"}, {8, opBuyAcrossMarkets, "buy-across"}, {3, opBuyMissing, "buy-gone"},
	{6, opFeeParams, "fees"}, {5, opDenomChurn, "denoms"}, {3, opSend, "send"}, {1, opGov, "gov"}, {3, opFeePoolSend, "pool"},
}

func runMarket(c Cfg) *Result {
	r := common.NewRng(c.Seed ^ 0x6d61726b6574)
	opts := chain.Options{GenesisTime: T0}
	rich := r.Chance(1, 3)
	if rich {
		opts.FundingAmount = "1" + fmt.Sprintf("%040d", 0) // 10^40 of each denom per user
	}
	g := NewG(c, opts)
	g.badPct = 18
	g.Begin(g.now.Add(6 * time.Second))
	g.setupDenoms()
	opFeeParams(g)
	g.setupCredits(1, 1+g.R.Intn(2), 1+g.R.Intn(2))
	g.Commit()
	ops := marketOps
	if rich {
		g.bump("rich-accounts(10^40)")
		ops = append(append([]wop{}, marketOps...), wop{14, opBigProduct, "big"})
	}
	g.blocks(5+g.R.Intn(7), 2, 7, ops)
	return g.Finish()
}

// ---------------------------------------------------------------------------------------------
// 3. expiry

func runExpiry(c Cfg) *Result {
	g := NewG(c, chain.Options{GenesisTime: T0})
	g.badPct = 10
	g.Begin(g.now.Add(6 * time.Second))
	g.setupDenoms()
	g.gov(g.App.MsgGovSetFeeParams([]string{"", "0.01"}[g.R.Intn(2)], []string{"", "0.02"}[g.R.Intn(2)]), "fee params")
	w := g.setupCredits(1, 1, 2)
	g.Commit()
	if len(w.batches) == 0 {
		return g.Finish()
	}
	gone := []uint64{}
	nBlocks := 5 + g.R.Intn(8)
	gaps := []time.Duration{0, time.Nanosecond, time.Second, 10 * time.Second, time.Hour, 30 * 24 * time.Hour, 400 * 24 * time.Hour}
	// the time of the next block is planned one block ahead so that orders can be aimed at it
	next := g.now.Add(5 * time.Second)
	for b := 0; b < nBlocks; b++ {
		before := g.V().Orders
		g.Begin(next)
		after := g.V().Orders
		for _, id := range sortedU64Keys(before) {
			if after[id] == nil {
				gone = append(gone, id)
			}
		}
		gap := gaps[g.R.Intn(len(gaps))]
		switch {
		case gap == 0:
			g.bump("block-time-not-advancing")
		case gap >= 30*24*time.Hour:
			g.bump("long-gap-between-blocks")
		}
		next = g.now.Add(gap)
		// expirations aimed at the next block time
		cands := []struct {
			t    *time.Time
			name string
		}{
			{ptr(next), "expiry==next-block-time"}, {ptr(next.Add(time.Nanosecond)), "expiry==next-block-time+1ns"},
			{ptr(next.Add(-time.Nanosecond)), "expiry==next-block-time-1ns"}, {ptr(next.Add(time.Hour)), "expiry-later"}, {nil, "no-expiration"},
		}
		v := g.V()
		hs := g.holdings(v)
		k := 2 + g.R.Intn(5)
		for i := 0; i < k; i++ {
			v = g.V()
			switch r := g.R.Intn(100); {
			case r < 45 && len(hs) > 0:
				// one seller places several orders expiring in the same block
				h := hs[g.R.Intn(len(hs))]
				cur := v.Bal(keyOf(h.Acct), h.Batch.Key).T.V
				if cur == nil || cur.Sign() <= 0 {
					continue
				}
				m := 1 + g.R.Intn(4)
				part := new(big.Rat).Quo(cur, big.NewRat(int64(2*m), 1))
				var orders []*marketOrder
				for j := 0; j < m; j++ {
					c := cands[g.R.Intn(len(cands))]
					if m > 1 && j > 0 && g.R.Bool() {
						c = cands[0]
					}
					q := fmtRat(part, 6)
					if rat(q).Sign() == 0 {
						q = "0.000001"
					}
					orders = append(orders, chain.SellOrder(h.Batch.Denom, q, coin("stake", int64(1+g.R.Intn(5000))), g.R.Bool(), c.t))
					g.bump(c.name)
				}
				if m > 1 {
					g.bump("several-orders-one-seller")
				}
				g.Do(g.App.MsgSell(h.Acct, orders...), fmt.Sprintf("sell %d order(s) aimed at the next block time %s", m, next.Format(time.RFC3339Nano)))
			case r < 62:
				// partial fill, then the rest expires
				os := g.orders(v)
				if len(os) == 0 {
					continue
				}
				o := os[g.R.Intn(len(os))]
				bo, note := g.buyOrder(v, o)
				g.bump("partial-fill-before-expiry")
				g.Do(g.App.MsgBuyDirect(g.otherUser(idxOf(o.Seller)), bo), "buy before expiry: "+note)
			case r < 80:
				// update quantity / denom / expiration of an order that is about to expire
				os := g.orders(v)
				if len(os) == 0 {
					continue
				}
				o := os[g.R.Intn(len(os))]
				mk := v.Markets[o.Market]
				if mk == nil || o.Ask == nil || o.Qty.V == nil {
					continue
				}
				qty, denom := o.Qty.Raw, mk.Denom
				var exp *time.Time
				what := ""
				switch g.R.Intn(4) {
				case 0:
					qty, what = fmtRat(new(big.Rat).Mul(o.Qty.V, big.NewRat(1, 2)), 6), "quantity"
					if rat(qty).Sign() == 0 {
						qty = "0.000001"
					}
				case 1:
					denom, what = []string{"stake", "uatom", "uregen"}[g.R.Intn(3)], "denom"
				case 2:
					c := cands[g.R.Intn(3)]
					exp, what = c.t, "expiration:"+c.name
				default:
					exp, what = ptr(next.Add(48*time.Hour)), "expiration pushed out"
				}
				g.bump("update-before-expiry:" + what)
				g.Do(g.App.MsgUpdateSellOrders(idxOf(o.Seller), &marketUpdate{SellOrderId: o.ID, NewQuantity: qty, NewAskPrice: bigCoin(denom, o.Ask), DisableAutoRetire: o.DisableAutoRetire, NewExpiration: exp}),
					"update before expiry: "+what)
			case r < 92 && len(gone) > 0:
				id := gone[g.R.Intn(len(gone))]
				g.bump("buy-expired-order")
				g.Do(g.App.MsgBuyDirect(g.user(), chain.BuyOrder(id, "0.000001", coin("stake", 100000000), false, "US", "", coin("stake", 100000000))), fmt.Sprintf("buy order %d which has expired", id))
			default:
				g.pick([]wop{{3, opCancelSell, ""}, {3, opSend, ""}, {2, opSell, ""}, {1, opUpdateSell, ""}})
			}
		}
		g.Commit()
	}
	// a final far-future block flushes everything that can expire
	g.Begin(g.now.Add(5000 * 24 * time.Hour))
	g.Commit()
	return g.Finish()
}

func ptr(t time.Time) *time.Time { return &t }
