package gen

import (
	"fmt"
	"math/big"
	"reflect"
	"sort"
	"strconv"
	"strings"
	"time"

	sdk "github.com/cosmos/cosmos-sdk/types"

	base "github.com/regen-network/regen-ledger/x/ecocredit/v3/base/types/v1"
	basket "github.com/regen-network/regen-ledger/x/ecocredit/v3/basket/types/v1"

	"verif/harness/monitor"
)

// NumUsers is the number of funded user accounts of every history.
const NumUsers = 6

func idxOf(key string) int {
	if strings.HasPrefix(key, "#") {
		i, _ := strconv.Atoi(key[1:])
		return i
	}
	return -1
}

func keyOf(i int) string { return "#" + strconv.Itoa(i) }

// fmtRat renders a non-negative rational with at most dec decimals (truncating), without trailing zeros.
func fmtRat(r *big.Rat, dec int) string {
	scale := new(big.Int).Exp(big.NewInt(10), big.NewInt(int64(dec)), nil)
	n := new(big.Int).Mul(r.Num(), scale)
	n.Quo(n, r.Denom())
	s := n.String()
	neg := strings.HasPrefix(s, "-")
	if neg {
		s = s[1:]
	}
	for len(s) <= dec {
		s = "0" + s
	}
	ip, fp := s[:len(s)-dec], s[len(s)-dec:]
	fp = strings.TrimRight(fp, "0")
	out := ip
	if fp != "" {
		out += "." + fp
	}
	if neg {
		out = "-" + out
	}
	return out
}

func rat(s string) *big.Rat {
	r, ok := monitor.MsgAmount(s)
	if !ok {
		return new(big.Rat)
	}
	return r
}

var micro = big.NewRat(1, 1000000)

// Malformed is the malformed decimal stream of the task description.
var Malformed = []string{"", "-0", "-1", ".5", "5.", ".-5", "+.5", "+5", "1_0", "NaN", "inf", " 1", "1 ", "0x10", "１"}

// SciNotation is the scientific-notation stream.
var SciNotation = []string{"1e2", "1.5e1", "1e-7", "2.5e-1", "1E0", "5e-6"}

func (g *G) digits(n int) string {
	var sb strings.Builder
	sb.WriteByte(byte('1' + g.R.Intn(9)))
	for i := 1; i < n; i++ {
		sb.WriteByte(byte('0' + g.R.Intn(10)))
	}
	return sb.String()
}

// amount draws a credit amount relative to an available balance. The second result names the
// stream item (counted in the boundary histogram).
func (g *G) amount(bal *big.Rat) (string, string) {
	if bal == nil {
		bal = new(big.Rat)
	}
	if g.R.Intn(100) >= g.badPct || bal.Sign() == 0 && g.R.Bool() {
		// mostly valid values
		switch r := g.R.Intn(100); {
		case r < 40:
			// a random fraction with 0..6 decimals
			f := new(big.Rat).Mul(bal, big.NewRat(int64(1+g.R.Intn(900)), 1000))
			s := fmtRat(f, g.R.Intn(7))
			if rat(s).Sign() == 0 {
				s = "0.000001"
			}
			return s, "fraction"
		case r < 58:
			s := fmtRat(new(big.Rat).Quo(bal, big.NewRat(2, 1)), 6)
			if rat(s).Sign() == 0 {
				s = "0.000001"
			}
			return s, "half"
		case r < 74:
			if bal.Sign() == 0 {
				return "1", "fraction"
			}
			return fmtRat(bal, 6), "whole-balance"
		case r < 82:
			return "0.000001", "0.000001"
		case r < 90:
			// a valid value rendered non-canonically
			f := new(big.Rat).Mul(bal, big.NewRat(int64(1+g.R.Intn(500)), 1000))
			s := fmtRat(f, 1+g.R.Intn(3))
			if rat(s).Sign() == 0 {
				s = "1.5"
			}
			if g.R.Bool() {
				if strings.Contains(s, ".") {
					return s + "0", "trailing-zero(1.50)"
				}
				return s + ".0", "trailing-zero(1.50)"
			}
			return "0" + s, "leading-zero(01.5)"
		default:
			return SciNotation[g.R.Intn(len(SciNotation))], "scientific"
		}
	}
	switch r := g.R.Intn(100); {
	case r < 22:
		return fmtRat(new(big.Rat).Add(bal, micro), 6), "balance+0.000001"
	case r < 30:
		return "0", "0"
	case r < 36:
		return "0.0", "0.0"
	case r < 46:
		return fmtRat(new(big.Rat).Add(new(big.Rat).Quo(bal, big.NewRat(3, 1)), big.NewRat(1, 10000000)), 7), "7-decimals"
	case r < 58:
		return g.digits(20 + g.R.Intn(11)), "large(20-30 digits)"
	case r < 66:
		return SciNotation[g.R.Intn(len(SciNotation))], "scientific"
	default:
		return Malformed[g.R.Intn(len(Malformed))], "malformed"
	}
}

// issueAmount draws an amount for issuance (no balance constraint).
func (g *G) issueAmount() (string, string) {
	if g.R.Intn(100) < g.badPct/2 {
		switch r := g.R.Intn(100); {
		case r < 25:
			return "0.0000001", "7-decimals"
		case r < 50:
			return SciNotation[g.R.Intn(len(SciNotation))], "scientific"
		default:
			return Malformed[g.R.Intn(len(Malformed))], "malformed"
		}
	}
	switch r := g.R.Intn(100); {
	case r < 55:
		return strconv.Itoa(10 + g.R.Intn(100000)), "integer"
	case r < 80:
		return fmt.Sprintf("%d.%0*d", g.R.Intn(5000), 1+g.R.Intn(6), 1+g.R.Intn(9)), "decimal"
	case r < 86:
		return "0", "0"
	case r < 92:
		return g.digits(20+g.R.Intn(9)) + ".999999", "large(20-30 digits)"
	case r < 96:
		return "0.000001", "0.000001"
	default:
		return []string{"1.50", "01.5", "10.0"}[g.R.Intn(3)], "non-canonical"
	}
}

func (g *G) user() int { return g.R.Intn(NumUsers) }

func (g *G) otherUser(not int) int {
	for {
		if u := g.R.Intn(NumUsers); u != not {
			return u
		}
	}
}

func (g *G) id(prefix string) string {
	g.uniq++
	return fmt.Sprintf("%s-%d-%d", prefix, g.N, g.uniq)
}

// md returns a metadata string (limit: 256 BYTES): mostly a short unique id, one time in eight a string at the
// limit -- exactly 256 bytes, 257 bytes, and multi-byte UTF-8 text whose character count is below the limit while
// its byte count is at (255/256), just above (258) or far above (360) it.
func (g *G) md(prefix string) string {
	if !g.R.Chance(1, 8) {
		return g.id(prefix)
	}
	id := g.id(prefix)
	const wide = "森" // 3 bytes
	var out, kind string
	switch g.R.Intn(6) {
	case 0:
		out, kind = longString(id+"-", 256), "ascii-256-bytes"
	case 1:
		out, kind = longString(id+"-", 257), "ascii-257-bytes"
	case 2:
		out, kind = strings.Repeat(wide, 85)+"x", "utf8-256-bytes-86-chars"
	case 3:
		out, kind = strings.Repeat(wide, 86), "utf8-258-bytes-86-chars"
	case 4:
		out, kind = strings.Repeat(wide, 120), "utf8-360-bytes-120-chars"
	default:
		out, kind = id+"-"+strings.Repeat(wide, 40), "utf8-short"
	}
	g.bump("metadata:" + kind)
	return out
}

// txHash returns a fresh valid ethereum tx hash.
func (g *G) txHash() string {
	g.uniq++
	h := fmt.Sprintf("0x%060x%04x", g.Seed&0xffffffffffff|0xabcdef0000000000, g.uniq)
	// hex digits may be written in either case (0x[0-9a-fA-F]{64}): one hash in four carries upper-case digits, so that a
	// handler that re-spells the id before recording it shows up when the id is replayed through another entry point
	if g.R != nil && g.R.Chance(1, 4) {
		g.bump("origin:upper-case-hex-id")
		return "0x" + strings.ToUpper(h[2:])
	}
	return h
}

// ethAddr returns a deterministic valid ethereum address number k.
func ethAddr(k int) string { return fmt.Sprintf("0x%040x", 0xE65079a29d7793a+k) }

func coin(denom string, amt int64) *sdk.Coin { c := sdk.NewInt64Coin(denom, amt); return &c }

func bigCoin(denom string, amt *big.Int) *sdk.Coin {
	c := sdk.NewCoin(denom, sdk.NewIntFromBigInt(amt))
	return &c
}

// holding is one positive tradable balance.
type holding struct {
	Acct  int
	Batch *monitor.Batch
	T     *big.Rat
}

// holdings lists the positive tradable balances of user accounts in deterministic order.
func (g *G) holdings(v *monitor.View) []holding {
	var out []holding
	for _, k := range v.SortedBalKeys() {
		b := v.Balances[k]
		i := idxOf(k.Acct)
		if i < 0 || i >= NumUsers || b.T.V == nil || b.T.V.Sign() <= 0 || v.Batches[k.Batch] == nil {
			continue
		}
		out = append(out, holding{i, v.Batches[k.Batch], b.T.V})
	}
	return out
}

func sortedU64Keys[V any](m map[uint64]V) []uint64 {
	ks := make([]uint64, 0, len(m))
	for k := range m {
		ks = append(ks, k)
	}
	sort.Slice(ks, func(i, j int) bool { return ks[i] < ks[j] })
	return ks
}

func (g *G) classes(v *monitor.View) []*monitor.Class {
	var out []*monitor.Class
	for _, k := range sortedU64Keys(v.Classes) {
		out = append(out, v.Classes[k])
	}
	return out
}

func (g *G) projects(v *monitor.View) []*monitor.Project {
	var out []*monitor.Project
	for _, k := range sortedU64Keys(v.Projects) {
		out = append(out, v.Projects[k])
	}
	return out
}

func (g *G) batches(v *monitor.View) []*monitor.Batch {
	var out []*monitor.Batch
	for _, k := range sortedU64Keys(v.Batches) {
		out = append(out, v.Batches[k])
	}
	return out
}

func (g *G) baskets(v *monitor.View) []*monitor.Basket {
	var out []*monitor.Basket
	for _, k := range sortedU64Keys(v.Baskets) {
		out = append(out, v.Baskets[k])
	}
	return out
}

func (g *G) orders(v *monitor.View) []*monitor.Order {
	var out []*monitor.Order
	for _, k := range sortedU64Keys(v.Orders) {
		out = append(out, v.Orders[k])
	}
	return out
}

// issuerOf returns a user index that is an issuer of the class (or -1).
func (g *G) issuerOf(v *monitor.View, classKey uint64) int {
	var c []int
	for i := 0; i < NumUsers; i++ {
		if v.Issuers[classKey][keyOf(i)] {
			c = append(c, i)
		}
	}
	if len(c) == 0 {
		return -1
	}
	return c[g.R.Intn(len(c))]
}

func sortedDenoms(m map[string]bool) []string {
	var out []string
	for d := range m {
		out = append(out, d)
	}
	sort.Strings(out)
	return out
}

// date returns a UTC day.
func date(y int, m time.Month, d int) time.Time { return time.Date(y, m, d, 0, 0, 0, 0, time.UTC) }

// randomDate draws a start date in 1900..2200.
func (g *G) randomDate() time.Time {
	y := 1900 + g.R.Intn(300)
	return date(y, time.Month(1+g.R.Intn(12)), 1+g.R.Intn(28))
}

// nextTime advances the block time: mostly by seconds to hours, occasionally not at all.
func (g *G) nextTime() time.Time {
	switch r := g.R.Intn(100); {
	case r < 8:
		g.bump("block-time-not-advancing")
		return g.now
	case r < 60:
		return g.now.Add(time.Duration(1+g.R.Intn(30)) * time.Second)
	case r < 90:
		return g.now.Add(time.Duration(1+g.R.Intn(3600)) * time.Second)
	default:
		return g.now.Add(time.Duration(1+g.R.Intn(72)) * time.Hour)
	}
}

// respell rewrites, one time in twelve, an address of the message into the other valid bech32 spelling (all upper
// case).  ValidateBasic of Send / UpdateClassAdmin / UpdateProjectAdmin / UpdateCurator compares address STRINGS, so
// "recipient = the sender's own address in upper case" passes it and reaches the handler as a self-send; most
// governance handlers compare the authority as a string and must reject the upper-case spelling.
func (g *G) respell(m sdk.Msg, note string) (sdk.Msg, string) {
	if !g.R.Chance(1, 12) {
		return m, note
	}
	up := strings.ToUpper
	self := g.R.Bool()
	switch x := m.(type) {
	case *base.MsgSend:
		c := *x
		if self {
			c.Recipient = up(x.Sender)
			g.bump("spelling:self-send-upper-case")
			return &c, note + " [recipient = the sender's own address in UPPER CASE]"
		}
		c.Recipient = up(x.Recipient)
		g.bump("spelling:recipient-upper-case")
		return &c, note + " [recipient in UPPER CASE]"
	case *base.MsgUpdateClassAdmin:
		c := *x
		if self {
			c.NewAdmin = up(x.Admin)
		} else {
			c.NewAdmin = up(x.NewAdmin)
		}
		g.bump("spelling:new-admin-upper-case")
		return &c, note + " [new admin in UPPER CASE]"
	case *base.MsgUpdateProjectAdmin:
		c := *x
		if self {
			c.NewAdmin = up(x.Admin)
		} else {
			c.NewAdmin = up(x.NewAdmin)
		}
		g.bump("spelling:new-admin-upper-case")
		return &c, note + " [new admin in UPPER CASE]"
	case *basket.MsgUpdateCurator:
		c := *x
		if self {
			c.NewCurator = up(x.Curator)
		} else {
			c.NewCurator = up(x.NewCurator)
		}
		g.bump("spelling:new-curator-upper-case")
		return &c, note + " [new curator in UPPER CASE]"
	}
	// governance messages: the authority field
	v := reflect.ValueOf(m)
	if v.Kind() == reflect.Ptr && v.Elem().Kind() == reflect.Struct {
		if f := v.Elem().FieldByName("Authority"); f.IsValid() && f.Kind() == reflect.String {
			c := reflect.New(v.Elem().Type())
			c.Elem().Set(v.Elem())
			c.Elem().FieldByName("Authority").SetString(up(f.String()))
			g.bump("spelling:authority-upper-case")
			return c.Interface().(sdk.Msg), note + " [authority in UPPER CASE]"
		}
	}
	return m, note
}
