package gen

import (
	"encoding/json"
	"fmt"
	"math/big"
	"strings"
	"time"

	sdk "github.com/cosmos/cosmos-sdk/types"

	base "github.com/regen-network/regen-ledger/x/ecocredit/v3/base/types/v1"

	"verif/harness/chain"
)

// T0 is the default genesis time of generated histories.
var T0 = time.Date(2024, 1, 1, 0, 0, 0, 0, time.UTC)

func respField(res chain.StepResult, k string) string {
	r := res.Response()
	if r == nil {
		return ""
	}
	var m map[string]interface{}
	if err := json.Unmarshal(r.JSON, &m); err != nil {
		return ""
	}
	s, _ := m[k].(string)
	return s
}

// classFeeCoin returns the fee a CreateClass has to offer in the current state (nil if none).
func (g *G) classFeeCoin() *sdk.Coin {
	v := g.V()
	if v.ClassFee == nil || v.ClassFee.Amount == nil {
		return nil
	}
	amt := new(big.Int).Set(v.ClassFee.Amount)
	if amt.Sign() == 0 {
		amt = big.NewInt(1) // a zero fee cannot be offered (ValidateBasic wants a positive amount)
	}
	return bigCoin(v.ClassFee.Denom, amt)
}

// mkClass creates a class (valid message) and returns its id ("" on failure).
func (g *G) mkClass(admin int, issuers []int, ct string) string {
	res := g.Do(g.App.MsgCreateClass(admin, issuers, g.id("class-md"), ct, g.classFeeCoin()), "setup: class of type "+ct)
	return respField(res, "class_id")
}

func (g *G) mkProject(issuer int, classID, ref string) string {
	res := g.Do(g.App.MsgCreateProject(issuer, classID, g.id("project-md"), g.jur(), ref, nil), "setup: project in "+classID)
	return respField(res, "project_id")
}

// iss builds an issuance entry.
func (g *G) iss(r int, tradable, retired string) *base.BatchIssuance {
	j := ""
	if retired != "" && retired != "0" {
		j = "US-WA"
	}
	return g.App.Issuance(r, tradable, retired, j)
}

func (g *G) mkBatch(issuer int, projectID string, start, end time.Time, open bool, o *base.OriginTx, note string, is ...*base.BatchIssuance) string {
	res := g.Do(g.App.MsgCreateBatch(issuer, projectID, "", is, g.id("batch-md"), start, end, open, o), "setup: batch "+note)
	return respField(res, "batch_denom")
}

// spread issues a round amount to every user (tradable) plus a little retired to user 0.
func (g *G) spread(amount string) []*base.BatchIssuance {
	var out []*base.BatchIssuance
	for u := 0; u < NumUsers; u++ {
		out = append(out, g.iss(u, amount, ""))
	}
	out = append(out, g.iss(0, "10.5", "2.25"))
	return out
}

// govOK delivers a governance message that is expected to succeed.
func (g *G) gov(m sdk.Msg, note string) chain.StepResult { return g.Do(m, "setup: gov "+note) }

// setupMarketParams allows the standard denoms and sets fee params.
func (g *G) setupDenoms() {
	g.gov(g.App.MsgAddAllowedDenom("uatom", "atom", 6), "allow uatom")
	g.gov(g.App.MsgAddAllowedDenom("uregen", "regen", 6), "allow uregen")
}

func (g *G) setupChains() {
	g.gov(g.App.MsgAddAllowedBridgeChain("polygon"), "allow polygon")
}

// world is what the standard setup created.
type world struct {
	classes  []string
	projects []string
	batches  []string
}

// setupCredits creates nClasses classes of type C (issuers: a few users), projects and batches with
// credits spread over all users. Start dates are in 2015..2022 so that most baskets accept them.
func (g *G) setupCredits(nClasses, nProjects, nBatches int) world {
	var w world
	for c := 0; c < nClasses; c++ {
		admin := c % NumUsers
		issuers := []int{admin, (admin + 1) % NumUsers}
		id := g.mkClass(admin, issuers, "C")
		if id == "" {
			continue
		}
		w.classes = append(w.classes, id)
		for p := 0; p < nProjects; p++ {
			pid := g.mkProject(admin, id, fmt.Sprintf("REF-%d", p))
			if pid == "" {
				continue
			}
			w.projects = append(w.projects, pid)
			for b := 0; b < nBatches; b++ {
				start := date(2015+g.R.Intn(8), time.Month(1+g.R.Intn(12)), 1+g.R.Intn(28))
				var o *base.OriginTx
				if b == 0 {
					o = &base.OriginTx{Id: g.txHash(), Source: "polygon", Contract: ethAddr(c*3 + p)}
				}
				d := g.mkBatch(admin, pid, start, start.AddDate(1, 0, 0), g.R.Chance(2, 3), o, "", g.spread(fmt.Sprint(1000+g.R.Intn(9000)))...)
				if d != "" {
					w.batches = append(w.batches, d)
				}
			}
		}
	}
	return w
}

// patchEco edits one table of the ecocredit genesis.
func patchEco(gen map[string]json.RawMessage, table string, value interface{}) {
	var eco map[string]json.RawMessage
	if err := json.Unmarshal(gen[chain.GenEcocredit], &eco); err != nil {
		panic(err)
	}
	bz, err := json.Marshal(value)
	if err != nil {
		panic(err)
	}
	eco[table] = bz
	out, err := json.Marshal(eco)
	if err != nil {
		panic(err)
	}
	gen[chain.GenEcocredit] = out
}

// ecoTable reads one table of the ecocredit genesis as generic JSON.
func ecoTable(gen map[string]json.RawMessage, table string) interface{} {
	var eco map[string]json.RawMessage
	if err := json.Unmarshal(gen[chain.GenEcocredit], &eco); err != nil {
		return nil
	}
	var v interface{}
	if err := json.Unmarshal(eco[table], &v); err != nil {
		return nil
	}
	return v
}

// stage runs msgs on a scratch chain started from gen (nil = default genesis) and returns the
// exported genesis of all four modules. Used to build patched geneses that contain rows.
func stage(gen map[string]json.RawMessage, at time.Time, run func(a *chain.App)) map[string]json.RawMessage {
	a := chain.New(chain.Options{Genesis: gen, GenesisTime: at})
	if r := a.InitChain(); !r.OK {
		panic("gen: staging step failed: step=InitChain of a staged genesis: " + r.PanicValue + r.Err)
	}
	a.BeginBlock(0, at.Add(time.Second))
	run(a)
	a.EndBlockCommit()
	out, err := a.ExportGenesis()
	if err != nil {
		panic(err)
	}
	return out
}

// stageDo delivers a message that must succeed while a staged genesis is being prepared. A rejection
// panics (cmd/ledger recovers per history and reports it as a violation); the panic message carries
// the family, the step and the message JSON so that the failure can be replayed by hand.
func stageDo(a *chain.App, family, step string, m sdk.Msg) chain.StepResult {
	res := a.Deliver(m)
	if !res.OK {
		url, js, _ := chain.MsgToJSON(m)
		panic(fmt.Sprintf("gen: staging step failed: family=%s step=%q height=%d block_time=%s verdict=%s code=%s/%d log=%q err=%q msg=%s %s",
			family, step, a.Height(), a.BlockTime().Format(time.RFC3339Nano), res.Verdict(), res.Codespace, res.Code, clip(res.Log, 400), res.Err, url, string(js)))
	}
	return res
}

func longString(prefix string, n int) string {
	if len(prefix) >= n {
		return prefix[:n]
	}
	return prefix + strings.Repeat("x", n-len(prefix))
}

// formatsBoundary creates, once per history and inside the open block, state rows at the edges of
// the identifier/format validators, so that a following genesis round trip validates them: for
// credit type abbreviations of 1, 2 and 3 letters (added by governance if missing) a class, a
// project with 256-byte metadata, a 32-byte reference id and a jurisdiction using all three regex
// parts at maximal length, a batch with 256-byte metadata and 512-byte notes, baskets with names of
// minimal (3) and maximal (8) length, and a deposit into one of them.
func (g *G) formatsBoundary() {
	if g.formatsDone || !g.App.BlockOpen() {
		return
	}
	g.formatsDone = true
	a := g.App
	jur := "US-WA9 " + longString("Postal-Code 98225 ", 64)
	for i, ab := range []string{"C", "KT", "BIO"} {
		v := g.V()
		if _, ok := v.CreditTypes[ab]; !ok {
			g.Do(a.MsgAddCreditType(&base.CreditType{Abbreviation: ab, Name: "formats-" + strings.ToLower(ab), Unit: "unit", Precision: 6}), "formats: gov adds credit type "+ab)
		}
		admin := i % NumUsers
		if v.AllowlistOn && !v.Creators[keyOf(admin)] {
			g.Do(a.MsgAddClassCreator(admin), "formats: gov allows the creator")
		}
		res := g.Do(a.MsgCreateClass(admin, []int{admin}, longString("class-metadata-", 256), ab, g.classFeeCoin()), "formats: class of a "+fmt.Sprint(len(ab))+"-letter credit type, 256-byte metadata")
		cid := respField(res, "class_id")
		if cid == "" {
			continue
		}
		res = g.Do(a.MsgCreateProject(admin, cid, longString("project-metadata-", 256), jur, longString("REFERENCE-ID-", 32), nil), "formats: project with maximal metadata, reference id and jurisdiction")
		pid := respField(res, "project_id")
		if pid == "" {
			continue
		}
		res = g.Do(a.MsgCreateBatch(admin, pid, "", []*base.BatchIssuance{
			{Recipient: a.Addr(admin), TradableAmount: "100", RetiredAmount: "1", RetirementJurisdiction: jur, RetirementReason: longString("reason-", 512)},
		}, longString("batch-metadata-", 256), date(2020, 2, 29), date(2021, 2, 28), true,
			&base.OriginTx{Id: longString("ORIGIN-", 128), Source: longString("source-", 32), Note: longString("note-", 512)}), "formats: batch with maximal metadata, notes and origin tx fields")
		denom := respField(res, "batch_denom")
		min := []string{"Aa1", "Bb2", "Cc3"}[i]
		max := []string{"Maxname1", "Maxname2", "Maxname3"}[i]
		g.Do(a.MsgBasketCreate(admin, min, longString("description-", 256), ab, []string{cid}, true, nil, g.basketFee(g.V())), "formats: basket with a 3-character name for credit type "+ab)
		res = g.Do(a.MsgBasketCreate(admin, max, "d", ab, []string{cid}, false, nil, g.basketFee(g.V())), "formats: basket with an 8-character name for credit type "+ab)
		if bd := respField(res, "basket_denom"); bd != "" && denom != "" {
			g.Do(a.MsgBasketPut(admin, bd, chain.BasketCredit(denom, "1.5")), "formats: deposit into "+bd)
		}
		g.bump("formats-boundary:" + ab)
	}
}
