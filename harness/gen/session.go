// Package gen generates seeded histories of the stateful families (mix, market, expiry, basket,
// bridge, roles, params, ids, genesis, data, determinism), runs them on the mini chain through a
// chain.Recorder and feeds every step to the property monitors of package monitor.
package gen

import (
	"crypto/sha256"
	"encoding/hex"
	"fmt"
	"sort"
	"strings"
	"time"

	sdk "github.com/cosmos/cosmos-sdk/types"

	"verif/harness/chain"
	"verif/harness/internal/common"
	"verif/harness/monitor"
)

// Stats are the per-history counters merged into summary.json.
type Stats struct {
	Msgs     map[string]*[3]int // short message type → ok, error, panic
	Begins   int
	Commits  int
	Restarts int
	GenRTs   int
	Boundary map[string]int // boundary-stream counters ("<family>:<stream item>")
	Panics   []string       // unexpected handler panics: "<type>: <value> @<trace>#<seq>"
}

func newStats() *Stats {
	return &Stats{Msgs: map[string]*[3]int{}, Boundary: map[string]int{}}
}

// Add merges o into s.
func (s *Stats) Add(o *Stats) {
	for k, v := range o.Msgs {
		c := s.Msgs[k]
		if c == nil {
			c = &[3]int{}
			s.Msgs[k] = c
		}
		for i := range v {
			c[i] += v[i]
		}
	}
	s.Begins += o.Begins
	s.Commits += o.Commits
	s.Restarts += o.Restarts
	s.GenRTs += o.GenRTs
	for k, v := range o.Boundary {
		s.Boundary[k] += v
	}
	s.Panics = append(s.Panics, o.Panics...)
}

// ShortType strips the package of a type URL: "/regen.ecocredit.v1.MsgSend" → "ecocredit.MsgSend".
func ShortType(url string) string {
	u := strings.TrimPrefix(url, "/")
	i := strings.LastIndexByte(u, '.')
	if i < 0 {
		return u
	}
	name, pkg := u[i+1:], u[:i]
	switch {
	case strings.Contains(pkg, "basket"):
		return "basket." + name
	case strings.Contains(pkg, "marketplace"):
		return "market." + name
	case strings.Contains(pkg, "ecocredit"):
		return "base." + name
	case strings.Contains(pkg, "data"):
		return "data." + name
	case strings.Contains(pkg, "bank"):
		return "bank." + name
	}
	return u
}

// G is one history under generation (or under replay): a recorder, the monitors and the PRNG.
type G struct {
	Family string
	N      int
	Seed   uint64
	Tier   string
	R      *common.Rng
	Rec    *chain.Recorder
	App    *chain.App
	Chk    *monitor.Checker
	Stats  *Stats

	now       time.Time // time of the current (or last) block
	uniq      int
	originIDs []string // origin tx ids used so far in this history (for replays)
	ops       []string // compact op log
	hash      []string // canonical op sequence (for the history hash)
	okWrites  int      // successful state-changing messages
	rejects   int      // rejected messages
	steps     int      // delivered messages + begin blocks

	viewState *chain.State
	view      *monitor.View

	formatsDone bool // formatsBoundary ran

	// file is the trace file name reported in findings (defaults to the generated name).
	file string

	// RTPoints: after how many commits a genesis round trip is taken (genesis family sampling).
	rtAt map[int]bool
	// paramFromGov records which parameters were (re)set by a governance message of this history
	// (otherwise the value in force comes from genesis).
	paramFromGov map[string]bool
	// badPct is the percentage of deliberately invalid variants in the random op streams.
	badPct int
	// rollbackEvery > 0: one delivered message in rollbackEvery is first sent inside a two-message transaction whose
	// second message fails in its handler, so that the whole transaction is rolled back after the first message has
	// run; the message is then delivered on its own.  Nothing of the rolled-back run may survive (C10), in
	// particular nothing a keeper remembered outside the store.
	rollbackEvery int
}

// traceFileName is the name of the trace file of history (family, n).
func traceFileName(family string, n int) string {
	return fmt.Sprintf("traces/trace_%s_%03d.json", family, n)
}

// Cfg identifies one history. Sub is set when a family (genesis, determinism) borrows the
// generator of another family; RTPoints > 0 asks for that many sampled genesis round trips.
type Cfg struct {
	Family   string
	N        int
	Seed     uint64
	Tier     string
	Sub      string
	RTPoints int
	// Tag names a fixed corpus scenario; it is appended to the trace id ("corpus_000(<tag>)").
	// SkipModel appends "#skip-model": the trace is meant for the monitors only.
	Tag       string
	SkipModel bool
}

// NewG creates the chain of one history. opts.GenesisTime is defaulted by chain.
func NewG(c Cfg, opts chain.Options) *G {
	id := fmt.Sprintf("%s_%03d", c.Family, c.N)
	if c.Sub != "" {
		id += "(" + c.Sub + ")"
	}
	if c.Tag != "" {
		id += "(" + c.Tag + ")"
	}
	if c.SkipModel {
		id += "#skip-model"
	}
	rec := chain.NewRecorder(id, c.Seed, opts)
	g := &G{Family: c.Family, N: c.N, Seed: c.Seed, Tier: c.Tier, R: common.NewRng(c.Seed), Rec: rec, App: rec.App, Stats: newStats(), badPct: 22, paramFromGov: map[string]bool{}}
	g.Chk = monitor.NewChecker(rec.Trace, traceFileName(c.Family, c.N), c.Family)
	g.now = rec.App.Options().GenesisTime
	if c.RTPoints > 0 {
		r := common.NewRng(c.Seed ^ 0x67656e65736973)
		g.rtAt = map[int]bool{}
		for i := 0; i < c.RTPoints; i++ {
			g.rtAt[2+r.Intn(9)] = true
		}
	}
	return g
}

func (g *G) fileName() string {
	if g.file != "" {
		return g.file
	}
	return traceFileName(g.Family, g.N)
}

// V returns the typed view of the current state.
func (g *G) V() *monitor.View {
	s := g.Rec.State()
	if s != g.viewState || g.view == nil {
		g.viewState, g.view = s, monitor.NewView(s)
	}
	return g.view
}

func (g *G) bump(k string) { g.Stats.Boundary[g.Family+":"+k]++ }

// Begin opens the next block at time t.
func (g *G) Begin(t time.Time) chain.StepResult {
	pre := g.Rec.State()
	res := g.Rec.Begin(0, t)
	it := g.Rec.Last()
	g.Chk.Step(pre, g.Rec.State(), it, nil)
	g.now = t
	g.Stats.Begins++
	g.steps++
	g.hash = append(g.hash, fmt.Sprintf("B%d.%d", t.Unix(), t.Nanosecond()))
	g.ops = append(g.ops, "begin@"+t.UTC().Format("2006-01-02T15:04:05.999999999Z"))
	return res
}

// Commit ends the open block; at sampled points a genesis round trip follows.
func (g *G) Commit() {
	if g.rtAt[g.Stats.Commits+1] {
		g.formatsBoundary() // rows at the edges of the format validators, before the round trip
	}
	g.Rec.Commit()
	g.Stats.Commits++
	g.hash = append(g.hash, "C")
	if g.rtAt[g.Stats.Commits] {
		g.GenesisRT("sampled")
	}
}

// Restart rebuilds the app over the same DB (between blocks).
func (g *G) Restart() {
	pre := g.Rec.State()
	g.Rec.Restart()
	g.App = g.Rec.App
	g.Chk.Step(pre, g.Rec.State(), g.Rec.Last(), nil)
	g.Stats.Restarts++
	g.hash = append(g.hash, "R")
}

// GenesisRT runs and records a genesis round trip of the current state.
func (g *G) GenesisRT(note string) chain.GenesisRT {
	rt := g.Rec.GenesisRoundTrip()
	it := g.Rec.Last()
	it.Note = note
	g.Chk.Step(nil, nil, it, nil)
	g.Stats.GenRTs++
	g.hash = append(g.hash, "G")
	g.ops = append(g.ops, fmt.Sprintf("genesis_rt(%s):%v", note, rt.OK()))
	return rt
}

// knownPanics are the messages whose ValidateBasic is a panic stub in this tree.
var knownPanics = map[string]bool{
	"base.MsgCreateUnregisteredProject": true,
	"base.MsgCreateOrUpdateApplication": true,
	"base.MsgUpdateProjectEnrollment":   true,
}

// Do delivers one message in its own transaction, records it and runs the monitors.
func (g *G) Do(msg sdk.Msg, note string) chain.StepResult {
	if (g.rollbackEvery > 0 || g.badPct > 0) && g.App.BlockOpen() && !strings.HasPrefix(note, "expect") {
		every := g.rollbackEvery
		if every == 0 {
			every = 25
		}
		if g.R.Chance(1, every) {
			g.rolledBack(msg, note)
		}
	}
	pre := g.Rec.State()
	res := g.Rec.Deliver(msg)
	it := g.Rec.Last()
	it.Note = note
	g.account(it, res)
	g.Chk.Step(pre, g.Rec.State(), it, []sdk.Msg{msg})
	return res
}

// rolledBack delivers [msg, poison] as ONE transaction: poison passes ValidateBasic and fails in its handler (a seal
// of a batch that does not exist), so everything msg wrote is discarded.
func (g *G) rolledBack(msg sdk.Msg, note string) {
	poison := g.App.MsgSealBatch(g.user(), "ZZZ999-999-20200101-20210101-999")
	pre := g.Rec.State()
	res := g.Rec.DeliverMulti([]sdk.Msg{msg, poison})
	it := g.Rec.Last()
	it.Note = "rolled back (second message of the transaction fails): " + note
	g.account(it, res)
	g.Chk.Step(pre, g.Rec.State(), it, []sdk.Msg{msg, poison})
	g.bump("rolled-back-transaction")
	if res.OK {
		g.bump("rolled-back-transaction:UNEXPECTEDLY-OK")
	}
}

// DoTx delivers several messages as ONE transaction (all-or-nothing) and runs the monitors on it.
func (g *G) DoTx(note string, msgs ...sdk.Msg) chain.StepResult {
	pre := g.Rec.State()
	res := g.Rec.DeliverMulti(msgs)
	it := g.Rec.Last()
	it.Note = note
	g.account(it, res)
	g.Chk.Step(pre, g.Rec.State(), it, msgs)
	return res
}

func (g *G) account(it *chain.Item, res chain.StepResult) {
	short := ShortType(it.TypeURL)
	c := g.Stats.Msgs[short]
	if c == nil {
		c = &[3]int{}
		g.Stats.Msgs[short] = c
	}
	switch res.Verdict() {
	case "ok":
		c[0]++
		if it.Diff != nil && !it.Diff.Empty() {
			g.okWrites++
		}
	case "error":
		c[1]++
		g.rejects++
	default:
		c[2]++
		g.rejects++
		if !knownPanics[short] {
			g.Stats.Panics = append(g.Stats.Panics, fmt.Sprintf("%s: %s @%s#%d", short, clip(res.PanicValue, 160), g.fileName(), it.Seq))
		}
	}
	g.steps++
	g.hash = append(g.hash, "M"+it.TxHex)
	g.ops = append(g.ops, short+":"+res.Verdict())
}

func clip(s string, n int) string {
	if len(s) > n {
		return s[:n] + "..."
	}
	return s
}

// Finish closes the history and returns its result.
func (g *G) Finish() *Result {
	if g.App.BlockOpen() {
		g.Commit()
	}
	tr := g.Rec.Finish()
	h := sha256.Sum256([]byte(strings.Join(g.hash, "\n")))
	return &Result{Family: g.Family, N: g.N, Seed: g.Seed, Trace: tr, File: g.fileName(), Stats: g.Stats,
		Violations: g.Chk.Out, Exercised: g.Chk.Exercised, Counters: g.Chk.Counters, Hash: hex.EncodeToString(h[:]),
		Nontrivial: g.okWrites > 0 && g.rejects > 0, Steps: g.steps, Ops: g.ops}
}

// Result is everything one history contributes to the run.
type Result struct {
	Family     string
	N          int
	Seed       uint64
	Trace      *chain.Trace
	File       string
	Stats      *Stats
	Violations []monitor.Violation
	Exercised  map[string]int
	Counters   map[string]int
	Hash       string
	Nontrivial bool
	Steps      int
	Ops        []string
}

// Compact renders a history in compact form (for summary samples).
func (r *Result) Compact(max int) map[string]interface{} {
	ops := r.Ops
	if len(ops) > max {
		ops = append(append([]string{}, ops[:max]...), fmt.Sprintf("... (%d more)", len(r.Ops)-max))
	}
	return map[string]interface{}{"trace": r.File, "family": r.Family, "seed": r.Seed, "steps": r.Steps, "ops": ops}
}

// sortedKeys returns map keys in sorted order.
func sortedKeys[V any](m map[string]V) []string {
	ks := make([]string, 0, len(m))
	for k := range m {
		ks = append(ks, k)
	}
	sort.Strings(ks)
	return ks
}
