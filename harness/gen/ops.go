package gen

import (
	"fmt"
	"math/big"
	"strings"
	"time"

	sdk "github.com/cosmos/cosmos-sdk/types"
	gogotypes "github.com/cosmos/gogoproto/types"

	base "github.com/regen-network/regen-ledger/x/ecocredit/v3/base/types/v1"
	basket "github.com/regen-network/regen-ledger/x/ecocredit/v3/basket/types/v1"
	market "github.com/regen-network/regen-ledger/x/ecocredit/v3/marketplace/types/v1"

	"verif/harness/chain"
	"verif/harness/monitor"
)

// An op generates and delivers (at most) one message from the current state; it returns false if
// the state offers nothing to work on.
type op func(g *G) bool

type wop struct {
	w  int
	f  op
	id string
}

// pick runs one op drawn by weight; ops that are not applicable are skipped.
func (g *G) pick(ops []wop) {
	for try := 0; try < 8; try++ {
		tot := 0
		for _, o := range ops {
			tot += o.w
		}
		r := g.R.Intn(tot)
		for _, o := range ops {
			if r < o.w {
				if o.f(g) {
					return
				}
				break
			}
			r -= o.w
		}
	}
}

func (g *G) bad() bool { return g.R.Intn(100) < g.badPct }

var jurisdictions = []string{"US-WA", "KE", "FR-75 75001", "AU-NSW 2000", "DE"}

func (g *G) jur() string { return jurisdictions[g.R.Intn(len(jurisdictions))] }

// ---------------------------------------------------------------------------------------------
// base: creation

var creditTypePool = []string{"C", "BIO", "KS", "A", "ZZZ", "BT"}

func opCreateClass(g *G) bool {
	v := g.V()
	types := sortedKeys(v.CreditTypes)
	ct := types[g.R.Intn(len(types))]
	admin := g.user()
	if v.AllowlistOn && !g.bad() {
		var allowed []int
		for i := 0; i < NumUsers; i++ {
			if v.Creators[keyOf(i)] {
				allowed = append(allowed, i)
			}
		}
		if len(allowed) > 0 {
			admin = allowed[g.R.Intn(len(allowed))]
		}
	}
	issuers := []int{admin}
	for i := 0; i < NumUsers; i++ {
		if i != admin && g.R.Chance(1, 3) {
			issuers = append(issuers, i)
		}
	}
	var fee *sdk.Coin
	if v.ClassFee != nil && v.ClassFee.Amount != nil {
		amt := new(big.Int).Set(v.ClassFee.Amount)
		if amt.Sign() == 0 {
			amt = big.NewInt(1)
		}
		fee = bigCoin(v.ClassFee.Denom, amt)
	}
	note := "create class"
	if g.bad() {
		switch g.R.Intn(5) {
		case 0:
			ct, note = "QQ", "create class: unknown credit type"
		case 1:
			if fee != nil && fee.Amount.GT(sdk.NewInt(1)) {
				fee = bigCoin(fee.Denom, new(big.Int).Sub(fee.Amount.BigInt(), big.NewInt(1)))
				note = "create class: fee one below the required fee"
			}
		case 2:
			if fee != nil {
				fee, note = nil, "create class: fee absent although required"
			} else {
				fee, note = coin("stake", 5), "create class: fee offered although none required"
			}
		case 3:
			if fee != nil {
				fee, note = coin("uatom", fee.Amount.Int64()), "create class: fee in a different denom"
			}
		case 4:
			if fee != nil {
				fee, note = bigCoin(fee.Denom, new(big.Int).Add(fee.Amount.BigInt(), big.NewInt(7))), "create class: fee above the required fee (only the fee is charged)"
			}
		}
	}
	g.Do(g.App.MsgCreateClass(admin, issuers, g.md("class-md"), ct, fee), note)
	return true
}

func opCreateProject(g *G) bool {
	v := g.V()
	cs := g.classes(v)
	if len(cs) == 0 {
		return false
	}
	c := cs[g.R.Intn(len(cs))]
	signer := g.issuerOf(v, c.Key)
	note := "create project"
	if signer < 0 || g.bad() {
		signer, note = g.user(), "create project: random signer (maybe not an issuer)"
	}
	ref := ""
	if g.R.Chance(1, 2) {
		ref = fmt.Sprintf("REF-%d", g.R.Intn(6))
	}
	classID := c.ID
	if g.bad() && g.R.Chance(1, 3) {
		classID, note = c.ID+"1", "create project: class id that is a string extension of an existing one"
	}
	g.Do(g.App.MsgCreateProject(signer, classID, g.md("project-md"), g.jur(), ref, nil), note)
	return true
}

func (g *G) issuances(n int) []*base.BatchIssuance {
	var out []*base.BatchIssuance
	if g.R.Chance(1, 10) {
		// duplicates within one message: the same recipient twice around a zero-amount item
		r, other := g.user(), g.user()
		a1, _ := g.issueAmount()
		a2 := fmt.Sprint(1 + g.R.Intn(5000))
		zero := []string{"0", "0.0", "0.000000"}[g.R.Intn(3)]
		out = []*base.BatchIssuance{
			{Recipient: g.App.Addr(r), TradableAmount: a1},
			{Recipient: g.App.Addr(other), TradableAmount: zero},
			{Recipient: g.App.Addr(r), TradableAmount: a2, RetiredAmount: "1.5", RetirementJurisdiction: g.jur()},
		}
		if g.R.Bool() {
			out = append(out, &base.BatchIssuance{Recipient: g.App.Addr(r), RetiredAmount: "0", TradableAmount: "0.000001"})
		}
		g.bump("dup:issuance-same-recipient-around-zero-item")
		return out
	}
	first := g.user()
	for i := 0; i < n; i++ {
		r := g.user()
		if i == 1 && g.R.Chance(1, 2) {
			r = first // the same recipient twice
			g.bump("issuance-same-recipient-twice")
		}
		if i == 0 {
			r = first
		}
		t, k := g.issueAmount()
		g.bump("amount:" + k)
		ret, j := "", ""
		switch g.R.Intn(4) {
		case 0:
			ret, _ = g.issueAmount()
			j = g.jur()
		case 1:
			ret, j, t = t, g.jur(), ""
		}
		out = append(out, &base.BatchIssuance{Recipient: g.App.Addr(r), TradableAmount: t, RetiredAmount: ret, RetirementJurisdiction: j})
	}
	return out
}

func (g *G) origin(contract bool) *base.OriginTx {
	id := g.txHash()
	switch r := g.R.Intn(20); {
	case r < 2 && len(g.originIDs) > 0:
		// replay of an id used earlier in this history (through whichever entry point comes next)
		id = g.originIDs[g.R.Intn(len(g.originIDs))]
		g.bump("origin:replayed-id")
	case r == 2:
		id += " " // CreateBatch / MintBatchCredits accept any non-empty id of up to 128 characters
		g.bump("origin:trailing-space")
	case r == 3:
		id = " " + id // rejected by the validators: ids start with a letter or digit
		g.bump("origin:leading-space(invalid)")
	case r == 4:
		id = strings.ToUpper(id)
		g.bump("origin:upper-case-id")
	}
	if len(g.originIDs) < 64 {
		g.originIDs = append(g.originIDs, id)
		if strings.TrimSpace(id) != id && g.R.Bool() {
			g.originIDs = append(g.originIDs, strings.TrimSpace(id)) // a later replay of the trimmed spelling is a DIFFERENT id
		}
	}
	o := &base.OriginTx{Id: id, Source: "polygon", Note: "gen"}
	if contract {
		o.Contract = ethAddr(g.R.Intn(4))
	}
	return o
}

func opCreateBatch(g *G) bool {
	v := g.V()
	ps := g.projects(v)
	if len(ps) == 0 {
		return false
	}
	p := ps[g.R.Intn(len(ps))]
	signer := g.issuerOf(v, p.ClassKey)
	note := "create batch"
	if signer < 0 || g.bad() && g.R.Chance(1, 2) {
		signer, note = g.user(), "create batch: random signer (maybe not an issuer)"
	}
	start := g.randomDate()
	end := start.AddDate(0, 1+g.R.Intn(24), 0)
	if g.R.Chance(1, 12) {
		end = start
		note += ", start == end"
		g.bump("batch-start==end")
	}
	var o *base.OriginTx
	if g.R.Chance(1, 3) {
		o = g.origin(g.R.Bool())
	}
	cl := v.Classes[p.ClassKey]
	classID := ""
	if cl != nil && g.R.Bool() {
		classID = cl.ID
	}
	g.Do(g.App.MsgCreateBatch(signer, p.ID, classID, g.issuances(1+g.R.Intn(4)), g.md("batch-md"), start, end, g.R.Chance(2, 3), o), note)
	return true
}

func opMint(g *G) bool {
	v := g.V()
	bs := g.batches(v)
	if len(bs) == 0 {
		return false
	}
	b := bs[g.R.Intn(len(bs))]
	// prefer open batches
	for try := 0; try < 3 && !b.Open; try++ {
		b = bs[g.R.Intn(len(bs))]
	}
	signer := idxOf(b.Issuer)
	note := "mint"
	if !b.Open {
		note = "mint: sealed batch"
	}
	if signer < 0 || signer >= NumUsers || g.bad() && g.R.Chance(1, 2) {
		signer, note = g.user(), note+", random signer"
	}
	g.Do(g.App.MsgMintBatchCredits(signer, b.Denom, g.issuances(1+g.R.Intn(2)), g.origin(false)), note)
	return true
}

func opSeal(g *G) bool {
	v := g.V()
	bs := g.batches(v)
	if len(bs) == 0 {
		return false
	}
	b := bs[g.R.Intn(len(bs))]
	signer := idxOf(b.Issuer)
	note := "seal"
	if !b.Open {
		note = "seal again"
	}
	if signer < 0 || signer >= NumUsers || g.bad() {
		signer, note = g.user(), note+", random signer"
	}
	g.Do(g.App.MsgSealBatch(signer, b.Denom), note)
	return true
}

// ---------------------------------------------------------------------------------------------
// base: moving credits

func opSend(g *G) bool {
	v := g.V()
	hs := g.holdings(v)
	if len(hs) == 0 {
		return false
	}
	h := hs[g.R.Intn(len(hs))]
	sender := h.Acct
	note := "send"
	if g.bad() && g.R.Chance(1, 3) {
		sender, note = g.otherUser(h.Acct), "send: sender is not the holder"
	}
	rcpt := g.otherUser(sender)
	var cr *base.MsgSend_SendCredits
	switch g.R.Intn(3) {
	case 0:
		a, k := g.amount(h.T)
		g.bump("amount:" + k)
		cr = &base.MsgSend_SendCredits{BatchDenom: h.Batch.Denom, TradableAmount: a}
		note += " tradable (" + k + ")"
	case 1:
		a, k := g.amount(h.T)
		g.bump("amount:" + k)
		cr = &base.MsgSend_SendCredits{BatchDenom: h.Batch.Denom, RetiredAmount: a, RetirementJurisdiction: g.jur(), RetirementReason: "gift"}
		note += " retired (" + k + ")"
	default:
		half := new(big.Rat).Quo(h.T, big.NewRat(2, 1))
		a, k := g.amount(half)
		b, _ := g.amount(half)
		g.bump("amount:" + k)
		cr = &base.MsgSend_SendCredits{BatchDenom: h.Batch.Denom, TradableAmount: a, RetiredAmount: b, RetirementJurisdiction: g.jur()}
		note += " tradable+retired (" + k + ")"
	}
	credits := []*base.MsgSend_SendCredits{cr}
	if g.R.Chance(1, 6) {
		credits = append(credits, &base.MsgSend_SendCredits{BatchDenom: h.Batch.Denom, TradableAmount: "0.000001"})
		note += ", same batch twice"
		g.bump("dup:send-same-batch-twice")
	}
	if g.R.Chance(1, 5) {
		if others := g.otherHoldings(hs, h); len(others) > 0 {
			o := others[g.R.Intn(len(others))]
			a2, _ := g.amount(o.T)
			if g.R.Chance(1, 4) {
				a2 = fmtRat(new(big.Rat).Add(o.T, big.NewRat(1, 1)), 6)
				g.bump("list:overdrawing-entry")
				note += " (the extra entry overdraws)"
			}
			extra := &base.MsgSend_SendCredits{BatchDenom: o.Batch.Denom, TradableAmount: a2}
			if g.R.Bool() {
				extra = &base.MsgSend_SendCredits{BatchDenom: o.Batch.Denom, RetiredAmount: a2, RetirementJurisdiction: g.jur()}
			}
			if g.R.Bool() {
				credits = append(credits, extra)
			} else {
				credits = append([]*base.MsgSend_SendCredits{extra}, credits...)
			}
			note += ", two different batches in one message"
			g.bump("multi:send-different-batches")
		}
	}
	sm, note := g.respell(g.App.MsgSendMulti(sender, rcpt, credits...), note)
	g.Do(sm, note)
	return true
}

func opRetire(g *G) bool {
	v := g.V()
	hs := g.holdings(v)
	if len(hs) == 0 {
		return false
	}
	h := hs[g.R.Intn(len(hs))]
	a, k := g.amount(h.T)
	g.bump("amount:" + k)
	owner := h.Acct
	note := "retire (" + k + ")"
	if g.bad() && g.R.Chance(1, 4) {
		owner, note = g.otherUser(h.Acct), note+" by a non-holder"
	}
	g.Do(g.App.MsgRetire(owner, g.jur(), "offset", g.multiCredits(hs, h, g.dupCredits(h.Batch.Denom, a, &note), &note)...), note)
	return true
}

func opCancel(g *G) bool {
	v := g.V()
	hs := g.holdings(v)
	if len(hs) == 0 {
		return false
	}
	h := hs[g.R.Intn(len(hs))]
	a, k := g.amount(h.T)
	g.bump("amount:" + k)
	note := "cancel (" + k + ")"
	g.Do(g.App.MsgCancel(h.Acct, "cancel", g.multiCredits(hs, h, g.dupCredits(h.Batch.Denom, a, &note), &note)...), note)
	return true
}

// dupCredits returns the credits list of a Retire/Cancel/Bridge: normally one entry; in ~10 % of the
// cases the same batch denom twice (the amount split in two, or the amount plus a dust entry).
func (g *G) dupCredits(denom, amount string, note *string) []*base.Credits {
	if !g.R.Chance(1, 10) {
		return []*base.Credits{chain.Credits(denom, amount)}
	}
	g.bump("dup:credits-same-batch-twice")
	*note += ", same batch twice"
	if r, _, ok := monitor.ParseStrict(amount); ok && r.Sign() > 0 {
		h1 := fmtRat(new(big.Rat).Quo(r, big.NewRat(2, 1)), 6)
		h2 := fmtRat(new(big.Rat).Sub(r, rat(h1)), 6)
		if rat(h1).Sign() > 0 && rat(h2).Sign() > 0 {
			return []*base.Credits{chain.Credits(denom, h1), chain.Credits(denom, h2)}
		}
	}
	return []*base.Credits{chain.Credits(denom, amount), chain.Credits(denom, "0.000001")}
}

// otherHoldings returns the holdings of h's account in batches other than h's.
func (g *G) otherHoldings(hs []holding, h holding) []holding {
	var out []holding
	for _, o := range hs {
		if o.Acct == h.Acct && o.Batch.Denom != h.Batch.Denom {
			out = append(out, o)
		}
	}
	return out
}

// multiCredits adds (in a third of the cases) an entry for a different batch held by the same account,
// before or after the given entries.
func (g *G) multiCredits(hs []holding, h holding, credits []*base.Credits, note *string) []*base.Credits {
	if !g.R.Chance(1, 3) {
		return credits
	}
	others := g.otherHoldings(hs, h)
	if len(others) == 0 {
		return credits
	}
	o := others[g.R.Intn(len(others))]
	a2, _ := g.amount(o.T)
	g.bump("multi:credits-different-batches")
	*note += ", two different batches in one message"
	if g.R.Chance(1, 4) {
		// the extra entry overdraws its batch: the whole message must fail wherever the entry stands
		a2 = fmtRat(new(big.Rat).Add(o.T, big.NewRat(1, 1)), 6)
		g.bump("list:overdrawing-entry")
		*note += " (the extra entry overdraws)"
	}
	if g.R.Bool() {
		return append(credits, chain.Credits(o.Batch.Denom, a2))
	}
	return append([]*base.Credits{chain.Credits(o.Batch.Denom, a2)}, credits...)
}

func chainNames(v *monitor.View) []string { return sortedDenoms(v.Chains) }

func opBridge(g *G) bool {
	v := g.V()
	hs := g.holdings(v)
	if len(hs) == 0 {
		return false
	}
	// prefer batches with a bound contract
	var with []holding
	for _, h := range hs {
		if v.Contracts[h.Batch.Key] != nil {
			with = append(with, h)
		}
	}
	h := hs[g.R.Intn(len(hs))]
	note := "bridge"
	if len(with) > 0 && !(g.bad() && g.R.Chance(1, 3)) {
		h = with[g.R.Intn(len(with))]
	}
	if v.Contracts[h.Batch.Key] == nil {
		note += ": batch without a bound contract"
		g.bump("bridge-out-without-contract")
	} else {
		g.bump("bridge-out-with-contract")
	}
	target := "polygon"
	if cs := chainNames(v); len(cs) > 0 {
		target = cs[g.R.Intn(len(cs))]
	}
	switch g.R.Intn(6) {
	case 0:
		target = strings.ToUpper(target[:1]) + target[1:]
		note += ", capitalised target"
	case 1:
		if g.bad() {
			target, note = "ethereum", note+", target not allowed"
		}
	}
	a, k := g.amount(h.T)
	g.bump("amount:" + k)
	note += " (" + k + ")"
	// several different batches of the owner in one message, bound and unbound ones mixed in any order
	g.Do(g.App.MsgBridge(h.Acct, target, ethAddr(9), g.multiCredits(hs, h, g.dupCredits(h.Batch.Denom, a, &note), &note)...), note)
	return true
}

func opBridgeReceive(g *G) bool {
	v := g.V()
	cs := g.classes(v)
	if len(cs) == 0 {
		return false
	}
	c := cs[g.R.Intn(len(cs))]
	signer := g.issuerOf(v, c.Key)
	note := "bridge receive"
	if signer < 0 || g.bad() && g.R.Chance(1, 3) {
		signer, note = g.user(), note+": random signer"
	}
	src := "polygon"
	if g.R.Chance(1, 5) {
		src = "Polygon"
	}
	o := &base.OriginTx{Id: g.txHash(), Source: src, Contract: ethAddr(g.R.Intn(4))}
	a, k := g.issueAmount()
	start := g.randomDate()
	end := start.AddDate(1, 0, 0)
	ref := fmt.Sprintf("REF-%d", g.R.Intn(6))
	g.Do(g.App.MsgBridgeReceive(signer, c.ID, &base.MsgBridgeReceive_Project{ReferenceId: ref, Jurisdiction: g.jur(), Metadata: g.md("bp-md")},
		g.user(), a, start, end, g.md("bb-md"), o), note+" ("+k+")")
	return true
}

// ---------------------------------------------------------------------------------------------
// base: admin noise

func opAdminNoise(g *G) bool {
	v := g.V()
	cs, ps, bs := g.classes(v), g.projects(v), g.batches(v)
	if len(cs) == 0 {
		return false
	}
	c := cs[g.R.Intn(len(cs))]
	admin := idxOf(c.Admin)
	wrong := g.bad()
	if wrong || admin < 0 || admin >= NumUsers {
		admin = g.user()
	}
	switch g.R.Intn(6) {
	case 0:
		g.Do(g.respell(g.App.MsgUpdateClassAdmin(admin, c.ID, g.otherUser(admin)), "class admin transfer"))
	case 1:
		add, rem := []int{g.user()}, []int(nil)
		if g.R.Bool() {
			rem = []int{g.user()}
		}
		note := "class issuers add/remove"
		if g.R.Chance(1, 3) {
			rem = []int{add[0]}
			note = "class issuers: add and remove the same address in one message"
			g.bump("dup:issuers-add-and-remove-same-address")
		} else if len(rem) == 1 && rem[0] == add[0] {
			rem = nil
		}
		g.Do(g.App.MsgUpdateClassIssuers(admin, c.ID, add, rem), note)
	case 2:
		g.Do(g.App.MsgUpdateClassMetadata(admin, c.ID, g.md("class-md2")), "class metadata")
	case 3:
		if len(ps) == 0 {
			return false
		}
		p := ps[g.R.Intn(len(ps))]
		a := idxOf(p.Admin)
		if wrong || a < 0 || a >= NumUsers {
			a = g.user()
		}
		g.Do(g.respell(g.App.MsgUpdateProjectAdmin(a, p.ID, g.otherUser(a)), "project admin transfer"))
	case 4:
		if len(ps) == 0 {
			return false
		}
		p := ps[g.R.Intn(len(ps))]
		a := idxOf(p.Admin)
		if wrong || a < 0 || a >= NumUsers {
			a = g.user()
		}
		g.Do(g.App.MsgUpdateProjectMetadata(a, p.ID, g.md("project-md2")), "project metadata")
	default:
		if len(bs) == 0 {
			return false
		}
		b := bs[g.R.Intn(len(bs))]
		a := idxOf(b.Issuer)
		if wrong || a < 0 || a >= NumUsers {
			a = g.user()
		}
		note := "batch metadata"
		if !b.Open {
			note += " (sealed batch)"
		}
		g.Do(g.App.MsgUpdateBatchMetadata(a, b.Denom, g.md("batch-md2")), note)
	}
	return true
}

func opUnimplemented(g *G) bool {
	a := g.App
	switch g.R.Intn(4) {
	case 0:
		g.Do(a.MsgCreateUnregisteredProject(g.user(), "m", "US", "", nil), "unimplemented RPC")
	case 1:
		g.Do(a.MsgCreateOrUpdateApplication(g.user(), "C01-001", "C01", "m", false), "unimplemented RPC")
	case 2:
		g.Do(a.MsgUpdateProjectEnrollment(g.user(), "C01-001", "C01", base.ProjectEnrollmentStatus(2), "m"), "unimplemented RPC")
	default:
		g.Do(a.MsgUpdateProjectFee(coin("stake", 1)), "unimplemented RPC")
	}
	return true
}

func opBurnRegen(g *G) bool {
	amt := fmt.Sprint(1 + g.R.Intn(1000))
	if g.bad() {
		amt = []string{"0", "-5", "1.5", "99999999999999999999999", "0x1f", "017", "1_0", "08", "0b11"}[g.R.Intn(9)]
	}
	g.Do(g.App.MsgBurnRegen(g.user(), amt, "burn"), "burn regen "+amt)
	return true
}

// ---------------------------------------------------------------------------------------------
// governance

// asUser rewrites the authority of a governance message to a user (wrong authority).
func (g *G) asUser(m sdk.Msg, u int) sdk.Msg {
	addr := g.App.Addr(u)
	switch x := m.(type) {
	case *base.MsgAddCreditType:
		x.Authority = addr
	case *base.MsgSetClassCreatorAllowlist:
		x.Authority = addr
	case *base.MsgAddClassCreator:
		x.Authority = addr
	case *base.MsgRemoveClassCreator:
		x.Authority = addr
	case *base.MsgUpdateClassFee:
		x.Authority = addr
	case *base.MsgAddAllowedBridgeChain:
		x.Authority = addr
	case *base.MsgRemoveAllowedBridgeChain:
		x.Authority = addr
	case *basket.MsgUpdateBasketFee:
		x.Authority = addr
	case *basket.MsgUpdateDateCriteria:
		x.Authority = addr
	case *market.MsgAddAllowedDenom:
		x.Authority = addr
	case *market.MsgRemoveAllowedDenom:
		x.Authority = addr
	case *market.MsgGovSetFeeParams:
		x.Authority = addr
	case *market.MsgGovSendFromFeePool:
		x.Authority = addr
	}
	return m
}

// FeeRates is the fee-parameter stream of the market/params families.
var FeeRates = []string{"", "0", "0.0", "0.003", "0.5", "1", "0.01", "0.12345678901234567890", "0.0000000000000000000000000000000000000001", "0.3333333333333333333333333333333333333333"}

var denomPool = []struct {
	bank, display string
}{{"uatom", "atom"}, {"uregen", "regen"}, {"stake", "stake"}, {"uusdc", "usdc"}}

func (g *G) govMsg() (sdk.Msg, string) {
	a := g.App
	v := g.V()
	switch g.R.Intn(13) {
	case 0:
		ab := creditTypePool[g.R.Intn(len(creditTypePool))]
		return a.MsgAddCreditType(&base.CreditType{Abbreviation: ab, Name: "type-" + strings.ToLower(ab), Unit: "unit", Precision: 6}), "gov: add credit type " + ab
	case 1:
		on := g.R.Bool()
		return a.MsgSetClassCreatorAllowlist(on), fmt.Sprintf("gov: allowlist %v", on)
	case 2:
		return a.MsgAddClassCreator(g.user()), "gov: add class creator"
	case 3:
		return a.MsgRemoveClassCreator(g.user()), "gov: remove class creator"
	case 4:
		switch g.R.Intn(4) {
		case 0:
			return a.MsgUpdateClassFee(nil), "gov: class fee unset"
		case 1:
			return a.MsgUpdateClassFee(coin("stake", 0)), "gov: class fee zero coin"
		default:
			d := []string{"stake", "uatom", "uregen"}[g.R.Intn(3)]
			return a.MsgUpdateClassFee(coin(d, int64(1+g.R.Intn(30000000)))), "gov: class fee in " + d
		}
	case 5:
		c := []string{"polygon", "Polygon", "ethereum", "BSC"}[g.R.Intn(4)]
		return a.MsgAddAllowedBridgeChain(c), "gov: allow bridge chain " + c
	case 6:
		c := []string{"polygon", "Polygon", "ethereum", "bsc"}[g.R.Intn(4)]
		return a.MsgRemoveAllowedBridgeChain(c), "gov: remove bridge chain " + c
	case 7:
		switch g.R.Intn(4) {
		case 0:
			return a.MsgUpdateBasketFee(nil), "gov: basket fee unset"
		case 1:
			return a.MsgUpdateBasketFee(coin("uatom", 0)), "gov: basket fee zero coin"
		default:
			d := []string{"stake", "uatom", "uregen"}[g.R.Intn(3)]
			return a.MsgUpdateBasketFee(coin(d, int64(1+g.R.Intn(30000000)))), "gov: basket fee in " + d
		}
	case 8:
		d := denomPool[g.R.Intn(len(denomPool))]
		return a.MsgAddAllowedDenom(d.bank, d.display, 6), "gov: allow denom " + d.bank
	case 9:
		ds := sortedDenoms(v.AllowedDenoms)
		d := "uusdc"
		if len(ds) > 0 && g.R.Chance(3, 4) {
			d = ds[g.R.Intn(len(ds))]
		}
		return a.MsgRemoveAllowedDenom(d), "gov: remove allowed denom " + d
	case 10:
		b, s := FeeRates[g.R.Intn(len(FeeRates))], FeeRates[g.R.Intn(len(FeeRates))]
		if g.bad() {
			s = []string{"1.5", "2", "-0.1", "abc"}[g.R.Intn(4)]
		}
		return a.MsgGovSetFeeParams(b, s), fmt.Sprintf("gov: fee params buyer=%q seller=%q", b, s)
	case 11:
		pool := v.Bank[monitor.KeyFeePool]
		ds := sortedKeys(pool)
		if len(ds) > 0 {
			d := ds[g.R.Intn(len(ds))]
			amt := new(big.Int).Quo(new(big.Int).Add(pool[d], big.NewInt(1)), big.NewInt(2))
			if g.bad() {
				amt = new(big.Int).Add(pool[d], big.NewInt(1))
			}
			return a.MsgGovSendFromFeePool(g.user(), sdk.NewCoins(sdk.NewCoin(d, sdk.NewIntFromBigInt(amt)))), "gov: send from fee pool"
		}
		return a.MsgGovSendFromFeePool(g.user(), sdk.NewCoins(sdk.NewInt64Coin("stake", 1))), "gov: send from (empty) fee pool"
	default:
		bs := g.baskets(v)
		if len(bs) == 0 {
			return a.MsgSetClassCreatorAllowlist(false), "gov: allowlist false"
		}
		b := bs[g.R.Intn(len(bs))]
		return a.MsgBasketUpdateDateCriteria(b.Denom, g.dateCriteria()), "gov: update date criteria"
	}
}

func opGov(g *G) bool {
	m, note := g.govMsg()
	if g.bad() && g.R.Chance(1, 2) {
		u := g.user()
		m, note = g.asUser(m, u), note+fmt.Sprintf(" — sent by user %d instead of the authority", u)
	} else {
		m, note = g.respell(m, note)
	}
	g.Do(m, note)
	return true
}

// dateCriteria draws one of the four criteria variants; fractional seconds in a quarter of the timestamps and
// windows, and in the malformed stream values outside the protobuf Timestamp / Duration range (which the chain
// could store but never export).
func (g *G) dateCriteria() *basket.DateCriteria {
	if g.bad() && g.R.Chance(1, 4) {
		g.bump("criteria:outside-protobuf-range")
		switch g.R.Intn(6) {
		case 0:
			return &basket.DateCriteria{MinStartDate: &gogotypes.Timestamp{Seconds: g.randomDate().Unix(), Nanos: -1 - int32(g.R.Intn(5))}}
		case 1:
			return &basket.DateCriteria{MinStartDate: &gogotypes.Timestamp{Seconds: g.randomDate().Unix(), Nanos: 1000000000 + int32(g.R.Intn(5))}}
		case 2:
			return &basket.DateCriteria{MinStartDate: &gogotypes.Timestamp{Seconds: 253402300800 + int64(g.R.Intn(5))}}
		case 3:
			return &basket.DateCriteria{StartDateWindow: &gogotypes.Duration{Seconds: 86400 * int64(1+g.R.Intn(400)), Nanos: -1 - int32(g.R.Intn(5))}}
		case 4:
			return &basket.DateCriteria{StartDateWindow: &gogotypes.Duration{Seconds: 86400, Nanos: 1000000000}}
		default:
			return &basket.DateCriteria{StartDateWindow: &gogotypes.Duration{Seconds: 315576000001 + int64(g.R.Intn(5))}}
		}
	}
	frac := int32(0)
	if g.R.Chance(1, 4) {
		frac = []int32{1, 999999999, 500000000, 123456789}[g.R.Intn(4)]
		g.bump("criteria:fractional-seconds")
	}
	switch g.R.Intn(4) {
	case 0:
		return nil
	case 1:
		dc := chain.MinStartDate(g.randomDate())
		dc.MinStartDate.Nanos = frac
		return dc
	case 2:
		days := []int64{1, 30, 365, 3650, 109575}[g.R.Intn(5)] // 109575 days = 300 years
		return &basket.DateCriteria{StartDateWindow: &gogotypes.Duration{Seconds: days * 86400, Nanos: frac}}
	default:
		return &basket.DateCriteria{YearsInThePast: uint32(1 + g.R.Intn(120))}
	}
}

// blockTimeOf is a small helper for scripted families.
func blockTimeOf(v *monitor.View) time.Time { return v.BlockTime() }
