package gen

import (
	"encoding/json"
	"fmt"
	"math/big"
	"strings"
	"time"

	sdk "github.com/cosmos/cosmos-sdk/types"
	gogotypes "github.com/cosmos/gogoproto/types"

	base "github.com/regen-network/regen-ledger/x/ecocredit/v3/base/types/v1"
	basket "github.com/regen-network/regen-ledger/x/ecocredit/v3/basket/types/v1"
	market "github.com/regen-network/regen-ledger/x/ecocredit/v3/marketplace/types/v1"

	"verif/harness/chain"
)

// The corpus family is a fixed list of regression scenarios (past findings). The histories do not
// depend on the seed; they run first in every run. The scenario tag is part of the trace id.

type corpusScenario struct {
	tag       string
	skipModel bool
	run       func(c Cfg) *Result
}

var corpusScenarios = []corpusScenario{
	{"halt-sci-notation-order", true, corpusHaltSciNotation},
	{"fee-in-basket-denom", false, corpusFeeInBasketDenom},
	{"origin-tx-case-variant", false, corpusOriginCaseVariant},
	{"window-300-years", false, corpusWindow300Years},
	{"zero-fee-genesis", false, corpusZeroFeeGenesis},
	{"dec-sign-holes", false, corpusDecSignHoles},
	{"fee-rate-zero-and-one", false, corpusFeeRateZeroAndOne},
	{"epoch-and-equal-dates", false, corpusEpochAndEqualDates},
	{"update-same-order-twice", false, corpusUpdateSameOrderTwice},
	{"buy-across-markets", false, corpusBuyAcrossMarkets},
	{"put-beyond-34-digits", false, corpusPutBeyond34Digits},
	{"all-zero-balance-rows", false, corpusAllZeroBalanceRows},
	{"mass-expiry-260-orders", false, corpusMassExpiry},
	{"update-own-own-foreign", false, corpusUpdateOwnOwnForeign},
	{"buy-removed-order-again", false, corpusBuyRemovedOrderAgain},
	{"origin-id-whitespace-replay", false, corpusOriginWhitespaceReplay},
	{"take-amount-base-prefix", false, corpusTakeBasePrefix},
	{"criteria-timestamp-range", false, corpusCriteriaTimestampRange},
	{"utf8-length-limits", false, corpusUTF8LengthLimits},
	{"address-spellings", false, corpusAddressSpellings},
	{"bridge-mixed-batches", false, corpusBridgeMixedBatches},
	{"take-across-25-batches", false, corpusTakeAcrossManyBatches},
	{"update-order-in-removed-denom", false, corpusUpdateInRemovedDenom},
	{"market-in-basket-denom", false, corpusMarketInBasketDenom},
	{"credit-type-abbreviation-prefixes", false, corpusCreditTypePrefixes},
	{"genesis-with-omitted-zero-amounts", false, corpusOmittedZeroAmounts},
	{"markets-of-every-exponent", false, corpusMarketsOfEveryExponent},
	{"rolled-back-market-creation", false, corpusRolledBackMarketCreation},
	{"amounts-around-2^64-units", false, corpusAmountsAroundWordSize},
}

func init() { QuickCounts["corpus"] = len(corpusScenarios) }

// CorpusTags lists the scenario tags in run order.
func CorpusTags() []string {
	var out []string
	for _, s := range corpusScenarios {
		out = append(out, s.tag)
	}
	return out
}

func runCorpus(c Cfg) *Result {
	s := corpusScenarios[c.N%len(corpusScenarios)]
	c.Tag, c.SkipModel = s.tag, s.skipModel
	return s.run(c)
}

// expectNote builds the note understood by monitor.Checker.checkExpectation.
func expectNote(ok bool, prop, key, text string) string {
	v := "fail"
	if ok {
		v = "ok"
	}
	return fmt.Sprintf("expect|%s|%s|%s|%s", v, prop, key, text)
}

// corpusWorld creates class C01 (admin/issuer 0, issuer 1), project C01-001 and one open batch with
// 1000 credits for every user.
func (g *G) corpusWorld() (classID, projectID, denom string) {
	classID = g.mkClass(0, []int{0, 1}, "C")
	projectID = g.mkProject(0, classID, "REF")
	denom = g.mkBatch(0, projectID, date(2020, 1, 1), date(2021, 1, 1), true, nil, "1000 credits for every user", g.spread("1000")...)
	return
}

// ---- halt-sci-notation-order (C12) ------------------------------------------------------------

const sci = "1e100000"

func corpusHaltSciNotation(c Cfg) *Result {
	g := NewG(c, chain.Options{GenesisTime: T0})
	a := g.App
	const S = 1
	g.Begin(g.now.Add(6 * time.Second))
	cid := g.mkClass(0, []int{0}, "C")
	pid := g.mkProject(0, cid, "")
	res := g.Do(a.MsgCreateBatch(0, pid, "", []*base.BatchIssuance{g.iss(S, sci, ""), g.iss(S, sci, "")}, "md", date(2020, 1, 1), date(2021, 1, 1), true, nil),
		"issue 1e100000 twice to the seller (validation accepts the exponent)")
	denom := respField(res, "batch_denom")
	exp := g.now.Add(time.Hour)
	g.Do(a.MsgSell(S, chain.SellOrder(denom, sci, coin("stake", 1), true, &exp)), "sell 1e100000 with an expiration one hour ahead")
	g.Do(a.MsgSell(S, chain.SellOrder(denom, sci, coin("stake", 1), true, nil)), "second sell order of 1e100000 without expiration")
	g.Do(a.MsgMintBatchCredits(0, denom, []*base.BatchIssuance{g.iss(S, "0.000001", "")}, g.origin(false)), "mint 0.000001 to the seller: the tradable balance now has decimals")
	g.Commit()
	g.Begin(g.now.Add(10 * time.Minute))
	id := g.Rec.State().Sequences["SellOrder"]
	g.Do(a.MsgCancelSellOrder(S, id), expectNote(true, "C12", "cancel-sci-notation-order-failed", "the owner cancels the second 1e100000 order"))
	g.Commit()
	g.Begin(g.now.Add(2 * time.Hour)) // past the expiration: BeginBlock must prune the first order
	g.Do(a.MsgSendCredits(S, 2, denom, "0.000001", "", "", ""), expectNote(true, "C12", "chain-unusable-after-expiry", "an ordinary send after the expiry block"))
	g.Commit()
	g.Begin(g.now.Add(time.Hour))
	g.Commit()
	return g.Finish()
}

// ---- fee-in-basket-denom (C05, known finding) -------------------------------------------------------

func corpusFeeInBasketDenom(c Cfg) *Result {
	g := NewG(c, chain.Options{GenesisTime: T0})
	a := g.App
	g.Begin(g.now.Add(6 * time.Second))
	cid, _, denom := g.corpusWorld()
	res := g.Do(a.MsgBasketCreate(2, "NCT", "first basket", "C", []string{cid}, true, nil, g.basketFee(g.V())), "basket NCT (fee paid in stake)")
	bd := respField(res, "basket_denom")
	g.Do(a.MsgBasketPut(0, bd, chain.BasketCredit(denom, "100")), "user 0 deposits 100 credits and holds 100000000 eco.uC.NCT")
	g.Commit()
	g.Begin(g.nextTime())
	g.Do(a.MsgUpdateBasketFee(coin(bd, 1000000)), "gov: basket creation fee of 1000000 "+bd+" (the denom of an existing basket)")
	g.Do(a.MsgBasketCreate(0, "BCT", "second basket", "C", []string{cid}, true, nil, sdk.Coins{sdk.NewInt64Coin(bd, 1000000)}), "basket BCT: the fee is paid and burned in basket tokens")
	g.Do(a.MsgUpdateClassFee(coin(bd, 500000)), "gov: class creation fee of 500000 "+bd)
	g.Do(a.MsgCreateClass(0, []int{0}, "md", "C", coin(bd, 500000)), "class: the fee is paid and burned in basket tokens")
	g.Commit()
	g.Begin(g.nextTime())
	g.Do(a.MsgBasketPut(1, bd, chain.BasketCredit(denom, "10")), "a later deposit")
	g.Do(a.MsgBasketTake(0, bd, "1000000", false, "", ""), "a later take")
	g.Commit()
	return g.Finish()
}

// ---- origin-tx-case-variant (C13) -------------------------------------------------------------------

func corpusOriginCaseVariant(c Cfg) *Result {
	g := NewG(c, chain.Options{GenesisTime: T0})
	a := g.App
	g.Begin(g.now.Add(6 * time.Second))
	g.setupChains()
	cid := g.mkClass(0, []int{0}, "C")
	pid := g.mkProject(0, cid, "VCS-1")
	open := g.mkBatch(0, pid, date(2020, 1, 1), date(2021, 1, 1), true, nil, "open batch to mint into", g.iss(0, "10", ""))
	g.Commit()
	start, end := date(2020, 1, 1), date(2021, 1, 1)
	kinds := []string{"CreateBatch", "MintBatchCredits", "BridgeReceive"}
	do := func(kind string, o *base.OriginTx, note string) {
		switch kind {
		case "CreateBatch":
			g.Do(a.MsgCreateBatch(0, pid, "", []*base.BatchIssuance{g.iss(1, "100", "")}, "md", start, end, true, o), note)
		case "MintBatchCredits":
			oo := *o
			oo.Contract = ""
			g.Do(a.MsgMintBatchCredits(0, open, []*base.BatchIssuance{g.iss(1, "50", "")}, &oo), note)
		default:
			g.Do(a.MsgBridgeReceive(0, cid, &base.MsgBridgeReceive_Project{ReferenceId: "VCS-1", Jurisdiction: "KE", Metadata: "bridged"}, 1, "25", start, end, "bridged batch", o), note)
		}
	}
	k := 0
	for _, A := range kinds {
		g.Begin(g.nextTime())
		for _, B := range kinds {
			k++
			id := g.txHash()
			ct := ethAddr(100 + k)
			first, second := "Polygon", "polygon"
			if k%2 == 0 {
				first, second = second, first
			}
			do(A, &base.OriginTx{Id: id, Source: first, Contract: ct}, fmt.Sprintf("%s with origin tx source %q", A, first))
			do(B, &base.OriginTx{Id: id, Source: second, Contract: ct},
				expectNote(false, "C13", "origin-tx-twice-case-variant", fmt.Sprintf("replay of the same origin tx id through %s under source %q", B, second)))
		}
		g.Commit()
	}
	return g.Finish()
}

// ---- window-300-years (C11) ---------------------------------------------------------------------------

func corpusWindow300Years(c Cfg) *Result {
	yearEnd := time.Date(2199, 12, 31, 23, 59, 59, 999999999, time.UTC)
	g := NewG(c, chain.Options{GenesisTime: yearEnd.Add(-10 * time.Minute)})
	a := g.App
	const window = int64(109575 * 86400) // 300 years of 365.25 days
	g.Begin(g.now.Add(6 * time.Second))
	cid := g.mkClass(0, []int{0}, "C")
	pid := g.mkProject(0, cid, "")
	res := g.Do(a.MsgBasketCreate(3, "OLD", "300 year window", "C", []string{cid}, true, &basket.DateCriteria{StartDateWindow: durationSec(window)}, g.basketFee(g.V())), "basket with a start date window of 300 years")
	bd := respField(res, "basket_denom")
	crit := time.Unix(yearEnd.Unix()-window, int64(yearEnd.Nanosecond())).UTC()
	starts := []struct {
		t    time.Time
		ok   bool
		name string
	}{
		{time.Unix(yearEnd.Unix()-295*365*86400, 0).UTC(), true, "block time - 295 years"},
		{crit.Add(time.Nanosecond), true, "criterion + 1ns"},
		{crit, true, "exactly the criterion (block time - 300 years)"},
		{crit.Add(-time.Nanosecond), false, "criterion - 1ns"},
	}
	var denoms []string
	for _, s := range starts {
		denoms = append(denoms, g.mkBatch(0, pid, s.t, s.t.AddDate(1, 0, 0), true, nil, "start = "+s.name, g.iss(0, "1000", "")))
	}
	g.Commit()
	g.Begin(yearEnd)
	for i, s := range starts {
		key := "put-rejected-admissible:start_date_window"
		if !s.ok {
			key = "put-accepted-inadmissible:start-before-start_date_window"
		}
		g.Do(a.MsgBasketPut(0, bd, chain.BasketCredit(denoms[i], "166.666666")), expectNote(s.ok, "C11", key, "batch start = "+s.name+", window 300 years"))
	}
	g.Commit()
	return g.Finish()
}

// ---- zero-fee-genesis (C18) ---------------------------------------------------------------------------

func corpusZeroFeeGenesis(c Cfg) *Result {
	g := NewG(c, chain.Options{GenesisTime: T0, Patch: func(gen map[string]json.RawMessage) {
		patchEco(gen, "regen.ecocredit.v1.ClassFee", feeObj("stake", "0"))
		patchEco(gen, "regen.ecocredit.basket.v1.BasketFee", feeObj("stake", "0"))
	}})
	a := g.App
	if len(a.ValidateGenesis(a.GenesisJSON())) == 0 {
		g.bump("genesis-accepted:zero-fee-genesis")
	}
	g.Begin(g.now.Add(6 * time.Second))
	ok := func(op, text string) string { return "expect-ok|zero-fee-genesis-blocks-" + op + "|" + text }
	g.Do(a.MsgCreateClass(0, []int{0}, "md", "C", nil), ok("create-class", "CreateClass without a fee under a zero ClassFee from genesis"))
	g.Do(a.MsgCreateClass(1, []int{1}, "md", "C", coin("stake", 1)), ok("create-class", "CreateClass offering 1stake under a zero ClassFee from genesis (nothing may be charged)"))
	g.Do(a.MsgBasketCreate(0, "ZERO", "d", "C", []string{"C01"}, true, nil, nil), ok("basket-create", "basket Create without a fee under a zero BasketFee from genesis"))
	g.Do(a.MsgBasketCreate(1, "ZERO2", "d", "C", []string{"C01"}, true, nil, sdk.Coins{sdk.NewInt64Coin("stake", 1)}), ok("basket-create", "basket Create offering 1stake under a zero BasketFee from genesis (nothing may be charged)"))
	g.Commit()
	g.GenesisRT("zero fees")
	return g.Finish()
}

// ---- dec-sign-holes (C01/C19) -------------------------------------------------------------------------

func corpusDecSignHoles(c Cfg) *Result {
	g := NewG(c, chain.Options{GenesisTime: T0})
	a := g.App
	g.Begin(g.now.Add(6 * time.Second))
	cid, pid, denom := g.corpusWorld()
	res := g.Do(a.MsgBasketCreate(2, "NCT", "d", "C", []string{cid}, true, nil, g.basketFee(g.V())), "basket")
	bd := respField(res, "basket_denom")
	g.Commit()
	for _, amt := range []string{".-5", "+.-5", ".+5", "-.+5"} {
		g.Begin(g.nextTime())
		no := func(what string) string {
			return expectNote(false, "C01", "signed-mantissa-amount-accepted", fmt.Sprintf("%s with amount %q (a sign inside the mantissa)", what, amt))
		}
		g.Do(a.MsgSendCredits(0, 1, denom, amt, "", "", ""), no("Send (tradable)"))
		g.Do(a.MsgSendCredits(0, 1, denom, "", amt, "US-WA", ""), no("Send (retired)"))
		g.Do(a.MsgCreateBatch(0, pid, "", []*base.BatchIssuance{g.iss(1, amt, "")}, "md", date(2021, 1, 1), date(2022, 1, 1), true, nil), no("CreateBatch"))
		g.Do(a.MsgBasketPut(0, bd, chain.BasketCredit(denom, amt)), no("Put"))
		g.Do(a.MsgSell(0, chain.SellOrder(denom, amt, coin("stake", 10), true, nil)), no("Sell"))
		g.Do(a.MsgRetire(0, "US-WA", "", chain.Credits(denom, amt)), no("Retire"))
		g.Commit()
	}
	return g.Finish()
}

// ---- fee-rate-zero-and-one (C18/C07) ------------------------------------------------------------------

func corpusFeeRateZeroAndOne(c Cfg) *Result {
	g := NewG(c, chain.Options{GenesisTime: T0})
	a := g.App
	g.Begin(g.now.Add(6 * time.Second))
	_, _, denom := g.corpusWorld()
	g.Do(a.MsgSell(0, chain.SellOrder(denom, "100", coin("stake", 1000), true, nil)), "sell order 1")
	id := g.Rec.State().Sequences["SellOrder"]
	g.Commit()
	buy := func(b, s string) {
		g.Do(a.MsgBuyDirect(3, chain.BuyOrder(id, "3", coin("stake", 1000), true, "", "", nil)),
			"expect-ok|fee-params("+b+","+s+")-blocks-buy-direct|BuyDirect with bid = ask and no max fee under fee rates buyer="+b+" seller="+s)
	}
	g.Begin(g.nextTime())
	g.Do(a.MsgGovSetFeeParams("0", "0"), expectNote(true, "C18", "fee-params(0,0)-rejected", "fee rates 0/0"))
	buy("0", "0")
	g.Do(a.MsgGovSetFeeParams("0.0", "1"), expectNote(true, "C18", "fee-params(0.0,1)-rejected", "fee rates 0.0/1"))
	buy("0.0", "1") // the seller receives nothing: checked by the C07 reference
	g.Do(a.MsgGovSetFeeParams("0", "1.000001"), expectNote(false, "C18", "seller-fee-rate-above-one-accepted", "a seller fee rate above 1 makes the seller payment negative"))
	buy("0.0", "1")
	g.Commit()
	return g.Finish()
}

// ---- epoch-and-equal-dates (C09) ----------------------------------------------------------------------

func corpusEpochAndEqualDates(c Cfg) *Result {
	g := NewG(c, chain.Options{GenesisTime: T0})
	a := g.App
	g.Begin(g.now.Add(6 * time.Second))
	cid := g.mkClass(0, []int{0}, "C")
	pid := g.mkProject(0, cid, "")
	epoch := g.mkBatch(0, pid, time.Unix(0, 0).UTC(), date(1971, 1, 1), true, nil, "start date 1970-01-01T00:00:00Z", g.iss(0, "500", ""))
	res := g.Do(a.MsgBasketCreate(2, "EPOCH", "d", "C", []string{cid}, true, chain.MinStartDate(date(1950, 1, 1)), g.basketFee(g.V())), "basket")
	bd := respField(res, "basket_denom")
	g.Do(a.MsgBasketPut(0, bd, chain.BasketCredit(epoch, "100")), expectNote(true, "C11", "epoch-start-date-put-rejected", "deposit of a batch starting at the unix epoch"))
	g.Commit()
	g.GenesisRT("epoch start date in a basket (must validate)")
	g.Begin(g.nextTime())
	day := date(2019, 7, 7)
	g.mkBatch(0, pid, day, day, true, nil, "start == end date", g.iss(0, "500", ""))
	g.Commit()
	g.GenesisRT("batch with start == end (known finding batch-dates-equal)")
	return g.Finish()
}

// ---- update-same-order-twice (C06) ----------------------------------------------------------------------

func corpusUpdateSameOrderTwice(c Cfg) *Result {
	g := NewG(c, chain.Options{GenesisTime: T0})
	a := g.App
	g.Begin(g.now.Add(6 * time.Second))
	_, _, denom := g.corpusWorld()
	upd := func(id uint64, q string, e *time.Time) *marketUpdate {
		return &marketUpdate{SellOrderId: id, NewQuantity: q, NewAskPrice: coin("stake", 1000), DisableAutoRetire: true, NewExpiration: e}
	}
	ok := func(text string) string { return expectNote(true, "C06", "update-same-order-twice-rejected", text) }
	g.Do(a.MsgSell(0, chain.SellOrder(denom, "10", coin("stake", 1000), true, nil)), "sell 10, no expiration")
	id1 := g.Rec.State().Sequences["SellOrder"]
	g.Do(a.MsgUpdateSellOrders(0, upd(id1, "4", nil), upd(id1, "6", nil)), ok("the same order twice in one message: 10 -> 4 -> 6 (escrow must end at 6)"))
	g.Do(a.MsgCancelSellOrder(0, id1), expectNote(true, "C06", "cancel-after-double-update-failed", "cancel: 6 credits return to tradable"))
	exp := g.now.Add(time.Hour)
	g.Do(a.MsgSell(0, chain.SellOrder(denom, "10", coin("stake", 1000), true, &exp)), "sell 10, expiring in one hour")
	id2 := g.Rec.State().Sequences["SellOrder"]
	g.Do(a.MsgUpdateSellOrders(0, upd(id2, "12", nil), upd(id2, "15", nil)), ok("the same order twice in one message: 10 -> 12 -> 15 (escrow must end at 15)"))
	g.Do(a.MsgSell(0, chain.SellOrder(denom, "20", coin("stake", 500), true, nil)), "a third order")
	id3 := g.Rec.State().Sequences["SellOrder"]
	later := g.now.Add(90 * time.Minute)
	g.Do(a.MsgUpdateSellOrders(0, upd(id3, "5", nil), upd(id2, "15.5", nil), upd(id3, "25", &later), upd(id3, "8", nil)),
		ok("interleaved: order A down, order B up, A up with expiration, A down (A ends at 8, B at 15.5)"))
	g.Commit()
	g.Begin(g.now.Add(2 * time.Hour)) // both orders with an expiration are pruned: 15.5 + 8 return to tradable
	g.Do(a.MsgSendCredits(0, 1, denom, "1", "", "", ""), "an ordinary send after the expiry")
	g.Commit()
	return g.Finish()
}

// ---- buy-across-markets (C03/C07) -----------------------------------------------------------------------

func corpusBuyAcrossMarkets(c Cfg) *Result {
	g := NewG(c, chain.Options{GenesisTime: T0})
	a := g.App
	g.Begin(g.now.Add(6 * time.Second))
	g.setupDenoms() // stake, uatom, uregen allowed
	g.gov(a.MsgGovSetFeeParams("0.01", "0.02"), "fee params")
	_, _, denom := g.corpusWorld()
	sell := func(seller int, q string, d string, ask int64) uint64 {
		g.Do(a.MsgSell(seller, chain.SellOrder(denom, q, coin(d, ask), true, nil)), fmt.Sprintf("user %d sells %s at %d%s", seller, q, ask, d))
		return g.Rec.State().Sequences["SellOrder"]
	}
	dust := sell(2, "0.000001", "uatom", 1)   // the accomplice's dust order in the cheap denom
	victim := sell(1, "10", "stake", 1000000) // the victim's order
	third := sell(0, "5", "uregen", 2000)     // a third market
	g.Commit()
	const buyer = 3
	bo := func(id uint64, q, d string, bid, fee int64) *marketBuy {
		return chain.BuyOrder(id, q, coin(d, bid), true, "", "", coin(d, fee))
	}
	okN := func(t string) string { return expectNote(true, "C07", "matching-bid-denom-rejected", t) }
	noN := func(t string) string { return expectNote(false, "C07", "bid-denom!=ask-denom", t) }
	g.Begin(g.nextTime())
	g.Do(a.MsgBuyDirect(buyer, bo(dust, "0.0000005", "uatom", 1, 1)), "a quantity below the precision is rejected")
	g.Do(a.MsgBuyDirect(buyer, bo(victim, "1", "stake", 1000000, 20000), bo(third, "1", "uregen", 2000, 100)), okN("two orders of different markets, each bid in its own ask denom"))
	g.Do(a.MsgBuyDirect(buyer, bo(third, "1", "uregen", 2000, 100), bo(victim, "1", "uregen", 1000000, 20000)), noN("the victim's stake order bid in the first order's denom uregen"))
	g.Do(a.MsgBuyDirect(buyer, bo(victim, "1", "stake", 1000000, 20000), bo(third, "1", "stake", 2000, 100)), noN("the uregen order bid in the first order's denom stake"))
	// the dust order comes first, then the victim's order is bid in the cheap denom
	dust2 := sell(2, "0.000002", "uatom", 1)
	g.Do(a.MsgBuyDirect(buyer, bo(dust2, "0.000001", "uatom", 1, 1), bo(victim, "5", "uatom", 1000000, 60000)), noN("a dust order at 1uatom first, then the victim's 1000000stake order bid in uatom"))
	g.Do(a.MsgBuyDirect(buyer, bo(dust2, "0.000001", "uatom", 1, 1), bo(third, "1", "uregen", 2000, 100), bo(victim, "1", "stake", 1000000, 20000)), okN("three orders of three markets, each bid in its own ask denom"))
	dust3 := sell(2, "0.000002", "uatom", 1)
	g.Do(a.MsgBuyDirect(buyer, bo(dust3, "0.000001", "uatom", 1, 1), bo(third, "1", "uatom", 2000, 100), bo(victim, "1", "uatom", 1000000, 20000)), noN("three orders, the second and third bid in the first order's denom uatom"))
	g.Do(a.MsgBuyDirect(buyer, bo(dust3, "0.000001", "uatom", 1, 1), bo(third, "1", "uregen", 2000, 100), bo(victim, "1", "uregen", 1000000, 20000)), noN("three orders, the third bid in the second order's denom"))
	// the SAME market twice: an honest first entry, then the same order (or a sibling of its market) bid in a cheap denom
	g.Do(a.MsgBuyDirect(buyer, bo(victim, "0.000001", "stake", 1000000, 20000), bo(victim, "5", "uatom", 1000000, 60000)), noN("the victim's order twice: a dust bid in stake, then 5 credits bid in uatom"))
	victim2 := sell(1, "3", "stake", 500000) // a second order in the victim's market
	g.Do(a.MsgBuyDirect(buyer, bo(victim, "0.000001", "stake", 1000000, 20000), bo(victim2, "3", "uregen", 500000, 20000)), noN("two orders of one market: the first bid in stake, the second in uregen"))
	g.Do(a.MsgBuyDirect(buyer, bo(victim, "0.000001", "stake", 1000000, 20000), bo(victim2, "1", "stake", 500000, 20000)), okN("two orders of one market, both bid in its denom"))
	g.Commit()
	return g.Finish()
}

// ---- put-beyond-34-digits (C05) -------------------------------------------------------------------------

func corpusPutBeyond34Digits(c Cfg) *Result {
	g := NewG(c, chain.Options{GenesisTime: T0})
	a := g.App
	g.Begin(g.now.Add(6 * time.Second))
	cid := g.mkClass(0, []int{0}, "C")
	pid := g.mkProject(0, cid, "")
	bA := g.mkBatch(0, pid, date(2015, 1, 1), date(2016, 1, 1), true, nil, "35 significant digits", g.iss(0, big35, ""))
	bB := g.mkBatch(0, pid, date(2016, 1, 1), date(2017, 1, 1), true, nil, "40 significant digits", g.iss(0, big40, ""))
	bC := g.mkBatch(0, pid, date(2017, 1, 1), date(2018, 1, 1), true, nil, "35 nines, and 34 nines twice", g.iss(1, nines35, ""), g.iss(0, magnitude, ""), g.iss(2, magnitude, ""))
	res := g.Do(a.MsgBasketCreate(3, "BIG", "magnitudes", "C", []string{cid}, true, nil, g.basketFee(g.V())), "basket without criteria")
	bd := respField(res, "basket_denom")
	g.Commit()
	no := func(t string) string {
		return expectNote(false, "C05", "put-minted!=units", t+": amount x 10^6 needs more than 34 significant digits, the tokens cannot be minted exactly")
	}
	ok := func(t string) string { return expectNote(true, "C11", "put-rejected-admissible", t) }
	g.Begin(g.nextTime())
	g.Do(a.MsgBasketPut(0, bd, chain.BasketCredit(bA, big35)), no("put of the whole 35-digit amount "+big35))
	g.Do(a.MsgBasketPut(0, bd, chain.BasketCredit(bB, big40)), no("put of the whole 40-digit amount "+big40))
	g.Do(a.MsgBasketPut(1, bd, chain.BasketCredit(bC, nines35)), no("put of "+nines35))
	g.Commit()
	g.Begin(g.nextTime())
	g.Do(a.MsgBasketPut(0, bd, chain.BasketCredit(bA, big35part)), ok("a 34-digit part of the 35-digit holding"))
	g.Do(a.MsgBasketPut(0, bd, chain.BasketCredit(bB, big40part)), ok("a 34-digit part of the 40-digit holding"))
	g.Do(a.MsgBasketPut(0, bd, chain.BasketCredit(bC, magnitude)), ok("9999999999999999999999999999.999999 (34 digits)"))
	g.Do(a.MsgBasketPut(2, bd, chain.BasketCredit(bC, magnitude)), ok("the same amount again: the basket total now needs more than 34 digits (known finding basket-invariant-34digit)"))
	g.Commit()
	g.Begin(g.nextTime())
	// takes that span the batches: all of the oldest batch plus 10^33 tokens of the next one
	v := g.V()
	first := firstBatchTokens(v, v.BasketByDenom[bd])
	if first != nil {
		span := new(big.Int).Add(first, new(big.Int).Exp(big.NewInt(10), big.NewInt(33), nil))
		g.Do(a.MsgBasketTake(0, bd, span.String(), false, "", ""), "take spanning two batches (34-digit token amount)")
	}
	g.Do(a.MsgBasketTake(2, bd, "5000000000000000000000000000000000", false, "", ""), "take spanning into the third batch")
	g.Do(a.MsgBasketTake(0, bd, "1", false, "", ""), "take 1 token")
	g.Commit()
	return g.Finish()
}

// ---- all-zero-balance-rows (C09) ---------------------------------------------------------------------
// States in which every balance row of a batch is zero (handlers keep "0" rows): the sole holder puts
// everything into a basket, sells/loses everything, cancels everything, retires everything. The
// exported genesis of each of them must validate and import back to the same state.

func corpusAllZeroBalanceRows(c Cfg) *Result {
	g := NewG(c, chain.Options{GenesisTime: T0})
	a := g.App
	g.Begin(g.now.Add(6 * time.Second))
	cid := g.mkClass(0, []int{0}, "C")
	pid := g.mkProject(0, cid, "")
	b1 := g.mkBatch(0, pid, date(2020, 1, 1), date(2021, 1, 1), true, nil, "100 credits, one holder", g.iss(0, "100", ""))
	b2 := g.mkBatch(0, pid, date(2020, 2, 1), date(2021, 2, 1), true, nil, "50 credits, one holder", g.iss(1, "50", ""))
	res := g.Do(a.MsgBasketCreate(2, "ZERO", "d", "C", []string{cid}, true, nil, g.basketFee(g.V())), "basket")
	bd := respField(res, "basket_denom")
	g.Do(a.MsgBasketPut(0, bd, chain.BasketCredit(b1, "40")), "partial put")
	g.Commit()
	g.GenesisRT("after a partial put")
	g.Begin(g.nextTime())
	g.Do(a.MsgBasketPut(0, bd, chain.BasketCredit(b1, "60")), "the sole holder puts the rest: every balance row of the batch is zero, the basket holds the supply")
	g.Commit()
	g.GenesisRT("batch held only by a basket")
	g.Begin(g.nextTime())
	g.Do(a.MsgCancel(1, "all", chain.Credits(b2, "50")), "the sole holder cancels everything: balance rows and tradable supply are zero")
	g.Commit()
	g.GenesisRT("batch with zero supply and zero balance rows")
	g.Begin(g.nextTime())
	g.Do(a.MsgBasketTake(0, bd, "100000000", false, "", ""), "take everything back (auto-retire on take is disabled)")
	g.Do(a.MsgRetire(0, "US-WA", "", chain.Credits(b1, "100")), "retire everything")
	g.Commit()
	g.GenesisRT("batch fully retired")
	return g.Finish()
}

// ---- mass-expiry-260-orders (C06/C12) -----------------------------------------------------------------
// Far more orders expire in one block than any plausible per-block processing limit: every one of them must
// be removed AND refunded.

func corpusMassExpiry(c Cfg) *Result {
	g := NewG(c, chain.Options{GenesisTime: T0})
	a := g.App
	g.Begin(g.now.Add(6 * time.Second))
	_, _, denom := g.corpusWorld()
	exp := g.now.Add(time.Hour)
	g.Do(a.MsgSell(0, chain.SellOrder(denom, "5", coin("stake", 10), true, nil)), "an order without expiration")
	for i := 0; i < 13; i++ {
		var orders []*market.MsgSell_Order
		for j := 0; j < 20; j++ {
			orders = append(orders, chain.SellOrder(denom, "0.25", coin("stake", int64(1+j)), true, &exp))
		}
		g.Do(a.MsgSell(i%3, orders...), fmt.Sprintf("20 orders of 0.25 expiring together (batch %d of 13)", i+1))
	}
	g.Commit()
	g.Begin(g.now.Add(2 * time.Hour))
	g.Do(a.MsgSell(1, chain.SellOrder(denom, "1", coin("stake", 7), true, nil)), "a sell after the mass expiry")
	g.Commit()
	g.Begin(g.nextTime())
	g.Commit()
	return g.Finish()
}

// ---- update-own-own-foreign (C03/C08) -----------------------------------------------------------------
// One UpdateSellOrders whose list is [own order, the same order again, another seller's order]: the last
// entry must make the whole message fail whatever precedes it.

func corpusUpdateOwnOwnForeign(c Cfg) *Result {
	g := NewG(c, chain.Options{GenesisTime: T0})
	a := g.App
	g.Begin(g.now.Add(6 * time.Second))
	_, _, denom := g.corpusWorld()
	g.Do(a.MsgSell(1, chain.SellOrder(denom, "10", coin("stake", 100), true, nil)), "bob's order")
	bob := g.Rec.State().Sequences["SellOrder"]
	g.Do(a.MsgSell(2, chain.SellOrder(denom, "10", coin("stake", 100), true, nil)), "alice's order")
	alice := g.Rec.State().Sequences["SellOrder"]
	g.Commit()
	upd := func(id uint64, q string, ask int64) *market.MsgUpdateSellOrders_Update {
		return &market.MsgUpdateSellOrders_Update{SellOrderId: id, NewQuantity: q, NewAskPrice: coin("stake", ask), DisableAutoRetire: true}
	}
	g.Begin(g.nextTime())
	for _, l := range [][]*market.MsgUpdateSellOrders_Update{
		{upd(bob, "11", 100), upd(bob, "12", 100), upd(alice, "100", 1)},
		{upd(bob, "11", 100), upd(alice, "1", 1), upd(bob, "12", 100)},
		{upd(bob, "11", 100), upd(bob, "11", 100), upd(bob, "11", 100), upd(alice, "10", 1)},
		{upd(alice, "1", 1)},
	} {
		g.Do(a.MsgUpdateSellOrders(1, l...), expectNote(false, "C03", "foreign-order-updated", fmt.Sprintf("bob updates %d orders, one of them alice's", len(l))))
	}
	g.Do(a.MsgUpdateSellOrders(1, upd(bob, "11", 100), upd(bob, "12", 101)), expectNote(true, "C06", "own-order-updated-twice-rejected", "bob updates his own order twice"))
	g.Commit()
	return g.Finish()
}

// ---- buy-removed-order-again (C07/C06) -----------------------------------------------------------------
// The seller has two equal orders for one batch; a buyer names the first one twice for its full quantity.
// The second entry names an order that no longer exists: the message fails and nothing moves.

func corpusBuyRemovedOrderAgain(c Cfg) *Result {
	g := NewG(c, chain.Options{GenesisTime: T0})
	a := g.App
	g.Begin(g.now.Add(6 * time.Second))
	_, _, denom := g.corpusWorld()
	g.Do(a.MsgSell(1, chain.SellOrder(denom, "10", coin("stake", 100), true, nil), chain.SellOrder(denom, "10", coin("stake", 100), true, nil)), "two equal orders of one seller")
	second := g.Rec.State().Sequences["SellOrder"]
	first := second - 1
	g.Commit()
	g.Begin(g.nextTime())
	bo := func(id uint64, q string) *market.MsgBuyDirect_Order {
		return chain.BuyOrder(id, q, coin("stake", 100), true, "", "", coin("stake", 1000))
	}
	g.Do(a.MsgBuyDirect(3, bo(first, "10"), bo(first, "10")), expectNote(false, "C07", "removed-order-bought-again", "order bought in full twice in one message"))
	g.Do(a.MsgBuyDirect(3, bo(first, "4"), bo(first, "6"), bo(first, "6")), expectNote(false, "C07", "removed-order-bought-again", "4 + 6 exhaust the order, then 6 again"))
	g.Do(a.MsgBuyDirect(3, bo(first, "10"), bo(second, "10")), expectNote(true, "C07", "two-orders-one-message-rejected", "both orders bought in full in one message"))
	g.Commit()
	return g.Finish()
}

// ---- origin-id-whitespace-replay (C13) ------------------------------------------------------------------
// Origin tx ids are compared exactly: an id with a trailing space is one id through every entry point.

func corpusOriginWhitespaceReplay(c Cfg) *Result {
	g := NewG(c, chain.Options{GenesisTime: T0})
	a := g.App
	g.Begin(g.now.Add(6 * time.Second))
	cid := g.mkClass(0, []int{0}, "C")
	pid := g.mkProject(0, cid, "")
	for i, id := range []string{"0xabc ", "0xAbC", "tx 7", "a-b_c  "} {
		o := &base.OriginTx{Id: id, Source: "polygon", Note: "corpus"}
		denom := g.mkBatch(0, pid, date(2020, time.Month(1+i), 1), date(2021, 1, 1), true, o, fmt.Sprintf("create with origin id %q", id), g.iss(1, "10", ""))
		g.Do(a.MsgMintBatchCredits(0, denom, []*base.BatchIssuance{g.iss(1, "10", "")}, &base.OriginTx{Id: id, Source: "Polygon", Note: "replay"}),
			expectNote(false, "C13", "origin-tx-issued-twice", fmt.Sprintf("replay of origin id %q through MintBatchCredits", id)))
		g.Do(a.MsgMintBatchCredits(0, denom, []*base.BatchIssuance{g.iss(1, "1", "")}, &base.OriginTx{Id: fmt.Sprintf("%sx%d", strings.TrimSpace(id), i), Source: "polygon"}),
			expectNote(true, "C13", "fresh-origin-tx-rejected", "a different id"))
	}
	g.Commit()
	return g.Finish()
}

// ---- take-amount-base-prefix (C05, fixed finding) ---------------------------------------------------
// MsgTake.amount is read as an sdk.Int, which accepts math/big's base-0 spellings: "0777" is 511 tokens, "0x10" is
// 16, "1_000" is 1000.  The credits released must be the tokens burned (the handler used to re-read the string as
// a decimal: 777 micro-credits for 511 tokens).

func corpusTakeBasePrefix(c Cfg) *Result {
	g := NewG(c, chain.Options{GenesisTime: T0})
	a := g.App
	g.Begin(g.now.Add(6 * time.Second))
	cid, _, denom := g.corpusWorld()
	res := g.Do(a.MsgBasketCreate(2, "OCT", "basket", "C", []string{cid}, true, nil, g.basketFee(g.V())), "basket OCT")
	bd := respField(res, "basket_denom")
	g.Do(a.MsgBasketPut(0, bd, chain.BasketCredit(denom, "100")), "user 0 deposits 100 credits")
	g.Commit()
	g.Begin(g.nextTime())
	for _, amt := range []string{"0777", "0x10", "0b101", "0o17", "1_000", "+010", "0_7", "010"} {
		g.Do(a.MsgBasketTake(0, bd, amt, false, "", ""), expectNote(true, "C05", "take-base-prefix-rejected", "take of "+amt+" tokens (base-0 spelling): burned tokens must equal released credits"))
	}
	for _, amt := range []string{"08", "0x", "1__0", "_1", "1_", "0b2", "-010", "0_"} {
		g.Do(a.MsgBasketTake(0, bd, amt, false, "", ""), "take of the malformed integer "+amt)
	}
	g.Do(a.MsgBurnRegen(0, "0x10", "burn"), "burn 0x10 = 16 uregen")
	g.Do(a.MsgBurnRegen(0, "010", "burn"), "burn 010 = 8 uregen")
	g.Commit()
	g.GenesisRT("after takes in base-0 spellings")
	return g.Finish()
}

// ---- criteria-timestamp-range (C09) ---------------------------------------------------------------------
// Basket date criteria carry a raw protobuf Timestamp / Duration; message validation bounds only the seconds from
// below.  Values outside the protobuf JSON range (year > 9999, nanos outside [0, 1e9), nanos with the sign opposite
// to the seconds of a duration) must not make the chain's own genesis export fail.

func corpusCriteriaTimestampRange(c Cfg) *Result {
	g := NewG(c, chain.Options{GenesisTime: T0})
	a := g.App
	g.Begin(g.now.Add(6 * time.Second))
	cid, _, denom := g.corpusWorld()
	n := 0
	mk := func(ok bool, dc *basket.DateCriteria, what string) string {
		n++
		res := g.Do(a.MsgBasketCreate(2, fmt.Sprintf("RNG%d", n), "d", "C", []string{cid}, true, dc, g.basketFee(g.V())),
			expectNote(ok, "C09", "criteria-outside-protobuf-range-accepted", "basket with "+what))
		g.Commit()
		g.GenesisRT("after a basket with " + what)
		g.Begin(g.nextTime())
		return respField(res, "basket_denom")
	}
	mk(false, &basket.DateCriteria{MinStartDate: &gogotypes.Timestamp{Seconds: 1500000000, Nanos: -1}}, "min_start_date nanos = -1")
	mk(false, &basket.DateCriteria{MinStartDate: &gogotypes.Timestamp{Seconds: 1500000000, Nanos: 1000000000}}, "min_start_date nanos = 1e9")
	mk(false, &basket.DateCriteria{MinStartDate: &gogotypes.Timestamp{Seconds: 253402300800}}, "min_start_date in the year 10000")
	mk(false, &basket.DateCriteria{StartDateWindow: &gogotypes.Duration{Seconds: 86400, Nanos: -1}}, "window 1 day, nanos = -1")
	mk(false, &basket.DateCriteria{StartDateWindow: &gogotypes.Duration{Seconds: 86400, Nanos: 1000000000}}, "window 1 day, nanos = 1e9")
	mk(false, &basket.DateCriteria{StartDateWindow: &gogotypes.Duration{Seconds: 315576000001}}, "window above 10000 years")
	b1 := mk(true, &basket.DateCriteria{MinStartDate: &gogotypes.Timestamp{Seconds: 253402300799, Nanos: 999999999}}, "the last valid min_start_date")
	b2 := mk(true, &basket.DateCriteria{StartDateWindow: &gogotypes.Duration{Seconds: 315576000000, Nanos: 999999999}}, "the longest valid window")
	b3 := mk(true, &basket.DateCriteria{MinStartDate: &gogotypes.Timestamp{Seconds: -2208992400, Nanos: 0}}, "the earliest valid min_start_date")
	b4 := mk(true, &basket.DateCriteria{YearsInThePast: 4294967295}, "years_in_the_past = 2^32-1")
	g.Do(a.MsgBasketUpdateDateCriteria(b3, &basket.DateCriteria{MinStartDate: &gogotypes.Timestamp{Seconds: 0, Nanos: -5}}),
		expectNote(false, "C09", "criteria-outside-protobuf-range-accepted", "gov update to min_start_date nanos = -5"))
	g.Do(a.MsgBasketPut(0, b1, chain.BasketCredit(denom, "1")), "put into the basket requiring year 9999 (rejected: too old)")
	g.Do(a.MsgBasketPut(0, b2, chain.BasketCredit(denom, "1")), "put into the basket with a 10000-year window")
	g.Do(a.MsgBasketPut(0, b3, chain.BasketCredit(denom, "1")), "put into the basket requiring 1900")
	g.Do(a.MsgBasketPut(0, b4, chain.BasketCredit(denom, "1")), "put into the basket accepting 4294967295 years back")
	g.Commit()
	g.GenesisRT("after puts")
	return g.Finish()
}

// ---- utf8-length-limits (C09) ---------------------------------------------------------------------------
// Every length limit of a stored string is a limit in BYTES in the state validators.  Multi-byte text whose
// character count is within the limit while its byte count is not must be rejected by every message that stores
// it (otherwise the exported genesis fails the module's own validation); multi-byte text within the byte limit
// must be accepted and survive the round trip.

func corpusUTF8LengthLimits(c Cfg) *Result {
	g := NewG(c, chain.Options{GenesisTime: T0})
	a := g.App
	const wide = "森"                                                          // 3 bytes
	over := func(limit int) string { return strings.Repeat(wide, limit/3+1) } // chars <= limit < bytes
	at := func(limit int) string { return strings.Repeat(wide, limit/3) + strings.Repeat("x", limit%3) }
	bad := func(what string) string {
		return expectNote(false, "C09", "over-byte-limit-accepted", what+" longer than its byte limit but within it counted in characters")
	}
	good := func(what string) string {
		return expectNote(true, "C09", "within-byte-limit-rejected", what+" of multi-byte text exactly at its byte limit")
	}
	g.Begin(g.now.Add(6 * time.Second))
	g.Do(a.MsgAddAllowedBridgeChain("polygon"), "gov: allow polygon")
	cid, pid, denom := g.corpusWorld()
	start, end := date(2022, 1, 1), date(2023, 1, 1)
	otx := func() *base.OriginTx { return &base.OriginTx{Id: g.txHash(), Source: "polygon", Contract: ethAddr(7)} }
	g.Do(a.MsgCreateClass(0, []int{0}, over(256), "C", g.classFeeCoin()), bad("class metadata"))
	g.Do(a.MsgCreateClass(0, []int{0}, at(256), "C", g.classFeeCoin()), good("class metadata"))
	g.Do(a.MsgCreateProject(0, cid, over(256), "US", "", nil), bad("project metadata"))
	g.Do(a.MsgCreateProject(0, cid, "md", "US", over(32), nil), bad("project reference id"))
	g.Do(a.MsgCreateProject(0, cid, at(256), "US", at(32), nil), good("project metadata and reference id"))
	g.Do(a.MsgCreateBatch(0, pid, "", []*base.BatchIssuance{g.iss(1, "1", "")}, over(256), start, end, true, nil), bad("batch metadata"))
	g.Do(a.MsgCreateBatch(0, pid, "", []*base.BatchIssuance{g.iss(1, "1", "")}, at(256), start, end, true, nil), good("batch metadata"))
	g.Do(a.MsgBridgeReceive(0, cid, &base.MsgBridgeReceive_Project{ReferenceId: "BR-1", Jurisdiction: "KE", Metadata: over(256)}, 1, "5", start, end, "md", otx()), bad("bridged project metadata"))
	g.Do(a.MsgBridgeReceive(0, cid, &base.MsgBridgeReceive_Project{ReferenceId: over(32), Jurisdiction: "KE", Metadata: "md"}, 1, "5", start, end, "md", otx()), bad("bridged project reference id"))
	g.Do(a.MsgBridgeReceive(0, cid, &base.MsgBridgeReceive_Project{ReferenceId: "BR-1", Jurisdiction: "KE", Metadata: "md"}, 1, "5", start, end, over(256), otx()), bad("bridged batch metadata"))
	g.Do(a.MsgBridgeReceive(0, cid, &base.MsgBridgeReceive_Project{ReferenceId: at(32), Jurisdiction: "KE", Metadata: at(256)}, 1, "5", start, end, at(256), otx()), good("bridged project and batch strings"))
	g.Do(a.MsgUpdateClassMetadata(0, cid, over(256)), bad("new class metadata"))
	g.Do(a.MsgUpdateClassMetadata(0, cid, at(256)), good("new class metadata"))
	g.Do(a.MsgUpdateProjectMetadata(0, pid, over(256)), bad("new project metadata"))
	g.Do(a.MsgUpdateProjectMetadata(0, pid, at(256)), good("new project metadata"))
	g.Do(a.MsgUpdateBatchMetadata(0, denom, over(256)), bad("new batch metadata"))
	g.Do(a.MsgUpdateBatchMetadata(0, denom, at(256)), good("new batch metadata"))
	g.Do(a.MsgBasketCreate(2, "UTF", over(256), "C", []string{cid}, true, nil, g.basketFee(g.V())), bad("basket description"))
	g.Do(a.MsgBasketCreate(2, "UTF", at(256), "C", []string{cid}, true, nil, g.basketFee(g.V())), good("basket description"))
	g.Commit()
	g.GenesisRT("after multi-byte strings at the byte limits")
	return g.Finish()
}

// ---- address-spellings (C01 / C03 / C08) ----------------------------------------------------------------
// A bech32 address is valid in lower case and in upper case.  ValidateBasic of Send / UpdateClassAdmin /
// UpdateProjectAdmin / UpdateCurator compares the two address STRINGS, so "recipient = the sender's own address in
// upper case" reaches the handler as a self-send: it must neither create nor destroy credits.  Governance handlers
// that compare the authority as a string must reject the upper-case spelling; the two that compare bytes accept it.

func corpusAddressSpellings(c Cfg) *Result {
	g := NewG(c, chain.Options{GenesisTime: T0})
	a := g.App
	up := strings.ToUpper
	g.Begin(g.now.Add(6 * time.Second))
	cid, pid, denom := g.corpusWorld()
	res := g.Do(a.MsgBasketCreate(2, "SPL", "basket", "C", []string{cid}, true, nil, g.basketFee(g.V())), "basket SPL")
	bd := respField(res, "basket_denom")
	g.Do(a.MsgSendCredits(0, 1, denom, "5", "", "", ""), "an ordinary send")
	self := a.MsgSendCredits(0, 0, denom, "10", "", "", "")
	self.Recipient = up(self.Sender)
	g.Do(self, "tradable self-send, recipient = the sender's own address in UPPER CASE (must not change any total)")
	self2 := a.MsgSendCredits(0, 0, denom, "3", "2", "US-WA", "self")
	self2.Recipient = up(self2.Sender)
	g.Do(self2, "tradable + retired self-send in two spellings (acts as a retirement of 2)")
	other := a.MsgSendCredits(0, 1, denom, "1", "", "", "")
	other.Recipient = up(other.Recipient)
	g.Do(other, expectNote(true, "C03", "send-to-upper-case-recipient-rejected", "send to another account spelled in upper case"))
	ca := a.MsgUpdateClassAdmin(0, cid, 0)
	ca.NewAdmin = up(ca.Admin)
	g.Do(ca, "class admin 'transferred' to the admin's own address in upper case (no-op)")
	pa := a.MsgUpdateProjectAdmin(0, pid, 0)
	pa.NewAdmin = up(pa.Admin)
	g.Do(pa, "project admin 'transferred' to the admin's own address in upper case (no-op)")
	cu := a.MsgBasketUpdateCurator(2, bd, 2)
	cu.NewCurator = up(cu.Curator)
	g.Do(cu, "curator 'changed' to the curator's own address in upper case (no-op)")
	g.Do(a.MsgUpdateClassAdmin(0, cid, 0), "same with identical strings: rejected by ValidateBasic")
	g.Commit()
	g.Begin(g.nextTime())
	al := a.MsgSetClassCreatorAllowlist(true)
	al.Authority = up(al.Authority)
	g.Do(al, expectNote(false, "C08", "upper-case-authority-accepted", "allowlist toggle with the authority in upper case (string comparison)"))
	ad := a.MsgAddAllowedDenom("uatom", "ATOM", 6)
	ad.Authority = up(ad.Authority)
	g.Do(ad, expectNote(false, "C08", "upper-case-authority-accepted", "allowed denom with the authority in upper case (string comparison)"))
	bf := a.MsgUpdateBasketFee(nil)
	bf.Authority = up(bf.Authority)
	g.Do(bf, expectNote(false, "C08", "upper-case-authority-accepted", "basket fee with the authority in upper case (string comparison)"))
	fp := a.MsgGovSetFeeParams("0.01", "0.01")
	fp.Authority = up(fp.Authority)
	g.Do(fp, "fee params with the authority in upper case (the handler compares decoded bytes)")
	g.Do(a.MsgSendCredits(0, 1, denom, "1", "", "", ""), "an ordinary send afterwards")
	g.Commit()
	g.GenesisRT("after spelled messages")
	return g.Finish()
}

// ---- bridge-mixed-batches (C13) -----------------------------------------------------------------------------
// One MsgBridge naming several batches: every named batch needs ITS OWN bound contract, wherever it stands in the
// list, and each emitted bridge event carries the contract of the batch it speaks about.  The batch keys are chosen
// so that a batch key coincides with the project key of another named batch (batch 1 and batch 2 of project 1).

func corpusBridgeMixedBatches(c Cfg) *Result {
	g := NewG(c, chain.Options{GenesisTime: T0})
	a := g.App
	g.Begin(g.now.Add(6 * time.Second))
	g.Do(a.MsgAddAllowedBridgeChain("polygon"), "gov: allow polygon")
	cid := g.mkClass(0, []int{0}, "C")
	pid := g.mkProject(0, cid, "REF")
	native := g.mkBatch(0, pid, date(2020, 1, 1), date(2021, 1, 1), true, nil, "batch 1: issued natively, no contract", g.iss(1, "100", ""))
	boundA := g.mkBatch(0, pid, date(2020, 2, 1), date(2021, 2, 1), true, &base.OriginTx{Id: g.txHash(), Source: "polygon", Contract: ethAddr(1)}, "batch 2: bound to contract 1", g.iss(1, "100", ""))
	boundB := g.mkBatch(0, pid, date(2020, 3, 1), date(2021, 3, 1), true, &base.OriginTx{Id: g.txHash(), Source: "polygon", Contract: ethAddr(2)}, "batch 3: bound to contract 2", g.iss(1, "100", ""))
	g.Commit()
	g.Begin(g.nextTime())
	no := func(t string) string { return expectNote(false, "C13", "bridge-without-contract", t) }
	ok := func(t string) string { return expectNote(true, "C13", "bridge-with-contract-rejected", t) }
	g.Do(a.MsgBridge(1, "polygon", ethAddr(9), chain.Credits(boundA, "1"), chain.Credits(native, "1")), no("bound batch 2 first, then the native batch 1 (whose key is batch 2's project key)"))
	g.Do(a.MsgBridge(1, "polygon", ethAddr(9), chain.Credits(native, "1"), chain.Credits(boundA, "1")), no("native batch first, then a bound one"))
	g.Do(a.MsgBridge(1, "polygon", ethAddr(9), chain.Credits(boundB, "1"), chain.Credits(boundA, "1"), chain.Credits(native, "1")), no("two bound batches, then the native one"))
	g.Do(a.MsgBridge(1, "polygon", ethAddr(9), chain.Credits(boundA, "2"), chain.Credits(boundB, "3")), ok("two bound batches: each event must carry its own batch's contract"))
	g.Do(a.MsgBridge(1, "polygon", ethAddr(9), chain.Credits(boundB, "1"), chain.Credits(boundA, "1"), chain.Credits(boundB, "1")), ok("three entries over two bound batches"))
	g.Do(a.MsgBridge(1, "polygon", ethAddr(9), chain.Credits(native, "1")), no("the native batch alone"))
	g.Commit()
	return g.Finish()
}

// ---- take-across-25-batches (C11 / C05) -------------------------------------------------------------------------
// A basket holding far more batches than any plausible page of an index scan; Takes that span more than 10 and
// more than 20 of them must still release strictly oldest-first, draining each batch before touching the next.

func corpusTakeAcrossManyBatches(c Cfg) *Result {
	g := NewG(c, chain.Options{GenesisTime: T0})
	a := g.App
	g.Begin(g.now.Add(6 * time.Second))
	cid := g.mkClass(0, []int{0}, "C")
	pid := g.mkProject(0, cid, "REF")
	res := g.Do(a.MsgBasketCreate(2, "MANY", "basket", "C", []string{cid}, true, nil, g.basketFee(g.V())), "basket MANY (auto-retire disabled)")
	bd := respField(res, "basket_denom")
	const n = 25
	denoms := make([]string, n)
	for i := n - 1; i >= 0; i-- { // created and deposited newest first
		denoms[i] = g.mkBatch(0, pid, date(1995+i, 1, 1), date(1996+i, 1, 1), true, nil, fmt.Sprintf("vintage %d", 1995+i), g.iss(0, "1", ""))
		if i%8 == 0 {
			g.Commit()
			g.Begin(g.nextTime())
		}
	}
	for i := n - 1; i >= 0; i-- {
		g.Do(a.MsgBasketPut(0, bd, chain.BasketCredit(denoms[i], "1")), fmt.Sprintf("deposit vintage %d", 1995+i))
	}
	g.Commit()
	g.Begin(g.nextTime())
	g.Do(a.MsgBasketTake(0, bd, "11500000", false, "", ""), "take 11.5 credits: the 11 oldest vintages entirely and half of the 12th")
	g.Do(a.MsgBasketTake(0, bd, "10500000", false, "", ""), "take 10.5 credits: the rest of the 12th and the next ten")
	g.Do(a.MsgBasketTake(0, bd, "3000000", false, "", ""), "take the last three")
	g.Do(a.MsgBasketTake(0, bd, "1", false, "", ""), "take from the empty basket")
	g.Commit()
	return g.Finish()
}

// ---- update-order-in-removed-denom (C06) -------------------------------------------------------------------
// An order's ask denom must be on the allow list whenever the order is (re)priced: also when the update keeps the
// order's current denom and governance has removed that denom in the meantime.

func corpusUpdateInRemovedDenom(c Cfg) *Result {
	g := NewG(c, chain.Options{GenesisTime: T0})
	a := g.App
	g.Begin(g.now.Add(6 * time.Second))
	g.setupDenoms()
	_, _, denom := g.corpusWorld()
	g.Do(a.MsgSell(1, chain.SellOrder(denom, "10", coin("uatom", 5), true, nil)), "user 1 sells 10 at 5uatom")
	id := g.Rec.State().Sequences["SellOrder"]
	g.Commit()
	g.Begin(g.nextTime())
	upd := func(q string, d string, ask int64) *market.MsgUpdateSellOrders_Update {
		return &market.MsgUpdateSellOrders_Update{SellOrderId: id, NewQuantity: q, NewAskPrice: coin(d, ask), DisableAutoRetire: true}
	}
	g.Do(a.MsgUpdateSellOrders(1, upd("10", "uatom", 6)), expectNote(true, "C06", "update-in-allowed-denom-rejected", "re-pricing in uatom while uatom is allowed"))
	g.Do(a.MsgRemoveAllowedDenom("uatom"), "gov: uatom is no longer allowed (the order stays open)")
	g.Do(a.MsgUpdateSellOrders(1, upd("10", "uatom", 7)), expectNote(false, "C06", "order-updated-to-disallowed-denom", "re-pricing in the order's own denom uatom after its removal"))
	g.Do(a.MsgUpdateSellOrders(1, upd("9", "uatom", 6)), expectNote(false, "C06", "order-updated-to-disallowed-denom", "changing the quantity with an (unchanged) price in the removed denom"))
	g.Do(a.MsgUpdateSellOrders(1, upd("10", "uregen", 7)), expectNote(true, "C06", "update-in-allowed-denom-rejected", "moving the order to the allowed denom uregen"))
	g.Do(a.MsgUpdateSellOrders(1, upd("10", "uatom", 7)), expectNote(false, "C06", "order-updated-to-disallowed-denom", "moving it back to the removed denom"))
	g.Do(a.MsgAddAllowedDenom("uatom", "atom", 6), "gov: uatom allowed again")
	g.Do(a.MsgUpdateSellOrders(1, upd("10", "uatom", 7)), expectNote(true, "C06", "update-in-allowed-denom-rejected", "and now it may be priced in uatom again"))
	g.Commit()
	return g.Finish()
}

// ---- market-in-basket-denom (C05) -----------------------------------------------------------------------------
// A basket token is an ordinary bank denom: governance may allow it in the marketplace, and fees may be charged in it.
// Trading in it must never change the basket token's supply (only Put mints and only Take burns).

func corpusMarketInBasketDenom(c Cfg) *Result {
	g := NewG(c, chain.Options{GenesisTime: T0})
	a := g.App
	g.Begin(g.now.Add(6 * time.Second))
	cid, _, denom := g.corpusWorld()
	res := g.Do(a.MsgBasketCreate(2, "NCT", "basket", "C", []string{cid}, true, nil, g.basketFee(g.V())), "basket NCT")
	bd := respField(res, "basket_denom")
	g.Do(a.MsgBasketPut(3, bd, chain.BasketCredit(denom, "50")), "user 3 deposits 50 credits and holds 50000000 basket tokens")
	g.Do(a.MsgAddAllowedDenom(bd, "NCT", 6), "gov: the basket denom may be used as ask denom")
	g.Do(a.MsgGovSetFeeParams("0.02", "0.01"), "gov: buyer fee 2 %, seller fee 1 %")
	g.Do(a.MsgSell(1, chain.SellOrder(denom, "10", coin(bd, 100000), true, nil)), "user 1 sells 10 credits at 100000 basket tokens each")
	id := g.Rec.State().Sequences["SellOrder"]
	g.Commit()
	g.Begin(g.nextTime())
	g.Do(a.MsgBuyDirect(3, chain.BuyOrder(id, "5", coin(bd, 100000), true, "", "", coin(bd, 1000000))), expectNote(true, "C05", "buy-in-basket-denom-rejected", "user 3 buys 5 credits paying in basket tokens: the fee stays in the fee pool, the token supply must not change"))
	g.Do(a.MsgBasketTake(3, bd, "1000000", false, "", ""), "a take afterwards")
	g.Commit()
	g.GenesisRT("after a trade in basket tokens")
	return g.Finish()
}

// ---- credit-type-abbreviation-prefixes (C14) ---------------------------------------------------------------------
// Credit type abbreviations that are prefixes of one another (C / CA / CAR): the class sequences are per credit
// type, whatever the order in which their first classes are created.

func corpusCreditTypePrefixes(c Cfg) *Result {
	g := NewG(c, chain.Options{GenesisTime: T0})
	a := g.App
	g.Begin(g.now.Add(6 * time.Second))
	g.Do(a.MsgAddCreditType(&base.CreditType{Abbreviation: "CA", Name: "carbon avoided", Unit: "t", Precision: 6}), "gov: credit type CA (C exists)")
	g.Do(a.MsgAddCreditType(&base.CreditType{Abbreviation: "CAR", Name: "carbon removed", Unit: "t", Precision: 6}), "gov: credit type CAR")
	mk := func(ct, want string) {
		res := g.Do(a.MsgCreateClass(0, []int{0}, "md", ct, g.classFeeCoin()), "class of type "+ct+" (expected id "+want+")")
		if got := respField(res, "class_id"); got != want {
			g.Do(a.MsgSealBatch(0, "expected-"+want+"-got-"+got), expectNote(true, "C14", "non-consecutive-class-id", "the class of type "+ct+" was numbered "+got+" instead of "+want))
		}
	}
	mk("CAR", "CAR01")
	mk("CA", "CA01")
	mk("CA", "CA02")
	mk("CAR", "CAR02")
	mk("C", "C01") // the first class of the shortest abbreviation comes last
	mk("C", "C02")
	mk("CA", "CA03")
	g.Commit()
	g.GenesisRT("classes of three prefix-related credit types")
	return g.Finish()
}

// ---- genesis-with-omitted-zero-amounts (C04 / C09) -------------------------------------------------------------
// A hand-written genesis may omit the zero amount fields of balance and supply rows ("" means 0 and passes
// ValidateGenesis; the repository's own test fixtures look like that).  Every handler that touches such a row must
// treat the omitted fields as zero and must not disturb the fields that are present -- in particular the retired ones.

func corpusOmittedZeroAmounts(c Cfg) *Result {
	// stage: class, project, open batch bound to a contract; users 0..2 hold tradable and retired credits; a basket
	staged := stage(nil, T0, func(a *chain.App) {
		stageDo(a, "corpus", "allow polygon", a.MsgAddAllowedBridgeChain("polygon"))
		stageDo(a, "corpus", "class", a.MsgCreateClass(0, []int{0}, "md", "C", coin("stake", 20000000)))
		stageDo(a, "corpus", "project", a.MsgCreateProject(0, "C01", "md", "US", "REF", nil))
		stageDo(a, "corpus", "batch", a.MsgCreateBatch(0, "C01-001", "", []*base.BatchIssuance{
			a.Issuance(0, "100", "10", "US"), a.Issuance(1, "100", "7", "US"), a.Issuance(2, "50", "", "")},
			"md", date(2020, 1, 1), date(2021, 1, 1), true, &base.OriginTx{Id: "0xstaged", Source: "polygon", Contract: ethAddr(5)}))
		stageDo(a, "corpus", "basket", a.MsgBasketCreate(2, "OMT", "d", "C", []string{"C01"}, false, nil, sdk.NewCoins(sdk.NewInt64Coin("stake", 20000000))))
		stageDo(a, "corpus", "put", a.MsgBasketPut(1, "eco.uC.OMT", chain.BasketCredit("C01-001-20200101-20210101-001", "20")))
	})
	// omit every amount field that is "0" in the balance and supply rows
	strip := func(gen map[string]json.RawMessage) {
		for _, table := range []string{"regen.ecocredit.v1.BatchBalance", "regen.ecocredit.v1.BatchSupply"} {
			rows, _ := ecoTable(gen, table).([]interface{})
			for _, r := range rows {
				m, _ := r.(map[string]interface{})
				for k, v := range m {
					if s, ok := v.(string); ok && s == "0" && strings.HasSuffix(k, "_amount") {
						delete(m, k)
					}
				}
			}
			patchEco(gen, table, rows)
		}
	}
	strip(staged)
	g := NewG(c, chain.Options{GenesisTime: T0.Add(time.Hour), Genesis: staged})
	a := g.App
	if len(a.ValidateGenesis(a.GenesisJSON())) == 0 {
		g.bump("genesis-accepted:omitted-zero-amounts")
	}
	const denom = "C01-001-20200101-20210101-001"
	g.Begin(g.now.Add(6 * time.Second))
	g.Do(a.MsgMintBatchCredits(0, denom, []*base.BatchIssuance{g.iss(0, "5", "")}, &base.OriginTx{Id: g.txHash(), Source: "polygon"}), "mint tradable credits to user 0, who holds 10 retired and has no escrowed field")
	g.Do(a.MsgMintBatchCredits(0, denom, []*base.BatchIssuance{g.iss(1, "1", "1")}, &base.OriginTx{Id: g.txHash(), Source: "polygon"}), "mint tradable and retired credits to user 1 (7 retired)")
	g.Do(a.MsgBridgeReceive(0, "C01", &base.MsgBridgeReceive_Project{ReferenceId: "REF", Jurisdiction: "US", Metadata: "md"}, 0, "2", date(2020, 1, 1), date(2021, 1, 1), "md",
		&base.OriginTx{Id: g.txHash(), Source: "polygon", Contract: ethAddr(5)}), "bridge receive into the same batch for user 0")
	g.Do(a.MsgBasketTake(1, "eco.uC.OMT", "3000000", true, "US", "take"), "user 1 takes 3 credits with retire-on-take (7 retired before)")
	g.Do(a.MsgSendCredits(2, 0, denom, "1", "1", "US", "gift"), "user 2 (no retired field) sends tradable and retired credits to user 0")
	g.Do(a.MsgRetire(2, "US", "r", chain.Credits(denom, "1")), "user 2 retires 1")
	g.Do(a.MsgCancel(2, "c", chain.Credits(denom, "1")), "user 2 cancels 1 (the supply row has no cancelled field)")
	g.Do(a.MsgSell(0, chain.SellOrder(denom, "4", coin("stake", 10), true, nil)), "user 0 sells 4 (no escrowed field before)")
	g.Commit()
	g.GenesisRT("after handlers touched rows with omitted zero fields")
	return g.Finish()
}

// ---- markets-of-every-exponent (C09) ------------------------------------------------------------------------------
// Governance may allow ask denoms with any of the SI exponents (0, 1, 2, 3, 6, 9, ... 24); the first order in such a
// denom creates the Market row.  Every row so created must pass the module's own genesis validation.

func corpusMarketsOfEveryExponent(c Cfg) *Result {
	g := NewG(c, chain.Options{GenesisTime: T0})
	a := g.App
	g.Begin(g.now.Add(6 * time.Second))
	_, _, denom := g.corpusWorld()
	for i, e := range []uint32{0, 1, 2, 3, 6, 9, 12, 15, 18, 21, 24} {
		d := fmt.Sprintf("denom%d", e)
		g.Do(a.MsgAddAllowedDenom(d, fmt.Sprintf("DISPLAY%d", e), e), fmt.Sprintf("gov: allow %s with exponent %d", d, e))
		g.Do(a.MsgSell(i%NumUsers, chain.SellOrder(denom, "1", coin(d, 1000), true, nil)), fmt.Sprintf("first order priced in %s: creates its market", d))
	}
	g.Do(a.MsgAddAllowedDenom("denom7", "DISPLAY7", 7), "gov: exponent 7 is not an SI exponent (rejected)")
	g.Commit()
	g.GenesisRT("markets in denoms of every allowed exponent")
	return g.Finish()
}

// ---- rolled-back-market-creation (C03 / C10) -----------------------------------------------------------------------
// A transaction creates a market (first sell order in a denom) and a later message of the same transaction, which
// looks that market up, fails: everything is rolled back, including the market id sequence.  The next market gets the
// same id for ANOTHER denom; nothing of the rolled-back run may be remembered (a buyer bids in the order's ask denom
// and the seller is paid in it).

func corpusRolledBackMarketCreation(c Cfg) *Result {
	g := NewG(c, chain.Options{GenesisTime: T0})
	a := g.App
	g.Begin(g.now.Add(6 * time.Second))
	g.setupDenoms()
	_, _, denom := g.corpusWorld()
	next := g.Rec.State().Sequences["SellOrder"] + 1
	res := g.DoTx("one transaction: user 2 sells 1 credit at 1uatom (creating the first market) and then updates that order to a quantity it cannot escrow: rolled back as a whole",
		a.MsgSell(2, chain.SellOrder(denom, "1", coin("uatom", 1), true, nil)),
		a.MsgUpdateSellOrders(2, &market.MsgUpdateSellOrders_Update{SellOrderId: next, NewQuantity: "1000000000", NewAskPrice: coin("uatom", 2), DisableAutoRetire: true}))
	if res.OK {
		g.bump("rolled-back-market-creation:UNEXPECTEDLY-OK")
	}
	g.Do(a.MsgSell(1, chain.SellOrder(denom, "10", coin("uregen", 5000000), true, nil)), "user 1 sells 10 credits at 5000000uregen: the market created now re-uses the rolled-back id")
	id := g.Rec.State().Sequences["SellOrder"]
	g.Commit()
	g.Begin(g.nextTime())
	g.Do(a.MsgBuyDirect(3, chain.BuyOrder(id, "1", coin("uatom", 5000000), true, "", "", coin("uatom", 1000000))), expectNote(false, "C03", "bid-denom!=ask-denom", "a bid in uatom, the denom of the rolled-back market"))
	g.Do(a.MsgBuyDirect(3, chain.BuyOrder(id, "2", coin("uregen", 5000000), true, "", "", coin("uregen", 1000000))), expectNote(true, "C03", "matching-bid-denom-rejected", "an honest bid in the order's ask denom uregen"))
	g.Do(a.MsgUpdateSellOrders(1, &market.MsgUpdateSellOrders_Update{SellOrderId: id, NewQuantity: "8", NewAskPrice: coin("uregen", 6000000), DisableAutoRetire: true}), expectNote(true, "C06", "update-in-allowed-denom-rejected", "the seller re-prices in the same denom"))
	g.Commit()
	return g.Finish()
}

// ---- amounts-around-2^64-units (C01 / C19) -----------------------------------------------------------------------------
// Balances whose coefficient (in 10^-6 credits) is close to 2^63 and 2^64: every sum and difference must be exact.

func corpusAmountsAroundWordSize(c Cfg) *Result {
	g := NewG(c, chain.Options{GenesisTime: T0})
	a := g.App
	g.Begin(g.now.Add(6 * time.Second))
	cid := g.mkClass(0, []int{0}, "C")
	pid := g.mkProject(0, cid, "")
	const half = "9223372036854.775808"  // 2^63 units
	const most = "18446744073709.551615" // 2^64 - 1 units
	d1 := g.mkBatch(0, pid, date(2020, 1, 1), date(2021, 1, 1), true, nil, "2 x 2^63 units to the seller, 2^63 to the buyer", g.iss(1, half, ""), g.iss(1, half, ""), g.iss(3, half, ""))
	d2 := g.mkBatch(0, pid, date(2020, 2, 1), date(2021, 2, 1), true, nil, "2^64-1 units and one unit", g.iss(1, most, ""), g.iss(2, "0.000001", ""))
	g.Do(a.MsgSell(1, chain.SellOrder(d1, half, coin("stake", 1), true, nil)), "sell 2^63 units of 2^64")
	id := g.Rec.State().Sequences["SellOrder"]
	g.Do(a.MsgCancelSellOrder(1, id), "cancel: 2^63 escrowed + 2^63 tradable")
	g.Do(a.MsgSell(1, chain.SellOrder(d1, half, coin("stake", 1), false, nil)), "sell 2^63 units again")
	id = g.Rec.State().Sequences["SellOrder"]
	g.Do(a.MsgSendCredits(2, 1, d2, "0.000001", "", "", ""), "one unit on top of 2^64-1")
	g.Do(a.MsgSendCredits(1, 3, d1, half, "", "", ""), "send 2^63 units to a holder of 2^63")
	g.Do(a.MsgRetire(3, "US", "r", chain.Credits(d1, half)), "retire 2^63 of 2^64")
	g.Do(a.MsgRetire(3, "US", "r", chain.Credits(d1, half)), "retire the other 2^63: retired 2^64")
	g.Do(a.MsgCancelSellOrder(1, id), "cancel the second order")
	g.Commit()
	g.GenesisRT("balances around 2^64 units")
	return g.Finish()
}
